(* Proofs/FrameP.v — C19: lemmas and proofs about Model/Frame.v against Spec/FrameSpec.v. *)
From Asimap Require Import Base.Res Base.Bytes Spec.FrameSpec Model.Frame.
From Coq Require Import Lia.
Open Scope Z_scope.

(* ------------------------------------------------------------------ basics *)
Lemma blen_app a b : blen (a ++ b) = blen a + blen b.
Proof. unfold blen; rewrite app_length; lia. Qed.
Lemma blen_nonneg a : 0 <= blen a.
Proof. unfold blen; lia. Qed.
Lemma blen_cons x a : blen (x :: a) = 1 + blen a.
Proof. unfold blen; cbn [List.length]; lia. Qed.
Lemma blen_nil : blen [] = 0.
Proof. reflexivity. Qed.
Lemma blen_CRLF : blen CRLF = 2.
Proof. reflexivity. Qed.

Lemma isnil_app_r a b : b <> [] -> isnil (a ++ b) = false.
Proof. intros H; destruct a; [destruct b; [congruence|reflexivity]|reflexivity]. Qed.
Lemma isnil_false a : a <> [] -> isnil a = false.
Proof. destruct a; [congruence|reflexivity]. Qed.
Lemma isnil_true_iff a : isnil a = true <-> a = [].
Proof. destruct a; cbn; split; congruence. Qed.

Lemma emits_nil o : emits [] o = o.
Proof. destruct o; reflexivity. Qed.
Lemma emits_app a b o : emits (a ++ b) o = emits a (emits b o).
Proof. unfold emits; cbn [fst snd]; rewrite app_assoc; reflexivity. Qed.
Lemma emit_emits e o : emit e o = emits [e] o.
Proof. reflexivity. Qed.

Lemma gtb_false a b : a <= b -> (a >? b) = false.
Proof. intros H; rewrite Z.gtb_ltb; apply Z.ltb_ge; lia. Qed.
Lemma gtb_true a b : b < a -> (a >? b) = true.
Proof. intros H; rewrite Z.gtb_ltb; apply Z.ltb_lt; lia. Qed.

(* ------------------------------------------------------------------ split_crlf / readuntil *)
Lemma split_crlf_app l r : nocrlf l = true -> split_crlf (l ++ 13 :: 10 :: r) = Some (l, r).
Proof.
  induction l as [|x l IH]; intros Hn.
  - reflexivity.
  - cbn [app]. destruct l as [|y l'].
    + cbn [app split_crlf].
      replace ((x =? 13) && (13 =? 10)) with false by (rewrite andb_false_r; reflexivity).
      cbn. reflexivity.
    + cbn [nocrlf] in Hn. apply andb_true_iff in Hn as [H1 H2].
      change (split_crlf (x :: (y :: l') ++ 13 :: 10 :: r)) with
        (if (x =? 13) && (y =? 10) then Some ([], l' ++ 13 :: 10 :: r)
         else match split_crlf ((y :: l') ++ 13 :: 10 :: r) with Some (l0, r0) => Some (x :: l0, r0) | None => None end).
      apply negb_true_iff in H1. rewrite H1. rewrite (IH H2). reflexivity.
Qed.

Lemma split_crlf_spec s : forall l r, split_crlf s = Some (l, r) -> s = l ++ CRLF ++ r.
Proof.
  induction s as [|x s IH]; intros l r H; [discriminate H|].
  destruct s as [|y s']; [discriminate H|].
  change (split_crlf (x :: y :: s')) with
    (if (x =? 13) && (y =? 10) then Some ([], s')
     else match split_crlf (y :: s') with Some (l0, r0) => Some (x :: l0, r0) | None => None end) in H.
  destruct ((x =? 13) && (y =? 10)) eqn:E.
  - apply andb_true_iff in E as [E1 E2]. apply Z.eqb_eq in E1, E2. subst. inversion H; subst. reflexivity.
  - destruct (split_crlf (y :: s')) as [[l0 r0]|] eqn:E2; [|discriminate H].
    inversion H; subst. rewrite (IH l0 r eq_refl). reflexivity.
Qed.

Lemma split_crlf_len s l r : split_crlf s = Some (l, r) -> (List.length s = List.length l + 2 + List.length r)%nat.
Proof. intros H; apply split_crlf_spec in H; subst; rewrite !app_length; cbn; lia. Qed.

Lemma readuntil_app lim l r :
  nocrlf l = true -> blen l <= lim -> readuntil_crlf lim (l ++ CRLF ++ r) = RdOk (l ++ CRLF) r.
Proof.
  intros Hn Hl. unfold readuntil_crlf. change (CRLF ++ r) with (13 :: 10 :: r).
  rewrite (split_crlf_app _ _ Hn).
  rewrite (gtb_false _ _ Hl). reflexivity.
Qed.

Lemma readuntil_long lim l r :
  nocrlf l = true -> lim < blen l -> readuntil_crlf lim (l ++ CRLF ++ r) = RdLimit.
Proof.
  intros Hn Hl. unfold readuntil_crlf. change (CRLF ++ r) with (13 :: 10 :: r).
  rewrite (split_crlf_app _ _ Hn).
  rewrite (gtb_true _ _ Hl). reflexivity.
Qed.

Lemma readuntil_shorter lim s ch r : readuntil_crlf lim s = RdOk ch r -> (List.length r < List.length s)%nat.
Proof.
  unfold readuntil_crlf. destruct (split_crlf s) as [[l r0]|] eqn:E.
  - destruct (blen l >? lim); [discriminate|]. intros H; inversion H; subst.
    apply split_crlf_len in E. lia.
  - destruct (blen s - 1 >? lim); discriminate.
Qed.

(* ------------------------------------------------------------------ readexactly *)
Lemma readexactly_app d r : readexactly (blen d) (d ++ r) = Some (d, r).
Proof.
  unfold readexactly. rewrite blen_app.
  replace (blen d <=? blen d + blen r) with true by (symmetry; apply Z.leb_le; pose proof (blen_nonneg r); lia).
  unfold blen. rewrite Nat2Z.id.
  rewrite firstn_app, Nat.sub_diag, firstn_all. cbn [firstn]. rewrite app_nil_r.
  rewrite skipn_app, Nat.sub_diag, skipn_all. reflexivity.
Qed.

Lemma readexactly_shorter n s d r : readexactly n s = Some (d, r) -> (List.length r <= List.length s)%nat.
Proof.
  unfold readexactly. destruct (n <=? blen s); [|discriminate]. intros H; inversion H; subst.
  rewrite skipn_length. lia.
Qed.

Lemma readexactly_spec n s d r : 0 <= n -> readexactly n s = Some (d, r) -> s = d ++ r /\ blen d = n.
Proof.
  unfold readexactly. destruct (n <=? blen s) eqn:E; [|discriminate]. intros Hn H; inversion H; subst.
  apply Z.leb_le in E. split; [symmetry; apply firstn_skipn|].
  unfold blen in *. rewrite firstn_length. lia.
Qed.

(* ------------------------------------------------------------------ rstrip *)
Lemma rstrip_ws w : Forall (fun x => is_ws x = true) w -> rstrip w = [].
Proof. induction 1 as [|x w Hx _ IH]; [reflexivity|]. cbn [rstrip]. rewrite IH, Hx. reflexivity. Qed.

Lemma rstrip_app_ws l w : Forall (fun x => is_ws x = true) w -> rstrip (l ++ w) = rstrip l.
Proof.
  intros Hw. induction l as [|x l IH]; [apply rstrip_ws; exact Hw|].
  cbn [app rstrip]. rewrite IH. reflexivity.
Qed.

Lemma rstrip_snoc l x : is_ws x = false -> rstrip (l ++ [x]) = l ++ [x].
Proof.
  intros Hx. induction l as [|a l IH]; [cbn [app rstrip]; rewrite Hx; reflexivity|].
  cbn [app rstrip]. rewrite IH. destruct (l ++ [x]) eqn:E; [destruct l; discriminate E|reflexivity].
Qed.


Lemma ws_CRLF : Forall (fun x => is_ws x = true) CRLF.
Proof. repeat constructor. Qed.

Lemma rstrip_no_trailing t : no_trailing_ws t -> rstrip t = t.
Proof.
  intros H. destruct t as [|a t']; [reflexivity|].
  destruct (@exists_last _ (a :: t')) as [pre [x E]]; [discriminate|].
  rewrite E. apply rstrip_snoc. apply (H pre x E).
Qed.

Lemma rstrip_line t : no_trailing_ws t -> rstrip (t ++ CRLF) = t.
Proof. intros H. rewrite (rstrip_app_ws t CRLF ws_CRLF). apply rstrip_no_trailing; exact H. Qed.

(* a line that ends in '}' *)
Lemma rstrip_brace pre : rstrip ((pre ++ [125]) ++ CRLF) = pre ++ [125].
Proof. rewrite (rstrip_app_ws _ CRLF ws_CRLF). apply rstrip_snoc. reflexivity. Qed.

(* ------------------------------------------------------------------ the literal regex *)
Lemma span_digits_spec l : forall a b, span_digits l = (a, b) -> l = a ++ b /\ Forall (fun d => is_digit d = true) a.
Proof.
  induction l as [|x l IH]; intros a b H; cbn [span_digits] in H.
  - inversion H; subst. split; [reflexivity|constructor].
  - destruct (is_digit x) eqn:Ex.
    + destruct (span_digits l) as [a0 b0] eqn:E. inversion H; subst.
      destruct (IH a0 b eq_refl) as [H1 H2]. split; [cbn; rewrite H1; reflexivity|constructor; assumption].
    + inversion H; subst. split; [reflexivity|constructor].
Qed.

Lemma span_digits_app d x r :
  Forall (fun d => is_digit d = true) d -> is_digit x = false -> span_digits (d ++ x :: r) = (d, x :: r).
Proof.
  intros Hd Hx. induction Hd as [|y d Hy _ IH]; cbn [app span_digits].
  - rewrite Hx. reflexivity.
  - rewrite Hy, IH. reflexivity.
Qed.

Lemma Forall_rev_digit d : Forall (fun d => is_digit d = true) d -> Forall (fun d => is_digit d = true) (rev d).
Proof. intros H. apply Forall_forall. intros x Hx. apply in_rev in Hx. revert x Hx. apply Forall_forall. exact H. Qed.

Lemma rev_announce pre ds plus :
  rev (pre ++ announce ds plus) = 125 :: (if plus then [43] else []) ++ rev ds ++ 123 :: rev pre.
Proof.
  unfold announce. rewrite !rev_app_distr. cbn [rev app]. destruct plus; cbn [rev app]; rewrite <- ?app_assoc; reflexivity.
Qed.

Lemma digit_not_plus x : is_digit x = true -> (x =? 43) = false.
Proof. unfold is_digit. intros H. apply andb_true_iff in H as [H1 H2]. apply Z.leb_le in H1. apply Z.eqb_neq. lia. Qed.

Lemma lit_match_rev_announce pre ds plus :
  digits_ok ds -> lit_match_rev (rev (pre ++ announce ds plus)) = Some (ds, plus).
Proof.
  intros [Hne Hd]. rewrite rev_announce. unfold lit_match_rev.
  change (125 =? 125) with true. cbv iota.
  assert (Hr : Forall (fun d => is_digit d = true) (rev ds)) by (apply Forall_rev_digit; exact Hd).
  assert (Hrn : rev ds <> []) by (intros E; apply Hne; rewrite <- (rev_involutive ds), E; reflexivity).
  destruct plus.
  - cbn [app tl]. change (43 =? 43) with true. cbv iota. cbn [tl].
    rewrite (span_digits_app (rev ds) 123 (rev pre) Hr eq_refl).
    destruct (rev ds) as [|y dr] eqn:E; [congruence|].
    change (123 =? 123) with true. cbv iota. rewrite <- E, rev_involutive. reflexivity.
  - cbn [app]. destruct (rev ds) as [|y dr] eqn:E; [congruence|].
    cbn [app]. inversion Hr as [|? ? Hy Hdr]; subst. rewrite (digit_not_plus y Hy). cbv iota.
    change (y :: dr ++ 123 :: rev pre) with ((y :: dr) ++ 123 :: rev pre).
    rewrite (span_digits_app (y :: dr) 123 (rev pre) Hr eq_refl).
    change (123 =? 123) with true. cbv iota. rewrite <- E, rev_involutive. reflexivity.
Qed.

Lemma re_search_announce pre ds plus : digits_ok ds -> re_search (pre ++ announce ds plus) = Some (ds, plus).
Proof.
  intros H. unfold re_search. pose proof (lit_match_rev_announce pre ds plus H) as L.
  rewrite rev_announce in *. change (125 =? 10) with false. cbv iota. exact L.
Qed.

Lemma lit_match_rev_sound r0 ds plus :
  lit_match_rev r0 = Some (ds, plus) -> exists pre, rev r0 = pre ++ announce ds plus /\ digits_ok ds.
Proof.
  unfold lit_match_rev. destruct r0 as [|c r]; [discriminate|].
  destruct (c =? 125) eqn:Ec; [|discriminate]. apply Z.eqb_eq in Ec. subst c. cbv zeta.
  assert (G : forall (pl : bool) (r1 : bytes), r = (if pl then [43] else []) ++ r1 ->
     (let (dr, r2) := span_digits r1 in
      match dr, r2 with
      | _ :: _, o :: _ => if o =? 123 then Some (rev dr, pl) else None
      | _, _ => None
      end) = Some (ds, plus) -> exists pre, rev (125 :: r) = pre ++ announce ds plus /\ digits_ok ds).
  { intros pl r1 Er H. destruct (span_digits r1) as [dr r2] eqn:Es.
    destruct dr as [|d0 dr]; [discriminate H|]. destruct r2 as [|o r3]; [discriminate H|].
    destruct (o =? 123) eqn:Eo; [|discriminate H]. apply Z.eqb_eq in Eo. subst o.
    inversion H; subst. clear H.
    apply span_digits_spec in Es as [E1 E2].
    exists (rev r3). split.
    - rewrite E1. unfold announce. cbn [rev]. rewrite !rev_app_distr. cbn [rev app].
      destruct plus; cbn [rev app]; rewrite <- ?app_assoc; cbn [app]; rewrite <- ?app_assoc; reflexivity.
    - split.
      + intros E. cbn [rev] in E. apply app_eq_nil in E as [_ E]. discriminate E.
      + apply (Forall_rev_digit (d0 :: dr)). exact E2. }
  destruct r as [|p r'].
  - intros H. discriminate H.
  - destruct (p =? 43) eqn:Ep.
    + apply Z.eqb_eq in Ep. subst p. cbn [tl]. apply (G true r' eq_refl).
    + apply (G false (p :: r') eq_refl).
Qed.

Lemma ws_10 : is_ws 10 = true.
Proof. reflexivity. Qed.

Lemma re_search_none t : no_trailing_ws t -> ~ ends_in_announce t -> re_search t = None.
Proof.
  intros Hw Hn. unfold re_search. destruct (rev t) as [|c r] eqn:E; [reflexivity|].
  assert (Et : t = rev r ++ [c]) by (rewrite <- (rev_involutive t), E; reflexivity).
  destruct (c =? 10) eqn:Ec.
  - apply Z.eqb_eq in Ec. subst c. pose proof (Hw _ _ Et) as W. discriminate W.
  - destruct (lit_match_rev (c :: r)) as [[ds plus]|] eqn:L; [|reflexivity].
    exfalso. apply Hn. apply lit_match_rev_sound in L as [pre [H1 H2]].
    exists pre, ds, plus. split; [|exact H2]. rewrite <- H1, <- E, rev_involutive. reflexivity.
Qed.

(* ------------------------------------------------------------------ fuel *)
Section Fuel.
  Variable c : cfg.

  Lemma after_big_ext k1 k2 n plus rest :
    (forall b z s', (List.length s' <= List.length rest)%nat -> k1 b z s' = k2 b z s') ->
    after_big_literal c k1 n plus rest = after_big_literal c k2 n plus rest.
  Proof.
    intros H. unfold after_big_literal. destruct (fix_resync c).
    - destruct plus; [|apply H; lia].
      destruct (readexactly n rest) as [[d r']|] eqn:E; [|reflexivity].
      apply H. apply readexactly_shorter in E. exact E.
    - destruct (readuntil_crlf (rlimit c) rest) as [ch r'| |] eqn:E; try reflexivity.
      apply H. apply readuntil_shorter in E. lia.
  Qed.

  Lemma body_ext k1 k2 buf size s :
    (forall b z s', (List.length s' < List.length s)%nat -> k1 b z s' = k2 b z s') ->
    body c k1 buf size s = body c k2 buf size s.
  Proof.
    intros H. unfold body.
    destruct (readuntil_crlf (rlimit c) s) as [ch rest| |] eqn:E; try reflexivity.
    apply readuntil_shorter in E.
    destruct (isnil (buf_add buf (rstrip ch))); [rewrite H by exact E; reflexivity|].
    destruct (re_search (rstrip ch)) as [[ds plus]|].
    - unfold on_literal. destruct (blen ds >? maxdigits c); [reflexivity|].
      destruct (dec_val ds >? maxin c).
      + f_equal. apply after_big_ext. intros b z s' Hs. apply H. lia.
      + f_equal. destruct (readexactly (dec_val ds) rest) as [[d r']|] eqn:E2; [|reflexivity].
        apply readexactly_shorter in E2.
        destruct (size_add size (rstrip ch) + (blen d + 2) >? maxin c); rewrite H by lia; reflexivity.
    - unfold on_line. destruct (size_add size (rstrip ch) >? maxin c); rewrite H by exact E; reflexivity.
  Qed.

  Lemma loop_fuel : forall f1 f2 buf size s,
    (List.length s < f1)%nat -> (List.length s < f2)%nat -> loop c f1 buf size s = loop c f2 buf size s.
  Proof.
    induction f1 as [|f1 IH]; intros f2 buf size s H1 H2; [lia|].
    destruct f2 as [|f2]; [lia|]. cbn [loop]. apply body_ext.
    intros b z s' Hs. apply IH; lia.
  Qed.

  Lemma run_unfold buf size s : run c buf size s = body c (run c) buf size s.
  Proof.
    unfold run at 1. cbn [loop]. apply body_ext. intros b z s' Hs. unfold run. apply loop_fuel; lia.
  Qed.

  (* the result never depends on the fuel once it exceeds the length of the stream *)
  Lemma frame_loop_fuel_free s f : (List.length s < f)%nat -> loop c f [] 0 s = frame_loop c s.
  Proof. intros H. unfold frame_loop, run. apply loop_fuel; lia. Qed.
End Fuel.

(* ------------------------------------------------------------------ buffer bookkeeping *)
Lemma buf_add_eq buf msg : buf_add buf msg = buf ++ msg.
Proof. unfold buf_add. destruct msg; [rewrite app_nil_r|]; reflexivity. Qed.
Lemma size_add_eq buf msg : size_add (blen buf) msg = blen (buf ++ msg).
Proof. unfold size_add. destruct msg; cbn [isnil]; [rewrite app_nil_r; reflexivity|rewrite blen_app; reflexivity]. Qed.

(* ------------------------------------------------------------------ nocrlf *)
Lemma nocrlf_no10 b : (forall x, In x b -> x <> 10) -> nocrlf b = true.
Proof.
  induction b as [|x b IH]; intros H; [reflexivity|].
  destruct b as [|y b']; [reflexivity|].
  change (nocrlf (x :: y :: b')) with (negb ((x =? 13) && (y =? 10)) && nocrlf (y :: b')).
  rewrite IH by (intros z Hz; apply H; right; exact Hz).
  assert (Hy : y <> 10) by (apply H; right; left; reflexivity).
  apply Z.eqb_neq in Hy. rewrite Hy, andb_false_r. reflexivity.
Qed.

Lemma nocrlf_app a b : nocrlf a = true -> (forall x, In x b -> x <> 10) -> nocrlf (a ++ b) = true.
Proof.
  intros Ha Hb. induction a as [|x a IH]; [apply nocrlf_no10; exact Hb|].
  destruct a as [|y a'].
  - cbn [app]. destruct b as [|z b']; [reflexivity|].
    change (nocrlf (x :: z :: b')) with (negb ((x =? 13) && (z =? 10)) && nocrlf (z :: b')).
    rewrite (nocrlf_no10 (z :: b') Hb).
    assert (Hz : z <> 10) by (apply Hb; left; reflexivity).
    apply Z.eqb_neq in Hz. rewrite Hz, andb_false_r. reflexivity.
  - change (nocrlf (x :: y :: a')) with (negb ((x =? 13) && (y =? 10)) && nocrlf (y :: a')) in Ha.
    apply andb_true_iff in Ha as [H1 H2].
    change (nocrlf ((x :: y :: a') ++ b)) with (negb ((x =? 13) && (y =? 10)) && nocrlf ((y :: a') ++ b)).
    rewrite H1, (IH H2). reflexivity.
Qed.

Lemma digit_not10 ds : Forall (fun d => is_digit d = true) ds -> forall x, In x ds -> x <> 10.
Proof.
  intros H x Hx. rewrite Forall_forall in H. specialize (H x Hx). unfold is_digit in H.
  apply andb_true_iff in H as [H1 _]. apply Z.leb_le in H1. lia.
Qed.

Lemma announce_no10 ds plus : digits_ok ds -> forall x, In x (announce ds plus) -> x <> 10.
Proof.
  intros [_ Hd] x Hx. unfold announce in Hx. cbn [app] in Hx. destruct Hx as [E|Hx]; [lia|].
  apply in_app_or in Hx as [Hx|Hx]; [apply (digit_not10 ds Hd x Hx)|].
  apply in_app_or in Hx as [Hx|Hx].
  - destruct plus; cbn in Hx; [destruct Hx as [E|[]]; lia|destruct Hx].
  - cbn in Hx. destruct Hx as [E|[]]. lia.
Qed.

Lemma announce_brace ds plus : exists pre, announce ds plus = pre ++ [125].
Proof. unfold announce. exists ([123] ++ ds ++ (if plus then [43] else [])). rewrite <- !app_assoc. reflexivity. Qed.

(* ------------------------------------------------------------------ one step of the loop *)
Section Steps.
  Variable c : cfg.

  Lemma step_blank w rest :
    Forall (fun x => is_ws x = true) w -> nocrlf w = true -> blen w <= rlimit c ->
    run c [] 0 (w ++ CRLF ++ rest) = emit (Wr BAD_EMPTY) (run c [] 0 rest).
  Proof.
    intros Hw Hn Hl. rewrite run_unfold at 1. unfold body.
    rewrite (readuntil_app _ _ _ Hn Hl). cbv zeta.
    rewrite (rstrip_app_ws w CRLF ws_CRLF), (rstrip_ws w Hw). reflexivity.
  Qed.

  Lemma step_last buf t rest :
    nocrlf t = true -> blen t <= rlimit c -> no_trailing_ws t -> ~ ends_in_announce t ->
    buf ++ t <> [] ->
    run c buf (blen buf) (t ++ CRLF ++ rest) =
      (if blen (buf ++ t) >? maxin c then emit (Wr BAD_CMD) (run c [] 0 rest)
       else emit (Msg (buf ++ t)) (run c [] 0 rest)).
  Proof.
    intros Hn Hl Hw Ha Hne. rewrite run_unfold at 1. unfold body.
    rewrite (readuntil_app _ _ _ Hn Hl). cbv zeta.
    rewrite (rstrip_line t Hw), buf_add_eq, size_add_eq, (isnil_false _ Hne), (re_search_none t Hw Ha).
    reflexivity.
  Qed.

  (* a line that announces a literal: what the loop does up to the decision on the size *)
  Lemma step_announce buf t ds plus rest :
    nocrlf t = true -> digits_ok ds -> blen (t ++ announce ds plus) <= rlimit c ->
    run c buf (blen buf) (t ++ announce ds plus ++ CRLF ++ rest) =
      on_literal c (run c) (buf ++ t ++ announce ds plus) (blen (buf ++ t ++ announce ds plus)) ds plus rest.
  Proof.
    intros Hn Hd Hl. rewrite run_unfold at 1. unfold body.
    replace (t ++ announce ds plus ++ CRLF ++ rest) with ((t ++ announce ds plus) ++ CRLF ++ rest)
      by (rewrite <- app_assoc; reflexivity).
    rewrite (readuntil_app _ _ _ (nocrlf_app _ _ Hn (announce_no10 ds plus Hd)) Hl). cbv zeta.
    destruct (announce_brace ds plus) as [pre Ep].
    assert (Er : rstrip ((t ++ announce ds plus) ++ CRLF) = t ++ announce ds plus).
    { rewrite Ep, app_assoc. apply rstrip_brace. }
    rewrite Er, buf_add_eq, size_add_eq, (re_search_announce t ds plus Hd).
    rewrite isnil_app_r; [reflexivity|].
    rewrite Ep. intros E. apply app_eq_nil in E as [_ E]. apply app_eq_nil in E as [_ E]. discriminate E.
  Qed.

  (* an announcement within the limits, followed by its octets *)
  Lemma step_lit buf t ds plus data rest :
    nocrlf t = true -> digits_ok ds -> blen (t ++ announce ds plus) <= rlimit c ->
    blen ds <= maxdigits c -> dec_val ds = blen data -> blen data <= maxin c ->
    run c buf (blen buf) (t ++ announce ds plus ++ CRLF ++ data ++ rest) =
      emits (if plus then [] else [Wr CONT])
        (let buf2 := buf ++ t ++ announce ds plus ++ CRLF ++ data in
         if blen buf2 >? maxin c then emit (Wr BAD_CMD) (run c [] 0 rest)
         else run c buf2 (blen buf2) rest).
  Proof.
    intros Hn Hd Hl Hm Hv Hs.
    rewrite (step_announce buf t ds plus (data ++ rest) Hn Hd Hl). unfold on_literal.
    rewrite (gtb_false _ _ Hm), Hv, (gtb_false _ _ Hs), readexactly_app. cbv zeta.
    replace ((buf ++ t ++ announce ds plus) ++ CRLF ++ data) with (buf ++ t ++ announce ds plus ++ CRLF ++ data)
      by (rewrite <- !app_assoc; reflexivity).
    replace (blen (buf ++ t ++ announce ds plus) + (blen data + 2)) with (blen (buf ++ t ++ announce ds plus ++ CRLF ++ data))
      by (rewrite !blen_app, blen_CRLF; lia).
    reflexivity.
  Qed.

  (* an announcement of more than the limit *)
  Lemma step_biglit buf t ds plus data rest :
    fix_resync c = true ->
    nocrlf t = true -> digits_ok ds -> blen (t ++ announce ds plus) <= rlimit c ->
    blen ds <= maxdigits c -> maxin c < dec_val ds ->
    (if plus then blen data = dec_val ds else data = []) ->
    run c buf (blen buf) (t ++ announce ds plus ++ CRLF ++ data ++ rest) = emit (Wr BAD_LIT) (run c [] 0 rest).
  Proof.
    intros Hf Hn Hd Hl Hm Hv Hp.
    rewrite (step_announce buf t ds plus (data ++ rest) Hn Hd Hl). unfold on_literal.
    rewrite (gtb_false _ _ Hm), (gtb_true _ _ Hv). unfold after_big_literal. rewrite Hf.
    destruct plus.
    - rewrite <- Hp, readexactly_app. reflexivity.
    - rewrite Hp. reflexivity.
  Qed.
End Steps.

(* ------------------------------------------------------------------ commands and streams *)
Lemma ctext_split t ls : ctext t ls = ctext_pre t ls ++ last_text t ls.
Proof.
  revert t. induction ls as [|l r IH]; intros t; cbn [ctext ctext_pre last_text]; [reflexivity|].
  rewrite IH, <- !app_assoc. reflexivity.
Qed.

Lemma lit_data_le l : lit_ok l -> blen (l_data l) = dec_val (l_digits l).
Proof. intros [_ H]. symmetry. exact H. Qed.

Section Stream.
  Variable c : cfg.
  Hypothesis Hfix : fix_resync c = true.
  Hypothesis Hlim : 0 <= rlimit c.

  Notation lines_ok := (lines_ok (rlimit c) (maxdigits c)).
  Notation wf_cmd := (wf_cmd (maxin c) (rlimit c) (maxdigits c)).
  Notation wf_item := (wf_item (maxin c) (rlimit c) (maxdigits c)).

  (* the literals of a command whose accumulated size stays within the limit *)
  Lemma lits_run : forall ls buf t tail,
    lines_ok t ls -> blen (buf ++ ctext_pre t ls) <= maxin c ->
    run c buf (blen buf) (ctext_pre t ls ++ last_text t ls ++ tail) =
      emits (conts ls) (run c (buf ++ ctext_pre t ls) (blen (buf ++ ctext_pre t ls)) (last_text t ls ++ tail)).
  Proof.
    induction ls as [|l r IH]; intros buf t tail Hok Hsz.
    - cbn [ctext_pre last_text conts flat_map app]. rewrite emits_nil, app_nil_r. reflexivity.
    - cbn [lines_ok] in Hok. destruct Hok as (Hn & Hl & Hlit & Hmd & Hr).
      cbn [ctext_pre last_text]. rewrite <- ?app_assoc.
      pose proof Hlit as [Hd Hv].
      assert (Hsz2 : blen (buf ++ t ++ announce (l_digits l) (l_plus l) ++ CRLF ++ l_data l) <= maxin c).
      { cbn [ctext_pre] in Hsz. revert Hsz. rewrite !blen_app.
        pose proof (blen_nonneg (ctext_pre (l_text l) r)). lia. }
      assert (Hdl : blen (l_data l) <= maxin c).
      { revert Hsz2. rewrite !blen_app. pose proof (blen_nonneg buf). pose proof (blen_nonneg t).
        pose proof (blen_nonneg (announce (l_digits l) (l_plus l))). rewrite blen_CRLF. lia. }
      rewrite (step_lit c buf t (l_digits l) (l_plus l) (l_data l) _ Hn Hd Hl Hmd Hv Hdl). cbv zeta.
      rewrite (gtb_false _ _ Hsz2).
      rewrite (IH _ (l_text l) tail Hr).
      + change (conts (l :: r)) with ((if l_plus l then [] else [Wr CONT]) ++ conts r).
        rewrite emits_app. cbn [ctext_pre]. rewrite <- ?app_assoc. reflexivity.
      + cbn [ctext_pre] in Hsz. rewrite <- ?app_assoc in Hsz. rewrite <- ?app_assoc. exact Hsz.
  Qed.

  Lemma run_nil : run c [] 0 [] = ([], Eof).
  Proof.
    rewrite run_unfold. unfold body, readuntil_crlf. cbn [split_crlf].
    rewrite gtb_false; [reflexivity|]. rewrite blen_nil. lia.
  Qed.

  Lemma denote_nonnil_buf cm : denote cm <> [] -> ctext_pre (c_first cm) (c_lits cm) ++ last_text (c_first cm) (c_lits cm) <> [].
  Proof. unfold denote. rewrite ctext_split. auto. Qed.

  (* a complete command within the limits (this does not depend on any of the fixes) *)
  Lemma cmd_run cm tail :
    wf_cmd cm -> run c [] 0 (render cm ++ tail) = emits (conts (c_lits cm) ++ [Msg (denote cm)]) (run c [] 0 tail).
  Proof.
    intros (Hok & Hn & Hl & Hw & Ha & Hne & Hsz).
    unfold render, denote in *. rewrite ctext_split in *. rewrite <- ?app_assoc.
    assert (Hp : blen ([] ++ ctext_pre (c_first cm) (c_lits cm)) <= maxin c).
    { cbn [app]. revert Hsz. rewrite blen_app. pose proof (blen_nonneg (last_text (c_first cm) (c_lits cm))). lia. }
    change 0 with (blen []).
    rewrite (lits_run _ [] _ _ Hok Hp). cbn [app].
    rewrite (step_last c _ _ tail Hn Hl Hw Ha Hne), (gtb_false _ _ Hsz).
    rewrite emits_app. reflexivity.
  Qed.

  Lemma cmds_run : forall cmds,
    Forall wf_cmd cmds ->
    frame_loop c (List.concat (map render cmds)) = (flat_map (fun cm => conts (c_lits cm) ++ [Msg (denote cm)]) cmds, Eof).
  Proof.
    unfold frame_loop. induction 1 as [|cm cmds Hc _ IH].
    - apply run_nil.
    - cbn [map List.concat flat_map]. rewrite (cmd_run cm _ Hc), IH. unfold emits. cbn [fst snd]. reflexivity.
  Qed.

  Lemma item_run i tail :
    wf_item i -> run c [] 0 (render_item i ++ tail) = emits (item_events i) (run c [] 0 tail).
  Proof.
    destruct i as [cm|w|cm ds plus data|cm l|cm]; cbn [wf_item render_item item_events].
    - (* a complete command *)
      apply cmd_run.
    - (* a blank line *)
      intros (Hw & Hn & Hl). rewrite <- app_assoc. apply (step_blank c w tail Hw Hn Hl).
    - (* an announcement over the limit *)
      intros ((Hok & Hp) & Hn & Hl & Hd & Hmd & Hv & Hdata).
      unfold denote. rewrite ctext_split. rewrite <- ?app_assoc.
      change 0 with (blen []).
      rewrite (lits_run _ [] _ _ Hok Hp). cbn [app].
      rewrite (step_biglit c _ _ ds plus data tail Hfix Hn Hd Hl Hmd Hv Hdata).
      rewrite emits_app. reflexivity.
    - (* accumulated size over the limit at a literal *)
      intros ((Hok & Hp) & Hn & Hl & Hlit & Hmd & Hv & Hbig).
      unfold denote in *. rewrite ctext_split in *. rewrite <- ?app_assoc in *.
      change 0 with (blen []).
      rewrite (lits_run _ [] _ _ Hok Hp). cbn [app].
      pose proof Hlit as [Hd Hval].
      assert (Hdl : blen (l_data l) <= maxin c) by (rewrite <- Hval; exact Hv).
      rewrite (step_lit c _ _ (l_digits l) (l_plus l) (l_data l) tail Hn Hd Hl Hmd Hval Hdl). cbv zeta.
      rewrite <- ?app_assoc. rewrite (gtb_true _ _ Hbig).
      rewrite !emits_app. cbn [conts flat_map]. rewrite app_nil_r. reflexivity.
    - (* the last line makes the command too large *)
      intros ((Hok & Hp) & Hn & Hl & Hw & Ha & Hne & Hbig).
      unfold render, denote in *. rewrite ctext_split in *. rewrite <- ?app_assoc.
      change 0 with (blen []).
      rewrite (lits_run _ [] _ _ Hok Hp). cbn [app].
      rewrite (step_last c _ _ tail Hn Hl Hw Ha Hne), (gtb_true _ _ Hbig).
      rewrite emits_app. reflexivity.
  Qed.

  Theorem stream_run : forall items,
    Forall wf_item items ->
    frame_loop c (List.concat (map render_item items)) = (flat_map item_events items, Eof).
  Proof.
    unfold frame_loop. induction 1 as [|i items Hi _ IH].
    - apply run_nil.
    - cbn [map List.concat flat_map]. rewrite (item_run i _ Hi), IH. unfold emits. cbn [fst snd]. reflexivity.
  Qed.
End Stream.

(* ------------------------------------------------------------------ all streams: what can be handed on *)
(* whatever the stream is, the loop never runs out of fuel, and a message handed on is non-empty
   and not larger than the limit *)
Section Invariant.
  Variable c : cfg.
  Definition ev_ok (e : ev) : Prop := match e with Msg m => m <> [] /\ blen m <= maxin c | Wr _ => True end.
  Definition good (o : outp) : Prop := snd o <> NoFuel /\ Forall ev_ok (fst o).

  Lemma good_stop es st : st <> NoFuel -> Forall ev_ok es -> good (es, st).
  Proof. intros; split; assumption. Qed.
  Lemma good_emit e o : ev_ok e -> good o -> good (emit e o).
  Proof. intros He [H1 H2]. split; [exact H1|constructor; assumption]. Qed.
  Lemma good_emits es o : Forall ev_ok es -> good o -> good (emits es o).
  Proof. intros He [H1 H2]. split; [exact H1|apply Forall_app; split; assumption]. Qed.

  Lemma body_good k buf s :
    (forall b s', (List.length s' < List.length s)%nat -> good (k b (blen b) s')) ->
    good (body c k buf (blen buf) s).
  Proof.
    intros H. unfold body.
    destruct (readuntil_crlf (rlimit c) s) as [ch rest| |] eqn:E.
    - apply readuntil_shorter in E. cbv zeta. rewrite buf_add_eq, size_add_eq.
      destruct (isnil (buf ++ rstrip ch)) eqn:En.
      + apply good_emit; [exact I|apply H; exact E].
      + assert (Hne : buf ++ rstrip ch <> []) by (intros E0; rewrite E0 in En; discriminate En).
        destruct (re_search (rstrip ch)) as [[ds plus]|].
        * unfold on_literal. destruct (blen ds >? maxdigits c); [apply good_stop; [discriminate|constructor]|].
          destruct (dec_val ds >? maxin c).
          -- apply good_emit; [exact I|]. unfold after_big_literal. destruct (fix_resync c).
             ++ destruct plus; [|apply (H [] rest E)].
                destruct (readexactly (dec_val ds) rest) as [[d r']|] eqn:E2; [|apply good_stop; [discriminate|constructor]].
                apply readexactly_shorter in E2. apply (H [] r'). lia.
             ++ destruct (readuntil_crlf (rlimit c) rest) as [ch2 r'| |] eqn:E2;
                  try (apply good_stop; [discriminate|constructor]).
                apply readuntil_shorter in E2. apply (H [] r'). lia.
          -- apply good_emits; [destruct plus; repeat constructor|].
             destruct (readexactly (dec_val ds) rest) as [[d r']|] eqn:E2; [|apply good_stop; [discriminate|constructor]].
             apply readexactly_shorter in E2. cbv zeta.
             replace (blen (buf ++ rstrip ch) + (blen d + 2)) with (blen ((buf ++ rstrip ch) ++ CRLF ++ d))
               by (rewrite !blen_app, blen_CRLF; lia).
             destruct (blen ((buf ++ rstrip ch) ++ CRLF ++ d) >? maxin c).
             ++ apply good_emit; [exact I|apply (H [] r'); lia].
             ++ apply H. lia.
        * unfold on_line. destruct (blen (buf ++ rstrip ch) >? maxin c) eqn:Es.
          -- apply good_emit; [exact I|apply (H [] rest E)].
          -- apply good_emit; [|apply (H [] rest E)]. split; [exact Hne|].
             rewrite Z.gtb_ltb in Es. apply Z.ltb_ge in Es. exact Es.
    - apply good_stop; [discriminate|constructor].
    - destruct (fix_longline c); apply good_stop; try discriminate; repeat constructor.
  Qed.

  Lemma loop_good : forall f buf s, (List.length s < f)%nat -> good (loop c f buf (blen buf) s).
  Proof.
    induction f as [|f IH]; intros buf s Hf; [lia|]. cbn [loop]. apply body_good.
    intros b s' Hs. apply IH. lia.
  Qed.

  Lemma frame_loop_good s : good (frame_loop c s).
  Proof. unfold frame_loop, run. apply (loop_good _ [] s). lia. Qed.

  Lemma msgs_of_good o : good o -> Forall (fun m => m <> [] /\ blen m <= maxin c) (msgs_of o).
  Proof.
    intros [_ H]. unfold msgs_of. induction H as [|e es He _ IH]; [constructor|].
    cbn [flat_map]. destruct e as [w|m]; cbn [app]; [exact IH|constructor; [exact He|exact IH]].
  Qed.
End Invariant.

(* ------------------------------------------------------------------ decimal numbers *)
Lemma dec_val_snoc a d : dec_val (a ++ [d]) = dec_val a * 10 + (d - 48).
Proof. unfold dec_val. rewrite fold_left_app. reflexivity. Qed.

Lemma is_digit_48 n : 0 <= n < 10 -> is_digit (48 + n) = true.
Proof. intros H. unfold is_digit. apply andb_true_iff. split; apply Z.leb_le; lia. Qed.

Lemma dec_fuel_spec : forall f n acc, (1 <= f)%nat -> 0 <= n < 10 ^ Z.of_nat f ->
  exists ds, dec_fuel f n acc = ds ++ acc /\ digits_ok ds /\ dec_val ds = n.
Proof.
  induction f as [|f IH]; intros n acc Hf Hn; [lia|].
  cbn [dec_fuel]. destruct (n <? 10) eqn:E.
  - apply Z.ltb_lt in E. exists [48 + n]. split; [reflexivity|]. split.
    + split; [discriminate|]. constructor; [apply is_digit_48; lia|constructor].
    + unfold dec_val. cbn [fold_left]. lia.
  - apply Z.ltb_ge in E.
    assert (Hf1 : (1 <= f)%nat).
    { destruct f; [|lia]. cbn in Hn. lia. }
    assert (Hn10 : 0 <= n / 10 < 10 ^ Z.of_nat f).
    { split; [apply Z.div_pos; lia|]. apply Z.div_lt_upper_bound; [lia|].
      rewrite Nat2Z.inj_succ, Z.pow_succ_r in Hn by lia. lia. }
    destruct (IH (n / 10) ((48 + n mod 10) :: acc) Hf1 Hn10) as [ds [E1 [[E2 E3] E4]]].
    exists (ds ++ [48 + n mod 10]). split; [rewrite E1, <- app_assoc; reflexivity|]. split.
    + split; [intros E0; apply app_eq_nil in E0 as [_ E0]; discriminate E0|].
      apply Forall_app. split; [exact E3|]. constructor; [|constructor].
      apply is_digit_48. apply Z.mod_pos_bound. lia.
    + rewrite dec_val_snoc, E4. pose proof (Z.div_mod n 10). lia.
Qed.

Lemma dec_spec n : 0 <= n -> digits_ok (dec n) /\ dec_val (dec n) = n.
Proof.
  intros Hn. unfold dec.
  assert (Hb : 0 <= n < 10 ^ Z.of_nat (S (Z.to_nat (Z.log2 n)))).
  { split; [exact Hn|]. rewrite Nat2Z.inj_succ, Z2Nat.id by apply Z.log2_nonneg.
    destruct (Z.eq_dec n 0) as [->|Hne]; [cbn; lia|].
    pose proof (Z.log2_spec n ltac:(lia)) as [_ H2].
    eapply Z.lt_le_trans; [exact H2|].
    apply Z.pow_le_mono_l. lia. }
  destruct (dec_fuel_spec (S (Z.to_nat (Z.log2 n))) n [] ltac:(lia) Hb) as [ds [E1 [E2 E3]]].
  rewrite E1, app_nil_r. split; assumption.
Qed.

(* ------------------------------------------------------------------ IPC framing *)
Lemma split_lf_app l r : (forall x, In x l -> x <> 10) -> split_lf (l ++ 10 :: r) = Some (l, r).
Proof.
  induction l as [|x l IH]; intros H; [reflexivity|].
  cbn [app split_lf]. assert (Hx : x <> 10) by (apply H; left; reflexivity).
  apply Z.eqb_neq in Hx. rewrite Hx, IH by (intros y Hy; apply H; right; exact Hy). reflexivity.
Qed.

Lemma frame_shape m : frame m = announce (dec (blen m)) false ++ 10 :: m.
Proof. unfold frame, announce. rewrite <- !app_assoc. reflexivity. Qed.

Lemma re_search_header ds : digits_ok ds -> re_search (announce ds false ++ [10]) = Some (ds, false).
Proof.
  intros H. unfold re_search. rewrite rev_app_distr. cbn [rev app]. change (10 =? 10) with true. cbv iota.
  apply (lit_match_rev_announce [] ds false H).
Qed.

Lemma deframe_frame mx f first m rest :
  blen m <= mx -> (first && bytes_eqb m POP3_MARK = false) ->
  deframe_loop mx (S f) first (frame m ++ rest) =
    let (ms, st) := deframe_loop mx f false rest in (m :: ms, st).
Proof.
  intros Hm Hp. cbn [deframe_loop]. rewrite frame_shape, <- app_assoc. cbn [app].
  destruct (dec_spec (blen m) (blen_nonneg m)) as [Hd Hv].
  rewrite (split_lf_app _ _ (announce_no10 _ false Hd)).
  rewrite (re_search_header _ Hd), Hv, (gtb_false _ _ Hm), readexactly_app, Hp. reflexivity.
Qed.

Lemma deframe_frames mx : forall ms f first,
  (List.length ms < f)%nat -> Forall (fun m => blen m <= mx) ms ->
  (first = true -> match ms with m :: _ => bytes_eqb m POP3_MARK = false | [] => True end) ->
  deframe_loop mx f first (List.concat (map frame ms)) = (ms, DEof).
Proof.
  induction ms as [|m ms IH]; intros f first Hf Hall Hp.
  - destruct f; [cbn in Hf; lia|]. reflexivity.
  - destruct f; [cbn in Hf; lia|]. cbn [map List.concat]. inversion Hall as [|? ? Hm Hms]; subst.
    rewrite deframe_frame; [|exact Hm|destruct first; [apply Hp; reflexivity|reflexivity]].
    rewrite IH; [reflexivity|cbn in Hf; lia|exact Hms|discriminate].
Qed.

Lemma frame_length m : (1 <= List.length (frame m))%nat.
Proof. unfold frame. cbn [app List.length]. lia. Qed.

Lemma frames_length ms : (List.length ms <= List.length (List.concat (map frame ms)))%nat.
Proof.
  induction ms as [|m ms IH]; [cbn; lia|]. cbn [map List.concat List.length]. rewrite app_length.
  pose proof (frame_length m). lia.
Qed.

Theorem deframe_inverse mx ms :
  Forall (fun m => blen m <= mx) ms ->
  match ms with m :: _ => bytes_eqb m POP3_MARK = false | [] => True end ->
  deframe mx (List.concat (map frame ms)) = (ms, DEof).
Proof.
  intros H Hp. unfold deframe. apply deframe_frames; [pose proof (frames_length ms); lia|exact H|intros _; exact Hp].
Qed.

(* end to end: whatever the client sends, the user process de-frames exactly what the front-end handed on *)
Theorem ipc_roundtrip c s :
  match msgs_of (frame_loop c s) with m :: _ => bytes_eqb m POP3_MARK = false | [] => True end ->
  deframe (maxin c) (List.concat (map frame (msgs_of (frame_loop c s)))) = (msgs_of (frame_loop c s), DEof).
Proof.
  intros Hp. apply deframe_inverse; [|exact Hp].
  pose proof (msgs_of_good c _ (frame_loop_good c s)) as H.
  eapply Forall_impl; [|exact H]. intros m [_ Hm]. exact Hm.
Qed.

(* ------------------------------------------------------------------ response relay *)
Section Relay.
  Variable lim : Z.
  Hypothesis Hlim : 0 <= lim.

  Lemma relay_loop_fuel fx : forall f1 f2 s,
    (List.length s < f1)%nat -> (List.length s < f2)%nat -> relay_loop lim fx f1 s = relay_loop lim fx f2 s.
  Proof.
    induction f1 as [|f1 IH]; intros f2 s H1 H2; [lia|]. destruct f2 as [|f2]; [lia|].
    cbn [relay_loop]. destruct (isnil s); [reflexivity|].
    destruct (split_crlf s) as [[l r]|] eqn:E; [|reflexivity].
    apply split_crlf_len in E.
    destruct (blen l >? lim) eqn:El.
    - destruct fx; [|reflexivity].
      assert (Hl : (1 <= List.length l)%nat).
      { rewrite Z.gtb_ltb in El. apply Z.ltb_lt in El. unfold blen in El. lia. }
      rewrite (IH f2 (CRLF ++ r)); [reflexivity| |]; cbn [app List.length CRLF]; lia.
    - rewrite (IH f2 r); [reflexivity| |]; lia.
  Qed.

  Lemma relay_unfold_line fx l rest :
    nocrlf l = true ->
    relay lim fx (l ++ CRLF ++ rest) =
      if blen l >? lim then
        if fx then let (o, st) := relay lim fx (CRLF ++ rest) in (l :: o, st) else ([], Closed)
      else let (o, st) := relay lim fx rest in ((l ++ CRLF) :: o, st).
  Proof.
    intros Hn. unfold relay at 1. cbn [relay_loop].
    rewrite isnil_app_r by discriminate.
    change (CRLF ++ rest) with (13 :: 10 :: rest). rewrite (split_crlf_app _ _ Hn).
    destruct (blen l >? lim) eqn:El.
    - destruct fx; [|reflexivity].
      assert (Hl : (1 <= List.length l)%nat).
      { rewrite Z.gtb_ltb in El. apply Z.ltb_lt in El. unfold blen in El. lia. }
      unfold relay. rewrite (relay_loop_fuel true _ (S (List.length (13 :: 10 :: rest)))); [reflexivity| |];
        unfold CRLF in *; rewrite ?app_length; cbn [List.length app]; rewrite ?app_length; cbn [List.length]; lia.
    - unfold relay. rewrite (relay_loop_fuel fx _ (S (List.length rest))); [reflexivity| |];
        unfold CRLF in *; rewrite ?app_length; cbn [List.length app]; rewrite ?app_length; cbn [List.length]; lia.
  Qed.

  (* every response stream made of CRLF-terminated chunks - the text of a chunk may be a CRLF-free
     run of any length - reaches the client unchanged and in order *)
  Theorem relay_identity : forall ls,
    Forall (fun l => nocrlf l = true) ls ->
    List.concat (fst (relay lim true (render_lines ls))) = render_lines ls /\ snd (relay lim true (render_lines ls)) = Eof.
  Proof.
    induction 1 as [|l ls Hl _ [IH1 IH2]].
    - split; reflexivity.
    - unfold render_lines in *. cbn [map List.concat]. rewrite <- app_assoc.
      rewrite (relay_unfold_line true l _ Hl).
      set (X := List.concat (map (fun l0 : list Z => l0 ++ CRLF) ls)) in *.
      destruct (blen l >? lim).
      + pose proof (relay_unfold_line true [] X eq_refl) as R. cbn [app] in R.
        rewrite blen_nil, (gtb_false _ _ Hlim) in R. rewrite R.
        destruct (relay lim true X) as [o st].
        cbn [fst snd List.concat] in *. rewrite IH1. split; [reflexivity|exact IH2].
      + destruct (relay lim true X) as [o st].
        cbn [fst snd List.concat] in *. rewrite IH1, <- app_assoc. split; [reflexivity|exact IH2].
  Qed.
End Relay.

(* for ANY response stream, what reaches the client is a prefix of it: nothing is altered,
   reordered or invented *)
Theorem relay_prefix lim : forall f s, exists tail, s = List.concat (fst (relay_loop lim true f s)) ++ tail.
Proof.
  induction f as [|f IH]; intros s; [exists s; reflexivity|].
  cbn [relay_loop]. destruct (isnil s); [exists s; reflexivity|].
  destruct (split_crlf s) as [[l r]|] eqn:E; [|exists s; reflexivity].
  apply split_crlf_spec in E. destruct (blen l >? lim).
  - destruct (IH (CRLF ++ r)) as [tail Ht]. destruct (relay_loop lim true f (CRLF ++ r)) as [o st].
    cbn [fst List.concat] in *. exists tail. rewrite E, Ht at 1. rewrite <- app_assoc. reflexivity.
  - destruct (IH r) as [tail Ht]. destruct (relay_loop lim true f r) as [o st].
    cbn [fst List.concat] in *. exists tail. rewrite E, Ht at 1. rewrite <- !app_assoc. reflexivity.
Qed.

(* ------------------------------------------------------------------ a line beyond the reader's limit *)
Lemma long_line_refused c buf size l rest :
  fix_longline c = true -> nocrlf l = true -> rlimit c < blen l ->
  run c buf size (l ++ CRLF ++ rest) = ([Wr BAD_LINE], Closed).
Proof.
  intros Hf Hn Hl. rewrite run_unfold. unfold body. rewrite (readuntil_long _ _ _ Hn Hl), Hf. reflexivity.
Qed.

Section StreamTail.
  Variable c : cfg.
  Hypothesis Hfix : fix_resync c = true.

  Lemma stream_run_tail : forall items tail,
    Forall (wf_item (maxin c) (rlimit c) (maxdigits c)) items ->
    run c [] 0 (List.concat (map render_item items) ++ tail) = emits (flat_map item_events items) (run c [] 0 tail).
  Proof.
    induction 1 as [|i items Hi _ IH].
    - cbn. rewrite emits_nil. reflexivity.
    - cbn [map List.concat flat_map]. rewrite <- app_assoc, (item_run c Hfix i _ Hi), IH, emits_app. reflexivity.
  Qed.

  (* after any well-formed traffic, a line longer than the reader accepts is answered with a BAD
     and the connection is closed: nothing behind it is interpreted *)
  Theorem long_line_closes items l rest :
    fix_longline c = true ->
    Forall (wf_item (maxin c) (rlimit c) (maxdigits c)) items -> nocrlf l = true -> rlimit c < blen l ->
    frame_loop c (List.concat (map render_item items) ++ l ++ CRLF ++ rest) =
      (flat_map item_events items ++ [Wr BAD_LINE], Closed).
  Proof.
    intros Hf Hi Hn Hl. unfold frame_loop. rewrite (stream_run_tail items _ Hi), (long_line_refused c [] 0 l rest Hf Hn Hl).
    reflexivity.
  Qed.
End StreamTail.

(* ------------------------------------------------------------------ projections *)
Lemma msgs_of_events : forall items,
  flat_map (fun e => match e with Msg m => [m] | Wr _ => [] end) (flat_map item_events items) = commands_of items.
Proof.
  assert (Hc : forall ls, flat_map (fun e => match e with Msg m => [m] | Wr _ => [] end) (conts ls) = []).
  { induction ls as [|l r IH]; [reflexivity|]. unfold conts in *. cbn [flat_map]. rewrite flat_map_app, IH.
    destruct (l_plus l); reflexivity. }
  induction items as [|i items IH]; [reflexivity|].
  unfold commands_of in *. cbn [flat_map]. rewrite flat_map_app, IH.
  destruct i; cbn [item_events]; rewrite ?flat_map_app, ?Hc; reflexivity.
Qed.

Definition item_writes (i : item) : list bytes :=
  flat_map (fun e => match e with Wr w => [w] | Msg _ => [] end) (item_events i).

Lemma writes_of_events : forall items,
  flat_map (fun e => match e with Wr w => [w] | Msg _ => [] end) (flat_map item_events items) = flat_map item_writes items.
Proof.
  induction items as [|i items IH]; [reflexivity|]. cbn [flat_map]. rewrite flat_map_app, IH. reflexivity.
Qed.

(* one "+ Ready for more input" per synchronising literal, nothing else, for a command *)
Lemma conts_writes ls :
  flat_map (fun e => match e with Wr w => [w] | Msg _ => [] end) (conts ls) = repeat CONT (sync_lits ls).
Proof.
  induction ls as [|l r IH]; [reflexivity|]. unfold conts, sync_lits in *. cbn [flat_map filter].
  rewrite flat_map_app, IH. destruct (l_plus l); reflexivity.
Qed.

Section Corollaries.
  Variable c : cfg.
  Hypothesis Hfix : fix_resync c = true.
  Hypothesis Hlim : 0 <= rlimit c.
  Notation wf_cmd := (wf_cmd (maxin c) (rlimit c) (maxdigits c)).
  Notation wf_item := (wf_item (maxin c) (rlimit c) (maxdigits c)).

  Theorem relay_exact : forall cmds,
    Forall wf_cmd cmds ->
    let o := frame_loop c (List.concat (map render cmds)) in
    msgs_of o = map denote cmds /\
    writes_of o = flat_map (fun cm => repeat CONT (sync_lits (c_lits cm))) cmds /\
    snd o = Eof.
  Proof.
    intros cmds H. cbv zeta. rewrite (cmds_run c Hlim _ H). unfold msgs_of, writes_of. cbn [fst snd].
    split; [|split; [|reflexivity]]; clear; induction cmds as [|x r IH]; try reflexivity;
      cbn [map flat_map]; rewrite !flat_map_app, IH.
    - assert (Hc : forall ls, flat_map (fun e => match e with Msg m => [m] | Wr _ => [] end) (conts ls) = []).
      { induction ls as [|l r0 IHl]; [reflexivity|]. unfold conts in *. cbn [flat_map]. rewrite flat_map_app, IHl.
        destruct (l_plus l); reflexivity. }
      rewrite Hc. reflexivity.
    - rewrite conts_writes. cbn [flat_map]. rewrite app_nil_r. reflexivity.
  Qed.

  (* staying in sync: with refusals of every kind mixed in, exactly the commands of the stream are
     handed on - none dropped, none invented from literal octets *)
  Theorem resync : forall items,
    Forall wf_item items ->
    let o := frame_loop c (List.concat (map render_item items)) in
    msgs_of o = commands_of items /\ writes_of o = flat_map item_writes items /\ snd o = Eof.
  Proof.
    intros items H. cbv zeta. rewrite (stream_run c Hfix Hlim _ H). unfold msgs_of, writes_of. cbn [fst snd].
    rewrite msgs_of_events, writes_of_events. repeat split.
  Qed.
End Corollaries.

(* ------------------------------------------------------------------ deciding the side conditions *)
Lemma rstrip_length l : (List.length (rstrip l) <= List.length l)%nat.
Proof.
  induction l as [|x l IH]; [cbn; lia|]. cbn [rstrip]. destruct (rstrip l) as [|y r].
  - destruct (is_ws x); cbn; lia.
  - cbn [List.length] in *. lia.
Qed.

Lemma no_trailing_ws_dec t : rstrip t = t -> no_trailing_ws t.
Proof.
  intros H pre x E. destruct (is_ws x) eqn:Ex; [|reflexivity]. exfalso.
  subst t. rewrite (rstrip_app_ws pre [x]) in H by (constructor; [exact Ex|constructor]).
  pose proof (rstrip_length pre) as L. rewrite H, app_length in L. cbn in L. lia.
Qed.

Lemma not_announce_dec t : lit_match t = None -> ~ ends_in_announce t.
Proof.
  intros H (pre & ds & plus & E & Hd). subst t. unfold lit_match in H.
  rewrite (lit_match_rev_announce pre ds plus Hd) in H. discriminate H.
Qed.

Lemma digits_ok_dec ds : ds <> [] -> forallb is_digit ds = true -> digits_ok ds.
Proof. intros H1 H2. split; [exact H1|]. apply Forall_forall. rewrite forallb_forall in H2. exact H2. Qed.

(* a boolean version of the well-formedness conditions, sound for them: used for the examples *)
Lemma bytes_eqb_eq a : forall b, bytes_eqb a b = true -> a = b.
Proof.
  induction a as [|x a IH]; intros [|y b] H; try discriminate H; [reflexivity|].
  cbn [bytes_eqb] in H. apply andb_true_iff in H as [H1 H2]. apply Z.eqb_eq in H1. subst. f_equal. apply IH. exact H2.
Qed.

Definition digitsb (ds : bytes) : bool := negb (isnil ds) && forallb is_digit ds.
Definition lit_okb (l : lit) : bool := digitsb (l_digits l) && (dec_val (l_digits l) =? blen (l_data l)).
Fixpoint lines_okb (lim md : Z) (t : bytes) (ls : list lit) : bool :=
  match ls with
  | [] => true
  | l :: r => nocrlf t && (blen (t ++ announce (l_digits l) (l_plus l)) <=? lim) && lit_okb l &&
              (blen (l_digits l) <=? md) && lines_okb lim md (l_text l) r
  end.
Definition lastb (lim : Z) (t : bytes) : bool :=
  nocrlf t && (blen t <=? lim) && bytes_eqb (rstrip t) t && match lit_match t with None => true | Some _ => false end.
Definition wf_cmdb (mx lim md : Z) (c : cmd) : bool :=
  lines_okb lim md (c_first c) (c_lits c) && lastb lim (last_text (c_first c) (c_lits c)) &&
  negb (isnil (denote c)) && (blen (denote c) <=? mx).
Definition wf_prefixb (mx lim md : Z) (c : cmd) : bool :=
  lines_okb lim md (c_first c) (c_lits c) && (blen (ctext_pre (c_first c) (c_lits c)) <=? mx).
Definition wf_itemb (mx lim md : Z) (i : item) : bool :=
  match i with
  | ICmd c => wf_cmdb mx lim md c
  | IBlank w => forallb is_ws w && nocrlf w && (blen w <=? lim)
  | IBigLit c ds plus data =>
      let t := last_text (c_first c) (c_lits c) in
      wf_prefixb mx lim md c && nocrlf t && (blen (t ++ announce ds plus) <=? lim) && digitsb ds &&
      (blen ds <=? md) && (mx <? dec_val ds) && (if plus then blen data =? dec_val ds else isnil data)
  | IBigAcc c l =>
      let t := last_text (c_first c) (c_lits c) in
      wf_prefixb mx lim md c && nocrlf t && (blen (t ++ announce (l_digits l) (l_plus l)) <=? lim) && lit_okb l &&
      (blen (l_digits l) <=? md) && (dec_val (l_digits l) <=? mx) &&
      (mx <? blen (denote c ++ announce (l_digits l) (l_plus l) ++ CRLF ++ l_data l))
  | IBigLine c =>
      wf_prefixb mx lim md c && lastb lim (last_text (c_first c) (c_lits c)) &&
      negb (isnil (denote c)) && (mx <? blen (denote c))
  end.

Ltac split_andb :=
  repeat match goal with
         | H : _ && _ = true |- _ => apply andb_true_iff in H; destruct H
         end.

Lemma digitsb_ok ds : digitsb ds = true -> digits_ok ds.
Proof.
  unfold digitsb. intros H. split_andb. apply digits_ok_dec; [|assumption].
  destruct ds; [discriminate|discriminate].
Qed.
Lemma lit_okb_ok l : lit_okb l = true -> lit_ok l.
Proof. unfold lit_okb. intros H. split_andb. split; [apply digitsb_ok; assumption|apply Z.eqb_eq; assumption]. Qed.
Ltac ok :=
  first [ assumption | apply Z.leb_le; assumption | apply Z.ltb_lt; assumption | apply Z.eqb_eq; assumption ].

Lemma lines_okb_ok lim md : forall ls t, lines_okb lim md t ls = true -> lines_ok lim md t ls.
Proof.
  induction ls as [|l r IH]; intros t H; cbn [lines_okb lines_ok] in *; [exact I|]. split_andb.
  split; [ok|]. split; [ok|]. split; [apply lit_okb_ok; assumption|]. split; [ok|apply IH; assumption].
Qed.
Lemma lastb_ok lim t : lastb lim t = true ->
  nocrlf t = true /\ blen t <= lim /\ no_trailing_ws t /\ ~ ends_in_announce t.
Proof.
  unfold lastb. intros H. split_andb. repeat split; try assumption; try (apply Z.leb_le; assumption).
  - apply no_trailing_ws_dec. apply bytes_eqb_eq. assumption.
  - apply not_announce_dec. destruct (lit_match t); [discriminate|reflexivity].
Qed.
Lemma isnil_negb l : negb (isnil l) = true -> l <> [].
Proof. destruct l; [discriminate|discriminate]. Qed.
Lemma wf_prefixb_ok mx lim md c : wf_prefixb mx lim md c = true -> wf_prefix mx lim md c.
Proof. unfold wf_prefixb. intros H. split_andb. split; [apply lines_okb_ok; assumption|apply Z.leb_le; assumption]. Qed.

Lemma wf_itemb_ok mx lim md i : wf_itemb mx lim md i = true -> wf_item mx lim md i.
Proof.
  destruct i as [c|w|c ds plus data|c l|c]; cbn [wf_itemb wf_item]; cbv zeta; intros H.
  - unfold wf_cmdb in H. unfold wf_cmd. split_andb.
    destruct (lastb_ok _ _ ltac:(eassumption)) as (A & B0 & C & D).
    split; [apply lines_okb_ok; assumption|]. cbv zeta.
    split; [ok|]. split; [ok|]. split; [ok|]. split; [ok|]. split; [apply isnil_negb; assumption|ok].
  - split_andb. split; [|split; [ok|ok]].
    apply Forall_forall. rewrite forallb_forall in *. assumption.
  - split_andb. split; [apply wf_prefixb_ok; assumption|].
    split; [ok|]. split; [ok|]. split; [apply digitsb_ok; assumption|]. split; [ok|]. split; [ok|].
    destruct plus; [ok|apply isnil_true_iff; assumption].
  - split_andb. split; [apply wf_prefixb_ok; assumption|].
    split; [ok|]. split; [ok|]. split; [apply lit_okb_ok; assumption|]. split; [ok|]. split; [ok|ok].
  - split_andb. destruct (lastb_ok _ _ ltac:(eassumption)) as (A & B0 & C & D).
    split; [apply wf_prefixb_ok; assumption|].
    split; [ok|]. split; [ok|]. split; [ok|]. split; [ok|]. split; [apply isnil_negb; assumption|ok].
Qed.

Lemma wf_itemsb_ok mx lim md is : forallb (wf_itemb mx lim md) is = true -> Forall (wf_item mx lim md) is.
Proof. intros H. apply Forall_forall. intros i Hi. apply wf_itemb_ok. rewrite forallb_forall in H. apply H. exact Hi. Qed.

(* ------------------------------------------------------------------ witnesses *)
Definition B := bytes_of_string.
Definition cmd0 (s : string) : cmd := {| c_first := B s; c_lits := [] |}.

(* non-vacuity: a LOGIN with a synchronising and a non-synchronising literal whose octets contain
   CRLF and look like a command; a blank line; an APPEND refused for its 50-octet LITERAL+ whose
   octets look like commands; a NOOP.  limit 40. *)
Definition ex_login : cmd :=
  {| c_first := B "a1 LOGIN ";
     c_lits := [ {| l_digits := B "3"; l_plus := false; l_data := B "bob"; l_text := B " " |};
                 {| l_digits := B "0010"; l_plus := true; l_data := [13; 10] ++ B "z LOGOUT"; l_text := [] |} ] |}.
Definition ex_big : bytes := B "0123456789" ++ [13; 10] ++ B "z9 LOGOUT" ++ [13; 10] ++ B "{3}" ++ [13; 10] ++ B "abcdefghijklmnopqrstuv".
Definition ex_items : list item :=
  [ ICmd ex_login; IBlank (B " "); IBigLit (cmd0 "a2 APPEND x ") (B "50") true ex_big; ICmd (cmd0 "a3 NOOP") ].

Lemma ex_items_wf : Forall (wf_item 40 65536 4300) ex_items.
Proof. apply wf_itemsb_ok. vm_compute. reflexivity. Qed.

Lemma ex_items_run :
  frame_loop (fixed_cfg 40 65536) (List.concat (map render_item ex_items)) =
    ([Wr CONT; Msg (denote ex_login); Wr BAD_EMPTY; Wr BAD_LIT; Msg (B "a3 NOOP")], Eof).
Proof. vm_compute. reflexivity. Qed.

(* the pinned tree (no fixes/C19-*.patch): D15.  limit 20. *)
Definition d15_items : list item :=
  [ IBigLit (cmd0 "a1 LOGIN u ") (B "50") false []; ICmd (cmd0 "a2 NOOP"); ICmd (cmd0 "a3 NOOP") ].

Theorem resync_refuted_pinned :
  exists items, Forall (wf_item 20 65536 4300) items /\
    msgs_of (frame_loop (pinned_cfg 20) (List.concat (map render_item items))) <> commands_of items.
Proof. exists d15_items. split; [apply wf_itemsb_ok; vm_compute; reflexivity|]. vm_compute. discriminate. Qed.

(* the pinned tree: octets of a refused LITERAL+ are handed on as a command *)
Definition inj_items : list item :=
  [ IBigLit (cmd0 "a1 APPEND x ") (B "30") true (B "xx" ++ [13; 10] ++ B "z9 LOGOUT" ++ [13; 10] ++ B "0123456789abcde") ].
Theorem literal_injection_pinned :
  exists items, Forall (wf_item 20 65536 4300) items /\ commands_of items = [] /\
    In (B "z9 LOGOUT") (msgs_of (frame_loop (pinned_cfg 20) (List.concat (map render_item items)))).
Proof.
  exists inj_items. split; [apply wf_itemsb_ok; vm_compute; reflexivity|]. split; [reflexivity|vm_compute; left; reflexivity].
Qed.

(* the pinned tree: a response chunk longer than the reader's limit stops the relay *)
Theorem relay_refuted_pinned :
  exists lim ls, 0 <= lim /\ Forall (fun l => nocrlf l = true) ls /\
    List.concat (fst (relay lim false (render_lines ls))) <> render_lines ls.
Proof.
  exists 4, [B "* 1 FETCH"; B "a1 OK"]. split; [lia|]. split; [repeat constructor|]. vm_compute. discriminate.
Qed.

(* the pinned tree: a line beyond the reader's limit drops the connection without a BAD *)
Theorem long_line_pinned :
  frame_loop {| maxin := 64; rlimit := 8; maxdigits := 4300; fix_resync := false; fix_longline := false |}
    (B "a1 NOOP" ++ CRLF ++ B "a2 FETCH 1:* FLAGS" ++ CRLF ++ B "a3 NOOP" ++ CRLF) = ([Msg (B "a1 NOOP")], Closed).
Proof. vm_compute. reflexivity. Qed.
