(* Proofs/MboxFlags.v — in every reachable world every message (known or still on disk) has
   `Seen` and `unseen` as exact complements (C04, C13). *)
From Asimap Require Import Base.Res Spec.SetSem Model.Mbox Proofs.MboxInv Proofs.MboxStep Proofs.MboxLe Proofs.MboxExact Proofs.FlagsP.
Local Open Scope string_scope.
Local Open Scope Z_scope.

Definition mP (m : msg) : Prop := cpl (m_seqs m).
Definition bP (b : mbox) : Prop := Forall mP (b_msgs b) /\ Forall mP (b_disk b).
Definition wP (w : world) : Prop := forall n b, get_box w n = Some b -> bP b.

Lemma bP_same b b' : b_msgs b' = b_msgs b -> b_disk b' = b_disk b -> bP b -> bP b'.
Proof. unfold bP. intros -> ->. trivial. Qed.

Lemma cpl_sadd_recent s : cpl s -> cpl (sadd "Recent" s).
Proof. unfold cpl. rewrite !smem_sadd. cbn. trivial. Qed.
Lemma cpl_srem_recent s : cpl s -> cpl (srem "Recent" s).
Proof. unfold cpl. rewrite !smem_srem. cbn. trivial. Qed.

Lemma insert_Forall (P : msg -> Prop) m l : P m -> Forall P l -> Forall P (insert_by_key m l).
Proof.
  intros Hm. induction l as [|x l IH]; intros H; cbn [insert_by_key]; [constructor; trivial|].
  inversion H; subst. destruct (m_key m <? m_key x)%Z; constructor; auto.
Qed.
Lemma sort_Forall (P : msg -> Prop) l : Forall P l -> Forall P (sort_by_key l).
Proof. induction 1 as [|x l Hx _ IH]; cbn; [constructor|]. apply insert_Forall; trivial. Qed.
Lemma assign_Forall l : forall u, Forall mP l -> Forall mP (assign_uids l u).
Proof.
  induction l as [|m l IH]; intros u H; cbn [assign_uids]; [constructor|]. inversion H; subst.
  constructor; [unfold mP; cbn [m_seqs]; apply cpl_sadd_recent; trivial|apply IH; trivial].
Qed.

Lemma resync_bP b : bP b -> bP (fst (resync b)).
Proof.
  intros [H1 H2]. destruct (b_disk b) as [|d0 dl] eqn:E.
  - rewrite resync_nodisk by exact E. split; [exact H1|]. cbn [fst]. rewrite E. constructor.
  - destruct (resync_shape b) as [S1 [_ [_ S4]]]; [congruence|]. unfold bP. rewrite S1, S4. split; [|constructor].
    apply Forall_app; split; [exact H1|]. unfold fresh_of. apply assign_Forall. apply sort_Forall. rewrite E. exact H2.
Qed.

Lemma flush_bP b s : bP b -> bP (fst (flush b s)).
Proof. destruct (flush_msgs b s) as [A [_ [_ D]]]. apply bP_same; trivial. Qed.
Lemma dispatch_bP b d rs : bP b -> bP (fst (dispatch b d rs)).
Proof. destruct (dispatch_msgs b d rs) as [A [_ [_ D]]]. apply bP_same; trivial. Qed.
Lemma upd_bP b s f : bP b -> bP (upd_client b s f). Proof. apply bP_same; reflexivity. Qed.
Lemma setc_bP b cs : bP b -> bP (set_clients b cs). Proof. apply bP_same; reflexivity. Qed.

Lemma remove_at_Forall' (P : msg -> Prop) i l : Forall P l -> Forall P (remove_at i l).
Proof. apply remove_at_Forall. Qed.

Lemma expunge_bP b del : bP b -> bP (fst (expunge b del)).
Proof.
  intros [H1 H2]. unfold bP. rewrite expunge_exact. unfold expunge.
  destruct (expunge_loop_rest (positions_desc del (b_msgs b) 1 []) b None) as [_ [_ D]]. rewrite D. split; [|exact H2].
  rewrite Forall_forall in *. intros m Hm. apply filter_In in Hm. apply H1. tauto.
Qed.

Lemma filed_Forall fs : forall k, Forall mP fs -> Forall mP (filed fs k).
Proof. induction fs as [|f fs IH]; intros k H; cbn [filed]; [constructor|]. inversion H; subst. constructor; [exact H2|apply IH; trivial]. Qed.
Lemma with_disk_bP b fs : bP b -> Forall mP fs -> bP (with_disk b (add_files (b_disk b) (b_msgs b) fs)).
Proof.
  intros [H1 H2] Hf. split; [exact H1|]. cbn [with_disk b_disk]. rewrite add_files_spec. apply Forall_app; split; [exact H2|].
  apply filed_Forall. exact Hf.
Qed.

Lemma map_at_Forall f sl l : forall pos, (forall m, mP m -> mP (f m)) -> Forall mP l -> Forall mP (map_at f sl l pos).
Proof.
  induction l as [|m l IH]; intros pos Hf H; cbn [map_at]; [constructor|]. inversion H; subst.
  constructor; [destruct (zmem pos sl); auto|apply IH; trivial].
Qed.
Lemma set_msgs_bP b ms : Forall mP ms -> bP b -> bP (set_msgs b ms).
Proof. intros H [_ H2]. split; trivial. Qed.
Lemma renumber_Forall l : forall k, Forall mP l -> Forall mP (renumber l k).
Proof. induction l as [|m l IH]; intros k H; cbn [renumber]; [constructor|]. inversion H; subst. constructor; [exact H2|apply IH; trivial]. Qed.
Lemma maybe_pack_bP w b : bP b -> bP (maybe_pack w b).
Proof. intros H. unfold maybe_pack. destruct (should_pack w b); [|exact H]. apply set_msgs_bP; [apply renumber_Forall; apply H|exact H]. Qed.

Lemma msgs_at_Forall ms sl : Forall mP ms -> Forall mP (msgs_at ms sl).
Proof.
  intros H. unfold msgs_at. induction sl as [|p sl IH]; cbn [flat_map]; [constructor|].
  apply Forall_app; split; [|exact IH]. destruct (znth ms (p - 1)) as [m|] eqn:E; [|constructor].
  constructor; [|constructor]. rewrite Forall_forall in H. apply H.
  unfold znth in E. destruct (p - 1 <? 0); [discriminate|]. eapply nth_error_In; exact E.
Qed.

Lemma no_unseen_seq flags : existsb reserved_kw flags = false -> smem "unseen" (map flag_to_seq flags) = false.
Proof.
  induction flags as [|f fl IH]; intros H; [reflexivity|]. cbn [existsb] in H. apply orb_false_elim in H. destruct H as [Hf Hr].
  cbn [map smem existsb]. fold (smem "unseen" (map flag_to_seq fl)). rewrite (IH Hr), orb_false_r.
  unfold reserved_kw, smem in Hf. cbn [existsb] in Hf. apply orb_false_elim in Hf. destruct Hf as [_ Hf].
  repeat (apply orb_false_elim in Hf; destruct Hf as [? Hf]).
  unfold flag_to_seq.
  repeat match goal with |- context [if String.eqb f ?s then _ else _] => destruct (String.eqb f s); [reflexivity|] end.
  rewrite String.eqb_sym. assumption.
Qed.

Lemma fold_sadd_map_mem flags : forall acc y,
  smem y (fold_left (fun a f => sadd (flag_to_seq f) a) flags acc) = smem y (map flag_to_seq flags) || smem y acc.
Proof.
  induction flags as [|f fl IH]; intros acc y; cbn [fold_left map]; [reflexivity|].
  rewrite IH, smem_sadd. cbn [smem existsb]. fold (smem y (map flag_to_seq fl)). rewrite (String.eqb_sym y (flag_to_seq f)).
  destruct (String.eqb (flag_to_seq f) y), (smem y (map flag_to_seq fl)), (smem y acc); reflexivity.
Qed.

Lemma seqs_of_flags_cpl flags : existsb reserved_kw flags = false -> cpl (seqs_of_flags flags).
Proof.
  intros H. pose proof (no_unseen_seq flags H) as Hu. unfold seqs_of_flags, cpl.
  set (s0 := fold_left (fun a f => sadd (flag_to_seq f) a) flags []).
  assert (Hs : smem "unseen" s0 = false) by (unfold s0; rewrite fold_sadd_map_mem, Hu; reflexivity).
  destruct (smem "Seen" s0) eqn:E; [rewrite E, Hs; reflexivity|]. rewrite !smem_sadd, E, Hs. reflexivity.
Qed.

Lemma store_mP act flags m :
  existsb reserved_kw flags = false -> mP m -> mP (apply_store act (map flag_to_seq flags) m).
Proof. intros H Hm. apply store_keeps_complement; [apply no_unseen_seq; exact H|exact Hm]. Qed.

Lemma touch_flags_mP m : mP m -> mP {| m_key := m_key m; m_uid := m_uid m; m_cid := m_cid m; m_date := m_date m;
                                        m_seqs := srem "Recent" (m_seqs m) |}.
Proof. unfold mP. cbn [m_seqs]. apply cpl_srem_recent. Qed.
Lemma touch_body_mP m : mP m -> mP {| m_key := m_key m; m_uid := m_uid m; m_cid := m_cid m; m_date := m_date m;
                                       m_seqs := if smem "unseen" (m_seqs m) then sadd "Seen" (srem "unseen" (m_seqs m)) else m_seqs m |}.
Proof.
  unfold mP, cpl. cbn [m_seqs]. intros H. destruct (smem "unseen" (m_seqs m)) eqn:E; [|rewrite H, E; reflexivity].
  rewrite !smem_sadd, !smem_srem. cbn. reflexivity.
Qed.

Lemma touch_both_mP m : mP m -> mP {| m_key := m_key m; m_uid := m_uid m; m_cid := m_cid m; m_date := m_date m;
                                       m_seqs := let q := srem "Recent" (m_seqs m) in
                                                 if smem "unseen" q then sadd "Seen" (srem "unseen" q) else q |}.
Proof. intros H. exact (touch_body_mP _ (touch_flags_mP m H)). Qed.

(* ------------------------------------------------------------------ world level *)
Lemma wP_set_box w n b : wP w -> bP b -> wP (set_box w n b).
Proof.
  intros Hw Hb n' b' H. rewrite get_set_box in H. destruct (String.eqb n' n); [inversion H; subst; exact Hb|apply (Hw _ _ H)].
Qed.
Lemma unselect_wP w s : wP w -> wP (unselect w s).
Proof.
  intros Hw. unfold unselect. destruct (sel w s) as [n|]; [|exact Hw]. destruct (get_box w n) as [b|] eqn:E; [|exact Hw].
  apply wP_set_box; [exact Hw|apply setc_bP; apply (Hw _ _ E)].
Qed.
Lemma in_mbox_wP w s k : wP w -> (forall n b, get_box w n = Some b -> wP (fst (k n b))) -> wP (fst (in_mbox w s k)).
Proof.
  intros Hw Hk. unfold in_mbox. destruct (sel w s) as [n|]; [|exact Hw]. destruct (get_box w n) as [b|] eqn:E; [|exact Hw]. apply Hk; exact E.
Qed.
Lemma flush_sel_wP w s :
  wP w ->
  wP (fst (match sel w s with
           | Some n => match get_box w n with
                       | Some b => let '(b', o') := flush b s in (set_box w n b', o')
                       | None => (w, [])
                       end
           | None => (w, [])
           end)).
Proof.
  intros Hw. destruct (sel w s) as [n|]; [|exact Hw]. destruct (get_box w n) as [b|] eqn:E; [|exact Hw].
  split_pair (flush b s) b' o'. cbn [fst]. apply wP_set_box; [exact Hw|]. subst b'. apply flush_bP. apply (Hw _ _ E).
Qed.
Lemma poll_wP l : forall w o, wP w ->
  wP (fst (fold_left (fun acc (nb : string * mbox) =>
                   let '(w1, o1) := acc in
                   match get_box w1 (fst nb) with
                   | None => acc
                   | Some b => let '(b', o') := resync b in
                               let b'' := match o' with [] => maybe_pack w1 b' | _ => b' end in
                               (set_box w1 (fst nb) b'', (o1 ++ o')%list)
                   end) l (w, o))).
Proof.
  induction l as [|nb l IH]; intros w o Hw; cbn [fold_left]; [exact Hw|].
  destruct (get_box w (fst nb)) as [b|] eqn:E; [|apply IH; exact Hw].
  split_pair (resync b) b' o'. apply IH. apply wP_set_box; [exact Hw|].
  assert (bP b') by (subst b'; apply resync_bP; apply (Hw _ _ E)). destruct o'; [apply maybe_pack_bP|]; trivial.
Qed.
Lemma copy_into_wP w srcb sl dn w2 o2 src dstu :
  wP w -> Forall mP (b_msgs srcb) -> copy_into w srcb sl dn = Some (w2, o2, src, dstu) -> wP w2.
Proof.
  intros Hw Hs. unfold copy_into. destruct (get_box w dn) as [db|] eqn:E; [|discriminate].
  destruct (b_msgs srcb) eqn:Em; [intros H; inversion H; subst; exact Hw|].
  rewrite admit_is_resync. split_pair (resync db) db1 o1.
  split_pair (resync (with_disk db1 (add_files (b_disk db1) (b_msgs db1) (msgs_at (m :: l) sl)))) db3 o3.
  intros H; inversion H; subst w2. apply wP_set_box; [exact Hw|].
  subst db3. apply resync_bP. apply with_disk_bP; [subst db1; apply resync_bP; apply (Hw _ _ E)|apply msgs_at_Forall; exact Hs].
Qed.

Theorem step_wP w o : wP w -> wP (fst (step w o)).
Proof.
  intros Hw. destruct o; unfold step; cbv beta iota.
  - pose proof (unselect_wP w s Hw) as Hw1.
    destruct (get_box (unselect w s) (lower_inbox m)) as [b|] eqn:E; [|exact Hw1].
    rewrite admit_is_resync. split_pair (resync b) b1 o1. cbn [fst].
    apply wP_set_box; [exact Hw1|]. apply setc_bP. subst b1. apply resync_bP. apply (Hw1 _ _ E).
  - destruct (sel w s); [apply unselect_wP|]; exact Hw.
  - apply in_mbox_wP; [exact Hw|]. intros n b E. destruct (get_client b s) as [c|]; [|exact Hw].
    assert (H0 : bP (set_clients b (zalist_del (b_clients b) s))) by (apply setc_bP; apply (Hw _ _ E)).
    destruct (c_exam c); [apply wP_set_box; trivial|].
    destruct (existsb (has_seq "Deleted") (b_msgs (set_clients b (zalist_del (b_clients b) s)))); [|apply wP_set_box; trivial].
    rewrite admit_is_resync. split_pair (resync (set_clients b (zalist_del (b_clients b) s))) b1 o1.
    split_pair (expunge b1 (has_seq "Deleted")) b2 o2. cbn [fst].
    apply wP_set_box; [exact Hw|]. subst b2. apply expunge_bP. subst b1. apply resync_bP. exact H0.
  - destruct (sel w s) as [n|]; [|exact Hw]. destruct (get_box w n) as [b|] eqn:E; [|exact Hw].
    rewrite admit_is_resync. split_pair (resync b) b1 o1. split_pair (flush b1 s) b2 o2. cbn [fst].
    apply wP_set_box; [exact Hw|]. subst b2. apply flush_bP. subst b1. apply resync_bP. apply (Hw _ _ E).
  - apply in_mbox_wP; [exact Hw|]. intros n b E.
    split_pair (flush b s) b0 o0. rewrite admit_is_resync. split_pair (resync b0) b1 o1. split_pair (flush b1 s) b2 o2.
    cbn [fst]. apply wP_set_box; [exact Hw|]. subst b2. apply flush_bP. subst b1. apply resync_bP. subst b0. apply flush_bP. apply (Hw _ _ E).
  - destruct (sel w s) as [n|]; [|exact Hw]. destruct (get_box w n) as [b|] eqn:E; [|exact Hw].
    split_pair (flush b s) b1 o1. cbn [fst]. apply wP_set_box; [exact Hw|]. apply upd_bP. subst b1. apply flush_bP. apply (Hw _ _ E).
  - destruct (sel w s) as [n|]; [|exact Hw]. destruct (get_box w n) as [b|] eqn:E; [|exact Hw].
    split_pair (flush (upd_client b s (fun c => set_idle c false)) s) b1 o1. cbn [fst].
    apply wP_set_box; [exact Hw|]. subst b1. apply flush_bP. apply upd_bP. apply (Hw _ _ E).
  - (* OAppend *)
    pose proof (flush_sel_wP w s Hw) as Hw0.
    destruct (match sel w s with
              | Some n => match get_box w n with
                          | Some b => let '(b', o') := flush b s in (set_box w n b', o')
                          | None => (w, [])
                          end
              | None => (w, [])
              end) as [w0 o0]. cbn [fst] in Hw0.
    destruct (get_box w0 (lower_inbox m)) as [b|] eqn:E; [|exact Hw0].
    rewrite admit_is_resync. split_pair (resync b) b1 o1.
    assert (H1 : bP b1) by (subst b1; apply resync_bP; apply (Hw0 _ _ E)).
    destruct (existsb reserved_kw flags) eqn:Er; [cbn [fst]; apply wP_set_box; trivial|].
    match goal with |- context [resync (with_disk b1 ?D)] => split_pair (resync (with_disk b1 D)) b3 o2 end.
    assert (H3 : bP b3).
    { subst b3. apply resync_bP. apply with_disk_bP; [exact H1|]. constructor; [|constructor].
      unfold mP. cbn [m_seqs]. apply seqs_of_flags_cpl. exact Er. }
    pose proof (flush_sel_wP (set_box w0 (lower_inbox m) b3) s (wP_set_box _ _ _ Hw0 H3)) as Hw2.
    destruct (match sel (set_box w0 (lower_inbox m) b3) s with
              | Some n => match get_box (set_box w0 (lower_inbox m) b3) n with
                          | Some bb => let '(b', o') := flush bb s in (set_box (set_box w0 (lower_inbox m) b3) n b', o')
                          | None => (set_box w0 (lower_inbox m) b3, [])
                          end
              | None => (set_box w0 (lower_inbox m) b3, [])
              end) as [w2 o3]. cbn [fst] in *. exact Hw2.
  - (* OStore *)
    apply in_mbox_wP; [exact Hw|]. intros n b E. destruct (get_client b s) as [c|]; [|exact Hw].
    destruct (c_exam c); [exact Hw|].
    destruct (gate b s uidc true) as [[b0 o0]|] eqn:G; [|exact Hw].
    apply gate_true in G. assert (H0 : bP b0) by (subst b0; apply flush_bP; apply (Hw _ _ E)).
    destruct (admit_set w n b0 uidc set) as [[[b1a o1a] sl]|] eqn:A; [|cbn [fst]; apply wP_set_box; trivial].
    apply admit_set_ok in A. split_pair (flush b1a s) b1 o1b.
    assert (H1 : bP b1) by (subst b1 b1a; apply flush_bP; apply resync_bP; exact H0).
    destruct (smem "\Recent" flags || existsb reserved_kw flags) eqn:Er; [cbn [fst]; apply wP_set_box; trivial|].
    apply orb_false_elim in Er. destruct Er as [_ Er].
    match goal with |- context [dispatch ?B ?D ?R] => split_pair (dispatch B D R) b3 o2 end.
    cbn [fst]. apply wP_set_box; [exact Hw|]. apply upd_bP. subst b3. apply dispatch_bP.
    apply set_msgs_bP; [|exact H1]. apply map_at_Forall; [|apply H1]. intros m0 Hm0. apply store_mP; trivial.
  - (* OFetch *)
    apply in_mbox_wP; [exact Hw|]. intros n b E. destruct (get_client b s) as [c|]; [|exact Hw].
    destruct (gate b s uidc true) as [[b0 o0]|] eqn:G; [|exact Hw].
    apply gate_true in G. assert (H0 : bP b0) by (subst b0; apply flush_bP; apply (Hw _ _ E)).
    destruct (admit_set w n b0 uidc set) as [[[b1a o1a] sl]|] eqn:A; [|cbn [fst]; apply wP_set_box; trivial].
    apply admit_set_ok in A. split_pair (flush b1a s) b1 o1b.
    assert (H1 : bP b1) by (subst b1 b1a; apply flush_bP; apply resync_bP; exact H0).
    match goal with |- context [dispatch ?B ?D ?R] => split_pair (dispatch B D R) b3 o2 end.
    split_pair (flush b3 s) b4 o3. cbn [fst]. apply wP_set_box; [exact Hw|].
    subst b4. apply flush_bP. subst b3. apply dispatch_bP.
    apply set_msgs_bP; [|apply upd_bP; exact H1]. apply map_at_Forall; [|apply H1].
    intros m0 Hm0. destruct k; [apply touch_flags_mP|exact Hm0|apply touch_body_mP|apply touch_both_mP]; exact Hm0.
  - (* OSearch *)
    apply in_mbox_wP; [exact Hw|]. intros n b E.
    destruct (gate b s uidc true) as [[b0 o0]|] eqn:G; [|exact Hw].
    rewrite admit_is_resync. split_pair (resync b0) b1a o1a. split_pair (flush b1a s) b1 o1b. cbn [fst].
    apply wP_set_box; [exact Hw|]. subst b1 b1a. apply flush_bP. apply resync_bP.
    apply gate_any in G. destruct G as [->| ->]; [apply flush_bP|]; apply (Hw _ _ E).
  - (* OExpunge *)
    apply in_mbox_wP; [exact Hw|]. intros n b E. destruct (get_client b s) as [c|]; [|exact Hw].
    split_pair (flush b s) b0 o0. assert (H0 : bP b0) by (subst b0; apply flush_bP; apply (Hw _ _ E)).
    destruct (c_exam c); [cbn [fst]; apply wP_set_box; trivial|].
    destruct uset as [st|].
    + destruct (admit_set w n (upd_client b0 s (fun c0 => set_idle c0 true)) true st) as [[[b1 o1] sl]|] eqn:A.
      * apply admit_set_ok in A.
        match goal with |- context [expunge b1 ?D] => split_pair (expunge b1 D) b2 o2 end.
        cbn [fst]. apply wP_set_box; [exact Hw|]. apply upd_bP. subst b2. apply expunge_bP. subst b1. apply resync_bP. apply upd_bP. exact H0.
      * cbn [fst]. apply wP_set_box; [exact Hw|]. apply upd_bP. apply upd_bP. exact H0.
    + rewrite admit_is_resync.
      split_pair (resync (upd_client b0 s (fun c0 => set_idle c0 true))) b1 o1.
      match goal with |- context [expunge b1 ?D] => split_pair (expunge b1 D) b2 o2 end.
      cbn [fst]. apply wP_set_box; [exact Hw|]. apply upd_bP. subst b2. apply expunge_bP. subst b1. apply resync_bP. apply upd_bP. exact H0.
  - (* OCopy *)
    apply in_mbox_wP; [exact Hw|]. intros n b E.
    split_pair (flush b s) b0 o0. assert (H0 : bP b0) by (subst b0; apply flush_bP; apply (Hw _ _ E)).
    destruct (admit_set w n b0 uidc set) as [[[b1 o1] sl]|] eqn:A; [|cbn [fst]; apply wP_set_box; trivial].
    apply admit_set_ok in A. assert (H1 : bP b1) by (subst b1; apply resync_bP; exact H0).
    assert (Hw1 : wP (set_box w n b1)) by (apply wP_set_box; trivial).
    destruct (copy_into (set_box w n b1) b1 sl (lower_inbox dst)) as [[[[w2 o2] src] dstu]|] eqn:C; [|exact Hw1].
    cbn [fst]. apply (copy_into_wP _ _ _ _ _ _ _ _ Hw1 (proj1 H1) C).
  - (* OMove *)
    apply in_mbox_wP; [exact Hw|]. intros n b E. destruct (get_client b s) as [c|]; [|exact Hw].
    destruct (c_exam c); [exact Hw|].
    split_pair (flush b s) b0 o0. assert (H0 : bP b0) by (subst b0; apply flush_bP; apply (Hw _ _ E)).
    destruct (admit_set w n b0 uidc set) as [[[b1 o1] sl]|] eqn:A; [|cbn [fst]; apply wP_set_box; trivial].
    apply admit_set_ok in A. assert (H1 : bP b1) by (subst b1; apply resync_bP; exact H0).
    assert (Hw1 : wP (set_box w n b1)) by (apply wP_set_box; trivial).
    destruct (copy_into (set_box w n b1) b1 sl (lower_inbox dst)) as [[[[w2 o2] src] dstu]|] eqn:C; [|exact Hw1].
    pose proof (copy_into_wP _ _ _ _ _ _ _ _ Hw1 (proj1 H1) C) as Hw2.
    destruct src as [|u0 src']; [exact Hw2|].
    destruct (get_box w2 n) as [sb|] eqn:E2; [|exact Hw2].
    split_pair (flush sb s) sb0 o3. rewrite admit_is_resync.
    split_pair (resync (upd_client sb0 s (fun c0 => set_idle c0 true))) sb1 o4.
    match goal with |- context [expunge sb1 ?D] => split_pair (expunge sb1 D) sb2 o5 end.
    cbn [fst]. apply wP_set_box; [exact Hw2|]. apply upd_bP. subst sb2. apply expunge_bP. subst sb1. apply resync_bP.
    apply upd_bP. subst sb0. apply flush_bP. apply (Hw2 _ _ E2).
  - (* ODeliver *)
    destruct (get_box w m) as [b|] eqn:E; [|exact Hw]. cbn [fst].
    apply wP_set_box; [exact Hw|]. apply with_disk_bP; [apply (Hw _ _ E)|].
    apply Forall_forall. intros x Hx. apply in_map_iff in Hx. destruct Hx as [i [<- _]].
    unfold mP. cbn [m_seqs]. destruct unseen; reflexivity.
  - apply poll_wP. exact Hw.
  - (* OMkbox *)
    destruct (get_box w m) as [b|] eqn:E; [exact Hw|]. cbn [fst].
    intros n' b' H. unfold get_box in H. cbn [w_boxes] in H. rewrite get_box_append in H.
    destruct (get_box w n') as [x|] eqn:E'; [inversion H; subst; apply (Hw _ _ E')|].
    destruct (String.eqb n' m); [inversion H; subst; split; constructor|discriminate].
  - (* ORestart *)
    cbn [fst]. intros n' b' H. unfold get_box in H. cbn [w_boxes] in H. rewrite get_box_map_clients in H.
    destruct (alist_get (w_boxes w) n') as [b0|] eqn:E; [|discriminate]. cbn [option_map] in H. inversion H; subst b'.
    apply setc_bP. apply (Hw n' b0 E).
Qed.

Lemma init_wP a b c : wP (init_world a b c).
Proof.
  intros n bx H. unfold get_box, init_world in H. cbn [w_boxes alist_get] in H.
  destruct (String.eqb n "inbox"); [inversion H; subst; split; constructor|discriminate].
Qed.

Theorem reachable_wP a b c ops : wP (fst (run (init_world a b c) ops)).
Proof.
  unfold run. rewrite run_fst. generalize (init_wP a b c). generalize (init_world a b c).
  induction ops as [|o ops IH]; intros w Hw; cbn [fold_left]; [exact Hw|]. apply IH. apply step_wP. exact Hw.
Qed.
