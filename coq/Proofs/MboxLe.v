(* Proofs/MboxLe.v — the step relation on mailboxes behind C02 and C03: UIDNEXT never decreases,
   UIDVALIDITY never changes, and every message of the new list is either an old message with the
   same UID, content and internal date, or a new one whose UID is at least the old UIDNEXT. *)
From Asimap Require Import Base.Res Spec.SetSem Model.Mbox Proofs.MboxInv Proofs.MboxStep.
From Coq Require Import ZifyBool.
Open Scope Z_scope.

Definition same_msg (m m' : msg) : Prop := m_uid m' = m_uid m /\ m_cid m' = m_cid m /\ m_date m' = m_date m.
Definition box_le (b b' : mbox) : Prop :=
  b_next b <= b_next b' /\ b_vv b' = b_vv b /\
  (forall m', In m' (b_msgs b') -> (exists m, In m (b_msgs b) /\ same_msg m m') \/ b_next b <= m_uid m').

Lemma same_msg_refl m : same_msg m m. Proof. repeat split. Qed.
Lemma same_msg_trans a b c : same_msg a b -> same_msg b c -> same_msg a c.
Proof. intros [A1 [A2 A3]] [B1 [B2 B3]]. repeat split; congruence. Qed.

Lemma box_le_refl b : box_le b b.
Proof. repeat split; [lia|]. intros m' H. left. exists m'. split; [exact H|apply same_msg_refl]. Qed.

Lemma box_le_trans a b c : box_le a b -> box_le b c -> box_le a c.
Proof.
  intros [A1 [A2 A3]] [B1 [B2 B3]]. repeat split; [lia|congruence|].
  intros m' H. destruct (B3 m' H) as [[m [Hm Hs]]|Hf]; [|right; lia].
  destruct (A3 m Hm) as [[m0 [Hm0 Hs0]]|Hf0].
  - left. exists m0. split; [exact Hm0|eapply same_msg_trans; eauto].
  - right. destruct Hs as [Hu _]. lia.
Qed.

Lemma box_le_same b b' : b_msgs b' = b_msgs b -> b_next b' = b_next b -> b_vv b' = b_vv b -> box_le b b'.
Proof.
  intros H1 H2 H3. repeat split; [lia|exact H3|]. rewrite H1. intros m' H. left. exists m'. split; [exact H|apply same_msg_refl].
Qed.

Lemma le_flush b s : box_le b (fst (flush b s)).
Proof. destruct (flush_msgs b s) as [A [B [C _]]]. apply box_le_same; trivial. Qed.
Lemma le_dispatch b d rs : box_le b (fst (dispatch b d rs)).
Proof. destruct (dispatch_msgs b d rs) as [A [B [C _]]]. apply box_le_same; trivial. Qed.
Lemma le_upd_client b s f : box_le b (upd_client b s f).
Proof. apply box_le_same; reflexivity. Qed.
Lemma le_set_clients b cs : box_le b (set_clients b cs).
Proof. apply box_le_same; reflexivity. Qed.
Lemma le_with_disk b d : box_le b (with_disk b d).
Proof. apply box_le_same; reflexivity. Qed.

Lemma le_resync b : box_le b (fst (resync b)).
Proof.
  destruct (b_disk b) as [|d0 dl] eqn:E; [rewrite resync_nodisk by exact E; apply box_le_refl|].
  destruct (resync_shape b) as [S1 [S2 [S3 _]]]; [congruence|].
  repeat split; [rewrite S2; pose proof (zlen_nonneg (fresh_of b)); lia|exact S3|].
  rewrite S1. intros m' H. apply in_app_or in H. destruct H as [H|H].
  - left. exists m'. split; [exact H|apply same_msg_refl].
  - right. destruct (assign_uids_spec (sort_by_key (b_disk b)) (b_next b)) as [_ [Af _]].
    fold (fresh_of b) in Af. rewrite Forall_forall in Af. specialize (Af (m_uid m') (in_map m_uid _ _ H)). cbv beta in Af. lia.
Qed.

Lemma in_remove_at {A} i (l : list A) x : In x (remove_at i l) -> In x l.
Proof.
  revert i; induction l as [|y l IH]; intros [|i] H; cbn [remove_at] in H; trivial.
  - right; exact H.
  - destruct H as [H|H]; [left; exact H|right; apply (IH i); exact H].
Qed.

Lemma le_set_msgs_sub b ms :
  (forall m', In m' ms -> exists m, In m (b_msgs b) /\ same_msg m m') -> box_le b (set_msgs b ms).
Proof. intros H. repeat split; [cbn; lia|]. cbn [set_msgs b_msgs]. intros m' Hm. left. apply H; exact Hm. Qed.

Lemma le_expunge_loop ps : forall b i, box_le b (fst (expunge_loop b ps i)).
Proof.
  induction ps as [|p ps IH]; intros b i; cbn [expunge_loop]; [apply box_le_refl|].
  destruct (dispatch (set_msgs b (remove_at (Z.to_nat (p - 1)) (b_msgs b))) None [RExpunge p]) as [b2 o] eqn:Ed.
  destruct (expunge_loop b2 ps i) as [b3 o'] eqn:El. cbn [fst].
  replace b3 with (fst (expunge_loop b2 ps i)) by (rewrite El; reflexivity).
  eapply box_le_trans; [|apply IH].
  match type of Ed with dispatch ?B ?D ?R = _ => replace b2 with (fst (dispatch B D R)) by (rewrite Ed; reflexivity) end.
  eapply box_le_trans; [|apply le_dispatch].
  apply le_set_msgs_sub. intros m' H. exists m'. split; [eapply in_remove_at; exact H|apply same_msg_refl].
Qed.
Lemma le_expunge b del : box_le b (fst (expunge b del)).
Proof. apply le_expunge_loop. Qed.

Lemma in_map_at f sl l pos m' : In m' (map_at f sl l pos) -> exists m, In m l /\ (m' = m \/ m' = f m).
Proof.
  revert pos; induction l as [|m l IH]; intros pos H; cbn [map_at] in H; [destruct H|].
  destruct H as [H|H].
  - exists m. split; [left; reflexivity|]. destruct (zmem pos sl); [right|left]; symmetry; exact H.
  - destruct (IH _ H) as [m0 [H1 H2]]. exists m0. split; [right; exact H1|exact H2].
Qed.
Lemma le_map_at b f sl : (forall m, same_msg m (f m)) -> box_le b (set_msgs b (map_at f sl (b_msgs b) 1)).
Proof.
  intros Hf. apply le_set_msgs_sub. intros m' H. apply in_map_at in H. destruct H as [m [Hm [->| ->]]];
    exists m; (split; [exact Hm|]); [apply same_msg_refl|apply Hf].
Qed.

Lemma in_renumber l k m' : In m' (renumber l k) -> exists m, In m l /\ same_msg m m'.
Proof.
  revert k; induction l as [|m l IH]; intros k H; cbn [renumber] in H; [destruct H|].
  destruct H as [<-|H]; [exists m; split; [left; reflexivity|repeat split]|].
  destruct (IH _ H) as [m0 [H1 H2]]. exists m0. split; [right; exact H1|exact H2].
Qed.
Lemma le_maybe_pack w b : box_le b (maybe_pack w b).
Proof.
  unfold maybe_pack. destruct (should_pack w b); [|apply box_le_refl].
  apply le_set_msgs_sub. intros m' H. apply in_renumber in H. exact H.
Qed.

(* ------------------------------------------------------------------ world level *)
Definition world_le (w w' : world) : Prop :=
  forall n b, get_box w n = Some b -> exists b', get_box w' n = Some b' /\ box_le b b'.

Lemma world_le_refl w : world_le w w.
Proof. intros n b H. exists b. split; [exact H|apply box_le_refl]. Qed.
Lemma world_le_trans a b c : world_le a b -> world_le b c -> world_le a c.
Proof.
  intros H1 H2 n x Hx. destruct (H1 n x Hx) as [y [Hy Lxy]]. destruct (H2 n y Hy) as [z [Hz Lyz]].
  exists z. split; [exact Hz|eapply box_le_trans; eauto].
Qed.
Lemma world_le_set w n b b' : get_box w n = Some b -> box_le b b' -> world_le w (set_box w n b').
Proof.
  intros Hg Hl n0 x Hx. rewrite get_set_box. destruct (String.eqb n0 n) eqn:E.
  - apply String.eqb_eq in E. subst n0. rewrite Hg in Hx. inversion Hx; subst x. exists b'. split; [reflexivity|exact Hl].
  - exists x. split; [exact Hx|apply box_le_refl].
Qed.

Lemma unselect_le w s : world_le w (unselect w s).
Proof.
  unfold unselect. destruct (sel w s) as [n|]; [|apply world_le_refl].
  destruct (get_box w n) as [b|] eqn:E; [|apply world_le_refl].
  apply world_le_set with b; [exact E|apply le_set_clients].
Qed.

Lemma in_mbox_le w s k :
  (forall n b, get_box w n = Some b -> world_le w (fst (k n b))) -> world_le w (fst (in_mbox w s k)).
Proof.
  intros Hk. unfold in_mbox. destruct (sel w s) as [n|]; [|apply world_le_refl].
  destruct (get_box w n) as [b|] eqn:E; [|apply world_le_refl]. apply Hk; exact E.
Qed.

Lemma flush_sel_le w s :
  world_le w (fst (match sel w s with
             | Some n => match get_box w n with
                         | Some b => let '(b', o') := flush b s in (set_box w n b', o')
                         | None => (w, [])
                         end
             | None => (w, [])
             end)).
Proof.
  destruct (sel w s) as [n|]; [|apply world_le_refl]. destruct (get_box w n) as [b|] eqn:E; [|apply world_le_refl].
  split_pair (flush b s) b' o'. cbn [fst]. apply world_le_set with b; [exact E|]. subst b'. apply le_flush.
Qed.

Lemma poll_le l : forall w o,
  world_le w (fst (fold_left (fun acc (nb : string * mbox) =>
                   let '(w1, o1) := acc in
                   match get_box w1 (fst nb) with
                   | None => acc
                   | Some b => let '(b', o') := resync b in
                               let b'' := match o' with [] => maybe_pack w1 b' | _ => b' end in
                               (set_box w1 (fst nb) b'', o1 ++ o')
                   end) l (w, o))).
Proof.
  induction l as [|nb l IH]; intros w o; cbn [fold_left]; [apply world_le_refl|].
  destruct (get_box w (fst nb)) as [b|] eqn:E; [|apply IH].
  split_pair (resync b) b' o'. eapply world_le_trans; [|apply IH].
  apply world_le_set with b; [exact E|]. subst b'.
  destruct o'; [eapply box_le_trans; [apply le_resync|apply le_maybe_pack]|apply le_resync].
Qed.

Lemma copy_into_le w srcb sl dn w2 o2 src dstu :
  copy_into w srcb sl dn = Some (w2, o2, src, dstu) -> world_le w w2.
Proof.
  unfold copy_into. destruct (get_box w dn) as [db|] eqn:E; [|discriminate].
  destruct (b_msgs srcb); [intros H; inversion H; subst; apply world_le_refl|].
  rewrite admit_is_resync. split_pair (resync db) db1 o1.
  split_pair (resync (with_disk db1 (add_files (b_disk db1) (b_msgs db1) (msgs_at (m :: l) sl)))) db3 o3.
  intros H; inversion H; subst w2. apply world_le_set with db; [exact E|].
  subst db3. eapply box_le_trans; [|apply le_resync]. eapply box_le_trans; [|apply le_with_disk].
  subst db1. apply le_resync.
Qed.

Lemma le_store_touch act fl m : same_msg m (apply_store act fl m).
Proof. destruct act; repeat split. Qed.

Theorem step_le w o : world_le w (fst (step w o)).
Proof.
  destruct o; unfold step; cbv beta iota.
  - (* OSelect *)
    eapply world_le_trans; [apply unselect_le|].
    destruct (get_box (unselect w s) (lower_inbox m)) as [b|] eqn:E; [|apply world_le_refl].
    rewrite admit_is_resync. split_pair (resync b) b1 o1. cbn [fst].
    apply world_le_set with b; [exact E|]. eapply box_le_trans; [|apply le_set_clients]. subst b1. apply le_resync.
  - destruct (sel w s); [apply unselect_le|apply world_le_refl].
  - (* OClose *)
    apply in_mbox_le. intros n b E. destruct (get_client b s) as [c|]; [|apply world_le_refl].
    destruct (c_exam c); [apply world_le_set with b; [exact E|apply le_set_clients]|].
    destruct (existsb (has_seq "Deleted") (b_msgs (set_clients b (zalist_del (b_clients b) s))));
      [|apply world_le_set with b; [exact E|apply le_set_clients]].
    rewrite admit_is_resync. split_pair (resync (set_clients b (zalist_del (b_clients b) s))) b1 o1.
    split_pair (expunge b1 (has_seq "Deleted")) b2 o2. cbn [fst].
    apply world_le_set with b; [exact E|]. subst b2. eapply box_le_trans; [|apply le_expunge].
    subst b1. eapply box_le_trans; [apply le_set_clients|apply le_resync].
  - (* ONoop *)
    destruct (sel w s) as [n|]; [|apply world_le_refl]. destruct (get_box w n) as [b|] eqn:E; [|apply world_le_refl].
    rewrite admit_is_resync. split_pair (resync b) b1 o1. split_pair (flush b1 s) b2 o2. cbn [fst].
    apply world_le_set with b; [exact E|]. subst b2 b1. eapply box_le_trans; [apply le_resync|apply le_flush].
  - (* OCheck *)
    apply in_mbox_le. intros n b E.
    split_pair (flush b s) b0 o0. rewrite admit_is_resync. split_pair (resync b0) b1 o1. split_pair (flush b1 s) b2 o2.
    cbn [fst]. apply world_le_set with b; [exact E|]. subst b2 b1 b0.
    eapply box_le_trans; [apply le_flush|]. eapply box_le_trans; [apply le_resync|apply le_flush].
  - (* OIdle *)
    destruct (sel w s) as [n|]; [|apply world_le_refl]. destruct (get_box w n) as [b|] eqn:E; [|apply world_le_refl].
    split_pair (flush b s) b1 o1. cbn [fst]. apply world_le_set with b; [exact E|].
    subst b1. eapply box_le_trans; [apply le_flush|apply le_upd_client].
  - (* ODone *)
    destruct (sel w s) as [n|]; [|apply world_le_refl]. destruct (get_box w n) as [b|] eqn:E; [|apply world_le_refl].
    split_pair (flush (upd_client b s (fun c => set_idle c false)) s) b1 o1. cbn [fst].
    apply world_le_set with b; [exact E|]. subst b1. eapply box_le_trans; [apply le_upd_client|apply le_flush].
  - (* OAppend *)
    pose proof (flush_sel_le w s) as L0.
    destruct (match sel w s with
              | Some n => match get_box w n with
                          | Some b => let '(b', o') := flush b s in (set_box w n b', o')
                          | None => (w, [])
                          end
              | None => (w, [])
              end) as [w0 o0]. cbn [fst] in L0.
    destruct (get_box w0 (lower_inbox m)) as [b|] eqn:E; [|exact L0].
    rewrite admit_is_resync. split_pair (resync b) b1 o1.
    destruct (existsb reserved_kw flags).
    { cbn [fst]. eapply world_le_trans; [exact L0|]. apply world_le_set with b; [exact E|subst b1; apply le_resync]. }
    match goal with |- context [resync (with_disk b1 ?D)] => split_pair (resync (with_disk b1 D)) b3 o2 end.
    assert (L1 : world_le w0 (set_box w0 (lower_inbox m) b3)).
    { apply world_le_set with b; [exact E|]. subst b3. eapply box_le_trans; [|apply le_resync].
      eapply box_le_trans; [|apply le_with_disk]. subst b1. apply le_resync. }
    pose proof (flush_sel_le (set_box w0 (lower_inbox m) b3) s) as L2.
    destruct (match sel (set_box w0 (lower_inbox m) b3) s with
              | Some n => match get_box (set_box w0 (lower_inbox m) b3) n with
                          | Some bb => let '(b', o') := flush bb s in (set_box (set_box w0 (lower_inbox m) b3) n b', o')
                          | None => (set_box w0 (lower_inbox m) b3, [])
                          end
              | None => (set_box w0 (lower_inbox m) b3, [])
              end) as [w2 o3]. cbn [fst] in *.
    eapply world_le_trans; [exact L0|]. eapply world_le_trans; [exact L1|exact L2].
  - (* OStore *)
    apply in_mbox_le. intros n b E. destruct (get_client b s) as [c|]; [|apply world_le_refl].
    destruct (c_exam c); [apply world_le_refl|].
    destruct (gate b s uidc true) as [[b0 o0]|] eqn:G; [|apply world_le_refl].
    apply gate_true in G.
    destruct (admit_set w n b0 uidc set) as [[[b1a o1a] sl]|] eqn:A;
      [|cbn [fst]; apply world_le_set with b; [exact E|subst b0; apply le_flush]].
    apply admit_set_ok in A. split_pair (flush b1a s) b1 o1b.
    destruct (smem "\Recent" flags || existsb reserved_kw flags).
    { cbn [fst]. apply world_le_set with b; [exact E|]. subst b1 b1a b0. eapply box_le_trans; [apply le_flush|]. eapply box_le_trans; [apply le_resync|apply le_flush]. }
    match goal with |- context [dispatch ?B ?D ?R] => split_pair (dispatch B D R) b3 o2 end.
    cbn [fst]. apply world_le_set with b; [exact E|].
    eapply box_le_trans; [|apply le_upd_client]. subst b3. eapply box_le_trans; [|apply le_dispatch].
    eapply box_le_trans; [|apply le_map_at; intros m0; apply le_store_touch].
    subst b1 b1a b0. eapply box_le_trans; [apply le_flush|]. eapply box_le_trans; [apply le_resync|apply le_flush].
  - (* OFetch *)
    apply in_mbox_le. intros n b E. destruct (get_client b s) as [c|]; [|apply world_le_refl].
    destruct (gate b s uidc true) as [[b0 o0]|] eqn:G; [|apply world_le_refl].
    apply gate_true in G.
    destruct (admit_set w n b0 uidc set) as [[[b1a o1a] sl]|] eqn:A;
      [|cbn [fst]; apply world_le_set with b; [exact E|subst b0; apply le_flush]].
    apply admit_set_ok in A. split_pair (flush b1a s) b1 o1b.
    match goal with |- context [dispatch ?B ?D ?R] => split_pair (dispatch B D R) b3 o2 end.
    split_pair (flush b3 s) b4 o3. cbn [fst]. apply world_le_set with b; [exact E|].
    subst b4. eapply box_le_trans; [|apply le_flush]. subst b3. eapply box_le_trans; [|apply le_dispatch].
    match goal with |- box_le b (set_msgs ?B (map_at ?F ?S (b_msgs b1) 1)) =>
      apply box_le_trans with B; [|apply (le_map_at B F S); intros m0; destruct k; repeat split] end.
    eapply box_le_trans; [|apply le_upd_client]. subst b1 b1a b0. eapply box_le_trans; [apply le_flush|]. eapply box_le_trans; [apply le_resync|apply le_flush].
  - (* OSearch *)
    apply in_mbox_le. intros n b E.
    destruct (gate b s uidc true) as [[b0 o0]|] eqn:G; [|apply world_le_refl].
    rewrite admit_is_resync. split_pair (resync b0) b1a o1a. split_pair (flush b1a s) b1 o1b. cbn [fst].
    apply world_le_set with b; [exact E|]. subst b1 b1a. eapply box_le_trans; [|apply le_flush]. eapply box_le_trans; [|apply le_resync].
    apply gate_any in G. destruct G as [->| ->]; [apply le_flush|apply box_le_refl].
  - (* OExpunge *)
    apply in_mbox_le. intros n b E. destruct (get_client b s) as [c|]; [|apply world_le_refl].
    split_pair (flush b s) b0 o0.
    destruct (c_exam c); [cbn [fst]; apply world_le_set with b; [exact E|subst b0; apply le_flush]|].
    destruct uset as [st|].
    + destruct (admit_set w n (upd_client b0 s (fun c0 => set_idle c0 true)) true st) as [[[b1 o1] sl]|] eqn:A.
      * apply admit_set_ok in A.
        match goal with |- context [expunge b1 ?D] => split_pair (expunge b1 D) b2 o2 end.
        cbn [fst]. apply world_le_set with b; [exact E|].
        eapply box_le_trans; [|apply le_upd_client]. subst b2. eapply box_le_trans; [|apply le_expunge].
        subst b1. eapply box_le_trans; [|apply le_resync]. eapply box_le_trans; [|apply le_upd_client].
        subst b0. apply le_flush.
      * cbn [fst]. apply world_le_set with b; [exact E|].
        eapply box_le_trans; [|apply le_upd_client]. eapply box_le_trans; [|apply le_upd_client]. subst b0. apply le_flush.
    + rewrite admit_is_resync.
      split_pair (resync (upd_client b0 s (fun c0 => set_idle c0 true))) b1 o1.
      match goal with |- context [expunge b1 ?D] => split_pair (expunge b1 D) b2 o2 end.
      cbn [fst]. apply world_le_set with b; [exact E|].
      eapply box_le_trans; [|apply le_upd_client]. subst b2. eapply box_le_trans; [|apply le_expunge].
      subst b1. eapply box_le_trans; [|apply le_resync]. eapply box_le_trans; [|apply le_upd_client].
      subst b0. apply le_flush.
  - (* OCopy *)
    apply in_mbox_le. intros n b E.
    split_pair (flush b s) b0 o0.
    destruct (admit_set w n b0 uidc set) as [[[b1 o1] sl]|] eqn:A;
      [|cbn [fst]; apply world_le_set with b; [exact E|subst b0; apply le_flush]].
    apply admit_set_ok in A.
    assert (L1 : world_le w (set_box w n b1)).
    { apply world_le_set with b; [exact E|]. subst b1 b0. eapply box_le_trans; [apply le_flush|apply le_resync]. }
    destruct (copy_into (set_box w n b1) b1 sl (lower_inbox dst)) as [[[[w2 o2] src] dstu]|] eqn:C; [|exact L1].
    cbn [fst]. eapply world_le_trans; [exact L1|]. apply (copy_into_le _ _ _ _ _ _ _ _ C).
  - (* OMove *)
    apply in_mbox_le. intros n b E. destruct (get_client b s) as [c|]; [|apply world_le_refl].
    destruct (c_exam c); [apply world_le_refl|].
    split_pair (flush b s) b0 o0.
    destruct (admit_set w n b0 uidc set) as [[[b1 o1] sl]|] eqn:A;
      [|cbn [fst]; apply world_le_set with b; [exact E|subst b0; apply le_flush]].
    apply admit_set_ok in A.
    assert (L1 : world_le w (set_box w n b1)).
    { apply world_le_set with b; [exact E|]. subst b1 b0. eapply box_le_trans; [apply le_flush|apply le_resync]. }
    destruct (copy_into (set_box w n b1) b1 sl (lower_inbox dst)) as [[[[w2 o2] src] dstu]|] eqn:C; [|exact L1].
    pose proof (copy_into_le _ _ _ _ _ _ _ _ C) as L2.
    assert (L12 : world_le w w2) by (eapply world_le_trans; eauto).
    destruct src as [|u0 src']; [exact L12|].
    destruct (get_box w2 n) as [sb|] eqn:E2; [|exact L12].
    split_pair (flush sb s) sb0 o3. rewrite admit_is_resync.
    split_pair (resync (upd_client sb0 s (fun c0 => set_idle c0 true))) sb1 o4.
    match goal with |- context [expunge sb1 ?D] => split_pair (expunge sb1 D) sb2 o5 end.
    cbn [fst]. eapply world_le_trans; [exact L12|]. apply world_le_set with sb; [exact E2|].
    eapply box_le_trans; [|apply le_upd_client]. subst sb2. eapply box_le_trans; [|apply le_expunge].
    subst sb1. eapply box_le_trans; [|apply le_resync]. eapply box_le_trans; [|apply le_upd_client].
    subst sb0. apply le_flush.
  - (* ODeliver *)
    destruct (get_box w m) as [b|] eqn:E; [|apply world_le_refl]. cbn [fst].
    apply world_le_set with b; [exact E|apply le_with_disk].
  - apply poll_le.
  - (* OMkbox *)
    destruct (get_box w m) as [b|] eqn:E; [apply world_le_refl|]. cbn [fst].
    intros n' b' H. exists b'. split; [|apply box_le_refl].
    unfold get_box. cbn [w_boxes]. rewrite get_box_append. rewrite H. reflexivity.
  - (* ORestart *)
    cbn [fst]. intros n' b' H. exists (set_clients b' []). split; [|apply le_set_clients].
    unfold get_box in *. cbn [w_boxes]. rewrite get_box_map_clients, H. reflexivity.
Qed.

Theorem run_le ops : forall w, world_le w (fst (run w ops)).
Proof.
  intros w. unfold run. rewrite run_fst. revert w.
  induction ops as [|o ops IH]; intros w; cbn [fold_left]; [apply world_le_refl|].
  eapply world_le_trans; [apply step_le|apply IH].
Qed.

Lemma restart_box w n b : get_box w n = Some b -> get_box (fst (step w ORestart)) n = Some (set_clients b []).
Proof.
  intros H. unfold step. cbn [fst]. unfold get_box in *. cbn [w_boxes]. rewrite get_box_map_clients, H. reflexivity.
Qed.

Lemma restart_inv w : winv w -> winv (fst (step w ORestart)).
Proof. exact (step_inv w ORestart). Qed.
