(* Proofs/KeywordsBridge.v — the keywords the world model refuses (Model/Mbox.reserved_kw) are exactly
   the ones mbox.unstorable_keywords returns, as regenerated from the source on every run
   (Gen/Keywords.v, which consults the SYSTEM_FLAG_MAP of Gen/Flags.v). *)
From Asimap Require Import Base.Res Spec.SetSem Model.Mbox Proofs.FlagsP.
From Asimap Require Gen.Flags Gen.Keywords.
From Coq Require Import Lia Arith List Bool String Ascii.

Lemma unstorable_chars f :
  str_has unstorable_char f = str_contains1 (Ascii.ascii_of_nat 58) f || negb (str_isascii f).
Proof.
  induction f as [|c f IH]; [reflexivity|].
  cbn [str_has str_contains1 str_isascii]. rewrite IH. unfold unstorable_char.
  rewrite Nat.ltb_antisym.
  destruct (Ascii.eqb c (ascii_of_nat 58)), (Nat.leb (nat_of_ascii c) 127),
           (str_contains1 (ascii_of_nat 58) f), (str_isascii f); reflexivity.
Qed.

Lemma reserved_names f :
  smem f ["replied"; "Deleted"; "Draft"; "flagged"; "Recent"; "Seen"; "unseen"]%string =
  dict_mem Gen.Flags.SYSTEM_FLAG_MAP f || String.eqb f "unseen".
Proof.
  unfold Gen.Flags.SYSTEM_FLAG_MAP. cbn [dict_mem smem existsb].
  repeat match goal with |- context [String.eqb ?a ?b] => destruct (String.eqb a b) end; reflexivity.
Qed.

Lemma reserved_kw_generated f :
  reserved_kw f = (dict_mem Gen.Flags.SYSTEM_FLAG_MAP f || String.eqb f "unseen"
                   || str_contains1 (Ascii.ascii_of_nat 58) f || negb (str_isascii f)).
Proof.
  unfold reserved_kw. rewrite unstorable_chars, reserved_names.
  destruct (dict_mem Gen.Flags.SYSTEM_FLAG_MAP f), (String.eqb f "unseen"),
           (str_contains1 (ascii_of_nat 58) f), (str_isascii f); reflexivity.
Qed.

Theorem unstorable_keywords_is_reserved flags :
  Gen.Keywords.unstorable_keywords flags = Ok (filter reserved_kw flags).
Proof.
  unfold Gen.Keywords.unstorable_keywords. f_equal. apply filter_ext. intros f. symmetry. apply reserved_kw_generated.
Qed.

Theorem storable_keywords_roundtrip f :
  Gen.Keywords.unstorable_keywords [f] = Ok [] -> seq_to_flag (flag_to_seq f) = f.
Proof.
  intros H. rewrite unstorable_keywords_is_reserved in H. cbn [filter] in H.
  destruct (reserved_kw f) eqn:E; [discriminate H|]. exact (seq_of_flag_roundtrip f E).
Qed.
