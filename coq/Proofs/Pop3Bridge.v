(* Proofs/Pop3Bridge.v — the terminator of multi-line POP3 replies of Model/Pop3M.v IS
   pop3_client.end_multiline as regenerated from the source on every run (Gen/DotStuff.v). *)
From Asimap Require Import Base.Res Base.Bytes Gen.DotStuff Spec.Pop3Spec Model.Pop3M Proofs.Pop3P.
From Asimap Require Gen.DotStuff.
From Coq Require Import Lia ZArith List Bool.
Open Scope Z_scope.

Lemma ends_crlf_app p x y : ends_crlf (p ++ [x; y]) = (x =? 13) && (y =? 10).
Proof.
  induction p as [|a p IH]; [reflexivity|].
  destruct p as [|b p'].
  - cbn [app] in *. cbn [ends_crlf]. exact IH.
  - change ((a :: b :: p') ++ [x; y]) with (a :: (b :: p') ++ [x; y]).
    rewrite <- IH. destruct p' as [|c p'']; reflexivity.
Qed.

Lemma ends_crlf_endswith l : bytes_endswith l [13; 10] = ends_crlf l.
Proof.
  unfold bytes_endswith. cbn [rev app].
  rewrite <- (rev_involutive l) at 2. destruct (rev l) as [|y [|x q]].
  - reflexivity.
  - cbn [rev app bytes_startswith ends_crlf]. apply andb_false_r.
  - cbn [rev]. rewrite <- !app_assoc. cbn [app]. rewrite ends_crlf_app. cbn [bytes_startswith].
    rewrite (Z.eqb_sym 10 y), (Z.eqb_sym 13 x).
    replace (bytes_startswith q []) with true by (destruct q; reflexivity).
    destruct (y =? 10), (x =? 13); reflexivity.
Qed.

Theorem end_multiline_is_generated d : Gen.DotStuff.end_multiline d = Ok (Pop3M.end_multiline d).
Proof.
  unfold Gen.DotStuff.end_multiline, Pop3M.end_multiline, crlf. rewrite ends_crlf_endswith.
  replace (bytes_is_empty d) with (is_nil d) by (destruct d; reflexivity).
  destruct (negb (is_nil d) && negb (ends_crlf d)); reflexivity.
Qed.

Theorem generated_wire_roundtrip d :
  exists p w, dot_stuff d = Ok p /\ Asimap.Gen.DotStuff.end_multiline p = Ok w /\
    receive w = Some (if negb (is_nil d) && negb (ends_crlf d) then d ++ crlf else d).
Proof.
  destruct (stuffing d) as [p [Hp [_ [_ Hr]]]].
  exists p, (Pop3M.end_multiline p). split; [exact Hp|]. split; [apply end_multiline_is_generated|exact Hr].
Qed.
