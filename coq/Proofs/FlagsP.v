(* Proofs/FlagsP.v — C04: STORE semantics on the MH sequence sets of Model/Mbox.v refine the
   reference (set union / difference / replacement), \Seen and `unseen` stay exact complements,
   \Recent cannot be set or cleared by STORE, and flags <-> sequence names is a bijection outside
   the reserved spellings.  Bridge to the generated constants.flag_to_seq / seq_to_flag. *)
From Asimap Require Import Base.Res Spec.SetSem Model.Mbox.
From Asimap Require Gen.Flags.
Local Open Scope Z_scope.
Local Open Scope string_scope.

Lemma smem_sadd x y l : smem x (sadd y l) = String.eqb x y || smem x l.
Proof.
  unfold sadd. destruct (smem y l) eqn:E.
  - destruct (String.eqb x y) eqn:E2; [apply String.eqb_eq in E2; subst; rewrite E; reflexivity|reflexivity].
  - unfold smem. rewrite existsb_app. cbn [existsb]. rewrite orb_false_r, orb_comm. reflexivity.
Qed.
Lemma smem_srem x y l : smem x (srem y l) = negb (String.eqb x y) && smem x l.
Proof.
  unfold srem, smem. induction l as [|z l IH]; cbn [filter existsb]; [rewrite andb_false_r; reflexivity|].
  destruct (String.eqb y z) eqn:E; cbn [negb].
  - apply String.eqb_eq in E; subst z. rewrite IH. rewrite (String.eqb_sym x y).
    destruct (String.eqb y x); cbn; reflexivity.
  - cbn [existsb]. rewrite IH. destruct (String.eqb x z) eqn:E2; [|destruct (String.eqb x y); reflexivity].
    apply String.eqb_eq in E2; subst z. rewrite (String.eqb_sym x y), E. reflexivity.
Qed.

(* ---- the reference: what STORE does to the set of a message, marker `unseen` aside *)
Definition ref_store (act : staction) (fl seqs : list string) (x : string) : bool :=
  match act with
  | Add => smem x fl || smem x seqs
  | Remove => smem x seqs && negb (smem x fl)
  | Replace => smem x fl || (String.eqb x "Recent" && smem x seqs)
  end.

Lemma help_add_mem seqs f x : x <> "unseen" -> f <> "unseen" ->
  smem x (help_add seqs f) = String.eqb x f || smem x seqs.
Proof.
  intros Hx Hf. unfold help_add. destruct (String.eqb f "Seen") eqn:E.
  - rewrite smem_srem, smem_sadd. apply String.eqb_neq in Hx. rewrite Hx. reflexivity.
  - destruct (String.eqb f "unseen") eqn:E2; [apply String.eqb_eq in E2; congruence|]. apply smem_sadd.
Qed.
Lemma help_remove_mem seqs f x : x <> "unseen" -> f <> "unseen" ->
  smem x (help_remove seqs f) = negb (String.eqb x f) && smem x seqs.
Proof.
  intros Hx Hf. unfold help_remove. destruct (String.eqb f "Seen") eqn:E.
  - rewrite smem_sadd, smem_srem. apply String.eqb_neq in Hx. rewrite Hx. reflexivity.
  - destruct (String.eqb f "unseen") eqn:E2; [apply String.eqb_eq in E2; congruence|]. apply smem_srem.
Qed.

Lemma fold_add_mem fl : forall seqs x, x <> "unseen" -> smem "unseen" fl = false ->
  smem x (fold_left help_add fl seqs) = smem x fl || smem x seqs.
Proof.
  induction fl as [|f fl IH]; intros seqs x Hx Hu; cbn [fold_left]; [reflexivity|].
  cbn [smem existsb] in Hu. apply orb_false_elim in Hu. destruct Hu as [Hf Hu].
  rewrite IH by trivial. rewrite help_add_mem; trivial.
  - cbn [smem existsb]. fold (smem x fl). rewrite (String.eqb_sym x f).
    destruct (String.eqb f x), (smem x fl), (smem x seqs); reflexivity.
  - intros ->. cbn in Hf. discriminate.
Qed.
Lemma fold_remove_mem fl : forall seqs x, x <> "unseen" -> smem "unseen" fl = false ->
  smem x (fold_left help_remove fl seqs) = smem x seqs && negb (smem x fl).
Proof.
  induction fl as [|f fl IH]; intros seqs x Hx Hu; cbn [fold_left]; [cbn; rewrite andb_true_r; reflexivity|].
  cbn [smem existsb] in Hu. apply orb_false_elim in Hu. destruct Hu as [Hf Hu].
  rewrite IH by trivial. rewrite help_remove_mem; trivial.
  - cbn [smem existsb]. fold (smem x fl). rewrite (String.eqb_sym x f).
    destruct (String.eqb f x), (smem x fl), (smem x seqs); reflexivity.
  - intros ->. cbn in Hf. discriminate.
Qed.
Lemma fold_sadd_mem fl : forall acc x, smem x (fold_left (fun a f => sadd f a) fl acc) = smem x fl || smem x acc.
Proof.
  induction fl as [|f fl IH]; intros acc x; cbn [fold_left]; [reflexivity|].
  rewrite IH, smem_sadd. cbn [smem existsb]. fold (smem x fl). rewrite (String.eqb_sym x f).
  destruct (String.eqb f x), (smem x fl), (smem x acc); reflexivity.
Qed.

Theorem store_refines act fl m x :
  x <> "unseen" -> smem "unseen" fl = false ->
  smem x (m_seqs (apply_store act fl m)) = ref_store act fl (m_seqs m) x.
Proof.
  intros Hx Hu. destruct act; cbn [apply_store m_seqs ref_store].
  - (* Replace *)
    unfold help_replace. set (new0 := fold_left (fun a f => sadd f a) fl []).
    assert (H0 : forall y, smem y new0 = smem y fl) by (intros y; unfold new0; rewrite fold_sadd_mem; cbn; apply orb_false_r).
    assert (H1 : smem x (if smem "Seen" new0 then new0 else sadd "unseen" new0) = smem x fl).
    { destruct (smem "Seen" new0); [apply H0|]. rewrite smem_sadd, H0. apply String.eqb_neq in Hx. rewrite Hx. reflexivity. }
    destruct (smem "Recent" (m_seqs m)) eqn:Er.
    + rewrite smem_sadd, H1. destruct (String.eqb x "Recent") eqn:E.
      * apply String.eqb_eq in E. subst x. rewrite Er. cbn. rewrite orb_true_r. reflexivity.
      * cbn. rewrite orb_false_r. reflexivity.
    + rewrite H1. destruct (String.eqb x "Recent") eqn:E; [|cbn; rewrite orb_false_r; reflexivity].
      apply String.eqb_eq in E. subst x. rewrite Er. cbn. rewrite orb_false_r. reflexivity.
  - apply fold_add_mem; trivial.
  - apply fold_remove_mem; trivial.
Qed.

(* ---- \Seen and `unseen` are exact complements *)
Definition cpl (seqs : list string) : Prop := smem "Seen" seqs = negb (smem "unseen" seqs).

Lemma help_add_cpl seqs f : cpl seqs -> cpl (help_add seqs f).
Proof.
  unfold cpl, help_add. intros H. destruct (String.eqb f "Seen") eqn:E.
  - apply String.eqb_eq in E; subst. rewrite !smem_srem, !smem_sadd. cbn. reflexivity.
  - destruct (String.eqb f "unseen") eqn:E2.
    + apply String.eqb_eq in E2; subst. rewrite !smem_srem, !smem_sadd. cbn. reflexivity.
    + rewrite !smem_sadd. rewrite (String.eqb_sym "Seen" f), E, (String.eqb_sym "unseen" f), E2. cbn. exact H.
Qed.
Lemma help_remove_cpl seqs f : cpl seqs -> cpl (help_remove seqs f).
Proof.
  unfold cpl, help_remove. intros H. destruct (String.eqb f "Seen") eqn:E.
  - apply String.eqb_eq in E; subst. rewrite !smem_sadd, !smem_srem. cbn. reflexivity.
  - destruct (String.eqb f "unseen") eqn:E2.
    + apply String.eqb_eq in E2; subst. rewrite !smem_sadd, !smem_srem. cbn. reflexivity.
    + rewrite !smem_srem. rewrite (String.eqb_sym "Seen" f), E, (String.eqb_sym "unseen" f), E2. cbn. exact H.
Qed.
Lemma fold_cpl (h : list string -> string -> list string) fl :
  (forall s f, cpl s -> cpl (h s f)) -> forall seqs, cpl seqs -> cpl (fold_left h fl seqs).
Proof. intros Hh. induction fl as [|f fl IH]; intros seqs H; cbn [fold_left]; [exact H|]. apply IH. apply Hh. exact H. Qed.

Theorem store_keeps_complement act fl m :
  smem "unseen" fl = false -> cpl (m_seqs m) -> cpl (m_seqs (apply_store act fl m)).
Proof.
  intros Hu H. destruct act; cbn [apply_store m_seqs].
  - unfold cpl, help_replace. set (new0 := fold_left (fun a f => sadd f a) fl []).
    assert (H0 : forall y, smem y new0 = smem y fl) by (intros y; unfold new0; rewrite fold_sadd_mem; cbn; apply orb_false_r).
    assert (Hc : smem "Seen" (if smem "Seen" new0 then new0 else sadd "unseen" new0)
                 = negb (smem "unseen" (if smem "Seen" new0 then new0 else sadd "unseen" new0))).
    { destruct (smem "Seen" new0) eqn:E; [rewrite E, H0, Hu; reflexivity|]. rewrite !smem_sadd, E, H0, Hu. reflexivity. }
    destruct (smem "Recent" (m_seqs m)); [rewrite !smem_sadd; cbn; exact Hc|exact Hc].
  - apply fold_cpl; [intros; apply help_add_cpl; trivial|exact H].
  - apply fold_cpl; [intros; apply help_remove_cpl; trivial|exact H].
Qed.

(* ---- \Recent is out of a client's reach *)
Theorem store_keeps_recent act fl m :
  smem "Recent" fl = false -> smem "unseen" fl = false ->
  smem "Recent" (m_seqs (apply_store act fl m)) = smem "Recent" (m_seqs m).
Proof.
  intros Hr Hu. rewrite store_refines by (trivial; discriminate).
  destruct act; cbn [ref_store]; rewrite Hr; cbn; [reflexivity|reflexivity|apply andb_true_r].
Qed.

(* ---- flags <-> MH sequence names *)
Lemma seq_of_flag_roundtrip f : reserved_kw f = false -> seq_to_flag (flag_to_seq f) = f.
Proof.
  unfold reserved_kw, smem. cbn [existsb]. intros H. apply orb_false_elim in H. destruct H as [_ H].
  repeat (apply orb_false_elim in H; destruct H as [? H]).
  unfold flag_to_seq.
  destruct (String.eqb f "\Answered") eqn:E1; [apply String.eqb_eq in E1; subst; reflexivity|].
  destruct (String.eqb f "\Deleted") eqn:E2; [apply String.eqb_eq in E2; subst; reflexivity|].
  destruct (String.eqb f "\Draft") eqn:E3; [apply String.eqb_eq in E3; subst; reflexivity|].
  destruct (String.eqb f "\Flagged") eqn:E4; [apply String.eqb_eq in E4; subst; reflexivity|].
  destruct (String.eqb f "\Recent") eqn:E5; [apply String.eqb_eq in E5; subst; reflexivity|].
  destruct (String.eqb f "\Seen") eqn:E6; [apply String.eqb_eq in E6; subst; reflexivity|].
  unfold seq_to_flag.
  repeat match goal with Hx : String.eqb f ?s = false |- context [String.eqb f ?s] => rewrite Hx end.
  reflexivity.
Qed.

Theorem flag_to_seq_injective f1 f2 :
  reserved_kw f1 = false -> reserved_kw f2 = false -> flag_to_seq f1 = flag_to_seq f2 -> f1 = f2.
Proof. intros H1 H2 E. rewrite <- (seq_of_flag_roundtrip f1 H1), <- (seq_of_flag_roundtrip f2 H2), E. reflexivity. Qed.

(* ---- bridge: the hand model of the two maps IS the generated one (constants.py) *)
Theorem gen_flag_to_seq f : Gen.Flags.flag_to_seq f = flag_to_seq f.
Proof.
  unfold Gen.Flags.flag_to_seq, Gen.Flags.REV_SYSTEM_FLAG_MAP, Gen.Flags.SYSTEM_FLAG_MAP, flag_to_seq.
  cbn [map fst snd dict_mem dict_get].
  destruct (String.eqb f "\Answered"); [reflexivity|]. destruct (String.eqb f "\Deleted"); [reflexivity|].
  destruct (String.eqb f "\Draft"); [reflexivity|]. destruct (String.eqb f "\Flagged"); [reflexivity|].
  destruct (String.eqb f "\Recent"); [reflexivity|]. destruct (String.eqb f "\Seen"); reflexivity.
Qed.
Theorem gen_seq_to_flag s : Gen.Flags.seq_to_flag s = seq_to_flag s.
Proof.
  unfold Gen.Flags.seq_to_flag, Gen.Flags.SYSTEM_FLAG_MAP, seq_to_flag. cbn [dict_mem dict_get].
  destruct (String.eqb s "replied"); [reflexivity|]. destruct (String.eqb s "Deleted"); [reflexivity|].
  destruct (String.eqb s "Draft"); [reflexivity|]. destruct (String.eqb s "flagged"); [reflexivity|].
  destruct (String.eqb s "Recent"); [reflexivity|]. destruct (String.eqb s "Seen"); reflexivity.
Qed.
Theorem gen_reserved : forall k, In k (map fst Gen.Flags.SYSTEM_FLAG_MAP) -> reserved_kw k = true.
Proof. intros k H. cbn in H. repeat (destruct H as [<-|H]; [vm_compute; reflexivity|]). destruct H. Qed.
