(* Proofs/PathP.v — C09: lemmas about Model/Path.v (normpath, join, the validator) and
   Spec/Inside.v (lexical confinement).  All statements are for arbitrary strings / component
   lists: structural induction, no length bound. *)
From Asimap Require Import Base.Res Model.Path Spec.Inside.
Open Scope Z_scope.

(* ------------------------------------------------------------------ strings *)
Lemma str_eqb_eq a b : str_eqb a b = true <-> a = b.
Proof.
  revert b; induction a as [|x a IH]; intros [|y b]; cbn [str_eqb]; split; intros H;
    try reflexivity; try discriminate H.
  - apply andb_true_iff in H; destruct H as [H1 H2]; apply Z.eqb_eq in H1; apply IH in H2; subst; reflexivity.
  - inversion H; subst; rewrite Z.eqb_refl; cbn [andb]; apply IH; reflexivity.
Qed.

Lemma str_eqb_refl a : str_eqb a a = true.
Proof. apply str_eqb_eq; reflexivity. Qed.

Definition noslash (c : str) : bool := forallb (fun x => negb (x =? SLASH)) c.
Definition normalc (c : str) : bool :=
  negb (c_empty c) && negb (c_dot c) && negb (c_dotdot c) && noslash c.
Definition Noslash (c : str) : Prop := noslash c = true.
Definition Normal (c : str) : Prop := normalc c = true.

Lemma normal_parts c : Normal c ->
  c_empty c = false /\ c_dot c = false /\ c_dotdot c = false /\ noslash c = true.
Proof.
  unfold Normal, normalc; intros H.
  repeat (apply andb_true_iff in H; destruct H as [H ?]).
  repeat split; try assumption; apply negb_true_iff; assumption.
Qed.

Lemma normal_noslash c : Normal c -> Noslash c.
Proof. intros H; apply normal_parts in H; apply H. Qed.

Lemma normal_nonempty c : Normal c -> c <> [].
Proof. intros H E; subst; discriminate H. Qed.

Lemma dotdot_not_normal : ~ Normal s_dotdot.
Proof. intros H; discriminate H. Qed.

Lemma dotdot_noslash : Noslash s_dotdot.
Proof. reflexivity. Qed.

Lemma Forall_normal_noslash ns : Forall Normal ns -> Forall Noslash ns.
Proof. intros H; eapply Forall_impl; [|exact H]; exact normal_noslash. Qed.

(* every slash-free component is skipped, is "..", or is normal *)
Lemma comp_cases c : Noslash c ->
  (c_empty c || c_dot c = true) \/ c = s_dotdot \/ Normal c.
Proof.
  intros Hn. destruct (c_empty c || c_dot c) eqn:E1; [left; reflexivity|].
  apply orb_false_iff in E1; destruct E1 as [E1 E2].
  destruct (c_dotdot c) eqn:E3.
  - right; left; apply str_eqb_eq; exact E3.
  - right; right; unfold Normal, normalc; rewrite E1, E2, E3, Hn; reflexivity.
Qed.

(* ------------------------------------------------------------------ split / join *)
Lemma split_nonnil s : split_slash s <> [].
Proof.
  destruct s as [|c r]; cbn [split_slash]; [discriminate|].
  destruct (c =? SLASH); [discriminate|]. destruct (split_slash r); discriminate.
Qed.

Lemma split_app_slash a b : split_slash (a ++ SLASH :: b) = split_slash a ++ split_slash b.
Proof.
  induction a as [|c a IH]; cbn [app split_slash].
  - rewrite Z.eqb_refl; reflexivity.
  - destruct (c =? SLASH); [rewrite IH; reflexivity|].
    rewrite IH. destruct (split_slash a) as [|h t] eqn:E; [exfalso; exact (split_nonnil a E)|].
    reflexivity.
Qed.

Lemma split_noslash s : Forall Noslash (split_slash s).
Proof.
  induction s as [|c r IH]; cbn [split_slash]; [constructor; [reflexivity|constructor]|].
  destruct (c =? SLASH) eqn:E; [constructor; [reflexivity|exact IH]|].
  destruct (split_slash r) as [|h t]; [constructor; [|constructor]|].
  - unfold Noslash, noslash; cbn [forallb]; rewrite E; reflexivity.
  - inversion IH as [|? ? Hh Ht]; subst; constructor; [|exact Ht].
    unfold Noslash, noslash in *; cbn [forallb]; rewrite E, Hh; reflexivity.
Qed.

Lemma split_of_noslash c : Noslash c -> split_slash c = [c].
Proof.
  unfold Noslash, noslash; induction c as [|x c IH]; cbn [forallb split_slash]; intros H; [reflexivity|].
  apply andb_true_iff in H; destruct H as [H1 H2]; apply negb_true_iff in H1; rewrite H1.
  rewrite (IH H2); reflexivity.
Qed.

Lemma join_cons2 x y r : join_slash (x :: y :: r) = x ++ SLASH :: join_slash (y :: r).
Proof. reflexivity. Qed.

Lemma split_join cs : cs <> [] -> Forall Noslash cs -> split_slash (join_slash cs) = cs.
Proof.
  induction cs as [|x cs IH]; intros Hne Hall; [exfalso; apply Hne; reflexivity|].
  inversion Hall as [|? ? Hx Hr]; subst.
  destruct cs as [|y r]; [cbn [join_slash]; apply split_of_noslash; exact Hx|].
  rewrite join_cons2, split_app_slash, (split_of_noslash _ Hx), IH; [reflexivity|discriminate|exact Hr].
Qed.

(* join of a list whose head is a non-empty slash-free component: head, then nothing or "/..." *)
Lemma join_head c r : exists t, join_slash (c :: r) = c ++ t /\ (t = [] \/ exists t', t = SLASH :: t').
Proof.
  destruct r as [|y r]; [exists []; cbn [join_slash]; rewrite app_nil_r; split; [reflexivity|left; reflexivity]|].
  exists (SLASH :: join_slash (y :: r)); split; [reflexivity|right; eexists; reflexivity].
Qed.

Lemma join_nonempty c r : c <> [] -> join_slash (c :: r) <> [].
Proof.
  intros Hc; destruct (join_head c r) as [t [E _]]; rewrite E.
  destruct c; [exfalso; apply Hc; reflexivity|discriminate].
Qed.

Lemma or_dot_nonempty p : p <> [] -> or_dot p = p.
Proof. destruct p; [intros H; exfalso; apply H; reflexivity|reflexivity]. Qed.

Lemma noslash_head x c : Noslash (x :: c) -> (x =? SLASH) = false /\ Noslash c.
Proof.
  unfold Noslash, noslash; cbn [forallb]; intros H; apply andb_true_iff in H; destruct H as [H1 H2].
  apply negb_true_iff in H1; split; assumption.
Qed.

(* the head of a join does not start with "/" *)
Lemma join_not_abs c r : Noslash c -> c <> [] -> startswith (join_slash (c :: r)) [SLASH] = false.
Proof.
  intros Hn Hc; destruct (join_head c r) as [t [E _]]; rewrite E.
  destruct c as [|x c]; [exfalso; apply Hc; reflexivity|].
  apply noslash_head in Hn; destruct Hn as [Hx _]; cbn [app startswith]; rewrite Hx; reflexivity.
Qed.

Lemma strip1_rel s : startswith s [SLASH] = false -> strip1 s = s.
Proof.
  destruct s as [|x s]; [reflexivity|]; cbn [startswith strip1]; intros H.
  rewrite andb_true_r in H; rewrite H; reflexivity.
Qed.

(* `escapes` of a joined component list looks at the first component only *)
Lemma escapes_join c r : Noslash c -> c <> [] -> escapes (join_slash (c :: r)) = c_dotdot c.
Proof.
  intros Hn Hc; destruct (join_head c r) as [t [E Ht]]; rewrite E; clear E.
  unfold escapes, c_dotdot, s_dotdot.
  destruct c as [|x c]; [exfalso; apply Hc; reflexivity|].
  apply noslash_head in Hn; destruct Hn as [Hx Hn].
  destruct c as [|y c].
  { cbn [app startswith str_eqb]; rewrite Hx; cbn [andb orb].
    destruct Ht as [->|[t' ->]]; cbn [startswith str_eqb];
      unfold SLASH, DOT in *; destruct (x =? 46); reflexivity. }
  apply noslash_head in Hn; destruct Hn as [Hy Hn].
  destruct c as [|z c].
  { cbn [app startswith str_eqb]; rewrite Hx; cbn [andb orb].
    destruct Ht as [->|[t' ->]]; cbn [startswith str_eqb];
      unfold SLASH, DOT in *; destruct (x =? 46); destruct (y =? 46); reflexivity. }
  apply noslash_head in Hn; destruct Hn as [Hz Hn].
  cbn [app startswith str_eqb]; rewrite Hx, Hz; cbn [andb orb].
  unfold SLASH, DOT in *; destruct (x =? 46); destruct (y =? 46); reflexivity.
Qed.

(* ------------------------------------------------------------------ the normpath loop *)
Lemma np_step_skip isabs st c : c_empty c || c_dot c = true -> np_step isabs st c = st.
Proof. intros H; unfold np_step; rewrite H; reflexivity. Qed.

Lemma np_step_normal isabs st c : Normal c -> np_step isabs st c = c :: st.
Proof.
  intros H; apply normal_parts in H; destruct H as [H1 [H2 [H3 _]]].
  unfold np_step; rewrite H1, H2, H3; reflexivity.
Qed.

Lemma np_step_dd_pop isabs t st : Normal t -> np_step isabs (t :: st) s_dotdot = st.
Proof.
  intros H; apply normal_parts in H; destruct H as [_ [_ [H3 _]]].
  unfold np_step; cbn [c_empty s_dotdot c_dot c_dotdot str_eqb orb negb]; rewrite H3; reflexivity.
Qed.

Lemma np_step_dd_dd st : np_step false (s_dotdot :: st) s_dotdot = s_dotdot :: s_dotdot :: st.
Proof. reflexivity. Qed.

Lemma stays_skip d c r : c_empty c || c_dot c = true -> stays d (c :: r) = stays d r.
Proof. intros H; cbn [stays]; rewrite H; reflexivity. Qed.

Lemma stays_normal d c r : Normal c -> stays d (c :: r) = stays (S d) r.
Proof.
  intros H; apply normal_parts in H; destruct H as [H1 [H2 [H3 _]]].
  cbn [stays]; rewrite H1, H2, H3; reflexivity.
Qed.

Lemma stays_dd d r : stays d (s_dotdot :: r) = match d with O => false | S d' => stays d' r end.
Proof. reflexivity. Qed.

Lemma stays_normals ns : Forall Normal ns -> forall d, stays d ns = true.
Proof.
  induction 1 as [|c ns Hc _ IH]; intros d; [reflexivity|].
  rewrite (stays_normal _ _ _ Hc); apply IH.
Qed.

(* The relative-path loop.  Stack (reversed new_comps) = normal components on top of k ".."s.
   The ".."s at the bottom are never removed, and one appears exactly when the walk leaves root. *)
Lemma fold_rel_spec cs : Forall Noslash cs ->
  forall ns k, Forall Normal ns ->
  exists ns' k',
    fold_left (np_step false) cs (ns ++ repeat s_dotdot k) = ns' ++ repeat s_dotdot k'
    /\ Forall Normal ns'
    /\ (k' = 0%nat <-> (k = 0%nat /\ stays (List.length ns) cs = true)).
Proof.
  induction 1 as [|c cs Hc _ IH]; intros ns k Hns.
  - exists ns, k; cbn [fold_left stays]; split; [reflexivity|split; [exact Hns|]].
    split; [intros ->; split; reflexivity|intros [-> _]; reflexivity].
  - cbn [fold_left].
    destruct (comp_cases c Hc) as [Hskip|[->|Hn]].
    + rewrite (np_step_skip _ _ _ Hskip), (stays_skip _ _ _ Hskip); apply IH; exact Hns.
    + destruct ns as [|t ns0].
      * cbn [app List.length]. rewrite stays_dd.
        destruct k as [|j].
        -- cbn [repeat]. change (np_step false [] s_dotdot) with ([] ++ repeat s_dotdot 1).
           destruct (IH [] 1%nat (Forall_nil _)) as [ns' [k' [E [Hn' Hk]]]].
           exists ns', k'; split; [exact E|split; [exact Hn'|]].
           split; [intros Hz; apply Hk in Hz; destruct Hz as [Hz _]; discriminate Hz
                  |intros [_ Hf]; discriminate Hf].
        -- cbn [repeat]. rewrite np_step_dd_dd.
           change (s_dotdot :: s_dotdot :: repeat s_dotdot j) with ([] ++ repeat s_dotdot (S (S j))).
           destruct (IH [] (S (S j)) (Forall_nil _)) as [ns' [k' [E [Hn' Hk]]]].
           exists ns', k'; split; [exact E|split; [exact Hn'|]].
           split; [intros Hz; apply Hk in Hz; destruct Hz as [Hz _]; discriminate Hz
                  |intros [Hf _]; discriminate Hf].
      * inversion Hns as [|? ? Ht Hns0]; subst.
        cbn [app]. rewrite (np_step_dd_pop _ _ _ Ht).
        cbn [List.length]; rewrite stays_dd. apply IH; exact Hns0.
    + rewrite (np_step_normal _ _ _ Hn), (stays_normal _ _ _ Hn).
      change (c :: ns ++ repeat s_dotdot k) with ((c :: ns) ++ repeat s_dotdot k).
      change (S (List.length ns)) with (List.length (c :: ns)).
      apply IH; constructor; assumption.
Qed.

(* The absolute-path loop: ".." at the root is dropped, so only normal components remain. *)
Lemma fold_abs_spec cs : Forall Noslash cs ->
  forall st, Forall Normal st -> Forall Normal (fold_left (np_step true) cs st).
Proof.
  induction 1 as [|c cs Hc _ IH]; intros st Hst; cbn [fold_left]; [exact Hst|].
  apply IH. destruct (comp_cases c Hc) as [Hskip|[->|Hn]].
  - rewrite (np_step_skip _ _ _ Hskip); exact Hst.
  - destruct st as [|t st]; [constructor|].
    inversion Hst as [|? ? Ht Hst']; subst; rewrite (np_step_dd_pop _ _ _ Ht); exact Hst'.
  - rewrite (np_step_normal _ _ _ Hn); constructor; assumption.
Qed.

Lemma fold_normals isabs cs : Forall Normal cs ->
  forall st, fold_left (np_step isabs) cs st = rev cs ++ st.
Proof.
  induction 1 as [|c cs Hc _ IH]; intros st; cbn [fold_left rev app]; [reflexivity|].
  rewrite (np_step_normal _ _ _ Hc), IH, <- app_assoc; reflexivity.
Qed.

Lemma repeat_snoc {A} (x : A) n : repeat x n ++ [x] = x :: repeat x n.
Proof. induction n as [|n IH]; cbn [repeat app]; [reflexivity|rewrite IH; reflexivity]. Qed.

Lemma rev_repeat' {A} (x : A) n : rev (repeat x n) = repeat x n.
Proof. induction n as [|n IH]; cbn [repeat rev]; [reflexivity|rewrite IH; apply repeat_snoc]. Qed.

Lemma fold_dds j : forall i,
  fold_left (np_step false) (repeat s_dotdot j) (repeat s_dotdot i) = repeat s_dotdot (j + i).
Proof.
  induction j as [|j IH]; intros i; cbn [repeat fold_left Nat.add]; [reflexivity|].
  replace (np_step false (repeat s_dotdot i) s_dotdot) with (repeat s_dotdot (S i))
    by (destruct i; reflexivity).
  rewrite IH, Nat.add_succ_r; reflexivity.
Qed.

(* the component list of a relative normal form: k ".."s, then normal components; k = 0 exactly
   when walking the input never leaves the starting directory *)
Lemma np_comps_rel cs : Forall Noslash cs ->
  exists k ns, np_comps false cs = repeat s_dotdot k ++ ns /\ Forall Normal ns
               /\ (k = 0%nat <-> stays 0 cs = true).
Proof.
  intros H. destruct (fold_rel_spec cs H [] 0%nat (Forall_nil _)) as [ns' [k' [E [Hn Hk]]]].
  cbn [app repeat List.length] in E, Hk.
  exists k', (rev ns'); unfold np_comps; rewrite E, rev_app_distr, rev_repeat'.
  split; [reflexivity|split; [apply Forall_rev; exact Hn|]].
  rewrite Hk; split; [intros [_ Hs]; exact Hs|intros Hs; split; [reflexivity|exact Hs]].
Qed.

Lemma np_comps_abs cs : Forall Noslash cs -> Forall Normal (np_comps true cs).
Proof. intros H; unfold np_comps; apply Forall_rev; apply fold_abs_spec; [exact H|constructor]. Qed.

(* the loop is the identity on a list that already is in normal form *)
Lemma np_comps_rel_fix k ns : Forall Normal ns ->
  np_comps false (repeat s_dotdot k ++ ns) = repeat s_dotdot k ++ ns.
Proof.
  intros Hn; unfold np_comps; rewrite fold_left_app.
  change (@nil str) with (repeat s_dotdot 0); rewrite fold_dds, Nat.add_0_r.
  rewrite (fold_normals _ _ Hn), rev_app_distr, rev_involutive, rev_repeat'; reflexivity.
Qed.

Lemma np_comps_abs_fix ns : Forall Normal ns -> np_comps true ns = ns.
Proof. intros Hn; unfold np_comps; rewrite (fold_normals _ _ Hn), app_nil_r, rev_involutive; reflexivity. Qed.

(* ------------------------------------------------------------------ normpath as a whole *)
Lemma normpath_unfold s : s <> [] ->
  normpath s = or_dot (repeat SLASH (initial_slashes s)
                       ++ join_slash (np_comps (negb (Nat.eqb (initial_slashes s) 0)) (split_slash s))).
Proof. destruct s; [intros H; exfalso; apply H; reflexivity|reflexivity]. Qed.

Lemma initial_slashes_rel s : startswith s [SLASH] = false -> initial_slashes s = 0%nat.
Proof. intros H; unfold initial_slashes; rewrite H; reflexivity. Qed.

Lemma initial_slashes_abs s : startswith s [SLASH] = true ->
  initial_slashes s = 1%nat \/ initial_slashes s = 2%nat.
Proof.
  intros H; unfold initial_slashes; rewrite H.
  destruct (startswith s [SLASH; SLASH] && negb (startswith s [SLASH; SLASH; SLASH])); [right|left]; reflexivity.
Qed.

Definition comps_form (k : nat) (ns : list str) : list str := repeat s_dotdot k ++ ns.

Lemma comps_form_noslash k ns : Forall Normal ns -> Forall Noslash (comps_form k ns).
Proof.
  intros H; apply Forall_app; split; [|apply Forall_normal_noslash; exact H].
  apply Forall_forall; intros x Hx; apply repeat_spec in Hx; subst; exact dotdot_noslash.
Qed.

(* relative input: "." or the join of k ".."s followed by normal components *)
Lemma normpath_rel s : s <> [] -> startswith s [SLASH] = false ->
  exists k ns, Forall Normal ns /\ (k = 0%nat <-> stays 0 (split_slash s) = true)
               /\ normpath s = or_dot (join_slash (comps_form k ns)).
Proof.
  intros Hne Hrel. rewrite (normpath_unfold s Hne), (initial_slashes_rel s Hrel).
  cbn [Nat.eqb negb repeat app].
  destruct (np_comps_rel (split_slash s) (split_noslash s)) as [k [ns [E [Hn Hk]]]].
  exists k, ns; rewrite E; repeat split; try assumption; apply Hk.
Qed.

(* absolute input: one or two slashes, then the join of normal components *)
Lemma normpath_abs s : startswith s [SLASH] = true ->
  exists k ns, (k = 1%nat \/ k = 2%nat) /\ Forall Normal ns
               /\ normpath s = repeat SLASH k ++ join_slash ns.
Proof.
  intros Habs. assert (Hne : s <> []) by (intros ->; discriminate Habs).
  rewrite (normpath_unfold s Hne).
  destruct (initial_slashes_abs s Habs) as [E|E]; rewrite E; cbn [Nat.eqb negb].
  - exists 1%nat, (np_comps true (split_slash s)); split; [left; reflexivity|].
    split; [apply np_comps_abs, split_noslash|reflexivity].
  - exists 2%nat, (np_comps true (split_slash s)); split; [right; reflexivity|].
    split; [apply np_comps_abs, split_noslash|reflexivity].
Qed.

Lemma join_normals_not_abs ns : Forall Normal ns -> startswith (join_slash ns) [SLASH] = false.
Proof.
  intros H; destruct ns as [|c r]; [reflexivity|]. inversion H; subst.
  apply join_not_abs; [apply normal_noslash|apply normal_nonempty]; assumption.
Qed.

Lemma comps_form_head_nonempty k ns c r : Forall Normal ns -> comps_form k ns = c :: r -> c <> [] /\ Noslash c.
Proof.
  intros Hn E; destruct k as [|k]; cbn [comps_form repeat app] in E.
  - subst ns; inversion Hn; subst; split; [apply normal_nonempty|apply normal_noslash]; assumption.
  - inversion E; subst; split; [discriminate|exact dotdot_noslash].
Qed.

(* normpath of a joined normal-form component list is that join *)
Lemma normpath_of_form k ns : Forall Normal ns -> comps_form k ns <> [] ->
  normpath (join_slash (comps_form k ns)) = join_slash (comps_form k ns).
Proof.
  intros Hn Hne. destruct (comps_form k ns) as [|c r] eqn:E; [exfalso; apply Hne; reflexivity|].
  destruct (comps_form_head_nonempty _ _ _ _ Hn E) as [Hc Hcs].
  assert (Hj : join_slash (c :: r) <> []) by (apply join_nonempty; exact Hc).
  rewrite (normpath_unfold _ Hj), (initial_slashes_rel _ (join_not_abs c r Hcs Hc)).
  cbn [Nat.eqb negb repeat app].
  rewrite split_join; [|discriminate|rewrite <- E; apply comps_form_noslash; exact Hn].
  rewrite <- E; unfold comps_form; rewrite (np_comps_rel_fix k ns Hn).
  fold (comps_form k ns); rewrite E; apply or_dot_nonempty; exact Hj.
Qed.

Lemma normpath_dot : normpath s_dot = s_dot.
Proof. reflexivity. Qed.

Lemma split_abs1 r : split_slash (SLASH :: r) = [] :: split_slash r.
Proof. cbn [split_slash]; rewrite Z.eqb_refl; reflexivity. Qed.

Lemma np_comps_skip_empty isabs cs : np_comps isabs ([] :: cs) = np_comps isabs cs.
Proof. reflexivity. Qed.

Lemma np_comps_of_split_join ns : Forall Normal ns ->
  np_comps true (split_slash (join_slash ns)) = ns.
Proof.
  intros Hn; destruct ns as [|c r]; [reflexivity|].
  rewrite split_join; [apply np_comps_abs_fix; exact Hn|discriminate|apply Forall_normal_noslash; exact Hn].
Qed.

Lemma hd_not_slash p : startswith p [SLASH] = false ->
  startswith (SLASH :: p) [SLASH; SLASH] = false.
Proof.
  intros H; cbn [startswith]; rewrite Z.eqb_refl; cbn [andb].
  destruct p as [|x p]; [reflexivity|]. cbn [startswith] in H; exact H.
Qed.

Lemma initial_slashes_1 p : startswith p [SLASH] = false -> initial_slashes (SLASH :: p) = 1%nat.
Proof.
  intros H; unfold initial_slashes; cbn [startswith]; rewrite !Z.eqb_refl; cbn [andb].
  destruct p as [|x p]; [reflexivity|]. cbn [startswith] in *. rewrite andb_true_r in H.
  rewrite H; reflexivity.
Qed.

Lemma initial_slashes_2 p : startswith p [SLASH] = false -> initial_slashes (SLASH :: SLASH :: p) = 2%nat.
Proof.
  intros H; unfold initial_slashes; cbn [startswith]; rewrite !Z.eqb_refl; cbn [andb].
  destruct p as [|x p]; [reflexivity|]. cbn [startswith] in *. rewrite andb_true_r in H.
  rewrite H; reflexivity.
Qed.

Theorem normpath_idempotent s : normpath (normpath s) = normpath s.
Proof.
  destruct s as [|c0 s0] eqn:Es; [reflexivity|]. rewrite <- Es.
  assert (Hne : s <> []) by (rewrite Es; discriminate).
  destruct (startswith s [SLASH]) eqn:Hab.
  - destruct (normpath_abs s Hab) as [k [ns [Hk [Hn E]]]]; rewrite E.
    pose proof (join_normals_not_abs ns Hn) as Hj.
    destruct Hk as [-> | ->]; cbn [repeat app].
    + assert (Hr : SLASH :: join_slash ns <> []) by discriminate.
      rewrite (normpath_unfold _ Hr).
      pose proof (initial_slashes_1 _ Hj) as Hi.
      rewrite Hi; cbn [Nat.eqb negb repeat app].
      rewrite split_abs1, np_comps_skip_empty, (np_comps_of_split_join ns Hn); reflexivity.
    + assert (Hr : SLASH :: SLASH :: join_slash ns <> []) by discriminate.
      rewrite (normpath_unfold _ Hr).
      pose proof (initial_slashes_2 _ Hj) as Hi.
      rewrite Hi; cbn [Nat.eqb negb repeat app].
      rewrite !split_abs1, !np_comps_skip_empty, (np_comps_of_split_join ns Hn); reflexivity.
  - destruct (normpath_rel s Hne Hab) as [k [ns [Hn [_ E]]]]; rewrite E.
    destruct (comps_form k ns) as [|c r] eqn:Ec; [reflexivity|].
    destruct (comps_form_head_nonempty _ _ _ _ Hn Ec) as [Hc _].
    rewrite (or_dot_nonempty _ (join_nonempty c r Hc)), <- Ec.
    apply normpath_of_form; [exact Hn|rewrite Ec; discriminate].
Qed.

(* all ".." components of a normal form are at its start (and an absolute one has none) *)
Theorem normpath_dotdot_leading s :
  exists k rest, split_slash (normpath s) = repeat s_dotdot k ++ rest /\ ~ In s_dotdot rest.
Proof.
  destruct s as [|c0 s0] eqn:Es.
  { exists 0%nat, [s_dot]; split; [reflexivity|]. intros [H|[]]; discriminate H. }
  rewrite <- Es. assert (Hne : s <> []) by (rewrite Es; discriminate).
  assert (Hnin : forall ns, Forall Normal ns -> ~ In s_dotdot ns).
  { intros ns Hn Hin; rewrite Forall_forall in Hn; exact (dotdot_not_normal (Hn _ Hin)). }
  destruct (startswith s [SLASH]) eqn:Hab.
  - destruct (normpath_abs s Hab) as [k [ns [Hk [Hn E]]]]; rewrite E.
    assert (Hsj : ~ In s_dotdot (split_slash (join_slash ns))).
    { destruct ns as [|c r]; [intros [H|[]]; discriminate H|].
      rewrite split_join; [apply Hnin; exact Hn|discriminate|apply Forall_normal_noslash; exact Hn]. }
    destruct Hk as [-> | ->]; cbn [repeat app]; rewrite ?split_abs1.
    + exists 0%nat, ([] :: split_slash (join_slash ns)); split; [reflexivity|].
      intros [H|H]; [discriminate H|exact (Hsj H)].
    + exists 0%nat, ([] :: [] :: split_slash (join_slash ns)); split; [reflexivity|].
      intros [H|[H|H]]; [discriminate H|discriminate H|exact (Hsj H)].
  - destruct (normpath_rel s Hne Hab) as [k [ns [Hn [_ E]]]]; rewrite E.
    destruct (comps_form k ns) as [|c r] eqn:Ec.
    { exists 0%nat, [s_dot]; split; [reflexivity|]. intros [H|[]]; discriminate H. }
    destruct (comps_form_head_nonempty _ _ _ _ Hn Ec) as [Hc _].
    rewrite (or_dot_nonempty _ (join_nonempty c r Hc)), <- Ec.
    rewrite split_join; [|rewrite Ec; discriminate|apply comps_form_noslash; exact Hn].
    exists k, ns; split; [reflexivity|apply Hnin; exact Hn].
Qed.

(* ... so a ".." never follows another kind of component *)
Lemma dotdot_leading_no_inner k : forall rest pre c post,
  ~ In s_dotdot rest -> repeat s_dotdot k ++ rest = pre ++ c :: s_dotdot :: post -> c = s_dotdot.
Proof.
  induction k as [|k IH]; intros rest pre c post Hnin E; cbn [repeat app] in E.
  - exfalso; apply Hnin; rewrite E; apply in_or_app; right; right; left; reflexivity.
  - destruct pre as [|x pre]; cbn [app] in E; inversion E; subst; [reflexivity|].
    eapply IH; eassumption.
Qed.

Theorem normpath_no_inner_dotdot s pre c post :
  split_slash (normpath s) = pre ++ c :: s_dotdot :: post -> c = s_dotdot.
Proof.
  destruct (normpath_dotdot_leading s) as [k [rest [E Hnin]]]; rewrite E; intros H.
  eapply dotdot_leading_no_inner; eassumption.
Qed.

(* ------------------------------------------------------------------ the validator *)
Definition clean (c : str) : Prop := c = [] \/ Forall Normal (split_slash c).

Lemma inbox_clean : clean s_inbox.
Proof. right; cbn; constructor; [reflexivity|constructor]. Qed.

Lemma canonical_unfold name :
  canonical_mbox_name name =
  let n := match strip1 name with [] => [] | _ => normpath (strip1 name) end in
  if escapes n then Err ENo
  else Ok (if is_inbox (if str_eqb n s_dot then [] else n) then s_inbox
           else (if str_eqb n s_dot then [] else n)).
Proof. unfold canonical_mbox_name; destruct (strip1 name); reflexivity. Qed.

(* exact characterisation of the validator: it refuses precisely the names that, after the strip
   of one leading "/", are absolute or lexically leave the directory they are relative to *)
Lemma canonical_spec name :
  (leaves_root (strip1 name) = true -> canonical_mbox_name name = Err ENo) /\
  (leaves_root (strip1 name) = false -> exists c, canonical_mbox_name name = Ok c /\ clean c).
Proof.
  rewrite canonical_unfold. set (s := strip1 name).
  destruct s as [|c0 s0] eqn:Es.
  { split; [intros H; discriminate H|intros _; exists []; split; [reflexivity|left; reflexivity]]. }
  rewrite <- Es. assert (Hne : s <> []) by (rewrite Es; discriminate).
  cbv zeta. unfold leaves_root.
  destruct (startswith s [SLASH]) eqn:Hab; cbn [orb].
  - split; [intros _|intros H; discriminate H].
    destruct (normpath_abs s Hab) as [k [ns [Hk [_ E]]]]; rewrite E.
    destruct Hk as [-> | ->]; reflexivity.
  - destruct (normpath_rel s Hne Hab) as [k [ns [Hn [Hk E]]]]; rewrite E.
    destruct (stays 0 (split_slash s)) eqn:Hst; cbn [negb].
    + split; [intros H; discriminate H|intros _].
      assert (k = 0%nat) as -> by (apply Hk; reflexivity).
      cbn [comps_form repeat app].
      destruct ns as [|c r]; [exists []; split; [reflexivity|left; reflexivity]|].
      inversion Hn as [|? ? Hc Hr]; subst.
      pose proof (normal_nonempty _ Hc) as Hc0. pose proof (normal_noslash _ Hc) as Hcs.
      rewrite (or_dot_nonempty _ (join_nonempty c r Hc0)), (escapes_join c r Hcs Hc0).
      destruct (normal_parts _ Hc) as [_ [_ [Hdd _]]]; rewrite Hdd.
      destruct (str_eqb (join_slash (c :: r)) s_dot); [exists []; split; [reflexivity|left; reflexivity]|].
      destruct (is_inbox (join_slash (c :: r))); eexists; (split; [reflexivity|]); [exact inbox_clean|].
      right; rewrite split_join; [exact Hn|discriminate|apply Forall_normal_noslash; exact Hn].
    + split; [intros _|intros H; discriminate H].
      destruct k as [|k]; [exfalso; assert (H : false = true) by (apply Hk; reflexivity); discriminate H|].
      cbn [comps_form repeat app].
      rewrite (or_dot_nonempty _ (join_nonempty s_dotdot _ ltac:(discriminate))).
      rewrite (escapes_join s_dotdot _ dotdot_noslash ltac:(discriminate)); reflexivity.
Qed.

Theorem canonical_accept_iff name :
  (exists c, canonical_mbox_name name = Ok c) <-> leaves_root (strip1 name) = false.
Proof.
  destruct (canonical_spec name) as [H1 H2]; split.
  - intros [c Hc]; destruct (leaves_root (strip1 name)); [|reflexivity].
    rewrite (H1 eq_refl) in Hc; discriminate Hc.
  - intros H; destruct (H2 H) as [c [Hc _]]; exists c; exact Hc.
Qed.

Lemma canonical_clean name c : canonical_mbox_name name = Ok c -> clean c.
Proof.
  intros H; destruct (canonical_spec name) as [H1 H2].
  destruct (leaves_root (strip1 name)); [rewrite (H1 eq_refl) in H; discriminate H|].
  destruct (H2 eq_refl) as [c' [Hc' Hcl]]; rewrite Hc' in H; inversion H; subst; exact Hcl.
Qed.

(* the literal form: a normal form that is absolute, is "..", or starts with "../" is refused *)
Lemma canonical_refuses_normal_form name :
  strip1 name <> [] -> escapes (normpath (strip1 name)) = true -> canonical_mbox_name name = Err ENo.
Proof.
  intros Hne He; rewrite canonical_unfold.
  destruct (strip1 name); [exfalso; apply Hne; reflexivity|]. cbv zeta; rewrite He; reflexivity.
Qed.

(* ------------------------------------------------------------------ confinement *)
Lemma strip_prefix_app pre rest : strip_prefix pre (pre ++ rest) = Some rest.
Proof. induction pre as [|x pre IH]; cbn [strip_prefix app]; [reflexivity|rewrite str_eqb_refl; exact IH]. Qed.

Lemma root_ok_parts root : root_ok root = true -> c_empty root = false /\ endswith_slash root = false.
Proof.
  unfold root_ok; intros H; apply andb_true_iff in H; destruct H as [H1 H2].
  split; apply negb_true_iff; assumption.
Qed.

Lemma clean_not_abs c : clean c -> startswith c [SLASH] = false.
Proof.
  intros [->|H]; [reflexivity|]. destruct c as [|x c]; [reflexivity|].
  cbn [startswith]; rewrite andb_true_r. destruct (x =? SLASH) eqn:E; [|reflexivity].
  cbn [split_slash] in H; rewrite E in H; inversion H as [|? ? Hh _]; discriminate Hh.
Qed.

Lemma clean_inside root c : root_ok root = true -> clean c -> inside root (folder_path root c).
Proof.
  intros Hr Hc; apply root_ok_parts in Hr; destruct Hr as [Hr1 Hr2].
  unfold inside, insideb, folder_path, path_join.
  rewrite (clean_not_abs c Hc), Hr1, Hr2; cbn [orb].
  rewrite split_app_slash, strip_prefix_app.
  destruct Hc as [->|Hn]; [reflexivity|apply stays_normals; exact Hn].
Qed.

Lemma chain_from_clean cs : forall pre, Forall Normal (pre ++ cs) -> Forall clean (chain_from pre cs).
Proof.
  induction cs as [|c cs IH]; intros pre H; cbn [chain_from]; [constructor|].
  assert (H' : Forall Normal ((pre ++ [c]) ++ cs)) by (rewrite <- app_assoc; exact H).
  constructor; [|apply IH; exact H'].
  right; rewrite split_join.
  - apply Forall_app in H'; apply H'.
  - destruct pre; discriminate.
  - apply Forall_normal_noslash; apply Forall_app in H'; apply H'.
Qed.

Lemma create_chain_clean c : clean c -> Forall clean (create_chain c).
Proof.
  intros [->|H]; [constructor; [left; reflexivity|constructor]|].
  unfold create_chain; apply chain_from_clean; exact H.
Qed.

Lemma sub_mailbox_paths_inside root names : root_ok root = true ->
  Forall (inside root) (sub_mailbox_paths root names).
Proof.
  intros Hr; unfold sub_mailbox_paths; apply Forall_forall; intros p Hp.
  apply in_flat_map in Hp; destruct Hp as [n [_ Hp]].
  unfold get_mailbox_paths in Hp; destruct (canonical_mbox_name n) as [c|e] eqn:E; cbn [bind] in Hp; [|destruct Hp].
  destruct Hp as [<-|[]]. apply clean_inside; [exact Hr|eapply canonical_clean; exact E].
Qed.

Lemma parent_paths_inside root c : root_ok root = true -> Forall (inside root) (parent_paths root c).
Proof.
  intros Hr; unfold parent_paths; destruct (dirname c); [constructor|apply sub_mailbox_paths_inside; exact Hr].
Qed.

Lemma chain_paths_inside root c : root_ok root = true -> clean c ->
  Forall (inside root) (map (folder_path root) (create_chain c)).
Proof.
  intros Hr Hc; apply Forall_forall; intros p Hp; apply in_map_iff in Hp; destruct Hp as [n [<- Hn]].
  apply clean_inside; [exact Hr|]. pose proof (create_chain_clean c Hc) as H.
  rewrite Forall_forall in H; apply H; exact Hn.
Qed.

Lemma get_mailbox_paths_inside root n ps : root_ok root = true ->
  get_mailbox_paths root n = Ok ps -> Forall (inside root) ps.
Proof.
  intros Hr H; unfold get_mailbox_paths in H.
  destruct (canonical_mbox_name n) as [c|e] eqn:E; cbn [bind] in H; [|discriminate H].
  inversion H; subst; constructor; [|constructor].
  apply clean_inside; [exact Hr|eapply canonical_clean; exact E].
Qed.

Ltac bind_ok H x E :=
  match type of H with
  | bind ?r _ = Ok _ => destruct r as [x|?] eqn:E; cbn [bind] in H; [|discriminate H]
  end.

Theorem cmd_paths_confined root c ps : root_ok root = true ->
  cmd_paths root c = Ok ps -> Forall (inside root) ps.
Proof.
  intros Hr H.
  destruct c as [n|n|n|n|o n|n|n|n|n|n|n|r p|r p]; cbn [cmd_paths] in H;
    try (eapply get_mailbox_paths_inside; eassumption).
  - (* CREATE *)
    bind_ok H c E. inversion H; subst; clear H. pose proof (canonical_clean _ _ E) as Hc.
    constructor; [apply clean_inside; assumption|].
    apply Forall_app; split; [apply chain_paths_inside; assumption|apply sub_mailbox_paths_inside; exact Hr].
  - (* DELETE *)
    bind_ok H ps0 E0. bind_ok H c E. inversion H; subst; clear H.
    pose proof (canonical_clean _ _ E) as Hc.
    apply Forall_app; split; [eapply get_mailbox_paths_inside; eassumption|].
    apply Forall_app; split; [exact (sub_mailbox_paths_inside root [c] Hr)|].
    constructor; [apply clean_inside; assumption|apply parent_paths_inside; exact Hr].
  - (* RENAME *)
    bind_ok H ps0 E0. bind_ok H cn En. bind_ok H co Eo. inversion H; subst; clear H.
    pose proof (canonical_clean _ _ En) as Hn. pose proof (canonical_clean _ _ Eo) as Ho.
    apply Forall_app; split; [eapply get_mailbox_paths_inside; eassumption|].
    constructor; [apply clean_inside; assumption|].
    constructor; [apply clean_inside; assumption|].
    apply Forall_app; split; [apply chain_paths_inside; assumption|].
    apply Forall_app; split; [apply sub_mailbox_paths_inside; exact Hr|].
    apply Forall_app; split; apply parent_paths_inside; exact Hr.
  - (* LIST *)
    unfold list_paths in H. bind_ok H a Ea. bind_ok H b Eb. bind_ok H d Ed. inversion H; constructor.
  - (* LSUB *)
    unfold list_paths in H. bind_ok H a Ea. bind_ok H b Eb. bind_ok H d Ed. inversion H; constructor.
Qed.

Theorem name_confined root name c :
  root_ok root = true -> canonical_mbox_name name = Ok c ->
  inside root (folder_path root c) /\
  Forall (inside root) (map (folder_path root) (create_chain c)).
Proof.
  intros Hr H; pose proof (canonical_clean name c H) as Hc.
  split; [apply clean_inside|apply chain_paths_inside]; assumption.
Qed.

Lemma canonical_err name e : canonical_mbox_name name = Err e -> e = ENo.
Proof.
  rewrite canonical_unfold; cbv zeta. destruct (escapes _); intros H; inversion H; reflexivity.
Qed.

Lemma canonical_refuses name : leaves_root (strip1 name) = true -> canonical_mbox_name name = Err ENo.
Proof. apply canonical_spec. Qed.

(* a command with an escaping name in any validated position derives no path at all *)
Theorem cmd_paths_refused root c n :
  In n (cmd_names c) -> leaves_root (strip1 n) = true -> cmd_paths root c = Err ENo.
Proof.
  intros Hin Hl; pose proof (canonical_refuses n Hl) as Hn.
  destruct c as [m|m|m|m|o m|m|m|m|m|m|m|r p|r p]; cbn [cmd_names In] in Hin; cbn [cmd_paths];
    unfold get_mailbox_paths, list_paths;
    repeat match goal with
           | H : _ \/ _ |- _ => destruct H as [H|H]
           | H : False |- _ => destruct H
           | H : _ = n |- _ => subst
           end; try (rewrite Hn; reflexivity).
  - (* RENAME destination: the source was looked up first *)
    destruct (canonical_mbox_name o) eqn:Eo; cbn [bind]; [rewrite Hn|apply canonical_err in Eo; subst]; reflexivity.
  - (* LIST pattern *)
    destruct (canonical_mbox_name r) eqn:Er; cbn [bind]; [rewrite Hn|apply canonical_err in Er; subst]; reflexivity.
  - (* LIST reference ++ pattern *)
    destruct (canonical_mbox_name r) eqn:Er; cbn [bind]; [|apply canonical_err in Er; subst; reflexivity].
    destruct (canonical_mbox_name (list_pattern p)) eqn:Ep; cbn [bind];
      [rewrite Hn|apply canonical_err in Ep; subst]; reflexivity.
  - destruct (canonical_mbox_name r) eqn:Er; cbn [bind]; [rewrite Hn|apply canonical_err in Er; subst]; reflexivity.
  - destruct (canonical_mbox_name r) eqn:Er; cbn [bind]; [|apply canonical_err in Er; subst; reflexivity].
    destruct (canonical_mbox_name (list_pattern p)) eqn:Ep; cbn [bind];
      [rewrite Hn|apply canonical_err in Ep; subst]; reflexivity.
Qed.

(* ------------------------------------------------------------------ canonical names are fixpoints *)
Lemma join_split c : join_slash (split_slash c) = c.
Proof.
  induction c as [|x c IH]; [reflexivity|].
  cbn [split_slash]. destruct (x =? SLASH) eqn:Ex.
  - apply Z.eqb_eq in Ex; subst x.
    destruct (split_slash c) as [|h t] eqn:Ec; [exfalso; exact (split_nonnil c Ec)|].
    rewrite join_cons2, IH; reflexivity.
  - destruct (split_slash c) as [|h t] eqn:Ec; [exfalso; exact (split_nonnil c Ec)|].
    destruct t as [|h2 t]; cbn [join_slash] in *; [rewrite IH; reflexivity|].
    rewrite <- IH; reflexivity.
Qed.

Lemma normpath_clean c : c <> [] -> Forall Normal (split_slash c) -> normpath c = c.
Proof.
  intros Hne Hn.
  assert (E : join_slash (comps_form 0 (split_slash c)) = c) by apply join_split.
  rewrite <- E at 1; rewrite normpath_of_form; [exact E|exact Hn|].
  cbn [comps_form repeat app]; apply split_nonnil.
Qed.

Lemma canonical_result_inbox name c :
  canonical_mbox_name name = Ok c -> is_inbox c = true -> c = s_inbox.
Proof.
  rewrite canonical_unfold; cbv zeta.
  destruct (escapes _); [intros H; discriminate H|].
  match goal with |- Ok (if is_inbox ?n then _ else _) = _ -> _ => generalize n end.
  intros n H Hi. destruct (is_inbox n) eqn:E2; inversion H; subst; [reflexivity|].
  rewrite E2 in Hi; discriminate Hi.
Qed.

Theorem canonical_idempotent name c : canonical_mbox_name name = Ok c -> canonical_mbox_name c = Ok c.
Proof.
  intros H. pose proof (canonical_clean _ _ H) as Hc.
  destruct Hc as [->|Hn]; [reflexivity|].
  assert (Hne : c <> []) by (intros ->; inversion Hn as [|? ? Hh _]; discriminate Hh).
  rewrite canonical_unfold, (strip1_rel c (clean_not_abs c (or_intror Hn))).
  replace (match c with [] => [] | _ :: _ => normpath c end) with c
    by (rewrite (normpath_clean c Hne Hn); destruct c; reflexivity).
  cbv zeta.
  (* c = join (split c), its head is a normal component *)
  assert (Hesc : escapes c = false /\ str_eqb c s_dot = false).
  { destruct (split_slash c) as [|h t] eqn:Es; [exfalso; exact (split_nonnil c Es)|].
    inversion Hn as [|? ? Hh Ht]; subst.
    assert (E : join_slash (h :: t) = c) by (rewrite <- Es; apply join_split).
    split.
    - rewrite <- E, (escapes_join h t (normal_noslash _ Hh) (normal_nonempty _ Hh)).
      apply (normal_parts _ Hh).
    - destruct (str_eqb c s_dot) eqn:Ed; [|reflexivity].
      apply str_eqb_eq in Ed. rewrite Ed in Es; cbn in Es. inversion Es; subst. discriminate Hh. }
  destruct Hesc as [He Hd]; rewrite He, Hd.
  (* the result of the first call is either "inbox" or not an inbox spelling *)
  destruct (is_inbox c) eqn:Ei; [|reflexivity].
  f_equal; symmetry; eapply canonical_result_inbox; eassumption.
Qed.

(* ------------------------------------------------------------------ the mailbox table over histories *)
Lemma split_app_general a b :
  split_slash (a ++ b) =
  removelast (split_slash a) ++ (last (split_slash a) [] ++ hd [] (split_slash b)) :: tl (split_slash b).
Proof.
  induction a as [|c a IH]; cbn [app].
  - cbn [split_slash removelast last app]. destruct (split_slash b) eqn:E; [exfalso; exact (split_nonnil b E)|reflexivity].
  - cbn [split_slash]. destruct (c =? SLASH).
    + rewrite IH. destruct (split_slash a) as [|h t] eqn:E; [exfalso; exact (split_nonnil a E)|]. reflexivity.
    + rewrite IH. destruct (split_slash a) as [|h t] eqn:E; [exfalso; exact (split_nonnil a E)|].
      destruct t as [|h1 t]; reflexivity.
Qed.

Lemma split_skipn k : forall r, exists t0 pre rest,
  split_slash (skipn k r) = t0 :: rest /\ split_slash r = pre ++ rest /\ pre <> [].
Proof.
  induction k as [|k IH]; intros r.
  - cbn [skipn]. destruct (split_slash r) as [|h t] eqn:E; [exfalso; exact (split_nonnil r E)|].
    exists h, [h], t; repeat split; discriminate.
  - destruct r as [|c r]; cbn [skipn].
    + exists [], [[]], []; repeat split; discriminate.
    + destruct (IH r) as [t0 [pre [rest [E1 [E2 Hp]]]]].
      cbn [split_slash]. destruct (c =? SLASH).
      * exists t0, ([] :: pre), rest; rewrite E2; repeat split; [exact E1|discriminate].
      * rewrite E2. destruct pre as [|h pre]; [exfalso; apply Hp; reflexivity|].
        exists t0, ((c :: h) :: pre), rest; repeat split; [exact E1|discriminate].
Qed.

Lemma noslash_app a b : Noslash a -> Noslash b -> Noslash (a ++ b).
Proof. unfold Noslash, noslash; intros Ha Hb; rewrite forallb_app, Ha, Hb; reflexivity. Qed.

Lemma normal_app c t : Normal c -> Noslash t -> Normal (c ++ t).
Proof.
  intros Hc Ht. pose proof (noslash_app c t (normal_noslash c Hc) Ht) as Hn.
  destruct (normal_parts c Hc) as [He [Hd [Hdd _]]].
  unfold Normal, normalc; rewrite Hn, andb_true_r.
  unfold c_dot, c_dotdot, s_dot, s_dotdot in *.
  destruct c as [|x [|y [|z c]]]; [discriminate He| | |]; cbn [app c_empty str_eqb negb andb] in *.
  - rewrite andb_true_r in Hd. rewrite Hd; reflexivity.
  - destruct t; cbn [str_eqb] in *; rewrite ?andb_false_r, ?andb_true_r in *; [rewrite Hdd; reflexivity|reflexivity].
  - rewrite ?andb_false_r; reflexivity.
Qed.

Lemma removelast_In {A} (l : list A) x : In x (removelast l) -> In x l.
Proof.
  induction l as [|a l IH]; [intros []|]. destruct l as [|b l]; [intros []|].
  cbn [removelast]. intros [->|H]; [left; reflexivity|right; apply IH; exact H].
Qed.

Lemma last_In {A} (l : list A) d : l <> [] -> In (last l d) l.
Proof.
  induction l as [|a l IH]; [intros H; exfalso; apply H; reflexivity|intros _].
  destruct l as [|b l]; [left; reflexivity|right; apply IH; discriminate].
Qed.

(* whatever tail of a clean name is appended to a non-empty clean name, the result is clean *)
Lemma clean_append_tail cn r k : clean cn -> cn <> [] -> clean r -> clean (cn ++ skipn k r).
Proof.
  intros Hc Hne [->|Hr]; [rewrite skipn_nil, app_nil_r; exact Hc|].
  destruct Hc as [->|Hcn]; [exfalso; apply Hne; reflexivity|].
  right. rewrite split_app_general.
  destruct (split_skipn k r) as [t0 [pre [rest [E1 [E2 Hp]]]]].
  rewrite E1; cbn [hd tl].
  rewrite Forall_forall in Hcn.
  apply Forall_app; split.
  - apply Forall_forall; intros x Hx; apply Hcn; apply removelast_In; exact Hx.
  - assert (Ht0 : Noslash t0).
    { pose proof (split_noslash (skipn k r)) as H; rewrite E1 in H; inversion H; assumption. }
    constructor.
    + apply normal_app; [apply Hcn; apply last_In; apply split_nonnil|exact Ht0].
    + rewrite E2 in Hr; apply Forall_app in Hr; apply Hr.
Qed.

Lemma rows_of_clean names : Forall clean (rows_of names).
Proof.
  unfold rows_of; apply Forall_forall; intros r Hr; apply in_flat_map in Hr; destruct Hr as [n [_ Hr]].
  destruct (canonical_mbox_name n) eqn:E; [|destruct Hr]. destruct Hr as [<-|[]]. eapply canonical_clean; exact E.
Qed.

Lemma db_step_clean d o : Forall clean d -> Forall clean (db_step d o).
Proof.
  intros Hd; destruct o as [n|n|n|o n sel]; cbn [db_step].
  - apply Forall_app; split; [apply rows_of_clean|exact Hd].
  - destruct (canonical_mbox_name n); [|exact Hd]. apply Forall_app; split; [apply rows_of_clean|exact Hd].
  - destruct (canonical_mbox_name n); [|exact Hd].
    apply Forall_forall; intros r Hr; apply filter_In in Hr; rewrite Forall_forall in Hd; apply Hd, Hr.
  - destruct (canonical_mbox_name n) as [cn|] eqn:En; [|exact Hd].
    destruct (canonical_mbox_name o) as [co|] eqn:Eo; [|exact Hd].
    destruct (c_empty cn) eqn:Ee; [exact Hd|].
    apply Forall_forall; intros r Hr; apply in_map_iff in Hr; destruct Hr as [r0 [<- Hr0]].
    rewrite Forall_forall in Hd. destruct (sel r0); [|apply Hd; exact Hr0].
    apply clean_append_tail; [eapply canonical_clean; exact En| |apply Hd; exact Hr0].
    intros ->; discriminate Ee.
Qed.

Theorem db_rows_clean ops : Forall clean (db_run ops).
Proof.
  unfold db_run. assert (H : Forall clean (@nil str)) by constructor. revert H. generalize (@nil str).
  induction ops as [|o ops IH]; intros d Hd; cbn [fold_left]; [exact Hd|].
  apply IH; apply db_step_clean; exact Hd.
Qed.

Theorem db_rows_inside root ops r : root_ok root = true -> In r (db_run ops) -> inside root (folder_path root r).
Proof.
  intros Hr Hin; apply clean_inside; [exact Hr|].
  pose proof (db_rows_clean ops) as H; rewrite Forall_forall in H; apply H; exact Hin.
Qed.
