(* Proofs/QuoteBridge.v — the string encoder of Model/Fmt.v (about which C07's theorems speak) IS the
   function regenerated from asimap/utils.py on every run (Gen/Quote.v, py2v): utils.imap_string. *)
From Asimap Require Import Base.Res Base.Bytes Model.BodyAlg Model.Fmt Spec.RespTok Proofs.BodyAlgP Proofs.FmtP.
From Asimap Require Gen.Quote.
From Coq Require Import Lia ZArith List Bool NArith.
Open Scope Z_scope.

Lemma needs_literal_contains b :
  needs_literal b = bytes_contains1 13 b || bytes_contains1 10 b || bytes_contains1 0 b.
Proof.
  unfold needs_literal, bytes_contains1. induction b as [|c b IH]; [reflexivity|].
  cbn [existsb]. rewrite IH. unfold forbidden.
  rewrite (Z.eqb_sym 13 c), (Z.eqb_sym 10 c), (Z.eqb_sym 0 c).
  destruct (c =? 13), (c =? 10), (c =? 0), (existsb (Z.eqb 13) b), (existsb (Z.eqb 10) b), (existsb (Z.eqb 0) b); reflexivity.
Qed.

Lemma escape_replace b : bytes_replace1 34 [92; 34] (bytes_replace1 92 [92; 92] b) = escape b.
Proof.
  unfold bytes_replace1, escape. induction b as [|c b IH]; [reflexivity|].
  cbn [flat_map]. rewrite flat_map_app, IH. f_equal. unfold esc, DQ, BSL.
  destruct (Z.eqb_spec c 92) as [->|N92]; [reflexivity|].
  cbn [flat_map app]. destruct (Z.eqb_spec c 34) as [->|N34]; reflexivity.
Qed.

Lemma dec_bytes_dec b : bytes_dec (Z.of_nat (List.length b)) = dec (blen b).
Proof. unfold bytes_dec, dec, blen. rewrite <- nat_N_Z, N2Z.id. reflexivity. Qed.

Theorem imap_string_is_enc_string b : Gen.Quote.imap_string b = Ok (enc_string b).
Proof.
  unfold Gen.Quote.imap_string, enc_string. rewrite <- needs_literal_contains.
  destruct (needs_literal b).
  - unfold literal. rewrite dec_bytes_dec. reflexivity.
  - unfold quoted, DQ. rewrite escape_replace. cbn [app]. reflexivity.
Qed.

Theorem generated_string_roundtrip b rest :
  exists w, Gen.Quote.imap_string b = Ok w /\ read_string (w ++ rest) = Some (b, rest).
Proof.
  exists (enc_string b). split; [exact (imap_string_is_enc_string b)|exact (read_string_enc b rest)].
Qed.
