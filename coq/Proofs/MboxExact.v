(* Proofs/MboxExact.v — C05: exactly the addressed messages are removed / copied; read-only
   sessions change nothing; C13: deliveries are appended with fresh UIDs. *)
From Asimap Require Import Base.Res Spec.SetSem Model.Mbox Proofs.MboxInv Proofs.MboxStep Proofs.MboxLe Proofs.MboxUid.
From Coq Require Import ZifyBool.
Open Scope Z_scope.

(* ------------------------------------------------------------------ EXPUNGE removes exactly [del] *)
Definition rm_from (pos : Z) (ps : list Z) (l : list msg) : list msg :=
  fold_left (fun l p => remove_at (Z.to_nat (p - pos)) l) ps l.

Lemma rm_from_app pos a b l : rm_from pos (a ++ b) l = rm_from pos b (rm_from pos a l).
Proof. unfold rm_from. apply fold_left_app. Qed.

Lemma positions_desc_acc del l : forall pos acc, positions_desc del l pos acc = positions_desc del l pos [] ++ acc.
Proof.
  induction l as [|m l IH]; intros pos acc; cbn [positions_desc]; [reflexivity|].
  rewrite IH. rewrite (IH (pos + 1) (if del m then [pos] else [])). rewrite <- app_assoc.
  destruct (del m); reflexivity.
Qed.

Lemma positions_desc_ge del l : forall pos, Forall (fun p => pos <= p) (positions_desc del l pos []).
Proof.
  induction l as [|m l IH]; intros pos; cbn [positions_desc]; [constructor|].
  rewrite positions_desc_acc. apply Forall_app; split.
  - eapply Forall_impl; [|apply IH]. cbv beta. intros; lia.
  - destruct (del m); [constructor; [lia|constructor]|constructor].
Qed.

Lemma rm_from_cons pos ps x l :
  Forall (fun p => pos + 1 <= p) ps -> rm_from pos ps (x :: l) = x :: rm_from (pos + 1) ps l.
Proof.
  revert l; induction ps as [|p ps IH]; intros l H; [reflexivity|].
  inversion H as [|? ? Hp Hps]; subst. unfold rm_from. cbn [fold_left]. fold (rm_from pos ps) (rm_from (pos + 1) ps).
  replace (Z.to_nat (p - pos)) with (S (Z.to_nat (p - (pos + 1)))) by lia. cbn [remove_at]. apply IH. exact Hps.
Qed.

Lemma rm_positions del l : forall pos, rm_from pos (positions_desc del l pos []) l = filter (fun m => negb (del m)) l.
Proof.
  induction l as [|x l IH]; intros pos; [reflexivity|].
  cbn [positions_desc filter]. rewrite positions_desc_acc, rm_from_app.
  rewrite rm_from_cons by (apply positions_desc_ge). rewrite IH.
  destruct (del x); cbn [negb].
  - unfold rm_from. cbn [fold_left]. replace (Z.to_nat (pos - pos)) with O by lia. reflexivity.
  - reflexivity.
Qed.

Lemma expunge_loop_msgs ps : forall b i, b_msgs (fst (expunge_loop b ps i)) = rm_from 1 ps (b_msgs b).
Proof.
  induction ps as [|p ps IH]; intros b i; cbn [expunge_loop]; [reflexivity|].
  destruct (dispatch (set_msgs b (remove_at (Z.to_nat (p - 1)) (b_msgs b))) None [RExpunge p]) as [b2 o] eqn:Ed.
  destruct (expunge_loop b2 ps i) as [b3 o'] eqn:El. cbn [fst].
  replace b3 with (fst (expunge_loop b2 ps i)) by (rewrite El; reflexivity). rewrite IH.
  match type of Ed with dispatch ?B ?D ?R = _ => pose proof (dispatch_msgs B D R) as Hm; rewrite Ed in Hm end.
  cbn [fst] in Hm. destruct Hm as [M _]. rewrite M. reflexivity.
Qed.

Theorem expunge_exact b del : b_msgs (fst (expunge b del)) = filter (fun m => negb (del m)) (b_msgs b).
Proof. unfold expunge. rewrite expunge_loop_msgs. apply rm_positions. Qed.

(* nothing but the message list changes (UIDNEXT, UIDVALIDITY, undelivered files) *)
Lemma expunge_loop_rest ps : forall b i,
  b_next (fst (expunge_loop b ps i)) = b_next b /\ b_vv (fst (expunge_loop b ps i)) = b_vv b /\
  b_disk (fst (expunge_loop b ps i)) = b_disk b.
Proof.
  induction ps as [|p ps IH]; intros b i; cbn [expunge_loop]; [auto|].
  destruct (dispatch (set_msgs b (remove_at (Z.to_nat (p - 1)) (b_msgs b))) None [RExpunge p]) as [b2 o] eqn:Ed.
  destruct (expunge_loop b2 ps i) as [b3 o'] eqn:El. cbn [fst].
  replace b3 with (fst (expunge_loop b2 ps i)) by (rewrite El; reflexivity).
  destruct (IH b2 i) as [A [B C]]. rewrite A, B, C.
  match type of Ed with dispatch ?B ?D ?R = _ => pose proof (dispatch_msgs B D R) as Hm; rewrite Ed in Hm end.
  cbn [fst] in Hm. destruct Hm as [_ [M2 [M3 M4]]]. rewrite M2, M3, M4. auto.
Qed.

(* ------------------------------------------------------------------ adding files: one message per file, in order *)
Definition retag (k u : Z) (f : msg) : msg :=
  {| m_key := k; m_uid := u; m_cid := m_cid f; m_date := m_date f; m_seqs := sadd "Recent" (m_seqs f) |}.
Fixpoint number (fs : list msg) (k u : Z) : list msg :=
  match fs with [] => [] | f :: fs' => retag k u f :: number fs' (k + 1) (u + 1) end.
Fixpoint filed (fs : list msg) (k : Z) : list msg :=
  match fs with
  | [] => []
  | f :: fs' => {| m_key := k; m_uid := 0; m_cid := m_cid f; m_date := m_date f; m_seqs := m_seqs f |} :: filed fs' (k + 1)
  end.

Lemma max_key_app l x : max_key (l ++ [x]) = Z.max (max_key l) (m_key x).
Proof. unfold max_key. rewrite fold_left_app. reflexivity. Qed.

Lemma add_files_spec known : forall fs disk,
  add_files disk known fs = disk ++ filed fs (Z.max (max_key disk) (max_key known) + 1).
Proof.
  induction fs as [|f fs IH]; intros disk; cbn [add_files filed]; [rewrite app_nil_r; reflexivity|].
  rewrite IH, <- app_assoc. cbn [app]. rewrite max_key_app. cbn [m_key].
  replace (Z.max (Z.max (max_key disk) (Z.max (max_key disk) (max_key known) + 1)) (max_key known) + 1)
    with (Z.max (max_key disk) (max_key known) + 1 + 1) by lia.
  reflexivity.
Qed.

Lemma insert_smaller m l : Forall (fun x => m_key m < m_key x) l -> insert_by_key m l = m :: l.
Proof.
  destruct l as [|x l]; intros H; [reflexivity|]. inversion H; subst. cbn [insert_by_key].
  destruct (m_key m <? m_key x) eqn:E; [reflexivity|lia].
Qed.
Lemma filed_keys fs : forall k, Forall (fun x => k <= m_key x) (filed fs k).
Proof.
  induction fs as [|f fs IH]; intros k; cbn [filed]; [constructor|]. constructor; [cbn; lia|].
  eapply Forall_impl; [|apply IH]. cbv beta. intros; lia.
Qed.
Lemma sort_filed fs : forall k, sort_by_key (filed fs k) = filed fs k.
Proof.
  induction fs as [|f fs IH]; intros k; [reflexivity|]. cbn [filed]. unfold sort_by_key. cbn [fold_right].
  fold (sort_by_key (filed fs (k + 1))). rewrite IH. apply insert_smaller.
  eapply Forall_impl; [|apply filed_keys]. cbn [m_key]. intros; lia.
Qed.
Lemma assign_filed fs : forall k u, assign_uids (filed fs k) u = number fs k u.
Proof. induction fs as [|f fs IH]; intros k u; [reflexivity|]. cbn [filed assign_uids number]. rewrite IH. reflexivity. Qed.

(* APPEND / COPY / MOVE / delivery into a box whose earlier deliveries have been taken in: exactly one
   message per file, in order, at the end, fresh ascending UIDs from UIDNEXT, same content, date
   and flags plus \Recent; nothing else changes *)
Theorem add_exact b files :
  b_disk b = [] -> files <> [] ->
  let b3 := fst (resync (with_disk b (add_files (b_disk b) (b_msgs b) files))) in
  b_msgs b3 = b_msgs b ++ number files (max_key (b_msgs b) + 1) (b_next b) /\
  b_next b3 = b_next b + zlen files /\ b_vv b3 = b_vv b.
Proof.
  intros Hd Hne b3. subst b3. rewrite Hd, add_files_spec. cbn [app].
  assert (Hk : Z.max (max_key []) (max_key (b_msgs b)) + 1 = max_key (b_msgs b) + 1).
  { unfold max_key at 1. cbn [fold_left]. pose proof (max_key_ge (b_msgs b) 0). unfold max_key. lia. }
  rewrite Hk.
  destruct (resync_shape (with_disk b (filed files (max_key (b_msgs b) + 1)))) as [S1 [S2 [S3 _]]].
  { cbn [with_disk b_disk]. destruct files; [congruence|discriminate]. }
  unfold fresh_of in S1, S2. cbn [with_disk b_disk b_msgs b_next b_vv] in S1, S2, S3.
  rewrite sort_filed, assign_filed in S1, S2. rewrite S1, S2, S3. split; [reflexivity|]. split; [|reflexivity].
  f_equal. clear. generalize (max_key (b_msgs b) + 1) (b_next b). induction files as [|f fs IH]; intros k u; [reflexivity|].
  cbn [number]. rewrite !zlen_cons, IH. reflexivity.
Qed.

(* ------------------------------------------------------------------ read-only (EXAMINE) sessions *)
Lemma map_at_nil f l : forall pos, map_at f [] l pos = l.
Proof. induction l as [|m l IH]; intros pos; cbn [map_at zmem existsb]; [reflexivity|]. rewrite IH. reflexivity. Qed.

Lemma examine_store w s u st a si fl n b c :
  sel w s = Some n -> get_box w n = Some b -> get_client b s = Some c -> c_exam c = true ->
  step w (OStore s u st a si fl) = (w, [(s, RNo)]).
Proof. intros H1 H2 H3 H4. unfold step, in_mbox. rewrite H1, H2, H3, H4. reflexivity. Qed.

Lemma examine_move w s u st d n b c :
  sel w s = Some n -> get_box w n = Some b -> get_client b s = Some c -> c_exam c = true ->
  step w (OMove s u st d) = (w, [(s, RNo)]).
Proof. intros H1 H2 H3 H4. unfold step, in_mbox. rewrite H1, H2, H3, H4. reflexivity. Qed.

Lemma examine_expunge w s us n b c :
  sel w s = Some n -> get_box w n = Some b -> get_client b s = Some c -> c_exam c = true ->
  exists b', get_box (fst (step w (OExpunge s us))) n = Some b' /\ b_msgs b' = b_msgs b /\
             forall n', n' <> n -> get_box (fst (step w (OExpunge s us))) n' = get_box w n'.
Proof.
  intros H1 H2 H3 H4. unfold step, in_mbox. rewrite H1, H2, H3. destruct (flush b s) as [b0 o0] eqn:Ef. rewrite H4.
  cbn [fst]. exists b0. rewrite get_set_box, String.eqb_refl. split; [reflexivity|]. split.
  - replace b0 with (fst (flush b s)) by (rewrite Ef; reflexivity). apply (proj1 (flush_msgs b s)).
  - intros n' Hn. rewrite get_set_box. destruct (String.eqb n' n) eqn:E; [apply String.eqb_eq in E; congruence|reflexivity].
Qed.

Lemma examine_close w s n b c :
  sel w s = Some n -> get_box w n = Some b -> get_client b s = Some c -> c_exam c = true ->
  exists b', get_box (fst (step w (OClose s))) n = Some b' /\ b_msgs b' = b_msgs b.
Proof.
  intros H1 H2 H3 H4. unfold step, in_mbox. rewrite H1, H2, H3, H4. cbn [fst].
  eexists. rewrite get_set_box, String.eqb_refl. split; reflexivity.
Qed.

(* a FETCH from a read-only session leaves every message as the resync found it *)
Lemma examine_fetch w s u st k n b c :
  sel w s = Some n -> get_box w n = Some b -> get_client b s = Some c -> c_exam c = true ->
  forall b', get_box (fst (step w (OFetch s u st k))) n = Some b' ->
  b_msgs b' = b_msgs b \/ b_msgs b' = b_msgs (fst (resync (fst (flush b s)))).
Proof.
  intros H1 H2 H3 H4 b'. unfold step, in_mbox. rewrite H1, H2, H3.
  destruct (gate b s u true) as [[b0 o0]|] eqn:G; [|cbn [fst]; rewrite H2; intros H; inversion H; left; reflexivity].
  apply gate_true in G.
  destruct (admit_set w n b0 u st) as [[[b1a o1a] sl]|] eqn:A.
  - apply admit_set_ok in A. destruct (flush b1a s) as [b1 o1b] eqn:Ef1. rewrite H4. cbn [filter]. rewrite map_at_nil.
    match goal with |- context [dispatch ?B ?D ?R] => destruct (dispatch B D R) as [b3 o2] eqn:Ed end.
    destruct (flush b3 s) as [b4 o3] eqn:Ef. cbn [fst]. rewrite get_set_box, String.eqb_refl. intros H; inversion H; subst b'.
    right. replace b4 with (fst (flush b3 s)) by (rewrite Ef; reflexivity). rewrite (proj1 (flush_msgs b3 s)).
    match type of Ed with dispatch ?B ?D ?R = _ => replace b3 with (fst (dispatch B D R)) by (rewrite Ed; reflexivity);
      rewrite (proj1 (dispatch_msgs B D R)) end.
    cbn [set_msgs b_msgs]. replace b1 with (fst (flush b1a s)) by (rewrite Ef1; reflexivity).
    rewrite (proj1 (flush_msgs b1a s)). subst b1a b0. reflexivity.
  - cbn [fst]. rewrite get_set_box, String.eqb_refl. intros H; inversion H; subst b'. left.
    subst b0. apply (proj1 (flush_msgs b s)).
Qed.

(* ------------------------------------------------------------------ deliveries (C13) *)
Theorem delivery_appended b :
  b_disk b <> [] ->
  b_msgs (fst (resync b)) = b_msgs b ++ fresh_of b /\
  Forall (fun m => b_next b <= m_uid m /\ smem "Recent" (m_seqs m) = true) (fresh_of b).
Proof.
  intros H. destruct (resync_shape b H) as [S1 _]. split; [exact S1|].
  unfold fresh_of. generalize (b_next b). induction (sort_by_key (b_disk b)) as [|m l IH]; intros u; cbn [assign_uids]; [constructor|].
  constructor.
  - cbn [m_uid m_seqs]. split; [lia|]. unfold sadd. destruct (smem "Recent" (m_seqs m)) eqn:E; [exact E|].
    unfold smem. rewrite existsb_app. cbn. rewrite orb_true_r. reflexivity.
  - eapply Forall_impl; [|apply (IH (u + 1))]. cbv beta. intros a [Ha Hb]. split; [lia|exact Hb].
Qed.

Lemma expunge_rest b del :
  b_next (fst (expunge b del)) = b_next b /\ b_vv (fst (expunge b del)) = b_vv b /\ b_disk (fst (expunge b del)) = b_disk b.
Proof. exact (expunge_loop_rest _ b None). Qed.
Lemma step_le_box w o n b : get_box w n = Some b -> exists b', get_box (fst (step w o)) n = Some b' /\ box_le b b'.
Proof. intros H. exact (step_le w o n b H). Qed.
