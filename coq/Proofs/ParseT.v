(* Proofs/ParseT.v — totality of the parser model: parse_core never runs out of fuel, never hits an
   assertion; the only non-BadCommand exception is ValueError (CValue), which
   IMAPClientCommand.parse reports as BadSyntax.  Also: the unread rest is never longer than the input. *)
From Asimap Require Import Base.Res Base.Bytes Model.Lex Spec.Grammar Model.ParseM Proofs.LexP.
From Coq Require Import Lia ZArith List Bool.
Import ListNotations.
Open Scope Z_scope.

Definition good_res {A} (s : list Z) (x : pres A) : Prop :=
  match x with
  | ROk _ r => (List.length r <= List.length s)%nat
  | RBad => True
  | RCrash k => k = CValue
  end.
Definition good {A} (p : parser A) : Prop := forall s, good_res s (p s).

Lemma good_res_weaken {A} (s s' : list Z) (x : pres A) :
  (List.length s <= List.length s')%nat -> good_res s x -> good_res s' x.
Proof. destruct x; cbn; intros; try assumption. lia. Qed.

Lemma good_ret {A} (a : A) : good (pret a).
Proof. intros s. cbn. lia. Qed.
Lemma good_fail {A} : good (@pfail A).
Proof. intros s. exact I. Qed.
Lemma good_bind {A B} (p : parser A) (f : A -> parser B) : good p -> (forall a, good (f a)) -> good (pbind p f).
Proof.
  intros Hp Hf s. unfold pbind. specialize (Hp s). destruct (p s) as [a r| |k]; cbn in *; try assumption.
  eapply good_res_weaken; [exact Hp|apply Hf].
Qed.
Lemma good_pmap {A B} (g : A -> B) (p : parser A) : good p -> good (pmap g p).
Proof. intros Hp. unfold pmap. apply good_bind; [exact Hp|intros; apply good_ret]. Qed.

Lemma match_ci_len k : forall s r, match_ci k s = Some r -> List.length s = (List.length k + List.length r)%nat.
Proof.
  induction k as [|c k IH]; intros s r H; cbn [match_ci] in H; [inversion H; reflexivity|].
  destruct s as [|x s]; [discriminate|]. destruct (py_lower x =? py_lower c); [|discriminate].
  apply IH in H. cbn [List.length]. lia.
Qed.

Lemma good_p_lit k : good (p_lit k).
Proof.
  intros s. unfold p_lit. destruct (match_ci k s) eqn:E; cbn; [|exact I]. apply match_ci_len in E. lia.
Qed.
Lemma good_many1 p : good (p_many1 p).
Proof.
  intros s. unfold p_many1. pose proof (span_length p s) as H. destruct (span p s) as [a r]. cbn in H.
  destruct a; cbn; [exact I|exact H].
Qed.

(* a parser that looks ahead with try_lit / peek_lit and then goes one of two ways *)
Lemma good_try {A} k (p q : parser A) : good p -> good q ->
  good (fun s => match try_lit k s with Some r => p r | None => q s end).
Proof.
  intros Hp Hq s. unfold try_lit. destruct (match_ci k s) eqn:E; [|apply Hq].
  apply match_ci_len in E. eapply good_res_weaken; [|apply Hp]. lia.
Qed.
Lemma good_if {A} (b : list Z -> bool) (p q : parser A) : good p -> good q -> good (fun s => if b s then p s else q s).
Proof. intros Hp Hq s. destruct (b s); [apply Hp|apply Hq]. Qed.

Lemma good_int ds : good (p_int ds).
Proof. intros s. unfold p_int. destruct (int_ok ds); cbn; [lia|reflexivity]. Qed.
Lemma good_number : good p_number.
Proof. unfold p_number. apply good_bind; [apply good_many1|intros; apply good_int]. Qed.

(* ------------------------------------------------------------------ strings *)
Lemma scan_quoted_body_len_n : forall n s b r, (List.length s <= n)%nat ->
  scan_quoted_body s = Some (b, r) -> (List.length r <= List.length s)%nat.
Proof.
  induction n as [|n IH]; intros s b r Hn H.
  - destruct s; [discriminate|cbn in Hn; lia].
  - destruct s as [|c s]; [discriminate|]. cbn [scan_quoted_body] in H. cbn [List.length] in Hn.
    destruct (c =? 34); [inversion H; subst; cbn; lia|].
    destruct (c =? 92).
    + destruct s as [|e s]; [discriminate|]. destruct ((e =? 34) || (e =? 92)); [|discriminate].
      destruct (scan_quoted_body s) as [[b' r']|] eqn:E; [|discriminate]. inversion H; subst.
      apply IH in E; [cbn [List.length]; lia|cbn [List.length] in Hn; lia].
    + destruct ((c =? 13) || (c =? 10)); [discriminate|].
      destruct (scan_quoted_body s) as [[b' r']|] eqn:E; [|discriminate]. inversion H; subst.
      apply IH in E; [cbn [List.length]; lia|lia].
Qed.
Lemma scan_quoted_body_len s b r : scan_quoted_body s = Some (b, r) -> (List.length r <= List.length s)%nat.
Proof. apply (scan_quoted_body_len_n (List.length s)). lia. Qed.
Lemma scan_quoted_len s b r : scan_quoted s = Some (b, r) -> (List.length r <= List.length s)%nat.
Proof.
  unfold scan_quoted. destruct s as [|c s]; [discriminate|]. destruct (c =? 34); [|discriminate].
  intros H. apply scan_quoted_body_len in H. cbn [List.length]. lia.
Qed.
Lemma scan_lit_ref_len s ds r : scan_lit_ref s = Some (ds, r) -> (List.length r <= List.length s)%nat.
Proof.
  unfold scan_lit_ref. destruct s as [|c s]; [discriminate|]. destruct (c =? 123); [|discriminate].
  pose proof (span_length is_digit s) as Hs. destruct (span is_digit s) as [d r1]. cbn in Hs.
  destruct d as [|d0 d]; [discriminate|].
  set (r2 := match r1 with p :: r' => if p =? 43 then r' else r1 | [] => r1 end).
  assert (H2 : (List.length r2 <= List.length r1)%nat).
  { unfold r2. destruct r1 as [|p r']; [lia|]. destruct (p =? 43); cbn [List.length]; lia. }
  destruct r2 as [|c1 [|c2 [|c3 r3]]]; try discriminate.
  destruct ((c1 =? 125) && (c2 =? 13) && (c3 =? 10)); [|discriminate].
  intros H. inversion H; subst. cbn [List.length] in *. lia.
Qed.

Lemma good_string : good p_string.
Proof.
  intros s. unfold p_string. destruct (scan_quoted s) as [[b r]|] eqn:E.
  - cbn. eapply scan_quoted_len. exact E.
  - destruct (scan_lit_ref s) as [[ds r]|] eqn:E2; [|exact I].
    apply scan_lit_ref_len in E2. unfold p_int. destruct (int_ok ds); [|reflexivity].
    destruct (Z.of_nat (List.length r) <? digits_val ds); [exact I|]. cbn. rewrite skipn_length. lia.
Qed.

Lemma good_try_many1 {A} p (k : list Z -> parser A) (q : parser A) :
  (forall a, good (k a)) -> good q ->
  good (fun s => match try_many1 p s with Some (a, r) => k a r | None => q s end).
Proof.
  intros Hk Hq s. unfold try_many1. pose proof (span_length p s) as H. destruct (span p s) as [a r]. cbn in H.
  destruct a; [apply Hq|]. eapply good_res_weaken; [exact H|apply Hk].
Qed.

Lemma good_astring : good p_astring.
Proof. exact (good_try_many1 atom_char (fun a r => ROk a r) p_string (fun a => good_ret a) good_string). Qed.
Lemma good_atom : good p_atom.
Proof. apply good_many1. Qed.
Lemma good_mailbox : good p_mailbox.
Proof. apply good_pmap. apply good_astring. Qed.
Lemma good_list_mailbox : good p_list_mailbox.
Proof. exact (good_try_many1 list_char (fun a r => ROk a r) p_string (fun a => good_ret a) good_string). Qed.
Lemma good_pattern : good p_list_mailbox_pattern.
Proof. apply good_pmap. apply good_list_mailbox. Qed.
Lemma good_flag : good p_flag.
Proof.
  exact (good_try [92] (pmap (fun a => 92 :: a) p_atom) p_atom (good_pmap _ _ good_atom) good_atom).
Qed.

(* ------------------------------------------------------------------ message sets, dates *)
Lemma seq_atom_val_good piece : match seq_atom_val piece with ROk _ _ => True | RBad => True | RCrash k => k = CValue end.
Proof. unfold seq_atom_val. destruct (beq piece [42]); [exact I|]. destruct (int_ok piece); [exact I|reflexivity]. Qed.
Lemma seq_elt_good piece : match seq_elt piece with ROk _ _ => True | RBad => True | RCrash k => k = CValue end.
Proof.
  unfold seq_elt. destruct (seq_atom_ok piece).
  - pose proof (seq_atom_val_good piece) as H. destruct (seq_atom_val piece) as [[|n] ?| |k]; auto.
  - destruct (split_on 58 piece) as [|a [|b [|c l]]]; try exact I.
    destruct (seq_atom_ok a && seq_atom_ok b); [|exact I].
    pose proof (seq_atom_val_good a) as Ha. destruct (seq_atom_val a) as [x ?| |k]; auto.
    pose proof (seq_atom_val_good b) as Hb. destruct (seq_atom_val b) as [y ?| |k]; auto.
Qed.
Lemma seq_elts_good pieces : match seq_elts pieces with ROk _ _ => True | RBad => True | RCrash k => k = CValue end.
Proof.
  induction pieces as [|p ps IH]; cbn [seq_elts]; [exact I|].
  pose proof (seq_elt_good p) as H. destruct (seq_elt p) as [e ?| |k]; auto.
  destruct (seq_elts ps) as [es ?| |k]; auto.
Qed.
Lemma good_msg_set : good p_msg_set.
Proof.
  intros s. unfold p_msg_set. pose proof (span_length msgset_char s) as H. destruct (span msgset_char s) as [txt r]. cbn in H.
  destruct txt as [|c txt]; [exact I|].
  pose proof (seq_elts_good (split_on 44 (c :: txt))) as G. destruct (seq_elts (split_on 44 (c :: txt))); cbn; auto.
Qed.

Lemma scan_month_len s m r : scan_month s = Some (m, r) -> (List.length r <= List.length s)%nat.
Proof.
  unfold scan_month. generalize 1. induction months as [|x ms IH]; intros i H; cbn [scan_month_from] in H; [discriminate|].
  destruct (match_ci x s) eqn:E; [inversion H; subst; apply match_ci_len in E; lia|]. eapply IH. exact H.
Qed.
Lemma scan_mon_year_len s m y r : scan_mon_year s = Some (m, y, r) -> (List.length r <= List.length s)%nat.
Proof.
  unfold scan_mon_year. destruct s as [|h s1]; [discriminate|]. destruct (h =? 45); [|discriminate].
  destruct (scan_month s1) as [[m' s2]|] eqn:E; [|discriminate]. apply scan_month_len in E.
  destruct s2 as [|h2 [|a [|b [|c [|d s3]]]]]; try discriminate.
  destruct ((h2 =? 45) && is_digit a && is_digit b && is_digit c && is_digit d); [|discriminate].
  intros H. inversion H; subst. cbn [List.length] in *. lia.
Qed.
Lemma scan_date_text_len s d m y r : scan_date_text s = Some (d, m, y, r) -> (List.length r <= List.length s)%nat.
Proof.
  unfold scan_date_text.
  set (one := match s with
              | a :: s1 => if is_digit a then match scan_mon_year s1 with Some (m0, y0, r0) => Some (digit_val a, m0, y0, r0) | None => None end else None
              | [] => None end).
  assert (Hone : one = Some (d, m, y, r) -> (List.length r <= List.length s)%nat).
  { unfold one. destruct s as [|a s1]; [discriminate|]. destruct (is_digit a); [|discriminate].
    destruct (scan_mon_year s1) as [[[m0 y0] r0]|] eqn:E; [|discriminate]. apply scan_mon_year_len in E.
    intros H. inversion H; subst. cbn [List.length]. lia. }
  destruct s as [|a [|b s2]]; try exact Hone.
  destruct (is_digit a && is_digit b); [|exact Hone].
  destruct (scan_mon_year s2) as [[[m0 y0] r0]|] eqn:E; [|exact Hone]. apply scan_mon_year_len in E.
  intros H. inversion H; subst. cbn [List.length]. lia.
Qed.
Lemma good_date : good p_date.
Proof.
  intros s. unfold p_date. destruct (scan_date s) as [[[[d m] y] r]|] eqn:E; [|exact I].
  assert (H : (List.length r <= List.length s)%nat).
  { unfold scan_date in E. destruct s as [|q s1]; [discriminate|]. destruct (q =? 34).
    - destruct (scan_date_text s1) as [[[[d' m'] y'] [|q2 r']]|] eqn:E2; try discriminate.
      destruct (q2 =? 34); [|discriminate]. inversion E; subst. apply scan_date_text_len in E2. cbn [List.length] in *. lia.
    - apply scan_date_text_len in E. exact E. }
  destruct (date_ok y m d); cbn; [exact H|reflexivity].
Qed.
Lemma good_date_time : good p_date_time.
Proof.
  intros s. unfold p_date_time.
  destruct (scan_date_time s) as [[[[[[[[[[d m] y] h] mi] sec] neg] zh] zm] r]|] eqn:E; [|exact I].
  assert (H : (List.length r <= List.length s)%nat).
  { unfold scan_date_time in E. destruct s as [|q [|d1 [|d2 s1]]]; try discriminate.
    destruct ((q =? 34) && ((d1 =? 32) || is_digit d1) && is_digit d2); [|discriminate].
    destruct (scan_mon_year s1) as [[[m0 y0] s2]|] eqn:E2; [|discriminate]. apply scan_mon_year_len in E2.
    destruct s2 as [|sp1 [|h1 [|h2 [|c1 [|m1 [|m2 [|c2 [|x1 [|x2 [|sp2 [|sg [|z1 [|z2 [|z3 [|z4 [|q2 r0]]]]]]]]]]]]]]]];
      try discriminate.
    match type of E with (if ?b then _ else _) = _ => destruct b end; [|discriminate].
    inversion E; subst. cbn [List.length] in *. lia. }
  match goal with |- good_res _ (if ?b then _ else _) => destruct b end; cbn; [exact H|reflexivity].
Qed.

(* ------------------------------------------------------------------ lists *)
Lemma p_sp_shrinks r r' : p_sp r = ROk tt r' -> (List.length r' < List.length r)%nat.
Proof.
  unfold p_sp, p_lit. destruct (match_ci sp r) eqn:E; [|discriminate]. intros H. inversion H; subst.
  apply match_ci_len in E. cbn in E. lia.
Qed.

Lemma paren_list_loop_good {A} (elem : parser A) : good elem ->
  forall fuel s, (List.length s < fuel)%nat -> good_res s (paren_list_loop elem fuel s).
Proof.
  intros He. induction fuel as [|f IH]; intros s Hlen; [lia|]. cbn [paren_list_loop].
  specialize (He s). destruct (elem s) as [a r| |k]; cbn in He; [|exact I|exact He].
  unfold try_lit. destruct (match_ci [41] r) eqn:E1.
  - apply match_ci_len in E1. cbn in *. lia.
  - destruct (p_sp r) as [[] r'| |k] eqn:E2; [|exact I|].
    + apply p_sp_shrinks in E2. specialize (IH r' ltac:(lia)).
      destruct (paren_list_loop elem f r') as [l r''| |k]; cbn in *; [lia|exact I|exact IH].
    + pose proof (good_p_lit sp r) as G. unfold p_sp in E2. rewrite E2 in G. exact G.
Qed.
Lemma good_paren_list_of {A} (elem : parser A) : good elem -> good (p_paren_list_of elem).
Proof.
  intros He s. unfold p_paren_list_of. pose proof (good_p_lit [40] s) as G. destruct (p_lit [40] s) as [[] r| |k]; cbn in G; [|exact I|exact G].
  unfold try_lit. destruct (match_ci [41] r) eqn:E1.
  - apply match_ci_len in E1. cbn in *. lia.
  - eapply good_res_weaken; [exact G|]. apply paren_list_loop_good; [exact He|lia].
Qed.

Lemma list_loop_good {A} (elem : parser A) : good elem ->
  forall fuel s, (List.length s < fuel)%nat -> good_res s (list_loop elem fuel s).
Proof.
  intros He. induction fuel as [|f IH]; intros s Hlen; [lia|]. cbn [list_loop].
  specialize (He s). destruct (elem s) as [a r| |k]; cbn in He; [|exact I|exact He].
  unfold try_lit. destruct (match_ci sp r) eqn:E1; [|cbn; exact He].
  apply match_ci_len in E1. cbn in E1. specialize (IH l ltac:(lia)).
  destruct (list_loop elem f l) as [l' r''| |k]; cbn in *; [lia|exact I|exact IH].
Qed.
Lemma good_list_of {A} (elem : parser A) : good elem -> good (p_list_of elem).
Proof. intros He s. unfold p_list_of. apply list_loop_good; [exact He|lia]. Qed.

(* ------------------------------------------------------------------ the command parsers *)
Create HintDb good.
#[export] Hint Resolve good_number good_string good_astring good_atom good_mailbox good_list_mailbox good_pattern
  good_flag good_msg_set good_date good_date_time : good.
(* syntactic: never unfolds a named parser to find a pbind in it *)
Ltac gb := repeat lazymatch goal with
                  | |- good (pbind _ _) => apply good_bind; [|intros]
                  | |- good (pret _) => apply good_ret
                  | |- good pfail => apply good_fail
                  | |- good (p_lit _) => apply good_p_lit
                  | |- good p_sp => apply good_p_lit
                  | |- good (p_many1 _) => apply good_many1
                  | |- good (p_paren_list_of _) => apply good_paren_list_of
                  | |- good (p_list_of _) => apply good_list_of
                  | |- good (pmap _ _) => apply good_pmap
                  | |- good _ => solve [auto with good]
                  end.

Lemma good_status_att : good p_status_att.
Proof.
  unfold p_status_att. generalize status_atts. induction l as [|a l IH]; cbn [p_status_att_from]; [apply good_fail|].
  apply (good_try (bs (status_name a)) (fun r => ROk a r) (p_status_att_from l)); [apply good_ret|exact IH].
Qed.
#[export] Hint Resolve good_status_att : good.

Lemma good_partial : good p_partial.
Proof. unfold p_partial. gb. Qed.
#[export] Hint Resolve good_partial : good.

Lemma section_nums_good : forall fuel s, (List.length s < fuel)%nat -> good_res s (section_nums fuel s).
Proof.
  induction fuel as [|f IH]; intros s Hlen; [lia|]. cbn [section_nums].
  pose proof (good_number s) as G. destruct (p_number s) as [n r| |k] eqn:E; cbn in G; [|cbn; lia|exact G].
  assert (Hlt : (List.length r < List.length s)%nat).
  { unfold p_number, pbind in E. pose proof (span_nonempty_shrinks is_digit s) as Hs. unfold p_many1 in E.
    destruct (span is_digit s) as [a r0]. destruct a as [|c a]; [discriminate|].
    specialize (Hs (c :: a) r0 eq_refl ltac:(discriminate)).
    unfold p_int in E. destruct (int_ok (c :: a)); [inversion E; subst; exact Hs|discriminate]. }
  pose proof (good_p_lit [46] r) as G2. destruct (p_lit [46] r) as [[] r'| |k]; cbn in G2; [|cbn; lia|exact G2].
  specialize (IH r' ltac:(lia)). destruct (section_nums f r') as [l r''| |k]; cbn in *; [lia|exact I|exact IH].
Qed.

Lemma first_lit_len {A} (tbl : list (list Z * A)) s a r :
  first_lit tbl s = Some (a, r) -> (List.length r <= List.length s)%nat.
Proof.
  induction tbl as [|[x b] tbl IH]; cbn [first_lit]; [discriminate|].
  unfold try_lit. destruct (match_ci x s) eqn:E; [|exact IH].
  intros H. inversion H; subst. apply match_ci_len in E. lia.
Qed.

Lemma good_section : good p_section.
Proof.
  unfold p_section. apply good_bind; [apply good_p_lit|intros _].
  intros s. pose proof (section_nums_good (S (List.length s)) s ltac:(lia)) as G.
  destruct (section_nums (S (List.length s)) s) as [nums r| |k]; cbn in G; [|exact I|exact G].
  eapply good_res_weaken; [exact G|].
  unfold try_lit. destruct (match_ci [93] r) eqn:E; [apply match_ci_len in E; cbn in *; lia|].
  destruct (first_lit (section_texts (match nums with [] => false | _ => true end)) r) as [[tk r1]|] eqn:E1; [|exact I].
  apply first_lit_len in E1. eapply good_res_weaken; [exact E1|].
  assert (Hf : forall neg, good (p_sp ;;; hl <- p_paren_list_of p_astring ;;
                                 match hl with [] => pfail | _ => p_lit [93] ;;; pret (nums, Some (TxFields neg hl)) end)%parser).
  { intros neg. apply good_bind; [apply good_p_lit|intros _].
    apply good_bind; [apply good_paren_list_of; apply good_astring|intros hl].
    destruct hl; [apply good_fail|]. apply good_bind; [apply good_p_lit|intros; apply good_ret]. }
  destruct tk; [apply Hf|apply Hf| | |]; (apply good_bind; [apply good_p_lit|intros; apply good_ret]).
Qed.
#[export] Hint Resolve good_section : good.

Lemma good_body_rest peek : good (p_body_rest peek).
Proof.
  unfold p_body_rest. apply good_bind; [apply good_section|intros sec].
  apply (good_if (peek_lit [60])); [gb|apply (good_ret (FBody peek sec None))].
Qed.
#[export] Hint Resolve good_body_rest : good.
Lemma good_fetch_att : good p_fetch_att.
Proof.
  unfold p_fetch_att. apply good_bind; [apply good_many1|intros tok].
  destruct (lookup fetch_toks (lower_s tok)) as [[o| | | | |]|]; cbn [fetch_dispatch];
    try apply good_ret; try apply good_fail; try apply good_body_rest.
  apply (good_if (peek_lit [91]) (p_body_rest false) (fun s => ROk FBodyShort s));
    [apply good_body_rest|apply (good_ret FBodyShort)].
Qed.
#[export] Hint Resolve good_fetch_att : good.
Lemma good_fetch_atts : good p_fetch_atts.
Proof.
  unfold p_fetch_atts. apply (good_if (peek_lit [40])); [apply good_paren_list_of; apply good_fetch_att|].
  apply (good_try (bs "all") (fun r => ROk macro_all r)); [apply good_ret|].
  apply (good_try (bs "full") (fun r => ROk macro_full r)); [apply good_ret|].
  apply (good_try (bs "fast") (fun r => ROk macro_fast r)); [apply good_ret|].
  apply good_pmap. apply good_fetch_att.
Qed.
#[export] Hint Resolve good_fetch_atts : good.

Lemma good_lower_astring : good p_lower_astring.
Proof. apply good_pmap. apply good_astring. Qed.
#[export] Hint Resolve good_lower_astring : good.

Lemma good_search_dispatch nested t : good nested -> good (search_dispatch nested t).
Proof.
  intros Hn. destruct t as [[]|]; cbn [search_dispatch]; gb; try apply good_lower_astring; try exact Hn.
Qed.
Lemma good_search_key_body nested : good nested -> good (search_key_body nested).
Proof.
  intros Hn. unfold search_key_body. apply (good_if (peek_lit [40])).
  - intros s. pose proof (good_paren_list_of nested Hn s) as G.
    destruct (p_paren_list_of nested s) as [[|k [|k2 l]] r| |k]; exact G.
  - apply (good_try_many1 search_char (fun tok => search_dispatch nested (lookup search_toks (lower_s tok)))).
    + intros tok. apply good_search_dispatch. exact Hn.
    + apply good_pmap. apply good_msg_set.
Qed.
Lemma good_search_key d : good (p_search_key d).
Proof.
  induction d as [|d IH]; cbn [p_search_key]; apply good_search_key_body; [apply good_fail|exact IH].
Qed.
#[export] Hint Resolve good_search_key : good.

Lemma good_sel_item : good p_sel_item.
Proof. unfold p_sel_item. apply good_bind; [apply good_atom|intros a]. destruct (lookup sel_toks (lower_s a)); gb. Qed.
#[export] Hint Resolve good_sel_item : good.
Lemma good_select_options : good p_select_options.
Proof.
  unfold p_select_options. apply good_bind; [apply good_paren_list_of; apply good_sel_item|intros l]. cbv zeta.
  match goal with |- good (if ?b then _ else _) => destruct b end; gb.
Qed.
#[export] Hint Resolve good_select_options : good.
Lemma good_ret_item : good p_ret_item.
Proof.
  unfold p_ret_item. apply good_bind; [apply good_atom|intros a].
  destruct (beq (lower_s a) (bs "status")).
  - apply good_bind; [apply good_p_lit|intros _].
    apply good_bind; [apply good_paren_list_of; apply good_status_att|intros st].
    destruct st; [apply good_fail|apply good_ret].
  - destruct (lookup ret_toks (lower_s a)); [apply good_ret|apply good_fail].
Qed.
#[export] Hint Resolve good_ret_item : good.
Lemma good_return_options : good p_return_options.
Proof. unfold p_return_options. gb. Qed.
#[export] Hint Resolve good_return_options : good.

Lemma good_list_sel : good p_list_sel.
Proof. unfold p_list_sel. apply (good_if (peek_lit [40])); [gb|apply (good_ret sel_none)]. Qed.
Lemma good_list_pats : good p_list_pats.
Proof. unfold p_list_pats. apply (good_if (peek_lit [40])); gb. Qed.
Lemma good_list_ret : good p_list_ret.
Proof. unfold p_list_ret. apply (good_try sp); [gb|apply (good_ret (ret_none, []))]. Qed.
#[export] Hint Resolve good_list_sel good_list_pats good_list_ret : good.

Lemma good_list lsub : good (p_list lsub).
Proof. unfold p_list. gb. Qed.
#[export] Hint Resolve good_list : good.

Lemma good_id_pair : good p_id_pair.
Proof.
  unfold p_id_pair. apply good_bind; [apply good_string|intros k]. apply good_bind; [apply good_p_lit|intros _].
  apply (good_try (bs "nil") (fun r => ROk (k, None) r)); [apply (good_ret (k, None))|gb].
Qed.
#[export] Hint Resolve good_id_pair : good.
Lemma good_id : good p_id.
Proof.
  unfold p_id. apply good_bind; [apply good_p_lit|intros _]. unfold p_id_params.
  apply (good_try (bs "nil") (fun r => ROk (CId []) r)); [apply (good_ret (CId []))|].
  apply (good_if (peek_lit [40])); [gb|apply good_fail].
Qed.
#[export] Hint Resolve good_id : good.

Lemma good_append_flags : good p_append_flags.
Proof. unfold p_append_flags. apply (good_if (peek_lit [40])); [gb|apply (good_ret [])]. Qed.
Lemma good_append_date : good p_append_date.
Proof. unfold p_append_date. apply (good_if (peek_lit [34])); [gb|apply (good_ret None)]. Qed.
#[export] Hint Resolve good_append_flags good_append_date : good.
Lemma good_append : good p_append.
Proof. unfold p_append. gb. Qed.
#[export] Hint Resolve good_append : good.

Lemma good_store_action : good p_store_action.
Proof.
  intros s. unfold p_store_action. destruct s as [|c r]; cbn; [lia|].
  destruct (c =? 45); [cbn; lia|]. destruct (c =? 43); cbn; lia.
Qed.
Lemma good_store_silent : good p_store_silent.
Proof.
  unfold p_store_silent.
  apply (good_try (bs ".silent") (fun r => ROk true r) (fun s => ROk false s)); [apply (good_ret true)|apply (good_ret false)].
Qed.
Lemma good_store_flags : good p_store_flags.
Proof. unfold p_store_flags. apply (good_if (peek_lit [40])); gb. Qed.
#[export] Hint Resolve good_store_action good_store_silent good_store_flags : good.
Lemma good_store uid : good (p_store uid).
Proof. unfold p_store. gb. Qed.
#[export] Hint Resolve good_store : good.

Lemma good_search_charset : good p_search_charset.
Proof. unfold p_search_charset. apply (good_try (bs "charset")); [gb|apply (good_ret (bs "us-ascii"))]. Qed.
#[export] Hint Resolve good_search_charset : good.
Lemma good_search uid : good (p_search uid).
Proof. unfold p_search. gb. Qed.
#[export] Hint Resolve good_search : good.

Lemma good_command_body uid t : good (p_command_body uid t).
Proof. destruct t; cbn [p_command_body]; try (destruct uid); gb. Qed.
#[export] Hint Resolve good_command_body : good.
Lemma good_command t : good (p_command t).
Proof.
  destruct t; try apply (good_command_body false).
  cbn [p_command]. apply good_bind; [apply good_p_lit|intros _]. apply good_bind; [apply good_atom|intros c].
  destruct (lookup cmd_toks (lower_s c)) as [t'|]; [|apply good_fail].
  destruct (is_uid_command t'); [apply good_command_body|apply good_fail].
Qed.
#[export] Hint Resolve good_command : good.
Theorem good_parse_core : good parse_core.
Proof.
  unfold parse_core. apply good_bind; [apply good_many1|intros tag]. apply good_bind; [apply good_p_lit|intros _].
  apply good_bind; [apply good_atom|intros c].
  destruct (lookup cmd_toks (lower_s c)) as [t|]; [|apply good_fail]. gb.
Qed.

(* ------------------------------------------------------------------ the statements *)
Theorem parse_never_crashes s : parse s <> PCrash.
Proof.
  unfold parse. pose proof (good_parse_core s) as G. destruct (parse_core s) as [a r| |k]; cbn in G; try discriminate.
  subst k. discriminate.
Qed.
Theorem parse_strict_never_crashes s : parse_strict s <> PCrash.
Proof.
  unfold parse_strict. pose proof (good_parse_core s) as G. destruct (parse_core s) as [a r| |k]; cbn in G.
  - destruct (at_end r); discriminate.
  - discriminate.
  - subst k. discriminate.
Qed.
(* the unread rest is a piece of the input, never longer *)
Theorem parse_rest_bounded s : (List.length (parse_rest s) <= List.length s)%nat.
Proof.
  unfold parse_rest. pose proof (good_parse_core s) as G. destruct (parse_core s) as [a r| |k]; cbn in *; lia.
Qed.
