(* Proofs/ParseP.v — completeness of the parser model: every sentence of Spec/Grammar.v, printed with
   any choices from a well-formed AST, is parsed back to exactly that AST with nothing left. *)
From Asimap Require Import Base.Res Base.Bytes Model.Lex Spec.Grammar Model.ParseM Proofs.LexP.
From Coq Require Import Lia ZArith List Bool.
Import ListNotations.
Open Scope Z_scope.

(* ------------------------------------------------------------------ keywords, again *)
(* a comparison that fails on the lower-case keyword fails on every letter-case variant of it *)
Lemma match_ci_case_none f k : forall i k2 r,
  match_ci k (k2 ++ r) = None -> match_ci k (kw_case_from f i k2 ++ r) = None.
Proof.
  induction k as [|c k IH]; intros i k2 r; [discriminate|].
  destruct k2 as [|c2 k2]; cbn [kw_case_from app]; [auto|].
  cbn [match_ci]. rewrite py_lower_case. destruct (py_lower c2 =? py_lower c); [apply IH|reflexivity].
Qed.

Lemma try_lit_kw_none ch site k name r : match_ci k (bs name ++ r) = None -> try_lit k (kw ch site name ++ r) = None.
Proof. unfold try_lit, kw. apply match_ci_case_none. Qed.
Lemma peek_lit_kw_none ch site k name r : match_ci k (bs name ++ r) = None -> peek_lit k (kw ch site name ++ r) = false.
Proof. unfold peek_lit, kw. intros H. rewrite match_ci_case_none by exact H. reflexivity. Qed.

(* a printed keyword is read back as one token of its character class *)
Lemma kw_token (p : Z -> bool) ch site name r :
  (forall c, is_lower c = true -> p c = true -> p (c - 32) = true) ->
  forallb p (bs name) = true -> bs name <> [] -> ends p r ->
  p_many1 p (kw ch site name ++ r) = ROk (kw ch site name) r.
Proof.
  intros Hup Hall Hne Hr. apply p_many1_app; [apply case_nonempty; exact Hne|apply case_class; assumption|exact Hr].
Qed.
Lemma kw_token_try (p : Z -> bool) ch site name r :
  (forall c, is_lower c = true -> p c = true -> p (c - 32) = true) ->
  forallb p (bs name) = true -> bs name <> [] -> ends p r ->
  try_many1 p (kw ch site name ++ r) = Some (kw ch site name, r).
Proof.
  intros Hup Hall Hne Hr. apply try_many1_app; [apply case_nonempty; exact Hne|apply case_class; assumption|exact Hr].
Qed.
Lemma kw_lower ch site name : lower_s (bs name) = bs name -> lower_s (kw ch site name) = bs name.
Proof. intros H. unfold kw. rewrite lower_case. exact H. Qed.

(* py_lower never produces a character below "a" from a different one *)
Lemma py_lower_small c k : (k < 65 \/ 90 < k < 97) -> py_lower c = k -> c = k.
Proof.
  unfold py_lower. zb. intros Hk.
  destruct (65 <=? c) eqn:E1, (c <=? 90) eqn:E2, (192 <=? c) eqn:E3, (c <=? 222) eqn:E4, (c =? 215) eqn:E5;
    cbn [andb negb]; zbool; lia.
Qed.
Lemma match_ci1_ne k c r : (k < 65 \/ 90 < k < 97) -> c <> k -> match_ci [k] (c :: r) = None.
Proof.
  intros Hk Hne. apply match_ci_ne. intros E.
  assert (py_lower k = k) by (unfold py_lower; zb;
    destruct (65 <=? k) eqn:E1, (k <=? 90) eqn:E2, (192 <=? k) eqn:E3, (k <=? 222) eqn:E4, (k =? 215) eqn:E5;
    cbn [andb negb]; zbool; lia).
  rewrite H in E. apply py_lower_small in E; auto.
Qed.

(* ------------------------------------------------------------------ first characters *)
Definition head_in (p : Z -> bool) (s : list Z) : Prop := match s with c :: _ => p c = true | [] => False end.

Lemma head_in_app p s r : head_in p s -> head_in p (s ++ r).
Proof. destruct s; cbn; [intros []|auto]. Qed.
Lemma head_in_impl (p q : Z -> bool) s : (forall c, p c = true -> q c = true) -> head_in p s -> head_in q s.
Proof. destruct s; cbn; auto. Qed.

(* astring / mailbox / string start with an atom character, DQUOTE or "{" *)
Definition astr_head (c : Z) : bool := atom_char c || (c =? 34) || (c =? 123).
Definition alpha_head (c : Z) : bool := is_alpha c.

Lemma r_string_head_in form v : head_in astr_head (r_string form v).
Proof.
  unfold r_string. destruct form as [|[|[|[|n]]]]; try (destruct (quotable v)); reflexivity.
Qed.
Lemma r_astring_head_in form v : head_in astr_head (r_astring form v).
Proof.
  unfold r_astring. destruct form; [|apply r_string_head_in].
  destruct (is_atom v) eqn:A; [|apply r_string_head_in].
  unfold is_atom in A. destruct v as [|c v]; [discriminate|]. cbn [forallb] in A. apply andb_true_iff in A.
  cbn. unfold astr_head. destruct A as [A _]. rewrite A. reflexivity.
Qed.
Lemma r_mailbox_head_in ch site m : head_in astr_head (r_mailbox ch site m).
Proof. unfold r_mailbox. destruct (beq m inbox); apply r_astring_head_in. Qed.
Lemma list_head_in form v : head_in (fun c => list_char c || (c =? 34) || (c =? 123)) (r_list_mailbox form v).
Proof.
  unfold r_list_mailbox. destruct form.
  - destruct (is_list_atom v) eqn:A.
    + unfold is_list_atom in A. destruct v as [|c v]; [discriminate|]. cbn [forallb] in A. apply andb_true_iff in A.
      cbn. destruct A as [A _]. rewrite A. reflexivity.
    + eapply head_in_impl; [|apply r_string_head_in]. intros c. unfold astr_head. intros H.
      apply orb_true_iff in H; destruct H as [H|H]; [apply orb_true_iff in H; destruct H as [H|H]|].
      * assert (list_char c = true) by (revert H; zb; intros H; zbool; zchar). rewrite H0; reflexivity.
      * rewrite H. rewrite orb_true_r. reflexivity.
      * rewrite H. rewrite !orb_true_r. reflexivity.
  - eapply head_in_impl; [|apply r_string_head_in]. intros c. unfold astr_head. intros H.
    apply orb_true_iff in H; destruct H as [H|H]; [apply orb_true_iff in H; destruct H as [H|H]|].
    + assert (list_char c = true) by (revert H; zb; intros H; zbool; zchar). rewrite H0; reflexivity.
    + rewrite H. rewrite orb_true_r. reflexivity.
    + rewrite H. rewrite !orb_true_r. reflexivity.
Qed.

(* a look-ahead for one character k fails on a text whose first character is in a class without k *)
Lemma peek1_none (p : Z -> bool) k s r : (k < 65 \/ 90 < k < 97) -> p k = false -> head_in p s ->
  match_ci [k] (s ++ r) = None.
Proof.
  intros Hk Hp Hs. destruct s as [|c s]; [contradiction|]. cbn [app]. apply match_ci1_ne; [exact Hk|].
  intros ->. cbn in Hs. congruence.
Qed.

(* the first character of a printed keyword is a letter (or "." for .silent) *)
Lemma kw_head_in (p : Z -> bool) ch site name :
  (forall c, is_lower c = true -> p c = true -> p (c - 32) = true) ->
  head_in p (bs name) -> head_in p (kw ch site name).
Proof.
  intros Hup. unfold kw. destruct (bs name) as [|c k]; [auto|]. cbn [kw_case_from head_in].
  intros H. destruct (c_kw ch site 0%nat && is_lower c) eqn:E; [|exact H].
  apply andb_true_iff in E. destruct E as [_ E]. apply Hup; assumption.
Qed.

(* ------------------------------------------------------------------ stepping through a sequence *)
Lemma pbind_step {A B} (p : parser A) (f : A -> parser B) s a r : p s = ROk a r -> pbind p f s = f a r.
Proof. intros H. unfold pbind. rewrite H. reflexivity. Qed.

Ltac pstep tac := erewrite pbind_step by tac; cbv beta iota.
Ltac psp := pstep ltac:(apply p_sp_cons).

Lemma pmap_step {A B} (g : A -> B) (p : parser A) s a r : p s = ROk a r -> pmap g p s = ROk (g a) r.
Proof. intros H. unfold pmap. rewrite (pbind_step _ _ _ _ _ H). reflexivity. Qed.

(* ------------------------------------------------------------------ STATUS attributes *)
Lemma p_status_att_app ch site a r : p_status_att (r_status_att ch site a ++ r) = ROk a r.
Proof.
  unfold r_status_att, p_status_att, status_atts.
  destruct a; cbn [p_status_att_from status_name];
    repeat (rewrite try_lit_kw_none by reflexivity); rewrite try_lit_kw; reflexivity.
Qed.

Lemma status_head ch site a : head_ok (r_status_att ch site a).
Proof.
  unfold r_status_att, kw. destruct a; cbn [status_name]; bsc; cbn [kw_case_from head_ok];
    match goal with |- (if ?b then _ else _) <> _ => destruct b; lia end.
Qed.

Lemma p_status_list_app ch site l r :
  p_paren_list_of p_status_att (r_paren (r_status_att ch site) l ++ r) = ROk l r.
Proof.
  apply p_paren_list_of_app.
  - intros Hne. destruct l as [|a l]; [contradiction|].
    destruct l; [apply status_head|]. rewrite sep_by_cons2.
    pose proof (status_head ch site a) as H. destruct (r_status_att ch site a); [contradiction|exact H].
  - apply Forall_forall. intros a _ r0 _. apply p_status_att_app.
Qed.

(* the first element of a non-empty separated list gives the list its first character *)
Lemma sep_by_head {A} (f : A -> list Z) (P : list Z -> Prop) l :
  l <> [] -> (forall x s, In x l -> P (f x) -> P (f x ++ s)) -> (forall x, In x l -> P (f x)) -> P (sep_by f l).
Proof.
  intros Hne Happ Hall. destruct l as [|x l]; [contradiction|].
  destruct l as [|y l]; [apply Hall; left; reflexivity|].
  rewrite sep_by_cons2. apply Happ; [left; reflexivity|apply Hall; left; reflexivity].
Qed.
Lemma head_ok_app s r : head_ok s -> head_ok (s ++ r).
Proof. destruct s; cbn; [intros []|auto]. Qed.
Lemma head_in_ok (p : Z -> bool) s : p 41 = false -> head_in p s -> head_ok s.
Proof. destruct s as [|c s]; cbn; [auto|]. intros H1 H2 ->. congruence. Qed.

(* ------------------------------------------------------------------ FETCH: sections *)
Lemma p_number_bad T : ends is_digit T -> p_number T = RBad.
Proof.
  intros H. unfold p_number, pbind, p_many1. destruct T as [|c T]; [reflexivity|]. cbn in H. cbn [span]. rewrite H. reflexivity.
Qed.

Lemma r_nums_cons2 n m l : r_nums (n :: m :: l) = r_number n ++ 46 :: r_nums (m :: l).
Proof. reflexivity. Qed.

(* part numbers followed by something that is neither a digit nor "." : n.n.n] *)
Lemma section_nums_end : forall nums T fuel,
  forallb num_ok nums = true -> ends is_digit T -> p_lit [46] T = RBad ->
  Nat.lt (List.length (r_nums nums ++ T)) fuel ->
  section_nums fuel (r_nums nums ++ T) = ROk nums T.
Proof.
  induction nums as [|n nums IH]; intros T fuel Hok Hd Hdot Hlen; (destruct fuel as [|fuel]; [inversion Hlen|]).
  - cbn [r_nums app section_nums]. rewrite p_number_bad by exact Hd. reflexivity.
  - cbn [forallb] in Hok. apply andb_true_iff in Hok; destruct Hok as [Hn Hok].
    destruct nums as [|m nums].
    + cbn [r_nums section_nums]. rewrite p_number_app by assumption. rewrite Hdot. reflexivity.
    + rewrite r_nums_cons2 in *. rewrite <- app_assoc in *. rewrite <- app_comm_cons in *.
      cbn [section_nums]. rewrite p_number_app by (try assumption; reflexivity).
      change (p_lit [46] (46 :: r_nums (m :: nums) ++ T)) with (ROk tt (r_nums (m :: nums) ++ T)). cbv iota.
      rewrite IH; [reflexivity|exact Hok|exact Hd|exact Hdot|].
      rewrite app_length in Hlen. cbn [List.length] in Hlen. unfold Nat.lt in *. lia.
Qed.

(* part numbers followed by "." and a section text: n.n.TEXT *)
Lemma section_nums_dot : forall nums T fuel,
  nums <> [] -> forallb num_ok nums = true -> ends is_digit T ->
  Nat.lt (List.length (r_nums nums ++ 46 :: T)) fuel ->
  section_nums fuel (r_nums nums ++ 46 :: T) = ROk nums T.
Proof.
  induction nums as [|n nums IH]; intros T fuel Hne Hok Hd Hlen; [contradiction|].
  destruct fuel as [|fuel]; [inversion Hlen|].
  cbn [forallb] in Hok. apply andb_true_iff in Hok; destruct Hok as [Hn Hok].
  destruct nums as [|m nums].
  - cbn [r_nums section_nums]. rewrite p_number_app by (try assumption; reflexivity).
    change (p_lit [46] (46 :: T)) with (ROk tt T). cbv iota.
    destruct fuel as [|fuel].
    { rewrite app_length in Hlen. cbn [List.length] in Hlen. unfold Nat.lt in *.
      pose proof (r_number_nonempty n). destruct (r_number n); [contradiction|cbn [List.length] in Hlen; lia]. }
    cbn [section_nums]. rewrite p_number_bad by exact Hd. reflexivity.
  - rewrite r_nums_cons2 in *. rewrite <- app_assoc in *. rewrite <- app_comm_cons in *.
    cbn [section_nums]. rewrite p_number_app by (try assumption; reflexivity).
    change (p_lit [46] (46 :: r_nums (m :: nums) ++ 46 :: T)) with (ROk tt (r_nums (m :: nums) ++ 46 :: T)). cbv iota.
    rewrite IH; [reflexivity|discriminate|exact Hok|exact Hd|].
    rewrite app_length in Hlen. cbn [List.length] in Hlen. unfold Nat.lt in *. lia.
Qed.

(* a keyword does not start with a digit *)
Lemma kw_not_digit ch site name r : head_in is_alpha (bs name) -> ends is_digit (kw ch site name ++ r).
Proof.
  intros H. assert (Hk : head_in is_alpha (kw ch site name)).
  { apply kw_head_in; [|exact H]. intros c Hc _. revert Hc. zb. intros Hc. zbool. zchar. }
  destruct (kw ch site name) as [|c k]; [contradiction|]. cbn in *. revert Hk. zb. intros Hk.
  apply orb_true_iff in Hk. destruct Hk as [Hk|Hk]; zbool; zchar.
Qed.

Lemma astring_head_ok form v : head_ok (r_astring form v).
Proof. apply (head_in_ok astr_head); [reflexivity|apply r_astring_head_in]. Qed.

Lemma p_header_list_app ch hdrs r : hdrs <> [] -> forallb str_ok hdrs = true ->
  p_paren_list_of p_astring (r_paren (fun h => r_astring (c_str ch 41 h) h) hdrs ++ r) = ROk hdrs r.
Proof.
  intros Hne Hok. apply p_paren_list_of_app.
  - intros _. apply (sep_by_head _ head_ok); [exact Hne| |].
    + intros x s _. apply head_ok_app.
    + intros x _. apply astring_head_ok.
  - apply Forall_forall. intros h Hin r0 Hr0. apply p_astring_app; [|exact Hr0].
    rewrite forallb_forall in Hok. apply Hok. exact Hin.
Qed.

Lemma p_section_app ch s r : section_ok s = true -> p_section (r_section ch s ++ r) = ROk s r.
Proof.
  destruct s as [nums t]. unfold section_ok. intros H. apply andb_true_iff in H; destruct H as [Hn Ht].
  unfold p_section, r_section. napp. pstep ltac:(reflexivity).
  destruct t as [t|].
  - (* with a section text *)
    assert (Hnums : forall T, ends is_digit T ->
              section_nums (S (List.length (r_nums nums ++ (match nums with [] => [] | _ => [46] end) ++ T)))
                           (r_nums nums ++ (match nums with [] => [] | _ => [46] end) ++ T) = ROk nums T).
    { intros T HT. destruct nums as [|n nums].
      - cbn [r_nums app section_nums]. rewrite p_number_bad by exact HT. reflexivity.
      - cbn [app]. apply section_nums_dot; [discriminate|exact Hn|exact HT|unfold Nat.lt; lia]. }
    unfold r_sect_text.
    destruct t as [| | |neg hdrs]; cbn [sect_text_ok] in Ht.
    + napp. rewrite Hnums by (apply kw_not_digit; reflexivity).
      rewrite try_lit_kw_none by reflexivity.
      unfold section_texts. cbn [app first_lit]. rewrite !try_lit_kw_none by reflexivity. rewrite try_lit_kw.
      pstep ltac:(reflexivity). reflexivity.
    + napp. rewrite Hnums by (apply kw_not_digit; reflexivity).
      rewrite try_lit_kw_none by reflexivity.
      unfold section_texts. cbn [app first_lit]. rewrite !try_lit_kw_none by reflexivity. rewrite try_lit_kw.
      pstep ltac:(reflexivity). reflexivity.
    + napp. rewrite Hnums by (apply kw_not_digit; reflexivity).
      rewrite try_lit_kw_none by reflexivity.
      destruct nums as [|n nums]; [discriminate|].
      unfold section_texts. cbn [app first_lit]. rewrite !try_lit_kw_none by reflexivity. rewrite try_lit_kw.
      pstep ltac:(reflexivity). reflexivity.
    + destruct hdrs as [|h hdrs]; [discriminate|].
      destruct neg; napp; (rewrite Hnums by (apply kw_not_digit; reflexivity));
        (rewrite try_lit_kw_none by reflexivity);
        unfold section_texts; cbn [app first_lit]; rewrite ?try_lit_kw_none by reflexivity; rewrite try_lit_kw;
        psp; (pstep ltac:(apply p_header_list_app; [discriminate|exact Ht]));
        (pstep ltac:(reflexivity)); reflexivity.
  - (* numbers only *)
    napp. rewrite section_nums_end; [|exact Hn|reflexivity|reflexivity|unfold Nat.lt; lia].
    reflexivity.
Qed.

(* ------------------------------------------------------------------ FETCH: attributes *)
Lemma stops_peek_none k r : (k < 65 \/ 90 < k < 97) -> stop_char k = false -> stops r = true -> peek_lit [k] r = false.
Proof.
  intros Hk Hs Hr. unfold peek_lit. destruct r as [|c r]; [reflexivity|]. cbn in Hr.
  rewrite match_ci1_ne; [reflexivity|exact Hk|]. intros ->. congruence.
Qed.
Lemma stops_try_none k r : (k < 65 \/ 90 < k < 97) -> stop_char k = false -> stops r = true -> try_lit [k] r = None.
Proof.
  intros Hk Hs Hr. unfold try_lit. destruct r as [|c r]; [reflexivity|]. cbn in Hr.
  apply match_ci1_ne; [exact Hk|]. intros ->. congruence.
Qed.

Lemma p_partial_app a b r : num_ok a = true -> num_ok b = true ->
  p_partial (60 :: r_number a ++ 46 :: r_number b ++ 62 :: r) = ROk (a, b) r.
Proof.
  intros Ha Hb. unfold p_partial.
  pstep ltac:(reflexivity). pstep ltac:(apply p_number_app; [exact Ha|reflexivity]).
  pstep ltac:(reflexivity). pstep ltac:(apply p_number_app; [exact Hb|reflexivity]).
  pstep ltac:(reflexivity). reflexivity.
Qed.

Lemma fetch_tok ch name r :
  forallb fetch_att_char (bs name) = true -> bs name <> [] -> lower_s (bs name) = bs name -> ends fetch_att_char r ->
  p_fetch_att (kw ch 42 name ++ r) = fetch_dispatch (lookup fetch_toks (bs name)) r.
Proof.
  intros H1 H2 H3 H4. unfold p_fetch_att.
  pstep ltac:(apply kw_token; [apply upper_fetch|exact H1|exact H2|exact H4]).
  rewrite kw_lower by exact H3. reflexivity.
Qed.

Lemma stops_ends_fetch r : stops r = true -> ends fetch_att_char r.
Proof. apply stops_ends. apply stop_not_fetch. Qed.

Lemma p_fetch_att_app ch a r : fatt_ok a = true -> stops r = true -> p_fetch_att (r_fetch_att ch a ++ r) = ROk a r.
Proof.
  intros Ha Hr. destruct a as [o| | | | |peek sec part]; cbn [r_fetch_att].
  - destruct o; cbn [fop_name]; (rewrite fetch_tok; [reflexivity|reflexivity|discriminate|reflexivity|apply stops_ends_fetch; exact Hr]).
  - rewrite fetch_tok; [|reflexivity|discriminate|reflexivity|apply stops_ends_fetch; exact Hr].
    change (lookup fetch_toks (bs "body")) with (Some TkBody). cbn [fetch_dispatch].
    rewrite stops_peek_none; [reflexivity|lia|reflexivity|exact Hr].
  - rewrite fetch_tok; [reflexivity|reflexivity|discriminate|reflexivity|apply stops_ends_fetch; exact Hr].
  - rewrite fetch_tok; [reflexivity|reflexivity|discriminate|reflexivity|apply stops_ends_fetch; exact Hr].
  - rewrite fetch_tok; [reflexivity|reflexivity|discriminate|reflexivity|apply stops_ends_fetch; exact Hr].
  - cbn [fatt_ok] in Ha. apply andb_true_iff in Ha; destruct Ha as [Hsec Hpart].
    assert (Hrest : p_body_rest peek (r_section ch sec ++
                      match part with None => [] | Some (a, b) => 60 :: r_number a ++ 46 :: r_number b ++ [62] end ++ r)
                    = ROk (FBody peek sec part) r).
    { unfold p_body_rest. pstep ltac:(apply p_section_app; exact Hsec).
      destruct part as [[x y]|].
      - apply andb_true_iff in Hpart; destruct Hpart as [Hx Hy]. napp.
        change (peek_lit [60] (60 :: r_number x ++ 46 :: r_number y ++ 62 :: r)) with true. cbv iota.
        pstep ltac:(apply p_partial_app; assumption). reflexivity.
      - cbn [app]. rewrite stops_peek_none; [reflexivity|lia|reflexivity|exact Hr]. }
    assert (Hhead : forall X, ends fetch_att_char (r_section ch sec ++ X)).
    { intros X. destruct sec as [nums t]. unfold r_section. cbn [app]. reflexivity. }
    assert (Hpeek : forall X, peek_lit [91] (r_section ch sec ++ X) = true).
    { intros X. destruct sec as [nums t]. unfold r_section. cbn [app]. reflexivity. }
    destruct peek; napp.
    + rewrite fetch_tok; [|reflexivity|discriminate|reflexivity|apply Hhead].
      change (lookup fetch_toks (bs "body.peek")) with (Some TkBodyPeek). cbn [fetch_dispatch].
      apply Hrest.
    + rewrite fetch_tok; [|reflexivity|discriminate|reflexivity|apply Hhead].
      change (lookup fetch_toks (bs "body")) with (Some TkBody). cbn [fetch_dispatch].
      rewrite Hpeek. apply Hrest.
Qed.

Lemma fop_eqb_eq a b : fop_eqb a b = true -> a = b.
Proof. destruct a, b; cbn; intros H; try discriminate; reflexivity. Qed.
Lemma fatt_simple_eqb_eq a b : fatt_simple_eqb a b = true -> a = b.
Proof.
  destruct a, b; cbn; intros H; try discriminate; try reflexivity. f_equal. apply fop_eqb_eq. exact H.
Qed.
Lemma fatts_eqb_eq : forall a b, fatts_eqb a b = true -> a = b.
Proof.
  induction a as [|x a IH]; intros [|y b] H; cbn in H; try discriminate; [reflexivity|].
  apply andb_true_iff in H; destruct H as [H1 H2]. f_equal; [apply fatt_simple_eqb_eq; exact H1|apply IH; exact H2].
Qed.

(* an attribute name is not "(" and none of the macros *)
Lemma fetch_att_not_macro ch a r :
  peek_lit [40] (r_fetch_att ch a ++ r) = false /\ try_lit (bs "all") (r_fetch_att ch a ++ r) = None
  /\ try_lit (bs "full") (r_fetch_att ch a ++ r) = None /\ try_lit (bs "fast") (r_fetch_att ch a ++ r) = None.
Proof.
  destruct a as [o| | | | |peek sec part]; cbn [r_fetch_att]; try destruct o; try destruct peek; cbn [fop_name]; napp;
    repeat split; (apply peek_lit_kw_none || apply try_lit_kw_none); reflexivity.
Qed.

Lemma kw_head_ok ch site name : head_in is_alpha (bs name) -> head_ok (kw ch site name).
Proof.
  intros Hh. apply (head_in_ok is_alpha); [reflexivity|].
  apply kw_head_in; [|exact Hh]. intros c Hc _. revert Hc. zb. intros Hc. zbool. zchar.
Qed.
Lemma kw_app_head_ok ch site name X : head_in is_alpha (bs name) -> head_ok (kw ch site name ++ X).
Proof. intros Hh. apply head_ok_app. apply kw_head_ok. exact Hh. Qed.

Lemma fetch_att_head ch a : head_ok (r_fetch_att ch a).
Proof.
  destruct a as [o| | | | |peek sec part]; cbn [r_fetch_att].
  - destruct o; apply kw_head_ok; reflexivity.
  - apply kw_head_ok; reflexivity.
  - apply kw_head_ok; reflexivity.
  - apply kw_head_ok; reflexivity.
  - apply kw_head_ok; reflexivity.
  - destruct peek; apply kw_app_head_ok; reflexivity.
Qed.

Lemma p_fetch_atts_app ch l r : forallb fatt_ok l = true -> stops r = true ->
  p_fetch_atts (r_fetch_atts ch l ++ r) = ROk l r.
Proof.
  intros Hl Hr.
  assert (Hparen : p_fetch_atts (r_paren (r_fetch_att ch) l ++ r) = ROk l r).
  { unfold p_fetch_atts. unfold r_paren at 1. cbn [app]. change (peek_lit [40] (40 :: (sep_by (r_fetch_att ch) l ++ [41]) ++ r)) with true.
    cbv iota. change (40 :: (sep_by (r_fetch_att ch) l ++ [41]) ++ r) with (r_paren (r_fetch_att ch) l ++ r).
    apply p_paren_list_of_app.
    - intros Hne. apply (sep_by_head _ head_ok); [exact Hne| |].
      + intros x s _. apply head_ok_app.
      + intros x _. apply fetch_att_head.
    - apply Forall_forall. intros a Hin r0 Hr0. apply p_fetch_att_app; [|exact Hr0].
      rewrite forallb_forall in Hl. apply Hl. exact Hin. }
  unfold r_fetch_atts.
  destruct (c_opt ch 43 && fatts_eqb l macro_all) eqn:E1.
  { apply andb_true_iff in E1; destruct E1 as [_ E1]. apply fatts_eqb_eq in E1. subst l.
    unfold p_fetch_atts. rewrite peek_lit_kw_none by reflexivity. rewrite try_lit_kw. reflexivity. }
  destruct (c_opt ch 43 && fatts_eqb l macro_fast) eqn:E2.
  { apply andb_true_iff in E2; destruct E2 as [_ E2]. apply fatts_eqb_eq in E2. subst l.
    unfold p_fetch_atts. rewrite peek_lit_kw_none by reflexivity. rewrite !try_lit_kw_none by reflexivity.
    rewrite try_lit_kw. reflexivity. }
  destruct (c_opt ch 43 && fatts_eqb l macro_full) eqn:E3.
  { apply andb_true_iff in E3; destruct E3 as [_ E3]. apply fatts_eqb_eq in E3. subst l.
    unfold p_fetch_atts. rewrite peek_lit_kw_none by reflexivity. rewrite !try_lit_kw_none by reflexivity.
    rewrite try_lit_kw. reflexivity. }
  destruct l as [|a [|b l]]; try exact Hparen.
  destruct (c_opt ch 45); [|exact Hparen].
  destruct (fetch_att_not_macro ch a r) as [P1 [P2 [P3 P4]]].
  unfold p_fetch_atts. rewrite P1, P2, P3, P4.
  cbn [forallb] in Hl. rewrite andb_true_r in Hl.
  unfold pmap. pstep ltac:(apply p_fetch_att_app; assumption). reflexivity.
Qed.

(* ------------------------------------------------------------------ SEARCH *)
Lemma upper_is_alpha c : is_lower c = true -> is_alpha c = true -> is_alpha (c - 32) = true.
Proof. intros H _. revert H. zb. intros H. zbool. zchar. Qed.

Lemma stops_ends_alpha r : stops r = true -> ends search_char r.
Proof. apply stops_ends. apply stop_not_alpha. Qed.

Lemma search_tok nested ch name r :
  forallb search_char (bs name) = true -> head_in is_alpha (bs name) -> lower_s (bs name) = bs name ->
  stops r = true ->
  search_key_body nested (kw ch 50 name ++ r) = search_dispatch nested (lookup search_toks (bs name)) r.
Proof.
  intros H1 H2 H3 H4. unfold search_key_body.
  assert (Hk : head_in is_alpha (kw ch 50 name)) by (apply kw_head_in; [apply upper_is_alpha|exact H2]).
  unfold peek_lit. rewrite (peek1_none is_alpha 40); [|lia|reflexivity|exact Hk].
  rewrite kw_token_try; [|apply upper_alpha|exact H1| |apply stops_ends_alpha; exact H4].
  - rewrite kw_lower by exact H3. reflexivity.
  - destruct (bs name); [contradiction|discriminate].
Qed.

Lemma sysflag_cases f name : sysflag_key f = Some name ->
  (f = bs "\Answered" /\ name = "answered"%string) \/ (f = bs "\Deleted" /\ name = "deleted"%string)
  \/ (f = bs "\Draft" /\ name = "draft"%string) \/ (f = bs "\Flagged" /\ name = "flagged"%string)
  \/ (f = bs "\Recent" /\ name = "recent"%string) \/ (f = bs "\Seen" /\ name = "seen"%string).
Proof.
  unfold sysflag_key.
  destruct (beq f (bs "\Answered")) eqn:E1; [intros H; inversion H; apply beq_eq in E1; auto|].
  destruct (beq f (bs "\Deleted")) eqn:E2; [intros H; inversion H; apply beq_eq in E2; auto|].
  destruct (beq f (bs "\Draft")) eqn:E3; [intros H; inversion H; apply beq_eq in E3; auto 6|].
  destruct (beq f (bs "\Flagged")) eqn:E4; [intros H; inversion H; apply beq_eq in E4; auto 8|].
  destruct (beq f (bs "\Recent")) eqn:E5; [intros H; inversion H; apply beq_eq in E5; auto 10|].
  destruct (beq f (bs "\Seen")) eqn:E6; [intros H; inversion H; apply beq_eq in E6; auto 12|].
  discriminate.
Qed.

Definition set_head (c : Z) : bool := is_digit c || (c =? 42).
Lemma r_set_head l : set_ok l = true -> head_in set_head (r_set l).
Proof.
  unfold set_ok. destruct l as [|e l]; [discriminate|]. intros H. cbn [forallb] in H. apply andb_true_iff in H.
  destruct H as [He _].
  assert (Hs : forall a, satom_ok a = true -> head_in set_head (r_satom a)).
  { intros [|n] Hn; cbn [r_satom]; [reflexivity|]. cbn [satom_ok] in Hn.
    pose proof (r_number_nonempty n) as Hne.
    assert (Hd : forallb is_digit (r_number n) = true) by (apply r_number_digits; unfold num_ok in Hn; zbool; lia).
    destruct (r_number n) as [|c t]; [contradiction|]. cbn [forallb] in Hd. apply andb_true_iff in Hd. cbn.
    unfold set_head. destruct Hd as [Hd _]. rewrite Hd. reflexivity. }
  assert (He' : head_in set_head (r_selt e)).
  { destruct e as [|n|a b]; cbn [r_selt selt_ok] in *; [reflexivity|apply (Hs (ANum n)); exact He|].
    apply andb_true_iff in He. destruct He as [Ha _]. apply head_in_app. apply Hs. exact Ha. }
  destruct l as [|e' l]; [exact He'|].
  change (r_set (e :: e' :: l)) with (r_selt e ++ 44 :: r_set (e' :: l)). apply head_in_app. exact He'.
Qed.

Lemma set_head_not_alpha s r : head_in set_head s -> try_many1 search_char (s ++ r) = None.
Proof.
  destruct s as [|c s]; [intros []|]. cbn [head_in app]. intros H. apply try_many1_none.
  revert H. unfold set_head. zb. intros H. apply orb_true_iff in H. destruct H as [H|H]; zbool; zchar.
Qed.

(* the shape of a printed search key: a keyword first, or "(", or a sequence set *)
Definition search_names : list string :=
  ["all"; "keyword"; "answered"; "deleted"; "draft"; "flagged"; "recent"; "seen"; "header"; "bcc"; "cc"; "from";
   "subject"; "to"; "before"; "on"; "since"; "sentbefore"; "senton"; "sentsince"; "body"; "text"; "larger"; "smaller";
   "not"; "unanswered"; "undeleted"; "undraft"; "unflagged"; "old"; "unseen"; "unkeyword"; "or"; "new"; "uid"]%string.

Lemma hdr_key_cases h name : hdr_key h = Some name ->
  (h = bs "bcc" /\ name = "bcc"%string) \/ (h = bs "cc" /\ name = "cc"%string) \/ (h = bs "from" /\ name = "from"%string)
  \/ (h = bs "subject" /\ name = "subject"%string) \/ (h = bs "to" /\ name = "to"%string).
Proof.
  unfold hdr_key.
  destruct (beq h (bs "bcc")) eqn:E1; [intros H; inversion H; apply beq_eq in E1; auto|].
  destruct (beq h (bs "cc")) eqn:E2; [intros H; inversion H; apply beq_eq in E2; auto|].
  destruct (beq h (bs "from")) eqn:E3; [intros H; inversion H; apply beq_eq in E3; auto 6|].
  destruct (beq h (bs "subject")) eqn:E4; [intros H; inversion H; apply beq_eq in E4; auto 8|].
  destruct (beq h (bs "to")) eqn:E5; [intros H; inversion H; apply beq_eq in E5; auto 10|].
  discriminate.
Qed.
Lemma unflag_key_cases f name : unflag_key f = Some name ->
  (f = bs "\Answered" /\ name = "unanswered"%string) \/ (f = bs "\Deleted" /\ name = "undeleted"%string)
  \/ (f = bs "\Draft" /\ name = "undraft"%string) \/ (f = bs "\Flagged" /\ name = "unflagged"%string)
  \/ (f = bs "\Recent" /\ name = "old"%string) \/ (f = bs "\Seen" /\ name = "unseen"%string).
Proof.
  unfold unflag_key.
  destruct (beq f (bs "\Answered")) eqn:E1; [intros H; inversion H; apply beq_eq in E1; auto|].
  destruct (beq f (bs "\Deleted")) eqn:E2; [intros H; inversion H; apply beq_eq in E2; auto|].
  destruct (beq f (bs "\Draft")) eqn:E3; [intros H; inversion H; apply beq_eq in E3; auto 6|].
  destruct (beq f (bs "\Flagged")) eqn:E4; [intros H; inversion H; apply beq_eq in E4; auto 8|].
  destruct (beq f (bs "\Recent")) eqn:E5; [intros H; inversion H; apply beq_eq in E5; auto 10|].
  destruct (beq f (bs "\Seen")) eqn:E6; [intros H; inversion H; apply beq_eq in E6; auto 12|].
  discriminate.
Qed.
Lemma is_new_eq l : is_new l = true -> l = [KKeyword (bs "\Recent"); KNot (KKeyword (bs "\Seen"))].
Proof.
  unfold is_new. destruct l as [|[| a | | | | | | | | | | |] [|[| | | | | | | |[| b | | | | | | | | | | |]| | | |] [|z l]]]; try discriminate.
  intros H. apply andb_true_iff in H. destruct H as [H1 H2]. apply beq_eq in H1, H2. subst. reflexivity.
Qed.

Lemma r_skey_shape ch : forall d k, skey_ok (c_opt ch 59) d k = true ->
  (exists name X, r_skey ch k = kw ch 50 name ++ X /\ In name search_names)
  \/ (exists X, r_skey ch k = 40 :: X) \/ (exists l, set_ok l = true /\ r_skey ch k = r_set l).
Proof.
  intros d k Hk.
  assert (K : forall name X, In name search_names ->
            (exists name0 X0, kw ch 50 name ++ X = kw ch 50 name0 ++ X0 /\ In name0 search_names)
            \/ (exists X0, kw ch 50 name ++ X = 40 :: X0) \/ (exists l, set_ok l = true /\ kw ch 50 name ++ X = r_set l)).
  { intros name X Hin. left. exists name, X. split; [reflexivity|exact Hin]. }
  assert (K0 : forall name, In name search_names ->
            (exists name0 X0, kw ch 50 name = kw ch 50 name0 ++ X0 /\ In name0 search_names)
            \/ (exists X0, kw ch 50 name = 40 :: X0) \/ (exists l, set_ok l = true /\ kw ch 50 name = r_set l)).
  { intros name Hin. left. exists name, []. split; [rewrite app_nil_r; reflexivity|exact Hin]. }
  destruct k as [|f|h s|w dt|s|s|n|n|k'|a b|l|l|l]; cbn [r_skey].
  - apply K0. cbn. tauto.
  - destruct (sysflag_key f) as [name|] eqn:E.
    + destruct (sysflag_cases f name E) as [[_ ->]|[[_ ->]|[[_ ->]|[[_ ->]|[[_ ->]|[_ ->]]]]]]; apply K0; cbn; tauto.
    + apply K. cbn. tauto.
  - destruct (if c_opt ch 59 then hdr_key h else None) as [name|] eqn:E.
    + destruct (c_opt ch 59); [|discriminate].
      destruct (hdr_key_cases h name E) as [[_ ->]|[[_ ->]|[[_ ->]|[[_ ->]|[_ ->]]]]]; apply K; cbn; tauto.
    + apply K. cbn. tauto.
  - destruct w; apply K; cbn; tauto.
  - apply K. cbn. tauto.
  - apply K. cbn. tauto.
  - apply K. cbn. tauto.
  - apply K. cbn. tauto.
  - destruct (if c_opt ch 59 then not_alt ch k' else None) as [txt|] eqn:E.
    + destruct (c_opt ch 59); [|discriminate]. unfold not_alt in E. destruct k'; try discriminate.
      destruct (unflag_key k) as [name|] eqn:Eu.
      * replace txt with (kw ch 50 name) by congruence.
        destruct (unflag_key_cases k name Eu) as [[_ ->]|[[_ ->]|[[_ ->]|[[_ ->]|[[_ ->]|[_ ->]]]]]]; apply K0; cbn; tauto.
      * destruct (is_atom k); [|discriminate]. replace txt with (kw ch 50 "unkeyword" ++ 32 :: k) by congruence. apply K. cbn. tauto.
    + apply K. cbn. tauto.
  - apply K. cbn. tauto.
  - destruct (c_opt ch 59 && is_new l); [apply K0; cbn; tauto|]. right. left. eexists. reflexivity.
  - right. right. exists l. split; [exact Hk|reflexivity].
  - apply K. cbn. tauto.
Qed.

Definition skey_head (c : Z) : bool := is_alpha c || (c =? 40) || set_head c.

Lemma skey_head_in ch d k : skey_ok (c_opt ch 59) d k = true -> head_in skey_head (r_skey ch k).
Proof.
  intros Hk. destruct (r_skey_shape ch d k Hk) as [[name [X [E Hin]]]|[[X E]|[l [Hl E]]]]; rewrite E.
  - apply head_in_app. apply (head_in_impl is_alpha); [intros c Hc; unfold skey_head; rewrite Hc; reflexivity|].
    apply kw_head_in; [apply upper_is_alpha|]. cbn in Hin.
    repeat (destruct Hin as [<-|Hin]; [reflexivity|]). contradiction.
  - reflexivity.
  - eapply head_in_impl; [|apply r_set_head; exact Hl]. intros c Hc. unfold skey_head. rewrite Hc, orb_true_r. reflexivity.
Qed.

Lemma skey_head_ok ch d k : skey_ok (c_opt ch 59) d k = true -> head_ok (r_skey ch k).
Proof.
  intros H. apply (head_in_ok skey_head); [reflexivity|]. eapply skey_head_in. exact H.
Qed.

Lemma skey_not_charset ch d k r : skey_ok (c_opt ch 59) d k = true -> try_lit (bs "charset") (r_skey ch k ++ r) = None.
Proof.
  intros Hk. destruct (r_skey_shape ch d k Hk) as [[name [X [E Hin]]]|[[X E]|[l [Hl E]]]]; rewrite E.
  - rewrite <- app_assoc. apply try_lit_kw_none. cbn in Hin.
    repeat (destruct Hin as [<-|Hin]; [reflexivity|]). contradiction.
  - reflexivity.
  - pose proof (r_set_head l Hl) as Hh. destruct (r_set l) as [|c t]; [contradiction|]. cbn [app]. cbn in Hh.
    unfold try_lit. change (bs "charset") with (99 :: bs "harset"). cbn [match_ci].
    destruct (Z.eqb_spec (py_lower c) (py_lower 99)) as [Ec|Ec]; [|reflexivity]. exfalso.
    change (py_lower 99) with 99 in Ec. revert Hh Ec. unfold set_head, py_lower. zb. intros Hh Ec.
    apply orb_true_iff in Hh. destruct Hh as [Hh|Hh]; zbool;
      destruct (65 <=? c) eqn:E1, (c <=? 90) eqn:E2, (192 <=? c) eqn:E3, (c <=? 222) eqn:E4, (c =? 215) eqn:E5;
      cbn [andb negb] in Ec; zbool; lia.
Qed.

Lemma go_sep_by ch l :
  (fix go (l : list skey) : list Z :=
     match l with
     | [] => []
     | [x] => r_skey ch x
     | x :: (_ :: _) as rest => r_skey ch x ++ 32 :: go rest
     end) l = sep_by (r_skey ch) l.
Proof. induction l as [|x [|y l] IH]; try reflexivity. rewrite sep_by_cons2. rewrite <- IH. reflexivity. Qed.

Lemma lowered_eq s : lowered_ok s = true -> lower_s s = s /\ str_ok s = true.
Proof. unfold lowered_ok. intros H. apply andb_true_iff in H. destruct H as [H1 H2]. split; [apply beq_eq; exact H1|exact H2]. Qed.

Lemma p_lower_astring_app form v r : lowered_ok v = true -> stops r = true ->
  p_lower_astring (r_astring form v ++ r) = ROk v r.
Proof.
  intros Hv Hr. destruct (lowered_eq v Hv) as [H1 H2]. unfold p_lower_astring, pmap.
  pstep ltac:(apply p_astring_app; assumption). unfold pret. rewrite H1. reflexivity.
Qed.

Lemma stops_ends_digit r : stops r = true -> ends is_digit r.
Proof. apply stops_ends. apply stop_not_digit. Qed.

Lemma p_search_key_unfold d :
  p_search_key d = search_key_body (match d with O => pfail | S d' => p_search_key d' end).
Proof. destruct d; reflexivity. Qed.

Ltac look_tok :=
  match goal with |- search_dispatch _ (lookup search_toks (bs ?n)) _ = _ =>
    let x := eval vm_compute in (lookup search_toks (bs n)) in
    change (lookup search_toks (bs n)) with x end; cbn [search_dispatch].

Lemma not_alt_ok_some ch k : not_alt_ok k = true -> exists txt, not_alt ch k = Some txt.
Proof.
  unfold not_alt_ok, not_alt. destruct k; try discriminate. destruct (unflag_key k); [eauto|].
  intros H. rewrite H. eauto.
Qed.

(* one level of _p_search_key; P is what the keys one level down satisfy *)
Lemma skb_app ch (nested : parser skey) (P : skey -> Prop) :
  (forall k r, P k -> stops r = true -> nested (r_skey ch k ++ r) = ROk k r) ->
  forall k r, stops r = true ->
    match k with
    | KNot k' => c_opt ch 59 && not_alt_ok k' = true \/ P k'
    | KOr a b => P a /\ P b
    | KAnd l => c_opt ch 59 && is_new l = true \/ l = []
                \/ (exists x y l', l = x :: y :: l') /\ Forall P l /\ head_ok (sep_by (r_skey ch) l)
    | _ => skey_ok false 0 k = true
    end ->
    search_key_body nested (r_skey ch k ++ r) = ROk k r.
Proof.
  intros Hn k r Hr Hk.
  destruct k as [|f|h s|w dt|s|s|n|n|k'|a b|l|l|l]; cbn [skey_ok] in Hk; cbn [r_skey].
  - rewrite search_tok by (try reflexivity; exact Hr). reflexivity.
  - destruct (sysflag_key f) as [name|] eqn:E.
    + destruct (sysflag_cases f name E) as [[-> ->]|[[-> ->]|[[-> ->]|[[-> ->]|[[-> ->]|[-> ->]]]]]];
        (rewrite search_tok by (try reflexivity; exact Hr)); reflexivity.
    + napp. rewrite search_tok by reflexivity. look_tok.
      psp. pstep ltac:(apply p_atom_app; assumption). reflexivity.
  - apply andb_true_iff in Hk; destruct Hk as [Hh Hs].
    destruct (if c_opt ch 59 then hdr_key h else None) as [name|] eqn:E.
    + destruct (c_opt ch 59); [|discriminate].
      destruct (hdr_key_cases h name E) as [[-> ->]|[[-> ->]|[[-> ->]|[[-> ->]|[-> ->]]]]];
        napp; rewrite search_tok by reflexivity; look_tok;
        psp; pstep ltac:(apply p_lower_astring_app; [exact Hs|exact Hr]); reflexivity.
    + napp. rewrite search_tok by reflexivity. look_tok.
      psp. pstep ltac:(apply p_lower_astring_app; [exact Hh|reflexivity]). psp.
      pstep ltac:(apply p_lower_astring_app; [exact Hs|exact Hr]). reflexivity.
  - destruct w; cbn [sdate_name]; napp; rewrite search_tok by reflexivity; look_tok;
      psp; pstep ltac:(apply p_date_app; exact Hk); reflexivity.
  - napp. rewrite search_tok by reflexivity. look_tok.
    psp. pstep ltac:(apply p_lower_astring_app; [exact Hk|exact Hr]). reflexivity.
  - napp. rewrite search_tok by reflexivity. look_tok.
    psp. pstep ltac:(apply p_lower_astring_app; [exact Hk|exact Hr]). reflexivity.
  - napp. rewrite search_tok by reflexivity. look_tok.
    psp. pstep ltac:(apply p_number_app; [exact Hk|apply stops_ends_digit; exact Hr]). reflexivity.
  - napp. rewrite search_tok by reflexivity. look_tok.
    psp. pstep ltac:(apply p_number_app; [exact Hk|apply stops_ends_digit; exact Hr]). reflexivity.
  - (* KNot *)
    destruct (if c_opt ch 59 then not_alt ch k' else None) as [txt|] eqn:E.
    + destruct (c_opt ch 59); [|discriminate]. unfold not_alt in E. destruct k' as [|f| | | | | | | | | | |]; try discriminate.
      destruct (unflag_key f) as [name|] eqn:Eu.
      * replace txt with (kw ch 50 name) by congruence.
        destruct (unflag_key_cases f name Eu) as [[-> ->]|[[-> ->]|[[-> ->]|[[-> ->]|[[-> ->]|[-> ->]]]]]];
          (rewrite search_tok by (try reflexivity; exact Hr)); reflexivity.
      * destruct (is_atom f) eqn:A; [|discriminate]. replace txt with (kw ch 50 "unkeyword" ++ 32 :: f) by congruence.
        napp. rewrite search_tok by reflexivity. look_tok.
        psp. pstep ltac:(apply p_atom_app; assumption). reflexivity.
    + destruct Hk as [Hk|Hk].
      * apply andb_true_iff in Hk. destruct Hk as [Ha Hb]. rewrite Ha in E.
        destruct (not_alt_ok_some ch k' Hb) as [txt Et]. congruence.
      * napp. rewrite search_tok by reflexivity. look_tok.
        psp. pstep ltac:(apply Hn; assumption). reflexivity.
  - destruct Hk as [Ha Hb]. napp. rewrite search_tok by reflexivity. look_tok.
    psp. pstep ltac:(apply Hn; [exact Ha|reflexivity]). psp. pstep ltac:(apply Hn; assumption). reflexivity.
  - (* KAnd *)
    destruct (c_opt ch 59 && is_new l) eqn:En.
    + apply andb_true_iff in En. destruct En as [_ En]. apply is_new_eq in En. subst l.
      rewrite search_tok by (try reflexivity; exact Hr). reflexivity.
    + destruct Hk as [Hk|Hk]; [discriminate Hk|].
      rewrite go_sep_by. unfold search_key_body.
      change (peek_lit [40] ((40 :: sep_by (r_skey ch) l ++ [41]) ++ r)) with true. cbv iota.
      change (40 :: sep_by (r_skey ch) l ++ [41]) with (r_paren (r_skey ch) l).
      destruct Hk as [->|[[x [y [l' ->]]] [Hall Hhead]]]; [reflexivity|].
      rewrite p_paren_list_of_app; [reflexivity|intros _; exact Hhead|].
      apply Forall_forall. intros k Hin r0 Hr0. apply Hn; [|exact Hr0]. rewrite Forall_forall in Hall. apply Hall. exact Hin.
  - unfold search_key_body. unfold peek_lit.
    rewrite (peek1_none set_head 40) by (try lia; try reflexivity; apply r_set_head; exact Hk).
    rewrite set_head_not_alpha by (apply r_set_head; exact Hk).
    unfold pmap. pstep ltac:(apply p_msg_set_app; assumption). reflexivity.
  - napp. rewrite search_tok by reflexivity. look_tok.
    psp. pstep ltac:(apply p_msg_set_app; assumption). reflexivity.
Qed.

Lemma skey_app ch : forall d k r, skey_ok (c_opt ch 59) d k = true -> stops r = true ->
  p_search_key d (r_skey ch k ++ r) = ROk k r.
Proof.
  induction d as [|d IH]; intros k r Hk Hr; rewrite p_search_key_unfold.
  - apply (skb_app ch pfail (fun _ => False)); [intros ? ? []|exact Hr|].
    destruct k as [|f|h s|w dt|s|s|n|n|k'|a b|l|l|l]; cbn [skey_ok] in Hk; try discriminate Hk; try exact Hk.
    + destruct (c_opt ch 59 && not_alt_ok k'); [left; reflexivity|discriminate Hk].
    + destruct (c_opt ch 59 && is_new l); [left; reflexivity|].
      destruct l as [|x [|y l]]; try discriminate Hk. right. left. reflexivity.
  - apply (skb_app ch (p_search_key d) (fun k => skey_ok (c_opt ch 59) d k = true)); [intros; apply IH; assumption|exact Hr|].
    destruct k as [|f|h s|w dt|s|s|n|n|k'|a b|l|l|l]; cbn [skey_ok] in Hk; try exact Hk.
    + destruct (c_opt ch 59 && not_alt_ok k'); [left; reflexivity|right; exact Hk].
    + apply andb_true_iff in Hk. exact Hk.
    + destruct (c_opt ch 59 && is_new l); [left; reflexivity|right].
      destruct l as [|x [|y l]]; try discriminate Hk; [left; reflexivity|right].
      split; [eauto|]. split; [apply Forall_forall; rewrite forallb_forall in Hk; exact Hk|].
      rewrite sep_by_cons2. apply head_ok_app. cbn [forallb] in Hk. apply andb_true_iff in Hk.
      destruct Hk as [Hx _]. eapply skey_head_ok. exact Hx.
Qed.

(* what is well-formed for every spelling is well-formed for the one-token spellings *)
Lemma skey_ok_alt b : forall d k, skey_ok false d k = true -> skey_ok b d k = true.
Proof.
  induction d as [|d IH]; intros k Hk;
    (destruct k as [|f|h s|w dt|s|s|n|n|k'|a c|l|l|l]; cbn [skey_ok andb] in *; try exact Hk; try discriminate Hk).
  - destruct (b && is_new l); [reflexivity|exact Hk].
  - destruct (b && not_alt_ok k'); [reflexivity|apply IH; exact Hk].
  - apply andb_true_iff in Hk. destruct Hk as [H1 H2]. rewrite (IH _ H1), (IH _ H2). reflexivity.
  - destruct (b && is_new l); [reflexivity|]. destruct l as [|x [|y l]]; try exact Hk.
    rewrite forallb_forall in *. intros z Hz. apply IH. apply Hk. exact Hz.
Qed.

(* ------------------------------------------------------------------ LIST-EXTENDED options *)
Lemma p_atom_kw ch site name r :
  forallb atom_char (bs name) = true -> bs name <> [] -> stops r = true ->
  p_atom (kw ch site name ++ r) = ROk (kw ch site name) r.
Proof.
  intros H1 H2 Hr. unfold p_atom. apply kw_token; [apply upper_atom|exact H1|exact H2|].
  apply stops_ends; [apply stop_not_atom|exact Hr].
Qed.

Definition sel_name (t : seltok) : string :=
  match t with
  | SelSubscribed => "subscribed" | SelRemote => "remote" | SelRecursive => "recursivematch" | SelSpecial => "special-use"
  end%string.
Definition sel_items (o : sel_opts) : list seltok :=
  (if so_subscribed o then [SelSubscribed] else []) ++ (if so_remote o then [SelRemote] else [])
  ++ (if so_recursive o then [SelRecursive] else []) ++ (if so_special o then [SelSpecial] else []).

Lemma p_sel_item_app ch t r : stops r = true -> p_sel_item (kw ch 20 (sel_name t) ++ r) = ROk t r.
Proof.
  intros Hr. unfold p_sel_item.
  pstep ltac:(destruct t; apply p_atom_kw; try reflexivity; try discriminate; exact Hr).
  destruct t; (rewrite kw_lower by reflexivity); reflexivity.
Qed.

Lemma r_sel_opts_items ch o :
  r_sel_opts ch o = match sel_items o with
                    | [] => []
                    | l => r_paren (fun t => kw ch 20 (sel_name t)) l ++ [32]
                    end.
Proof. destruct o as [[] [] [] []]; reflexivity. Qed.
Lemma sel_items_fold o : fold_left sel_add (sel_items o) sel_none = o.
Proof. destruct o as [[] [] [] []]; reflexivity. Qed.

(* the optional selection options and the SP after them *)
Lemma p_sel_part ch o X : sel_ok o = true -> head_in astr_head X ->
  p_list_sel (r_sel_opts ch o ++ X) = ROk o X.
Proof.
  intros Hok HX. rewrite r_sel_opts_items. unfold p_list_sel.
  destruct (sel_items o) as [|t items] eqn:E.
  - cbn [app]. unfold peek_lit. rewrite <- (app_nil_r X). rewrite (peek1_none astr_head 40); [|lia|reflexivity|exact HX].
    rewrite app_nil_r. rewrite <- (sel_items_fold o), E. reflexivity.
  - assert (Hpk : peek_lit [40] ((r_paren (fun t0 => kw ch 20 (sel_name t0)) (t :: items) ++ [32]) ++ X) = true) by reflexivity.
    rewrite Hpk. rewrite <- app_assoc.
    assert (Hsel : p_select_options (r_paren (fun t0 => kw ch 20 (sel_name t0)) (t :: items) ++ [32] ++ X) = ROk o ([32] ++ X)).
    { unfold p_select_options.
      pstep ltac:(apply p_paren_list_of_app;
                  [intros _; apply (sep_by_head _ head_ok); [discriminate|intros x s _; apply head_ok_app|
                                                             intros x _; destruct x; apply kw_head_ok; reflexivity]
                  |apply Forall_forall; intros x _ r0 Hr0; apply p_sel_item_app; exact Hr0]).
      rewrite <- E, sel_items_fold.
      replace (so_recursive o && negb (so_subscribed o || so_special o)) with false
        by (unfold sel_ok in Hok; destruct (so_recursive o), (so_subscribed o), (so_special o); cbn in *; congruence).
      reflexivity. }
    pstep ltac:(exact Hsel). cbn [app]. psp. reflexivity.
Qed.

(* return options *)
Definition r_retitem (ch : choices) (i : retitem) : list Z :=
  match i with
  | RtOpt RetSubscribed => kw ch 21 "subscribed"
  | RtOpt RetChildren => kw ch 21 "children"
  | RtOpt RetSpecial => kw ch 21 "special-use"
  | RtStatus st => kw ch 21 "status" ++ 32 :: r_paren (r_status_att ch 22) st
  end.
Definition ret_items (o : ret_opts) (st : list status_att) : list retitem :=
  (if ro_subscribed o then [RtOpt RetSubscribed] else []) ++ (if ro_children o then [RtOpt RetChildren] else [])
  ++ (if ro_status o then [RtStatus st] else []) ++ (if ro_special o then [RtOpt RetSpecial] else []).

Lemma p_ret_item_app ch i r : (match i with RtStatus [] => False | _ => True end) -> stops r = true ->
  p_ret_item (r_retitem ch i ++ r) = ROk i r.
Proof.
  intros Hi Hr. unfold p_ret_item. destruct i as [t|st]; cbn [r_retitem].
  - destruct t; cbn [r_retitem]; (pstep ltac:(apply p_atom_kw; try reflexivity; try discriminate; exact Hr));
      (rewrite kw_lower by reflexivity); reflexivity.
  - napp. pstep ltac:(apply p_atom_kw; try reflexivity; discriminate).
    rewrite kw_lower by reflexivity. change (beq (bs "status") (bs "status")) with true. cbv iota.
    psp. pstep ltac:(apply p_status_list_app). destruct st; [contradiction|reflexivity].
Qed.

Lemma r_ret_opts_items ch o st :
  r_ret_opts ch o st = match ret_items o st with
                       | [] => []
                       | l => 32 :: kw ch 23 "return" ++ 32 :: r_paren (r_retitem ch) l
                       end.
Proof. destruct o as [[] [] [] []]; reflexivity. Qed.
Lemma ret_items_fold o st : (if ro_status o then True else st = []) ->
  fold_left ret_apply (ret_items o st) (ret_none, []) = (o, st).
Proof. destruct o as [[] [] [] []]; cbn; intros H; try subst st; reflexivity. Qed.

Lemma ret_items_status o st x : (if ro_status o then st <> [] else st = []) -> In x (ret_items o st) ->
  match x with RtStatus [] => False | _ => True end.
Proof.
  intros Hst Hin. destruct x as [t|[|a l]]; try exact I.
  unfold ret_items in Hin. destruct o as [[] [] [] []]; cbn in *; intuition (try discriminate);
    match goal with H : RtStatus st = RtStatus [] |- _ => inversion H; congruence end.
Qed.

Lemma p_ret_part ch o st r : (if ro_status o then st <> [] else st = []) -> stops r = true -> try_lit sp r = None ->
  p_list_ret (r_ret_opts ch o st ++ r) = ROk (o, st) r.
Proof.
  intros Hst Hr Hsp. rewrite r_ret_opts_items. unfold p_list_ret.
  assert (Hfold : fold_left ret_apply (ret_items o st) (ret_none, []) = (o, st)).
  { apply ret_items_fold. destruct (ro_status o); [exact I|exact Hst]. }
  pose proof (ret_items_status o st) as Hno.
  destruct (ret_items o st) as [|i items] eqn:E.
  - cbn [app]. rewrite Hsp. rewrite <- Hfold. reflexivity.
  - napp. change (try_lit sp (32 :: kw ch 23 "return" ++ 32 :: r_paren (r_retitem ch) (i :: items) ++ r))
      with (Some (kw ch 23 "return" ++ 32 :: r_paren (r_retitem ch) (i :: items) ++ r)). cbv iota.
    pstep ltac:(apply p_lit_kw). psp. unfold p_return_options.
    assert (Hall : Forall (fun x => forall r0, stops r0 = true -> p_ret_item (r_retitem ch x ++ r0) = ROk x r0) (i :: items)).
    { apply Forall_forall. intros x Hin r0 Hr0. apply p_ret_item_app; [|exact Hr0]. apply Hno; assumption. }
    pstep ltac:(apply p_paren_list_of_app;
                [intros _; apply (sep_by_head _ head_ok); [discriminate|intros x s _; apply head_ok_app|
                   intros x _; destruct x as [[]|]; cbn [r_retitem]; try (apply kw_head_ok; reflexivity);
                   apply kw_app_head_ok; reflexivity]
                |exact Hall]).
    unfold pret. rewrite Hfold. reflexivity.
Qed.

(* ------------------------------------------------------------------ ID *)
Lemma beq_sym a : forall b, beq a b = beq b a.
Proof.
  induction a as [|x a IH]; intros [|y b]; cbn [beq]; try reflexivity. rewrite Z.eqb_sym, IH. reflexivity.
Qed.

Lemma dict_put_new {V} (d : list (list Z * V)) k v :
  existsb (fun e => beq k (fst e)) d = false -> dict_put d k v = d ++ [(k, v)].
Proof.
  induction d as [|[k' v'] d IH]; cbn [dict_put existsb app fst]; [reflexivity|]. intros H.
  apply orb_false_iff in H. destruct H as [H1 H2]. rewrite H1, (IH H2). reflexivity.
Qed.

Lemma dict_fold {V} (l : list (list Z * V)) : forall acc,
  keys_distinct l = true -> (forall e, In e l -> existsb (fun a => beq (fst e) (fst a)) acc = false) ->
  fold_left (fun d kv => dict_put d (fst kv) (snd kv)) l acc = acc ++ l.
Proof.
  induction l as [|[k v] l IH]; intros acc Hd Hacc; cbn [fold_left]; [rewrite app_nil_r; reflexivity|].
  cbn [keys_distinct] in Hd. apply andb_true_iff in Hd. destruct Hd as [Hk Hd]. apply negb_true_iff in Hk.
  cbn [fst snd]. rewrite dict_put_new by (apply (Hacc (k, v)); left; reflexivity).
  rewrite IH; [rewrite <- app_assoc; reflexivity|exact Hd|].
  intros e Hin. rewrite existsb_app. rewrite (Hacc e) by (right; exact Hin). cbn [existsb fst orb].
  rewrite orb_false_r. rewrite beq_sym.
  destruct (beq k (fst e)) eqn:E; [|reflexivity].
  assert (existsb (fun e0 => beq k (fst e0)) l = true) by (apply existsb_exists; exists e; split; assumption).
  congruence.
Qed.

Lemma string_head_ok form v : head_ok (r_string form v).
Proof. apply (head_in_ok astr_head); [reflexivity|apply r_string_head_in]. Qed.

Lemma try_nil_string form v r : try_lit (bs "nil") (r_string form v ++ r) = None.
Proof.
  destruct (r_string_head form v r) as [c [t [E Hc]]]. rewrite E. destruct Hc; subst c; reflexivity.
Qed.

Lemma p_id_pair_app ch p r : id_pair_ok p = true -> p_id_pair (r_id_pair ch p ++ r) = ROk p r.
Proof.
  destruct p as [k v]. unfold id_pair_ok. cbn [fst snd]. intros H. apply andb_true_iff in H. destruct H as [Hk Hv].
  unfold p_id_pair, r_id_pair. napp. pstep ltac:(apply p_string_app; exact Hk). psp.
  destruct v as [v|].
  - rewrite try_nil_string. unfold pmap. pstep ltac:(apply p_string_app; exact Hv). reflexivity.
  - rewrite try_lit_kw. reflexivity.
Qed.

Lemma p_id_app ch params r : forallb id_pair_ok params = true -> keys_distinct params = true -> stops r = true ->
  p_id (32 :: match params with
              | [] => if c_opt ch 33 then kw ch 31 "nil" else [40; 41]
              | _ => r_paren (r_id_pair ch) params
              end ++ r) = ROk (CId params) r.
Proof.
  intros Hok Hd Hr. unfold p_id. psp.
  assert (Hlist : forall l, forallb id_pair_ok l = true -> keys_distinct l = true ->
            p_id_params (r_paren (r_id_pair ch) l ++ r) = ROk (CId l) r).
  { intros l Hl Hdl. unfold p_id_params.
    change (try_lit (bs "nil") (r_paren (r_id_pair ch) l ++ r)) with (@None (list Z)).
    change (peek_lit [40] (r_paren (r_id_pair ch) l ++ r)) with true. cbv iota.
    unfold pmap. pstep ltac:(apply p_paren_list_of_app;
      [intros Hne; apply (sep_by_head _ head_ok); [exact Hne|intros x s _; apply head_ok_app|
         intros [k v] _; unfold r_id_pair; apply head_ok_app; apply string_head_ok]
      |apply Forall_forall; intros x Hin r0 _; apply p_id_pair_app; rewrite forallb_forall in Hl; apply Hl; exact Hin]).
    unfold pret. rewrite dict_fold; [reflexivity|exact Hdl|intros; reflexivity]. }
  destruct params as [|p params].
  - destruct (c_opt ch 33).
    + unfold p_id_params. rewrite try_lit_kw. reflexivity.
    + apply (Hlist []); reflexivity.
  - apply Hlist; assumption.
Qed.

(* ------------------------------------------------------------------ APPEND, STORE, SEARCH, LIST bodies *)
Definition flag_head (c : Z) : bool := atom_char c || (c =? 92).
Lemma flag_head_in f : flag_ok f = true -> head_in flag_head f.
Proof.
  unfold flag_ok. destruct f as [|c a]; [discriminate|]. cbn [head_in]. unfold flag_head.
  destruct (Z.eqb_spec c 92) as [->|Hne]; [reflexivity|]. intros H. cbn [is_atom forallb] in H.
  apply andb_true_iff in H. destruct H as [H _]. rewrite H. reflexivity.
Qed.
Lemma flag_head_ok f : flag_ok f = true -> head_ok f.
Proof. intros H. apply (head_in_ok flag_head); [reflexivity|apply flag_head_in; exact H]. Qed.

Lemma p_flag_list_app l r : forallb flag_ok l = true -> p_paren_list_of p_flag (r_flag_list l ++ r) = ROk l r.
Proof.
  intros Hl. unfold r_flag_list. apply p_paren_list_of_app.
  - intros Hne. apply (sep_by_head _ head_ok); [exact Hne|intros x s _; apply head_ok_app|].
    intros x Hin. apply flag_head_ok. rewrite forallb_forall in Hl. apply Hl. exact Hin.
  - apply Forall_forall. intros x Hin r0 Hr0. apply p_flag_app; [|exact Hr0]. rewrite forallb_forall in Hl. apply Hl. exact Hin.
Qed.

Lemma p_append_flags_app ch flags X : forallb flag_ok flags = true -> peek_lit [40] X = false ->
  p_append_flags ((match flags with [] => if c_opt ch 10 then [40; 41; 32] else [] | _ => r_flag_list flags ++ [32] end) ++ X)
  = ROk flags X.
Proof.
  intros Hf HX. unfold p_append_flags. destruct flags as [|f flags].
  - destruct (c_opt ch 10); cbn [app]; [reflexivity|]. rewrite HX. reflexivity.
  - rewrite <- app_assoc.
    assert (Hpk : forall Y, peek_lit [40] (r_flag_list (f :: flags) ++ Y) = true) by reflexivity.
    rewrite Hpk. pstep ltac:(apply p_flag_list_app; exact Hf). cbn [app]. psp. reflexivity.
Qed.

Lemma p_append_date_app ch dt X : match dt with None => True | Some t => date_time_wf t = true end ->
  peek_lit [34] X = false ->
  p_append_date ((match dt with None => [] | Some t => r_date_time ch 11 t ++ [32] end) ++ X) = ROk dt X.
Proof.
  intros Hdt HX. unfold p_append_date. destruct dt as [t|].
  - assert (Hpk : forall Y, peek_lit [34] ((r_date_time ch 11 t ++ [32]) ++ Y) = true).
    { intros Y. destruct t as [[[[[[y m] d] h] mi] s] off]. reflexivity. }
    rewrite Hpk. rewrite <- app_assoc. pstep ltac:(apply p_date_time_app; exact Hdt). cbn [app]. psp. reflexivity.
  - cbn [app]. rewrite HX. reflexivity.
Qed.

Lemma p_append_app ch b mbox flags dt msg r :
  cmd_okb b (CAppend mbox flags dt msg) = true ->
  p_append (32 :: r_mailbox ch 4 mbox ++ 32 ::
            (match flags with [] => if c_opt ch 10 then [40; 41; 32] else [] | _ => r_flag_list flags ++ [32] end)
            ++ (match dt with None => [] | Some t => r_date_time ch 11 t ++ [32] end)
            ++ r_literal (c_opt ch 12) msg ++ r) = ROk (CAppend mbox flags dt msg) r.
Proof.
  cbn [cmd_okb]. intros H. apply andb_true_iff in H; destruct H as [H Hmsg]. apply andb_true_iff in H; destruct H as [H Hdt].
  apply andb_true_iff in H; destruct H as [Hm Hf].
  unfold p_append. psp. pstep ltac:(apply p_mailbox_app; [exact Hm|reflexivity]). psp.
  pstep ltac:(apply p_append_flags_app; [exact Hf|]; destruct dt as [[[[[[[y m] d] h] mi] s] off]|]; reflexivity).
  pstep ltac:(apply p_append_date_app; [destruct dt; [exact Hdt|exact I]|reflexivity]).
  pstep ltac:(apply p_string_literal; exact Hmsg). reflexivity.
Qed.

Lemma p_store_action_app ch act X :
  p_store_action ((match act with SReplace => [] | SAdd => [43] | SRemove => [45] end) ++ kw ch 16 "flags" ++ X)
  = ROk act (kw ch 16 "flags" ++ X).
Proof.
  destruct act; [|reflexivity|reflexivity].
  unfold kw. bsc. cbn [kw_case_from app]. destruct (c_kw ch 16 0%nat); reflexivity.
Qed.
Lemma p_store_silent_app ch (silent : bool) X :
  p_store_silent ((if silent then kw ch 17 ".silent" else []) ++ 32 :: X) = ROk silent (32 :: X).
Proof. unfold p_store_silent. destruct silent; [rewrite try_lit_kw; reflexivity|reflexivity]. Qed.

Lemma p_store_flags_app ch flags r : forallb flag_ok flags = true -> stops r = true -> try_lit sp r = None ->
  p_store_flags ((match flags with
                  | [] => r_flag_list flags
                  | _ => if c_opt ch 18 then sep_by (fun f => f) flags else r_flag_list flags
                  end) ++ r) = ROk flags r.
Proof.
  intros Hf Hr Hsp.
  assert (Hparen : p_store_flags (r_flag_list flags ++ r) = ROk flags r).
  { unfold p_store_flags. change (peek_lit [40] (r_flag_list flags ++ r)) with true. cbv iota.
    apply p_flag_list_app. exact Hf. }
  destruct flags as [|f flags]; [exact Hparen|]. destruct (c_opt ch 18); [|exact Hparen].
  unfold p_store_flags.
  replace (peek_lit [40] (sep_by (fun f0 => f0) (f :: flags) ++ r)) with false.
  - apply p_list_of_app; [discriminate| |exact Hr|exact Hsp].
    apply Forall_forall. intros x Hin r0 Hr0. apply p_flag_app; [|exact Hr0].
    rewrite forallb_forall in Hf. apply Hf. exact Hin.
  - symmetry. unfold peek_lit. rewrite (peek1_none flag_head 40); [reflexivity|lia|reflexivity|].
    apply (sep_by_head _ (head_in flag_head)); [discriminate|intros x s _; apply head_in_app|].
    intros x Hin. apply flag_head_in. rewrite forallb_forall in Hf. apply Hf. exact Hin.
Qed.

Lemma p_store_app ch b uid set act silent flags r :
  cmd_okb b (CStore uid set act silent flags) = true -> stops r = true -> try_lit sp r = None ->
  p_store uid (32 :: r_set set ++ 32 :: (match act with SReplace => [] | SAdd => [43] | SRemove => [45] end)
               ++ kw ch 16 "flags" ++ (if silent then kw ch 17 ".silent" else []) ++ 32 ::
               (match flags with
                | [] => r_flag_list flags
                | _ => if c_opt ch 18 then sep_by (fun f => f) flags else r_flag_list flags
                end) ++ r) = ROk (CStore uid set act silent flags) r.
Proof.
  cbn [cmd_okb]. intros H Hr Hsp. apply andb_true_iff in H; destruct H as [Hs Hf].
  unfold p_store. psp. pstep ltac:(apply p_msg_set_app; [exact Hs|reflexivity]). psp.
  pstep ltac:(apply p_store_action_app). pstep ltac:(apply p_lit_kw). pstep ltac:(apply p_store_silent_app). psp.
  pstep ltac:(apply p_store_flags_app; assumption). reflexivity.
Qed.

Lemma p_search_app ch uid charset keys r :
  cmd_okb (c_opt ch 59) (CSearch uid charset keys) = true -> stops r = true -> try_lit sp r = None ->
  p_search uid (32 :: (if beq charset (bs "us-ascii") && negb (c_opt ch 13) then []
                       else kw ch 14 "charset" ++ 32 :: r_astring (c_str ch 15 charset) charset ++ [32])
                ++ sep_by (r_skey ch) keys ++ r) = ROk (CSearch uid charset keys) r.
Proof.
  cbn [cmd_okb]. intros H Hr Hsp. apply andb_true_iff in H; destruct H as [Hc Hk0].
  destruct keys as [|k keys]; [discriminate|].
  assert (Hk : forallb (skey_ok (c_opt ch 59) 32) (k :: keys) = true) by exact Hk0.
  unfold p_search. psp.
  assert (Hcs : p_search_charset ((if beq charset (bs "us-ascii") && negb (c_opt ch 13) then []
                       else kw ch 14 "charset" ++ 32 :: r_astring (c_str ch 15 charset) charset ++ [32])
                ++ sep_by (r_skey ch) (k :: keys) ++ r) = ROk charset (sep_by (r_skey ch) (k :: keys) ++ r)).
  { unfold p_search_charset. destruct (beq charset (bs "us-ascii") && negb (c_opt ch 13)) eqn:E.
    - cbn [app]. apply andb_true_iff in E. destruct E as [E _]. apply beq_eq in E. subst charset.
      assert (Hx : skey_ok (c_opt ch 59) 32 k = true) by (cbn [forallb] in Hk; apply andb_true_iff in Hk; apply Hk).
      destruct keys as [|k2 keys].
      + cbn [sep_by]. rewrite (skey_not_charset ch 32 k r Hx). reflexivity.
      + rewrite sep_by_cons2, <- app_assoc. rewrite (skey_not_charset ch 32 k _ Hx). reflexivity.
    - napp. rewrite try_lit_kw. psp. pstep ltac:(apply p_lower_astring_app; [exact Hc|reflexivity]). psp. reflexivity. }
  pstep ltac:(exact Hcs).
  pstep ltac:(apply p_list_of_app; [discriminate| |exact Hr|exact Hsp];
              apply Forall_forall; intros x Hin r0 Hr0; apply skey_app; [|exact Hr0];
              rewrite forallb_forall in Hk; apply Hk; exact Hin).
  reflexivity.
Qed.

Lemma stops_ret_opts ch o st r : stops r = true -> stops (r_ret_opts ch o st ++ r) = true.
Proof. intros Hr. rewrite r_ret_opts_items. destruct (ret_items o st); [exact Hr|reflexivity]. Qed.

Definition list_head (c : Z) : bool := list_char c || (c =? 34) || (c =? 123).
Lemma pattern_head_in ch site p : head_in list_head (r_pattern ch site p).
Proof. unfold r_pattern. destruct (beq p inbox); apply list_head_in. Qed.

Lemma p_list_app ch b lsub sel ref pat pats ret st r :
  cmd_okb b (CList lsub sel ref pat pats ret st) = true -> stops r = true -> try_lit sp r = None ->
  p_list lsub (32 :: r_sel_opts ch sel ++ r_mailbox ch 4 ref ++ 32 ::
               (match pats with
                | [] => r_list_mailbox (c_str ch 6 pat) pat
                | _ => r_paren (r_pattern ch 7) pats
                end) ++ r_ret_opts ch ret st ++ r) = ROk (CList lsub sel ref pat pats ret st) r.
Proof.
  cbn [cmd_okb]. intros H Hr Hsp. apply andb_true_iff in H; destruct H as [H Hst]. apply andb_true_iff in H; destruct H as [H Hp].
  apply andb_true_iff in H; destruct H as [Hsel Href].
  unfold p_list. psp.
  pstep ltac:(apply p_sel_part; [exact Hsel|apply head_in_app; apply r_mailbox_head_in]).
  pstep ltac:(apply p_mailbox_app; [exact Href|reflexivity]). psp.
  assert (Hpp : p_list_pats ((match pats with
                | [] => r_list_mailbox (c_str ch 6 pat) pat
                | _ => r_paren (r_pattern ch 7) pats
                end) ++ r_ret_opts ch ret st ++ r) = ROk (pat, pats) (r_ret_opts ch ret st ++ r)).
  { unfold p_list_pats. destruct pats as [|p pats].
    - unfold peek_lit. rewrite (peek1_none list_head 40); [|lia|reflexivity|apply list_head_in].
      unfold pmap. pstep ltac:(apply p_list_mailbox_app; [exact Hp|apply stops_ret_opts; exact Hr]). reflexivity.
    - apply andb_true_iff in Hp. destruct Hp as [Hpat Hps]. apply beq_eq in Hpat. subst pat.
      assert (Hpk : forall Y, peek_lit [40] (r_paren (r_pattern ch 7) (p :: pats) ++ Y) = true) by reflexivity.
      rewrite Hpk. unfold pmap.
      pstep ltac:(apply p_paren_list_of_app;
        [intros _; apply (sep_by_head _ head_ok); [discriminate|intros x s _; apply head_ok_app|
           intros x _; apply (head_in_ok list_head); [reflexivity|apply pattern_head_in]]
        |apply Forall_forall; intros x Hin r0 Hr0; apply p_pattern_app; [|exact Hr0];
         rewrite forallb_forall in Hps; apply Hps; exact Hin]).
      reflexivity. }
  pstep ltac:(exact Hpp).
  pstep ltac:(apply p_ret_part; [|exact Hr|exact Hsp]; destruct (ro_status ret); destruct st; try discriminate; congruence).
  reflexivity.
Qed.

(* ------------------------------------------------------------------ commands *)
Definition cmd_tail (tag : list Z) : parser ast :=
  c <- p_atom ;;
  match lookup cmd_toks (lower_s c) with
  | None => pfail
  | Some t => body <- p_command t ;; pret (mkAst tag body)
  end.

Lemma parse_core_tail tag X : tag_ok tag = true -> parse_core (tag ++ 32 :: X) = cmd_tail tag X.
Proof.
  intros Ht. unfold parse_core, tag_ok in *. destruct tag as [|c tag]; [discriminate|].
  pstep ltac:(apply p_many1_app; [discriminate|exact Ht|reflexivity]). psp. reflexivity.
Qed.

(* the command keyword, with the UID prefix when there is one *)
Lemma cmd_kw ch tag (uid : bool) name t X :
  forallb atom_char (bs name) = true -> bs name <> [] -> lower_s (bs name) = bs name ->
  lookup cmd_toks (bs name) = Some t -> p_command t = p_command_body false t ->
  (uid = true -> is_uid_command t = true) -> stops X = true ->
  cmd_tail tag (r_uid ch uid ++ kw ch 0 name ++ X) = (body <- p_command_body uid t ;; pret (mkAst tag body)) X.
Proof.
  intros H1 H2 H3 H4 H5 H6 HX. unfold cmd_tail, r_uid. destruct uid.
  - napp. pstep ltac:(apply p_atom_kw; try reflexivity; discriminate).
    rewrite kw_lower by reflexivity. change (lookup cmd_toks (bs "uid")) with (Some TUid). cbv iota.
    assert (E : p_command TUid (32 :: kw ch 0 name ++ X) = p_command_body true t X).
    { cbn [p_command]. psp. pstep ltac:(apply p_atom_kw; [exact H1|exact H2|exact HX]).
      rewrite kw_lower by exact H3. rewrite H4, (H6 eq_refl). reflexivity. }
    unfold pbind at 1. rewrite E. reflexivity.
  - cbn [app]. pstep ltac:(apply p_atom_kw; [exact H1|exact H2|exact HX]).
    rewrite kw_lower by exact H3. rewrite H4, H5. reflexivity.
Qed.

(* ------------------------------------------------------------------ completeness *)
Ltac kwcmd :=
  erewrite cmd_kw; [|reflexivity|discriminate|reflexivity|vm_compute; reflexivity|reflexivity|(intros _; reflexivity) || (let Hq := fresh in intros Hq; discriminate Hq)|].

Theorem parse_render_gen ch tag c r :
  tag_ok tag = true -> cmd_okb (c_opt ch 59) c = true -> stops r = true -> try_lit sp r = None ->
  parse_core (tag ++ 32 :: r_cmd ch c ++ r) = ROk (mkAst tag c) r.
Proof.
  intros Ht Hc Hr Hsp. rewrite parse_core_tail by exact Ht.
  destruct c as [n| |set|mech|u p|m mbox|a b|lsub sel ref pat pats ret st|mbox atts|params|mbox flags dt msg
                 |uid charset keys|uid set atts|uid set act silent flags|uid set mbox|uid set mbox];
    cbn [r_cmd]; cbn [cmd_okb] in Hc.
  - (* no argument *)
    change (kw ch 0 (noarg_name n) ++ r) with (r_uid ch false ++ kw ch 0 (noarg_name n) ++ r).
    destruct n; cbn [noarg_name]; (kwcmd; [reflexivity|exact Hr]).
  - change (kw ch 0 "expunge" ++ r) with (r_uid ch false ++ kw ch 0 "expunge" ++ r).
    kwcmd; [reflexivity|exact Hr].
  - napp. kwcmd; [|reflexivity]. cbn [p_command_body].
    pstep ltac:(idtac; psp; pstep ltac:(apply p_msg_set_app; assumption); reflexivity). reflexivity.
  - napp. change (kw ch 0 "authenticate" ++ 32 :: mech ++ r) with (r_uid ch false ++ kw ch 0 "authenticate" ++ 32 :: mech ++ r).
    kwcmd; [|reflexivity]. cbn [p_command_body].
    pstep ltac:(idtac; psp; pstep ltac:(apply p_atom_app; assumption); reflexivity). reflexivity.
  - apply andb_true_iff in Hc. destruct Hc as [Hu Hp]. napp.
    change (kw ch 0 "login" ++ ?x) with (r_uid ch false ++ kw ch 0 "login" ++ x).
    kwcmd; [|reflexivity]. cbn [p_command_body].
    pstep ltac:(idtac; psp; pstep ltac:(apply p_astring_app; [exact Hu|reflexivity]); psp;
                pstep ltac:(apply p_astring_app; assumption); reflexivity). reflexivity.
  - napp. change (kw ch 0 (mboxcmd_name m) ++ ?x) with (r_uid ch false ++ kw ch 0 (mboxcmd_name m) ++ x).
    destruct m; cbn [mboxcmd_name]; (kwcmd; [|reflexivity]); cbn [p_command_body];
      (pstep ltac:(idtac; psp; pstep ltac:(apply p_mailbox_app; assumption); reflexivity)); reflexivity.
  - apply andb_true_iff in Hc. destruct Hc as [Ha Hb]. napp.
    change (kw ch 0 "rename" ++ ?x) with (r_uid ch false ++ kw ch 0 "rename" ++ x).
    kwcmd; [|reflexivity]. cbn [p_command_body].
    pstep ltac:(idtac; psp; pstep ltac:(apply p_mailbox_app; [exact Ha|reflexivity]); psp;
                pstep ltac:(apply p_mailbox_app; assumption); reflexivity). reflexivity.
  - napp. change (kw ch 0 (if lsub then "lsub" else "list")%string ++ ?x)
      with (r_uid ch false ++ kw ch 0 (if lsub then "lsub" else "list")%string ++ x).
    destruct lsub; (kwcmd; [|reflexivity]); cbn [p_command_body];
      (pstep ltac:(apply (p_list_app ch (c_opt ch 59)); assumption)); reflexivity.
  - napp. change (kw ch 0 "status" ++ ?x) with (r_uid ch false ++ kw ch 0 "status" ++ x).
    kwcmd; [|reflexivity]. cbn [p_command_body].
    pstep ltac:(idtac; psp; pstep ltac:(apply p_mailbox_app; [exact Hc|reflexivity]); psp;
                pstep ltac:(apply p_status_list_app); reflexivity). reflexivity.
  - apply andb_true_iff in Hc. destruct Hc as [Hp Hd]. napp.
    change (kw ch 0 "id" ++ ?x) with (r_uid ch false ++ kw ch 0 "id" ++ x).
    kwcmd; [|reflexivity]. cbn [p_command_body].
    pstep ltac:(apply p_id_app; assumption). reflexivity.
  - napp. change (kw ch 0 "append" ++ ?x) with (r_uid ch false ++ kw ch 0 "append" ++ x).
    kwcmd; [|reflexivity]. cbn [p_command_body].
    pstep ltac:(apply (p_append_app ch (c_opt ch 59)); exact Hc). reflexivity.
  - napp. kwcmd; [|reflexivity]. cbn [p_command_body].
    pstep ltac:(apply p_search_app; assumption). reflexivity.
  - apply andb_true_iff in Hc. destruct Hc as [Hs Ha]. napp. kwcmd; [|reflexivity]. cbn [p_command_body].
    pstep ltac:(idtac; psp; pstep ltac:(apply p_msg_set_app; [exact Hs|reflexivity]); psp;
                pstep ltac:(apply p_fetch_atts_app; assumption); reflexivity). reflexivity.
  - napp. kwcmd; [|reflexivity]. cbn [p_command_body].
    pstep ltac:(apply (p_store_app ch (c_opt ch 59)); assumption). reflexivity.
  - apply andb_true_iff in Hc. destruct Hc as [Hs Hm]. napp. kwcmd; [|reflexivity]. cbn [p_command_body].
    pstep ltac:(idtac; psp; pstep ltac:(apply p_msg_set_app; [exact Hs|reflexivity]); psp;
                pstep ltac:(apply p_mailbox_app; assumption); reflexivity). reflexivity.
  - apply andb_true_iff in Hc. destruct Hc as [Hs Hm]. napp. kwcmd; [|reflexivity]. cbn [p_command_body].
    pstep ltac:(idtac; psp; pstep ltac:(apply p_msg_set_app; [exact Hs|reflexivity]); psp;
                pstep ltac:(apply p_mailbox_app; assumption); reflexivity). reflexivity.
Qed.

Definition fin (ch : choices) : list Z := if c_opt ch 99 then [13; 10] else [].

Lemma cmd_okb_alt b c : cmd_okb false c = true -> cmd_okb b c = true.
Proof.
  destruct c; cbn [cmd_okb]; try (intros H; exact H).
  intros H. apply andb_true_iff in H. destruct H as [H1 H2]. rewrite H1. cbn [andb].
  destruct keys as [|k keys]; [exact H2|]. rewrite forallb_forall in *. intros x Hx. apply skey_ok_alt. apply H2. exact Hx.
Qed.

Theorem parse_core_render_b a ch : wfb (c_opt ch 59) a = true -> parse_core (render a ch) = ROk a (fin ch).
Proof.
  destruct a as [tag c]. unfold wfb, render. cbn [a_tag a_cmd]. intros H. apply andb_true_iff in H. destruct H as [Ht Hc].
  fold (fin ch). apply parse_render_gen; [exact Ht|exact Hc| |]; unfold fin; destruct (c_opt ch 99); reflexivity.
Qed.

Theorem parse_core_render a ch : wf a = true -> parse_core (render a ch) = ROk a (fin ch).
Proof.
  intros H. apply parse_core_render_b. unfold wf, wfb in *. apply andb_true_iff in H. destruct H as [Ht Hc].
  rewrite Ht. cbn [andb]. apply cmd_okb_alt. exact Hc.
Qed.

Theorem parse_render a ch : wf a = true -> parse (render a ch) = POk a.
Proof. intros H. unfold parse. rewrite parse_core_render by exact H. reflexivity. Qed.

Theorem parse_strict_render a ch : wf a = true -> parse_strict (render a ch) = POk a.
Proof.
  intros H. unfold parse_strict. rewrite parse_core_render by exact H. unfold fin. destruct (c_opt ch 99); reflexivity.
Qed.

Theorem parse_rest_render a ch : wf a = true -> at_end (parse_rest (render a ch)) = true.
Proof.
  intros H. unfold parse_rest. rewrite parse_core_render by exact H. unfold fin. destruct (c_opt ch 99); reflexivity.
Qed.

(* the canonical sentence of what the parser produces *)
Theorem parse_core_render_canon a : wf_canon a = true -> parse_core (render a canon) = ROk a [].
Proof. intros H. apply (parse_core_render_b a canon). exact H. Qed.
