(* Proofs/SeqSetP.v — the generated sequence_set_to_list (Gen/SeqSet.v, from
   asimap/utils.py) computes the denotation of Spec/SetSem.v. *)
From Asimap Require Import Base.Res Spec.SetSem Gen.SeqSet.
From Coq Require Import Sorting.Sorted ZifyBool.
Open Scope Z_scope.

Lemma in_denote mx s n : In n (denote mx s) <-> in_set mx s n.
Proof.
  unfold denote, in_set. rewrite in_sorted_set, in_flat_map, Exists_exists.
  split; intros [e [He Hn]]; exists e; (split; [exact He|]);
    destruct e as [|k|a b]; cbn [elt_list in_elt In] in *.
  - intuition.
  - intuition.
  - apply in_py_range in Hn; lia.
  - left; symmetry; exact Hn.
  - left; symmetry; exact Hn.
  - apply in_py_range; lia.
Qed.

Lemma denote_sorted mx s : StronglySorted Z.lt (denote mx s).
Proof. apply sorted_set_sorted. Qed.

(* one loop iteration on an in-range element appends that element's numbers *)
Lemma body_ok ss mx acc e :
  elt_ok mx e = true ->
  sequence_set_to_list_body1 ss mx false acc e = Ok (acc ++ elt_list mx e).
Proof.
  intros Hok. unfold sequence_set_to_list_body1.
  destruct e as [|k|a b]; cbn [elt_ok elt_list] in *.
  - destruct (mx =? 0) eqn:E; [lia|]. reflexivity.
  - destruct (k <? 1) eqn:E1; [lia|].
    destruct (k >? mx) eqn:E2; [lia|]. reflexivity.
  - destruct a as [|x], b as [|y]; cbn [atom_ok is_star atom_or aval orb andb negb] in *.
    + destruct (mx =? 0) eqn:E0; [lia|]. cbn [andb].
      destruct (mx <? 1) eqn:E1; [lia|]. cbn [orb].
      destruct (mx >? mx) eqn:E2; [lia|]. cbn [orb andb].
      rewrite Z.min_id, Z.max_id. reflexivity.
    + destruct (mx =? 0) eqn:E0; [lia|]. cbn [andb].
      destruct (mx <? 1) eqn:E1; [lia|]. destruct (y <? 1) eqn:E2; [lia|].
      destruct (mx >? mx) eqn:E3; [lia|]. destruct (y >? mx) eqn:E4; [lia|]. cbn [orb andb].
      destruct (mx >? y) eqn:E5.
      * replace (Z.min mx y) with y by lia. replace (Z.max mx y) with mx by lia. reflexivity.
      * replace (Z.min mx y) with mx by lia. replace (Z.max mx y) with y by lia. reflexivity.
    + destruct (mx =? 0) eqn:E0; [lia|]. cbn [andb].
      destruct (x <? 1) eqn:E1; [lia|]. destruct (mx <? 1) eqn:E2; [lia|].
      destruct (x >? mx) eqn:E3; [lia|]. destruct (mx >? mx) eqn:E4; [lia|]. cbn [orb andb].
      destruct (x >? mx) eqn:E5; [lia|].
      replace (Z.min x mx) with x by lia. replace (Z.max x mx) with mx by lia. reflexivity.
    + destruct (x <? 1) eqn:E1; [lia|]. destruct (y <? 1) eqn:E2; [lia|].
      destruct (x >? mx) eqn:E3; [lia|]. destruct (y >? mx) eqn:E4; [lia|]. cbn [orb andb].
      destruct (x >? y) eqn:E5.
      * replace (Z.min x y) with y by lia. replace (Z.max x y) with x by lia. reflexivity.
      * replace (Z.min x y) with x by lia. replace (Z.max x y) with y by lia. reflexivity.
Qed.

(* ... and on an out-of-range element it raises Bad: no other message is ever substituted *)
Lemma body_bad ss mx acc e :
  0 <= mx -> elt_ok mx e = false ->
  sequence_set_to_list_body1 ss mx false acc e = Err EBad.
Proof.
  intros Hmx Hbad. unfold sequence_set_to_list_body1.
  destruct e as [|k|a b]; cbn [elt_ok] in *.
  - destruct (mx =? 0) eqn:E; [reflexivity|lia].
  - destruct (k <? 1) eqn:E1; [reflexivity|].
    destruct (k >? mx) eqn:E2; [reflexivity|lia].
  - destruct a as [|x], b as [|y]; cbn [atom_ok is_star atom_or orb andb negb] in *.
    + destruct (mx =? 0) eqn:E0; [reflexivity|lia].
    + destruct (mx =? 0) eqn:E0; [reflexivity|]. cbn [andb].
      destruct (mx <? 1) eqn:E1; [lia|]. destruct (y <? 1) eqn:E2; [reflexivity|].
      destruct (mx >? mx) eqn:E3; [lia|]. destruct (y >? mx) eqn:E4; [reflexivity|lia].
    + destruct (mx =? 0) eqn:E0; [reflexivity|]. cbn [andb].
      destruct (x <? 1) eqn:E1; [reflexivity|]. destruct (mx <? 1) eqn:E2; [lia|].
      destruct (x >? mx) eqn:E3; [reflexivity|lia].
    + destruct (x <? 1) eqn:E1; [reflexivity|]. destruct (y <? 1) eqn:E2; [reflexivity|].
      destruct (x >? mx) eqn:E3; [reflexivity|]. destruct (y >? mx) eqn:E4; [reflexivity|lia].
Qed.

(* UID form: numbers above the maximum are allowed, "*" is the maximum *)
Lemma body_uid ss mx acc e :
  elt_pos e = true ->
  sequence_set_to_list_body1 ss mx true acc e = Ok (acc ++ elt_list mx e).
Proof.
  intros Hok. unfold sequence_set_to_list_body1.
  destruct e as [|k|a b]; cbn [elt_pos elt_list] in *.
  - rewrite andb_false_r. reflexivity.
  - destruct (k <? 1) eqn:E1; [lia|]. rewrite andb_false_r. reflexivity.
  - rewrite !andb_false_r.
    destruct (atom_or a mx >? atom_or b mx) eqn:E5;
      destruct a as [|x], b as [|y]; cbn [atom_or aval] in *.
    all: try (replace (Z.min _ _) with mx by lia); try (replace (Z.max _ _) with mx by lia).
    all: try reflexivity.
    all: try (replace (Z.min mx y) with y by lia; replace (Z.max mx y) with mx by lia; reflexivity).
    all: try (replace (Z.min x mx) with mx by lia; replace (Z.max x mx) with x by lia; reflexivity).
    all: try (replace (Z.min x y) with y by lia; replace (Z.max x y) with x by lia; reflexivity).
    all: try (replace (Z.min mx y) with mx by lia; replace (Z.max mx y) with y by lia; reflexivity).
    all: try (replace (Z.min x mx) with x by lia; replace (Z.max x mx) with mx by lia; reflexivity).
    all: try (replace (Z.min x y) with x by lia; replace (Z.max x y) with y by lia; reflexivity).
Qed.

Lemma loop_ok (body : list Z -> sset_elt -> res (list Z)) (f : sset_elt -> list Z) (P : sset_elt -> bool) :
  (forall acc e, P e = true -> body acc e = Ok (acc ++ f e)) ->
  forall s acc, forallb P s = true -> for_each body acc s = Ok (acc ++ flat_map f s).
Proof.
  intros Hb s; induction s as [|e s IH]; intros acc Hall; cbn [for_each flat_map forallb] in *.
  - rewrite app_nil_r; reflexivity.
  - apply andb_prop in Hall; destruct Hall as [He Hs].
    rewrite (Hb acc e He), (IH _ Hs), app_assoc; reflexivity.
Qed.

Lemma loop_bad (body : list Z -> sset_elt -> res (list Z)) (f : sset_elt -> list Z) (P : sset_elt -> bool) :
  (forall acc e, P e = true -> body acc e = Ok (acc ++ f e)) ->
  (forall acc e, P e = false -> body acc e = Err EBad) ->
  forall s acc, forallb P s = false -> for_each body acc s = Err EBad.
Proof.
  intros Hok Hbad s; induction s as [|e s IH]; intros acc Hall; cbn [for_each forallb] in *.
  - discriminate Hall.
  - destruct (P e) eqn:He.
    + rewrite (Hok acc e He). apply IH. exact Hall.
    + rewrite (Hbad acc e He). reflexivity.
Qed.

(* The three statements of C15 about the translated function. *)
Lemma seqset_nonuid_denotes s mx :
  forallb (elt_ok mx) s = true -> sequence_set_to_list s mx false = Ok (denote mx s).
Proof.
  intros Hall. unfold sequence_set_to_list.
  rewrite (loop_ok _ (elt_list mx) (elt_ok mx) (fun acc e => body_ok s mx acc e) s [] Hall).
  reflexivity.
Qed.

Lemma seqset_nonuid_rejects s mx :
  0 <= mx -> forallb (elt_ok mx) s = false -> sequence_set_to_list s mx false = Err EBad.
Proof.
  intros Hmx Hall. unfold sequence_set_to_list.
  rewrite (loop_bad _ (elt_list mx) (elt_ok mx) (fun acc e => body_ok s mx acc e)
             (fun acc e => body_bad s mx acc e Hmx) s [] Hall).
  reflexivity.
Qed.

Lemma seqset_uid_denotes s mx :
  forallb elt_pos s = true -> sequence_set_to_list s mx true = Ok (denote mx s).
Proof.
  intros Hall. unfold sequence_set_to_list.
  rewrite (loop_ok _ (elt_list mx) elt_pos (fun acc e => body_uid s mx acc e) s [] Hall).
  reflexivity.
Qed.

(* consequences that the property text names *)
Lemma range_symmetric mx a b n : in_elt mx (ERange a b) n <-> in_elt mx (ERange b a) n.
Proof. cbn [in_elt]; lia. Qed.

Lemma denote_range_symmetric mx a b pre post :
  denote mx (pre ++ ERange a b :: post) = denote mx (pre ++ ERange b a :: post).
Proof.
  apply sorted_ext; try apply denote_sorted.
  intros n; rewrite !in_denote; unfold in_set; rewrite !Exists_app, !Exists_cons.
  rewrite (range_symmetric mx a b n); reflexivity.
Qed.

Lemma star_is_last mx pre post : In mx (denote mx (pre ++ EStar :: post)).
Proof. apply in_denote; unfold in_set; rewrite Exists_app, Exists_cons; right; left; reflexivity. Qed.

Lemma n_star_includes_last mx k pre post : In mx (denote mx (pre ++ ERange (ANum k) AStar :: post)).
Proof. apply in_denote; unfold in_set; rewrite Exists_app, Exists_cons; right; left; cbn [in_elt aval]; lia. Qed.

Lemma denote_within mx s n : forallb (elt_ok mx) s = true -> In n (denote mx s) -> 1 <= n <= mx.
Proof.
  intros Hall Hin. apply in_denote in Hin. unfold in_set in Hin. apply Exists_exists in Hin.
  destruct Hin as [e [He Hn]]. rewrite forallb_forall in Hall. specialize (Hall e He).
  destruct e as [|k|a b]; cbn [elt_ok in_elt] in *; [lia|lia|].
  destruct a, b; cbn [atom_ok aval] in *; lia.
Qed.
