(* Proofs/PhasesTie.v — the atomic commands of Model/Mbox.v are the two-step commands of Model/Phases.v with no
   waiting in between: in every world satisfying the invariant, `step` sends exactly what `arrive` followed at once
   by `execute` sends.  (The resulting worlds agree too; that part is checked by computation on every generated
   history, Model/PhasesCmp.v.) *)
From Asimap Require Import Base.Res Spec.SetSem Model.Mbox Model.Phases Proofs.MboxInv Proofs.MboxStep Proofs.MboxOut.
Open Scope Z_scope.

Definition keys (b : mbox) : list Z := map fst (b_clients b).

Lemma zget_none {V} (l : list (Z * V)) s : zalist_get l s = None <-> ~ In s (map fst l).
Proof.
  induction l as [|[k v] l IH]; cbn [zalist_get map fst In]; [tauto|].
  destruct (s =? k) eqn:E.
  - apply Z.eqb_eq in E. subst. split; [discriminate|intros H; exfalso; apply H; left; reflexivity].
  - apply Z.eqb_neq in E. rewrite IH. split; intros H; [intros [H1|H1]; [congruence|tauto]|intros H1; apply H; right; exact H1].
Qed.

Lemma same_keys_none b b' s : keys b' = keys b -> (get_client b' s = None <-> get_client b s = None).
Proof. unfold get_client, keys. intros H. rewrite !zget_none, H. tauto. Qed.

Lemma keys_upd b s f : keys (upd_client b s f) = keys b.
Proof.
  unfold keys, upd_client. cbn [set_clients b_clients]. rewrite map_map. apply map_ext.
  intros [k c]. cbn [fst snd]. destruct (k =? s); reflexivity.
Qed.
Lemma keys_flush b s : keys (fst (flush b s)) = keys b.
Proof. unfold flush. destruct (get_client b s); [|reflexivity]. destruct (flush1 s c). cbn [fst]. apply keys_upd. Qed.

Lemma keys_map_out (f : Z * client -> (Z * client) * out) l :
  (forall p, fst (fst (f p)) = fst p) -> map fst (fst (map_out f l)) = map fst l.
Proof. intros H. rewrite map_out_fst, map_map. apply map_ext. exact H. Qed.
Lemma keys_announce b rs : keys (fst (announce b rs)) = keys b.
Proof.
  unfold announce, keys. destruct (map_out (announce1 rs) (b_clients b)) as [cs o] eqn:E. cbn [fst set_clients b_clients].
  replace cs with (fst (map_out (announce1 rs) (b_clients b))) by (rewrite E; reflexivity).
  apply keys_map_out. intros [k c]. unfold announce1. destruct (c_pend c); [|destruct (c_idle c)]; reflexivity.
Qed.
Lemma keys_dispatch b d rs : keys (fst (dispatch b d rs)) = keys b.
Proof.
  unfold dispatch, keys. destruct rs as [|r rs']; [reflexivity|].
  destruct (map_out (dispatch1 d (r :: rs')) (b_clients b)) as [cs o] eqn:E. cbn [fst set_clients b_clients].
  replace cs with (fst (map_out (dispatch1 d (r :: rs')) (b_clients b))) by (rewrite E; reflexivity).
  apply keys_map_out. intros [k c]. unfold dispatch1.
  destruct (match d with Some d0 => k =? d0 | None => false end); [|destruct (c_idle c)]; reflexivity.
Qed.
Lemma keys_resync b : keys (fst (resync b)) = keys b.
Proof.
  destruct (b_disk b) as [|d0 dl] eqn:E; [rewrite resync_nodisk by exact E; reflexivity|].
  unfold resync. rewrite E.
  match goal with |- context [announce ?B ?R] => destruct (announce B R) as [b2 o1] eqn:Ea end.
  match goal with |- context [dispatch ?B ?D ?R] => destruct (dispatch B D R) as [b3 o2] eqn:Ed end.
  cbn [fst].
  match type of Ed with dispatch ?B ?D ?R = _ => replace b3 with (fst (dispatch B D R)) by (rewrite Ed; reflexivity) end.
  rewrite keys_dispatch.
  match type of Ea with announce ?B ?R = _ => replace b2 with (fst (announce B R)) by (rewrite Ea; reflexivity) end.
  rewrite keys_announce. reflexivity.
Qed.

Lemma find_sel_set l n b b' s :
  alist_get l n = Some b -> keys b' = keys b -> find_sel (alist_set l n b') s = find_sel l s.
Proof.
  induction l as [|[k v] l IH]; cbn [alist_get alist_set find_sel]; [discriminate|].
  destruct (String.eqb n k) eqn:E; intros H Hk.
  - inversion H; subst v. apply String.eqb_eq in E. subst k. cbn [find_sel].
    pose proof (same_keys_none b b' s Hk) as Hn.
    destruct (get_client b' s) eqn:G1; destruct (get_client b s) eqn:G2; try reflexivity.
    + destruct Hn as [_ Hn]. specialize (Hn eq_refl). discriminate.
    + destruct Hn as [Hn _]. specialize (Hn eq_refl). discriminate.
  - cbn [find_sel]. destruct (get_client v s); [reflexivity|apply IH; assumption].
Qed.
Lemma sel_set_box w n b b' s : get_box w n = Some b -> keys b' = keys b -> sel (set_box w n b') s = sel w s.
Proof. unfold sel, set_box, get_box. cbn [w_boxes]. apply find_sel_set. Qed.

Lemma zget_upd {V} (l : list (Z * V)) s (f : V -> V) v :
  zalist_get l s = Some v -> zalist_get (map (fun p => if fst p =? s then (fst p, f (snd p)) else p) l) s = Some (f v).
Proof.
  induction l as [|[k x] l IH]; cbn [zalist_get map fst snd]; [discriminate|].
  destruct (s =? k) eqn:E.
  - intros H; inversion H; subst. rewrite Z.eqb_sym, E. cbn [zalist_get]. rewrite E. reflexivity.
  - intros H. rewrite Z.eqb_sym, E. cbn [zalist_get]. rewrite E. apply IH; exact H.
Qed.
Lemma get_upd_client b s f c : get_client b s = Some c -> get_client (upd_client b s f) s = Some (f c).
Proof. unfold get_client, upd_client. cbn [set_clients b_clients]. apply zget_upd. Qed.

(* the issuer's entry after a flush: empty queue, same mode *)
Lemma flush_issuer b s c :
  get_client b s = Some c ->
  exists c0, get_client (fst (flush b s)) s = Some c0 /\ c_pend c0 = [] /\ c_exam c0 = c_exam c /\ snd (flush b s) = tag s (c_pend c).
Proof.
  intros G. unfold flush. rewrite G. unfold flush1. cbn [fst snd].
  exists (clear_pend (deliver c (c_pend c))). split; [apply (get_upd_client b s (fun _ => clear_pend (deliver c (c_pend c))) c G)|].
  split; [reflexivity|]. split; [|reflexivity]. unfold clear_pend. cbn [c_exam].
  destruct (deliver_pend c (c_pend c)) as [_ [_ H]]. exact H.
Qed.

Lemma gate_passes b s u c : get_client b s = Some c -> pending_expunges c = false -> gate b s u true = Some (flush b s).
Proof. intros G P. unfold gate. rewrite G, P. reflexivity. Qed.

Lemma some_of_keys b b' s c : keys b' = keys b -> get_client b s = Some c -> exists c', get_client b' s = Some c'.
Proof.
  intros Hk G. destruct (get_client b' s) as [c'|] eqn:G'; [eauto|].
  apply (same_keys_none b b' s Hk) in G'. congruence.
Qed.

(* after (flush; resync) the issuer's queue holds no EXPUNGE: the gate, asked again, lets the command pass and
   sends the queue *)
Lemma second_gate_passes b s u c :
  binv b -> get_client b s = Some c ->
  let b1a := fst (resync (fst (flush b s))) in gate b1a s u true = Some (flush b1a s).
Proof.
  intros Hb G b1a.
  destruct (flush_issuer b s c G) as [c0 [G0 _]].
  destruct (some_of_keys (fst (flush b s)) b1a s c0 (keys_resync _) G0) as [c1 G1].
  apply (gate_passes _ _ _ c1 G1). unfold pending_expunges.
  apply (resync_no_expunge (fst (flush b s)) s); [|apply get_client_in; exact G1].
  apply clean_queue_no_expunge. apply flush_all_clean. exact Hb.
Qed.

Lemma first_gate_again b s u c :
  binv b -> get_client b s = Some c ->
  let b0 := fst (flush b s) in exists b0', gate b0 s u true = Some (b0', []).
Proof.
  intros Hb G b0. destruct (flush_issuer b s c G) as [c0 [G0 [P0 _]]].
  rewrite (gate_passes b0 s u c0 G0) by (unfold pending_expunges; rewrite P0; reflexivity).
  destruct (flush_issuer b0 s c0 G0) as [_ [_ [_ [_ O]]]]. rewrite P0 in O.
  destruct (flush b0 s) as [bx ox]. cbn [snd] in O. subst ox. eexists. reflexivity.
Qed.

Lemma admit_set_w w w' m b u st : admit_set w m b u st = admit_set w' m b u st.
Proof. reflexivity. Qed.

(* ---- the theorem *)
Theorem step_is_arrive_then_execute w s c :
  winv w ->
  snd (step w (to_op s c)) =
  (let '(w1, o1, go) := arrive w s c in if go then o1 ++ snd (execute w1 s c) else o1).
Proof.
  intros Hw. unfold arrive. destruct c as [u st act silent flags|u st k|u flag]; cbn [to_op p_uid]; unfold step, in_mbox;
    destruct (sel w s) as [n|] eqn:Es; try reflexivity;
    destruct (get_box w n) as [b|] eqn:Eb; try reflexivity.
  - (* STORE *)
    destruct (get_client b s) as [cl|] eqn:Ec; [|reflexivity].
    destruct (c_exam cl) eqn:Ex; [reflexivity|].
    destruct (gate b s u true) as [[b0 o0]|] eqn:G; [|reflexivity].
    pose proof (gate_true _ _ _ _ _ G) as Eb0. assert (Hb : boxinv b) by apply (Hw _ _ Eb).
    assert (Hk0 : keys b0 = keys b) by (subst b0; apply keys_flush).
    destruct (flush_issuer b s cl Ec) as [c0 [G0 [P0 [X0 _]]]]. rewrite <- Eb0 in G0.
    unfold execute, execute_gen, in_mbox.
    rewrite (sel_set_box w n b b0 s Eb Hk0), Es, get_set_box, String.eqb_refl, G0. cbv zeta. cbn [p_uid].
    rewrite (admit_set_w (set_box w n b0) w).
    destruct (admit_set w n b0 u st) as [[[b1a o1a] sl]|] eqn:A.
    + pose proof (admit_set_ok _ _ _ _ _ _ _ _ A) as E1. subst b0.
      pose proof (second_gate_passes b s u cl (proj1 Hb) Ec) as G2. cbv zeta in G2. rewrite <- E1 in G2. rewrite G2.
      destruct (flush b1a s) as [b1 o1b]. unfold store_body.
      destruct (smem "\Recent" flags || existsb reserved_kw flags); [cbn [snd]; rewrite <- !app_assoc; reflexivity|].
      match goal with |- context [dispatch ?B ?D ?R] => destruct (dispatch B D R) as [b3 o2] end.
      cbn [snd]. rewrite <- !app_assoc. reflexivity.
    + subst b0. destruct (first_gate_again b s u cl (proj1 Hb) Ec) as [b0' G1]. rewrite G1. cbn [snd app]. reflexivity.
  - (* FETCH *)
    destruct (get_client b s) as [cl|] eqn:Ec; [|reflexivity].
    destruct (gate b s u true) as [[b0 o0]|] eqn:G; [|reflexivity].
    pose proof (gate_true _ _ _ _ _ G) as Eb0. assert (Hb : boxinv b) by apply (Hw _ _ Eb).
    assert (Hk0 : keys b0 = keys b) by (subst b0; apply keys_flush).
    destruct (flush_issuer b s cl Ec) as [c0 [G0 [P0 [X0 _]]]]. rewrite <- Eb0 in G0.
    unfold execute, execute_gen, in_mbox.
    rewrite (sel_set_box w n b b0 s Eb Hk0), Es, get_set_box, String.eqb_refl, G0. cbv zeta. cbn [p_uid].
    rewrite (admit_set_w (set_box w n b0) w).
    destruct (admit_set w n b0 u st) as [[[b1a o1a] sl]|] eqn:A.
    + pose proof (admit_set_ok _ _ _ _ _ _ _ _ A) as E1. subst b0.
      pose proof (second_gate_passes b s u cl (proj1 Hb) Ec) as G2. cbv zeta in G2. rewrite <- E1 in G2. rewrite G2.
      destruct (flush b1a s) as [b1 o1b]. unfold fetch_body, fetch_items, fetch_touch, fetch_changed. rewrite X0.
      match goal with |- context [dispatch ?B ?D ?R] => destruct (dispatch B D R) as [b3 o2] end.
      destruct (flush b3 s) as [b4 o3]. cbn [snd]. rewrite <- !app_assoc. reflexivity.
    + subst b0. destruct (first_gate_again b s u cl (proj1 Hb) Ec) as [b0' G1]. rewrite G1. cbn [snd app]. reflexivity.
  - (* SEARCH *)
    destruct (get_client b s) as [cl|] eqn:Ec.
    2:{ unfold gate. rewrite Ec. reflexivity. }
    destruct (gate b s u true) as [[b0 o0]|] eqn:G; [|reflexivity].
    pose proof (gate_true _ _ _ _ _ G) as Eb0. assert (Hb : boxinv b) by apply (Hw _ _ Eb).
    assert (Hk0 : keys b0 = keys b) by (subst b0; apply keys_flush).
    destruct (flush_issuer b s cl Ec) as [c0 [G0 [P0 [X0 _]]]]. rewrite <- Eb0 in G0.
    unfold execute, execute_gen, in_mbox.
    rewrite (sel_set_box w n b b0 s Eb Hk0), Es, get_set_box, String.eqb_refl, G0. cbv zeta. cbn [p_uid].
    rewrite !admit_is_resync. destruct (resync b0) as [b1a o1a] eqn:E1.
    assert (E1' : b1a = fst (resync b0)) by (rewrite E1; reflexivity). subst b0.
    pose proof (second_gate_passes b s u cl (proj1 Hb) Ec) as G2. cbv zeta in G2. rewrite <- E1' in G2. rewrite G2.
    destruct (flush b1a s) as [b1 o1b]. unfold search_body. cbn [snd]. rewrite <- !app_assoc. reflexivity.
Qed.
