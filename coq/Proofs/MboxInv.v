(* Proofs/MboxInv.v — the FIFO / view invariant of Model/Mbox.v (property C01) and the
   UID order invariant (C02), preserved by every step, hence true in every reachable world. *)
From Asimap Require Import Base.Res Spec.SetSem Model.Mbox.
From Coq Require Import Sorting.Sorted ZifyBool.
Open Scope Z_scope.

(* ------------------------------------------------------------------ the per-client invariant *)
(* relative to the server's current UID list L: everything delivered so far was legal, replaying
   what is still queued on the client's view gives exactly L, and an idling client has no queue *)
Definition cinv (L : list Z) (c : client) : Prop :=
  c_ok c = true /\ apply_resps (c_view c) (c_pend c) = Some L /\ (c_idle c = true -> c_pend c = []).
Definition binv (b : mbox) : Prop := Forall (fun p => cinv (uids b) (snd p)) (b_clients b).

Lemma apply_resps_app v rs1 rs2 :
  apply_resps v (rs1 ++ rs2) = match apply_resps v rs1 with Some v' => apply_resps v' rs2 | None => None end.
Proof.
  revert v; induction rs1 as [|r rs1 IH]; intros v; cbn [apply_resps app]; [reflexivity|].
  destruct (apply_resp v r); [apply IH|reflexivity].
Qed.

Lemma deliver_cons c r rs : deliver c (r :: rs) = deliver (deliver1 c r) rs.
Proof. reflexivity. Qed.

Lemma deliver_ok c rs v :
  c_ok c = true -> apply_resps (c_view c) rs = Some v ->
  deliver c rs = {| c_idle := c_idle c; c_exam := c_exam c; c_pend := c_pend c; c_view := v; c_ok := true |}.
Proof.
  revert c; induction rs as [|r rs IH]; intros c Hok Ha.
  - cbn [apply_resps] in Ha. inversion Ha; subst. destruct c; cbn in *; subst; reflexivity.
  - cbn [apply_resps] in Ha. rewrite deliver_cons.
    destruct (apply_resp (c_view c) r) as [v1|] eqn:E; [|discriminate].
    assert (Hd : deliver1 c r = {| c_idle := c_idle c; c_exam := c_exam c; c_pend := c_pend c;
                                    c_view := v1; c_ok := c_ok c |}) by (unfold deliver1; rewrite E; reflexivity).
    rewrite Hd. rewrite IH; cbn; trivial.
Qed.

(* a client whose queue is empty (or that is idling) is handed rs right now *)
Lemma cinv_deliver L L' c rs :
  cinv L c -> c_pend c = [] -> apply_resps L rs = Some L' -> cinv L' (deliver c rs).
Proof.
  intros [Hok [Ha Hi]] Hp Hrs. rewrite Hp in Ha. cbn [apply_resps] in Ha. inversion Ha as [Hv].
  rewrite (deliver_ok c rs L' Hok); [|rewrite Hv; exact Hrs].
  repeat split; cbn; [rewrite Hp; reflexivity|intros _; exact Hp].
Qed.

(* a client that is not idling gets rs appended to its queue *)
Lemma cinv_pend L L' c rs :
  cinv L c -> c_idle c = false -> apply_resps L rs = Some L' -> cinv L' (pend c rs).
Proof.
  intros [Hok [Ha Hi]] Hidle Hrs. repeat split; cbn.
  - exact Hok.
  - rewrite apply_resps_app, Ha. exact Hrs.
  - rewrite Hidle. discriminate.
Qed.

Lemma cinv_flush1 L s c : cinv L c -> cinv L (fst (flush1 s c)) /\ c_pend (fst (flush1 s c)) = [] /\ c_view (fst (flush1 s c)) = L.
Proof.
  intros [Hok [Ha Hi]]. unfold flush1. cbn [fst]. rewrite (deliver_ok c _ L Hok Ha). cbn.
  repeat split; trivial.
Qed.

Lemma cinv_set_idle L c i : cinv L c -> c_pend c = [] -> cinv L (set_idle c i).
Proof. intros [Hok [Ha Hi]] Hp. repeat split; cbn; trivial. Qed.

Lemma cinv_set_idle_false L c : cinv L c -> cinv L (set_idle c false).
Proof. intros [Hok [Ha Hi]]. repeat split; cbn; trivial. discriminate. Qed.

(* ------------------------------------------------------------------ dispatch / announce over all clients *)
Lemma map_out_fst {A} (f : A -> A * out) l : fst (map_out f l) = map (fun x => fst (f x)) l.
Proof.
  induction l as [|x l IH]; [reflexivity|].
  cbn [map_out map]. destruct (f x) as [x' o]. destruct (map_out f l) as [l' o'].
  cbn [fst] in *. rewrite IH. reflexivity.
Qed.

Lemma dispatch1_cinv L L' dont rs p :
  cinv L (snd p) -> apply_resps L rs = Some L' ->
  (match dont with Some d => fst p =? d | None => false end) = false ->
  cinv L' (snd (fst (dispatch1 dont rs p))).
Proof.
  destruct p as [s c]. cbn [fst snd]. intros Hc Hrs Hd. unfold dispatch1. rewrite Hd.
  destruct (c_idle c) eqn:Hi; cbn [fst snd].
  - apply cinv_deliver with L; trivial. destruct Hc as [_ [_ H]]. apply H; exact Hi.
  - apply cinv_pend with L; trivial.
Qed.

Lemma announce1_cinv L L' rs p :
  cinv L (snd p) -> apply_resps L rs = Some L' -> cinv L' (snd (fst (announce1 rs p))).
Proof.
  destruct p as [s c]. cbn [fst snd]. intros Hc Hrs. unfold announce1.
  destruct (c_pend c) as [|r0 q] eqn:Hp.
  - cbn [fst snd]. apply cinv_deliver with L; trivial.
  - destruct (c_idle c) eqn:Hi; cbn [fst snd].
    + destruct Hc as [_ [_ H]]. rewrite (H Hi) in Hp. discriminate.
    + apply cinv_pend with L; trivial.
Qed.

Lemma uids_set_clients b cs : uids (set_clients b cs) = uids b. Proof. reflexivity. Qed.

(* dispatch (to everybody but [dont]) of notes that turn L into L'; the skipped client keeps
   its invariant only when L' = L, which is the only way [dont] is used (STORE) *)
Lemma dispatch_clients L L' b dont rs :
  Forall (fun p => cinv L (snd p)) (b_clients b) -> apply_resps L rs = Some L' ->
  (dont = None \/ L' = L) ->
  Forall (fun p => cinv L' (snd p)) (b_clients (fst (dispatch b dont rs))).
Proof.
  intros Hb Hrs Hd. unfold dispatch. destruct rs as [|r rs'].
  - cbn [fst]. cbn [apply_resps] in Hrs. inversion Hrs; subst. exact Hb.
  - destruct (map_out (dispatch1 dont (r :: rs')) (b_clients b)) as [cs o] eqn:E. cbn [fst set_clients b_clients].
    assert (cs = map (fun x => fst (dispatch1 dont (r :: rs') x)) (b_clients b)) as ->.
    { rewrite <- map_out_fst, E. reflexivity. }
    rewrite Forall_map. eapply Forall_impl; [|exact Hb]. intros p Hp.
    destruct (match dont with Some d => fst p =? d | None => false end) eqn:Hs.
    + destruct Hd as [Hd|Hd]; [subst dont; discriminate|subst L'].
      destruct p as [s c]. unfold dispatch1. cbn [fst] in Hs. rewrite Hs. exact Hp.
    + apply dispatch1_cinv with L; trivial.
Qed.

Lemma announce_clients L L' b rs :
  Forall (fun p => cinv L (snd p)) (b_clients b) -> apply_resps L rs = Some L' ->
  Forall (fun p => cinv L' (snd p)) (b_clients (fst (announce b rs))).
Proof.
  intros Hb Hrs. unfold announce.
  destruct (map_out (announce1 rs) (b_clients b)) as [cs o] eqn:E. cbn [fst set_clients b_clients].
  assert (cs = map (fun x => fst (announce1 rs x)) (b_clients b)) as ->.
  { rewrite <- map_out_fst, E. reflexivity. }
  rewrite Forall_map. eapply Forall_impl; [|exact Hb]. intros p Hp.
  apply announce1_cinv with L; trivial.
Qed.

Lemma dispatch_msgs b d rs : b_msgs (fst (dispatch b d rs)) = b_msgs b /\ b_next (fst (dispatch b d rs)) = b_next b
  /\ b_vv (fst (dispatch b d rs)) = b_vv b /\ b_disk (fst (dispatch b d rs)) = b_disk b.
Proof. unfold dispatch. destruct rs; [cbn; auto|]. destruct (map_out _ _). cbn. auto. Qed.
Lemma announce_msgs b rs : b_msgs (fst (announce b rs)) = b_msgs b /\ b_next (fst (announce b rs)) = b_next b
  /\ b_vv (fst (announce b rs)) = b_vv b /\ b_disk (fst (announce b rs)) = b_disk b.
Proof. unfold announce. destruct (map_out _ _). cbn. auto. Qed.

(* ------------------------------------------------------------------ list facts *)
Lemma zlen_app {A} (a b : list A) : zlen (a ++ b) = zlen a + zlen b.
Proof. unfold zlen. rewrite app_length. lia. Qed.
Lemma zlen_map {A B} (f : A -> B) l : zlen (map f l) = zlen l.
Proof. unfold zlen. rewrite map_length. reflexivity. Qed.
Lemma zlen_nonneg {A} (l : list A) : 0 <= zlen l. Proof. unfold zlen. lia. Qed.
Lemma zlen_cons {A} (x : A) l : zlen (x :: l) = 1 + zlen l.
Proof. unfold zlen. cbn [List.length]. lia. Qed.

Lemma zprefix_app a b : zprefix a (a ++ b) = true.
Proof. induction a as [|x a IH]; cbn [zprefix app]; [reflexivity|]. rewrite Z.eqb_refl, IH. reflexivity. Qed.

Lemma znth_map {A B} (f : A -> B) l i : znth (map f l) i = option_map f (znth l i).
Proof.
  unfold znth. destruct (i <? 0); [reflexivity|].
  revert l; induction (Z.to_nat i) as [|n IH]; intros l; destruct l; cbn; auto.
Qed.
Lemma znth_cons_pos {A} (x : A) l i : 0 < i -> znth (x :: l) i = znth l (i - 1).
Proof.
  intros H. unfold znth. destruct (i <? 0) eqn:E; [lia|]. destruct (i - 1 <? 0) eqn:E'; [lia|].
  replace (Z.to_nat i) with (S (Z.to_nat (i - 1))) by lia. reflexivity.
Qed.
Lemma znth_0 {A} (x : A) l : znth (x :: l) 0 = Some x. Proof. reflexivity. Qed.

Lemma map_remove_at {A B} (f : A -> B) i l : map f (remove_at i l) = remove_at i (map f l).
Proof. revert i; induction l as [|x l IH]; intros [|i]; cbn; auto. rewrite IH. reflexivity. Qed.
Lemma length_remove_at {A} i (l : list A) : (i < List.length l)%nat -> List.length (remove_at i l) = (List.length l - 1)%nat.
Proof.
  revert i; induction l as [|x l IH]; intros [|i] H; cbn in *; try lia.
  rewrite IH by lia. lia.
Qed.

(* ------------------------------------------------------------------ notes are valid and neutral *)
Definition valid_on (L : list Z) (r : resp) : Prop := apply_resp L r = Some L.
Lemma valid_all L rs : Forall (valid_on L) rs -> apply_resps L rs = Some L.
Proof. induction 1 as [|r rs Hr _ IH]; cbn [apply_resps]; [reflexivity|]. rewrite Hr. exact IH. Qed.

Lemma fetch_note_valid L pos m show : znth L (pos - 1) = Some (m_uid m) -> valid_on L (fetch_note pos m show).
Proof. intros H. unfold valid_on, fetch_note. cbn [apply_resp]. rewrite H, Z.eqb_refl. reflexivity. Qed.

Lemma notes_at_valid L sel show l pos :
  (forall i m, nth_error l i = Some m -> znth L (pos - 1 + Z.of_nat i) = Some (m_uid m)) ->
  Forall (valid_on L) (notes_at sel l pos show).
Proof.
  revert pos; induction l as [|m l IH]; intros pos H; cbn [notes_at]; [constructor|].
  apply Forall_app; split.
  - destruct (zmem pos sel); [|constructor]. constructor; [|constructor].
    apply fetch_note_valid. specialize (H O m eq_refl). rewrite Z.add_0_r in H. exact H.
  - apply IH. intros i m' Hi. specialize (H (S i) m' Hi).
    replace (pos + 1 - 1 + Z.of_nat i) with (pos - 1 + Z.of_nat (S i)) by lia. exact H.
Qed.

Lemma notes_from_valid L want show l pos :
  (forall i m, nth_error l i = Some m -> znth L (pos - 1 + Z.of_nat i) = Some (m_uid m)) ->
  Forall (valid_on L) (notes_from l pos want show).
Proof.
  revert pos; induction l as [|m l IH]; intros pos H; cbn [notes_from]; [constructor|].
  apply Forall_app; split.
  - destruct (want m); [|constructor]. constructor; [|constructor].
    apply fetch_note_valid. specialize (H O m eq_refl). rewrite Z.add_0_r in H. exact H.
  - apply IH. intros i m' Hi. specialize (H (S i) m' Hi).
    replace (pos + 1 - 1 + Z.of_nat i) with (pos - 1 + Z.of_nat (S i)) by lia. exact H.
Qed.

Lemma nth_uids ms i m : nth_error ms i = Some m -> znth (map m_uid ms) (1 - 1 + Z.of_nat i) = Some (m_uid m).
Proof.
  intros H. rewrite znth_map. unfold znth. destruct (1 - 1 + Z.of_nat i <? 0) eqn:E; [lia|].
  replace (Z.to_nat (1 - 1 + Z.of_nat i)) with i by lia. rewrite H. reflexivity.
Qed.

(* flags-only changes keep the UID list *)
Lemma map_at_uids f sel l pos : (forall m, m_uid (f m) = m_uid m) -> map m_uid (map_at f sel l pos) = map m_uid l.
Proof.
  intros Hf. revert pos; induction l as [|m l IH]; intros pos; cbn [map_at map]; [reflexivity|].
  rewrite IH. destruct (zmem pos sel); [rewrite Hf|]; reflexivity.
Qed.

(* ------------------------------------------------------------------ the UID order invariant (C02) *)
Definition uinv (b : mbox) : Prop :=
  StronglySorted Z.lt (uids b) /\ Forall (fun u => 0 < u < b_next b) (uids b) /\ 0 < b_next b.
Definition boxinv (b : mbox) : Prop := binv b /\ uinv b.

Lemma sorted_app (a b : list Z) :
  StronglySorted Z.lt a -> StronglySorted Z.lt b -> (forall x y, In x a -> In y b -> x < y) ->
  StronglySorted Z.lt (a ++ b).
Proof.
  induction a as [|x a IH]; intros Ha Hb H; cbn [app]; [exact Hb|].
  inversion Ha as [|? ? Ha' Hx]; subst. constructor.
  - apply IH; trivial. intros; apply H; [right|]; trivial.
  - apply Forall_app; split; [exact Hx|]. apply Forall_forall. intros y Hy. apply H; [left; reflexivity|exact Hy].
Qed.

Lemma assign_uids_spec l u :
  StronglySorted Z.lt (map m_uid (assign_uids l u)) /\
  Forall (fun x => u <= x < u + zlen l) (map m_uid (assign_uids l u)) /\
  zlen (assign_uids l u) = zlen l.
Proof.
  revert u; induction l as [|m l IH]; intros u; cbn [assign_uids map].
  - repeat split; constructor.
  - destruct (IH (u + 1)) as [Hs [Hf Hl]]. rewrite !zlen_cons, Hl. repeat split.
    + constructor; [exact Hs|]. eapply Forall_impl; [|exact Hf]. intros a Ha. cbn [m_uid]. cbv beta in Ha. lia.
    + constructor; [cbn [m_uid]; pose proof (zlen_nonneg l); lia|].
      eapply Forall_impl; [|exact Hf]. intros a Ha. cbv beta in *. lia.
Qed.

Lemma remove_at_sorted i (l : list Z) : StronglySorted Z.lt l -> StronglySorted Z.lt (remove_at i l).
Proof.
  revert i; induction l as [|x l IH]; intros [|i] H; cbn [remove_at]; trivial.
  - inversion H; trivial.
  - inversion H as [|? ? H' Hx]; subst. constructor; [apply IH; exact H'|].
    clear -Hx. revert i; induction l as [|y l IHl]; intros [|i]; cbn [remove_at]; trivial.
    + inversion Hx; trivial.
    + inversion Hx; subst. constructor; trivial. apply IHl; trivial.
Qed.
Lemma remove_at_Forall {A} (P : A -> Prop) i l : Forall P l -> Forall P (remove_at i l).
Proof.
  revert i; induction l as [|x l IH]; intros [|i] H; cbn [remove_at]; trivial.
  - inversion H; trivial.
  - inversion H; subst. constructor; trivial. apply IH; trivial.
Qed.

(* ------------------------------------------------------------------ resync *)
Lemma resync_nodisk b : b_disk b = [] -> resync b = (b, []).
Proof. intros H. unfold resync. rewrite H. reflexivity. Qed.

Definition fresh_of (b : mbox) : list msg := assign_uids (sort_by_key (b_disk b)) (b_next b).

Lemma resync_shape b :
  b_disk b <> [] ->
  b_msgs (fst (resync b)) = b_msgs b ++ fresh_of b /\
  b_next (fst (resync b)) = b_next b + zlen (fresh_of b) /\
  b_vv (fst (resync b)) = b_vv b /\ b_disk (fst (resync b)) = [].
Proof.
  intros Hd. unfold resync. destruct (b_disk b) as [|d0 dl] eqn:E; [congruence|]. rewrite <- E.
  fold (fresh_of b).
  match goal with |- context [announce ?B ?R] => destruct (announce B R) as [b2 o1] eqn:Ea end.
  match goal with |- context [dispatch ?B ?D ?R] => destruct (dispatch B D R) as [b3 o2] eqn:Ed end.
  cbn [fst].
  pose proof (dispatch_msgs b2 None (notes_from (b_msgs b ++ fresh_of b) 1 (fun m => b_next b <=? m_uid m) false)) as Hm.
  rewrite Ed in Hm. cbn [fst] in Hm. destruct Hm as [M1 [M2 [M3 M4]]].
  match type of Ea with announce ?B ?R = _ => pose proof (announce_msgs B R) as Hn end.
  rewrite Ea in Hn. cbn [fst b_msgs b_next b_vv b_disk] in Hn. destruct Hn as [N1 [N2 [N3 N4]]].
  rewrite M1, M2, M3, M4, N1, N2, N3, N4. auto.
Qed.

Lemma resync_binv b : binv b -> binv (fst (resync b)).
Proof.
  intros Hb. destruct (b_disk b) as [|d0 dl] eqn:E.
  - rewrite resync_nodisk; trivial.
  - unfold resync. rewrite E. rewrite <- E. fold (fresh_of b).
    set (ms := b_msgs b ++ fresh_of b).
    set (b1 := {| b_msgs := ms; b_next := b_next b + zlen (fresh_of b); b_vv := b_vv b;
                  b_clients := b_clients b; b_disk := [] |}).
    destruct (announce b1 [RExists (zlen ms) (map m_uid ms); RRecent (count_seq "Recent" ms)]) as [b2 o1] eqn:Ea.
    destruct (dispatch b2 None (notes_from ms 1 (fun m => b_next b <=? m_uid m) false)) as [b3 o2] eqn:Ed.
    cbn [fst].
    assert (H2 : Forall (fun p => cinv (map m_uid ms) (snd p)) (b_clients b2)).
    { replace b2 with (fst (announce b1 [RExists (zlen ms) (map m_uid ms); RRecent (count_seq "Recent" ms)]))
        by (rewrite Ea; reflexivity).
      apply announce_clients with (uids b); [exact Hb|].
      assert (Hpre : zprefix (uids b) (map m_uid ms) = true)
        by (unfold ms, uids; rewrite map_app; apply zprefix_app).
      cbn [apply_resps apply_resp]. rewrite zlen_map, Z.eqb_refl, Hpre. reflexivity. }
    assert (H3 : Forall (fun p => cinv (map m_uid ms) (snd p)) (b_clients b3)).
    { replace b3 with (fst (dispatch b2 None (notes_from ms 1 (fun m => b_next b <=? m_uid m) false)))
        by (rewrite Ed; reflexivity).
      apply dispatch_clients with (map m_uid ms); [exact H2| |left; reflexivity].
      apply valid_all. apply notes_from_valid. intros i m Hi. apply nth_uids; exact Hi. }
    unfold binv, uids.
    pose proof (dispatch_msgs b2 None (notes_from ms 1 (fun m => b_next b <=? m_uid m) false)) as Hm.
    rewrite Ed in Hm. cbn [fst] in Hm. destruct Hm as [M1 _].
    pose proof (announce_msgs b1 [RExists (zlen ms) (map m_uid ms); RRecent (count_seq "Recent" ms)]) as Hn.
    rewrite Ea in Hn. cbn [fst] in Hn. destruct Hn as [N1 _].
    rewrite M1, N1. exact H3.
Qed.

Lemma resync_uinv b : uinv b -> uinv (fst (resync b)).
Proof.
  intros [Hs [Hf Hn]]. destruct (b_disk b) as [|d0 dl] eqn:E.
  - rewrite resync_nodisk; trivial. repeat split; trivial.
  - destruct (resync_shape b) as [S1 [S2 _]]; [congruence|].
    unfold uinv, uids. rewrite S1, S2, map_app.
    destruct (assign_uids_spec (sort_by_key (b_disk b)) (b_next b)) as [As [Af Al]].
    fold (fresh_of b) in As, Af, Al. repeat split.
    + apply sorted_app; trivial. intros x y Hx Hy.
      rewrite Forall_forall in Hf, Af. specialize (Hf x Hx). specialize (Af y Hy). cbn in *. lia.
    + apply Forall_app; split.
      * eapply Forall_impl; [|exact Hf]. cbn. pose proof (zlen_nonneg (fresh_of b)). intros; lia.
      * eapply Forall_impl; [|exact Af]. cbn. rewrite Al. intros; lia.
    + pose proof (zlen_nonneg (fresh_of b)). lia.
Qed.

Lemma resync_inv b : boxinv b -> boxinv (fst (resync b)).
Proof. intros [H1 H2]. split; [apply resync_binv|apply resync_uinv]; trivial. Qed.

(* ------------------------------------------------------------------ expunge *)
Fixpoint desc_below (n : Z) (ps : list Z) : Prop :=
  match ps with [] => True | p :: ps' => 1 <= p <= n /\ desc_below (p - 1) ps' end.
Lemma desc_below_mono n m ps : n <= m -> desc_below n ps -> desc_below m ps.
Proof. destruct ps as [|p ps]; cbn [desc_below]; [trivial|]. intros H [H1 H2]. split; [lia|exact H2]. Qed.

Lemma positions_desc_spec del l : forall pos acc,
  1 <= pos -> desc_below (pos - 1) acc -> desc_below (pos - 1 + zlen l) (positions_desc del l pos acc).
Proof.
  induction l as [|m l IH]; intros pos acc Hp Ha; cbn [positions_desc].
  - unfold zlen; cbn. rewrite Z.add_0_r. exact Ha.
  - rewrite zlen_cons. replace (pos - 1 + (1 + zlen l)) with (pos + 1 - 1 + zlen l) by lia.
    apply IH; [lia|]. replace (pos + 1 - 1) with pos by lia.
    destruct (del m).
    + cbn [desc_below]. split; [lia|exact Ha].
    + apply desc_below_mono with (pos - 1); [lia|exact Ha].
Qed.

Lemma set_msgs_clients b ms : b_clients (set_msgs b ms) = b_clients b. Proof. reflexivity. Qed.

Lemma expunge_loop_inv ps : forall b i,
  desc_below (zlen (b_msgs b)) ps -> boxinv b -> boxinv (fst (expunge_loop b ps i)).
Proof.
  induction ps as [|p ps IH]; intros b i Hd Hb; cbn [expunge_loop]; [exact Hb|].
  destruct Hd as [Hp Hd]. destruct Hb as [Hbi [Hs [Hf Hn]]].
  set (b1 := set_msgs b (remove_at (Z.to_nat (p - 1)) (b_msgs b))).
  destruct (dispatch b1 None [RExpunge p]) as [b2 o] eqn:Ed.
  destruct (expunge_loop b2 ps i) as [b3 o'] eqn:El. cbn [fst].
  replace b3 with (fst (expunge_loop b2 ps i)) by (rewrite El; reflexivity).
  pose proof (dispatch_msgs b1 None [RExpunge p]) as Hm. rewrite Ed in Hm. cbn [fst] in Hm.
  destruct Hm as [M1 [M2 _]].
  assert (Hlen : (Z.to_nat (p - 1) < List.length (b_msgs b))%nat) by (unfold zlen in Hp; lia).
  apply IH.
  - rewrite M1. unfold b1. cbn [set_msgs b_msgs]. unfold zlen. rewrite length_remove_at by exact Hlen.
    apply desc_below_mono with (p - 1); [unfold zlen in Hp; lia|exact Hd].
  - split.
    + unfold binv. replace (uids b2) with (remove_at (Z.to_nat (p - 1)) (uids b)).
      2:{ unfold uids. rewrite M1. unfold b1. cbn [set_msgs b_msgs]. rewrite map_remove_at. reflexivity. }
      replace b2 with (fst (dispatch b1 None [RExpunge p])) by (rewrite Ed; reflexivity).
      apply dispatch_clients with (uids b); [exact Hbi| |left; reflexivity].
      cbn [apply_resps apply_resp]. unfold uids at 1. rewrite zlen_map.
      destruct ((1 <=? p) && (p <=? zlen (b_msgs b))) eqn:E; [reflexivity|lia].
    + unfold uinv, uids. rewrite M1, M2. unfold b1. cbn [set_msgs b_msgs b_next]. rewrite map_remove_at.
      repeat split; [apply remove_at_sorted; exact Hs|apply remove_at_Forall; exact Hf|exact Hn].
Qed.

Lemma expunge_inv b del : boxinv b -> boxinv (fst (expunge b del)).
Proof.
  intros Hb. unfold expunge. apply expunge_loop_inv; [|exact Hb].
  pose proof (positions_desc_spec del (b_msgs b) 1 []) as H. cbn [desc_below] in H.
  replace (1 - 1 + zlen (b_msgs b)) with (zlen (b_msgs b)) in H by lia. apply H; [lia|trivial].
Qed.

(* ------------------------------------------------------------------ single clients inside a box *)
Lemma upd_client_in b s f s' c' :
  In (s', c') (b_clients (upd_client b s f)) ->
  exists c, In (s', c) (b_clients b) /\ c' = (if s' =? s then f c else c).
Proof.
  unfold upd_client. cbn [set_clients b_clients]. rewrite in_map_iff. intros [[s0 c0] [E Hin]].
  cbn [fst snd] in E. destruct (s0 =? s) eqn:Es.
  - inversion E as [[E1 E2]]. subst s0. exists c0. rewrite Es. auto.
  - inversion E as [[E1 E2]]. subst s0. exists c0. rewrite Es. subst c0. auto.
Qed.

Lemma upd_client_binv b s f :
  binv b -> (forall c, In (s, c) (b_clients b) -> cinv (uids b) c -> cinv (uids b) (f c)) ->
  binv (upd_client b s f).
Proof.
  intros Hb Hf. unfold binv, upd_client. cbn [set_clients b_clients]. rewrite uids_set_clients.
  rewrite Forall_map. rewrite Forall_forall. intros [s0 c0] Hin.
  unfold binv in Hb. rewrite Forall_forall in Hb. specialize (Hb _ Hin). cbn [fst snd] in *.
  destruct (s0 =? s) eqn:Es; cbn [snd]; [|exact Hb].
  apply Hf; [|exact Hb]. apply Z.eqb_eq in Es. subst. exact Hin.
Qed.

Lemma upd_client_uinv b s f : uinv b -> uinv (upd_client b s f).
Proof. trivial. Qed.

Lemma get_client_in b s c : get_client b s = Some c -> In (s, c) (b_clients b).
Proof.
  unfold get_client. induction (b_clients b) as [|[s0 c0] l IH]; cbn [zalist_get]; [discriminate|].
  destruct (s =? s0) eqn:E; [intros H; inversion H; subst; apply Z.eqb_eq in E; subst; left; reflexivity|].
  intros H; right; apply IH; exact H.
Qed.

Lemma binv_in b s c : binv b -> In (s, c) (b_clients b) -> cinv (uids b) c.
Proof. unfold binv. rewrite Forall_forall. intros H Hin. apply (H _ Hin). Qed.

(* flush: the invariant is kept and every entry of that session ends with an empty queue and the
   server's list as its view *)
Lemma flush_inv b s : boxinv b -> boxinv (fst (flush b s)).
Proof.
  intros [Hb Hu]. unfold flush. destruct (get_client b s) as [c|] eqn:E; [|split; trivial].
  destruct (flush1 s c) as [c' o] eqn:Ef. cbn [fst]. split; [|exact Hu].
  apply upd_client_binv; [exact Hb|]. intros c0 _ _.
  replace c' with (fst (flush1 s c)) by (rewrite Ef; reflexivity).
  apply cinv_flush1. apply binv_in with s; [exact Hb|apply get_client_in; exact E].
Qed.

Lemma flush_msgs b s : b_msgs (fst (flush b s)) = b_msgs b /\ b_next (fst (flush b s)) = b_next b /\
  b_vv (fst (flush b s)) = b_vv b /\ b_disk (fst (flush b s)) = b_disk b.
Proof. unfold flush. destruct (get_client b s); [destruct (flush1 s c)|]; cbn; auto. Qed.

Lemma flush_clean b s c :
  binv b -> In (s, c) (b_clients (fst (flush b s))) -> c_pend c = [] /\ c_view c = uids b.
Proof.
  intros Hb. unfold flush. destruct (get_client b s) as [c0|] eqn:E.
  - destruct (flush1 s c0) as [c' o] eqn:Ef. cbn [fst]. intros Hin.
    apply upd_client_in in Hin. destruct Hin as [c1 [_ Hc]]. rewrite Z.eqb_refl in Hc. subst c.
    replace c' with (fst (flush1 s c0)) by (rewrite Ef; reflexivity).
    apply cinv_flush1. apply binv_in with s; [exact Hb|apply get_client_in; exact E].
  - cbn [fst]. intros Hin. exfalso. clear Hb. unfold get_client in E.
    induction (b_clients b) as [|[s0 c1] l IH]; [exact Hin|]. cbn [zalist_get] in E.
    destruct (s =? s0) eqn:Es; [discriminate|]. destruct Hin as [Hin|Hin]; [inversion Hin; subst; lia|].
    apply IH; trivial.
Qed.

(* ------------------------------------------------------------------ view-neutral responses *)
Definition is_neutral (r : resp) : bool := match r with RExists _ _ | RExpunge _ => false | _ => true end.

Lemma neutral_apply v r v' : is_neutral r = true -> apply_resp v r = Some v' -> v' = v.
Proof.
  destruct r; cbn [is_neutral apply_resp]; intros Hn H; try discriminate; try (inversion H; reflexivity).
  - destruct (znth v (n - 1)) as [u0|]; [|discriminate]. destruct (u0 =? g); inversion H; reflexivity.
  - destruct (znth v (n - 1)) as [u0|]; [|discriminate]. destruct (u0 =? g); inversion H; reflexivity.
Qed.

Lemma neutral_view rs : forall v L, forallb is_neutral rs = true -> apply_resps v rs = Some L -> L = v.
Proof.
  induction rs as [|r rs IH]; intros v L Hn Ha; cbn [apply_resps forallb] in *.
  - inversion Ha; reflexivity.
  - apply andb_prop in Hn. destruct Hn as [Hr Hrs].
    destruct (apply_resp v r) as [v1|] eqn:E; [|discriminate].
    apply neutral_apply in E; [|exact Hr]. subst v1. apply IH; trivial.
Qed.

Lemma deliver_pend c rs : c_pend (deliver c rs) = c_pend c /\ c_idle (deliver c rs) = c_idle c /\ c_exam (deliver c rs) = c_exam c.
Proof.
  revert c; induction rs as [|r rs IH]; intros c; [cbn; auto|].
  rewrite deliver_cons. destruct (IH (deliver1 c r)) as [H1 [H2 H3]]. rewrite H1, H2, H3.
  unfold deliver1. destruct (apply_resp (c_view c) r); cbn; auto.
Qed.

(* handing valid, view-neutral responses to a client whose queue holds only neutral notes *)
Lemma cinv_deliver_neutral L c rs :
  cinv L c -> forallb is_neutral (c_pend c) = true -> Forall (valid_on L) rs -> cinv L (deliver c rs).
Proof.
  intros [Hok [Ha Hi]] Hn Hv.
  assert (Hview : c_view c = L) by (symmetry; apply neutral_view with (c_pend c); trivial).
  rewrite (deliver_ok c rs L Hok); [|rewrite Hview; apply valid_all; exact Hv].
  repeat split; cbn; trivial. rewrite <- Hview at 1. exact Ha.
Qed.

Lemma fetch_notes_neutral_at sel l pos show : forallb is_neutral (notes_at sel l pos show) = true.
Proof.
  revert pos; induction l as [|m l IH]; intros pos; cbn [notes_at]; [reflexivity|].
  rewrite forallb_app, IH. destruct (zmem pos sel); reflexivity.
Qed.
Lemma fetch_notes_neutral_from want l pos show : forallb is_neutral (notes_from l pos want show) = true.
Proof.
  revert pos; induction l as [|m l IH]; intros pos; cbn [notes_from]; [reflexivity|].
  rewrite forallb_app, IH. destruct (want m); reflexivity.
Qed.

Lemma map_out_in {A} (f : A -> A * out) l y : In y (fst (map_out f l)) -> exists x, In x l /\ y = fst (f x).
Proof. rewrite map_out_fst, in_map_iff. intros [x [E H]]. exists x. auto. Qed.

Lemma announce_in b rs s c' :
  In (s, c') (b_clients (fst (announce b rs))) -> exists c, In (s, c) (b_clients b) /\ (s, c') = fst (announce1 rs (s, c)).
Proof.
  unfold announce. destruct (map_out (announce1 rs) (b_clients b)) as [cs o] eqn:E. cbn [fst set_clients b_clients].
  intros Hin. replace cs with (fst (map_out (announce1 rs) (b_clients b))) in Hin by (rewrite E; reflexivity).
  apply map_out_in in Hin. destruct Hin as [[s0 c0] [Hin Heq]].
  assert (s0 = s). { unfold announce1 in Heq. destruct (c_pend c0); [|destruct (c_idle c0)]; inversion Heq; reflexivity. }
  subst s0. exists c0. auto.
Qed.

Lemma dispatch_in b d rs s c' :
  In (s, c') (b_clients (fst (dispatch b d rs))) ->
  exists c, In (s, c) (b_clients b) /\ (c' = c \/ (s, c') = fst (dispatch1 d rs (s, c))).
Proof.
  unfold dispatch. destruct rs as [|r rs'].
  - cbn [fst]. intros H. exists c'. auto.
  - destruct (map_out (dispatch1 d (r :: rs')) (b_clients b)) as [cs o] eqn:E. cbn [fst set_clients b_clients].
    intros Hin. replace cs with (fst (map_out (dispatch1 d (r :: rs')) (b_clients b))) in Hin by (rewrite E; reflexivity).
    apply map_out_in in Hin. destruct Hin as [[s0 c0] [Hin Heq]].
    assert (s0 = s).
    { unfold dispatch1 in Heq. destruct (match d with Some d0 => s0 =? d0 | None => false end); [|destruct (c_idle c0)];
        inversion Heq; reflexivity. }
    subst s0. exists c0. auto.
Qed.

(* after a resync, a session whose queue was empty holds only neutral notes *)
Lemma resync_neutral b s :
  (forall c, In (s, c) (b_clients b) -> c_pend c = []) ->
  forall c, In (s, c) (b_clients (fst (resync b))) -> forallb is_neutral (c_pend c) = true.
Proof.
  intros H0 c Hin. destruct (b_disk b) as [|d0 dl] eqn:E.
  - rewrite resync_nodisk in Hin by exact E. cbn [fst] in Hin. rewrite (H0 _ Hin). reflexivity.
  - unfold resync in Hin. rewrite E in Hin. rewrite <- E in Hin. fold (fresh_of b) in Hin.
    set (ms := b_msgs b ++ fresh_of b) in *.
    match type of Hin with context [announce ?B ?R] => destruct (announce B R) as [b2 o1] eqn:Ea end.
    match type of Hin with context [dispatch ?B ?D ?R] => destruct (dispatch B D R) as [b3 o2] eqn:Ed end.
    cbn [fst] in Hin.
    replace b3 with (fst (dispatch b2 None (notes_from ms 1 (fun m => b_next b <=? m_uid m) false))) in Hin
      by (rewrite Ed; reflexivity).
    apply dispatch_in in Hin. destruct Hin as [c2 [Hin2 Hc]].
    match type of Ea with announce ?B ?R = _ =>
      replace b2 with (fst (announce B R)) in Hin2 by (rewrite Ea; reflexivity) end.
    apply announce_in in Hin2. destruct Hin2 as [c1 [Hin1 Hc1]]. cbn [b_clients] in Hin1.
    specialize (H0 _ Hin1).
    assert (Hp2 : c_pend c2 = []).
    { unfold announce1 in Hc1. rewrite H0 in Hc1. apply (f_equal snd) in Hc1. cbn [fst snd] in Hc1. subst c2.
      match goal with |- c_pend (deliver ?cc ?ll) = _ => destruct (deliver_pend cc ll) as [Hp _]; rewrite Hp end.
      exact H0. }
    destruct Hc as [Hc|Hc]; [subst c; rewrite Hp2; reflexivity|].
    unfold dispatch1 in Hc. destruct (c_idle c2); apply (f_equal snd) in Hc; cbn [fst snd] in Hc; subst c.
    + match goal with |- context [c_pend (deliver ?cc ?ll)] => destruct (deliver_pend cc ll) as [Hp _]; rewrite Hp end.
      rewrite Hp2. reflexivity.
    + cbn [pend c_pend]. rewrite Hp2. cbn [app]. apply fetch_notes_neutral_from.
Qed.

(* ------------------------------------------------------------------ "quiet" clients: idling with an empty queue *)
Definition quiet (c : client) : Prop := c_idle c = true /\ c_pend c = [].
Definition all_s (P : client -> Prop) (b : mbox) (s : Z) : Prop := forall c, In (s, c) (b_clients b) -> P c.

Lemma deliver_quiet c rs : quiet c -> quiet (deliver c rs).
Proof. intros [H1 H2]. destruct (deliver_pend c rs) as [P1 [P2 _]]. split; congruence. Qed.

Lemma dispatch_quiet b d rs s : all_s quiet b s -> all_s quiet (fst (dispatch b d rs)) s.
Proof.
  intros H c Hin. apply dispatch_in in Hin. destruct Hin as [c0 [Hin [->|Hc]]]; [apply H; exact Hin|].
  specialize (H _ Hin). unfold dispatch1 in Hc.
  destruct (match d with Some d0 => s =? d0 | None => false end).
  - apply (f_equal snd) in Hc. cbn [fst snd] in Hc. subst c. exact H.
  - destruct H as [Hi Hp]. rewrite Hi in Hc. apply (f_equal snd) in Hc. cbn [fst snd] in Hc. subst c.
    apply deliver_quiet. split; trivial.
Qed.
Lemma announce_quiet b rs s : all_s quiet b s -> all_s quiet (fst (announce b rs)) s.
Proof.
  intros H c Hin. apply announce_in in Hin. destruct Hin as [c0 [Hin Hc]].
  specialize (H _ Hin). destruct H as [Hi Hp]. unfold announce1 in Hc. rewrite Hp in Hc.
  apply (f_equal snd) in Hc. cbn [fst snd] in Hc. subst c. apply deliver_quiet. split; trivial.
Qed.
Lemma resync_quiet b s : all_s quiet b s -> all_s quiet (fst (resync b)) s.
Proof.
  intros H. unfold resync. destruct (b_disk b); [exact H|].
  match goal with |- context [announce ?B ?R] => destruct (announce B R) as [b2 o1] eqn:Ea end.
  match goal with |- context [dispatch ?B ?D ?R] => destruct (dispatch B D R) as [b3 o2] eqn:Ed end.
  cbn [fst].
  match type of Ed with dispatch ?B ?D ?R = _ => replace b3 with (fst (dispatch B D R)) by (rewrite Ed; reflexivity) end.
  apply dispatch_quiet.
  match type of Ea with announce ?B ?R = _ => replace b2 with (fst (announce B R)) by (rewrite Ea; reflexivity) end.
  apply announce_quiet. exact H.
Qed.
Lemma expunge_loop_quiet ps : forall b i s, all_s quiet b s -> all_s quiet (fst (expunge_loop b ps i)) s.
Proof.
  induction ps as [|p ps IH]; intros b i s H; cbn [expunge_loop]; [exact H|].
  destruct (dispatch (set_msgs b (remove_at (Z.to_nat (p - 1)) (b_msgs b))) None [RExpunge p]) as [b2 o] eqn:Ed.
  destruct (expunge_loop b2 ps i) as [b3 o'] eqn:El. cbn [fst].
  replace b3 with (fst (expunge_loop b2 ps i)) by (rewrite El; reflexivity). apply IH.
  match type of Ed with dispatch ?B ?D ?R = _ => replace b2 with (fst (dispatch B D R)) by (rewrite Ed; reflexivity) end.
  apply dispatch_quiet. exact H.
Qed.

Lemma set_idle_all b s i :
  binv b -> (i = false \/ all_s (fun c => c_pend c = []) b s) -> binv (upd_client b s (fun c => set_idle c i)).
Proof.
  intros Hb Hi. apply upd_client_binv; [exact Hb|]. intros c Hin Hc.
  destruct Hi as [->|Hq]; [apply cinv_set_idle_false; exact Hc|apply cinv_set_idle; [exact Hc|apply Hq; exact Hin]].
Qed.

Lemma set_idle_true_quiet b s : all_s (fun c => c_pend c = []) b s -> all_s quiet (upd_client b s (fun c => set_idle c true)) s.
Proof.
  intros H c Hin. apply upd_client_in in Hin. destruct Hin as [c0 [Hin Hc]]. rewrite Z.eqb_refl in Hc. subst c.
  split; cbn; [reflexivity|apply H; exact Hin].
Qed.

Lemma quiet_pend b s : all_s quiet b s -> all_s (fun c => c_pend c = []) b s.
Proof. intros H c Hin. apply (H c Hin). Qed.

(* ------------------------------------------------------------------ the world invariant *)
Definition winv (w : world) : Prop := forall n b, get_box w n = Some b -> boxinv b.

Lemma alist_get_set {V} (l : list (string * V)) k v k' :
  alist_get (alist_set l k v) k' = if String.eqb k' k then Some v else alist_get l k'.
Proof.
  induction l as [|[k0 v0] l IH]; cbn [alist_set alist_get].
  - destruct (String.eqb k' k); reflexivity.
  - destruct (String.eqb k k0) eqn:E; cbn [alist_get].
    + apply String.eqb_eq in E; subst k0. destruct (String.eqb k' k); reflexivity.
    + rewrite IH. destruct (String.eqb k' k0) eqn:E1; [|reflexivity].
      apply String.eqb_eq in E1; subst k0. destruct (String.eqb k' k) eqn:E2; [|reflexivity].
      apply String.eqb_eq in E2; subst k'. rewrite String.eqb_refl in E. discriminate.
Qed.

Lemma get_set_box w n b n' : get_box (set_box w n b) n' = if String.eqb n' n then Some b else get_box w n'.
Proof. unfold get_box, set_box. cbn [w_boxes]. apply alist_get_set. Qed.

Lemma winv_set_box w n b : winv w -> boxinv b -> winv (set_box w n b).
Proof.
  intros Hw Hb n' b' H. rewrite get_set_box in H. destruct (String.eqb n' n); [inversion H; subst; exact Hb|].
  apply (Hw n' b' H).
Qed.

Lemma boxinv_same_core b b' :
  b_msgs b' = b_msgs b -> b_next b' = b_next b -> b_clients b' = b_clients b -> boxinv b -> boxinv b'.
Proof.
  intros H1 H2 H3 [Hb [Hs [Hf Hn]]]. unfold boxinv, binv, uinv, uids. rewrite H1, H2, H3. auto.
Qed.

Lemma with_disk_inv b d : boxinv b -> boxinv (with_disk b d).
Proof. apply boxinv_same_core; reflexivity. Qed.

Lemma renumber_uids l k : map m_uid (renumber l k) = map m_uid l.
Proof. revert k; induction l as [|m l IH]; intros k; cbn [renumber map]; [reflexivity|]. rewrite IH. reflexivity. Qed.

Lemma set_msgs_same_uids b ms : map m_uid ms = uids b -> boxinv b -> boxinv (set_msgs b ms).
Proof.
  intros H [Hb [Hs [Hf Hn]]]. unfold boxinv, binv, uinv, uids in *. cbn [set_msgs b_msgs b_clients b_next].
  rewrite H. auto.
Qed.

Lemma maybe_pack_inv w b : boxinv b -> boxinv (maybe_pack w b).
Proof.
  intros H. unfold maybe_pack. destruct (should_pack w b); [|exact H].
  apply set_msgs_same_uids; [apply renumber_uids|exact H].
Qed.

Lemma remove_client_inv b s : boxinv b -> boxinv (set_clients b (zalist_del (b_clients b) s)).
Proof.
  intros [Hb Hu]. split; [|exact Hu]. unfold binv in *. cbn [set_clients b_clients]. rewrite uids_set_clients.
  unfold zalist_del. rewrite Forall_forall in *. intros p Hp. apply filter_In in Hp. apply Hb. tauto.
Qed.

Lemma unselect_inv w s : winv w -> winv (unselect w s).
Proof.
  intros Hw. unfold unselect. destruct (sel w s) as [n|]; [|exact Hw].
  destruct (get_box w n) as [b|] eqn:E; [|exact Hw].
  apply winv_set_box; [exact Hw|]. apply remove_client_inv. apply (Hw n b E).
Qed.

Lemma in_mbox_inv w s k :
  winv w -> (forall n b, get_box w n = Some b -> winv (fst (k n b))) -> winv (fst (in_mbox w s k)).
Proof.
  intros Hw Hk. unfold in_mbox. destruct (sel w s) as [n|]; [|exact Hw].
  destruct (get_box w n) as [b|] eqn:E; [|exact Hw]. apply Hk; exact E.
Qed.

Lemma add_client_inv b s exam :
  boxinv b ->
  boxinv (set_clients b (b_clients b ++ [(s, {| c_idle := false; c_exam := exam; c_pend := [];
                                               c_view := map m_uid (b_msgs b); c_ok := true |})])).
Proof.
  intros [Hb Hu]. split; [|exact Hu]. unfold binv in *. cbn [set_clients b_clients]. rewrite uids_set_clients.
  apply Forall_app; split; [exact Hb|]. constructor; [|constructor].
  cbn [snd]. split; [reflexivity|]. split; [reflexivity|]. cbn. discriminate.
Qed.

(* what "legal" means, response by response *)
Lemma zprefix_len a b : zprefix a b = true -> zlen a <= zlen b.
Proof.
  revert b; induction a as [|x a IH]; intros b H; [unfold zlen; cbn; lia|].
  destruct b as [|y b]; [discriminate|]. cbn [zprefix] in H. apply andb_prop in H. destruct H as [_ H].
  specialize (IH _ H). rewrite !zlen_cons. lia.
Qed.
Lemma apply_resp_legal view r view' :
  apply_resp view r = Some view' ->
  match r with
  | RExists n g => zlen view <= n /\ zprefix view view' = true /\ zlen view' = n
  | RExpunge n => 1 <= n <= zlen view /\ view' = remove_at (Z.to_nat (n - 1)) view
  | RFetch n _ _ g => znth view (n - 1) = Some g /\ view' = view
  | RBody n _ _ _ g => znth view (n - 1) = Some g /\ view' = view
  | _ => view' = view
  end.
Proof.
  destruct r; cbn [apply_resp]; intros H; try (inversion H; reflexivity).
  - destruct ((zlen g =? n) && zprefix view g) eqn:E; [|discriminate]. inversion H; subst.
    apply andb_prop in E. destruct E as [E1 E2]. pose proof (zprefix_len _ _ E2). repeat split; trivial; lia.
  - destruct ((1 <=? n) && (n <=? zlen view)) eqn:E; [|discriminate]. inversion H; subst. split; [lia|reflexivity].
  - destruct (znth view (n - 1)) as [u0|]; [|discriminate]. destruct (u0 =? g) eqn:E; [|discriminate].
    inversion H; subst. apply Z.eqb_eq in E. subst. auto.
  - destruct (znth view (n - 1)) as [u0|]; [|discriminate]. destruct (u0 =? g) eqn:E; [|discriminate].
    inversion H; subst. apply Z.eqb_eq in E. subst. auto.
Qed.
