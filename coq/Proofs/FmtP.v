(* Proofs/FmtP.v — the formatters of Model/Fmt.v against the independent reader Spec/RespTok.v *)
From Asimap Require Import Base.Res Model.BodyAlg Model.Fmt Spec.RespTok Proofs.BodyAlgP.
From Coq Require Import Decimal DecimalN NArith.
Open Scope Z_scope.

(* ------------------------------------------------------------------ small facts *)
Lemma forbidden_is c : forbidden c = is_forbidden c.
Proof. reflexivity. Qed.

Lemma needs_literal_cons c t :
  needs_literal (c :: t) = false -> is_forbidden c = false /\ needs_literal t = false.
Proof.
  unfold needs_literal. cbn [existsb]. intros H. apply orb_false_iff in H. exact H.
Qed.

Lemma app2 (a b : Z) l : [a; b] ++ l = a :: b :: l.
Proof. reflexivity. Qed.
Lemma app1 (a : Z) l : [a] ++ l = a :: l.
Proof. reflexivity. Qed.

Lemma escape_cons c t : escape (c :: t) = esc c ++ escape t.
Proof. reflexivity. Qed.

Lemma esc_cases c :
  (c = 34 /\ esc c = [92; 34]) \/ (c = 92 /\ esc c = [92; 92]) \/
  (c <> 34 /\ c <> 92 /\ esc c = [c]).
Proof.
  unfold esc, DQ, BSL.
  destruct (c =? 34) eqn:E1; [apply Z.eqb_eq in E1; subst; left; split; reflexivity|].
  destruct (c =? 92) eqn:E2; [apply Z.eqb_eq in E2; subst; right; left; split; reflexivity|].
  apply Z.eqb_neq in E1, E2. right; right. repeat split; assumption.
Qed.

(* ------------------------------------------------------------------ quoted strings *)
Lemma read_qtail_plain c t : c <> 34 -> c <> 92 -> is_forbidden c = false ->
  read_qtail (c :: t) =
  match read_qtail t with Some (v, r) => Some (c :: v, r) | None => None end.
Proof.
  intros H1 H2 H3. cbn [read_qtail].
  apply Z.eqb_neq in H1, H2. rewrite H1, H2, H3. reflexivity.
Qed.

Lemma read_qtail_escaped c t : is_qspecial c = true ->
  read_qtail (92 :: c :: t) =
  match read_qtail t with Some (v, r) => Some (c :: v, r) | None => None end.
Proof.
  intros H.
  change (read_qtail (92 :: c :: t)) with
    (if is_qspecial c then match read_qtail t with Some (v, r) => Some (c :: v, r) | None => None end
     else None).
  rewrite H. reflexivity.
Qed.

Lemma read_qtail_escape b : forall rest, needs_literal b = false ->
  read_qtail (escape b ++ 34 :: rest) = Some (b, rest).
Proof.
  induction b as [|c t IH]; intros rest H; [reflexivity|].
  apply needs_literal_cons in H as [Hc Ht].
  rewrite escape_cons, <- app_assoc.
  destruct (esc_cases c) as [[-> ->]|[[-> ->]|[H1 [H2 ->]]]].
  - rewrite app2. rewrite read_qtail_escaped by reflexivity. rewrite IH by exact Ht. reflexivity.
  - rewrite app2. rewrite read_qtail_escaped by reflexivity. rewrite IH by exact Ht. reflexivity.
  - rewrite app1. rewrite read_qtail_plain by assumption. rewrite IH by exact Ht. reflexivity.
Qed.

Lemma read_quoted_quoted b rest : needs_literal b = false ->
  read_quoted (quoted b ++ rest) = Some (b, rest).
Proof.
  intros H. unfold quoted, read_quoted, DQ.
  change ((34 :: escape b ++ [34]) ++ rest) with (34 :: ((escape b ++ [34]) ++ rest)).
  rewrite expect_hit, <- app_assoc. apply read_qtail_escape. exact H.
Qed.

Lemma quoted_inner_ok_plain c t : c <> 34 -> c <> 92 -> is_forbidden c = false ->
  quoted_inner_ok (c :: t) = quoted_inner_ok t.
Proof.
  intros H1 H2 H3. cbn [quoted_inner_ok].
  apply Z.eqb_neq in H1, H2. rewrite H1, H2, H3. reflexivity.
Qed.

Lemma quoted_inner_ok_escaped c t : is_qspecial c = true ->
  quoted_inner_ok (92 :: c :: t) = quoted_inner_ok t.
Proof.
  intros H.
  change (quoted_inner_ok (92 :: c :: t)) with (is_qspecial c && quoted_inner_ok t).
  rewrite H. reflexivity.
Qed.

Lemma quoted_inner_ok_escape b : needs_literal b = false -> quoted_inner_ok (escape b) = true.
Proof.
  induction b as [|c t IH]; intros H; [reflexivity|].
  apply needs_literal_cons in H as [Hc Ht]. rewrite escape_cons.
  destruct (esc_cases c) as [[-> ->]|[[-> ->]|[H1 [H2 ->]]]].
  - rewrite app2. rewrite quoted_inner_ok_escaped by reflexivity. apply IH, Ht.
  - rewrite app2. rewrite quoted_inner_ok_escaped by reflexivity. apply IH, Ht.
  - rewrite app1. rewrite quoted_inner_ok_plain by assumption. apply IH, Ht.
Qed.

(* the string reader on what the encoder produces: every byte list comes back, nothing else
   is consumed *)
Lemma read_string_enc b rest : read_string (enc_string b ++ rest) = Some (b, rest).
Proof.
  unfold enc_string. destruct (needs_literal b) eqn:E.
  - rewrite literal_app. cbn [read_string Z.eqb Pos.eqb].
    rewrite <- literal_app. apply read_literal_literal.
  - unfold read_string, quoted, DQ. cbn [Datatypes.app Z.eqb Pos.eqb].
    apply (read_quoted_quoted b rest E).
Qed.

Lemma enc_string_literal b : needs_literal b = true -> enc_string b = literal b.
Proof. intros H. unfold enc_string. rewrite H. reflexivity. Qed.

Lemma enc_string_quoted b : needs_literal b = false -> enc_string b = quoted b.
Proof. intros H. unfold enc_string. rewrite H. reflexivity. Qed.

Lemma no_raw_specials b : needs_literal b = false ->
  exists q, enc_string b = 34 :: q ++ [34] /\ quoted_inner_ok q = true.
Proof.
  intros H. exists (escape b). split; [rewrite enc_string_quoted by exact H; reflexivity|].
  apply quoted_inner_ok_escape, H.
Qed.

(* ------------------------------------------------------------------ the response automaton *)
Lemma feed_app s a : forall b,
  feed s (a ++ b) = match feed s a with Some s' => feed s' b | None => None end.
Proof.
  revert s. induction a as [|x a IH]; intros s b; [reflexivity|].
  cbn [Datatypes.app feed]. destruct (step s x); try reflexivity. apply IH.
Qed.

Lemma run_feed a : forall s s' l, feed s a = Some s' -> run s (a ++ l) = run s' l.
Proof.
  induction a as [|x a IH]; intros s s' l H.
  - cbn in H. injection H as ->. reflexivity.
  - cbn [feed] in H. cbn [Datatypes.app run]. destruct (step s x); try discriminate H. apply IH, H.
Qed.

Definition balanced (p : list Z) : Prop := forall d, feed (StN d) p = Some (StN d).

Definition plain (c : Z) : bool :=
  negb ((c =? 34) || (c =? 40) || (c =? 41) || (c =? 123) || (c =? 125) ||
        (c =? 13) || (c =? 10) || (c =? 0)).
Definition atomic (p : list Z) : Prop := forallb plain p = true.

Lemma step_plain d c : plain c = true -> step (StN d) c = Next (StN d).
Proof.
  unfold plain. intros H. apply negb_true_iff in H.
  repeat (apply orb_false_iff in H; destruct H as [H ?]).
  cbn [step]. repeat match goal with E : (c =? _) = false |- _ => rewrite E; clear E end.
  reflexivity.
Qed.

Lemma balanced_nil : balanced [].
Proof. intros d. reflexivity. Qed.

Lemma balanced_app a b : balanced a -> balanced b -> balanced (a ++ b).
Proof. intros Ha Hb d. rewrite feed_app, Ha. apply Hb. Qed.

Lemma balanced_atomic p : atomic p -> balanced p.
Proof.
  unfold atomic. induction p as [|c t IH]; intros H d; [reflexivity|].
  cbn [forallb] in H. apply andb_prop in H as [Hc Ht].
  cbn [feed]. rewrite step_plain by exact Hc. apply IH, Ht.
Qed.

Lemma balanced_paren p : balanced p -> balanced (paren p).
Proof.
  intros H d. unfold paren. cbn [feed step Z.eqb Pos.eqb].
  rewrite feed_app, H. reflexivity.
Qed.

Lemma balanced_join sep ps : balanced sep -> Forall balanced ps -> balanced (join sep ps).
Proof.
  intros Hs H. induction H as [|p rest Hp Hrest IH]; [apply balanced_nil|].
  destruct rest as [|q rest]; [exact Hp|].
  change (join sep (p :: q :: rest)) with (p ++ sep ++ join sep (q :: rest)).
  apply balanced_app; [exact Hp|]. apply balanced_app; [exact Hs|exact IH].
Qed.

Lemma balanced_sp : balanced [SP].
Proof. intros d. reflexivity. Qed.

(* quoted strings *)
Lemma feed_quoted_plain d c t : c <> 34 -> c <> 92 -> is_forbidden c = false ->
  feed (StQ d) (c :: t) = feed (StQ d) t.
Proof.
  intros H1 H2 H3. cbn [feed step]. apply Z.eqb_neq in H1, H2. rewrite H1, H2, H3. reflexivity.
Qed.

Lemma feed_quoted_escaped d c t : is_qspecial c = true ->
  feed (StQ d) (92 :: c :: t) = feed (StQ d) t.
Proof.
  intros H.
  change (feed (StQ d) (92 :: c :: t)) with
    (match (if is_qspecial c then Next (StQ d) else Bad) with Next s' => feed s' t | _ => None end).
  rewrite H. reflexivity.
Qed.

Lemma feed_escape d b : forall l, needs_literal b = false ->
  feed (StQ d) (escape b ++ l) = feed (StQ d) l.
Proof.
  induction b as [|c t IH]; intros l H; [reflexivity|].
  apply needs_literal_cons in H as [Hc Ht]. rewrite escape_cons, <- app_assoc.
  destruct (esc_cases c) as [[-> ->]|[[-> ->]|[H1 [H2 ->]]]].
  - rewrite app2. rewrite feed_quoted_escaped by reflexivity. apply IH, Ht.
  - rewrite app2. rewrite feed_quoted_escaped by reflexivity. apply IH, Ht.
  - rewrite app1. rewrite feed_quoted_plain by assumption. apply IH, Ht.
Qed.

Lemma balanced_quoted b : needs_literal b = false -> balanced (quoted b).
Proof.
  intros H d. unfold quoted, DQ. cbn [feed step Z.eqb Pos.eqb].
  rewrite feed_escape by exact H. reflexivity.
Qed.

(* literals *)
Lemma step_digit d acc seen b k : digit_val b = Some k ->
  step (StLB d acc seen) b = Next (StLB d (10 * acc + k)%N true).
Proof. intros H. cbn [step]. rewrite H. reflexivity. Qed.

Ltac feed_digit :=
  match goal with
  | |- feed (StLB ?d ?a ?sn) ((?b :: ?u) ++ ?rest) = _ =>
      change ((b :: u) ++ rest) with (b :: (u ++ rest));
      cbn [feed]; rewrite (step_digit d a sn b _ eq_refl)
  end.

Lemma feed_digits u : forall d acc l,
  feed (StLB d acc true) (uint_bytes u ++ l) = feed (StLB d (uval acc u) true) l.
Proof.
  induction u as [|u IH|u IH|u IH|u IH|u IH|u IH|u IH|u IH|u IH|u IH]; intros d acc l;
    cbn [uint_bytes uval]; [reflexivity|..]; (feed_digit; apply IH).
Qed.

Lemma feed_dec d n l : feed (StLB d 0%N false) (dec n ++ l) = feed (StLB d n true) l.
Proof.
  unfold dec. pose proof (to_uint_nonnil n) as Hnn. pose proof (uval_to_uint n) as Hv.
  destruct (N.to_uint n) as [|u|u|u|u|u|u|u|u|u|u]; [contradiction|..];
    cbn [uint_bytes uval] in *; (feed_digit; rewrite feed_digits; rewrite <- Hv; reflexivity).
Qed.

Lemma after_count_succ d k : after_count d (N.succ k) = StSK d (N.succ k).
Proof.
  unfold after_count. destruct (N.succ k =? 0)%N eqn:E; [apply N.eqb_eq in E; lia|reflexivity].
Qed.

Lemma feed_skip b : forall d l, feed (after_count d (blen b)) (b ++ l) = feed (StN d) l.
Proof.
  induction b as [|x t IH]; intros d l; [reflexivity|].
  unfold blen. cbn [List.length]. rewrite Nat2N.inj_succ. fold (blen t).
  rewrite after_count_succ. cbn [Datatypes.app feed step]. rewrite N.pred_succ. apply IH.
Qed.

Lemma feed_literal d b l : feed (StN d) (literal b ++ l) = feed (StN d) l.
Proof.
  rewrite literal_app. cbn [feed step Z.eqb Pos.eqb].
  rewrite feed_dec. cbn [feed step digit_val Z.leb Z.compare Pos.compare Pos.compare_cont andb
                         Z.eqb Pos.eqb].
  apply feed_skip.
Qed.

Lemma balanced_literal b : balanced (literal b).
Proof. intros d. rewrite <- (app_nil_r (literal b)). rewrite feed_literal. reflexivity. Qed.

Lemma balanced_enc_string b : balanced (enc_string b).
Proof.
  unfold enc_string. destruct (needs_literal b) eqn:E; [apply balanced_literal|apply balanced_quoted, E].
Qed.

Lemma balanced_NIL : balanced NIL.
Proof. intros d. reflexivity. Qed.

Lemma balanced_enc_nstring o : balanced (enc_nstring o).
Proof. destruct o; [apply balanced_enc_string|apply balanced_NIL]. Qed.

Lemma atomic_uint u : atomic (uint_bytes u).
Proof.
  unfold atomic. induction u; cbn [uint_bytes forallb]; try reflexivity; exact IHu.
Qed.

Lemma balanced_dec n : balanced (dec n).
Proof. apply balanced_atomic, atomic_uint. Qed.

(* a balanced fragment followed by CRLF is exactly one response *)
Lemma run_line p rest : balanced p -> run (StN 0) ((p ++ CRLF) ++ rest) = Some rest.
Proof.
  intros H. rewrite <- app_assoc. rewrite (run_feed p (StN 0) (StN 0)) by apply H. reflexivity.
Qed.

(* ------------------------------------------------------------------ assembled structures *)
Lemma balanced_address n m h : balanced (address n m h).
Proof.
  unfold address. apply balanced_paren, balanced_join; [apply balanced_sp|].
  repeat constructor; try apply balanced_enc_nstring; try apply balanced_enc_string; apply balanced_NIL.
Qed.

Lemma balanced_addr_list l : balanced (addr_list l).
Proof.
  destruct l as [|a l]; [apply balanced_NIL|].
  unfold addr_list. apply balanced_paren, balanced_join; [apply balanced_sp|].
  apply Forall_forall. intros x Hx. apply in_map_iff in Hx as [[[n m] h] [<- _]]. apply balanced_address.
Qed.

Lemma balanced_envelope e : balanced (envelope e).
Proof.
  unfold envelope. apply balanced_paren, balanced_join; [apply balanced_sp|].
  repeat constructor; try apply balanced_enc_nstring; apply balanced_addr_list.
Qed.

Lemma balanced_param_list ps : balanced (param_list ps).
Proof.
  destruct ps as [|p ps]; [apply balanced_NIL|].
  unfold param_list. apply balanced_paren, balanced_join; [apply balanced_sp|].
  apply Forall_forall. intros x Hx. apply in_flat_map in Hx as [kv [_ Hx]].
  cbn [In] in Hx. destruct Hx as [<-|[<-|[]]]; apply balanced_enc_string.
Qed.

Lemma balanced_list_head word attrs :
  atomic word -> Forall atomic attrs -> balanced (list_head word attrs).
Proof.
  intros Hw Ha. unfold list_head.
  apply balanced_app; [intros d; reflexivity|].
  apply balanced_app; [apply balanced_atomic, Hw|].
  apply balanced_app; [apply balanced_sp|].
  apply balanced_app; [|intros d; reflexivity].
  apply balanced_paren, balanced_join; [apply balanced_sp|].
  eapply Forall_impl; [|exact Ha]. intros a. apply balanced_atomic.
Qed.

Definition no_lit (b : list Z) : Prop := needs_literal b = false.

Definition ci_part (ci : list (list Z)) : list Z :=
  match ci with
  | [] => []
  | _ => SP :: paren (quoted W_CHILDINFO ++ [SP] ++ paren (join [SP] (map quoted ci)))
  end.

Lemma balanced_ci_part ci : Forall no_lit ci -> balanced (ci_part ci).
Proof.
  intros Hc. destruct ci as [|c ci]; [apply balanced_nil|].
  unfold ci_part. change (SP :: ?x) with ([SP] ++ x). apply balanced_app; [apply balanced_sp|].
  apply balanced_paren. apply balanced_app; [apply balanced_quoted; reflexivity|].
  apply balanced_app; [apply balanced_sp|].
  apply balanced_paren, balanced_join; [apply balanced_sp|].
  apply Forall_forall. intros x Hx. apply in_map_iff in Hx as [y [<- Hy]].
  apply balanced_quoted. rewrite Forall_forall in Hc. apply Hc, Hy.
Qed.

Lemma list_line_split attrs name ci :
  list_line attrs name ci = (list_head W_LIST attrs ++ enc_string name ++ ci_part ci) ++ CRLF.
Proof. unfold list_line. fold (ci_part ci). rewrite <- !app_assoc. reflexivity. Qed.

Lemma list_line_complete attrs name ci rest :
  Forall atomic attrs -> Forall no_lit ci ->
  run (StN 0) (list_line attrs name ci ++ rest) = Some rest.
Proof.
  intros Ha Hc. rewrite list_line_split. apply run_line.
  apply balanced_app; [apply balanced_list_head; [reflexivity|exact Ha]|].
  apply balanced_app; [apply balanced_enc_string|apply balanced_ci_part, Hc].
Qed.

Lemma lsub_line_complete attrs name rest :
  Forall atomic attrs -> run (StN 0) (lsub_line attrs name ++ rest) = Some rest.
Proof.
  intros Ha. unfold lsub_line. rewrite (app_assoc (list_head _ _)).
  apply run_line. apply balanced_app; [apply balanced_list_head; [reflexivity|exact Ha]|apply balanced_enc_string].
Qed.

Lemma status_line_complete name atts rest :
  Forall (fun a => atomic (fst a)) atts ->
  run (StN 0) (status_line name atts ++ rest) = Some rest.
Proof.
  intros Ha. unfold status_line.
  replace (star_sp ++ W_STATUS ++ [SP] ++ enc_string name ++ [SP] ++
           paren (join [SP] (map (fun a => fst a ++ [SP] ++ dec (snd a)) atts)) ++ CRLF)
    with ((star_sp ++ W_STATUS ++ [SP] ++ enc_string name ++ [SP] ++
           paren (join [SP] (map (fun a => fst a ++ [SP] ++ dec (snd a)) atts))) ++ CRLF)
    by (rewrite <- !app_assoc; reflexivity).
  apply run_line.
  apply balanced_app; [intros d; reflexivity|].
  apply balanced_app; [intros d; reflexivity|].
  apply balanced_app; [apply balanced_sp|].
  apply balanced_app; [apply balanced_enc_string|].
  apply balanced_app; [apply balanced_sp|].
  apply balanced_paren, balanced_join; [apply balanced_sp|].
  apply Forall_forall. intros x Hx. apply in_map_iff in Hx as [a [<- Hin]].
  rewrite Forall_forall in Ha.
  apply balanced_app; [apply balanced_atomic, Ha, Hin|].
  apply balanced_app; [apply balanced_sp|apply balanced_dec].
Qed.

Lemma search_line_complete nums rest : run (StN 0) (search_line nums ++ rest) = Some rest.
Proof.
  unfold search_line.
  replace (star_sp ++ W_SEARCH ++ [SP] ++ join [SP] (map dec nums) ++ CRLF)
    with ((star_sp ++ W_SEARCH ++ [SP] ++ join [SP] (map dec nums)) ++ CRLF)
    by (rewrite <- !app_assoc; reflexivity).
  apply run_line.
  apply balanced_app; [intros d; reflexivity|].
  apply balanced_app; [intros d; reflexivity|].
  apply balanced_app; [apply balanced_sp|].
  apply balanced_join; [apply balanced_sp|].
  apply Forall_forall. intros x Hx. apply in_map_iff in Hx as [n [<- _]]. apply balanced_dec.
Qed.

Lemma fetch_line_complete idx parts rest :
  Forall balanced parts -> run (StN 0) (fetch_line idx parts ++ rest) = Some rest.
Proof.
  intros Hp. unfold fetch_line.
  replace (star_sp ++ dec idx ++ [SP] ++ W_FETCH ++ [SP] ++ paren (join [SP] parts) ++ CRLF)
    with ((star_sp ++ dec idx ++ [SP] ++ W_FETCH ++ [SP] ++ paren (join [SP] parts)) ++ CRLF)
    by (rewrite <- !app_assoc; reflexivity).
  apply run_line.
  apply balanced_app; [intros d; reflexivity|].
  apply balanced_app; [apply balanced_dec|].
  apply balanced_app; [apply balanced_sp|].
  apply balanced_app; [intros d; reflexivity|].
  apply balanced_app; [apply balanced_sp|].
  apply balanced_paren, balanced_join; [apply balanced_sp|exact Hp].
Qed.

Lemma balanced_fetch_part name value : atomic name -> balanced value -> balanced (fetch_part name value).
Proof.
  intros Hn Hv. unfold fetch_part.
  apply balanced_app; [apply balanced_atomic, Hn|]. apply balanced_app; [apply balanced_sp|exact Hv].
Qed.

(* ------------------------------------------------------------------ status (text) lines *)
Definition no_forbidden (l : list Z) : Prop := forallb (fun c => negb (is_forbidden c)) l = true.

Lemma read_text_line_ok t : forall rest, no_forbidden t ->
  read_text_line ((t ++ CRLF) ++ rest) = Some (t, rest).
Proof.
  unfold no_forbidden. induction t as [|c t IH]; intros rest H; [reflexivity|].
  cbn [forallb] in H. apply andb_prop in H as [Hc Ht]. apply negb_true_iff in Hc.
  unfold is_forbidden in Hc. apply orb_false_iff in Hc as [Hc H0]. apply orb_false_iff in Hc as [H13 H10].
  cbn [Datatypes.app read_text_line]. rewrite H13, H10, H0. cbn [orb].
  rewrite IH by exact Ht. reflexivity.
Qed.

Lemma clean_no_forbidden t : no_forbidden (clean_text t).
Proof.
  unfold no_forbidden, clean_text. induction t as [|c t IH]; [reflexivity|].
  cbn [map forallb]. rewrite IH, andb_true_r.
  change (forbidden c) with (is_forbidden c).
  destruct (is_forbidden c) eqn:E; [reflexivity|rewrite E; reflexivity].
Qed.

Lemma clean_id t : no_forbidden t -> clean_text t = t.
Proof.
  unfold no_forbidden, clean_text. induction t as [|c t IH]; intros H; [reflexivity|].
  cbn [forallb] in H. apply andb_prop in H as [Hc Ht]. apply negb_true_iff in Hc.
  cbn [map]. change (forbidden c) with (is_forbidden c). rewrite Hc, IH by exact Ht. reflexivity.
Qed.

Lemma no_forbidden_app a b : no_forbidden a -> no_forbidden b -> no_forbidden (a ++ b).
Proof. unfold no_forbidden. intros Ha Hb. rewrite forallb_app, Ha, Hb. reflexivity. Qed.

Lemma tagged_line_complete tag st text rest : no_forbidden tag -> no_forbidden st ->
  read_text_line (tagged_line tag st text ++ rest) =
  Some (tag ++ [SP] ++ st ++ [SP] ++ clean_text text, rest).
Proof.
  intros Ht Hs. unfold tagged_line.
  replace (tag ++ [SP] ++ st ++ [SP] ++ clean_text text ++ CRLF)
    with ((tag ++ [SP] ++ st ++ [SP] ++ clean_text text) ++ CRLF)
    by (rewrite <- !app_assoc; reflexivity).
  apply read_text_line_ok.
  repeat apply no_forbidden_app; try assumption; try reflexivity. apply clean_no_forbidden.
Qed.

(* the exception arm *)
Lemma is_ws_false c : is_ws c = false -> (c =? 13) = false /\ (c =? 10) = false.
Proof.
  intros H. split.
  - destruct (c =? 13) eqn:E; [apply Z.eqb_eq in E; subst; discriminate H|reflexivity].
  - destruct (c =? 10) eqn:E; [apply Z.eqb_eq in E; subst; discriminate H|reflexivity].
Qed.

Definition no_nul (l : list Z) : Prop := forallb (fun c => negb (c =? 0)) l = true.

Lemma collapse_no_forbidden l : forall a b, no_nul l -> no_forbidden (collapse a b l).
Proof.
  unfold no_nul, no_forbidden. induction l as [|c t IH]; intros a b H; [reflexivity|].
  cbn [forallb] in H. apply andb_prop in H as [Hc Ht]. apply negb_true_iff in Hc.
  cbn [collapse]. destruct (is_ws c) eqn:W; [apply IH, Ht|].
  destruct (is_ws_false c W) as [H13 H10].
  assert (Hf : negb (is_forbidden c) = true).
  { unfold is_forbidden. rewrite H13, H10, Hc. reflexivity. }
  rewrite forallb_app, (IH true false Ht), andb_true_r.
  destruct (a && b); cbn [forallb]; rewrite Hf; reflexivity.
Qed.

Lemma exc_line_complete tag text rest : no_forbidden tag -> no_nul text ->
  read_text_line (exc_line tag text ++ rest) =
  Some (tag ++ [SP] ++ EXC_PREFIX ++ ws_collapse text, rest).
Proof.
  intros Ht Hn. unfold exc_line.
  replace (tag ++ [SP] ++ EXC_PREFIX ++ ws_collapse text ++ CRLF)
    with ((tag ++ [SP] ++ EXC_PREFIX ++ ws_collapse text) ++ CRLF)
    by (rewrite <- !app_assoc; reflexivity).
  apply read_text_line_ok.
  repeat apply no_forbidden_app; try assumption; try reflexivity.
  apply collapse_no_forbidden, Hn.
Qed.

(* ------------------------------------------------------------------ the unrepaired formatters fail *)
Lemma refuted_old_quote :
  exists b, needs_literal b = false /\ read_string (enc_string_old b) <> Some (b, []).
Proof. exists [97; 34; 98]. split; [reflexivity|]. vm_compute. discriminate. Qed.

Lemma refuted_old_list_line :
  exists name, needs_literal name = false /\ run (StN 0) (list_line_old [] name) = None.
Proof. exists [97; 34; 98]. split; reflexivity. Qed.

Lemma refuted_old_nocrlf :
  exists tag st text, no_forbidden tag /\ no_forbidden st /\ no_forbidden text /\
    read_text_line (tagged_line_old_nocrlf tag st text) = None.
Proof. exists [116], [66; 65; 68], [120]. repeat split. Qed.

(* ------------------------------------------------------------------ packaged statements *)
Lemma literal_choice b rest : needs_literal b = true ->
  enc_string b = literal b /\ read_literal (literal b ++ rest) = Some (b, rest).
Proof. intros H. split; [apply enc_string_literal, H|apply read_literal_literal]. Qed.

Lemma balanced_assembly sep ps p :
  balanced sep -> Forall balanced ps -> balanced p ->
  balanced (join sep ps) /\ balanced (paren p).
Proof. intros Hs Hps Hp. split; [apply balanced_join; assumption|apply balanced_paren, Hp]. Qed.
