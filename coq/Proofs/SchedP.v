(* Proofs/SchedP.v — C10: the admission relation is sound for the commands' footprints, commuting
   steps make every interleaving equal to a serial execution, and the one-mailbox-at-a-time
   discipline of COPY/MOVE excludes deadlock. *)
From Asimap Require Import Base.Res Model.Sched.
From Coq Require Import ZifyBool.
Open Scope Z_scope.

Lemma existsb_false_in {A} (f : A -> bool) l x : existsb f l = false -> In x l -> f x = false.
Proof.
  intros H Hin. destruct (f x) eqn:E; [|reflexivity].
  assert (existsb f l = true) by (apply existsb_exists; exists x; auto). congruence.
Qed.

Lemma ext_meet_sets a b : ext_meet (ESet a) (ESet b) = existsb (fun v => zmem v b) a.
Proof. reflexivity. Qed.

(* The one asymmetry of would_conflict: a FETCH without non-PEEK body parts arriving while a
   non-PEEK FETCH on some of the same messages runs is let in (the other order is not). *)
Definition asym (running : list cmd) (c : cmd) : bool :=
  match c_kind c with
  | KFetch true => existsb (fun r => match c_kind r with KFetch false => intersect c r | _ => false end) running
  | _ => false
  end.

(* a command let in by would_conflict does not clash with anything that is running *)
Theorem conflict_sound running deleted c r delr :
  would_conflict running deleted c = false -> asym running c = false ->
  In r running -> fp_clash (fp deleted c) (fp delr r) = false.
Proof.
  intros Hw Ha Hin. unfold would_conflict in Hw. destruct running as [|r0 rs]; [destruct Hin|].
  destruct (existsb (fun r => conflicting_kind (c_kind r)) (r0 :: rs)) eqn:Ec; [discriminate|].
  pose proof (existsb_false_in _ _ _ Ec Hin) as Hr. cbv beta in Hr.
  destruct c as [kc sc]. destruct r as [kr sr]. unfold asym in Ha. cbn [c_kind] in *.
  destruct kc as [| | | | | | | |[|]| | | | | |]; cbn [c_kind] in Hw; try discriminate Hw;
    try (pose proof (existsb_false_in _ _ _ Hw Hin) as Hp; cbv beta in Hp; cbn [c_kind] in Hp);
    try (pose proof (existsb_false_in _ _ _ Ha Hin) as Hq; cbv beta in Hq; cbn [c_kind] in Hq).
  all: try match type of Hw with
           | (_ || existsb _ _)%bool = false =>
               apply orb_false_elim in Hw; destruct Hw as [Hd Hs]; subst deleted;
               pose proof (existsb_false_in _ _ _ Hs Hin) as Hp; cbv beta in Hp; cbn [c_kind] in Hp
           end.
  all: destruct kr as [| | | | | | | |[|]| | | | | |]; try discriminate Hr.
  all: try (cbn [c_kind c_set] in Hp); try discriminate Hp.
  all: unfold fp, fp_clash, fp_all; cbn [c_kind c_set f_wlist f_rlist f_wflags f_rflags f_wdel f_rdel andb orb ext_meet].
  all: try reflexivity.
  all: try (unfold intersect in Hp; cbn [c_set] in Hp; rewrite ?Hp; reflexivity).
  all: try (unfold intersect in Hq; cbn [c_set] in Hq; rewrite ?Hq; reflexivity).
Qed.

(* EXPUNGE with nothing marked \Deleted yet is not let in next to a running STORE (it was, in the pinned code:
   the STORE then marked a message, the EXPUNGE removed it, and the STORE's FETCH notification for a message
   that no longer existed followed the EXPUNGE); next to commands that cannot mark anything it still is. *)
Example expunge_waits_for_store :
  let store := {| c_kind := KStore; c_set := [2] |} in
  let fetch := {| c_kind := KFetch true; c_set := [2] |} in
  let exp := {| c_kind := KExpunge; c_set := [] |} in
  fp_clash (fp false exp) (fp false store) = true /\ would_conflict [store] false exp = true /\ would_conflict [fetch] false exp = false.
Proof. repeat split. Qed.

Example conflict_asymmetry :
  let nonpeek := {| c_kind := KFetch false; c_set := [1] |} in
  let peek := {| c_kind := KFetch true; c_set := [1] |} in
  would_conflict [nonpeek] false peek = false /\ would_conflict [peek] false nonpeek = true /\
  fp_clash (fp false peek) (fp false nonpeek) = true.
Proof. repeat split. Qed.


(* ------------------------------------------------------------------ interleavings *)
Section InterleaveP.
  Context {S : Type}.
  Notation astep := (@astep S).

  Lemma runs_app (a b : list astep) s : runs (a ++ b) s = runs b (runs a s).
  Proof. unfold runs. apply fold_left_app. Qed.

  Lemma runs_cons (f : astep) (l : list astep) s : runs (f :: l) s = runs l (f s).
  Proof. reflexivity. Qed.

  Lemma move_front (y : astep) (a : list astep) : (forall f, In f a -> commute f y) -> forall s, runs a (y s) = y (runs a s).
  Proof.
    induction a as [|f a IH]; intros H s; [reflexivity|]. rewrite !runs_cons.
    rewrite (H f (or_introl eq_refl)). apply IH. intros g Hg. apply H. right; exact Hg.
  Qed.

  (* two commands whose steps commute: every interleaving = first one, then the other *)
  Theorem interleave_serial (a b l : list astep) :
    interleave a b l -> (forall f g, In f a -> In g b -> commute f g) -> forall s, runs l s = runs (a ++ b) s.
  Proof.
    induction 1 as [|x a b l _ IH|y a b l _ IH]; intros Hc s.
    - reflexivity.
    - cbn [app]. rewrite !runs_cons. apply IH. intros f g Hf Hg. apply Hc; [right; exact Hf|exact Hg].
    - rewrite runs_cons. rewrite IH by (intros f g Hf Hg; apply Hc; [exact Hf|right; exact Hg]).
      rewrite !runs_app, runs_cons. f_equal.
      apply move_front. intros f Hf. apply Hc; [exact Hf|left; reflexivity].
  Qed.

  Lemma interleave_in (a b l : list astep) : interleave a b l -> forall f, In f l -> In f a \/ In f b.
  Proof.
    induction 1 as [|x a b l _ IH|y a b l _ IH]; intros f Hf; [destruct Hf| |].
    - destruct Hf as [<-|Hf]; [left; left; reflexivity|]. destruct (IH f Hf); [left; right|right]; trivial.
    - destruct Hf as [<-|Hf]; [right; left; reflexivity|]. destruct (IH f Hf); [left|right; right]; trivial.
  Qed.

  Lemma interleave_all_in (cs : list (list astep)) (l : list astep) : interleave_all cs l -> forall f, In f l -> exists c, In c cs /\ In f c.
  Proof.
    induction 1 as [|c cs l l' _ IH Hi]; intros f Hf; [destruct Hf|].
    destruct (interleave_in _ _ _ Hi f Hf) as [H|H]; [exists c; split; [left; reflexivity|exact H]|].
    destruct (IH f H) as [c0 [H1 H2]]. exists c0. split; [right; exact H1|exact H2].
  Qed.

  (* any number of commands with pairwise commuting steps: every interleaving equals the serial
     execution in the listed order (hence, the order being arbitrary, in any order) *)
  Theorem interleave_all_serial (cs : list (list astep)) (l : list astep) :
    interleave_all cs l ->
    (forall c1 c2 f g, In c1 cs -> In c2 cs -> c1 <> c2 -> In f c1 -> In g c2 -> commute f g) ->
    NoDup cs ->
    forall s, runs l s = runs (List.concat cs) s.
  Proof.
    induction 1 as [|c cs l l' Hall IH Hi]; intros Hc Hnd s; [reflexivity|].
    inversion Hnd as [|? ? Hnotin Hnd']; subst.
    rewrite (interleave_serial _ _ _ Hi).
    - cbn [List.concat]. rewrite !runs_app. apply IH; [|exact Hnd'].
      intros c1 c2 f g H1 H2 Hne Hf Hg. apply (Hc c1 c2); trivial; right; trivial.
    - intros f g Hf Hg. destruct (interleave_all_in _ _ Hall g Hg) as [c0 [H0 Hg0]].
      apply (Hc c c0); trivial; [left; reflexivity|right; exact H0|]. intros ->. contradiction.
  Qed.
End InterleaveP.

(* ------------------------------------------------------------------ no deadlock *)
Lemma ok_do_action t : task_ok t = true -> task_ok (do_action t) = true.
Proof.
  destruct t as [sc h]. unfold task_ok, do_action, holding. cbn [t_script t_holds].
  destruct sc as [|[m| |] r]; cbn [script_ok t_script t_holds]; intros H; trivial.
  - apply andb_prop in H. tauto.
  - apply andb_prop in H. tauto.
Qed.

Lemma all_ok_step ts ts' : sys_step ts ts' -> forallb task_ok ts = true -> forallb task_ok ts' = true.
Proof.
  intros [pre t post He] H. rewrite forallb_app in *. cbn [forallb] in *.
  apply andb_prop in H. destruct H as [H1 H2]. apply andb_prop in H2. destruct H2 as [H2 H3].
  rewrite H1, H3, (ok_do_action t H2). reflexivity.
Qed.

Definition wants_no_mailbox (t : task) : bool :=
  match t_script t with Rel :: _ | Work :: _ => true | _ => false end.

Lemma free_of_ok_acq t : task_ok t = true -> wants_no_mailbox t = false -> t_holds t = [].
Proof.
  unfold task_ok, wants_no_mailbox, holding. destruct (t_script t) as [|a r].
  - cbn [script_ok]. destruct (t_holds t); [reflexivity|discriminate].
  - destruct a as [m| |]; try discriminate. cbn [script_ok]. destruct (t_holds t); [reflexivity|discriminate].
Qed.

(* PROGRESS: as long as some command is unfinished, some command can take a step *)
Theorem progress ts :
  forallb task_ok ts = true -> existsb unfinished ts = true -> exists t, In t ts /\ enabled ts t = true.
Proof.
  intros Hok Hun. destruct (existsb wants_no_mailbox ts) eqn:Ew.
  - apply existsb_exists in Ew. destruct Ew as [t [Hin Hw]]. exists t. split; [exact Hin|].
    unfold enabled, wants_no_mailbox in *. destruct (t_script t) as [|[m| |] r]; try discriminate; reflexivity.
  - apply existsb_exists in Hun. destruct Hun as [t [Hin Hu]]. exists t. split; [exact Hin|].
    assert (Hfree : forall m, held ts m = false).
    { intros m. unfold held. destruct (existsb (fun t0 => zmem m (t_holds t0)) ts) eqn:E; [|reflexivity].
      apply existsb_exists in E. destruct E as [t0 [Hin0 Hz]].
      rewrite forallb_forall in Hok. rewrite (free_of_ok_acq t0 (Hok t0 Hin0) (existsb_false_in _ _ _ Ew Hin0)) in Hz. discriminate. }
    unfold enabled, unfinished in *. pose proof (existsb_false_in _ _ _ Ew Hin) as Hw. unfold wants_no_mailbox in Hw.
    destruct (t_script t) as [|[m| |] r]; try discriminate. rewrite Hfree. reflexivity.
Qed.

(* the scripts of single-mailbox commands, COPY and MOVE obey the discipline *)
Lemma scripts_ok m src dst :
  script_ok false (script_single m) = true /\ script_ok false (script_copy src dst) = true /\
  script_ok false (script_move src dst) = true.
Proof. repeat split. Qed.

(* mutual exclusion: a mailbox is never held twice *)
Definition all_holds (ts : list task) : list Z := List.concat (map t_holds ts).
Lemma held_in ts m : held ts m = false -> ~ In m (all_holds ts).
Proof.
  unfold held, all_holds. intros H Hin. apply in_concat in Hin. destruct Hin as [l [Hl Hm]].
  apply in_map_iff in Hl. destruct Hl as [t [<- Ht]]. pose proof (existsb_false_in _ _ _ H Ht) as Hz. cbv beta in Hz.
  unfold zmem in Hz. assert (existsb (Z.eqb m) (t_holds t) = true) by (apply existsb_exists; exists m; split; [exact Hm|apply Z.eqb_refl]).
  congruence.
Qed.
Theorem mutex_step ts ts' : sys_step ts ts' -> forallb task_ok ts = true -> NoDup (all_holds ts) -> NoDup (all_holds ts').
Proof.
  intros [pre t post He] Hok Hnd. unfold all_holds in *. rewrite map_app, concat_app in *. cbn [map List.concat] in *.
  set (P := List.concat (map t_holds pre)) in *. set (Q := List.concat (map t_holds post)) in *.
  unfold do_action, enabled in *. destruct (t_script t) as [|[m| |] r] eqn:Es; [discriminate| | |].
  - cbn [t_holds]. assert (Hfree : t_holds t = []).
    { rewrite forallb_app in Hok. cbn [forallb] in Hok. apply andb_prop in Hok. destruct Hok as [_ Hok].
      apply andb_prop in Hok. destruct Hok as [Hok _]. unfold task_ok, holding in Hok. rewrite Es in Hok. cbn [script_ok] in Hok.
      destruct (t_holds t); [reflexivity|discriminate]. }
    apply negb_true_iff in He. apply held_in in He. unfold all_holds in He. rewrite map_app, concat_app in He.
    cbn [map List.concat] in He. fold P Q in He. rewrite Hfree in *. cbn [app] in *.
    apply (NoDup_Add (Add_app m P Q)). split; assumption.
  - cbn [t_holds app]. clear -Hnd. induction P as [|x l IH]; cbn [app] in *.
    + induction (t_holds t) as [|y h IHh]; cbn [app] in Hnd; [exact Hnd|]. inversion Hnd; subst. apply IHh; assumption.
    + inversion Hnd as [|? ? Hx Hl]; subst. constructor; [|apply IH; exact Hl].
      intros Hin. apply Hx. apply in_app_or in Hin. apply in_or_app. destruct Hin; [left; trivial|right; apply in_or_app; right; trivial].
  - cbn [t_holds]. exact Hnd.
Qed.

(* if COPY kept its source while asking for the destination, two opposite copies deadlock *)
Definition bad_copy (src dst : Z) : list action := [Acq src; Work; Acq dst; Work; Rel; Rel].
Example holding_while_asking_deadlocks :
  let ts := [ {| t_script := [Acq 2; Work; Rel; Rel]; t_holds := [1] |};
              {| t_script := [Acq 1; Work; Rel; Rel]; t_holds := [2] |} ] in
  existsb unfinished ts = true /\ forallb (fun t => negb (enabled ts t)) ts = true.
Proof. split; vm_compute; reflexivity. Qed.
