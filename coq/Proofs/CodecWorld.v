(* Proofs/CodecWorld.v — the text round trip of Proofs/CodecTextP.v applies to the UID list of every
   mailbox of every reachable world of Model/Mbox.v (C12, C02). *)
From Asimap Require Import Base.Res Spec.SetSem Model.Mbox Model.Codec Model.CodecText Proofs.CodecTextP Proofs.MboxInv Proofs.MboxUid Proofs.MboxKeys.
From Coq Require Import Sorting.Sorted Lia ZArith List.
Open Scope Z_scope.

Theorem reachable_uid_lists_persist ps pn pd ops n b :
  get_box (fst (run (init_world ps pn pd) ops)) n = Some b ->
  expand_text (compact_text (uids b)) = Some (uids b).
Proof.
  intros H. destruct (reachable_uinv ps pn pd ops n b H) as [Hs [Hr _]].
  apply expand_compact_text; [exact Hs|]. eapply Forall_impl; [|exact Hr]. intros u Hu. cbv beta in Hu. lia.
Qed.

(* the same for the message-key column (msg_keys), by the key invariant of Proofs/MboxKeys.v *)
Theorem reachable_key_lists_persist ps pn pd ops n b :
  get_box (fst (run (init_world ps pn pd) ops)) n = Some b ->
  expand_text (compact_text (map m_key (b_msgs b))) = Some (map m_key (b_msgs b)).
Proof.
  intros H. destruct (reachable_keys_ascending ps pn pd ops n b H) as [Hs Hp].
  apply expand_compact_text; assumption.
Qed.
