(* Proofs/Pop3P.v — proofs for C20.
   Part 1: dot-stuffing and framing, about the GENERATED dot_stuff (Gen/DotStuff.v).
   Part 2: the session machine of Model/Pop3M.v under interleaved IMAP events. *)
From Asimap Require Import Base.Res Base.Bytes Gen.DotStuff Spec.Pop3Spec Model.Pop3M.
Open Scope Z_scope.
Open Scope list_scope.

(* ====================================================================== Part 1 *)

Lemma list_ind2 {A} (P : list A -> Prop) :
  P [] -> (forall x, P [x]) -> (forall x y l, P l -> P (y :: l) -> P (x :: y :: l)) -> forall l, P l.
Proof.
  intros H0 H1 H2.
  assert (forall l, P l /\ forall x, P (x :: l)) as H.
  { induction l as [|y l [IHa IHb]]; split; auto. }
  intros l; apply H.
Qed.

Notation sp := (split2 13 10).
Notation jn := (bytes_join [13; 10]).

Fixpoint has_crlf (l : list Z) : bool :=
  match l with
  | x :: l' => match l' with y :: _ => ((x =? 13) && (y =? 10)) || has_crlf l' | [] => false end
  | [] => false
  end.

Lemma split2_app_crlf X Y : sp (X ++ 13 :: 10 :: Y) = sp X ++ sp Y.
Proof.
  revert X; apply (list_ind2 (fun X => sp (X ++ 13 :: 10 :: Y) = sp X ++ sp Y)).
  - reflexivity.
  - intros x. cbn [app]. rewrite split2_cons2.
    replace (13 =? 10) with false by reflexivity. rewrite andb_false_r.
    rewrite split2_cons2. cbn. reflexivity.
  - intros x y l IH1 IH2. cbn [app]. rewrite !split2_cons2.
    destruct ((x =? 13) && (y =? 10)).
    + rewrite IH1; reflexivity.
    + change (y :: l ++ 13 :: 10 :: Y) with ((y :: l) ++ 13 :: 10 :: Y). rewrite IH2.
      pose proof (split2_nonempty 13 10 (y :: l)) as Hne.
      destruct (sp (y :: l)) as [|h t]; [contradiction|]. reflexivity.
Qed.

Lemma join_cons_head x h t : jn ((x :: h) :: t) = x :: jn (h :: t).
Proof. destruct t; reflexivity. Qed.

Lemma join_split d : jn (sp d) = d.
Proof.
  revert d; apply (list_ind2 (fun d => jn (sp d) = d)).
  - reflexivity.
  - reflexivity.
  - intros x y l IH1 IH2. rewrite split2_cons2.
    destruct ((x =? 13) && (y =? 10)) eqn:E.
    + apply andb_prop in E; destruct E as [E1 E2].
      apply Z.eqb_eq in E1; apply Z.eqb_eq in E2; subst x y.
      pose proof (split2_nonempty 13 10 l) as Hne.
      destruct (sp l) as [|h t] eqn:El; [contradiction|].
      change (jn ([] :: h :: t)) with ([] ++ [13; 10] ++ jn (h :: t)). rewrite IH1. reflexivity.
    + pose proof (split2_nonempty 13 10 (y :: l)) as Hne.
      destruct (sp (y :: l)) as [|h t] eqn:El; [contradiction|].
      rewrite join_cons_head, IH2. reflexivity.
Qed.

Lemma split2_nocrlf l : has_crlf l = false -> sp l = [l].
Proof.
  revert l; apply (list_ind2 (fun l => has_crlf l = false -> sp l = [l])).
  - reflexivity.
  - reflexivity.
  - intros x y l _ IH2 H. cbn [has_crlf] in H. apply orb_false_iff in H; destruct H as [Hc Hr].
    rewrite split2_cons2, Hc. rewrite (IH2 Hr). reflexivity.
Qed.

Lemma split2_head y l h t : sp (y :: l) = h :: t -> h = [] \/ exists h', h = y :: h'.
Proof.
  destruct l as [|z l].
  - cbn. intros H; inversion H; right; eexists; reflexivity.
  - rewrite split2_cons2. destruct ((y =? 13) && (z =? 10)).
    + intros H; inversion H; left; reflexivity.
    + destruct (sp (z :: l)); intros H; inversion H; right; eexists; reflexivity.
Qed.

Lemma lines_nocrlf d : Forall (fun l => has_crlf l = false) (sp d).
Proof.
  revert d; apply (list_ind2 (fun d => Forall (fun l => has_crlf l = false) (sp d))).
  - repeat constructor.
  - intros x; repeat constructor.
  - intros x y l IH1 IH2. rewrite split2_cons2.
    destruct ((x =? 13) && (y =? 10)) eqn:E.
    + constructor; [reflexivity|exact IH1].
    + destruct (sp (y :: l)) as [|h t] eqn:El.
      * repeat constructor.
      * inversion IH2 as [|? ? Hh Ht]; subst. constructor; [|exact Ht].
        destruct (split2_head _ _ _ _ El) as [->|[h' ->]]; [reflexivity|].
        cbn [has_crlf]. cbn [has_crlf] in Hh. rewrite E. exact Hh.
Qed.

Lemma split_join ls : ls <> [] -> Forall (fun l => has_crlf l = false) ls -> sp (jn ls) = ls.
Proof.
  induction ls as [|l ls IH]; [congruence|]. intros _ H.
  inversion H as [|? ? Hl Hr]; subst.
  destruct ls as [|l2 r].
  - cbn [bytes_join]. apply split2_nocrlf; exact Hl.
  - change (jn (l :: l2 :: r)) with (l ++ 13 :: 10 :: jn (l2 :: r)).
    rewrite split2_app_crlf, (split2_nocrlf _ Hl), IH; [reflexivity|congruence|exact Hr].
Qed.

Lemma join_app_nil ls : ls <> [] -> jn (ls ++ [[]]) = jn ls ++ [13; 10].
Proof.
  induction ls as [|l ls IH]; [congruence|]. intros _.
  destruct ls as [|l2 r].
  - cbn. rewrite ?app_nil_r. reflexivity.
  - change (jn ((l :: l2 :: r) ++ [[]])) with (l ++ [13; 10] ++ jn ((l2 :: r) ++ [[]])).
    rewrite IH by congruence.
    change (jn (l :: l2 :: r)) with (l ++ [13; 10] ++ jn (l2 :: r)).
    rewrite <- !app_assoc. reflexivity.
Qed.

Lemma concat_lines ls : ls <> [] -> List.concat (map (fun l => l ++ crlf) ls) = jn ls ++ crlf.
Proof.
  induction ls as [|l ls IH]; [congruence|]. intros _.
  destruct ls as [|l2 r].
  - cbn. rewrite ?app_nil_r. reflexivity.
  - cbn [map List.concat]. cbn [map List.concat] in IH. rewrite IH by congruence.
    change (jn (l :: l2 :: r)) with (l ++ [13; 10] ++ jn (l2 :: r)).
    unfold crlf. rewrite <- !app_assoc. reflexivity.
Qed.

(* ---- the line transformer of dot_stuff *)
Definition stuff_line (l : list Z) : list Z := if bytes_startswith l [46] then 46 :: l else l.
Definition stuff (d : list Z) : list Z := jn (map stuff_line (sp d)).

Lemma for_each_stuff data lines ls acc :
  for_each (dot_stuff_body1 data lines) acc ls = Ok (acc ++ map stuff_line ls).
Proof.
  revert acc; induction ls as [|a ls IH]; intros acc; cbn [for_each map].
  - rewrite app_nil_r; reflexivity.
  - unfold dot_stuff_body1 at 1. unfold stuff_line at 1.
    destruct (bytes_startswith a [46]); rewrite IH, <- app_assoc; reflexivity.
Qed.

(* bridge: the generated function is `stuff` *)
Lemma dot_stuff_is_stuff d : dot_stuff d = Ok (stuff d).
Proof.
  unfold dot_stuff. change (bytes_split d [13; 10]) with (sp d).
  rewrite for_each_stuff. reflexivity.
Qed.

Lemma startswith_dot x l : bytes_startswith (x :: l) [46] = (46 =? x).
Proof. cbn [bytes_startswith]. destruct l; apply andb_true_r. Qed.

Lemma unstuff_stuff_line l : unstuff_line (stuff_line l) = l.
Proof.
  unfold stuff_line. destruct l as [|x l]; [reflexivity|].
  rewrite startswith_dot.
  destruct (46 =? x) eqn:E.
  - apply Z.eqb_eq in E; subst x. reflexivity.
  - cbn [unstuff_line]. rewrite Z.eqb_sym, E. reflexivity.
Qed.

Lemma stuff_line_not_dot l : is_dot (stuff_line l) = false.
Proof.
  unfold stuff_line. destruct l as [|x l]; [reflexivity|].
  rewrite startswith_dot.
  destruct (46 =? x) eqn:E; [reflexivity|].
  destruct l; [|reflexivity]. cbn [is_dot]. rewrite Z.eqb_sym; exact E.
Qed.

Lemma stuff_line_nocrlf l : has_crlf l = false -> has_crlf (stuff_line l) = false.
Proof.
  unfold stuff_line. destruct (bytes_startswith l [46]); [|trivial].
  intros H. destruct l; [reflexivity|]. cbn [has_crlf]. cbn [has_crlf] in H. exact H.
Qed.

Lemma lines_stuff d : lines (stuff d) = map stuff_line (sp d).
Proof.
  unfold lines, stuff. apply split_join.
  - pose proof (split2_nonempty 13 10 d). destruct (sp d); [contradiction|discriminate].
  - pose proof (lines_nocrlf d) as H. induction H; constructor; [apply stuff_line_nocrlf; assumption|assumption].
Qed.

(* un-stuffing gives back the data, for every byte string *)
Lemma unstuff_stuff d : unstuff (stuff d) = d.
Proof.
  unfold unstuff. rewrite lines_stuff, map_map.
  rewrite (map_ext _ (fun l => l) unstuff_stuff_line), map_id. apply join_split.
Qed.

(* no line of the stuffed payload is a lone "." *)
Lemma stuff_no_lone_dot d : Forall (fun l => is_dot l = false) (lines (stuff d)).
Proof.
  rewrite lines_stuff. apply Forall_forall. intros l Hl. apply in_map_iff in Hl.
  destruct Hl as [l0 [<- _]]. apply stuff_line_not_dot.
Qed.

Lemma collect_stuffed ls :
  collect (map stuff_line ls ++ [[46]; []]) = Some (List.concat (map (fun l => l ++ crlf) ls)).
Proof.
  induction ls as [|a ls IH]; [reflexivity|].
  cbn [map app collect List.concat]. rewrite stuff_line_not_dot, IH, unstuff_stuff_line.
  rewrite <- app_assoc. reflexivity.
Qed.

(* the payload followed by CRLF "." CRLF is read back as the data followed by CRLF *)
Lemma receive_stuffed d : receive (stuff d ++ 13 :: 10 :: [46; 13; 10]) = Some (d ++ crlf).
Proof.
  unfold receive, lines. rewrite split2_app_crlf.
  fold (lines (stuff d)). rewrite lines_stuff.
  change (sp [46; 13; 10]) with [[46]; []].
  rewrite collect_stuffed, concat_lines, join_split; [reflexivity|].
  pose proof (split2_nonempty 13 10 d). exact H.
Qed.

(* ---- ends_crlf *)
Lemma ends_crlf_app p : ends_crlf (p ++ [13; 10]) = true.
Proof.
  induction p as [|x p IH]; [reflexivity|].
  destruct p as [|y p]; [reflexivity|].
  cbn [app] in *. cbn [ends_crlf]. destruct p; exact IH.
Qed.

Lemma ends_crlf_inv l : ends_crlf l = true -> exists p, l = p ++ [13; 10].
Proof.
  induction l as [|x l IH]; [discriminate|].
  destruct l as [|y l]; [discriminate|].
  destruct l as [|z l].
  - cbn. intros H. apply andb_prop in H; destruct H as [H1 H2].
    apply Z.eqb_eq in H1; apply Z.eqb_eq in H2; subst. exists []; reflexivity.
  - intros H. change (ends_crlf (x :: y :: z :: l)) with (ends_crlf (y :: z :: l)) in H.
    destruct (IH H) as [p Hp]. exists (x :: p). rewrite Hp. reflexivity.
Qed.

Lemma sp_app_crlf d : sp (d ++ [13; 10]) = sp d ++ [[]].
Proof. apply (split2_app_crlf d []). Qed.

Lemma sp_ne d : sp d <> [].
Proof. apply split2_nonempty. Qed.

Lemma stuff_app_crlf d : stuff (d ++ [13; 10]) = stuff d ++ [13; 10].
Proof.
  unfold stuff. rewrite sp_app_crlf, map_app. cbn [map].
  change (stuff_line []) with (@nil Z). apply join_app_nil.
  pose proof (sp_ne d). destruct (sp d); [contradiction|discriminate].
Qed.

Lemma unstuff_app_crlf p : unstuff (p ++ [13; 10]) = unstuff p ++ [13; 10].
Proof.
  unfold unstuff, lines. rewrite sp_app_crlf, map_app. cbn [map].
  change (unstuff_line []) with (@nil Z). apply join_app_nil.
  pose proof (sp_ne p). destruct (sp p); [contradiction|discriminate].
Qed.

Lemma ends_crlf_stuff d : ends_crlf (stuff d) = ends_crlf d.
Proof.
  destruct (ends_crlf d) eqn:Ed.
  - destruct (ends_crlf_inv _ Ed) as [p ->]. rewrite stuff_app_crlf. apply ends_crlf_app.
  - destruct (ends_crlf (stuff d)) eqn:Es; [|reflexivity].
    destruct (ends_crlf_inv _ Es) as [p Hp].
    pose proof (unstuff_stuff d) as Hu. rewrite Hp, unstuff_app_crlf in Hu.
    rewrite <- Hu, ends_crlf_app in Ed. discriminate.
Qed.

Lemma is_nil_stuff d : is_nil (stuff d) = is_nil d.
Proof.
  destruct d as [|x d]; [reflexivity|].
  destruct (stuff (x :: d)) eqn:Es; [|reflexivity].
  pose proof (unstuff_stuff (x :: d)) as Hu. rewrite Es in Hu. discriminate Hu.
Qed.

(* what the client ends up with: the data, its last line completed *)
Definition norm (d : list Z) : list Z :=
  if negb (is_nil d) && negb (ends_crlf d) then d ++ crlf else d.

(* framing: dot_stuff + end_multiline is read back by the client as the data *)
Lemma frame_receive d p : dot_stuff d = Ok p -> receive (end_multiline p) = Some (norm d).
Proof.
  rewrite dot_stuff_is_stuff. intros H; inversion H; subst p; clear H.
  unfold end_multiline, norm. rewrite is_nil_stuff, ends_crlf_stuff.
  destruct d as [|x d]; [reflexivity|]. cbn [is_nil negb andb].
  destruct (ends_crlf (x :: d)) eqn:Ed; cbn [negb].
  - destruct (ends_crlf_inv _ Ed) as [q ->]. rewrite stuff_app_crlf, <- app_assoc.
    apply receive_stuffed.
  - unfold crlf. rewrite <- app_assoc. apply receive_stuffed.
Qed.

Lemma ends_crlf_ensure b : ends_crlf (ensure_crlf b) = true.
Proof. unfold ensure_crlf. destruct (ends_crlf b) eqn:E; [exact E|apply ends_crlf_app]. Qed.

Lemma norm_ensure b : norm (ensure_crlf b) = ensure_crlf b.
Proof. unfold norm. rewrite ends_crlf_ensure, andb_false_r. reflexivity. Qed.

Lemma dot_stuff_total d : exists p, dot_stuff d = Ok p.
Proof. eexists; apply dot_stuff_is_stuff. Qed.

(* ====================================================================== Part 2 *)

Definition content_of (u : Z) (box : list msg) : option content :=
  match find_uid u box with Some m => Some (m_c m) | None => None end.

Lemma content_of_app u box m :
  content_of u (box ++ [m]) =
  match content_of u box with
  | Some c => Some c
  | None => if m_uid m =? u then Some (m_c m) else None
  end.
Proof.
  unfold content_of, find_uid. induction box as [|a box IH]; cbn [app find].
  - destruct (m_uid m =? u); reflexivity.
  - destruct (m_uid a =? u); [reflexivity|exact IH].
Qed.

Lemma content_of_drop u us box :
  content_of u (drop_uids us box) = if memz u us then None else content_of u box.
Proof.
  unfold content_of, find_uid, drop_uids. induction box as [|a box IH]; cbn [filter find].
  - destruct (memz u us); reflexivity.
  - destruct (memz (m_uid a) us) eqn:Em; cbn [negb].
    + rewrite IH. destruct (m_uid a =? u) eqn:E; [|reflexivity].
      apply Z.eqb_eq in E. rewrite <- E, Em. reflexivity.
    + cbn [find]. destruct (m_uid a =? u) eqn:E; [|exact IH].
      apply Z.eqb_eq in E. rewrite <- E, Em. reflexivity.
Qed.

Lemma content_of_renum u k box : content_of u (renum k box) = content_of u box.
Proof.
  unfold content_of, find_uid. revert k; induction box as [|a box IH]; intros k; cbn [renum find]; [reflexivity|].
  cbn [m_uid m_c]. destruct (m_uid a =? u); [reflexivity|apply IH].
Qed.

Lemma uids_renum k box : map m_uid (renum k box) = map m_uid box.
Proof. revert k; induction box as [|a box IH]; intros k; cbn [renum map]; [reflexivity|]. rewrite IH; reflexivity. Qed.

Lemma drop_uids_nil box : drop_uids [] box = box.
Proof.
  unfold drop_uids. induction box as [|a box IH]; [reflexivity|].
  change (filter (fun m => negb (memz (m_uid m) [])) (a :: box))
    with (a :: filter (fun m => negb (memz (m_uid m) [])) box).
  rewrite IH; reflexivity.
Qed.

(* ---- the invariant of an open session, relative to INBOX as it was when the session began *)
Definition cache_ext (s s' : sess) : Prop :=
  forall n z, assoc n (s_sizes s) = Some z -> assoc n (s_sizes s') = Some z.

Record sinv (I0 box : list msg) (nu : Z) (s : sess) : Prop := {
  i_uids : s_uids s = map m_uid I0;
  i_keys : List.length (s_keys s) = List.length (s_uids s);
  i_lt : Forall (fun u => u < nu) (s_uids s);
  i_wf : Forall (fun m => m_uid m < nu) box;
  i_same : forall u c, In u (s_uids s) -> content_of u box = Some c -> content_of u I0 = Some c;
  i_cache : forall n z, assoc n (s_sizes s) = Some z ->
            exists u, nth_error (s_uids s) (idx n) = Some u /\
              ((exists c, content_of u I0 = Some c /\ z = msize c) \/ (z = 0 /\ content_of u box = None));
  i_del : forall n, In n (s_del s) -> 1 <= n <= count s
}.

Definition rows_in (sizes : list (Z * Z)) (uids : list Z) (r : reply) : Prop :=
  (forall n z, In (n, z) (size_rows r) -> assoc n sizes = Some z) /\
  (forall n u, In (n, u) (uid_rows r) -> 1 <= n /\ nth_error uids (idx n) = Some u).

Lemma rows_in_none sizes uids r : size_rows r = [] -> uid_rows r = [] -> rows_in sizes uids r.
Proof. intros H1 H2; split; intros ? ? H; [rewrite H1 in H|rewrite H2 in H]; destruct H. Qed.

Lemma nth_uid s n : 1 <= n <= count s -> List.length (s_keys s) = List.length (s_uids s) ->
  exists u, nth_error (s_uids s) (idx n) = Some u /\ uid_of s n = u.
Proof.
  intros Hn Hk. unfold count in Hn.
  assert (idx n < List.length (s_uids s))%nat as Hlt by (unfold idx; lia).
  destruct (nth_error (s_uids s) (idx n)) as [u|] eqn:E.
  - exists u; split; [reflexivity|]. unfold uid_of. apply nth_error_nth; exact E.
  - apply nth_error_None in E. lia.
Qed.

Lemma valid_num_range s a n : valid_num s a = Some n -> 1 <= n <= count s /\ memz n (s_del s) = false.
Proof.
  unfold valid_num. destruct a as [m|]; [|discriminate].
  destruct ((m <? 1) || (count s <? m)) eqn:E; [discriminate|].
  destruct (memz m (s_del s)) eqn:Em; [discriminate|].
  intros H; inversion H; subst. apply orb_false_iff in E. destruct E as [E1 E2].
  apply Z.ltb_ge in E1; apply Z.ltb_ge in E2. split; [lia|exact Em].
Qed.

Lemma set_size_inv I0 box nu s n z u :
  sinv I0 box nu s -> nth_error (s_uids s) (idx n) = Some u ->
  ((exists c, content_of u I0 = Some c /\ z = msize c) \/ (z = 0 /\ content_of u box = None)) ->
  (forall z0, assoc n (s_sizes s) = Some z0 -> z0 = z) ->
  sinv I0 box nu (set_size s n z) /\ cache_ext s (set_size s n z) /\ assoc n (s_sizes (set_size s n z)) = Some z.
Proof.
  intros Hi Hu Hz Hsame. split; [|split].
  - destruct Hi as [H1 H2 H3 H4 H5 H6 H7]. constructor; cbn [set_size s_uids s_keys s_sizes s_del]; auto.
    intros n0 z0. cbn [assoc]. destruct (n0 =? n) eqn:E.
    + apply Z.eqb_eq in E; subst n0. intros H; inversion H; subst z0. exists u; split; assumption.
    + apply H6.
  - intros n0 z0 H. cbn [set_size s_sizes assoc]. destruct (n0 =? n) eqn:E; [|exact H].
    apply Z.eqb_eq in E; subst n0. rewrite (Hsame _ H). reflexivity.
  - cbn [set_size s_sizes assoc]. rewrite Z.eqb_refl. reflexivity.
Qed.

Lemma resolve_content I0 box nu s n u :
  sinv I0 box nu s -> nth_error (s_uids s) (idx n) = Some u ->
  match resolve true box s n with
  | Some m => content_of u I0 = Some (m_c m) /\ find_uid u box = Some m
  | None => content_of u box = None
  end.
Proof.
  intros Hi Hu. unfold resolve. rewrite Hu.
  destruct (find_uid u box) as [m|] eqn:E.
  - split; [|reflexivity]. apply (i_same _ _ _ _ Hi u).
    + eapply nth_error_In; exact Hu.
    + unfold content_of; rewrite E; reflexivity.
  - unfold content_of; rewrite E; reflexivity.
Qed.

Lemma get_size_inv I0 box nu s n z s' :
  sinv I0 box nu s -> 1 <= n <= count s -> get_size true box s n = (z, s') ->
  sinv I0 box nu s' /\ cache_ext s s' /\ assoc n (s_sizes s') = Some z /\
  s_uids s' = s_uids s /\ s_keys s' = s_keys s /\ s_del s' = s_del s.
Proof.
  intros Hi Hn. unfold get_size. destruct (assoc n (s_sizes s)) as [z0|] eqn:Ea.
  - intros H; inversion H; subst.
    split; [exact Hi|]. split; [intros ? ? Hq; exact Hq|]. split; [exact Ea|]. auto.
  - intros H. cbv zeta in H.
    destruct (nth_uid s n Hn (i_keys _ _ _ _ Hi)) as [u [Hu _]].
    pose proof (resolve_content _ _ _ _ n u Hi Hu) as Hr.
    assert ((exists c, content_of u I0 = Some c /\ z = msize c) \/ (z = 0 /\ content_of u box = None)) as Hz.
    { destruct (resolve true box s n) as [m|]; inversion H; subst z.
      - left; exists (m_c m); split; [apply Hr|reflexivity].
      - right; split; [reflexivity|exact Hr]. }
    assert (s' = set_size s n z) as -> by (inversion H; reflexivity). clear H.
    destruct (set_size_inv _ _ _ _ n z u Hi Hu Hz) as [A [B C]].
    { intros z0 Hz0; rewrite Ea in Hz0; discriminate. }
    split; [exact A|]. split; [exact B|]. split; [exact C|]. auto.
Qed.

(* ---- the STAT/LIST loop *)
Definition sum_sizes (rows : list (Z * Z)) : Z := fold_right (fun r a => snd r + a) 0 rows.

Lemma sum_sizes_app a b : sum_sizes (a ++ b) = sum_sizes a + sum_sizes b.
Proof. induction a as [|x a IH]; cbn [app sum_sizes fold_right]; [reflexivity|]. fold (sum_sizes (a ++ b)); fold (sum_sizes a). lia. Qed.

Lemma scan_loop I0 box nu : forall nums c t rows s c' t' rows' s',
  sinv I0 box nu s -> (forall n, In n nums -> 1 <= n <= count s) ->
  fold_left (scan_body true box) nums (c, t, rows, s) = (c', t', rows', s') ->
  sinv I0 box nu s' /\ cache_ext s s' /\
  s_uids s' = s_uids s /\ s_keys s' = s_keys s /\ s_del s' = s_del s /\
  (exists new, rows' = rows ++ new /\
     (forall n z, In (n, z) new -> assoc n (s_sizes s') = Some z) /\
     map fst new = filter (fun n => negb (memz n (s_del s))) nums /\
     c' = c + Z.of_nat (List.length new) /\ t' = t + sum_sizes new).
Proof.
  induction nums as [|num nums IH]; intros c t rows s c' t' rows' s' Hi Hr H.
  - cbn [fold_left] in H. inversion H; subst.
    split; [exact Hi|]. split; [intros ? ? Hq; exact Hq|].
    split; [reflexivity|]. split; [reflexivity|]. split; [reflexivity|].
    exists []. rewrite app_nil_r. split; [reflexivity|]. split; [intros ? ? []|].
    split; [reflexivity|]. split; cbn; lia.
  - cbn [fold_left] in H. unfold scan_body at 2 in H.
    destruct (memz num (s_del s)) eqn:Em.
    + destruct (IH _ _ _ _ _ _ _ _ Hi (fun n Hn => Hr n (or_intror Hn)) H)
        as [A [B [C [D [E [new [F1 [F2 [F3 [F4 F5]]]]]]]]]].
      split; [exact A|]. split; [exact B|]. split; [exact C|]. split; [exact D|]. split; [exact E|].
      exists new. split; [exact F1|]. split; [exact F2|].
      split; [cbn [filter]; rewrite Em; exact F3|]. split; assumption.
    + destruct (get_size true box s num) as [z s1] eqn:Eg.
      destruct (get_size_inv _ _ _ _ _ _ _ Hi (Hr num (or_introl eq_refl)) Eg) as [A1 [B1 [C1 [D1 [E1 F1]]]]].
      assert (forall n, In n nums -> 1 <= n <= count s1) as Hr1.
      { intros n Hn. unfold count. rewrite E1. apply Hr; right; exact Hn. }
      destruct (IH _ _ _ _ _ _ _ _ A1 Hr1 H) as [A [B [C [D [E [new [G1 [G2 [G3 [G4 G5]]]]]]]]]].
      split; [exact A|].
      split; [intros n z0 Hz0; apply B, B1, Hz0|].
      split; [rewrite C; exact D1|].
      split; [rewrite D; exact E1|].
      split; [rewrite E; exact F1|].
      exists ((num, z) :: new).
      split; [rewrite G1, <- app_assoc; reflexivity|].
      split; [intros n z0 [Hin|Hin]; [inversion Hin; subst; apply B, C1|apply G2, Hin]|].
      split; [cbn [filter map fst]; rewrite Em; cbn [negb map fst]; rewrite G3, F1; reflexivity|].
      split; [rewrite G4; cbn [List.length]; lia|].
      rewrite G5. cbn [sum_sizes fold_right snd]. fold (sum_sizes new). lia.
Qed.

Lemma in_range_count s n : In n (py_range 1 (count s + 1)) -> 1 <= n <= count s.
Proof. intros H. apply in_py_range in H. lia. Qed.

Lemma scan_inv I0 box nu s c t rows s' :
  sinv I0 box nu s -> scan true box s = (c, t, rows, s') ->
  sinv I0 box nu s' /\ cache_ext s s' /\
  s_uids s' = s_uids s /\ s_keys s' = s_keys s /\ s_del s' = s_del s /\
  (forall n z, In (n, z) rows -> assoc n (s_sizes s') = Some z) /\
  map fst rows = filter (fun n => negb (memz n (s_del s))) (py_range 1 (count s + 1)) /\
  c = Z.of_nat (List.length rows) /\ t = sum_sizes rows.
Proof.
  intros Hi H. unfold scan in H.
  destruct (scan_loop _ _ _ _ _ _ _ _ _ _ _ _ Hi (in_range_count s) H) as [A [B [C [D [E [new [F1 [F2 [F3 [F4 F5]]]]]]]]]].
  cbn [app] in F1. subst rows.
  split; [exact A|]. split; [exact B|]. split; [exact C|]. split; [exact D|]. split; [exact E|].
  split; [exact F2|]. split; [exact F3|]. split; lia.
Qed.

(* ---- one POP3 command on an open session *)
Lemma sinv_set_del I0 box nu s d :
  sinv I0 box nu s -> (forall n, In n d -> 1 <= n <= count s) -> sinv I0 box nu (set_del s d).
Proof. intros [H1 H2 H3 H4 H5 H6 H7] Hd. constructor; cbn [set_del s_uids s_keys s_sizes s_del]; auto. Qed.

Ltac same_sess Hi :=
  split; [discriminate|]; split; [reflexivity|]; split; [exact Hi|];
  split; [intros ? ? Hq; exact Hq|]; split; [reflexivity|]; split; [reflexivity|];
  split; [reflexivity|]; apply rows_in_none; reflexivity.

Lemma pop_step_open I0 box nu s c os box' r :
  sinv I0 box nu s -> pop_step true box s c = (os, box', r) ->
  match os with
  | Some s' => c <> PQuit /\ box' = box /\ sinv I0 box nu s' /\ cache_ext s s' /\
               s_uids s' = s_uids s /\ s_keys s' = s_keys s /\
               s_del s' = mark_step (s_del s) (EPop c, r) /\ rows_in (s_sizes s') (s_uids s) r
  | None => c = PQuit /\ box' = drop_uids (map (uid_of s) (s_del s)) box /\ r = RBye
  end.
Proof.
  intros Hi. destruct c; cbn [pop_step].
  - (* STAT *)
    destruct (scan true box s) as [[[cnt tot] rows] s'] eqn:Es. intros H; inversion H; subst; clear H.
    destruct (scan_inv _ _ _ _ _ _ _ _ Hi Es) as [A [B [C [D [E _]]]]].
    split; [discriminate|]. split; [reflexivity|]. split; [exact A|]. split; [exact B|].
    split; [exact C|]. split; [exact D|]. split; [exact E|]. apply rows_in_none; reflexivity.
  - (* LIST *)
    destruct a as [a|].
    + destruct (valid_num s a) as [n|] eqn:Ev.
      * destruct (get_size true box s n) as [z s'] eqn:Eg. intros H; inversion H; subst; clear H.
        destruct (valid_num_range _ _ _ Ev) as [Hn _].
        destruct (get_size_inv _ _ _ _ _ _ _ Hi Hn Eg) as [A [B [C [D [E F]]]]].
        split; [discriminate|]. split; [reflexivity|]. split; [exact A|]. split; [exact B|].
        split; [exact D|]. split; [exact E|]. split; [exact F|].
        split; cbn [size_rows uid_rows]; [|intros ? ? []].
        intros n0 z0 [Hin|[]]. inversion Hin; subst. exact C.
      * intros H; inversion H; subst. same_sess Hi.
    + destruct (scan true box s) as [[[cnt tot] rows] s'] eqn:Es. intros H; inversion H; subst; clear H.
      destruct (scan_inv _ _ _ _ _ _ _ _ Hi Es) as [A [B [C [D [E [F _]]]]]].
      split; [discriminate|]. split; [reflexivity|]. split; [exact A|]. split; [exact B|].
      split; [exact C|]. split; [exact D|]. split; [exact E|].
      split; cbn [size_rows uid_rows]; [exact F|intros ? ? []].
  - (* UIDL *)
    destruct a as [a|].
    + destruct (valid_num s a) as [n|] eqn:Ev; intros H; inversion H; subst; clear H; [|same_sess Hi].
      destruct (valid_num_range _ _ _ Ev) as [Hn _].
      destruct (nth_uid s n Hn (i_keys _ _ _ _ Hi)) as [u [Hu Hu']].
      split; [discriminate|]. split; [reflexivity|]. split; [exact Hi|]. split; [intros ? ? Hq; exact Hq|].
      split; [reflexivity|]. split; [reflexivity|]. split; [reflexivity|].
      split; cbn [size_rows uid_rows]; [intros ? ? []|].
      intros n0 u0 [Hin|[]]. inversion Hin; subst. split; [lia|exact Hu].
    + intros H; inversion H; subst; clear H.
      split; [discriminate|]. split; [reflexivity|]. split; [exact Hi|]. split; [intros ? ? Hq; exact Hq|].
      split; [reflexivity|]. split; [reflexivity|]. split; [reflexivity|].
      split; cbn [size_rows uid_rows]; [intros ? ? []|].
      intros n0 u0 Hin. unfold uidl_rows in Hin. apply in_map_iff in Hin.
      destruct Hin as [n1 [Heq Hin]]. inversion Heq; subst. apply filter_In in Hin. destruct Hin as [Hin _].
      apply in_range_count in Hin.
      destruct (nth_uid s n0 Hin (i_keys _ _ _ _ Hi)) as [u [Hu Hu']]. split; [lia|]. rewrite Hu'. exact Hu.
  - (* RETR *)
    destruct (valid_num s a) as [n|] eqn:Ev; [|intros H; inversion H; subst; same_sess Hi].
    destruct (valid_num_range _ _ _ Ev) as [Hn _].
    destruct (nth_uid s n Hn (i_keys _ _ _ _ Hi)) as [u [Hu _]].
    pose proof (resolve_content _ _ _ _ n u Hi Hu) as Hr.
    destruct (resolve true box s n) as [m|]; [|intros H; inversion H; subst; same_sess Hi].
    rewrite dot_stuff_is_stuff. intros H; inversion H; subst; clear H.
    destruct Hr as [Hr1 Hr2].
    destruct (set_size_inv _ _ _ _ n (msize (m_c m)) u Hi Hu) as [A [B C]].
    { left; exists (m_c m); split; [exact Hr1|reflexivity]. }
    { intros z0 Hz0. destruct (i_cache _ _ _ _ Hi _ _ Hz0) as [u' [Hu' Hd]].
      rewrite Hu in Hu'; inversion Hu'; subst u'.
      destruct Hd as [[c [Hc ->]]|[_ Hc]].
      - rewrite Hr1 in Hc; inversion Hc; reflexivity.
      - unfold content_of in Hc. rewrite Hr2 in Hc. discriminate. }
    split; [discriminate|]. split; [reflexivity|]. split; [exact A|]. split; [exact B|].
    split; [reflexivity|]. split; [reflexivity|]. split; [reflexivity|].
    split; cbn [size_rows uid_rows]; [|intros ? ? []].
    intros n0 z0 [Hin|[]]. inversion Hin; subst. exact C.
  - (* DELE *)
    destruct (valid_num s a) as [n|] eqn:Ev; intros H; inversion H; subst; clear H; [|same_sess Hi].
    destruct (valid_num_range _ _ _ Ev) as [Hn _].
    split; [discriminate|]. split; [reflexivity|].
    split; [apply sinv_set_del; [exact Hi|intros n0 [->|Hin]; [exact Hn|apply (i_del _ _ _ _ Hi), Hin]]|].
    split; [intros ? ? Hq; exact Hq|]. split; [reflexivity|]. split; [reflexivity|]. split; [reflexivity|].
    apply rows_in_none; reflexivity.
  - (* TOP *)
    destruct toks as [|a [|b [|x toks]]]; try (intros H; inversion H; subst; same_sess Hi).
    destruct (valid_num s a) as [n|]; [|intros H; inversion H; subst; same_sess Hi].
    destruct b as [k|]; [|intros H; inversion H; subst; same_sess Hi].
    destruct (k <? 0); [intros H; inversion H; subst; same_sess Hi|].
    destruct (resolve true box s n) as [m|]; [|intros H; inversion H; subst; same_sess Hi].
    rewrite dot_stuff_is_stuff. intros H; inversion H; subst; same_sess Hi.
  - intros H; inversion H; subst; same_sess Hi.
  - (* RSET *)
    intros H; inversion H; subst; clear H.
    split; [discriminate|]. split; [reflexivity|].
    split; [apply sinv_set_del; [exact Hi|intros ? []]|].
    split; [intros ? ? Hq; exact Hq|]. split; [reflexivity|]. split; [reflexivity|]. split; [reflexivity|].
    apply rows_in_none; reflexivity.
  - (* QUIT *) intros H; inversion H; subst. auto.
  - intros H; inversion H; subst; same_sess Hi.
  - intros H; inversion H; subst; same_sess Hi.
Qed.

(* ---- IMAP-side events keep the invariant *)
Lemma sinv_append I0 box nu s k c :
  sinv I0 box nu s -> sinv I0 (box ++ [{| m_key := k; m_uid := nu; m_c := c |}]) (nu + 1) s.
Proof.
  intros [H1 H2 H3 H4 H5 H6 H7].
  assert (forall u, In u (s_uids s) -> u < nu) as Hlt by (apply Forall_forall; exact H3).
  assert (forall u, In u (s_uids s) -> content_of u box = None ->
          content_of u (box ++ [{| m_key := k; m_uid := nu; m_c := c |}]) = None) as Hnone.
  { intros u Hu Hn. rewrite content_of_app, Hn. cbn [m_uid].
    destruct (nu =? u) eqn:E; [|reflexivity]. apply Z.eqb_eq in E. specialize (Hlt u Hu). lia. }
  constructor; auto.
  - eapply Forall_impl; [|exact H3]. cbn; intros; lia.
  - apply Forall_app; split.
    + eapply Forall_impl; [|exact H4]. cbn; intros; lia.
    + constructor; [cbn; lia|constructor].
  - intros u c0 Hu Hc. destruct (content_of u box) as [c1|] eqn:E.
    + rewrite content_of_app, E in Hc. rewrite <- Hc. apply H5; [exact Hu|exact E].
    + rewrite (Hnone u Hu E) in Hc. discriminate.
  - intros n z Hz. destruct (H6 n z Hz) as [u [Hu Hd]]. exists u; split; [exact Hu|].
    destruct Hd as [Hd|[Hz0 Hn]]; [left; exact Hd|right; split; [exact Hz0|]].
    apply Hnone; [eapply nth_error_In; exact Hu|exact Hn].
Qed.

Lemma sinv_drop I0 box nu s us : sinv I0 box nu s -> sinv I0 (drop_uids us box) nu s.
Proof.
  intros [H1 H2 H3 H4 H5 H6 H7]. constructor; auto.
  - unfold drop_uids. apply Forall_forall. intros m Hm. apply filter_In in Hm. destruct Hm as [Hm _].
    revert m Hm. apply Forall_forall. exact H4.
  - intros u c Hu Hc. rewrite content_of_drop in Hc. destruct (memz u us); [discriminate|]. apply H5; assumption.
  - intros n z Hz. destruct (H6 n z Hz) as [u [Hu Hd]]. exists u; split; [exact Hu|].
    destruct Hd as [Hd|[Hz0 Hn]]; [left; exact Hd|right; split; [exact Hz0|]].
    rewrite content_of_drop, Hn. destruct (memz u us); reflexivity.
Qed.

Lemma sinv_renum I0 box nu s k : sinv I0 box nu s -> sinv I0 (renum k box) nu s.
Proof.
  intros [H1 H2 H3 H4 H5 H6 H7]. constructor; auto.
  - clear - H4. revert k; induction box as [|a box IH]; intros k; cbn [renum]; [constructor|].
    inversion H4; subst. constructor; [cbn; assumption|apply IH; assumption].
  - intros u c Hu Hc. rewrite content_of_renum in Hc. apply H5; assumption.
  - intros n z Hz. destruct (H6 n z Hz) as [u [Hu Hd]]. exists u; split; [exact Hu|].
    destruct Hd as [Hd|[Hz0 Hn]]; [left; exact Hd|right; split; [exact Hz0|]].
    rewrite content_of_renum; exact Hn.
Qed.

(* ---- one event of the world while the session is open *)
Lemma step_open I0 w s e w' r :
  psess w = Some s -> sinv I0 (inbox w) (next_uid w) s -> not_open e = true ->
  step true w e = (w', r) ->
  if in_session e
  then exists s', psess w' = Some s' /\ sinv I0 (inbox w') (next_uid w') s' /\ cache_ext s s' /\
                  s_uids s' = s_uids s /\ s_del s' = mark_step (s_del s) (e, r) /\
                  rows_in (s_sizes s') (s_uids s) r
  else psess w' = None /\ size_rows r = [] /\ uid_rows r = [] /\
       (e = EDrop -> inbox w' = inbox w) /\
       (e = EPop PQuit -> inbox w' = drop_uids (map (uid_of s) (s_del s)) (inbox w)).
Proof.
  intros Hs Hi Ho. destruct e; cbn [step]; try discriminate.
  - (* POP3 command *)
    rewrite Hs. destruct (pop_step true (inbox w) s c) as [[os box'] r0] eqn:Ep.
    intros H; inversion H; subst; clear H.
    pose proof (pop_step_open _ _ _ _ _ _ _ _ Hi Ep) as Hp. destruct os as [s'|].
    + destruct Hp as [Hc [-> [A [B [C [D [E F]]]]]]].
      assert (in_session (EPop c) = true) as -> by (destruct c; try reflexivity; congruence).
      exists s'. cbn [psess inbox next_uid]. repeat (split; [assumption|]). split; [reflexivity|].
      split; [exact A|]. split; [exact B|]. split; [exact C|]. split; [exact E|exact F].
    + destruct Hp as [-> [-> ->]]. cbn [in_session psess inbox size_rows uid_rows].
      split; [reflexivity|]. split; [reflexivity|]. split; [reflexivity|]. split; [discriminate|reflexivity].
  - (* drop *)
    intros H; inversion H; subst. cbn [in_session psess inbox size_rows uid_rows].
    split; [reflexivity|]. split; [reflexivity|]. split; [reflexivity|]. split; [reflexivity|discriminate].
  - (* append *)
    intros H; inversion H; subst. cbn [in_session psess inbox next_uid]. exists s.
    split; [exact Hs|]. split; [apply sinv_append; exact Hi|]. split; [intros ? ? Hq; exact Hq|].
    split; [reflexivity|]. split; [reflexivity|]. apply rows_in_none; reflexivity.
  - (* expunge *)
    intros H; inversion H; subst. cbn [in_session with_box psess inbox next_uid]. exists s.
    split; [exact Hs|]. split; [apply sinv_drop; exact Hi|]. split; [intros ? ? Hq; exact Hq|].
    split; [reflexivity|]. split; [reflexivity|]. apply rows_in_none; reflexivity.
  - (* pack *)
    intros H; inversion H; subst. cbn [in_session with_box psess inbox next_uid]. exists s.
    split; [exact Hs|]. split; [apply sinv_renum; exact Hi|]. split; [intros ? ? Hq; exact Hq|].
    split; [reflexivity|]. split; [reflexivity|]. apply rows_in_none; reflexivity.
  - (* observe *)
    intros H; inversion H; subst. cbn [in_session]. exists s.
    split; [exact Hs|]. split; [exact Hi|]. split; [intros ? ? Hq; exact Hq|].
    split; [reflexivity|]. split; [reflexivity|]. apply rows_in_none; reflexivity.
Qed.

Lemma step_closed w e w' r :
  psess w = None -> not_open e = true -> step true w e = (w', r) ->
  psess w' = None /\ size_rows r = [] /\ uid_rows r = [].
Proof.
  intros Hs Ho. destruct e; cbn [step]; try discriminate; try rewrite Hs;
    intros H; inversion H; subst; cbn; auto.
Qed.

Lemma run_cons b w e l :
  run b w (e :: l) = (fst (run b (fst (step b w e)) l), snd (step b w e) :: snd (run b (fst (step b w e)) l)).
Proof. cbn [run]. destruct (step b w e) as [w1 r]. cbn [fst snd]. destruct (run b w1 l); reflexivity. Qed.

Lemma run_closed : forall l w, psess w = None -> forallb not_open l = true ->
  forall r, In r (snd (run true w l)) -> size_rows r = [] /\ uid_rows r = [].
Proof.
  induction l as [|e l IH]; intros w Hs Hl r Hr; [destruct Hr|].
  cbn [forallb] in Hl. apply andb_prop in Hl. destruct Hl as [He Hl].
  rewrite run_cons in Hr. cbn [snd] in Hr.
  destruct (step true w e) as [w1 r1] eqn:Es. cbn [fst snd] in Hr.
  destruct (step_closed _ _ _ _ Hs He Es) as [A [B C]].
  destruct Hr as [<-|Hr]; [split; assumption|]. exact (IH w1 A Hl r Hr).
Qed.

(* every size / unique-id a session announces is the entry of one fixed table *)
Lemma run_session I0 : forall l w s,
  psess w = Some s -> sinv I0 (inbox w) (next_uid w) s -> forallb not_open l = true ->
  exists F : Z -> option Z,
    (forall n z, assoc n (s_sizes s) = Some z -> F n = Some z) /\
    (forall r n z, In r (snd (run true w l)) -> In (n, z) (size_rows r) -> F n = Some z) /\
    (forall r n u, In r (snd (run true w l)) -> In (n, u) (uid_rows r) ->
                   1 <= n /\ nth_error (s_uids s) (idx n) = Some u).
Proof.
  induction l as [|e l IH]; intros w s Hs Hi Hl.
  - exists (fun n => assoc n (s_sizes s)). split; [auto|]. split; intros ? ? ? [].
  - cbn [forallb] in Hl. apply andb_prop in Hl. destruct Hl as [He Hl].
    rewrite run_cons. cbn [snd]. destruct (step true w e) as [w1 r1] eqn:Es. cbn [fst snd].
    pose proof (step_open _ _ _ _ _ _ Hs Hi He Es) as Hstep.
    destruct (in_session e).
    + destruct Hstep as [s1 [Hs1 [Hi1 [Hext [Hu [_ [Hr1 Hr2]]]]]]].
      destruct (IH w1 s1 Hs1 Hi1 Hl) as [F [F1 [F2 F3]]].
      exists F. split; [intros n z Hz; apply F1, Hext, Hz|]. split.
      * intros r n z [<-|Hr] Hin; [apply F1, Hr1, Hin|exact (F2 r n z Hr Hin)].
      * intros r n u [<-|Hr] Hin; [apply Hr2, Hin|]. rewrite <- Hu. exact (F3 r n u Hr Hin).
    + destruct Hstep as [Hn [B [C _]]].
      exists (fun n => assoc n (s_sizes s)). split; [auto|]. split.
      * intros r n z [<-|Hr] Hin; [rewrite B in Hin; destruct Hin|].
        destruct (run_closed l w1 Hn Hl r Hr) as [D _]. rewrite D in Hin; destruct Hin.
      * intros r n u [<-|Hr] Hin; [rewrite C in Hin; destruct Hin|].
        destruct (run_closed l w1 Hn Hl r Hr) as [_ D]. rewrite D in Hin; destruct Hin.
Qed.

Lemma in_session_not_open e : in_session e = true -> not_open e = true.
Proof. destruct e; cbn; auto. Qed.

(* the session's deletion marks are the marks the client holds *)
Lemma run_marks I0 : forall l w s,
  psess w = Some s -> sinv I0 (inbox w) (next_uid w) s -> forallb in_session l = true ->
  exists s1, psess (fst (run true w l)) = Some s1 /\
    sinv I0 (inbox (fst (run true w l))) (next_uid (fst (run true w l))) s1 /\
    s_uids s1 = s_uids s /\
    s_del s1 = fold_left mark_step (combine l (snd (run true w l))) (s_del s).
Proof.
  induction l as [|e l IH]; intros w s Hs Hi Hl.
  - exists s. cbn. auto.
  - cbn [forallb] in Hl. apply andb_prop in Hl. destruct Hl as [He Hl].
    rewrite run_cons. cbn [fst snd combine fold_left].
    destruct (step true w e) as [w1 r1] eqn:Es. cbn [fst snd].
    pose proof (step_open _ _ _ _ _ _ Hs Hi (in_session_not_open _ He) Es) as Hstep.
    rewrite He in Hstep. destruct Hstep as [s1 [Hs1 [Hi1 [_ [Hu [Hd _]]]]]].
    destruct (IH w1 s1 Hs1 Hi1 Hl) as [s2 [A [B [C D]]]].
    exists s2. split; [exact A|]. split; [exact B|]. split; [rewrite C; exact Hu|].
    rewrite D, Hd. reflexivity.
Qed.

(* ====================================================================== the theorems *)

Lemma open_sinv w : wf w -> sinv (inbox w) (inbox w) (next_uid w) (open_sess (inbox w)).
Proof.
  intros Hw. constructor; cbn [open_sess s_uids s_keys s_sizes s_del].
  - reflexivity.
  - rewrite !map_length; reflexivity.
  - apply Forall_forall. intros u Hu. apply in_map_iff in Hu. destruct Hu as [m [<- Hm]].
    revert m Hm. apply Forall_forall. exact Hw.
  - exact Hw.
  - auto.
  - intros ? ? H; discriminate H.
  - intros ? [].
Qed.

(* C20_stuffing *)
Theorem stuffing : forall d,
  exists p, dot_stuff d = Ok p /\
    Forall (fun l => is_dot l = false) (lines p) /\
    unstuff p = d /\
    receive (end_multiline p) = Some (if negb (is_nil d) && negb (ends_crlf d) then d ++ crlf else d).
Proof.
  intros d. exists (stuff d). split; [apply dot_stuff_is_stuff|].
  split; [apply stuff_no_lone_dot|]. split; [apply unstuff_stuff|].
  apply (frame_receive d (stuff d)), dot_stuff_is_stuff.
Qed.

(* C20_snapshot *)
Theorem snapshot_stable : forall w l, wf w -> forallb not_open l = true ->
  let w0 := fst (step true w EOpen) in
  let rs := snd (run true w0 l) in
  uidl_fixed (map m_uid (inbox w)) rs /\ sizes_stable rs.
Proof.
  intros w l Hw Hl w0 rs.
  destruct (run_session (inbox w) l w0 (open_sess (inbox w)) eq_refl (open_sinv w Hw) Hl) as [F [_ [F2 F3]]].
  split.
  - intros r n u Hr Hin. exact (F3 r n u Hr Hin).
  - intros r1 r2 n a b H1 H2 Ha Hb.
    pose proof (F2 r1 n a H1 Ha) as E1. pose proof (F2 r2 n b H2 Hb) as E2.
    rewrite E1 in E2. inversion E2; reflexivity.
Qed.

Lemma uids_at_map s d :
  List.length (s_keys s) = List.length (s_uids s) -> (forall n, In n d -> 1 <= n <= count s) ->
  map (uid_of s) d = uids_at (s_uids s) d.
Proof.
  intros Hk. induction d as [|n d IH]; intros Hd; [reflexivity|].
  cbn [map uids_at flat_map]. fold (uids_at (s_uids s) d).
  destruct (nth_uid s n (Hd n (or_introl eq_refl)) Hk) as [u [Hu Hu']].
  fold (idx n). rewrite Hu, Hu'. cbn [app]. rewrite IH; [reflexivity|].
  intros n0 Hn0; apply Hd; right; exact Hn0.
Qed.

(* C20_quit_exact *)
Theorem quit_exact : forall w l, wf w -> forallb in_session l = true ->
  let w0 := fst (step true w EOpen) in
  let w1 := fst (run true w0 l) in
  let rs := snd (run true w0 l) in
  let marked := uids_at (map m_uid (inbox w)) (marks_of (combine l rs)) in
  let w2 := fst (step true w1 (EPop PQuit)) in
  inbox w2 = filter (fun m => negb (memz (m_uid m) marked)) (inbox w1) /\ psess w2 = None.
Proof.
  intros w l Hw Hl w0 w1 rs marked w2.
  destruct (run_marks (inbox w) l w0 (open_sess (inbox w)) eq_refl (open_sinv w Hw) Hl) as [s1 [A [B [C D]]]].
  fold w1 in A, B. fold rs in D.
  destruct (step true w1 (EPop PQuit)) as [w2' r] eqn:Es.
  pose proof (step_open _ _ _ (EPop PQuit) _ _ A B eq_refl Es) as Hq. cbn [in_session] in Hq.
  destruct Hq as [Hn [_ [_ [_ Hbox]]]].
  subst w2. cbn [fst]. split; [|exact Hn].
  rewrite (Hbox eq_refl). unfold drop_uids, marked.
  rewrite (uids_at_map s1 _ (i_keys _ _ _ _ B) (i_del _ _ _ _ B)), C, D. reflexivity.
Qed.

Ltac crunch_goal :=
  repeat match goal with |- context [match ?x with _ => _ end] => destruct x end.

(* C20_rset_drop_keep *)
Lemma pop_keeps_inbox b box s c : c <> PQuit -> snd (fst (pop_step b box s c)) = box.
Proof. intros Hc. destruct c; try congruence; cbn [pop_step]; crunch_goal; reflexivity. Qed.

Theorem only_quit_removes : forall b w c, c <> PQuit -> inbox (fst (step b w (EPop c))) = inbox w.
Proof.
  intros b w c Hc. cbn [step]. destruct (psess w) as [s|]; [|reflexivity].
  pose proof (pop_keeps_inbox b (inbox w) s c Hc) as H.
  destruct (pop_step b (inbox w) s c) as [[os box] r]. cbn [fst snd] in *. exact H.
Qed.

Theorem drop_keeps : forall b w,
  inbox (fst (step b w EDrop)) = inbox w /\ psess (fst (step b w EDrop)) = None.
Proof. intros; split; reflexivity. Qed.

Theorem rset_then_quit_keeps : forall b w,
  inbox (fst (step b (fst (step b w (EPop PRset))) (EPop PQuit))) = inbox w.
Proof.
  intros b w. cbn [step]. destruct (psess w) as [s|] eqn:Hs.
  - cbn [pop_step fst psess inbox set_del s_del map]. apply drop_uids_nil.
  - cbn [fst]. rewrite Hs. reflexivity.
Qed.

(* C20_size_matches *)
Lemma pop_retr_inv box s c os box' n N wire :
  pop_step true box s c = (os, box', RRetr n N wire) ->
  exists m, resolve true box s n = Some m /\ wire = end_multiline (stuff (full (m_c m))) /\ N = msize (m_c m).
Proof.
  destruct c; cbn [pop_step];
    try (crunch_goal; intros H; inversion H; fail).
  destruct (valid_num s a) as [n0|]; [|intros H; inversion H].
  destruct (resolve true box s n0) as [m|] eqn:Er; [|intros H; inversion H].
  rewrite dot_stuff_is_stuff. intros H; inversion H; subst. exists m. auto.
Qed.

Theorem retr_delivers : forall w e w' n N wire,
  step true w e = (w', RRetr n N wire) ->
  exists s u m, psess w = Some s /\ nth_error (s_uids s) (Z.to_nat (n - 1)) = Some u /\
    find_uid u (inbox w) = Some m /\
    delivers wire (full (m_c m)) /\ N = octets (full (m_c m)).
Proof.
  intros w e w' n N wire. destruct e; cbn [step]; try (intros H; inversion H; fail).
  destruct (psess w) as [s|]; [|intros H; inversion H].
  destruct (pop_step true (inbox w) s c) as [[os box'] r] eqn:Ep. intros H; inversion H; subst; clear H.
  destruct (pop_retr_inv _ _ _ _ _ _ _ _ Ep) as [m [Hr [-> ->]]].
  unfold resolve in Hr. fold (idx n). destruct (nth_error (s_uids s) (idx n)) as [u|] eqn:Hu; [|discriminate].
  exists s, u, m. split; [reflexivity|]. split; [exact Hu|]. split; [exact Hr|]. split; [|reflexivity].
  unfold delivers. rewrite (frame_receive (full (m_c m)) _ (dot_stuff_is_stuff _)).
  unfold full. rewrite norm_ensure. reflexivity.
Qed.

Lemma pop_top_inv box s c os box' n wire :
  pop_step true box s c = (os, box', RTop n wire) ->
  exists m k, resolve true box s n = Some m /\ wire = end_multiline (stuff (top_data (m_c m) k)).
Proof.
  destruct c; cbn [pop_step];
    try (crunch_goal; intros H; inversion H; fail).
  destruct toks as [|a [|b [|x toks]]]; try (intros H; inversion H; fail).
  destruct (valid_num s a) as [n0|]; [|intros H; inversion H].
  destruct b as [k|]; [|intros H; inversion H].
  destruct (k <? 0); [intros H; inversion H|].
  destruct (resolve true box s n0) as [m|] eqn:Er; [|intros H; inversion H].
  rewrite dot_stuff_is_stuff. intros H; inversion H; subst. exists m, k. auto.
Qed.

Theorem top_delivers : forall w e w' n wire,
  step true w e = (w', RTop n wire) -> exists data, delivers wire data.
Proof.
  intros w e w' n wire. destruct e; cbn [step]; try (intros H; inversion H; fail).
  destruct (psess w) as [s|]; [|intros H; inversion H].
  destruct (pop_step true (inbox w) s c) as [[os box'] r] eqn:Ep. intros H; inversion H; subst; clear H.
  destruct (pop_top_inv _ _ _ _ _ _ _ Ep) as [m [k [_ ->]]].
  eexists. apply (frame_receive _ _ (dot_stuff_is_stuff _)).
Qed.

(* STAT announces the count and the total of the sizes LIST announces in the same state *)
Theorem stat_is_list : forall w w1 c t,
  step true w (EPop PStat) = (w1, RStat c t) ->
  exists rows, snd (step true w (EPop (PList None))) = RListAll c t rows /\
    c = Z.of_nat (List.length rows) /\ t = fold_right (fun r a => snd r + a) 0 rows.
Proof.
  intros w w1 c t. cbn [step]. destruct (psess w) as [s|]; [|intros H; inversion H].
  cbn [pop_step]. destruct (scan true (inbox w) s) as [[[cnt tot] rows] s'] eqn:Es.
  intros H; inversion H; subst. exists rows. cbn [snd]. split; [reflexivity|].
  unfold scan in Es.
  assert (forall nums c0 t0 rows0 s0 c1 t1 rows1 s1,
    fold_left (scan_body true (inbox w)) nums (c0, t0, rows0, s0) = (c1, t1, rows1, s1) ->
    c1 - Z.of_nat (List.length rows1) = c0 - Z.of_nat (List.length rows0) /\
    t1 - sum_sizes rows1 = t0 - sum_sizes rows0) as Hloop.
  { induction nums as [|num nums IH]; intros c0 t0 rows0 s0 c1 t1 rows1 s1 Hf.
    - cbn in Hf; inversion Hf; subst; split; reflexivity.
    - cbn [fold_left] in Hf. unfold scan_body at 2 in Hf.
      destruct (memz num (s_del s0)); [exact (IH _ _ _ _ _ _ _ _ Hf)|].
      destruct (get_size true (inbox w) s0 num) as [z s2].
      destruct (IH _ _ _ _ _ _ _ _ Hf) as [A B].
      rewrite app_length in A. rewrite sum_sizes_app in B. cbn in A, B. split; lia. }
  destruct (Hloop _ _ _ _ _ _ _ _ _ Es) as [A B]. cbn in A, B. unfold sum_sizes in B. split; lia.
Qed.

(* a full listing shows exactly the snapshot's numbers that are not marked *)
Theorem listing_numbers : forall w l, wf w -> forallb in_session l = true ->
  let w0 := fst (step true w EOpen) in
  let w1 := fst (run true w0 l) in
  let rs := snd (run true w0 l) in
  let shown := listed_numbers (List.length (inbox w)) (marks_of (combine l rs)) in
  (forall rows, snd (step true w1 (EPop (PUidl None))) = RUidlAll rows -> map fst rows = shown) /\
  (forall c t rows, snd (step true w1 (EPop (PList None))) = RListAll c t rows -> map fst rows = shown).
Proof.
  intros w l Hw Hl w0 w1 rs shown.
  destruct (run_marks (inbox w) l w0 (open_sess (inbox w)) eq_refl (open_sinv w Hw) Hl) as [s1 [A [B [C D]]]].
  fold w1 in A, B. fold rs in D.
  assert (py_range 1 (count s1 + 1) = map (fun i => 1 + Z.of_nat i) (seq 0 (List.length (inbox w)))) as Hrange.
  { unfold py_range, count. rewrite (i_keys _ _ _ _ B), C. cbn [open_sess s_uids]. rewrite map_length.
    replace (Z.to_nat (Z.of_nat (List.length (inbox w)) + 1 - 1)) with (List.length (inbox w)) by lia. reflexivity. }
  assert (shown = filter (fun n => negb (memz n (s_del s1))) (py_range 1 (count s1 + 1))) as Hshown.
  { unfold shown, listed_numbers, marks_of. rewrite Hrange, D. reflexivity. }
  split.
  - intros rows. cbn [step]. rewrite A. cbn [pop_step snd]. intros H; inversion H; subst rows.
    unfold uidl_rows. rewrite map_map. cbn [fst]. rewrite map_id. symmetry; exact Hshown.
  - intros c t rows. cbn [step]. rewrite A. cbn [pop_step].
    destruct (scan true (inbox w1) s1) as [[[cnt tot] rows'] s'] eqn:Es. cbn [snd]. intros H; inversion H; subst.
    destruct (scan_inv _ _ _ _ _ _ _ _ B Es) as [_ [_ [_ [_ [_ [_ [F _]]]]]]].
    rewrite F. symmetry; exact Hshown.
Qed.

(* reachable worlds are well formed *)
Lemma wf_init : wf init_world.
Proof. constructor. Qed.

Lemma pcmd_eq_quit c : c = PQuit \/ c <> PQuit.
Proof. destruct c; try (right; discriminate). left; reflexivity. Qed.

Lemma pop_box b box s c : exists us, snd (fst (pop_step b box s c)) = drop_uids us box.
Proof.
  destruct (pcmd_eq_quit c) as [->|Hc].
  - eexists; reflexivity.
  - exists []. rewrite drop_uids_nil. apply pop_keeps_inbox; exact Hc.
Qed.

Lemma Forall_drop (P : msg -> Prop) us box : Forall P box -> Forall P (drop_uids us box).
Proof.
  intros H. unfold drop_uids. apply Forall_forall. intros m Hm. apply filter_In in Hm. destruct Hm as [Hm _].
  revert m Hm. apply Forall_forall. exact H.
Qed.

Lemma Forall_renum nu k box :
  Forall (fun m => m_uid m < nu) box -> Forall (fun m => m_uid m < nu) (renum k box).
Proof.
  revert k; induction box as [|a box IH]; intros k H; cbn [renum]; [constructor|].
  inversion H; subst. constructor; [cbn; assumption|apply IH; assumption].
Qed.

Lemma wf_step b w e : wf w -> wf (fst (step b w e)).
Proof.
  unfold wf. intros Hw. destruct e; cbn [step].
  - exact Hw.
  - destruct (psess w) as [s|]; [|exact Hw].
    destruct (pop_box b (inbox w) s c) as [us Hus].
    destruct (pop_step b (inbox w) s c) as [[os box] r]. cbn [fst snd inbox next_uid] in *. subst box.
    apply Forall_drop; exact Hw.
  - exact Hw.
  - cbn [fst inbox next_uid]. apply Forall_app; split.
    + eapply Forall_impl; [|exact Hw]. cbn; intros; lia.
    + constructor; [cbn; lia|constructor].
  - cbn [fst with_box inbox next_uid]. apply Forall_drop; exact Hw.
  - cbn [fst with_box inbox next_uid]. apply Forall_renum; exact Hw.
  - exact Hw.
Qed.

Theorem wf_reachable : forall b l, wf (fst (run b init_world l)).
Proof.
  intros b l. assert (forall w, wf w -> wf (fst (run b w l))) as H.
  { induction l as [|e l IH]; intros w Hw; [exact Hw|].
    rewrite run_cons. cbn [fst]. apply IH, wf_step, Hw. }
  apply H, wf_init.
Qed.

(* ---- non-vacuity and the key-resolution variant *)
Definition ex_c (x : Z) (n : nat) : content :=
  {| c_raw := [72; 58; 32; x; 13; 10; 13; 10] ++ repeat 46 n ++ [13; 10];
     c_hdr := [72; 58; 32; x; 13; 10; 13; 10];
     c_body := repeat 46 n ++ [13; 10] |}.

(* two messages; the POP3 session lists them; an IMAP session expunges the LAST one and a new,
   longer message is appended (MH gives it the freed key 2) *)
Definition ex_trace : list ev :=
  [EAppend (ex_c 65 1); EAppend (ex_c 66 1); EOpen; EPop (PList None); EPop (PUidl None);
   EExpunge [2]; EAppend (ex_c 67 3); EPop (PRetr (Some 2)); EPop (PList None)].

(* resolving message numbers through the MH key (what the pinned tree did) is refuted:
   number 2 is listed with 11 octets and UID 2, RETR 2 then delivers the 13 octets of UID 3 *)
Example by_key_refuted : ~ sizes_stable (snd (run false init_world ex_trace)).
Proof.
  intros H.
  assert (11 = 13) as E; [|discriminate E].
  apply (H (nth 3 (snd (run false init_world ex_trace)) RNone)
           (nth 7 (snd (run false init_world ex_trace)) RNone) 2); vm_compute; tauto.
Qed.

(* through the UID the same history answers "-ERR message not available" and the listing stays *)
Example by_uid_example :
  map size_rows (snd (run true init_world ex_trace)) =
  [[]; []; []; [(1, 11); (2, 11)]; []; []; []; []; [(1, 11); (2, 11)]] /\
  nth 7 (snd (run true init_world ex_trace)) RNone = RNotAvail /\
  nth 4 (snd (run true init_world ex_trace)) RNone = RUidlAll [(1, 1); (2, 2)].
Proof. vm_compute. auto. Qed.

(* DELE, RSET, DELE, QUIT with an interleaved append: exactly UID 1 goes *)
Example quit_example :
  let l := [EAppend (ex_c 65 1); EAppend (ex_c 66 2); EOpen; EPop (PDele (Some 2)); EPop PRset;
            EPop (PDele (Some 1)); EPop (PDele (Some 1)); EAppend (ex_c 67 0);
            EPop (PRetr (Some 2)); EPop PQuit; EObserve] in
  nth 10 (snd (run true init_world l)) RNone = RInbox [(2, 2); (3, 3)] /\
  nth 6 (snd (run true init_world l)) RNone = RNoSuch /\
  exists wire, nth 8 (snd (run true init_world l)) RNone = RRetr 2 12 wire /\
    receive wire = Some (full (ex_c 66 2)).
Proof. vm_compute. split; [reflexivity|]. split; [reflexivity|]. eexists; split; reflexivity. Qed.

Example stuffing_example :
  dot_stuff [46; 13; 10; 46; 46; 97; 13; 10; 98] = Ok [46; 46; 13; 10; 46; 46; 46; 97; 13; 10; 98] /\
  receive (end_multiline [46; 46; 13; 10; 46; 46; 46; 97; 13; 10; 98]) =
    Some [46; 13; 10; 46; 46; 97; 13; 10; 98; 13; 10].
Proof. vm_compute. auto. Qed.
