(* Proofs/CopyUid.v — COPYUID / APPENDUID are looked up by message number (C02).

   Mailbox.copy / append write the copies as MH files (remembering the numbers MH.add gave them), resync
   the destination, and report for each remembered number the UID of the message that now has it.  An MH
   tool is another process: it may have dropped files of its own in between, before, between or after the
   copies.  Whatever files the resync takes in together with the copies, looking a copy up by its number
   finds the message with the copy's content; reporting the LAST n UIDs of the destination instead does
   not (refuted below: the variant a seeded change introduced). *)
From Asimap Require Import Base.Res Spec.SetSem Model.Mbox Proofs.MboxInv Proofs.MboxStep Proofs.MboxLe Proofs.MboxExact Proofs.MboxUid Proofs.MboxKeys.
From Coq Require Import Sorting.Sorted Lia ZArith List Bool.
Local Open Scope Z_scope.
Local Open Scope list_scope.

Definition msg_of_key (ms : list msg) (k : Z) : option msg := find (fun m => m_key m =? k) ms.
(* what copy() reports for the remembered numbers *)
Definition report_by_key (b : mbox) (ks : list Z) : list (option Z) := map (fun k => option_map m_uid (msg_of_key (b_msgs b) k)) ks.
(* the variant: the last n UIDs of the destination *)
Definition report_tail (b : mbox) (n : nat) : list Z := skipn (List.length (b_msgs b) - n) (map m_uid (b_msgs b)).

Lemma sorted_lt_NoDup (l : list Z) : StronglySorted Z.lt l -> NoDup l.
Proof.
  induction 1 as [|x l Hs IH Hx]; constructor; [|exact IH].
  intros Hin. rewrite Forall_forall in Hx. specialize (Hx x Hin). lia.
Qed.

Lemma find_by_key l m : NoDup (keys l) -> In m l -> msg_of_key l (m_key m) = Some m.
Proof.
  unfold msg_of_key. induction l as [|x l IH]; intros Hnd Hin; [destruct Hin|].
  cbn [keys map] in Hnd. inversion Hnd as [|? ? Hx Hnd']; subst. cbn [find].
  destruct Hin as [->|Hin]; [rewrite Z.eqb_refl; reflexivity|].
  destruct (Z.eqb_spec (m_key x) (m_key m)) as [E|_]; [|apply IH; assumption].
  exfalso. apply Hx. rewrite E. unfold keys. apply in_map. exact Hin.
Qed.

Lemma in_assign f l : forall u, In f l ->
  exists f', In f' (assign_uids l u) /\ m_key f' = m_key f /\ m_cid f' = m_cid f /\ m_date f' = m_date f /\ u <= m_uid f'.
Proof.
  induction l as [|x l IH]; intros u Hin; [destruct Hin|]. cbn [assign_uids]. destruct Hin as [->|Hin].
  - eexists. split; [left; reflexivity|]. cbn [m_key m_cid m_date m_uid]. repeat split; lia.
  - destruct (IH (u + 1) Hin) as [f' [H1 [H2 [H3 [H4 H5]]]]]. exists f'. split; [right; exact H1|]. repeat split; trivial. lia.
Qed.

(* every file the resync takes in - a copy or somebody else's delivery - is afterwards found under its own
   number, with its own content and date, and a UID that was not in use before *)
Theorem resync_finds_file_by_key b f :
  kP b -> In f (b_disk b) ->
  exists m, msg_of_key (b_msgs (fst (resync b))) (m_key f) = Some m /\
            m_cid m = m_cid f /\ m_date m = m_date f /\ b_next b <= m_uid m.
Proof.
  intros Hk Hin. assert (Hne : b_disk b <> []) by (intros E; rewrite E in Hin; destruct Hin).
  destruct (resync_shape b Hne) as [S1 _]. pose proof (resync_kP b Hk) as Hk'. unfold kP in Hk'.
  destruct (resync_shape b Hne) as [_ [_ [_ S4]]]. rewrite S4, app_nil_r in Hk'.
  assert (Hsort : sort_by_key (b_disk b) = b_disk b).
  { apply sort_sorted. destruct Hk as [Hs _]. rewrite keys_app in Hs. exact (sorted_app_r _ _ Hs). }
  destruct (in_assign f (b_disk b) (b_next b) Hin) as [f' [H1 [H2 [H3 [H4 H5]]]]].
  exists f'. rewrite <- H2. split; [|auto].
  apply find_by_key; [apply sorted_lt_NoDup; apply Hk'|].
  rewrite S1. apply in_or_app. right. unfold fresh_of. rewrite Hsort. exact H1.
Qed.

(* the variant that reports the tail of the UID list is wrong as soon as a foreign file has a number below a
   copy's: two copies (contents 7, 8) written as files 4 and 6, an MH tool dropped file 5 (content 99) in between *)
Example report_tail_refuted :
  let mk k c := {| m_key := k; m_uid := 0; m_cid := c; m_date := 0; m_seqs := [] |} in
  let b := {| b_msgs := [ {| m_key := 3; m_uid := 10; m_cid := 1; m_date := 0; m_seqs := [] |} ]; b_next := 11; b_vv := 1;
              b_clients := []; b_disk := [mk 4 7; mk 5 99; mk 6 8] |} in
  let b' := fst (resync b) in
  report_by_key b' [4; 6] = [Some 11; Some 13] /\ report_tail b' 2 = [12; 13] /\
  option_map m_cid (msg_of_key (b_msgs b') 5) = Some 99 /\
  map m_cid (filter (fun m => m_uid m =? 12) (b_msgs b')) = [99].
Proof. vm_compute. repeat split; reflexivity. Qed.

(* in every reachable world, for any batch of files written into a mailbox (the copies of a COPY/MOVE/APPEND
   and anybody else's deliveries, in any order of arrival) *)
Theorem reachable_copyuid_by_number ps pn pd ops n b fs f :
  get_box (fst (run (init_world ps pn pd) ops)) n = Some b ->
  let b2 := with_disk b (add_files (b_disk b) (b_msgs b) fs) in
  In f (b_disk b2) ->
  exists m, msg_of_key (b_msgs (fst (resync b2))) (m_key f) = Some m /\
            m_cid m = m_cid f /\ m_date m = m_date f /\ b_next b <= m_uid m.
Proof.
  intros H b2 Hin. pose proof (reachable_wK ps pn pd ops n b H) as Hk.
  exact (resync_finds_file_by_key b2 f (with_disk_kP b fs Hk) Hin).
Qed.
