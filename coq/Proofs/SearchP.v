(* Proofs/SearchP.v — the evaluator of Model/SearchM.v computes the denotation of
   Spec/SearchSem.v, for every program and every mailbox. *)
From Asimap Require Import Base.Res Gen.Flags Spec.SetSem Spec.SearchSem Model.SearchM Proofs.SeqSetP.
From Coq Require Import Sorting.Sorted ZifyBool.
Open Scope Z_scope.

(* ------------------------------------------------------------------ strings *)
Lemma prefix_spec p l : prefix p l = true <-> exists post, l = p ++ post.
Proof.
  revert l; induction p as [|x p IH]; intros l; cbn [prefix].
  - split; [intros _; exists l; reflexivity|reflexivity].
  - destruct l as [|y l].
    + split; [discriminate|intros [post H]; discriminate H].
    + rewrite andb_true_iff, IH, Z.eqb_eq. split.
      * intros [-> [post ->]]; exists post; reflexivity.
      * intros [post H]; cbn [app] in H; injection H as -> ->; split; [reflexivity|exists post; reflexivity].
Qed.

Lemma contains_spec p l : contains p l = true <-> substring p l.
Proof.
  unfold substring. induction l as [|y l IH]; cbn [contains]; rewrite orb_true_iff, prefix_spec.
  - split.
    + intros [[post H]|H]; [exists [], post; exact H|discriminate H].
    + intros [pre [post H]]. destruct pre as [|z pre]; [left; exists post; exact H|discriminate H].
  - rewrite IH. split.
    + intros [[post H]|[pre [post H]]]; [exists [], post; exact H|].
      exists (y :: pre), post; cbn [app]; f_equal; exact H.
    + intros [pre [post H]]. destruct pre as [|z pre].
      * left; exists post; exact H.
      * right; cbn [app] in H; injection H as _ H; exists pre, post; exact H.
Qed.

Lemma fold_byte_idem z : fold_byte (fold_byte z) = fold_byte z.
Proof. unfold fold_byte. destruct ((65 <=? z) && (z <=? 90)) eqn:E; [|rewrite E; reflexivity].
  destruct ((65 <=? z + 32) && (z + 32 <=? 90)) eqn:E2; [lia|reflexivity]. Qed.
Lemma lower_idem s : lower (lower s) = lower s.
Proof. unfold lower; rewrite map_map; apply map_ext; intros z; apply fold_byte_idem. Qed.

(* ------------------------------------------------------------------ set keys *)
Lemma match_elt_spec n mx e : match_elt n mx e = true <-> in_elt mx e n.
Proof.
  destruct e as [|k|a b]; cbn [match_elt in_elt].
  - rewrite Z.eqb_eq; reflexivity.
  - rewrite Z.eqb_eq; split; intros H; symmetry; exact H.
  - replace (atom_or a mx) with (aval mx a) by (destruct a; reflexivity).
    replace (atom_or b mx) with (aval mx b) by (destruct b; reflexivity).
    destruct (aval mx a >? aval mx b) eqn:E; cbn [fst snd]; lia.
Qed.

Lemma match_set_spec n mx s : match_set n mx s = true <-> in_set mx s n.
Proof.
  unfold match_set, in_set. rewrite existsb_exists, Exists_exists.
  split; intros [e [He H]]; exists e; (split; [exact He|]); apply match_elt_spec; exact H.
Qed.

Lemma zmem_In x l : zmem x l = true <-> In x l.
Proof.
  unfold zmem. rewrite existsb_exists. split.
  - intros [y [Hy E]]; apply Z.eqb_eq in E; subst; exact Hy.
  - intros H; exists x; split; [exact H|apply Z.eqb_refl].
Qed.

Lemma bool_ext (a b : bool) : (a = true <-> b = true) -> a = b.
Proof. destruct a, b; intros [H1 H2]; try reflexivity; [symmetry; apply H1|apply H2]; reflexivity. Qed.

Lemma match_set_denote n mx s : match_set n mx s = zmem n (denote mx s).
Proof. apply bool_ext. rewrite match_set_spec, zmem_In, in_denote. reflexivity. Qed.

(* ------------------------------------------------------------------ induction on keys *)
Definition is_leaf (k : key) : bool :=
  match k with SNot _ | SOr _ _ | SParen _ => false | _ => true end.

Lemma key_ind2 (P : key -> Prop)
  (Hleaf : forall k, is_leaf k = true -> P k)
  (Hnot : forall k, P k -> P (SNot k))
  (Hor : forall a b, P a -> P b -> P (SOr a b))
  (Hparen : forall l, Forall P l -> P (SParen l)) : forall k, P k.
Proof.
  fix IH 1. intros k. destruct k; try (apply Hleaf; reflexivity).
  - apply Hnot, IH.
  - apply Hor; apply IH.
  - apply Hparen. revert l. fix IHl 1. intros [|x r]; [constructor|constructor; [apply IH|apply IHl]].
Qed.

(* ------------------------------------------------------------------ one message *)
Definition mkctx (mb : mailbox) (n : Z) (m : msg) : sctx :=
  {| c_msg := m; c_num := n; c_seq_max := Z.of_nat (List.length mb); c_uid_max := last (map m_uid mb) 0 |}.

Lemma seq_max_view mb : seq_max (map view mb) = Z.of_nat (List.length mb).
Proof. unfold seq_max; rewrite map_length; reflexivity. Qed.
Lemma uid_max_view mb : uid_max (map view mb) = last (map m_uid mb) 0.
Proof. unfold uid_max; rewrite map_map; reflexivity. Qed.

Lemma match_paren c l :
  match_op c (match map p_search_key l with [x] => x | l' => IAnd l' end)
  = forallb (match_op c) (map p_search_key l).
Proof.
  destruct (map p_search_key l) as [|x [|y r]]; [reflexivity| |reflexivity].
  cbn [forallb]; rewrite andb_true_r; reflexivity.
Qed.

Lemma match_header_view m f s :
  match_header m (py_lower f) (py_lower s) = has_header f s (view m).
Proof.
  unfold match_header, has_header, ci_contains, py_lower; cbn [view f_hdrs].
  rewrite lower_idem; reflexivity.
Qed.
(* the evaluator on the parser's tree = the denotation, for any nesting depth *)
Lemma match_sat mb n m : forall k,
  match_op (mkctx mb n m) (p_search_key k) = sat (map view mb) n (view m) k.
Proof.
  apply key_ind2.
  - intros k Hl. destruct k; try discriminate Hl; clear Hl;
      cbn [p_search_key match_op sat mkctx c_msg c_num c_seq_max c_uid_max]; try reflexivity.
    + (* SNew *) cbn [forallb match_op]; rewrite andb_true_r; reflexivity.
    + (* SSince *) cbn [view f_iday]; apply Z.geb_leb.
    + (* SHeader *) apply match_header_view.
    + (* SLarger *) cbn [view f_size]; apply Z.gtb_ltb.
    + (* SUid *) rewrite uid_max_view; cbn [view f_uid]; apply match_set_denote.
    + (* SMsgSet *) rewrite seq_max_view; apply match_set_denote.
  - intros k IH; cbn [p_search_key match_op sat]; rewrite IH; reflexivity.
  - intros a b IHa IHb; cbn [p_search_key match_op sat]; rewrite IHa, IHb; reflexivity.
  - intros l IH; cbn [p_search_key sat]; rewrite match_paren.
    induction IH as [|x r Hx _ IHr]; cbn [map forallb]; [reflexivity|rewrite Hx, IHr; reflexivity].
Qed.

Lemma match_prog mb n m p :
  match_op (mkctx mb n m) (p_search p) = forallb (sat (map view mb) n (view m)) p.
Proof.
  unfold p_search; cbn [match_op].
  induction p as [|k p IH]; cbn [map forallb]; [reflexivity|rewrite match_sat, IH; reflexivity].
Qed.

(* ------------------------------------------------------------------ the loop *)
Lemma py_range_nil a b : b <= a -> py_range a b = [].
Proof. intros H; unfold py_range; replace (Z.to_nat (b - a)) with 0%nat by lia; reflexivity. Qed.

Lemma py_range_cons a b : a < b -> py_range a b = a :: py_range (a + 1) b.
Proof.
  intros H; unfold py_range.
  replace (Z.to_nat (b - a)) with (S (Z.to_nat (b - (a + 1)))) by lia.
  cbn [seq map]. f_equal; [lia|].
  rewrite <- seq_shift, map_map. apply map_ext; intros i; lia.
Qed.

Lemma msg_at_nth (mb : mailbox) i m :
  nth_error mb i = Some m -> msg_at (map view mb) (Z.of_nat i + 1) = Some (view m).
Proof.
  intros H. unfold msg_at. destruct (Z.of_nat i + 1 <? 1) eqn:E; [lia|].
  replace (Z.to_nat (Z.of_nat i + 1 - 1)) with i by lia. apply map_nth_error; exact H.
Qed.

Lemma search_loop_spec p fmb N U uid_cmd :
  (forall n m, match_op {| c_msg := m; c_num := n; c_seq_max := N; c_uid_max := U |} (p_search p)
               = forallb (sat fmb n (view m)) p) ->
  forall l idx,
  (forall i m, nth_error l i = Some m -> msg_at fmb (idx + Z.of_nat i + 1) = Some (view m)) ->
  search_loop (p_search p) N U uid_cmd idx l
  = map (fun n => if uid_cmd then uid_at fmb n else n)
        (filter (holds p fmb) (py_range (idx + 1) (idx + Z.of_nat (List.length l) + 1))).
Proof.
  intros Hm. induction l as [|m r IH]; intros idx Hat.
  - cbn [search_loop List.length]. rewrite py_range_nil by lia. reflexivity.
  - cbn [search_loop].
    rewrite py_range_cons by (cbn [List.length]; lia). cbn [filter].
    rewrite Hm.
    assert (H0 : msg_at fmb (idx + 1) = Some (view m)).
    { specialize (Hat 0%nat m eq_refl). replace (idx + Z.of_nat 0 + 1) with (idx + 1) in Hat by lia. exact Hat. }
    unfold holds at 1. rewrite H0.
    rewrite (IH (idx + 1)).
    2:{ intros i x Hi. specialize (Hat (S i) x Hi).
        replace (idx + 1 + Z.of_nat i + 1) with (idx + Z.of_nat (S i) + 1) by lia. exact Hat. }
    cbn [List.length].
    replace (idx + 1 + Z.of_nat (List.length r) + 1) with (idx + Z.of_nat (S (List.length r)) + 1) by lia.
    destruct (forallb (sat fmb (idx + 1) (view m)) p); [|reflexivity].
    cbn [app map]. f_equal. destruct uid_cmd; [|reflexivity].
    unfold uid_at; rewrite H0; reflexivity.
Qed.

Lemma mbox_search_spec p mb uid_cmd :
  mbox_search (p_search p) mb uid_cmd
  = map (fun n => if uid_cmd then uid_at (map view mb) n else n) (sem_search p (map view mb)).
Proof.
  unfold sem_search. rewrite seq_max_view.
  assert (H : search_loop (p_search p) (Z.of_nat (List.length mb)) (last (map m_uid mb) 0) uid_cmd 0 mb
              = map (fun n => if uid_cmd then uid_at (map view mb) n else n)
                    (filter (holds p (map view mb)) (py_range 1 (Z.of_nat (List.length mb) + 1)))).
  { rewrite (search_loop_spec p (map view mb)).
    - reflexivity.
    - intros n m. apply (match_prog mb n m).
    - intros i m Hi. apply msg_at_nth; exact Hi. }
  destruct mb as [|m r]; [reflexivity|exact H].
Qed.

(* C14_exact *)
Theorem search_exact p mb : search_all p mb false = sem_search p (map view mb).
Proof. unfold search_all; rewrite mbox_search_spec; apply map_id. Qed.

Theorem search_uid_exact p mb : search_all p mb true = sem_uid_search p (map view mb).
Proof. unfold search_all; rewrite mbox_search_spec; reflexivity. Qed.

(* C14_uid_map *)
Theorem search_uid_map p mb :
  search_all p mb true = map (uid_at (map view mb)) (search_all p mb false).
Proof. rewrite search_uid_exact, search_exact; reflexivity. Qed.

(* ------------------------------------------------------------------ shape of the answer *)
Lemma msg_at_some mb n m : msg_at mb n = Some m -> 1 <= n <= seq_max mb.
Proof.
  unfold msg_at, seq_max. destruct (n <? 1) eqn:E; [discriminate|]. intros H.
  assert (Hn : nth_error mb (Z.to_nat (n - 1)) <> None) by (rewrite H; discriminate).
  apply nth_error_Some in Hn. lia.
Qed.
Lemma msg_at_in_range mb n : 1 <= n <= seq_max mb -> exists m, msg_at mb n = Some m.
Proof.
  unfold msg_at, seq_max. intros H. destruct (n <? 1) eqn:E; [lia|].
  destruct (nth_error mb (Z.to_nat (n - 1))) as [m|] eqn:E2; [exists m; reflexivity|].
  apply nth_error_None in E2. lia.
Qed.

Lemma holds_range p mb n : holds p mb n = true -> 1 <= n <= seq_max mb.
Proof.
  unfold holds. destruct (msg_at mb n) as [m|] eqn:E; [|discriminate]. intros _.
  eapply msg_at_some; exact E.
Qed.

Lemma in_sem_search p mb n : In n (sem_search p mb) <-> holds p mb n = true.
Proof.
  unfold sem_search. rewrite filter_In, in_py_range. split; [intros [_ H]; exact H|].
  intros H; split; [|exact H]. apply holds_range in H. lia.
Qed.

Theorem search_in p mb n :
  In n (search_all p mb false) <-> holds p (map view mb) n = true.
Proof. rewrite search_exact; apply in_sem_search. Qed.

Lemma py_range_sorted a b : StronglySorted Z.lt (py_range a b).
Proof.
  unfold py_range. generalize (Z.to_nat (b - a)) as k. generalize 0%nat as s.
  intros s k; revert s; induction k as [|k IH]; intros s; cbn [seq map]; constructor; [apply IH|].
  rewrite Forall_forall; intros z Hz. apply in_map_iff in Hz. destruct Hz as [i [<- Hi]].
  apply in_seq in Hi. lia.
Qed.
Lemma filter_sorted (f : Z -> bool) l : StronglySorted Z.lt l -> StronglySorted Z.lt (filter f l).
Proof.
  induction 1 as [|x l Hs IH Hall]; cbn [filter]; [constructor|].
  destruct (f x); [|exact IH]. constructor; [exact IH|].
  rewrite Forall_forall in *; intros z Hz; apply filter_In in Hz; apply Hall; tauto.
Qed.

Theorem search_sorted p mb : StronglySorted Z.lt (search_all p mb false).
Proof. rewrite search_exact; apply filter_sorted, py_range_sorted. Qed.

(* ------------------------------------------------------------------ Boolean algebra *)
Lemma sem_ext p q mb :
  (forall n m, forallb (sat mb n m) p = forallb (sat mb n m) q) -> sem_search p mb = sem_search q mb.
Proof.
  intros H; unfold sem_search; apply filter_ext; intros n; unfold holds.
  destruct (msg_at mb n); [apply H|reflexivity].
Qed.

Lemma search_ext p q :
  (forall fmb n m, forallb (sat fmb n m) p = forallb (sat fmb n m) q) ->
  forall mb u, search_all p mb u = search_all q mb u.
Proof.
  intros H mb u. destruct u.
  - rewrite !search_uid_exact; unfold sem_uid_search; f_equal; apply sem_ext, H.
  - rewrite !search_exact; apply sem_ext, H.
Qed.

Theorem search_not_not k : forall mb u, search_all [SNot (SNot k)] mb u = search_all [k] mb u.
Proof. apply search_ext; intros; cbn [forallb sat]; rewrite negb_involutive; reflexivity. Qed.

Theorem search_or_comm a b : forall mb u, search_all [SOr a b] mb u = search_all [SOr b a] mb u.
Proof. apply search_ext; intros; cbn [forallb sat]; rewrite orb_comm; reflexivity. Qed.

Theorem search_de_morgan_or a b :
  forall mb u, search_all [SNot (SOr a b)] mb u = search_all [SNot a; SNot b] mb u.
Proof. apply search_ext; intros; cbn [forallb sat]; rewrite negb_orb, !andb_true_r; reflexivity. Qed.

Theorem search_de_morgan_and a b :
  forall mb u, search_all [SNot (SParen [a; b])] mb u = search_all [SOr (SNot a) (SNot b)] mb u.
Proof. apply search_ext; intros; cbn [forallb sat]; rewrite !andb_true_r, negb_andb; reflexivity. Qed.

Theorem search_paren l : forall mb u, search_all [SParen l] mb u = search_all l mb u.
Proof. apply search_ext; intros; cbn [forallb sat]; apply andb_true_r. Qed.

(* NEW / OLD / UN* are their defined combinations *)
Theorem search_new : forall mb u, search_all [SNew] mb u = search_all [SRecent; SUnseen] mb u.
Proof. apply search_ext; intros; cbn [forallb sat]; rewrite <- andb_assoc; reflexivity. Qed.
Theorem search_old : forall mb u, search_all [SOld] mb u = search_all [SNot SRecent] mb u.
Proof. apply search_ext; intros; reflexivity. Qed.
Definition un_of (k : key) : option key :=
  match k with
  | SUnanswered => Some SAnswered | SUndeleted => Some SDeleted | SUndraft => Some SDraft
  | SUnflagged => Some SFlagged | SUnseen => Some SSeen | SUnkeyword kw => Some (SKeyword kw)
  | _ => None
  end.
Theorem search_un k k' : un_of k = Some k' -> forall mb u, search_all [k] mb u = search_all [SNot k'] mb u.
Proof.
  intros H. apply search_ext; intros.
  destruct k; try discriminate H; injection H as <-; reflexivity.
Qed.

(* NOT is the complement, OR the union, juxtaposition the intersection *)
Theorem search_not_complement k mb n :
  In n (search_all [SNot k] mb false) <->
  1 <= n <= Z.of_nat (List.length mb) /\ ~ In n (search_all [k] mb false).
Proof.
  rewrite !search_in, <- seq_max_view. unfold holds. split.
  - destruct (msg_at (map view mb) n) as [m|] eqn:E; [|discriminate].
    cbn [forallb sat]; rewrite !andb_true_r. intros H; split; [eapply msg_at_some; exact E|].
    destruct (sat (map view mb) n m k); [discriminate H|discriminate].
  - intros [Hr Hn]. destruct (msg_at_in_range _ _ Hr) as [m E]. rewrite E in *.
    cbn [forallb sat] in *; rewrite andb_true_r in *.
    destruct (sat (map view mb) n m k); [exfalso; apply Hn; reflexivity|reflexivity].
Qed.

Theorem search_or_union a b mb n :
  In n (search_all [SOr a b] mb false) <->
  In n (search_all [a] mb false) \/ In n (search_all [b] mb false).
Proof.
  rewrite !search_in. unfold holds. destruct (msg_at (map view mb) n) as [m|].
  - cbn [forallb sat]; rewrite !andb_true_r, orb_true_iff; reflexivity.
  - split; [discriminate|intros [H|H]; discriminate H].
Qed.

Theorem search_and_inter p q mb n :
  In n (search_all (p ++ q) mb false) <->
  In n (search_all p mb false) /\ In n (search_all q mb false).
Proof.
  rewrite !search_in. unfold holds. destruct (msg_at (map view mb) n) as [m|].
  - rewrite forallb_app, andb_true_iff; reflexivity.
  - split; [discriminate|intros [H _]; discriminate H].
Qed.

(* ------------------------------------------------------------------ the set keys and SetSem.denote *)
Lemma filter_all (f : Z -> bool) l : (forall x, In x l -> f x = true) -> filter f l = l.
Proof.
  induction l as [|x l IH]; intros H; cbn [filter]; [reflexivity|].
  rewrite (H x (or_introl eq_refl)); f_equal; apply IH; intros y Hy; apply H; right; exact Hy.
Qed.

Theorem search_set_in s mb n :
  In n (search_all [SMsgSet s] mb false) <->
  1 <= n <= Z.of_nat (List.length mb) /\ in_set (Z.of_nat (List.length mb)) s n.
Proof.
  rewrite search_in, <- seq_max_view. unfold holds. split.
  - destruct (msg_at (map view mb) n) as [m|] eqn:E; [|discriminate].
    cbn [forallb sat]; rewrite andb_true_r, zmem_In, in_denote.
    intros H; split; [eapply msg_at_some; exact E|exact H].
  - intros [Hr Hs]. destruct (msg_at_in_range _ _ Hr) as [m E]; rewrite E.
    cbn [forallb sat]; rewrite andb_true_r, zmem_In, in_denote; exact Hs.
Qed.

Theorem search_set_denote s mb :
  search_all [SMsgSet s] mb false
  = filter (fun n => (1 <=? n) && (n <=? Z.of_nat (List.length mb))) (denote (Z.of_nat (List.length mb)) s).
Proof.
  apply sorted_ext; [apply search_sorted|apply filter_sorted, denote_sorted|].
  intros n. rewrite search_set_in, filter_In, in_denote. split; intros [H1 H2]; (split; [|]); try assumption; lia.
Qed.

(* all numbers of the set in 1..N: exactly what the other commands address (C15) *)
Theorem search_set_denote_ok s mb :
  forallb (elt_ok (Z.of_nat (List.length mb))) s = true ->
  search_all [SMsgSet s] mb false = denote (Z.of_nat (List.length mb)) s.
Proof.
  intros Hok. rewrite search_set_denote. apply filter_all. intros n Hn.
  pose proof (denote_within _ _ _ Hok Hn). lia.
Qed.

Lemma uid_at_in mb n m : msg_at (map view mb) n = Some m -> In (f_uid m) (map m_uid mb).
Proof.
  unfold msg_at. destruct (n <? 1); [discriminate|]. intros H. apply nth_error_In in H.
  apply in_map_iff in H. destruct H as [x [<- Hx]]. apply in_map_iff. exists x; split; [reflexivity|exact Hx].
Qed.

Theorem search_uid_set_in s mb u :
  In u (search_all [SUid s] mb true) <->
  In u (map m_uid mb) /\ in_set (last (map m_uid mb) 0) s u.
Proof.
  rewrite search_uid_exact. unfold sem_uid_search. rewrite in_map_iff, <- uid_max_view. split.
  - intros [n [Hu Hn]]. apply in_sem_search in Hn. unfold holds, uid_at in *.
    destruct (msg_at (map view mb) n) as [m|] eqn:E; [|discriminate]. subst u.
    cbn [forallb sat] in Hn; rewrite andb_true_r, zmem_In, in_denote in Hn.
    split; [eapply uid_at_in; exact E|exact Hn].
  - intros [Hin Hs]. apply in_map_iff in Hin. destruct Hin as [x [<- Hx]].
    apply In_nth_error in Hx. destruct Hx as [i Hi].
    exists (Z.of_nat i + 1).
    assert (Hat : msg_at (map view mb) (Z.of_nat i + 1) = Some (view x)).
    { unfold msg_at. destruct (Z.of_nat i + 1 <? 1) eqn:E; [lia|].
      replace (Z.to_nat (Z.of_nat i + 1 - 1)) with i by lia. apply map_nth_error; exact Hi. }
    split; [unfold uid_at; rewrite Hat; reflexivity|].
    apply in_sem_search. unfold holds; rewrite Hat.
    cbn [forallb sat view f_uid]; rewrite andb_true_r, zmem_In, in_denote; exact Hs.
Qed.

(* ------------------------------------------------------------------ example data (Properties/C14.v) *)
Definition ex_b (s : string) : bstr := bytes_of_string s.
Definition ex_msg (uid : Z) (seqs : list string) (size iday : Z) (date : option Z) (subj body : string) : msg :=
  {| m_uid := uid; m_seqs := seqs; m_size := size; m_iday := iday; m_date := date;
     m_hdrs := [(ex_b "Subject", ex_b subj); (ex_b "Date", ex_b "x")];
     m_text := ex_b "Subject: " ++ ex_b subj ++ [13; 10; 13; 10] ++ ex_b body;
     m_body := ex_b body |}.
Definition ex_mb : mailbox :=
  [ ex_msg 3 ["Seen"; "kw"]%string       120 100 (Some 99)  "Hello World" "first BODY";
    ex_msg 5 ["Recent"; "unseen"]%string 300 101 (Some 101) "other"       "second hello";
    ex_msg 9 ["replied"; "Seen"; "Recent"]%string 50 102 None "third" "x" ].

