(* Proofs/CrashP.v — C11 on Model/Crash.v: whatever part of a command's file effects has happened
   when the process dies (any subset of its deletions, any of its additions under unused numbers),
   the restart never gives a known UID to another message and never lowers UIDNEXT; the complete
   traces of APPEND and EXPUNGE end in consistent states with the acknowledged result. *)
From Asimap Require Import Base.Res Model.Crash.
From Coq Require Import ZifyBool.
Open Scope Z_scope.

Lemma in_fresh next n u : In u (fresh_uids next n) -> next <= u.
Proof. unfold fresh_uids. rewrite in_map_iff. intros [i [<- _]]. lia. Qed.
Lemma fresh_length next n : List.length (fresh_uids next n) = n.
Proof. unfold fresh_uids. rewrite map_length, seq_length. reflexivity. Qed.

Lemma in_bindings F r u x :
  In (u, x) (bindings F r) <-> exists k, In (k, u) (combine (r_keys r) (r_uids r)) /\ x = cid_of F k.
Proof.
  unfold bindings. rewrite in_map_iff. split.
  - intros [[k u0] [E Hin]]. cbn [fst snd] in E. inversion E; subst. exists k. auto.
  - intros [k [Hin ->]]. exists (k, u). auto.
Qed.

Lemma single_match (files : list (Z * Z)) k :
  NoDup (map fst files) -> In k (map fst files) -> exists c, filter (fun f => fst f =? k) files = [(k, c)].
Proof.
  induction files as [|[k0 c0] fs IH]; intros Hnd Hin; [destruct Hin|].
  cbn [map fst] in *. inversion Hnd as [|? ? Hnot Hnd']; subst. cbn [filter fst].
  destruct (k0 =? k) eqn:E.
  - apply Z.eqb_eq in E. subst k0. exists c0. f_equal.
    clear -Hnot. induction fs as [|[k1 c1] fs IH]; [reflexivity|]. cbn [map fst In filter] in *.
    destruct (k1 =? k) eqn:E1; [apply Z.eqb_eq in E1; subst; exfalso; apply Hnot; left; reflexivity|].
    apply IH. intros H. apply Hnot. right. exact H.
  - destruct Hin as [->|Hin]; [rewrite Z.eqb_refl in E; discriminate|]. apply IH; trivial.
Qed.

Lemma filter_comm {A} (f g : A -> bool) l : filter f (filter g l) = filter g (filter f l).
Proof.
  induction l as [|x l IH]; [reflexivity|]. cbn [filter].
  destruct (f x) eqn:Ef, (g x) eqn:Eg; cbn [filter]; rewrite ?Ef, ?Eg, IH; reflexivity.
Qed.

(* a message that was known and whose file survives keeps its content *)
Lemma cid_survives files P added k :
  NoDup (map fst files) -> In k (map fst files) ->
  In k (map fst (filter P files ++ added)) -> (forall a, In a added -> fst a <> k) ->
  cid_of (filter P files ++ added) k = cid_of files k /\ cid_of files k <> None.
Proof.
  intros Hnd Hin Hin' Hadd. destruct (single_match files k Hnd Hin) as [c Hc].
  unfold cid_of. rewrite filter_app, filter_comm, Hc.
  assert (Ha : filter (fun f => fst f =? k) added = []).
  { clear -Hadd. induction added as [|a l IH]; [reflexivity|]. cbn [filter].
    destruct (fst a =? k) eqn:E; [apply Z.eqb_eq in E; exfalso; apply (Hadd a); [left; reflexivity|exact E]|].
    apply IH. intros a0 H. apply Hadd. right; exact H. }
  rewrite Ha, app_nil_r. cbn [filter].
  destruct (P (k, c)) eqn:Ep; [split; [reflexivity|discriminate]|].
  exfalso. rewrite map_app, in_app_iff in Hin'. destruct Hin' as [H|H].
  - apply in_map_iff in H. destruct H as [[k1 c1] [E H]]. cbn [fst] in E. subst k1. apply filter_In in H. destruct H as [H HP].
    assert (In (k, c1) (filter (fun f => fst f =? k) files)) by (apply filter_In; split; [exact H|cbn; apply Z.eqb_refl]).
    rewrite Hc in H0. destruct H0 as [E|[]]. inversion E; subst. congruence.
  - apply in_map_iff in H. destruct H as [a [E H]]. apply (Hadd a H E).
Qed.

Lemma in_combine_keys (ks us : list Z) k u : In (k, u) (combine ks us) -> In k ks.
Proof. apply in_combine_l. Qed.

Lemma combine_app {A B} (a c : list A) (b d : list B) :
  List.length a = List.length b -> combine (a ++ c) (b ++ d) = combine a b ++ combine c d.
Proof.
  revert b; induction a as [|x a IH]; intros [|y b] H; cbn in *; try discriminate; [reflexivity|].
  rewrite IH by lia. reflexivity.
Qed.
Lemma combine_map_fst_snd {A B} (l : list (A * B)) : combine (map fst l) (map snd l) = l.
Proof. induction l as [|[a b] l IH]; [reflexivity|]. cbn. rewrite IH. reflexivity. Qed.

Lemma forallb_eq_lists (a b : list Z) :
  forallb (fun p => fst p =? snd p) (combine a b) = true -> List.length a = List.length b -> a = b.
Proof.
  revert b; induction a as [|x a IH]; intros [|y b] H Hl; cbn in *; try discriminate; [reflexivity|].
  apply andb_prop in H. destruct H as [E H]. apply Z.eqb_eq in E. subst. f_equal. apply IH; [exact H|lia].
Qed.

(* THE crash theorem: the process dies before the commit, after any subset of the known files has
   been removed and any files have been added under numbers the row does not know *)
Theorem recover_never_rebinds files db P added :
  map fst files = r_keys db -> NoDup (r_keys db) ->
  (forall a, In a added -> ~ In (fst a) (r_keys db)) ->
  let d' := {| d_files := filter P files ++ added; d_db := db |} in
  (forall u x, In (u, x) (bindings (d_files d') (recover d')) ->
               (In (u, x) (bindings files db) /\ x <> None) \/ r_next db <= u) /\
  r_next db <= r_next (recover d').
Proof.
  intros Hk Hnd Hadd d'. cbn [d_files d_db] in *.
  assert (Hold : forall k u, In (k, u) (combine (r_keys db) (r_uids db)) ->
                  In k (map fst (filter P files ++ added)) ->
                  In (u, cid_of (filter P files ++ added) k) (bindings files db) /\ cid_of (filter P files ++ added) k <> None).
  { intros k u Hin Hon. assert (Hkk : In k (r_keys db)) by (eapply in_combine_keys; exact Hin).
    destruct (cid_survives files P added k) as [E Hne]; [rewrite Hk; exact Hnd|rewrite Hk; exact Hkk|exact Hon| |].
    - intros a Ha E. apply (Hadd a Ha). rewrite E. exact Hkk.
    - rewrite E. split; [|exact Hne]. apply in_bindings. exists k. auto. }
  unfold recover, d'. cbn [d_files d_db].
  set (fk := map fst (filter P files ++ added)) in *.
  destruct (forallb (fun p => fst p =? snd p) (combine fk (r_keys db)) && (List.length fk =? List.length (r_keys db))%nat) eqn:B1.
  - apply andb_prop in B1. destruct B1 as [B1 B2]. apply Nat.eqb_eq in B2.
    pose proof (forallb_eq_lists _ _ B1 B2) as Efk. split; [|lia].
    intros u x Hin. apply in_bindings in Hin. destruct Hin as [k [Hin ->]]. left.
    apply Hold; [exact Hin|]. rewrite Efk. eapply in_combine_keys; exact Hin.
  - destruct (List.length fk <? List.length (r_keys db))%nat eqn:B2.
    + cbn [r_next]. split; [|unfold zlen; lia].
      intros u x Hin. apply in_bindings in Hin. cbn [r_keys r_uids] in Hin. destruct Hin as [k [Hin _]].
      right. apply in_combine_r in Hin. apply in_fresh in Hin. exact Hin.
    + cbn [r_next]. split; [|unfold zlen; lia].
      intros u x Hin. apply in_bindings in Hin. cbn [r_keys r_uids] in Hin. destruct Hin as [k [Hin ->]].
      rewrite combine_app in Hin by (rewrite !map_length; reflexivity).
      rewrite combine_map_fst_snd in Hin. apply in_app_or in Hin. destruct Hin as [Hin|Hin].
      * apply filter_In in Hin. destruct Hin as [Hin Hz]. cbn [fst] in Hz. left. apply Hold; [exact Hin|].
        unfold zmem in Hz. apply existsb_exists in Hz. destruct Hz as [k' [Hk' E]]. apply Z.eqb_eq in E. subst. exact Hk'.
      * right. apply in_combine_r in Hin. apply in_fresh in Hin. exact Hin.
Qed.

(* a consistent state is left alone by the restart *)
Lemma recover_consistent d : consistent d -> recover d = d_db d.
Proof.
  intros [Hk _]. unfold recover. rewrite Hk.
  assert (H : forall l : list Z, forallb (fun p => fst p =? snd p) (combine l l) = true).
  { induction l as [|x l IH]; [reflexivity|]. cbn. rewrite Z.eqb_refl, IH. reflexivity. }
  rewrite H, Nat.eqb_refl. reflexivity.
Qed.

Lemma filter_true {A} (l : list A) : filter (fun _ => true) l = l.
Proof. induction l as [|x l IH]; [reflexivity|]. cbn. rewrite IH. reflexivity. Qed.

(* ---- APPEND: every prefix of its trace *)
Lemma max_key_ge l : forall a, a <= fold_left Z.max l a.
Proof. induction l as [|x l IH]; intros a; cbn; [lia|]. specialize (IH (Z.max a x)). lia. Qed.
Lemma max_key_in l k : In k l -> k <= max_key l.
Proof.
  unfold max_key. generalize 0. induction l as [|x l IH]; intros a H; [destruct H|]. cbn [fold_left].
  destruct H as [->|H]; [pose proof (max_key_ge l (Z.max a k)); lia|apply IH; exact H].
Qed.

(* the file is there but the commit is not: the restart takes the message in under the UID that
   APPENDUID would have reported, every older message keeps its UID *)
Theorem append_file_only d c :
  consistent d -> NoDup (r_keys (d_db d)) ->
  let k := max_key (map fst (d_files d)) + 1 in
  let d' := apply_effects d [FileAdd k c] in
  (forall u x, In (u, x) (bindings (d_files d') (recover d')) ->
     (In (u, x) (bindings (d_files d) (d_db d)) /\ x <> None) \/ r_next (d_db d) <= u) /\
  r_next (d_db d) <= r_next (recover d').
Proof.
  intros [Hk Hrest] Hnd k d'. unfold d', apply_effects. cbn [fold_left apply_effect].

  assert (Hadd : forall a, In a [(k, c)] -> ~ In (fst a) (r_keys (d_db d))).
  { intros a [<-|[]] Hin. cbn [fst] in Hin. rewrite <- Hk in Hin. apply max_key_in in Hin. unfold k in Hin. lia. }
  pose proof (recover_never_rebinds (d_files d) (d_db d) (fun _ => true) [(k, c)] Hk Hnd Hadd) as H.
  cbv zeta in H. rewrite filter_true in H. exact H.
Qed.

(* the complete trace: the state is consistent again and the acknowledged message is there under
   the UID that was UIDNEXT, every older message as before *)
Lemma cid_of_app_new files k c k0 : k0 <> k -> cid_of (files ++ [(k, c)]) k0 = cid_of files k0.
Proof.
  intros H. unfold cid_of. rewrite filter_app. cbn [filter fst]. destruct (k =? k0) eqn:E; [lia|]. rewrite app_nil_r. reflexivity.
Qed.
Lemma cid_of_new files k c : ~ In k (map fst files) -> cid_of (files ++ [(k, c)]) k = Some c.
Proof.
  intros H. unfold cid_of. rewrite filter_app. cbn [filter fst]. rewrite Z.eqb_refl.
  assert (E : filter (fun f => fst f =? k) files = []).
  { induction files as [|[k1 c1] fs IH]; [reflexivity|]. cbn [map fst In filter] in *.
    destruct (k1 =? k) eqn:E1; [apply Z.eqb_eq in E1; subst; exfalso; apply H; left; reflexivity|].
    apply IH. intros H0. apply H. right; exact H0. }
  rewrite E. reflexivity.
Qed.

Theorem append_complete d c :
  consistent d ->
  let d' := apply_effects d (append_trace d c) in
  consistent d' /\ recover d' = d_db d' /\
  In (r_next (d_db d), Some c) (bindings (d_files d') (d_db d')) /\
  (forall u x, In (u, x) (bindings (d_files d) (d_db d)) -> In (u, x) (bindings (d_files d') (d_db d'))).
Proof.
  intros Hc d'. destruct Hc as [Hk [Hl [Hu [Hp Hn]]]].
  set (k := max_key (map fst (d_files d)) + 1).
  assert (Hnew : ~ In k (map fst (d_files d))) by (intros H; apply max_key_in in H; unfold k in H; lia).
  assert (Ed : d' = {| d_files := d_files d ++ [(k, c)];
                      d_db := {| r_keys := r_keys (d_db d) ++ [k]; r_uids := r_uids (d_db d) ++ [r_next (d_db d)];
                                 r_next := r_next (d_db d) + 1 |} |}) by reflexivity.
  assert (Hc' : consistent d').
  { rewrite Ed. unfold consistent. cbn [d_files d_db r_keys r_uids r_next]. rewrite map_app, Hk. cbn [map fst].
    split; [reflexivity|]. split; [rewrite !app_length, Hl; reflexivity|]. split; [|split].
    - apply Forall_app; split; [eapply Forall_impl; [|exact Hu]; cbv beta; intros; lia|]. constructor; [lia|constructor].
    - apply Forall_app; split; [exact Hp|]. constructor; [|constructor]. unfold k.
      pose proof (max_key_ge (map fst (d_files d)) 0). unfold max_key. lia.
    - lia. }
  split; [exact Hc'|]. split; [apply recover_consistent; exact Hc'|]. rewrite Ed. cbn [d_files d_db]. split.
  - apply in_bindings. exists k. cbn [r_keys r_uids]. split.
    + rewrite combine_app by (symmetry; exact Hl). apply in_or_app. right. left. reflexivity.
    + symmetry. apply cid_of_new. exact Hnew.
  - intros u x Hin. apply in_bindings in Hin. destruct Hin as [k0 [Hin ->]]. apply in_bindings. exists k0. cbn [r_keys r_uids]. split.
    + rewrite combine_app by (symmetry; exact Hl). apply in_or_app. left. exact Hin.
    + symmetry. apply cid_of_app_new. intros ->. apply Hnew. rewrite Hk. eapply in_combine_keys. exact Hin.
Qed.


(* ---- EXPUNGE (and CLOSE, MOVE's removal): killed after any number of its file removals *)
Lemma fold_filedel (ks : list Z) : forall d,
  d_files (fold_left apply_effect (map FileDel ks) d) = filter (fun f => negb (zmem (fst f) ks)) (d_files d) /\
  d_db (fold_left apply_effect (map FileDel ks) d) = d_db d.
Proof.
  induction ks as [|k ks IH]; intros d; cbn [map fold_left].
  - split; [|reflexivity]. cbn [zmem existsb negb]. symmetry. apply filter_true.
  - destruct (IH (apply_effect d (FileDel k))) as [H1 H2]. rewrite H1, H2. cbn [apply_effect d_files d_db]. split; [|reflexivity].
    induction (d_files d) as [|x l IHl]; [reflexivity|]. cbn [filter zmem existsb].
    destruct (fst x =? k) eqn:E; cbn [negb filter orb].
    + exact IHl.
    + fold (zmem (fst x) ks). destruct (zmem (fst x) ks); cbn [negb]; [exact IHl|rewrite IHl; reflexivity].
Qed.

Theorem expunge_killed_midway d (removed : list Z) :
  consistent d -> NoDup (r_keys (d_db d)) ->
  let d' := apply_effects d (map FileDel removed) in
  (forall u x, In (u, x) (bindings (d_files d') (recover d')) ->
     (In (u, x) (bindings (d_files d) (d_db d)) /\ x <> None) \/ r_next (d_db d) <= u) /\
  r_next (d_db d) <= r_next (recover d').
Proof.
  intros [Hk Hrest] Hnd d'. unfold d', apply_effects. destruct (fold_filedel removed d) as [H1 H2].
  destruct (fold_left apply_effect (map FileDel removed) d) as [F D]. cbn [d_files d_db] in *. subst F D.
  rewrite <- (app_nil_r (filter _ (d_files d))). apply recover_never_rebinds; [exact Hk|exact Hnd|intros a []].
Qed.

(* ---- and with a delivery made while the server is down, after the last message's file has been
   removed: the UID is given to the new message (the recorded finding) *)
Example delivery_while_down_rebinds :
  let d := {| d_files := [(1, 101); (2, 102); (3, 103)]; d_db := {| r_keys := [1; 2; 3]; r_uids := [1; 2; 3]; r_next := 4 |} |} in
  let crashed := apply_effects d [FileDel 3] in
  let delivered := apply_effect crashed (FileAdd 3 777) in
  In (3, Some 103) (bindings (d_files d) (d_db d)) /\ In (3, Some 777) (bindings (d_files delivered) (recover delivered)).
Proof. split; vm_compute; auto. Qed.
