(* Proofs/BodyAlgP.v — lemmas about the data-item algebra (Model/BodyAlg.v) and the literal
   reader of Spec/RespTok.v. *)
From Asimap Require Import Base.Res Model.BodyAlg Spec.RespTok.
From Coq Require Import Decimal DecimalN DecimalPos NArith.
Open Scope Z_scope.

(* ------------------------------------------------------------------ ends_crlf / ensure_crlf *)
Lemma ends_crlf_cons2 a b c t : ends_crlf (a :: b :: c :: t) = ends_crlf (b :: c :: t).
Proof. reflexivity. Qed.

Lemma ends_crlf_app_crlf l : ends_crlf (l ++ CRLF) = true.
Proof.
  induction l as [|a l IH]; [reflexivity|].
  destruct l as [|b l]; [reflexivity|].
  change ((a :: b :: l) ++ CRLF) with (a :: (b :: l) ++ CRLF).
  destruct l as [|c l]; [reflexivity|].
  exact IH.
Qed.

Lemma ends_crlf_inv l : ends_crlf l = true -> exists p, l = p ++ CRLF.
Proof.
  induction l as [|a l IH]; intros H; [discriminate H|].
  destruct l as [|b l]; [discriminate H|].
  destruct l as [|c l].
  - cbn in H. apply andb_prop in H as [Ha Hb].
    apply Z.eqb_eq in Ha, Hb; subst. exists []; reflexivity.
  - rewrite ends_crlf_cons2 in H. destruct (IH H) as [p Hp].
    exists (a :: p). rewrite Hp. reflexivity.
Qed.

Lemma ends_crlf_iff l : ends_crlf l = true <-> exists p, l = p ++ CRLF.
Proof.
  split; [apply ends_crlf_inv|]. intros [p ->]. apply ends_crlf_app_crlf.
Qed.

(* a suffix of at least two octets decides *)
Lemma ends_crlf_app2 h x y t : ends_crlf (h ++ x :: y :: t) = ends_crlf (x :: y :: t).
Proof.
  induction h as [|a h IH]; [reflexivity|].
  assert (E : exists c r, h ++ x :: y :: t = c :: r /\ r <> []).
  { destruct h as [|b h]; [exists x, (y :: t); split; [reflexivity|discriminate]|].
    exists b, (h ++ x :: y :: t). split; [reflexivity|]. destruct h; discriminate. }
  destruct E as [c [r [E Hr]]].
  change ((a :: h) ++ x :: y :: t) with (a :: (h ++ x :: y :: t)).
  rewrite E in *. destruct r as [|c' r]; [contradiction|].
  rewrite ends_crlf_cons2. exact IH.
Qed.

Lemma ends_crlf_app_ne h b :
  ends_crlf h = true -> b <> [] -> ends_crlf (h ++ b) = ends_crlf b.
Proof.
  intros Hh Hb. destruct b as [|x [|y t]]; [contradiction| |apply ends_crlf_app2].
  destruct (ends_crlf_inv _ Hh) as [p ->].
  rewrite <- app_assoc.
  change (CRLF ++ [x]) with (13 :: 10 :: [x]).
  rewrite (ends_crlf_app2 p 13 10 [x]). reflexivity.
Qed.

Lemma ensure_crlf_ends l : ends_crlf (ensure_crlf l) = true.
Proof.
  unfold ensure_crlf. destruct (ends_crlf l) eqn:E; [exact E|apply ends_crlf_app_crlf].
Qed.

Lemma ensure_crlf_fix l : ends_crlf l = true -> ensure_crlf l = l.
Proof. intros H. unfold ensure_crlf. rewrite H. reflexivity. Qed.

Lemma ensure_crlf_idem l : ensure_crlf (ensure_crlf l) = ensure_crlf l.
Proof. apply ensure_crlf_fix, ensure_crlf_ends. Qed.

Lemma ensure_crlf_nil : ensure_crlf [] = CRLF.
Proof. reflexivity. Qed.

Lemma ensure_crlf_app h b :
  ends_crlf h = true -> b <> [] -> ensure_crlf (h ++ b) = h ++ ensure_crlf b.
Proof.
  intros Hh Hb. unfold ensure_crlf. rewrite (ends_crlf_app_ne h b Hh Hb).
  destruct (ends_crlf b); [reflexivity|apply app_assoc_reverse].
Qed.

(* ------------------------------------------------------------------ slices *)
Lemma nth_error_nil_Z i : nth_error (@nil Z) i = None.
Proof. destruct i; reflexivity. Qed.

Lemma zskip_nth l : forall o i, 0 <= o ->
  nth_error (zskip o l) i = nth_error l (Z.to_nat o + i).
Proof.
  induction l as [|x t IH]; intros o i Ho.
  - cbn [zskip]. rewrite !nth_error_nil_Z. reflexivity.
  - cbn [zskip]. destruct (o <=? 0) eqn:E.
    + apply Z.leb_le in E. replace o with 0 by lia. reflexivity.
    + apply Z.leb_gt in E. rewrite IH by lia.
      replace (Z.to_nat o + i)%nat with (S (Z.to_nat (o - 1) + i)) by lia. reflexivity.
Qed.

Lemma ztake_nth l : forall n i, 0 <= n ->
  nth_error (ztake n l) i = if Z.of_nat i <? n then nth_error l i else None.
Proof.
  induction l as [|x t IH]; intros n i Hn.
  - cbn [ztake]. rewrite !nth_error_nil_Z. destruct (_ <? n); reflexivity.
  - cbn [ztake]. destruct (n <=? 0) eqn:E.
    + apply Z.leb_le in E. destruct (Z.of_nat i <? n) eqn:F; [apply Z.ltb_lt in F; lia|].
      destruct i; reflexivity.
    + apply Z.leb_gt in E. destruct i as [|i].
      * cbn [nth_error]. destruct (Z.of_nat 0 <? n) eqn:F; [reflexivity|apply Z.ltb_ge in F; lia].
      * cbn [nth_error]. rewrite IH by lia.
        destruct (Z.of_nat i <? n - 1) eqn:F, (Z.of_nat (S i) <? n) eqn:G; try reflexivity;
          [apply Z.ltb_lt in F; apply Z.ltb_ge in G; lia|apply Z.ltb_ge in F; apply Z.ltb_lt in G; lia].
Qed.

(* the octet at position i of l[o:o+n] is the octet at position o+i of l, for i < n *)
Lemma partial_nth l o n i : 0 <= o -> 0 <= n ->
  nth_error (partial (Some (o, n)) l) i =
  if Z.of_nat i <? n then nth_error l (Z.to_nat o + i) else None.
Proof.
  intros Ho Hn. unfold partial, pyslice.
  replace (o + n - o) with n by lia.
  rewrite ztake_nth by exact Hn. destruct (Z.of_nat i <? n); [apply zskip_nth; exact Ho|reflexivity].
Qed.

Lemma zskip_skipn l : forall o, 0 <= o -> zskip o l = skipn (Z.to_nat o) l.
Proof.
  induction l as [|x t IH]; intros o Ho.
  - cbn [zskip]. destruct (Z.to_nat o); reflexivity.
  - cbn [zskip]. destruct (o <=? 0) eqn:E.
    + apply Z.leb_le in E. replace o with 0 by lia. reflexivity.
    + apply Z.leb_gt in E. rewrite IH by lia.
      replace (Z.to_nat o) with (S (Z.to_nat (o - 1))) by lia. reflexivity.
Qed.

Lemma ztake_firstn l : forall n, 0 <= n -> ztake n l = firstn (Z.to_nat n) l.
Proof.
  induction l as [|x t IH]; intros n Hn.
  - cbn [ztake]. destruct (Z.to_nat n); reflexivity.
  - cbn [ztake]. destruct (n <=? 0) eqn:E.
    + apply Z.leb_le in E. replace n with 0 by lia. reflexivity.
    + apply Z.leb_gt in E. rewrite IH by lia.
      replace (Z.to_nat n) with (S (Z.to_nat (n - 1))) by lia. reflexivity.
Qed.

Lemma partial_firstn_skipn l o n : 0 <= o -> 0 <= n ->
  partial (Some (o, n)) l = firstn (Z.to_nat n) (skipn (Z.to_nat o) l).
Proof.
  intros Ho Hn. unfold partial, pyslice. replace (o + n - o) with n by lia.
  rewrite ztake_firstn, zskip_skipn by assumption. reflexivity.
Qed.

Lemma partial_length l o n : 0 <= o -> 0 <= n ->
  Z.of_nat (List.length (partial (Some (o, n)) l)) = Z.min n (Z.max 0 (Z.of_nat (List.length l) - o)).
Proof.
  intros Ho Hn. rewrite partial_firstn_skipn by assumption.
  rewrite firstn_length, skipn_length. lia.
Qed.

(* ------------------------------------------------------------------ decimal numbers *)
Fixpoint uval (acc : N) (d : Decimal.uint) : N :=
  match d with
  | Nil => acc
  | D0 d => uval (10 * acc + 0)%N d
  | D1 d => uval (10 * acc + 1)%N d
  | D2 d => uval (10 * acc + 2)%N d
  | D3 d => uval (10 * acc + 3)%N d
  | D4 d => uval (10 * acc + 4)%N d
  | D5 d => uval (10 * acc + 5)%N d
  | D6 d => uval (10 * acc + 6)%N d
  | D7 d => uval (10 * acc + 7)%N d
  | D8 d => uval (10 * acc + 8)%N d
  | D9 d => uval (10 * acc + 9)%N d
  end.

Lemma uval_pos d : forall p, uval (N.pos p) d = N.pos (Pos.of_uint_acc d p).
Proof.
  induction d as [|d IH|d IH|d IH|d IH|d IH|d IH|d IH|d IH|d IH|d IH]; intros p;
    cbn [uval Pos.of_uint_acc]; [reflexivity|..];
    match goal with
    | |- uval ?a d = N.pos (Pos.of_uint_acc d ?q) =>
        replace a with (N.pos q) by lia; apply IH
    end.
Qed.

Lemma uval_zero d : uval 0%N d = Pos.of_uint d.
Proof.
  induction d as [|d IH|d IH|d IH|d IH|d IH|d IH|d IH|d IH|d IH|d IH];
    cbn [uval Pos.of_uint]; [reflexivity|exact IH|..];
    match goal with
    | |- uval ?a d = N.pos (Pos.of_uint_acc d ?q) =>
        change a with (N.pos q); apply uval_pos
    end.
Qed.

Lemma uval_to_uint n : uval 0%N (N.to_uint n) = n.
Proof. rewrite uval_zero. exact (DecimalN.Unsigned.of_to n). Qed.

Lemma to_uint_nonnil n : N.to_uint n <> Nil.
Proof.
  destruct n as [|p]; [discriminate|]. apply DecimalPos.Unsigned.to_uint_nonnil.
Qed.

(* reading the digits of a printed number that is followed by a non-digit *)
Lemma read_digits_digit acc seen b t k : digit_val b = Some k ->
  read_digits acc seen (b :: t) = read_digits (10 * acc + k)%N true t.
Proof. intros H. cbn [read_digits]. rewrite H. reflexivity. Qed.

Lemma read_digits_stop acc b t : digit_val b = None ->
  read_digits acc true (b :: t) = Some (acc, b :: t).
Proof. intros H. cbn [read_digits]. rewrite H. reflexivity. Qed.

Ltac digit_step :=
  match goal with
  | |- read_digits ?a ?sn ((?b :: ?u) ++ ?rest) = _ =>
      change ((b :: u) ++ rest) with (b :: (u ++ rest));
      rewrite (read_digits_digit a sn b (u ++ rest) _ eq_refl)
  end.

Lemma read_digits_uint d : forall acc x r, digit_val x = None ->
  read_digits acc true (uint_bytes d ++ x :: r) = Some (uval acc d, x :: r).
Proof.
  induction d as [|d IH|d IH|d IH|d IH|d IH|d IH|d IH|d IH|d IH|d IH]; intros acc x r Hx;
    cbn [uint_bytes uval];
    [apply read_digits_stop; exact Hx|..];
    (digit_step; apply IH; exact Hx).
Qed.

Lemma read_number_dec n x r : digit_val x = None ->
  read_number (dec n ++ x :: r) = Some (n, x :: r).
Proof.
  intros Hx. unfold read_number, dec.
  pose proof (to_uint_nonnil n) as Hnn. pose proof (uval_to_uint n) as Hv.
  destruct (N.to_uint n) as [|d|d|d|d|d|d|d|d|d|d]; [contradiction|..];
    cbn [uint_bytes uval] in *;
    (digit_step; rewrite read_digits_uint by exact Hx; rewrite <- Hv; reflexivity).
Qed.

Lemma take_n_cons n x t : 0 < n ->
  take_n n (x :: t) = match take_n (n - 1) t with Some (a, r) => Some (x :: a, r) | None => None end.
Proof.
  intros Hn. cbn [take_n]. destruct (n <=? 0) eqn:E; [apply Z.leb_le in E; lia|reflexivity].
Qed.

Lemma take_n_app l : forall rest, take_n (Z.of_nat (List.length l)) (l ++ rest) = Some (l, rest).
Proof.
  induction l as [|x t IH]; intros rest.
  - cbn [List.length app]. destruct rest; reflexivity.
  - change ((x :: t) ++ rest) with (x :: (t ++ rest)).
    rewrite take_n_cons by (cbn [List.length]; lia).
    replace (Z.of_nat (List.length (x :: t)) - 1) with (Z.of_nat (List.length t))
      by (cbn [List.length]; lia).
    rewrite IH. reflexivity.
Qed.

(* the announced count is the length of the data: the literal reader returns exactly the data
   and leaves exactly what followed it *)
Lemma expect_hit b t : expect b (b :: t) = Some t.
Proof. cbn [expect]. rewrite Z.eqb_refl. reflexivity. Qed.

Lemma literal_app l rest :
  literal l ++ rest = 123 :: (dec (blen l) ++ 125 :: 13 :: 10 :: (l ++ rest)).
Proof.
  unfold literal. rewrite <- app_comm_cons, <- app_assoc. reflexivity.
Qed.

Lemma read_literal_literal l rest : read_literal (literal l ++ rest) = Some (l, rest).
Proof.
  rewrite literal_app. unfold read_literal.
  rewrite expect_hit, read_number_dec by reflexivity.
  rewrite !expect_hit.
  unfold blen. rewrite nat_N_Z. apply take_n_app.
Qed.

Lemma literal_length l :
  List.length (literal l) = (List.length (dec (blen l)) + 4 + List.length l)%nat.
Proof.
  unfold literal. cbn [List.length]. rewrite app_length. cbn [List.length]. lia.
Qed.

(* ------------------------------------------------------------------ the data-item equations *)
Section Rendering.
  Variable msg : Type.
  Variables hdr body : msg -> list Z.
  (* the header block the generator writes is a sequence of CRLF-terminated lines ending in
     the blank line: in particular it ends in CRLF *)
  Hypothesis hdr_crlf : forall m, ends_crlf (hdr m) = true.

  Notation body_data := (body_data msg hdr body).
  Notation fetch_body := (fetch_body msg hdr body).
  Notation fetch_item := (fetch_item msg hdr body).
  Notation msg_size := (msg_size msg hdr body).

  Lemma data_full m : body_data SFull None m = ensure_crlf (hdr m ++ body m).
  Proof. unfold BodyAlg.body_data, section_bytes, partial. apply ensure_crlf_idem. Qed.

  Lemma data_header m : body_data SHeader None m = hdr m.
  Proof. unfold BodyAlg.body_data, section_bytes, partial. apply ensure_crlf_fix, hdr_crlf. Qed.

  Lemma data_text m : body_data SText None m = ensure_crlf (body m).
  Proof. unfold BodyAlg.body_data, section_bytes, partial. apply ensure_crlf_idem. Qed.

  Lemma size_is_length m : msg_size m = blen (body_data SFull None m).
  Proof. rewrite data_full. reflexivity. Qed.

  Lemma size_item m : fetch_item IRfc822Size m = dec (blen (body_data SFull None m)).
  Proof. unfold BodyAlg.fetch_item, desugar. rewrite size_is_length. reflexivity. Qed.

  Lemma size_both m :
    msg_size m = blen (body_data SFull None m) /\
    fetch_item IRfc822Size m = dec (blen (body_data SFull None m)).
  Proof. split; [apply size_is_length|apply size_item]. Qed.

  Lemma rfc822_items m :
    fetch_item IRfc822 m = fetch_item (IBody SFull None) m /\
    fetch_item IRfc822Header m = fetch_item (IBody SHeader None) m /\
    fetch_item IRfc822Text m = fetch_item (IBody SText None) m.
  Proof. repeat split; reflexivity. Qed.

  Lemma header_text_concat m : body m <> [] ->
    body_data SHeader None m ++ body_data SText None m = body_data SFull None m.
  Proof.
    intros Hb. rewrite data_header, data_text, data_full.
    symmetry. apply ensure_crlf_app; [apply hdr_crlf|exact Hb].
  Qed.

  Lemma header_text_empty m : body m = [] ->
    body_data SHeader None m ++ body_data SText None m = body_data SFull None m ++ CRLF.
  Proof.
    intros Hb. rewrite data_header, data_text, data_full, Hb, app_nil_r.
    rewrite ensure_crlf_nil, (ensure_crlf_fix _ (hdr_crlf m)). reflexivity.
  Qed.

  Lemma header_text_iff m :
    body_data SHeader None m ++ body_data SText None m = body_data SFull None m <-> body m <> [].
  Proof.
    split; [|apply header_text_concat].
    intros H Hb. rewrite (header_text_empty m Hb) in H.
    apply (f_equal (@List.length Z)) in H. rewrite app_length in H. cbn [CRLF List.length] in H. lia.
  Qed.

  Lemma partial_is_slice m s o n i : 0 <= o -> 0 <= n ->
    nth_error (body_data s (Some (o, n)) m) i =
    if Z.of_nat i <? n then nth_error (body_data s None m) (Z.to_nat o + i) else None.
  Proof. intros Ho Hn. unfold BodyAlg.body_data at 1. apply partial_nth; assumption. Qed.

  Lemma partial_is_firstn_skipn m s o n : 0 <= o -> 0 <= n ->
    body_data s (Some (o, n)) m = firstn (Z.to_nat n) (skipn (Z.to_nat o) (body_data s None m)).
  Proof. intros Ho Hn. unfold BodyAlg.body_data at 1. apply partial_firstn_skipn; assumption. Qed.

  Lemma fetch_body_reads m s p rest :
    read_literal (fetch_body s p m ++ rest) = Some (body_data s p m, rest).
  Proof. unfold BodyAlg.fetch_body. apply read_literal_literal. Qed.

  Lemma every_item_ends_crlf m s : ends_crlf (body_data s None m) = true.
  Proof. unfold BodyAlg.body_data, partial. apply ensure_crlf_ends. Qed.
End Rendering.

(* the hypotheses are satisfiable, and the empty body really is a counterexample *)
Definition ex_hdr (m : list Z * list Z) := fst m.
Definition ex_body (m : list Z * list Z) := snd m.

Lemma refuted_empty_body :
  exists m : list Z * list Z,
    ends_crlf (ex_hdr m) = true /\ ex_body m = [] /\
    body_data _ ex_hdr ex_body SHeader None m ++ body_data _ ex_hdr ex_body SText None m
      <> body_data _ ex_hdr ex_body SFull None m.
Proof.
  exists ([83; 58; 32; 120; 13; 10; 13; 10], []).   (* "S: x" CRLF CRLF, no body *)
  split; [reflexivity|]. split; [reflexivity|]. vm_compute. discriminate.
Qed.
