(* Proofs/MboxOut.v — what a step may send: no EXPUNGE reaches a session during its own
   non-UID FETCH, STORE or SEARCH (property C01, second clause). *)
From Asimap Require Import Base.Res Spec.SetSem Model.Mbox Proofs.MboxInv Proofs.MboxStep.
From Coq Require Import ZifyBool.
Open Scope Z_scope.

Definition clean_for (s : Z) (o : out) : Prop := forall r, In (s, r) o -> is_expunge r = false.

Lemma clean_nil s : clean_for s []. Proof. intros r []. Qed.
Lemma clean_app s o1 o2 : clean_for s o1 -> clean_for s o2 -> clean_for s (o1 ++ o2).
Proof. intros H1 H2 r Hin. apply in_app_or in Hin. destruct Hin; auto. Qed.
Lemma clean_tag s s' rs : (forall r, In r rs -> is_expunge r = false) -> clean_for s (tag s' rs).
Proof. intros H r Hin. unfold tag in Hin. apply in_map_iff in Hin. destruct Hin as [r0 [E Hr]]. inversion E; subst. auto. Qed.
Lemma clean_one s s' r : is_expunge r = false -> clean_for s [(s', r)].
Proof. intros H r0 [E|[]]. inversion E; subst. exact H. Qed.

Lemma neutral_not_expunge r : is_neutral r = true -> is_expunge r = false.
Proof. destruct r; cbn; congruence. Qed.

Lemma map_out_snd_in {A} (f : A -> A * out) l x : In x (snd (map_out f l)) -> exists a, In a l /\ In x (snd (f a)).
Proof.
  induction l as [|a l IH]; cbn [map_out]; [intros []|].
  destruct (f a) as [a' o] eqn:E. destruct (map_out f l) as [l' o'] eqn:E'. cbn [snd] in *.
  intros Hin. apply in_app_or in Hin. destruct Hin as [Hin|Hin].
  - exists a. split; [left; reflexivity|rewrite E; exact Hin].
  - destruct (IH Hin) as [a0 [H1 H2]]. exists a0. split; [right; exact H1|exact H2].
Qed.

Lemma dispatch_out b d rs s r : In (s, r) (snd (dispatch b d rs)) -> In r rs.
Proof.
  unfold dispatch. destruct rs as [|r0 rs']; [intros []|].
  destruct (map_out (dispatch1 d (r0 :: rs')) (b_clients b)) as [cs o] eqn:E. cbn [snd].
  intros Hin. replace o with (snd (map_out (dispatch1 d (r0 :: rs')) (b_clients b))) in Hin by (rewrite E; reflexivity).
  apply map_out_snd_in in Hin. destruct Hin as [[s0 c0] [_ Hin]]. unfold dispatch1 in Hin.
  destruct (match d with Some d0 => s0 =? d0 | None => false end); [destruct Hin|].
  destruct (c_idle c0); cbn [snd] in Hin; [|destruct Hin].
  unfold tag in Hin. apply in_map_iff in Hin. destruct Hin as [r1 [E1 H1]]. inversion E1; subst. exact H1.
Qed.
Lemma announce_out b rs s r : In (s, r) (snd (announce b rs)) -> In r rs.
Proof.
  unfold announce. destruct (map_out (announce1 rs) (b_clients b)) as [cs o] eqn:E. cbn [snd].
  intros Hin. replace o with (snd (map_out (announce1 rs) (b_clients b))) in Hin by (rewrite E; reflexivity).
  apply map_out_snd_in in Hin. destruct Hin as [[s0 c0] [_ Hin]]. unfold announce1 in Hin.
  destruct (c_pend c0); [|destruct (c_idle c0)]; cbn [snd] in Hin; try (destruct Hin; fail);
    unfold tag in Hin; apply in_map_iff in Hin; destruct Hin as [r1 [E1 H1]]; inversion E1; subst; exact H1.
Qed.

Lemma notes_from_neutral_in want l pos show r : In r (notes_from l pos want show) -> is_neutral r = true.
Proof.
  intros Hin. pose proof (fetch_notes_neutral_from want l pos show) as H. rewrite forallb_forall in H. apply H; exact Hin.
Qed.
Lemma notes_at_neutral_in sl l pos show r : In r (notes_at sl l pos show) -> is_neutral r = true.
Proof.
  intros Hin. pose proof (fetch_notes_neutral_at sl l pos show) as H. rewrite forallb_forall in H. apply H; exact Hin.
Qed.

Lemma resync_out b s : clean_for s (snd (resync b)).
Proof.
  unfold resync. destruct (b_disk b); [apply clean_nil|].
  match goal with |- context [announce ?B ?R] => destruct (announce B R) as [b2 o1] eqn:Ea end.
  match goal with |- context [dispatch ?B ?D ?R] => destruct (dispatch B D R) as [b3 o2] eqn:Ed end.
  cbn [snd]. apply clean_app; intros r Hin.
  - match type of Ea with announce ?B ?R = _ => replace o1 with (snd (announce B R)) in Hin by (rewrite Ea; reflexivity) end.
    apply announce_out in Hin. destruct Hin as [<-|[<-|[]]]; reflexivity.
  - match type of Ed with dispatch ?B ?D ?R = _ => replace o2 with (snd (dispatch B D R)) in Hin by (rewrite Ed; reflexivity) end.
    apply dispatch_out in Hin. apply neutral_not_expunge. apply notes_from_neutral_in in Hin. exact Hin.
Qed.

Lemma flush_out b s s' r :
  In (s', r) (snd (flush b s)) -> exists c, get_client b s = Some c /\ In r (c_pend c).
Proof.
  unfold flush. destruct (get_client b s) as [c|]; [|intros []].
  unfold flush1. cbn [snd]. intros Hin. unfold tag in Hin. apply in_map_iff in Hin.
  destruct Hin as [r0 [E H]]. inversion E; subst. exists c. auto.
Qed.

Lemma gate_seq_clean b s fo b0 o0 : gate b s false fo = Some (b0, o0) -> clean_for s o0.
Proof.
  unfold gate. destruct (get_client b s) as [c|] eqn:G; [|discriminate].
  destruct (pending_expunges c) eqn:P; [discriminate|]. destruct fo; intros H; [|inversion H; subst; apply clean_nil].
  destruct (flush b s) as [bf of] eqn:Ef. inversion H; subst bf of.
  intros r Hin. replace o0 with (snd (flush b s)) in Hin by (rewrite Ef; reflexivity). apply flush_out in Hin. destruct Hin as [c' [G' Hin]]. rewrite G in G'. inversion G'; subst c'.
  unfold pending_expunges in P. destruct (is_expunge r) eqn:Er; [|reflexivity].
  assert (existsb is_expunge (c_pend c) = true) by (apply existsb_exists; exists r; auto). congruence.
Qed.

Lemma admit_set_out w m b u st b1 o1 sl s : admit_set w m b u st = Ok (b1, o1, sl) -> clean_for s o1.
Proof.
  unfold admit_set. destruct (resolve b u st); [|discriminate]. rewrite admit_is_resync.
  destruct (resync b) as [b1' o1'] eqn:E. destruct (resolve b1' u st); [|discriminate].
  intros H; inversion H; subst. replace o1 with (snd (resync b)) by (rewrite E; reflexivity). apply resync_out.
Qed.

Lemma in_mbox_clean w s k :
  (forall n b, clean_for s (snd (k n b))) -> clean_for s (snd (in_mbox w s k)).
Proof.
  intros H. unfold in_mbox. destruct (sel w s) as [n|]; [|apply clean_one; reflexivity].
  destruct (get_box w n) as [b|]; [apply H|apply clean_one; reflexivity].
Qed.

Lemma dispatch_neutral b d rs s :
  all_s (fun c => forallb is_neutral (c_pend c) = true) b s -> forallb is_neutral rs = true ->
  all_s (fun c => forallb is_neutral (c_pend c) = true) (fst (dispatch b d rs)) s.
Proof.
  intros H Hrs c Hin. apply dispatch_in in Hin. destruct Hin as [c0 [Hin [->|Hc]]]; [apply H; exact Hin|].
  specialize (H _ Hin). cbv beta in H. unfold dispatch1 in Hc.
  destruct (match d with Some d0 => s =? d0 | None => false end);
    [apply (f_equal snd) in Hc; cbn [fst snd] in Hc; subst c; exact H|].
  destruct (c_idle c0); apply (f_equal snd) in Hc; cbn [fst snd] in Hc; subst c.
  - destruct (deliver_pend c0 rs) as [Hp _]. rewrite Hp. exact H.
  - cbn [pend c_pend]. rewrite forallb_app, H, Hrs. reflexivity.
Qed.

(* a resync never queues an EXPUNGE: a queue without one stays without one *)
Lemma resync_no_expunge b s :
  (forall c, In (s, c) (b_clients b) -> existsb is_expunge (c_pend c) = false) ->
  forall c, In (s, c) (b_clients (fst (resync b))) -> existsb is_expunge (c_pend c) = false.
Proof.
  intros H0 c Hin. destruct (b_disk b) as [|d0 dl] eqn:E.
  - rewrite resync_nodisk in Hin by exact E. cbn [fst] in Hin. apply H0; exact Hin.
  - unfold resync in Hin. rewrite E in Hin. rewrite <- E in Hin. fold (fresh_of b) in Hin.
    set (ms := b_msgs b ++ fresh_of b) in *.
    match type of Hin with context [announce ?B ?R] => destruct (announce B R) as [b2 o1] eqn:Ea end.
    match type of Hin with context [dispatch ?B ?D ?R] => destruct (dispatch B D R) as [b3 o2] eqn:Ed end.
    cbn [fst] in Hin.
    replace b3 with (fst (dispatch b2 None (notes_from ms 1 (fun m => b_next b <=? m_uid m) false))) in Hin
      by (rewrite Ed; reflexivity).
    apply dispatch_in in Hin. destruct Hin as [c2 [Hin2 Hc]].
    match type of Ea with announce ?B ?R = _ =>
      replace b2 with (fst (announce B R)) in Hin2 by (rewrite Ea; reflexivity) end.
    apply announce_in in Hin2. destruct Hin2 as [c1 [Hin1 Hc1]]. cbn [b_clients] in Hin1.
    specialize (H0 _ Hin1).
    assert (Hp2 : existsb is_expunge (c_pend c2) = false).
    { unfold announce1 in Hc1. destruct (c_pend c1) eqn:P1; [|destruct (c_idle c1)];
        apply (f_equal snd) in Hc1; cbn [fst snd] in Hc1; subst c2.
      - match goal with |- context [c_pend (deliver ?cc ?ll)] => destruct (deliver_pend cc ll) as [Hp _]; rewrite Hp end.
        rewrite P1. reflexivity.
      - match goal with |- context [c_pend (deliver ?cc ?ll)] => destruct (deliver_pend cc ll) as [Hp _]; rewrite Hp end.
        rewrite P1. exact H0.
      - cbn [pend c_pend]. rewrite existsb_app. rewrite P1. rewrite H0. reflexivity. }
    destruct Hc as [Hc|Hc]; [subst c; exact Hp2|].
    unfold dispatch1 in Hc. destruct (c_idle c2); apply (f_equal snd) in Hc; cbn [fst snd] in Hc; subst c.
    + match goal with |- context [c_pend (deliver ?cc ?ll)] => destruct (deliver_pend cc ll) as [Hp _]; rewrite Hp end.
      exact Hp2.
    + cbn [pend c_pend]. rewrite existsb_app, Hp2. cbn [orb].
      destruct (existsb is_expunge (notes_from ms 1 (fun m => b_next b <=? m_uid m) false)) eqn:X; [|reflexivity].
      apply existsb_exists in X. destruct X as [r [Hr Hx]]. apply notes_from_neutral_in in Hr.
      apply neutral_not_expunge in Hr. congruence.
Qed.

(* the flush that follows the admission of a non-UID FETCH/STORE/SEARCH sends no EXPUNGE *)
Lemma postflush_clean b0 s :
  (forall c, In (s, c) (b_clients b0) -> existsb is_expunge (c_pend c) = false) ->
  clean_for s (snd (flush (fst (resync b0)) s)).
Proof.
  intros H0 r Hin. apply flush_out in Hin. destruct Hin as [c [G Hin]]. apply get_client_in in G.
  pose proof (resync_no_expunge b0 s H0 c G) as Hx.
  destruct (is_expunge r) eqn:Er; [|reflexivity].
  assert (existsb is_expunge (c_pend c) = true) by (apply existsb_exists; exists r; auto). congruence.
Qed.

Lemma clean_queue_no_expunge b s :
  all_s (fun c => c_pend c = []) b s -> forall c, In (s, c) (b_clients b) -> existsb is_expunge (c_pend c) = false.
Proof. intros H c Hin. rewrite (H c Hin). reflexivity. Qed.

Theorem store_seq_no_expunge w s st act silent flags :
  winv w -> clean_for s (snd (step w (OStore s false st act silent flags))).
Proof.
  intros Hw. unfold step. unfold in_mbox. destruct (sel w s) as [n|]; [|apply clean_one; reflexivity].
  destruct (get_box w n) as [b|] eqn:Eb; [|apply clean_one; reflexivity].
  destruct (get_client b s) as [c|]; [|apply clean_one; reflexivity].
  destruct (c_exam c); [apply clean_one; reflexivity|].
  destruct (gate b s false true) as [[b0 o0]|] eqn:G; [|apply clean_one; reflexivity].
  pose proof (gate_seq_clean _ _ _ _ _ G) as C0. apply gate_true in G.
  assert (Hb : boxinv b) by apply (Hw _ _ Eb).
  destruct (admit_set w n b0 false st) as [[[b1a o1a] sl]|] eqn:A;
    [|cbn [snd]; apply clean_app; [exact C0|apply clean_one; reflexivity]].
  pose proof (admit_set_out _ _ _ _ _ _ _ _ s A) as C1. apply admit_set_ok in A.
  destruct (flush b1a s) as [b1 o1b] eqn:Ef1.
  assert (C1b : clean_for s o1b).
  { replace o1b with (snd (flush b1a s)) by (rewrite Ef1; reflexivity). subst b1a b0.
    apply postflush_clean. apply clean_queue_no_expunge. apply flush_all_clean. apply Hb. }
  destruct (smem "\Recent" flags || existsb reserved_kw flags).
  { cbn [snd]. repeat apply clean_app; trivial. apply clean_one; reflexivity. }
  match goal with |- context [dispatch ?B ?D ?R] => destruct (dispatch B D R) as [b3 o2] eqn:Ed end.
  cbn [snd]. repeat apply clean_app; trivial.
  - intros r Hin. match type of Ed with dispatch ?B ?D ?R = _ =>
      replace o2 with (snd (dispatch B D R)) in Hin by (rewrite Ed; reflexivity) end.
    apply dispatch_out in Hin. apply neutral_not_expunge. apply notes_at_neutral_in in Hin. exact Hin.
  - apply clean_tag. intros r Hin. destruct silent; [destruct Hin|].
    apply neutral_not_expunge. apply notes_at_neutral_in in Hin. exact Hin.
  - apply clean_one; reflexivity.
Qed.

Theorem search_seq_no_expunge w s flag : winv w -> clean_for s (snd (step w (OSearch s false flag))).
Proof.
  intros Hw. unfold step. unfold in_mbox. destruct (sel w s) as [n|]; [|apply clean_one; reflexivity].
  destruct (get_box w n) as [b|] eqn:Eb; [|apply clean_one; reflexivity].
  destruct (gate b s false true) as [[b0 o0]|] eqn:G; [|apply clean_one; reflexivity].
  pose proof (gate_seq_clean _ _ _ _ _ G) as C0. apply gate_true in G. rewrite admit_is_resync.
  assert (Hb : boxinv b) by apply (Hw _ _ Eb).
  destruct (resync b0) as [b1a o1a] eqn:E. destruct (flush b1a s) as [b1 o1b] eqn:Ef. cbn [snd].
  repeat apply clean_app; trivial.
  - replace o1a with (snd (resync b0)) by (rewrite E; reflexivity). apply resync_out.
  - replace o1b with (snd (flush b1a s)) by (rewrite Ef; reflexivity).
    replace b1a with (fst (resync b0)) by (rewrite E; reflexivity). subst b0. apply postflush_clean.
    apply clean_queue_no_expunge. apply flush_all_clean. apply Hb.
  - intros r [H|[H|[]]]; inversion H; subst; reflexivity.
Qed.

Theorem fetch_seq_no_expunge w s st k : winv w -> clean_for s (snd (step w (OFetch s false st k))).
Proof.
  intros Hw. unfold step. unfold in_mbox. destruct (sel w s) as [n|]; [|apply clean_one; reflexivity].
  destruct (get_box w n) as [b|] eqn:Eb; [|apply clean_one; reflexivity].
  destruct (get_client b s) as [c|]; [|apply clean_one; reflexivity].
  destruct (gate b s false true) as [[b0 o0]|] eqn:G; [|apply clean_one; reflexivity].
  pose proof (gate_seq_clean _ _ _ _ _ G) as C0. apply gate_true in G.
  destruct (admit_set w n b0 false st) as [[[b1a o1a] sl]|] eqn:A;
    [|cbn [snd]; apply clean_app; [exact C0|apply clean_one; reflexivity]].
  pose proof (admit_set_out _ _ _ _ _ _ _ _ s A) as C1. apply admit_set_ok in A.
  assert (Hb : boxinv b) by apply (Hw _ _ Eb).
  destruct (flush b1a s) as [b1 o1b] eqn:Ef1.
  assert (C1b : clean_for s o1b).
  { replace o1b with (snd (flush b1a s)) by (rewrite Ef1; reflexivity). subst b1a b0.
    apply postflush_clean. apply clean_queue_no_expunge. apply flush_all_clean. apply Hb. }
  match goal with |- context [dispatch ?B ?D ?R] => destruct (dispatch B D R) as [b3 o2] eqn:Ed end.
  destruct (flush b3 s) as [b4 o3] eqn:Ef. cbn [snd].
  assert (N1 : all_s (fun c => forallb is_neutral (c_pend c) = true) b1 s).
  { replace b1 with (fst (flush b1a s)) by (rewrite Ef1; reflexivity). intros c0 Hin.
    assert (Hi : boxinv b1a) by (subst b1a b0; apply resync_inv; apply flush_inv; exact Hb).
    rewrite (flush_all_clean b1a s (proj1 Hi) c0 Hin). reflexivity. }
  repeat apply clean_app; trivial.
  - apply clean_tag. intros r Hin. apply in_flat_map in Hin. destruct Hin as [p [_ Hin]].
    destruct (znth (b_msgs b1) (p - 1)); [|destruct Hin]. destruct k; repeat (destruct Hin as [<-|Hin]; [reflexivity|]); destruct Hin.
  - intros r Hin. match type of Ed with dispatch ?B ?D ?R = _ =>
      replace o2 with (snd (dispatch B D R)) in Hin by (rewrite Ed; reflexivity) end.
    apply dispatch_out in Hin. apply neutral_not_expunge. apply notes_at_neutral_in in Hin. exact Hin.
  - intros r Hin. replace o3 with (snd (flush b3 s)) in Hin by (rewrite Ef; reflexivity).
    apply flush_out in Hin. destruct Hin as [c3 [G3 Hin]]. apply get_client_in in G3.
    apply neutral_not_expunge.
    assert (N3 : all_s (fun c => forallb is_neutral (c_pend c) = true) b3 s).
    { match type of Ed with dispatch ?B ?D ?R = _ => replace b3 with (fst (dispatch B D R)) by (rewrite Ed; reflexivity) end.
      apply dispatch_neutral; [|apply fetch_notes_neutral_at].
      eapply all_s_clients; [|apply upd_deliver_neutral; exact N1]. reflexivity. }
    specialize (N3 _ G3). cbv beta in N3. rewrite forallb_forall in N3. apply N3. exact Hin.
  - apply clean_one; reflexivity.
Qed.
