(* Proofs/ParseW.v — what the parser model accepts is well-formed: every value it produces satisfies the
   `*_ok` predicate of Spec/Grammar.v for its position (so that the AST is the parse of its own sentences).
   The os.path.normpath part reuses C09's theorem normpath_idempotent through a bridge lemma
   (Model/Lex.v's normpath and Model/Path.v's normpath are the same function). *)
From Asimap Require Import Base.Res Base.Bytes Model.Lex Spec.Grammar Model.ParseM Proofs.LexP Proofs.ParseP Proofs.ParseT.
From Asimap Require Model.Path Proofs.PathP.
From Coq Require Import Lia ZArith List Bool.
Import ListNotations.
Open Scope Z_scope.

(* ------------------------------------------------------------------ normpath: bridge to Model/Path.v *)
Lemma beq_str_eqb a : forall b, beq a b = Path.str_eqb a b.
Proof. induction a as [|x a IH]; intros [|y b]; cbn; try reflexivity; try (rewrite IH; reflexivity). Qed.

Lemma split_on_slash s : split_on 47 s = Path.split_slash s.
Proof.
  induction s as [|c s IH]; cbn [split_on Path.split_slash]; [reflexivity|].
  unfold Path.SLASH. rewrite IH. reflexivity.
Qed.

Lemma norm_step_np b acc c : norm_step b acc c = Path.np_step b acc c.
Proof.
  unfold norm_step, Path.np_step, Path.c_empty, Path.c_dot, Path.c_dotdot, dotdot, Path.s_dot, Path.s_dotdot, Path.DOT.
  destruct c as [|x c]; [reflexivity|]. destruct acc as [|t acc]; reflexivity.
Qed.

Lemma fold_norm_np b cs : forall acc, fold_left (norm_step b) cs acc = fold_left (Path.np_step b) cs acc.
Proof. induction cs as [|c cs IH]; intros acc; cbn [fold_left]; [reflexivity|]. rewrite norm_step_np. auto. Qed.

Lemma join_slash_same l : join_slash l = Path.join_slash l.
Proof. reflexivity. Qed.

Lemma initial_slashes_same p : initial_slashes p = Path.initial_slashes p.
Proof.
  unfold initial_slashes, Path.initial_slashes, Path.SLASH. cbn [Path.startswith].
  destruct p as [|a [|b [|c t]]]; cbn [Path.startswith]; try reflexivity.
  - destruct (a =? 47); reflexivity.
  - destruct (a =? 47), (b =? 47); reflexivity.
  - destruct (a =? 47), (b =? 47), (c =? 47); reflexivity.
Qed.

Lemma normpath_bridge s : normpath s = Path.normpath s.
Proof.
  unfold normpath, Path.normpath. destruct s as [|c s]; [reflexivity|].
  rewrite initial_slashes_same. unfold Path.np_comps, Path.or_dot, Path.s_dot, Path.DOT, Path.SLASH.
  rewrite split_on_slash, fold_norm_np, join_slash_same. reflexivity.
Qed.

Lemma normpath_idem s : normpath (normpath s) = normpath s.
Proof. rewrite !normpath_bridge. apply PathP.normpath_idempotent. Qed.

Lemma normpath_nonempty s : normpath s <> [].
Proof.
  unfold normpath. destruct s as [|c s]; [discriminate|]. cbv zeta.
  match goal with |- (match ?p with [] => _ | _ => _ end) <> [] => destruct p; discriminate end.
Qed.

(* ------------------------------------------------------------------ numbers *)
Lemma dv_app z a b : dv z (a ++ b) = dv (dv z a) b.
Proof. unfold dv. apply fold_left_app. Qed.

Lemma digit_val_range c : is_digit c = true -> 0 <= digit_val c <= 9.
Proof. unfold is_digit, in_range, digit_val. intros H. apply andb_true_iff in H. destruct H as [H1 H2].
       apply Z.leb_le in H1, H2. lia. Qed.

Lemma dv_bounds ds : forallb is_digit ds = true -> forall z, 0 <= z ->
  z * 10 ^ Z.of_nat (List.length ds) <= dv z ds < (z + 1) * 10 ^ Z.of_nat (List.length ds).
Proof.
  induction ds as [|d ds IH]; intros Hd z Hz.
  - cbn. lia.
  - cbn [forallb] in Hd. apply andb_true_iff in Hd. destruct Hd as [H1 H2].
    pose proof (digit_val_range d H1) as Hr.
    change (dv z (d :: ds)) with (dv (z * 10 + digit_val d) ds).
    specialize (IH H2 (z * 10 + digit_val d) ltac:(lia)).
    cbn [List.length]. rewrite Nat2Z.inj_succ, Z.pow_succ_r by lia.
    set (P := 10 ^ Z.of_nat (List.length ds)) in *. assert (0 < P) by (apply Z.pow_pos_nonneg; lia). nia.
Qed.

Lemma digits_fuel_len fuel : forall n acc k, 0 <= n < 10 ^ Z.of_nat k -> (1 <= k)%nat ->
  (List.length (digits_fuel fuel n acc) <= k + List.length acc)%nat.
Proof.
  induction fuel as [|f IH]; intros n acc k Hn Hk; cbn [digits_fuel]; [lia|].
  destruct (Z.ltb_spec n 10) as [Hlt|Hge]; [cbn [List.length]; lia|].
  destruct k as [|k]; [lia|]. destruct k as [|k]; [cbn in Hn; lia|].
  specialize (IH (n / 10) ((48 + n mod 10) :: acc) (S k)).
  cbn [List.length] in IH. rewrite (Nat2Z.inj_succ (S k)), Z.pow_succ_r in Hn by lia.
  assert (0 <= n / 10 < 10 ^ Z.of_nat (S k)) by (split; [apply Z.div_pos; lia|apply Z.div_lt_upper_bound; lia]).
  specialize (IH H ltac:(lia)). lia.
Qed.

Lemma r_number_len n k : 0 <= n < 10 ^ Z.of_nat k -> (1 <= k)%nat -> (List.length (r_number n) <= k)%nat.
Proof. intros Hn Hk. unfold r_number. pose proof (digits_fuel_len (S (Z.to_nat (Z.log2 n))) n [] k Hn Hk). cbn in *. lia. Qed.

(* the bound on the size of the input, kept folded so that lia and cbn never expand it *)
Definition BIG : Z := 10 ^ 4300.
Arguments BIG : simpl never.
Lemma BIG_eq : BIG = 10 ^ Z.of_nat 4300.
Proof. reflexivity. Qed.

Lemma num_ok_small n : 0 <= n < BIG -> num_ok n = true.
Proof.
  intros Hn. unfold num_ok, int_ok, MAX_STR_DIGITS. apply andb_true_iff. split; [apply Z.leb_le; lia|].
  apply Z.leb_le. rewrite BIG_eq in Hn. pose proof (r_number_len n 4300%nat Hn) as H.
  assert (H1 : (1 <= 4300)%nat) by (apply Nat.leb_le; reflexivity). specialize (H H1).
  apply Nat2Z.inj_le in H. change (Z.of_nat 4300) with 4300 in H. exact H.
Qed.

(* what int() returns for a string of digits it accepts is a number it will accept again *)
Lemma num_ok_digits ds : ds <> [] -> forallb is_digit ds = true -> int_ok ds = true -> num_ok (digits_val ds) = true.
Proof.
  intros Hne Hd Hi. rewrite digits_val_dv. pose proof (dv_bounds ds Hd 0 ltac:(lia)) as Hb.
  unfold num_ok. apply andb_true_iff. split; [apply Z.leb_le; lia|].
  unfold int_ok, MAX_STR_DIGITS in *. apply Z.leb_le in Hi. apply Z.leb_le.
  assert (Hk : (1 <= List.length ds)%nat) by (destruct ds; [contradiction|cbn; lia]).
  pose proof (r_number_len (dv 0 ds) (List.length ds) ltac:(lia) Hk). lia.
Qed.

(* ------------------------------------------------------------------ normpath does not lengthen a name *)
Fixpoint wsum (l : list (list Z)) : nat :=
  match l with [] => 0%nat | c :: t => (S (List.length c) + wsum t)%nat end.
Fixpoint wne (l : list (list Z)) : nat :=
  match l with [] => 0%nat | c :: t => (match c with [] => 0 | _ => S (List.length c) end + wne t)%nat end.

Lemma wsum_app a b : wsum (a ++ b) = (wsum a + wsum b)%nat.
Proof. induction a as [|x a IH]; cbn [wsum app]; [reflexivity|]. rewrite IH. lia. Qed.
Lemma wsum_rev l : wsum (rev l) = wsum l.
Proof. induction l as [|x l IH]; cbn [rev wsum]; [reflexivity|]. rewrite wsum_app, IH. cbn [wsum]. lia. Qed.
Lemma wne_le_wsum l : (wne l <= wsum l)%nat.
Proof. induction l as [|x l IH]; cbn [wne wsum]; [lia|]. destruct x; cbn [List.length]; lia. Qed.

Lemma split_on_wsum sep s : wsum (split_on sep s) = S (List.length s).
Proof.
  induction s as [|c s IH]; cbn [split_on]; [reflexivity|]. destruct (c =? sep).
  - cbn [wsum List.length]. lia.
  - destruct (split_on sep s) as [|h t]; [cbn in IH; discriminate|].
    cbn [wsum List.length] in *. lia.
Qed.

Lemma norm_step_w b acc c : (wsum (norm_step b acc c) <= wsum acc + match c with [] => 0 | _ => S (List.length c) end)%nat.
Proof.
  unfold norm_step. destruct (beq c [] || beq c [46]) eqn:E1; [lia|].
  destruct c as [|x c]; [discriminate E1|].
  destruct (negb (beq (x :: c) dotdot)); [cbn [wsum]; lia|].
  destruct acc as [|t acc]; [destruct b; cbn [wsum List.length]; lia|].
  destruct (beq t dotdot); cbn [wsum List.length]; lia.
Qed.
Lemma fold_norm_w b cs : forall acc, (wsum (fold_left (norm_step b) cs acc) <= wsum acc + wne cs)%nat.
Proof.
  induction cs as [|c cs IH]; intros acc; cbn [fold_left wne]; [lia|].
  pose proof (IH (norm_step b acc c)). pose proof (norm_step_w b acc c). lia.
Qed.
Lemma join_slash_len l : l <> [] -> S (List.length (join_slash l)) = wsum l.
Proof.
  induction l as [|x [|y l] IH]; intros Hne; [contradiction|cbn; lia|].
  change (join_slash (x :: y :: l)) with (x ++ 47 :: join_slash (y :: l)).
  rewrite app_length. cbn [List.length]. specialize (IH ltac:(discriminate)).
  cbn [wsum] in *. lia.
Qed.

Lemma normpath_len x : x <> [] -> (List.length (normpath x) <= List.length x)%nat.
Proof.
  intros Hne. unfold normpath. destruct x as [|c0 x0] eqn:Ex; [contradiction|]. rewrite <- Ex. cbv zeta.
  set (k := initial_slashes x).
  set (l := rev (fold_left (norm_step (negb (Nat.eqb k 0))) (split_on 47 x) [])).
  assert (Hl : (wsum l <= wne (split_on 47 x))%nat).
  { unfold l. rewrite wsum_rev. pose proof (fold_norm_w (negb (Nat.eqb k 0)) (split_on 47 x) []). cbn [wsum] in H. lia. }
  pose proof (split_on_wsum 47 x) as Hs.
  (* the leading slashes are empty components *)
  assert (Hk : (wne (split_on 47 x) + k <= S (List.length x))%nat).
  { unfold k, initial_slashes. rewrite Ex. cbn [split_on]. destruct (Z.eqb_spec c0 47) as [->|Hc0].
    - destruct x0 as [|c1 x1].
      + cbn. lia.
      + cbn [split_on]. destruct (Z.eqb_spec c1 47) as [->|Hc1].
        * pose proof (wne_le_wsum (split_on 47 x1)) as H1. pose proof (split_on_wsum 47 x1) as H2.
          destruct x1 as [|c2 x2]; [cbn in *; lia|]. destruct (c2 =? 47); cbn [wne wsum List.length] in *; lia.
        * pose proof (wne_le_wsum (split_on 47 (c1 :: x1))) as H1. pose proof (split_on_wsum 47 (c1 :: x1)) as H2.
          cbn [split_on] in H1, H2. destruct (c1 =? 47) eqn:E; [apply Z.eqb_eq in E; contradiction|].
          cbn [wne wsum List.length] in *. lia.
    - pose proof (wne_le_wsum (split_on 47 (c0 :: x0))) as H1. pose proof (split_on_wsum 47 (c0 :: x0)) as H2.
      cbn [split_on] in H1, H2. destruct (c0 =? 47) eqn:E; [apply Z.eqb_eq in E; contradiction|]. lia. }
  assert (Hk2 : (k <= 2)%nat).
  { unfold k, initial_slashes. destruct x as [|a [|b [|c t]]]; repeat match goal with |- context [?u =? 47] => destruct (u =? 47) end; lia. }
  assert (Hkx : (k <= List.length x)%nat).
  { unfold k, initial_slashes. destruct x as [|a [|b [|c t]]]; cbn [List.length];
      repeat match goal with |- context [?u =? 47] => destruct (u =? 47) end; lia. }
  clearbody l. clearbody k.
  destruct l as [|y l'].
  - cbn [join_slash]. rewrite app_nil_r. destruct k as [|k']; cbn [repeat]; [rewrite Ex; cbn; lia|].
    cbn [List.length]. rewrite repeat_length. lia.
  - assert (Hj : S (List.length (join_slash (y :: l'))) = wsum (y :: l')) by (apply join_slash_len; discriminate).
    assert (Hlen : List.length (repeat 47 k ++ join_slash (y :: l')) = (k + List.length (join_slash (y :: l')))%nat)
      by (rewrite app_length, repeat_length; reflexivity).
    destruct (repeat 47 k ++ join_slash (y :: l')) eqn:Ep; [rewrite Ex; cbn; lia|]. lia.
Qed.

(* ------------------------------------------------------------------ strings are pieces of the input *)
Lemma scan_quoted_body_blen : forall n s b r, (List.length s <= n)%nat ->
  scan_quoted_body s = Some (b, r) -> (List.length b <= List.length s)%nat.
Proof.
  induction n as [|n IH]; intros s b r Hn H.
  - destruct s; [discriminate|cbn in Hn; lia].
  - destruct s as [|c s]; [discriminate|]. cbn [scan_quoted_body] in H. cbn [List.length] in Hn.
    destruct (c =? 34); [inversion H; subst; cbn; lia|].
    destruct (c =? 92).
    + destruct s as [|e s]; [discriminate|]. destruct ((e =? 34) || (e =? 92)); [|discriminate].
      destruct (scan_quoted_body s) as [[b' r']|] eqn:E; [|discriminate]. inversion H; subst.
      apply IH in E; [cbn [List.length]; lia|cbn [List.length] in Hn; lia].
    + destruct ((c =? 13) || (c =? 10)); [discriminate|].
      destruct (scan_quoted_body s) as [[b' r']|] eqn:E; [|discriminate]. inversion H; subst.
      apply IH in E; [cbn [List.length]; lia|lia].
Qed.

Lemma string_len s v r : p_string s = ROk v r -> (List.length v <= List.length s)%nat.
Proof.
  intros E. unfold p_string in E. destruct (scan_quoted s) as [[b r0]|] eqn:Eq.
  - inversion E; subst. unfold scan_quoted in Eq. destruct s as [|c s]; [discriminate|].
    destruct (c =? 34); [|discriminate]. apply (scan_quoted_body_blen (List.length s)) in Eq; [|lia].
    cbn [List.length]. lia.
  - destruct (scan_lit_ref s) as [[ds r0]|] eqn:El; [|discriminate]. apply scan_lit_ref_len in El.
    unfold p_int in E. destruct (int_ok ds); [|discriminate].
    destruct (Z.of_nat (List.length r0) <? digits_val ds); [discriminate|]. inversion E; subst.
    rewrite firstn_length. lia.
Qed.
Lemma span_fst_len p s : (List.length (fst (span p s)) <= List.length s)%nat.
Proof.
  induction s as [|c s IH]; cbn [span]; [cbn; lia|]. destruct (p c); [|cbn; lia].
  destruct (span p s) as [a r]. cbn in *. lia.
Qed.
Lemma try_many1_str_len p s v r :
  (match try_many1 p s with Some (a, r) => ROk a r | None => p_string s end) = ROk v r ->
  (List.length v <= List.length s)%nat.
Proof.
  unfold try_many1. pose proof (span_fst_len p s) as Hl. destruct (span p s) as [a r0]. cbn in Hl.
  destruct a as [|c a]; [apply string_len|]. intros E. inversion E; subst. exact Hl.
Qed.
Lemma astring_len s v r : p_astring s = ROk v r -> (List.length v <= List.length s)%nat.
Proof. apply try_many1_str_len. Qed.
Lemma list_mailbox_len s v r : p_list_mailbox s = ROk v r -> (List.length v <= List.length s)%nat.
Proof. apply try_many1_str_len. Qed.

Lemma span_all p s : forallb p (fst (span p s)) = true.
Proof.
  induction s as [|c s IH]; cbn [span]; [reflexivity|]. destruct (p c) eqn:E; [|reflexivity].
  destruct (span p s) as [a r]. cbn [fst forallb] in *. rewrite E, IH. reflexivity.
Qed.
Lemma atom_is_atom s a r : p_atom s = ROk a r -> is_atom a = true.
Proof.
  unfold p_atom, p_many1. pose proof (span_all atom_char s) as H. destruct (span atom_char s) as [a0 r0]. cbn in H.
  destruct a0 as [|c a0]; [discriminate|]. intros E. inversion E; subst. exact H.
Qed.
Ltac binds E :=
  unfold pbind, pfail, pret in E;
  repeat match type of E with
         | match ?p ?x with _ => _ end = _ => let B := fresh "B" in destruct (p x) as [? ?| |?] eqn:B; try discriminate
         end.

(* ------------------------------------------------------------------ the framework *)
Section Outputs.
Variable N : nat.
Hypothesis HN : Z.of_nat N < BIG.

Definition okb {A} (q : A -> bool) (p : parser A) : Prop :=
  forall s a r, (List.length s <= N)%nat -> p s = ROk a r -> q a = true.

Lemma ok_ret {A} (q : A -> bool) a : q a = true -> okb q (pret a).
Proof. intros H s a' r _ E. inversion E; subst. exact H. Qed.
Lemma ok_fail {A} (q : A -> bool) : okb q pfail.
Proof. intros s a r _ E. discriminate E. Qed.
Lemma ok_any {A} (p : parser A) : okb (fun _ => true) p.
Proof. intros s a r _ _. reflexivity. Qed.
Lemma ok_weaken {A} (q q' : A -> bool) p : (forall a, q a = true -> q' a = true) -> okb q p -> okb q' p.
Proof. intros H Hp s a r Hs E. apply H. eapply Hp; eassumption. Qed.
Lemma ok_bind {A B} (q1 : A -> bool) (q2 : B -> bool) (p : parser A) (f : A -> parser B) :
  okb q1 p -> good p -> (forall a, q1 a = true -> okb q2 (f a)) -> okb q2 (pbind p f).
Proof.
  intros H1 Hg H2 s b r2 Hs E. unfold pbind in E. specialize (Hg s).
  destruct (p s) as [a r| |k] eqn:Ep; try discriminate. cbn in Hg.
  eapply (H2 a); [eapply H1; eassumption| |exact E]. lia.
Qed.
Lemma ok_pmap {A B} (q : A -> bool) (q' : B -> bool) (g : A -> B) p :
  okb q p -> (forall a, q a = true -> q' (g a) = true) -> okb q' (pmap g p).
Proof.
  intros Hp Hg s b r Hs E. unfold pmap, pbind in E. destruct (p s) as [a r0| |k] eqn:Ep; try discriminate.
  inversion E; subst. apply Hg. eapply Hp; eassumption.
Qed.
Lemma ok_if {A} (q : A -> bool) (b : list Z -> bool) p p' : okb q p -> okb q p' -> okb q (fun s => if b s then p s else p' s).
Proof. intros H1 H2 s a r Hs E. destruct (b s); [eapply H1|eapply H2]; eassumption. Qed.
Lemma ok_try {A} (q : A -> bool) k (p p' : parser A) : okb q p -> okb q p' ->
  okb q (fun s => match try_lit k s with Some r => p r | None => p' s end).
Proof.
  intros H1 H2 s a r Hs E. unfold try_lit in E. destruct (match_ci k s) as [r0|] eqn:Em; [|eapply H2; eassumption].
  apply match_ci_len in Em. eapply H1; [|exact E]. lia.
Qed.

(* ------------------------------------------------------------------ leaves *)
Definition tok_ok (p : Z -> bool) (a : list Z) : bool := match a with [] => false | _ => forallb p a end.
Lemma ok_many1 p : okb (tok_ok p) (p_many1 p).
Proof.
  intros s a r _ E. unfold p_many1 in E. pose proof (span_all p s) as H. destruct (span p s) as [a0 r0]. cbn in H.
  destruct a0 as [|c a0]; [discriminate|]. inversion E; subst. exact H.
Qed.

Lemma ok_number : okb num_ok p_number.
Proof.
  intros s n r _ E. unfold p_number, pbind, p_many1 in E. pose proof (span_all is_digit s) as H.
  destruct (span is_digit s) as [ds r0]. cbn in H. destruct ds as [|d ds]; [discriminate|].
  unfold p_int in E. destruct (int_ok (d :: ds)) eqn:Ei; [|discriminate]. inversion E; subst.
  apply num_ok_digits; [discriminate|exact H|exact Ei].
Qed.

Lemma str_ok_len v : (List.length v <= N)%nat -> str_ok v = true.
Proof. intros H. unfold str_ok. apply num_ok_small. lia. Qed.

Lemma ok_string : okb str_ok p_string.
Proof. intros s v r Hs E. apply str_ok_len. apply string_len in E. lia. Qed.
Lemma ok_astring : okb str_ok p_astring.
Proof. intros s v r Hs E. apply str_ok_len. apply astring_len in E. lia. Qed.
Lemma ok_list_mailbox : okb str_ok p_list_mailbox.
Proof. intros s v r Hs E. apply str_ok_len. apply list_mailbox_len in E. lia. Qed.

Lemma ok_atom : okb is_atom p_atom.
Proof. exact (ok_many1 atom_char). Qed.

Lemma ok_flag : okb flag_ok p_flag.
Proof.
  intros s f r Hs E. unfold p_flag, try_lit in E. destruct (match_ci [92] s) as [r0|] eqn:Em.
  - unfold pmap, pbind in E. destruct (p_atom r0) as [a r1| |k] eqn:Ea; try discriminate. inversion E; subst.
    apply match_ci_len in Em. cbn. eapply ok_atom; [|exact Ea]. lia.
  - pose proof (ok_atom s f r Hs E) as Ha. unfold flag_ok. destruct f as [|c a]; [discriminate|].
    destruct (Z.eqb_spec c 92) as [->|Hne]; [|exact Ha]. cbn in Ha. discriminate.
Qed.


(* ------------------------------------------------------------------ mailbox names *)
Lemma mailbox_norm_ok x : (List.length x <= N)%nat -> mailbox_ok (mailbox_norm x) = true.
Proof.
  intros Hx. unfold mailbox_norm. set (y := match x with [] => [] | _ => normpath x end).
  destruct (beq (lower_s y) inbox) eqn:E.
  - reflexivity.
  - unfold mailbox_ok. apply andb_true_iff. split.
    + assert (Hy : mailbox_norm y = y).
      { destruct x as [|c x']; [reflexivity|]. unfold y in *. cbv iota in E. cbv iota.
        pose proof (normpath_nonempty (c :: x')) as Hne.
        destruct (normpath (c :: x')) as [|c1 y1] eqn:En; [contradiction|].
        assert (Hid : normpath (c1 :: y1) = c1 :: y1) by (rewrite <- En; apply normpath_idem).
        unfold mailbox_norm. rewrite Hid, E. reflexivity. }
      rewrite Hy. apply beq_refl.
    + apply str_ok_len. unfold y. destruct x as [|c x']; [cbn; lia|].
      pose proof (normpath_len (c :: x') ltac:(discriminate)). lia.
Qed.
Lemma ok_mailbox : okb mailbox_ok p_mailbox.
Proof.
  intros s m r Hs E. unfold p_mailbox, pmap, pbind in E. destruct (p_astring s) as [x r0| |k] eqn:Ea; try discriminate.
  inversion E; subst. apply mailbox_norm_ok. apply astring_len in Ea. lia.
Qed.

Lemma lower_s_idem s : lower_s (lower_s s) = lower_s s.
Proof.
  induction s as [|c s IH]; cbn [lower_s map]; [reflexivity|]. fold (lower_s s). fold (lower_s (lower_s s)). rewrite IH. f_equal.
  unfold py_lower. zb.
  destruct (65 <=? c) eqn:E1, (c <=? 90) eqn:E2, (192 <=? c) eqn:E3, (c <=? 222) eqn:E4, (c =? 215) eqn:E5; cbn [andb negb]; zbool;
    repeat match goal with |- context [?a <=? ?b] => destruct (Z.leb_spec a b) end;
    repeat match goal with |- context [?a =? ?b] => destruct (Z.eqb_spec a b) end; cbn [andb negb]; try reflexivity; lia.
Qed.

Lemma pattern_norm_ok p : (List.length p <= N)%nat -> pattern_ok (pattern_norm p) = true.
Proof.
  intros Hp. unfold pattern_norm. destruct (beq (lower_s p) inbox) eqn:E.
  - reflexivity.
  - unfold pattern_ok, pattern_norm. rewrite E, beq_refl. apply str_ok_len. exact Hp.
Qed.
Lemma ok_pattern : okb pattern_ok p_list_mailbox_pattern.
Proof.
  intros s m r Hs E. unfold p_list_mailbox_pattern, pmap, pbind in E.
  destruct (p_list_mailbox s) as [x r0| |k] eqn:Ea; try discriminate.
  inversion E; subst. apply pattern_norm_ok. apply list_mailbox_len in Ea. lia.
Qed.

Lemma lowered_ok_lower v : (List.length v <= N)%nat -> lowered_ok (lower_s v) = true.
Proof.
  intros Hv. unfold lowered_ok. rewrite lower_s_idem, beq_refl. apply str_ok_len. unfold lower_s. rewrite map_length. exact Hv.
Qed.
Lemma ok_lower_astring : okb lowered_ok p_lower_astring.
Proof.
  intros s m r Hs E. unfold p_lower_astring, pmap, pbind in E. destruct (p_astring s) as [x r0| |k] eqn:Ea; try discriminate.
  inversion E; subst. apply lowered_ok_lower. apply astring_len in Ea. lia.
Qed.

(* ------------------------------------------------------------------ message sets *)
Lemma seq_atom_val_ok piece a : seq_atom_ok piece = true -> seq_atom_val piece = ROk a [] -> satom_ok a = true.
Proof.
  unfold seq_atom_ok, seq_atom_val. destruct piece as [|c p]; [discriminate|]. intros H.
  destruct (beq (c :: p) [42]) eqn:E; [intros X; inversion X; reflexivity|].
  rewrite orb_false_r in H. destruct (int_ok (c :: p)) eqn:Ei; [|discriminate].
  intros X. inversion X; subst. cbn [satom_ok]. apply num_ok_digits; [discriminate|exact H|exact Ei].
Qed.
Lemma seq_atom_val_rest piece a r : seq_atom_val piece = ROk a r -> r = [].
Proof. unfold seq_atom_val. destruct (beq piece [42]); [|destruct (int_ok piece)]; intros X; inversion X; reflexivity. Qed.

Lemma seq_elt_ok piece e r : seq_elt piece = ROk e r -> selt_ok e = true.
Proof.
  unfold seq_elt. destruct (seq_atom_ok piece) eqn:Eo.
  - destruct (seq_atom_val piece) as [a r0| |k] eqn:Ev; try discriminate.
    pose proof (seq_atom_val_rest _ _ _ Ev); subst r0. pose proof (seq_atom_val_ok _ _ Eo Ev) as Ha.
    destruct a; intros X; inversion X; subst; exact Ha.
  - destruct (split_on 58 piece) as [|a [|b [|c l]]]; try discriminate.
    destruct (seq_atom_ok a && seq_atom_ok b) eqn:Eab; [|discriminate].
    apply andb_true_iff in Eab. destruct Eab as [Ea Eb].
    destruct (seq_atom_val a) as [x r0| |k] eqn:Eva; try discriminate.
    destruct (seq_atom_val b) as [y r1| |k] eqn:Evb; try discriminate.
    pose proof (seq_atom_val_rest _ _ _ Eva); subst r0. pose proof (seq_atom_val_rest _ _ _ Evb); subst r1.
    intros X. inversion X; subst. cbn [selt_ok]. rewrite (seq_atom_val_ok _ _ Ea Eva), (seq_atom_val_ok _ _ Eb Evb). reflexivity.
Qed.
Lemma seq_elts_ok pieces : forall l r, seq_elts pieces = ROk l r ->
  forallb selt_ok l = true /\ List.length l = List.length pieces.
Proof.
  induction pieces as [|p ps IH]; intros l r E; cbn [seq_elts] in E; [inversion E; split; reflexivity|].
  destruct (seq_elt p) as [e r0| |k] eqn:Ee; try discriminate.
  destruct (seq_elts ps) as [es r1| |k] eqn:Es; try discriminate. inversion E; subst.
  destruct (IH es r1 eq_refl) as [H1 H2]. cbn [forallb List.length]. rewrite (seq_elt_ok _ _ _ Ee), H1, H2. split; reflexivity.
Qed.
Lemma split_on_nonempty sep s : split_on sep s <> [].
Proof.
  induction s as [|c s IH]; cbn [split_on]; [discriminate|]. destruct (c =? sep); [discriminate|].
  destruct (split_on sep s); [contradiction|discriminate].
Qed.
Lemma ok_msg_set : okb set_ok p_msg_set.
Proof.
  intros s l r _ E. unfold p_msg_set in E. destruct (span msgset_char s) as [txt r0]. destruct txt as [|c txt]; [discriminate|].
  destruct (seq_elts (split_on 44 (c :: txt))) as [l0 r1| |k] eqn:Es; try discriminate. inversion E; subst.
  destruct (seq_elts_ok _ _ _ Es) as [H1 H2]. unfold set_ok. destruct l as [|e l]; [|exact H1].
  pose proof (split_on_nonempty 44 (c :: txt)). destruct (split_on 44 (c :: txt)); [contradiction|discriminate H2].
Qed.

(* ------------------------------------------------------------------ dates *)
Lemma scan_month_from_range ms : forall i s m r, scan_month_from i ms s = Some (m, r) -> i <= m < i + Z.of_nat (List.length ms).
Proof.
  induction ms as [|x ms IH]; intros i s m r H; cbn [scan_month_from] in H; [discriminate|].
  destruct (match_ci x s); [inversion H; subst; cbn [List.length]; lia|].
  apply IH in H. cbn [List.length]. lia.
Qed.
Lemma scan_mon_year_range s m y r : scan_mon_year s = Some (m, y, r) -> 1 <= m <= 12 /\ 0 <= y <= 9999.
Proof.
  unfold scan_mon_year. destruct s as [|h s1]; [discriminate|]. destruct (h =? 45); [|discriminate].
  destruct (scan_month s1) as [[m' s2]|] eqn:E; [|discriminate]. apply scan_month_from_range in E. cbn in E.
  destruct s2 as [|h2 [|a [|b [|c [|d s3]]]]]; try discriminate.
  destruct ((h2 =? 45) && is_digit a && is_digit b && is_digit c && is_digit d) eqn:C; [|discriminate].
  intros H. inversion H; subst. repeat (apply andb_true_iff in C; destruct C as [C ?]).
  repeat match goal with Hd : is_digit _ = true |- _ => apply digit_val_range in Hd end.
  unfold four. lia.
Qed.
Lemma scan_date_text_range s d m y r : scan_date_text s = Some (d, m, y, r) -> 1 <= m <= 12.
Proof.
  unfold scan_date_text.
  set (one := match s with
              | a :: s1 => if is_digit a then match scan_mon_year s1 with Some (m0, y0, r0) => Some (digit_val a, m0, y0, r0) | None => None end else None
              | [] => None end).
  assert (Hone : one = Some (d, m, y, r) -> 1 <= m <= 12).
  { unfold one. destruct s as [|a s1]; [discriminate|]. destruct (is_digit a); [|discriminate].
    destruct (scan_mon_year s1) as [[[m0 y0] r0]|] eqn:E; [|discriminate]. apply scan_mon_year_range in E.
    intros H. inversion H; subst. tauto. }
  destruct s as [|a [|b s2]]; try exact Hone.
  destruct (is_digit a && is_digit b); [|exact Hone].
  destruct (scan_mon_year s2) as [[[m0 y0] r0]|] eqn:E; [|exact Hone]. apply scan_mon_year_range in E.
  intros H. inversion H; subst. tauto.
Qed.
Lemma ok_date : okb date_wf p_date.
Proof.
  intros s [[y m] d] r _ E. unfold p_date in E. destruct (scan_date s) as [[[[d' m'] y'] r0]|] eqn:Es; [|discriminate].
  destruct (date_ok y' m' d') eqn:Ed; [|discriminate]. inversion E; subst.
  assert (Hm : 1 <= m <= 12).
  { unfold scan_date in Es. destruct s as [|q s1]; [discriminate|]. destruct (q =? 34).
    - destruct (scan_date_text s1) as [[[[d0 m0] y0] [|q2 r']]|] eqn:E2; try discriminate.
      destruct (q2 =? 34); [|discriminate]. inversion Es; subst. eapply scan_date_text_range. exact E2.
    - eapply scan_date_text_range. exact Es. }
  unfold date_wf. rewrite Ed. replace (1 <=? m) with true by (symmetry; apply Z.leb_le; lia).
  replace (m <=? 12) with true by (symmetry; apply Z.leb_le; lia). reflexivity.
Qed.

Lemma two_range a b : is_digit a = true -> is_digit b = true -> 0 <= two a b <= 99.
Proof. intros Ha Hb. apply digit_val_range in Ha, Hb. unfold two. lia. Qed.

Lemma ok_date_time : okb date_time_wf p_date_time.
Proof.
  intros s t r _ E. unfold p_date_time in E.
  destruct (scan_date_time s) as [[[[[[[[[[d m] y] h] mi] sec] neg] zh] zm] r0]|] eqn:Es; [|discriminate].
  match type of E with (if ?c then _ else _) = _ => destruct c eqn:C end; [|discriminate]. inversion E; subst. clear E.
  unfold scan_date_time in Es. destruct s as [|q [|d1 [|d2 s1]]]; try discriminate.
  destruct ((q =? 34) && ((d1 =? 32) || is_digit d1) && is_digit d2) eqn:C1; [|discriminate].
  destruct (scan_mon_year s1) as [[[m0 y0] s2]|] eqn:E2; [|discriminate]. apply scan_mon_year_range in E2.
  destruct s2 as [|sp1 [|h1 [|h2 [|c1 [|m1 [|m2 [|c2 [|x1 [|x2 [|sp2 [|sg [|z1 [|z2 [|z3 [|z4 [|q2 r1]]]]]]]]]]]]]]]];
    try discriminate.
  match type of Es with (if ?c then _ else _) = _ => destruct c eqn:C2 end; [|discriminate].
  inversion Es; subst. clear Es.
  repeat (apply andb_true_iff in C2; destruct C2 as [C2 ?]).
  repeat (apply andb_true_iff in C; destruct C as [C ?]).
  pose proof (two_range h1 h2 ltac:(assumption) ltac:(assumption)) as Rh.
  pose proof (two_range m1 m2 ltac:(assumption) ltac:(assumption)) as Rm.
  pose proof (two_range x1 x2 ltac:(assumption) ltac:(assumption)) as Rs.
  pose proof (two_range z1 z2 ltac:(assumption) ltac:(assumption)) as Rz1.
  pose proof (two_range z3 z4 ltac:(assumption) ltac:(assumption)) as Rz2.
  zbool. unfold date_time_wf.
  assert (Hy : 100 <= fix_year y) by (unfold fix_year; destruct (y <? 100) eqn:E1; [destruct (68 <? y)|]; zbool; lia).
  set (off := two z1 z2 * 3600 + two z3 z4 * 60) in *.
  assert (Hoff : 0 <= off) by (unfold off; lia).
  assert (Hmod : (if sg =? 45 then - off else off) mod 60 = 0).
  { destruct (sg =? 45); unfold off.
    - replace (- (two z1 z2 * 3600 + two z3 z4 * 60)) with ((- (two z1 z2 * 60 + two z3 z4)) * 60) by lia. apply Z.mod_mul. lia.
    - replace (two z1 z2 * 3600 + two z3 z4 * 60) with ((two z1 z2 * 60 + two z3 z4) * 60) by lia. apply Z.mod_mul. lia. }
  assert (Habs : Z.abs (if sg =? 45 then - off else off) < 86400) by (destruct (sg =? 45); lia).
  unfold date_ok. rewrite Hmod. destruct E2 as [Em Ey].
  repeat (apply andb_true_iff; split);
    first [apply Z.leb_le; lia | apply Z.ltb_lt; lia | reflexivity].
Qed.


(* ------------------------------------------------------------------ lists *)
Lemma paren_list_loop_ok {A} (q : A -> bool) (elem : parser A) : okb q elem -> good elem ->
  forall fuel s l r, (List.length s <= N)%nat -> paren_list_loop elem fuel s = ROk l r -> forallb q l = true.
Proof.
  intros Hq Hg. induction fuel as [|f IH]; intros s l r Hs E; [discriminate|]. cbn [paren_list_loop] in E.
  pose proof (Hg s) as G. destruct (elem s) as [a r0| |k] eqn:Ee; try discriminate. cbn in G.
  pose proof (Hq s a r0 Hs Ee) as Ha.
  destruct (try_lit [41] r0) as [r1|]; [inversion E; subst; cbn [forallb]; rewrite Ha; reflexivity|].
  destruct (p_sp r0) as [[] r1| |k] eqn:Ep; try discriminate. apply p_sp_shrinks in Ep.
  destruct (paren_list_loop elem f r1) as [l1 r2| |k] eqn:El; try discriminate. inversion E; subst.
  cbn [forallb]. rewrite Ha. eapply IH; [|exact El]. lia.
Qed.
Lemma ok_paren_list {A} (q : A -> bool) (elem : parser A) : okb q elem -> good elem -> okb (forallb q) (p_paren_list_of elem).
Proof.
  intros Hq Hg s l r Hs E. unfold p_paren_list_of in E. pose proof (good_p_lit [40] s) as G.
  destruct (p_lit [40] s) as [[] r0| |k]; try discriminate. cbn in G.
  destruct (try_lit [41] r0); [inversion E; reflexivity|].
  eapply (paren_list_loop_ok q elem Hq Hg); [|exact E]. lia.
Qed.
Definition nonempty_all {A} (q : A -> bool) (l : list A) : bool := match l with [] => false | _ => forallb q l end.
Lemma list_loop_ok {A} (q : A -> bool) (elem : parser A) : okb q elem -> good elem ->
  forall fuel s l r, (List.length s <= N)%nat -> list_loop elem fuel s = ROk l r -> nonempty_all q l = true.
Proof.
  intros Hq Hg. induction fuel as [|f IH]; intros s l r Hs E; [discriminate|]. cbn [list_loop] in E.
  pose proof (Hg s) as G. destruct (elem s) as [a r0| |k] eqn:Ee; try discriminate. cbn in G.
  pose proof (Hq s a r0 Hs Ee) as Ha. unfold try_lit in E.
  destruct (match_ci sp r0) as [r1|] eqn:Em; [|inversion E; subst; cbn; rewrite Ha; reflexivity].
  apply match_ci_len in Em. cbn in Em.
  destruct (list_loop elem f r1) as [l1 r2| |k] eqn:El; try discriminate. inversion E; subst.
  assert (H1 : nonempty_all q l1 = true) by (eapply IH; [|exact El]; lia).
  unfold nonempty_all in *. destruct l1; [discriminate|]. cbn [forallb] in *. rewrite Ha, H1. reflexivity.
Qed.
Lemma ok_list_of {A} (q : A -> bool) (elem : parser A) : okb q elem -> good elem -> okb (nonempty_all q) (p_list_of elem).
Proof. intros Hq Hg s l r Hs E. unfold p_list_of in E. eapply (list_loop_ok q elem Hq Hg); eassumption. Qed.

(* ------------------------------------------------------------------ FETCH *)
Lemma section_nums_ok : forall fuel s l r, section_nums fuel s = ROk l r -> forallb num_ok l = true.
Proof.
  induction fuel as [|f IH]; intros s l r E; [discriminate|]. cbn [section_nums] in E.
  destruct (p_number s) as [n r0| |k] eqn:En; try discriminate; [|inversion E; reflexivity].
  assert (Hn : num_ok n = true).
  { unfold p_number, pbind, p_many1 in En. pose proof (span_all is_digit s) as H. destruct (span is_digit s) as [ds r1]. cbn in H.
    destruct ds as [|d ds]; [discriminate|]. unfold p_int in En. destruct (int_ok (d :: ds)) eqn:Ei; [|discriminate].
    inversion En; subst. apply num_ok_digits; [discriminate|exact H|exact Ei]. }
  destruct (p_lit [46] r0) as [[] r1| |k]; try discriminate.
  - destruct (section_nums f r1) as [l1 r2| |k] eqn:El; try discriminate. inversion E; subst.
    cbn [forallb]. rewrite Hn. eapply IH. exact El.
  - inversion E; subst. cbn [forallb]. rewrite Hn. reflexivity.
Qed.

Lemma first_lit_in {A} (tbl : list (list Z * A)) s a r : first_lit tbl s = Some (a, r) -> In a (map snd tbl).
Proof.
  induction tbl as [|[k b] tbl IH]; cbn [first_lit]; [discriminate|].
  destruct (try_lit k s); [intros H; inversion H; subst; left; reflexivity|]. intros H. right. apply IH. exact H.
Qed.

Lemma ok_section : okb section_ok p_section.
Proof.
  intros s sec r Hs E. unfold p_section, pbind in E. pose proof (good_p_lit [91] s) as G0.
  destruct (p_lit [91] s) as [[] s0| |k]; try discriminate. cbn in G0.
  pose proof (section_nums_good (S (List.length s0)) s0 ltac:(lia)) as G1.
  destruct (section_nums (S (List.length s0)) s0) as [nums r0| |k] eqn:En; try discriminate. cbn in G1.
  apply section_nums_ok in En.
  destruct (try_lit [93] r0); [inversion E; subst; unfold section_ok; rewrite En; reflexivity|].
  destruct (first_lit (section_texts match nums with [] => false | _ => true end) r0) as [[tk r1]|] eqn:Ef; [|discriminate].
  pose proof (first_lit_len _ _ _ _ Ef) as L1. pose proof (first_lit_in _ _ _ _ Ef) as Hin.
  assert (Hfields : forall neg, (p_sp ;;; hl <- p_paren_list_of p_astring ;;
                     match hl with [] => pfail | _ => p_lit [93] ;;; pret (nums, Some (TxFields neg hl)) end)%parser r1 = ROk sec r ->
                    section_ok sec = true).
  { intros neg X. unfold pbind in X. destruct (p_sp r1) as [[] r2| |k] eqn:E2; try discriminate. apply p_sp_shrinks in E2.
    destruct (p_paren_list_of p_astring r2) as [hl r3| |k] eqn:E3; try discriminate.
    assert (Hh : forallb str_ok hl = true) by (eapply (ok_paren_list str_ok p_astring ok_astring good_astring); [|exact E3]; lia).
    destruct hl as [|h hl]; [discriminate|]. destruct (p_lit [93] r3) as [[] r4| |k]; try discriminate.
    inversion X; subst. unfold section_ok. rewrite En. exact Hh. }
  destruct tk; [apply (Hfields true); exact E|apply (Hfields false); exact E| | |];
    unfold pbind in E; (destruct (p_lit [93] r1) as [[] r2| |k]; try discriminate); inversion E; subst;
    unfold section_ok; rewrite En; cbn [sect_text_ok]; try reflexivity.
  (* MIME is only in the table when there are part numbers *)
  destruct nums; [|reflexivity]. cbn in Hin. intuition discriminate.
Qed.

Lemma ok_partial : okb (fun p => num_ok (fst p) && num_ok (snd p)) p_partial.
Proof.
  unfold p_partial.
  eapply ok_bind; [apply ok_any|apply good_p_lit|intros _ _].
  eapply ok_bind; [apply ok_number|apply good_number|intros a Ha].
  eapply ok_bind; [apply ok_any|apply good_p_lit|intros _ _].
  eapply ok_bind; [apply ok_number|apply good_number|intros b Hb].
  eapply ok_bind; [apply ok_any|apply good_p_lit|intros _ _].
  apply ok_ret. cbn [fst snd]. rewrite Ha, Hb. reflexivity.
Qed.

Lemma ok_body_rest peek : okb fatt_ok (p_body_rest peek).
Proof.
  unfold p_body_rest. eapply ok_bind; [apply ok_section|apply good_section|intros sec Hsec].
  apply ok_if.
  - eapply ok_bind; [apply ok_partial|apply good_partial|intros [a b] Hp]. apply ok_ret. cbn [fatt_ok]. rewrite Hsec. exact Hp.
  - apply (ok_ret fatt_ok (FBody peek sec None)). cbn [fatt_ok]. rewrite Hsec. reflexivity.
Qed.
Lemma ok_fetch_att : okb fatt_ok p_fetch_att.
Proof.
  unfold p_fetch_att. eapply ok_bind; [apply ok_any|apply good_many1|intros tok _].
  destruct (lookup fetch_toks (lower_s tok)) as [[o| | | | |]|]; cbn [fetch_dispatch];
    try (apply ok_ret; reflexivity); try apply ok_fail; try apply ok_body_rest.
  apply (ok_if fatt_ok (peek_lit [91]) (p_body_rest false) (fun s => ROk FBodyShort s)); [apply ok_body_rest|].
  apply (ok_ret fatt_ok FBodyShort). reflexivity.
Qed.
Lemma ok_fetch_atts : okb (forallb fatt_ok) p_fetch_atts.
Proof.
  unfold p_fetch_atts. apply ok_if; [apply ok_paren_list; [apply ok_fetch_att|apply good_fetch_att]|].
  apply (ok_try (forallb fatt_ok) (bs "all") (fun r => ROk macro_all r)); [apply (ok_ret (forallb fatt_ok) macro_all); reflexivity|].
  apply (ok_try (forallb fatt_ok) (bs "full") (fun r => ROk macro_full r)); [apply (ok_ret (forallb fatt_ok) macro_full); reflexivity|].
  apply (ok_try (forallb fatt_ok) (bs "fast") (fun r => ROk macro_fast r)); [apply (ok_ret (forallb fatt_ok) macro_fast); reflexivity|].
  eapply ok_pmap; [apply ok_fetch_att|]. intros a Ha. cbn [forallb]. rewrite Ha. reflexivity.
Qed.


(* ------------------------------------------------------------------ SEARCH *)
Lemma lookup_in {A} (tbl : list (list Z * A)) k v : lookup tbl k = Some v -> In v (map snd tbl).
Proof.
  unfold lookup. destruct (find (fun e => beq k (fst e)) tbl) as [e|] eqn:E; [|discriminate].
  intros H. inversion H; subst. apply find_some in E. apply in_map. tauto.
Qed.

Lemma skey_ok_mono : forall d k, skey_ok true d k = true -> skey_ok true (S d) k = true.
Proof.
  induction d as [|d IH]; intros k Hk;
    (destruct k as [|f|h s|w dt|s|s|n|n|k'|a c|l|l|l]; cbn [skey_ok andb] in *; try exact Hk).
  - destruct (not_alt_ok k'); [reflexivity|discriminate].
  - discriminate.
  - destruct (is_new l); [reflexivity|]. destruct l as [|x [|y l]]; try exact Hk; discriminate.
  - destruct (not_alt_ok k'); [reflexivity|apply IH; exact Hk].
  - apply andb_true_iff in Hk. destruct Hk as [H1 H2]. rewrite (IH _ H1), (IH _ H2). reflexivity.
  - destruct (is_new l); [reflexivity|]. destruct l as [|x [|y l]]; try exact Hk.
    rewrite forallb_forall in *. intros z Hz. apply IH. apply Hk. exact Hz.
Qed.

Ltac pick_in Hin :=
  cbn in Hin; repeat (destruct Hin as [Hx|Hin]; [try discriminate Hx; inversion Hx; subst; clear Hx|]); try contradiction.

Lemma ok_search_dispatch nested d t : okb (skey_ok true d) nested -> good nested ->
  In t (map snd search_toks) -> okb (skey_ok true (S d)) (search_dispatch nested (Some t)).
Proof.
  intros Hn Hg Hin.
  destruct t as [|f|f|h|w| | | | | | | | | | | |]; cbn [search_dispatch].
  - apply ok_ret; reflexivity.
  - pick_in Hin; apply ok_ret; reflexivity.
  - pick_in Hin; apply ok_ret; reflexivity.
  - eapply ok_bind; [apply ok_any|apply good_p_lit|intros _ _].
    eapply ok_bind; [apply ok_lower_astring|apply good_lower_astring|intros v Hv].
    pick_in Hin; apply ok_ret; cbn [skey_ok]; rewrite Hv; reflexivity.
  - eapply ok_bind; [apply ok_any|apply good_p_lit|intros _ _].
    eapply ok_bind; [apply ok_date|apply good_date|intros v Hv]. apply ok_ret. exact Hv.
  - eapply ok_bind; [apply ok_any|apply good_p_lit|intros _ _].
    eapply ok_bind; [apply ok_lower_astring|apply good_lower_astring|intros v Hv]. apply ok_ret. exact Hv.
  - eapply ok_bind; [apply ok_any|apply good_p_lit|intros _ _].
    eapply ok_bind; [apply ok_lower_astring|apply good_lower_astring|intros v Hv]. apply ok_ret. exact Hv.
  - (* header *)
    eapply ok_bind; [apply ok_any|apply good_p_lit|intros _ _].
    eapply ok_bind; [apply ok_lower_astring|apply good_lower_astring|intros h Hh].
    eapply ok_bind; [apply ok_any|apply good_p_lit|intros _ _].
    eapply ok_bind; [apply ok_lower_astring|apply good_lower_astring|intros v Hv]. apply ok_ret. cbn [skey_ok]. rewrite Hh, Hv. reflexivity.
  - (* keyword *)
    eapply ok_bind; [apply ok_any|apply good_p_lit|intros _ _].
    eapply ok_bind; [apply ok_atom|apply good_atom|intros f Hf]. apply ok_ret. cbn [skey_ok]. destruct (sysflag_key f); [reflexivity|exact Hf].
  - (* unkeyword *)
    eapply ok_bind; [apply ok_any|apply good_p_lit|intros _ _].
    eapply ok_bind; [apply ok_atom|apply good_atom|intros f Hf]. apply ok_ret. cbn [skey_ok not_alt_ok andb].
    destruct (unflag_key f); [reflexivity|]. rewrite Hf. reflexivity.
  - eapply ok_bind; [apply ok_any|apply good_p_lit|intros _ _].
    eapply ok_bind; [apply ok_number|apply good_number|intros v Hv]. apply ok_ret. exact Hv.
  - eapply ok_bind; [apply ok_any|apply good_p_lit|intros _ _].
    eapply ok_bind; [apply ok_number|apply good_number|intros v Hv]. apply ok_ret. exact Hv.
  - apply ok_ret; reflexivity.
  - apply ok_ret; reflexivity.
  - (* not *)
    eapply ok_bind; [apply ok_any|apply good_p_lit|intros _ _].
    eapply ok_bind; [exact Hn|exact Hg|intros k Hk]. apply ok_ret. cbn [skey_ok andb]. destruct (not_alt_ok k); [reflexivity|exact Hk].
  - (* or *)
    eapply ok_bind; [apply ok_any|apply good_p_lit|intros _ _].
    eapply ok_bind; [exact Hn|exact Hg|intros a Ha].
    eapply ok_bind; [apply ok_any|apply good_p_lit|intros _ _].
    eapply ok_bind; [exact Hn|exact Hg|intros b Hb]. apply ok_ret. cbn [skey_ok]. rewrite Ha, Hb. reflexivity.
  - eapply ok_bind; [apply ok_any|apply good_p_lit|intros _ _].
    eapply ok_bind; [apply ok_msg_set|apply good_msg_set|intros v Hv]. apply ok_ret. exact Hv.
Qed.

Lemma ok_search_key_body nested d : okb (skey_ok true d) nested -> good nested ->
  okb (skey_ok true (S d)) (search_key_body nested).
Proof.
  intros Hn Hg. unfold search_key_body. apply ok_if.
  - intros s k r Hs E. destruct (p_paren_list_of nested s) as [l r0| |c] eqn:El; try discriminate.
    pose proof (ok_paren_list (skey_ok true d) nested Hn Hg s l r0 Hs El) as Hl.
    destruct l as [|x [|y l]]; inversion E; subst.
    + reflexivity.
    + apply skey_ok_mono. cbn [forallb] in Hl. rewrite andb_true_r in Hl. exact Hl.
    + cbn [skey_ok andb]. destruct (is_new (x :: y :: l)); [reflexivity|exact Hl].
  - intros s k r Hs E. unfold try_many1 in E. pose proof (span_length search_char s) as Hl.
    destruct (span search_char s) as [tok r0]. cbn in Hl. destruct tok as [|c tok].
    + eapply ok_pmap; [apply ok_msg_set| |exact Hs|exact E]. intros l Hl0. exact Hl0.
    + destruct (lookup search_toks (lower_s (c :: tok))) as [t|] eqn:Et; [|discriminate].
      eapply (ok_search_dispatch nested d t Hn Hg); [eapply lookup_in; exact Et| |exact E]. lia.
Qed.

(* at depth 0 the nested parser is pfail: what is accepted satisfies the depth-0 predicate *)
Lemma skey_ok_1_0 k : skey_ok true 1 k = true ->
  match k with
  | KNot k' => not_alt_ok k' = true
  | KOr _ _ => False
  | KAnd l => is_new l = true \/ l = []
  | _ => True
  end -> skey_ok true 0 k = true.
Proof.
  destruct k as [|f|h s|w dt|s|s|n|n|k'|a c|l|l|l]; cbn [skey_ok andb]; intros H X; try exact H.
  - rewrite X. reflexivity.
  - contradiction.
  - destruct X as [X| ->]; [rewrite X; reflexivity|]. reflexivity.
Qed.

Lemma ok_search_key_0 : okb (skey_ok true 0) (p_search_key 0).
Proof.
  intros s k r Hs E.
  assert (H1 : skey_ok true 1 k = true).
  { eapply (ok_search_key_body pfail 0); [apply ok_fail|apply good_fail|exact Hs|exact E]. }
  apply skey_ok_1_0; [exact H1|]. clear H1. cbn [p_search_key] in E. unfold search_key_body in E.
  destruct (peek_lit [40] s).
  - unfold p_paren_list_of in E. destruct (p_lit [40] s) as [[] r0| |c]; try discriminate.
    destruct (try_lit [41] r0); [inversion E; right; reflexivity|].
    destruct (S (List.length r0)); cbn [paren_list_loop pfail] in E; discriminate.
  - unfold try_many1 in E. destruct (span search_char s) as [tok r0]. destruct tok as [|c tok].
    + unfold pmap, pbind in E. destruct (p_msg_set s) as [? ?| |?]; try discriminate. inversion E; exact I.
    + destruct (lookup search_toks (lower_s (c :: tok))) as [t|] eqn:Et; [|discriminate].
      pose proof (lookup_in _ _ _ Et) as Hin.
      destruct t as [|f|f|h|w| | | | | | | | | | | |]; cbn [search_dispatch] in E.
      * inversion E; exact I.
      * inversion E; exact I.
      * inversion E; subst. pick_in Hin; reflexivity.
      * binds E. inversion E; exact I.
      * binds E. inversion E; exact I.
      * binds E. inversion E; exact I.
      * binds E. inversion E; exact I.
      * binds E. inversion E; exact I.
      * binds E. inversion E; exact I.
      * binds E. inversion E; subst. cbn [not_alt_ok].
        match goal with B : p_atom _ = ROk ?f _ |- _ => apply atom_is_atom in B; destruct (unflag_key f); [reflexivity|exact B] end.
      * binds E. inversion E; exact I.
      * binds E. inversion E; exact I.
      * inversion E. left. reflexivity.
      * inversion E. reflexivity.
      * binds E.
      * binds E.
      * binds E. inversion E; exact I.
Qed.


Lemma ok_search_key d : okb (skey_ok true d) (p_search_key d).
Proof.
  induction d as [|d IH]; [apply ok_search_key_0|]. cbn [p_search_key].
  apply ok_search_key_body; [exact IH|apply good_search_key].
Qed.

(* ------------------------------------------------------------------ LIST *)
Lemma fold_sel_ok l : forall o, sel_ok (fold_left sel_add l o) = negb (so_recursive (fold_left sel_add l o))
                                   || so_subscribed (fold_left sel_add l o) || so_special (fold_left sel_add l o).
Proof. intros o. reflexivity. Qed.

Lemma ok_select_options : okb sel_ok p_select_options.
Proof.
  unfold p_select_options. eapply ok_bind; [apply ok_any|apply good_paren_list_of; apply good_sel_item|intros l _]. cbv zeta.
  set (o := fold_left sel_add l sel_none).
  destruct (so_recursive o && negb (so_subscribed o || so_special o)) eqn:E; [apply ok_fail|].
  apply ok_ret. unfold sel_ok. destruct (so_recursive o), (so_subscribed o), (so_special o); cbn in *; congruence.
Qed.

(* status flag set <-> status attributes present *)
Definition ret_consistent (p : ret_opts * list status_att) : bool :=
  if ro_status (fst p) then match snd p with [] => false | _ => true end else match snd p with [] => true | _ => false end.
Definition retitem_ok (i : retitem) : bool := match i with RtStatus [] => false | _ => true end.

Lemma fold_ret_consistent l : forall acc, forallb retitem_ok l = true -> ret_consistent acc = true ->
  ret_consistent (fold_left ret_apply l acc) = true.
Proof.
  induction l as [|i l IH]; intros acc Hl Ha; cbn [fold_left]; [exact Ha|].
  cbn [forallb] in Hl. apply andb_true_iff in Hl. destruct Hl as [Hi Hl]. apply IH; [exact Hl|].
  destruct i as [t|st]; unfold ret_apply, ret_consistent in *; cbn [fst snd] in *.
  - destruct t; cbn [ret_add ro_status]; exact Ha.
  - cbn [ro_status]. destruct st; [discriminate|reflexivity].
Qed.

Lemma ok_ret_item : okb retitem_ok p_ret_item.
Proof.
  unfold p_ret_item. eapply ok_bind; [apply ok_any|apply good_atom|intros a _].
  destruct (beq (lower_s a) (bs "status")).
  - eapply ok_bind; [apply ok_any|apply good_p_lit|intros _ _].
    eapply ok_bind; [apply ok_any|apply good_paren_list_of; apply good_status_att|intros st _].
    destruct st; [apply ok_fail|apply ok_ret; reflexivity].
  - destruct (lookup ret_toks (lower_s a)); [apply ok_ret; reflexivity|apply ok_fail].
Qed.
Lemma ok_return_options : okb ret_consistent p_return_options.
Proof.
  unfold p_return_options.
  eapply ok_bind; [apply ok_paren_list; [apply ok_ret_item|apply good_ret_item]|apply good_paren_list_of; apply good_ret_item|intros l Hl].
  apply ok_ret. apply fold_ret_consistent; [exact Hl|reflexivity].
Qed.

Lemma ok_list lsub : okb (cmd_okb true) (p_list lsub).
Proof.
  unfold p_list.
  eapply ok_bind; [apply ok_any|apply good_p_lit|intros _ _].
  eapply ok_bind; [|apply good_list_sel|intros sel Hsel].
  { unfold p_list_sel. apply ok_if.
    - eapply ok_bind; [apply ok_select_options|apply good_select_options|intros o Ho].
      eapply ok_bind; [apply ok_any|apply good_p_lit|intros _ _]. apply ok_ret. exact Ho.
    - apply (ok_ret sel_ok sel_none). reflexivity. }
  eapply ok_bind; [apply ok_mailbox|apply good_mailbox|intros ref Href].
  eapply ok_bind; [apply ok_any|apply good_p_lit|intros _ _].
  eapply ok_bind; [|apply good_list_pats|intros pp Hpp].
  { unfold p_list_pats.
    apply (ok_if (fun pp => match snd pp with [] => str_ok (fst pp) | _ => beq (fst pp) [] && forallb pattern_ok (snd pp) end)).
    - eapply ok_pmap; [apply ok_paren_list; [apply ok_pattern|apply good_pattern]|].
      intros l Hl. cbn [fst snd]. destruct l; [reflexivity|exact Hl].
    - eapply ok_pmap; [apply ok_list_mailbox|]. intros p Hp. exact Hp. }
  eapply ok_bind; [|apply good_list_ret|intros rr Hrr].
  { unfold p_list_ret. apply (ok_try ret_consistent sp).
    - eapply ok_bind; [apply ok_any|apply good_p_lit|intros _ _].
      eapply ok_bind; [apply ok_any|apply good_p_lit|intros _ _]. apply ok_return_options.
    - apply (ok_ret ret_consistent (ret_none, [])). reflexivity. }
  apply ok_ret. cbn [cmd_okb]. rewrite Hsel, Href. cbn [andb].
  destruct pp as [pat pats]. destruct rr as [ro st]. cbn [fst snd] in *. rewrite Hpp. cbn [andb].
  unfold ret_consistent in Hrr. cbn [fst snd] in Hrr. exact Hrr.
Qed.

(* ------------------------------------------------------------------ ID *)
Lemma dict_put_keys {V} (d : list (list Z * V)) k v : keys_distinct d = true -> keys_distinct (dict_put d k v) = true
  /\ (forall k0, existsb (fun e => beq k0 (fst e)) (dict_put d k v) = beq k0 k || existsb (fun e => beq k0 (fst e)) d).
Proof.
  induction d as [|[k' v'] d IH]; intros Hd; cbn [dict_put].
  - split; [reflexivity|]. intros k0. cbn. reflexivity.
  - cbn [keys_distinct] in Hd. apply andb_true_iff in Hd. destruct Hd as [Hk Hd]. destruct (IH Hd) as [I1 I2].
    destruct (beq k k') eqn:E.
    + apply beq_eq in E. subst k'. split.
      * cbn [keys_distinct]. rewrite Hk. exact Hd.
      * intros k0. cbn [existsb fst]. destruct (beq k0 k); reflexivity.
    + split.
      * cbn [keys_distinct]. rewrite I1, andb_true_r. rewrite I2. rewrite beq_sym in E. rewrite E. cbn [orb]. exact Hk.
      * intros k0. cbn [existsb fst]. rewrite I2. destruct (beq k0 k'), (beq k0 k); reflexivity.
Qed.
Lemma fold_dict_ok l : forall d, keys_distinct d = true -> forallb id_pair_ok d = true -> forallb id_pair_ok l = true ->
  keys_distinct (fold_left (fun d kv => dict_put d (fst kv) (snd kv)) l d) = true
  /\ forallb id_pair_ok (fold_left (fun d kv => dict_put d (fst kv) (snd kv)) l d) = true.
Proof.
  induction l as [|[k v] l IH]; intros d Hd Hok Hl; cbn [fold_left]; [split; assumption|].
  cbn [forallb] in Hl. apply andb_true_iff in Hl. destruct Hl as [Hkv Hl]. cbn [fst snd].
  apply IH; [apply dict_put_keys; exact Hd| |exact Hl].
  clear IH Hl. induction d as [|[k' v'] d IHd]; cbn [dict_put forallb] in *; [rewrite Hkv; reflexivity|].
  apply andb_true_iff in Hok. destruct Hok as [H1 H2]. cbn [keys_distinct] in Hd. apply andb_true_iff in Hd. destruct Hd as [_ Hd].
  destruct (beq k k') eqn:E.
  - apply beq_eq in E. subst k'. cbn [forallb]. rewrite H2, andb_true_r.
    unfold id_pair_ok in *. cbn [fst snd] in *. apply andb_true_iff in Hkv. apply andb_true_iff in H1. destruct Hkv, H1.
    apply andb_true_iff. split; assumption.
  - cbn [forallb]. rewrite H1. apply IHd; assumption.
Qed.
Lemma ok_id_pair : okb id_pair_ok p_id_pair.
Proof.
  unfold p_id_pair. eapply ok_bind; [apply ok_string|apply good_string|intros k Hk].
  eapply ok_bind; [apply ok_any|apply good_p_lit|intros _ _].
  apply (ok_try id_pair_ok (bs "nil") (fun r => ROk (k, None) r)).
  - apply (ok_ret id_pair_ok (k, None)). unfold id_pair_ok. cbn [fst snd]. rewrite Hk. reflexivity.
  - eapply ok_pmap; [apply ok_string|]. intros v Hv. unfold id_pair_ok. cbn [fst snd]. rewrite Hk, Hv. reflexivity.
Qed.
Lemma ok_id : okb (cmd_okb true) p_id.
Proof.
  unfold p_id. eapply ok_bind; [apply ok_any|apply good_p_lit|intros _ _]. unfold p_id_params.
  apply (ok_try (cmd_okb true) (bs "nil") (fun r => ROk (CId []) r)); [apply (ok_ret (cmd_okb true) (CId [])); reflexivity|].
  apply ok_if; [|apply ok_fail].
  eapply ok_pmap; [apply ok_paren_list; [apply ok_id_pair|apply good_id_pair]|].
  intros l Hl. cbn [cmd_okb]. destruct (fold_dict_ok l [] eq_refl eq_refl Hl) as [H1 H2]. rewrite H1, H2. reflexivity.
Qed.

(* ------------------------------------------------------------------ APPEND, STORE, SEARCH *)
Lemma ok_append : okb (cmd_okb true) p_append.
Proof.
  unfold p_append.
  eapply ok_bind; [apply ok_any|apply good_p_lit|intros _ _].
  eapply ok_bind; [apply ok_mailbox|apply good_mailbox|intros m Hm].
  eapply ok_bind; [apply ok_any|apply good_p_lit|intros _ _].
  eapply ok_bind; [|apply good_append_flags|intros fl Hfl].
  { unfold p_append_flags. apply (ok_if (forallb flag_ok)).
    - eapply ok_bind; [apply ok_paren_list; [apply ok_flag|apply good_flag]|apply good_paren_list_of; apply good_flag|intros l Hl].
      eapply ok_bind; [apply ok_any|apply good_p_lit|intros _ _]. apply ok_ret. exact Hl.
    - apply (ok_ret (forallb flag_ok) []). reflexivity. }
  eapply ok_bind; [|apply good_append_date|intros dt Hdt].
  { unfold p_append_date. apply (ok_if (fun d => match d with None => true | Some t => date_time_wf t end)).
    - eapply ok_bind; [apply ok_date_time|apply good_date_time|intros t Ht].
      eapply ok_bind; [apply ok_any|apply good_p_lit|intros _ _]. apply ok_ret. exact Ht.
    - apply (ok_ret (fun d => match d with None => true | Some t => date_time_wf t end) None). reflexivity. }
  eapply ok_bind; [apply ok_string|apply good_string|intros msg Hmsg].
  apply ok_ret. cbn [cmd_okb]. rewrite Hm, Hfl, Hdt, Hmsg. reflexivity.
Qed.

Lemma nonempty_all_forallb {A} (q : A -> bool) l : nonempty_all q l = true -> forallb q l = true.
Proof. unfold nonempty_all. destruct l; [discriminate|auto]. Qed.

Lemma ok_store uid : okb (cmd_okb true) (p_store uid).
Proof.
  unfold p_store.
  eapply ok_bind; [apply ok_any|apply good_p_lit|intros _ _].
  eapply ok_bind; [apply ok_msg_set|apply good_msg_set|intros set Hset].
  eapply ok_bind; [apply ok_any|apply good_p_lit|intros _ _].
  eapply ok_bind; [apply ok_any|apply good_store_action|intros act _].
  eapply ok_bind; [apply ok_any|apply good_p_lit|intros _ _].
  eapply ok_bind; [apply ok_any|apply good_store_silent|intros silent _].
  eapply ok_bind; [apply ok_any|apply good_p_lit|intros _ _].
  eapply ok_bind; [|apply good_store_flags|intros fl Hfl].
  { unfold p_store_flags. apply (ok_if (forallb flag_ok)).
    - apply ok_paren_list; [apply ok_flag|apply good_flag].
    - eapply ok_weaken; [apply nonempty_all_forallb|]. apply ok_list_of; [apply ok_flag|apply good_flag]. }
  apply ok_ret. cbn [cmd_okb]. rewrite Hset, Hfl. reflexivity.
Qed.

Lemma ok_search uid : okb (cmd_okb true) (p_search uid).
Proof.
  unfold p_search.
  eapply ok_bind; [apply ok_any|apply good_p_lit|intros _ _].
  eapply ok_bind; [|apply good_search_charset|intros cs Hcs].
  { unfold p_search_charset. apply (ok_try lowered_ok (bs "charset")).
    - eapply ok_bind; [apply ok_any|apply good_p_lit|intros _ _].
      eapply ok_bind; [apply ok_lower_astring|apply good_lower_astring|intros c Hc].
      eapply ok_bind; [apply ok_any|apply good_p_lit|intros _ _]. apply ok_ret. exact Hc.
    - apply (ok_ret lowered_ok (bs "us-ascii")). reflexivity. }
  eapply ok_bind; [apply ok_list_of; [apply ok_search_key|apply good_search_key]|apply good_list_of; apply good_search_key|intros keys Hk].
  apply ok_ret. cbn [cmd_okb]. rewrite Hcs. exact Hk.
Qed.

(* ------------------------------------------------------------------ commands *)
Lemma ok_command_body uid t : okb (cmd_okb true) (p_command_body uid t).
Proof.
  destruct t; cbn [p_command_body].
  - apply ok_ret. reflexivity.
  - destruct uid; [|apply ok_ret; reflexivity].
    eapply ok_bind; [apply ok_any|apply good_p_lit|intros _ _].
    eapply ok_bind; [apply ok_msg_set|apply good_msg_set|intros set Hset]. apply ok_ret. exact Hset.
  - eapply ok_bind; [apply ok_any|apply good_p_lit|intros _ _].
    eapply ok_bind; [apply ok_atom|apply good_atom|intros m Hm]. apply ok_ret. exact Hm.
  - eapply ok_bind; [apply ok_any|apply good_p_lit|intros _ _].
    eapply ok_bind; [apply ok_astring|apply good_astring|intros u Hu].
    eapply ok_bind; [apply ok_any|apply good_p_lit|intros _ _].
    eapply ok_bind; [apply ok_astring|apply good_astring|intros p Hp]. apply ok_ret. cbn [cmd_okb]. rewrite Hu, Hp. reflexivity.
  - eapply ok_bind; [apply ok_any|apply good_p_lit|intros _ _].
    eapply ok_bind; [apply ok_mailbox|apply good_mailbox|intros m Hm]. apply ok_ret. exact Hm.
  - eapply ok_bind; [apply ok_any|apply good_p_lit|intros _ _].
    eapply ok_bind; [apply ok_mailbox|apply good_mailbox|intros a Ha].
    eapply ok_bind; [apply ok_any|apply good_p_lit|intros _ _].
    eapply ok_bind; [apply ok_mailbox|apply good_mailbox|intros b Hb]. apply ok_ret. cbn [cmd_okb]. rewrite Ha, Hb. reflexivity.
  - apply ok_list.
  - apply ok_list.
  - eapply ok_bind; [apply ok_any|apply good_p_lit|intros _ _].
    eapply ok_bind; [apply ok_mailbox|apply good_mailbox|intros m Hm].
    eapply ok_bind; [apply ok_any|apply good_p_lit|intros _ _].
    eapply ok_bind; [apply ok_any|apply good_paren_list_of; apply good_status_att|intros atts _]. apply ok_ret. exact Hm.
  - apply ok_id.
  - apply ok_append.
  - apply ok_search.
  - eapply ok_bind; [apply ok_any|apply good_p_lit|intros _ _].
    eapply ok_bind; [apply ok_msg_set|apply good_msg_set|intros set Hset].
    eapply ok_bind; [apply ok_any|apply good_p_lit|intros _ _].
    eapply ok_bind; [apply ok_fetch_atts|apply good_fetch_atts|intros atts Ha]. apply ok_ret. cbn [cmd_okb]. rewrite Hset, Ha. reflexivity.
  - apply ok_store.
  - eapply ok_bind; [apply ok_any|apply good_p_lit|intros _ _].
    eapply ok_bind; [apply ok_msg_set|apply good_msg_set|intros set Hset].
    eapply ok_bind; [apply ok_any|apply good_p_lit|intros _ _].
    eapply ok_bind; [apply ok_mailbox|apply good_mailbox|intros m Hm]. apply ok_ret. cbn [cmd_okb]. rewrite Hset, Hm. reflexivity.
  - eapply ok_bind; [apply ok_any|apply good_p_lit|intros _ _].
    eapply ok_bind; [apply ok_msg_set|apply good_msg_set|intros set Hset].
    eapply ok_bind; [apply ok_any|apply good_p_lit|intros _ _].
    eapply ok_bind; [apply ok_mailbox|apply good_mailbox|intros m Hm]. apply ok_ret. cbn [cmd_okb]. rewrite Hset, Hm. reflexivity.
  - apply ok_fail.
Qed.
Lemma ok_command t : okb (cmd_okb true) (p_command t).
Proof.
  destruct t; try apply (ok_command_body false).
  cbn [p_command]. eapply ok_bind; [apply ok_any|apply good_p_lit|intros _ _].
  eapply ok_bind; [apply ok_any|apply good_atom|intros c _].
  destruct (lookup cmd_toks (lower_s c)) as [t'|]; [|apply ok_fail].
  destruct (is_uid_command t'); [apply ok_command_body|apply ok_fail].
Qed.

Theorem ok_parse_core : okb wf_canon parse_core.
Proof.
  unfold parse_core.
  eapply ok_bind; [apply (ok_many1 tag_char)|apply good_many1|intros tag Htag].
  eapply ok_bind; [apply ok_any|apply good_p_lit|intros _ _].
  eapply ok_bind; [apply ok_any|apply good_atom|intros c _].
  destruct (lookup cmd_toks (lower_s c)) as [t|]; [|apply ok_fail].
  eapply ok_bind; [apply ok_command|apply good_command|intros body Hb].
  apply ok_ret. unfold wf_canon, wfb. cbn [a_tag a_cmd]. rewrite Hb, andb_true_r. exact Htag.
Qed.

End Outputs.

(* ------------------------------------------------------------------ soundness *)
Theorem parse_core_wf s a r : Z.of_nat (List.length s) < 10 ^ 4300 -> parse_core s = ROk a r -> wf_canon a = true.
Proof. intros Hs E. eapply (ok_parse_core (List.length s) Hs); [|exact E]. lia. Qed.
