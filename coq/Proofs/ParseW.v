(* Proofs/ParseW.v — what the parser model accepts is well-formed: every value it produces satisfies the
   `*_ok` predicate of Spec/Grammar.v for its position (so that the AST is the parse of its own sentences).
   The os.path.normpath part reuses C09's theorem normpath_idempotent through a bridge lemma
   (Model/Lex.v's normpath and Model/Path.v's normpath are the same function). *)
From Asimap Require Import Base.Res Base.Bytes Model.Lex Spec.Grammar Model.ParseM Proofs.LexP Proofs.ParseT.
From Asimap Require Model.Path Proofs.PathP.
From Coq Require Import Lia ZArith List Bool.
Import ListNotations.
Open Scope Z_scope.

(* ------------------------------------------------------------------ normpath: bridge to Model/Path.v *)
Lemma beq_str_eqb a : forall b, beq a b = Path.str_eqb a b.
Proof. induction a as [|x a IH]; intros [|y b]; cbn; try reflexivity; try (rewrite IH; reflexivity). Qed.

Lemma split_on_slash s : split_on 47 s = Path.split_slash s.
Proof.
  induction s as [|c s IH]; cbn [split_on Path.split_slash]; [reflexivity|].
  unfold Path.SLASH. rewrite IH. reflexivity.
Qed.

Lemma norm_step_np b acc c : norm_step b acc c = Path.np_step b acc c.
Proof.
  unfold norm_step, Path.np_step, Path.c_empty, Path.c_dot, Path.c_dotdot, dotdot, Path.s_dot, Path.s_dotdot, Path.DOT.
  destruct c as [|x c]; [reflexivity|]. destruct acc as [|t acc]; reflexivity.
Qed.

Lemma fold_norm_np b cs : forall acc, fold_left (norm_step b) cs acc = fold_left (Path.np_step b) cs acc.
Proof. induction cs as [|c cs IH]; intros acc; cbn [fold_left]; [reflexivity|]. rewrite norm_step_np. auto. Qed.

Lemma join_slash_same l : join_slash l = Path.join_slash l.
Proof. reflexivity. Qed.

Lemma normpath_bridge s : normpath s = Path.normpath s.
Proof.
  unfold normpath, Path.normpath. destruct s as [|c s]; [reflexivity|].
  set (p := c :: s).
  assert (Hk : (match p with
                | 47 :: 47 :: 47 :: _ => 1%nat
                | 47 :: 47 :: _ => 2%nat
                | 47 :: _ => 1%nat
                | _ => 0%nat
                end) = Path.initial_slashes p).
  { unfold p, Path.initial_slashes, Path.SLASH. cbn [Path.startswith].
    destruct (Z.eqb_spec c 47) as [->|Hc].
    - cbn [andb]. destruct s as [|c2 s]; [reflexivity|]. destruct (Z.eqb_spec c2 47) as [->|Hc2].
      + cbn [andb]. destruct s as [|c3 s]; [reflexivity|]. destruct (Z.eqb_spec c3 47) as [->|Hc3]; [reflexivity|].
        cbn [andb negb]. destruct c3 as [|q|q]; try reflexivity.
        do 6 (destruct q as [q|q|]; try reflexivity); congruence.
      + cbn [andb]. destruct c2 as [|q|q]; try reflexivity.
        do 6 (destruct q as [q|q|]; try reflexivity); congruence.
    - destruct c as [|q|q]; try reflexivity. do 6 (destruct q as [q|q|]; try reflexivity); congruence. }
  rewrite Hk. unfold Path.np_comps, Path.or_dot, Path.s_dot, Path.DOT, Path.SLASH.
  rewrite split_on_slash, fold_norm_np, join_slash_same. reflexivity.
Qed.

Lemma normpath_idem s : normpath (normpath s) = normpath s.
Proof. rewrite !normpath_bridge. apply PathP.normpath_idempotent. Qed.

Lemma normpath_nonempty s : normpath s <> [].
Proof.
  unfold normpath. destruct s as [|c s]; [discriminate|].
  match goal with |- (match ?p with [] => _ | _ => ?p end) <> [] => destruct p eqn:E; [discriminate|discriminate] end.
Qed.
