(* Proofs/MboxUid.v — consequences of the invariants for C02 (UID order, no reuse, UIDNEXT,
   APPENDUID) and C03 (binding of UID to content, sequence/UID forms address the same messages). *)
From Asimap Require Import Base.Res Spec.SetSem Model.Mbox Proofs.MboxInv Proofs.MboxStep Proofs.MboxLe.
From Coq Require Import Sorting.Sorted ZifyBool.
Open Scope Z_scope.

(* in a strictly ascending list a UID occurs at one position only *)
Lemma sorted_uid_inj (l : list msg) m1 m2 :
  StronglySorted Z.lt (map m_uid l) -> In m1 l -> In m2 l -> m_uid m1 = m_uid m2 -> m1 = m2.
Proof.
  induction l as [|x l IH]; intros Hs H1 H2 He; [destruct H1|].
  cbn [map] in Hs. inversion Hs as [|? ? Hs' Hx]; subst. rewrite Forall_forall in Hx.
  destruct H1 as [<-|H1], H2 as [<-|H2]; trivial.
  - specialize (Hx (m_uid m2) (in_map m_uid _ _ H2)). lia.
  - specialize (Hx (m_uid m1) (in_map m_uid _ _ H1)). lia.
  - apply IH; trivial.
Qed.

(* a UID that survives a step still names the same content and internal date (C03), and a UID
   below the old UIDNEXT is never given to a new message (C02) *)
Lemma binding_stable b b' m m' :
  uinv b -> box_le b b' -> In m (b_msgs b) -> In m' (b_msgs b') -> m_uid m' = m_uid m ->
  m_cid m' = m_cid m /\ m_date m' = m_date m.
Proof.
  intros [Hs [Hf _]] [_ [_ Hl]] Hm Hm' He.
  destruct (Hl m' Hm') as [[m0 [Hm0 [Hu [Hc Hd]]]]|Hfresh].
  - assert (m0 = m) by (apply (sorted_uid_inj (b_msgs b)); trivial; congruence). subst m0. auto.
  - rewrite Forall_forall in Hf. specialize (Hf (m_uid m) (in_map m_uid _ _ Hm)). cbv beta in Hf. lia.
Qed.

Lemma no_uid_reuse b b' m' :
  box_le b b' -> In m' (b_msgs b') -> m_uid m' < b_next b ->
  exists m, In m (b_msgs b) /\ same_msg m m'.
Proof. intros [_ [_ Hl]] Hm' Hlt. destruct (Hl m' Hm') as [H|H]; [exact H|lia]. Qed.

(* ---- APPENDUID names the message that was appended *)
Lemma max_key_ge l : forall a, a <= fold_left (fun a m => Z.max a (m_key m)) l a.
Proof. induction l as [|m l IH]; intros a; cbn [fold_left]; [lia|]. specialize (IH (Z.max a (m_key m))). lia. Qed.
Lemma max_key_fold_mono l : forall a b, a <= b -> fold_left (fun a m => Z.max a (m_key m)) l a <= fold_left (fun a m => Z.max a (m_key m)) l b.
Proof. induction l as [|m l IH]; intros a b H; cbn [fold_left]; [exact H|]. apply IH. lia. Qed.
Lemma max_key_in l m : In m l -> m_key m <= max_key l.
Proof.
  unfold max_key. generalize 0. induction l as [|x l IH]; intros a H; [destruct H|]. cbn [fold_left].
  destruct H as [<-|H]; [|apply IH; exact H].
  pose proof (max_key_ge l (Z.max a (m_key x))). lia.
Qed.

Lemma resync_disk_empty b : b_disk (fst (resync b)) = [].
Proof.
  destruct (b_disk b) as [|d0 dl] eqn:E; [rewrite resync_nodisk by exact E; exact E|].
  destruct (resync_shape b) as [_ [_ [_ H]]]; [congruence|exact H].
Qed.

Lemma filter_none {A} (f : A -> bool) l : (forall x, In x l -> f x = false) -> filter f l = [].
Proof.
  induction l as [|x l IH]; intros H; cbn [filter]; [reflexivity|].
  rewrite (H x (or_introl eq_refl)). apply IH. intros y Hy. apply H. right; exact Hy.
Qed.

(* appending one file to a box whose disk is empty: it becomes the last message, gets the old
   UIDNEXT as its UID, keeps content, date and flags (plus \Recent) *)
Lemma append_one b file :
  b_disk b = [] ->
  let k := max_key (b_msgs b) + 1 in
  let b3 := fst (resync (with_disk b (add_files (b_disk b) (b_msgs b) [file]))) in
  b_msgs b3 = b_msgs b ++ [{| m_key := k; m_uid := b_next b; m_cid := m_cid file; m_date := m_date file;
                              m_seqs := sadd "Recent" (m_seqs file) |}] /\
  b_next b3 = b_next b + 1 /\
  (match filter (fun x => m_key x =? k) (b_msgs b3) with x :: _ => m_uid x | [] => 0 end) = b_next b.
Proof.
  intros Hd k b3. subst b3. rewrite Hd. cbn [add_files app].
  set (f := {| m_key := Z.max (max_key []) (max_key (b_msgs b)) + 1; m_uid := 0; m_cid := m_cid file;
               m_date := m_date file; m_seqs := m_seqs file |}).
  assert (Hk : Z.max (max_key []) (max_key (b_msgs b)) + 1 = k).
  { unfold k, max_key at 1. cbn [fold_left]. pose proof (max_key_ge (b_msgs b) 0). unfold max_key. lia. }
  destruct (resync_shape (with_disk b [f])) as [S1 [S2 _]]; [cbn; discriminate|].
  unfold fresh_of in S1, S2. cbn [with_disk b_disk b_msgs b_next sort_by_key fold_right insert_by_key assign_uids] in S1, S2.
  rewrite S1, S2. unfold f. cbn [m_key m_cid m_date m_seqs]. rewrite Hk.
  split; [reflexivity|]. split; [unfold zlen; cbn; lia|].
  rewrite filter_app. rewrite (filter_none _ (b_msgs b)).
  - cbn [app filter m_key]. rewrite Z.eqb_refl. reflexivity.
  - intros x Hx. pose proof (max_key_in _ _ Hx). unfold k. lia.
Qed.

(* ---- resolution of message sets against the mailbox (C03: both forms address the same messages) *)
Lemma in_combine_pos (ms : list msg) : forall off p m,
  In (p, m) (combine (map (fun i => Z.of_nat i + 1) (seq off (List.length ms))) ms) <->
  (Z.of_nat off + 1 <= p /\ nth_error ms (Z.to_nat (p - 1 - Z.of_nat off)) = Some m).
Proof.
  induction ms as [|x ms IH]; intros off p m; cbn [List.length seq map combine].
  - split; [intros []|]. intros [_ H]. destruct (Z.to_nat (p - 1 - Z.of_nat off)); discriminate.
  - cbn [In]. rewrite IH. split.
    + intros [H|[H1 H2]].
      * inversion H; subst. split; [lia|]. replace (Z.to_nat (Z.of_nat off + 1 - 1 - Z.of_nat off)) with O by lia. reflexivity.
      * split; [lia|]. replace (Z.to_nat (p - 1 - Z.of_nat off)) with (S (Z.to_nat (p - 1 - Z.of_nat (S off)))) by lia. exact H2.
    + intros [H1 H2]. destruct (Z.eq_dec p (Z.of_nat off + 1)) as [->|Hne].
      * left. replace (Z.to_nat (Z.of_nat off + 1 - 1 - Z.of_nat off)) with O in H2 by lia. cbn in H2. inversion H2; reflexivity.
      * right. split; [lia|].
        replace (Z.to_nat (p - 1 - Z.of_nat off)) with (S (Z.to_nat (p - 1 - Z.of_nat (S off)))) in H2 by lia. exact H2.
Qed.

Lemma znth_nth {A} (l : list A) i : 0 <= i -> znth l i = nth_error l (Z.to_nat i).
Proof. intros H. unfold znth. destruct (i <? 0) eqn:E; [lia|reflexivity]. Qed.

Lemma resolve_uid_spec b st l :
  resolve b true st = Ok l ->
  forall p, In p l <-> exists m, 1 <= p /\ znth (b_msgs b) (p - 1) = Some m /\
                                 In (m_uid m) (denote (last_uid (b_msgs b)) st).
Proof.
  unfold resolve. destruct (forallb elt_pos st); [|discriminate]. intros H; inversion H; subst l. clear H.
  intros p. rewrite in_map_iff. split.
  - intros [[p0 m] [E Hin]]. cbn [fst] in E. subst p0. apply filter_In in Hin. destruct Hin as [Hin Hz].
    apply (in_combine_pos (b_msgs b) 0) in Hin. destruct Hin as [H1 H2]. cbn [snd] in Hz.
    exists m. split; [lia|]. split.
    + rewrite znth_nth by lia. replace (p - 1 - Z.of_nat 0) with (p - 1) in H2 by lia. exact H2.
    + unfold zmem in Hz. apply existsb_exists in Hz. destruct Hz as [u [Hu He]]. apply Z.eqb_eq in He. subst. exact Hu.
  - intros [m [H1 [H2 H3]]]. exists (p, m). split; [reflexivity|]. apply filter_In. split.
    + apply (in_combine_pos (b_msgs b) 0). split; [lia|]. rewrite znth_nth in H2 by lia.
      replace (p - 1 - Z.of_nat 0) with (p - 1) by lia. exact H2.
    + cbn [snd]. unfold zmem. apply existsb_exists. exists (m_uid m). split; [exact H3|apply Z.eqb_refl].
Qed.

Lemma resolve_seq_spec b st l : resolve b false st = Ok l -> l = denote (zlen (b_msgs b)) st.
Proof. unfold resolve. destruct (forallb (elt_ok (zlen (b_msgs b))) st); [|discriminate]. intros H; inversion H; reflexivity. Qed.

(* a new mailbox gets a UIDVALIDITY above the global counter *)
Lemma mkbox_vv w m : get_box w m = None ->
  exists b, get_box (fst (step w (OMkbox m))) m = Some b /\ b_vv b = w_vv w + 1 /\ b_msgs b = [] /\ b_next b = 1.
Proof.
  intros H. unfold step. rewrite H. cbn [fst]. unfold get_box. cbn [w_boxes]. rewrite get_box_append, H, String.eqb_refl.
  eexists. split; [reflexivity|]. cbn. auto.
Qed.

Lemma binding_stable_run ops w n b m :
  winv w -> get_box w n = Some b -> In m (b_msgs b) ->
  exists b', get_box (fst (run w ops)) n = Some b' /\
             forall m', In m' (b_msgs b') -> m_uid m' = m_uid m -> m_cid m' = m_cid m /\ m_date m' = m_date m.
Proof.
  intros Hw Hg Hm. destruct (run_le ops w n b Hg) as [b' [Hg' Hl]].
  exists b'. split; [exact Hg'|]. intros m' Hm' He.
  exact (binding_stable b b' m m' (proj2 (Hw n b Hg)) Hl Hm Hm' He).
Qed.

Lemma reachable_uinv ps pn pd ops n b :
  get_box (fst (run (init_world ps pn pd) ops)) n = Some b ->
  StronglySorted Z.lt (uids b) /\ Forall (fun u => 0 < u < b_next b) (uids b) /\ 0 < b_next b.
Proof. intros H. exact (proj2 (reachable_inv ps pn pd ops n b H)). Qed.

Lemma run_le_box ops w n b : get_box w n = Some b -> exists b', get_box (fst (run w ops)) n = Some b' /\ box_le b b'.
Proof. intros H. exact (run_le ops w n b H). Qed.
