(* Proofs/ParseS.v — soundness of the parser model: what it accepts is well-formed and is parsed again from
   its canonical sentence; witnesses of the two known findings. *)
From Asimap Require Import Base.Res Base.Bytes Model.Lex Spec.Grammar Model.ParseM Proofs.LexP Proofs.ParseP Proofs.ParseT Proofs.ParseW.
From Coq Require Import Lia ZArith List Bool.
Import ListNotations.
Open Scope Z_scope.

Lemma covered_all a : covered a = true.
Proof. reflexivity. Qed.

(* known finding C08-trailing-text *)
Lemma trailing_text_witness : exists s a, parse s = POk a /\ at_end (parse_rest s) = false.
Proof. exists (bs "a NOOP trailing junk"), (mkAst (bs "a") (CNoArg NNoop)). vm_compute. split; reflexivity. Qed.

(* known finding C08-datetime-2digit-year *)
Lemma year_witness :
  exists s m f msg, parse s = POk (mkAst (bs "a") (CAppend m f (Some (2050, 1, 1, 0, 0, 0, 0)) msg))
                    /\ s = bs "a APPEND x ""01-Jan-0050 00:00:00 +0000"" {1}" ++ [13; 10; 97].
Proof.
  exists (bs "a APPEND x ""01-Jan-0050 00:00:00 +0000"" {1}" ++ [13; 10; 97]), (bs "x"), [], [97].
  vm_compute. split; reflexivity.
Qed.

Lemma p_mailbox_inbox ch site r : stops r = true -> p_mailbox (r_mailbox ch site inbox ++ r) = ROk inbox r.
Proof. intros Hr. apply p_mailbox_app; [reflexivity|exact Hr]. Qed.

(* what the parser accepts is well-formed, and its canonical sentence is parsed to the same command *)
Theorem parse_sound s a :
  parse s = POk a -> Z.of_nat (List.length s) < 10 ^ 4300 ->
  wf_canon a = true /\ parse (render a canon) = POk a.
Proof.
  intros Hp Hs. unfold parse in Hp. destruct (parse_core s) as [a0 r| |k] eqn:E; [|discriminate|destruct k; discriminate].
  inversion Hp; subst a0. pose proof (parse_core_wf s a r Hs E) as Hw. split; [exact Hw|].
  unfold parse. rewrite (parse_core_render_canon a Hw). reflexivity.
Qed.

Theorem parse_strict_sound s a :
  parse_strict s = POk a -> Z.of_nat (List.length s) < 10 ^ 4300 ->
  at_end (parse_rest s) = true /\ wf_canon a = true /\ parse_strict (render a canon) = POk a.
Proof.
  intros Hp Hs. unfold parse_strict, parse_rest in *. destruct (parse_core s) as [a0 r| |k] eqn:E; [|discriminate|destruct k; discriminate].
  destruct (at_end r) eqn:Ee; [|discriminate]. inversion Hp; subst a0.
  pose proof (parse_core_wf s a r Hs E) as Hw. repeat split; [exact Hw|].
  rewrite (parse_core_render_canon a Hw). reflexivity.
Qed.

Theorem parse_render_canon a : wf_canon a = true -> parse (render a canon) = POk a.
Proof. intros H. unfold parse. rewrite (parse_core_render_canon a H). reflexivity. Qed.

Theorem wf_wf_canon a : wf a = true -> wf_canon a = true.
Proof.
  unfold wf, wf_canon, wfb. intros H. apply andb_true_iff in H. destruct H as [H1 H2]. rewrite H1. apply cmd_okb_alt. exact H2.
Qed.
