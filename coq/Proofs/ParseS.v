(* Proofs/ParseS.v — soundness of the parser model: what it accepts is well-formed and is parsed again from
   its canonical sentence; witnesses of the two known findings. *)
From Asimap Require Import Base.Res Base.Bytes Model.Lex Spec.Grammar Model.ParseM Proofs.LexP Proofs.ParseP Proofs.ParseT.
From Coq Require Import Lia ZArith List Bool.
Import ListNotations.
Open Scope Z_scope.

Lemma covered_all a : covered a = true.
Proof. reflexivity. Qed.

(* known finding C08-trailing-text *)
Lemma trailing_text_witness : exists s a, parse s = POk a /\ at_end (parse_rest s) = false.
Proof. exists (bs "a NOOP trailing junk"), (mkAst (bs "a") (CNoArg NNoop)). vm_compute. split; reflexivity. Qed.

(* known finding C08-datetime-2digit-year *)
Lemma year_witness :
  exists s m f msg, parse s = POk (mkAst (bs "a") (CAppend m f (Some (2050, 1, 1, 0, 0, 0, 0)) msg))
                    /\ s = bs "a APPEND x ""01-Jan-0050 00:00:00 +0000"" {1}" ++ [13; 10; 97].
Proof.
  exists (bs "a APPEND x ""01-Jan-0050 00:00:00 +0000"" {1}" ++ [13; 10; 97]), (bs "x"), [], [97].
  vm_compute. split; reflexivity.
Qed.

Lemma p_mailbox_inbox ch site r : stops r = true -> p_mailbox (r_mailbox ch site inbox ++ r) = ROk inbox r.
Proof. intros Hr. apply p_mailbox_app; [reflexivity|exact Hr]. Qed.
