(* Proofs/MhSeqP.v — membership characterisations of Model/MhSeq.v (C13, C04). *)
From Asimap Require Import Base.Res Model.MhSeq.
From Coq Require Import Lia ZArith List Bool String Sorting.Sorted.
Open Scope Z_scope.

Lemma zmem_In k l : zmem k l = true <-> In k l.
Proof.
  unfold zmem. rewrite existsb_exists. split.
  - intros [x [Hx E]]. apply Z.eqb_eq in E. subst. exact Hx.
  - intros H. exists k. split; [exact H|apply Z.eqb_refl].
Qed.

Lemma in_newer highest forget keys k :
  In k (newer highest forget keys) <-> In k keys /\ highest < k /\ ~ In k forget.
Proof.
  unfold newer. rewrite filter_In. split.
  - intros [Hk Hc]. apply andb_true_iff in Hc as [Hh Hf]. apply Z.ltb_lt in Hh.
    apply negb_true_iff in Hf. split; [exact Hk|]. split; [exact Hh|].
    intros Hin. apply zmem_In in Hin. rewrite Hin in Hf. discriminate.
  - intros [Hk [Hh Hf]]. split; [exact Hk|]. apply andb_true_iff. split; [apply Z.ltb_lt; exact Hh|].
    apply negb_true_iff. destruct (zmem k forget) eqn:E; [|reflexivity]. apply zmem_In in E. contradiction.
Qed.

Lemma seq_of_set s name v name' :
  seq_of (dict_set s name v) name' = if String.eqb name' name then v else seq_of s name'.
Proof. unfold seq_of. apply dict_get_set. Qed.

Lemma merge_folder_spec highest forget folder : forall out name k,
  In k (seq_of (merge_folder highest forget out folder) name) <->
  In k (seq_of out name) \/
  (exists keys, In (name, keys) folder /\ In k keys /\ highest < k /\ ~ In k forget).
Proof.
  induction folder as [|[n keys] rest IH]; intros out name k; cbn [merge_folder].
  - split; [intros H; left; exact H|]. intros [H|[ks [[] _]]]. exact H.
  - rewrite IH. clear IH.
    assert (Hstep : In k (seq_of (match newer highest forget keys with
                                  | [] => out
                                  | _ => dict_set out n (seq_of out n ++ newer highest forget keys)
                                  end) name) <->
                    In k (seq_of out name) \/ (name = n /\ In k (newer highest forget keys))).
    { destruct (newer highest forget keys) as [|x nw] eqn:E.
      - split; [intros H; left; exact H|]. intros [H|[_ []]]. exact H.
      - rewrite seq_of_set. destruct (String.eqb_spec name n) as [->|NE].
        + rewrite in_app_iff. split; (intros [H|H]; [left; exact H|right]).
          * split; [reflexivity|exact H].
          * apply H.
        + split; [intros H; left; exact H|]. intros [H|[Hn _]]; [exact H|contradiction]. }
    rewrite Hstep. rewrite in_newer. split.
    + intros [[H|[-> [Hk [Hh Hf]]]]|[ks [Hin Hr]]].
      * left; exact H.
      * right. exists keys. split; [left; reflexivity|]. repeat split; assumption.
      * right. exists ks. split; [right; exact Hin|exact Hr].
    + intros [H|[ks [[Heq|Hin] [Hk [Hh Hf]]]]].
      * left; left; exact H.
      * injection Heq as -> ->. left; right. repeat split; assumption.
      * right. exists ks. repeat split; assumption.
Qed.

(* ---- what an MH tool reads after the server wrote ---- *)
Theorem written_spec msg_keys s forget folder name k :
  In k (seq_of (written msg_keys s forget folder) name) <->
  In k (seq_of s name) \/
  (exists keys, In (name, keys) folder /\ In k keys /\ highest_key msg_keys < k /\ ~ In k forget).
Proof. apply merge_folder_spec. Qed.

(* every message the server knows is listed exactly as the server has it *)
Theorem written_known_exact msg_keys s forget folder name k :
  k <= highest_key msg_keys ->
  (In k (seq_of (written msg_keys s forget folder) name) <-> In k (seq_of s name)).
Proof.
  intros Hk. rewrite written_spec. split; [|intros H; left; exact H].
  intros [H|[ks [_ [_ [Hh _]]]]]; [exact H|lia].
Qed.

(* what an MH tool said about a message the server has not taken in yet is kept *)
Theorem written_keeps_newer msg_keys s forget folder name keys k :
  In (name, keys) folder -> In k keys -> highest_key msg_keys < k -> ~ In k forget ->
  In k (seq_of (written msg_keys s forget folder) name).
Proof. intros H1 H2 H3 H4. apply written_spec. right. exists keys. repeat split; assumption. Qed.

(* nothing is invented, and a message the server has just removed is not kept from the folder *)
Theorem written_forgets msg_keys s forget folder name k :
  In k forget -> (In k (seq_of (written msg_keys s forget folder) name) <-> In k (seq_of s name)).
Proof.
  intros Hf. rewrite written_spec. split; [|intros H; left; exact H].
  intros [H|[ks [_ [_ [_ Hn]]]]]; [exact H|contradiction].
Qed.

(* the server's key list is strictly ascending, so its last element is its maximum:
   "k <= highest" covers every message the server knows *)
Theorem highest_is_max l k : StronglySorted Z.lt l -> Forall (fun x => 0 <= x) l -> In k l -> k <= highest_key l.
Proof.
  unfold highest_key. intros Hs. revert k. induction Hs as [|a l Hs IH Ha]; intros k Hpos Hin; [destruct Hin|].
  destruct l as [|b l'].
  - destruct Hin as [<-|[]]. cbn. lia.
  - change (last (a :: b :: l') 0) with (last (b :: l') 0).
    assert (Hb : b <= last (b :: l') 0) by (apply IH; [exact (Forall_inv_tail Hpos)|left; reflexivity]).
    destruct Hin as [<-|Hin]; [|apply IH; [exact (Forall_inv_tail Hpos)|exact Hin]].
    pose proof (Forall_inv Ha) as Hab. cbn in Hab. lia.
Qed.

Theorem written_known_sorted msg_keys s forget folder name k :
  StronglySorted Z.lt msg_keys -> Forall (fun x => 0 <= x) msg_keys -> In k msg_keys ->
  (In k (seq_of (written msg_keys s forget folder) name) <-> In k (seq_of s name)).
Proof.
  intros Hs Hp Hin. exact (written_known_exact msg_keys s forget folder name k (highest_is_max msg_keys k Hs Hp Hin)).
Qed.

(* ---- reading: Seen is the complement of unseen among the messages of the folder ---- *)
Theorem update_seen_seen msg_keys s recent k :
  In k (seq_of (update_seen msg_keys s recent) "Seen") <-> In k msg_keys /\ ~ In k (seq_of s "unseen").
Proof.
  unfold update_seen.
  assert (Hs : forall s1, seq_of (match recent with [] => s1 | _ => dict_set s1 "Recent" (seq_of s1 "Recent" ++ recent) end) "Seen"
                          = seq_of s1 "Seen").
  { intros s1. destruct recent; [reflexivity|]. rewrite seq_of_set. reflexivity. }
  rewrite Hs, seq_of_set. cbn [String.eqb Ascii.eqb Bool.eqb].
  destruct (seq_of s "unseen") as [|u us] eqn:E.
  - split; [intros H; split; [exact H|intros []]|intros [H _]; exact H].
  - rewrite filter_In. split.
    + intros [Hk Hn]. split; [exact Hk|]. intros Hin. apply zmem_In in Hin. rewrite Hin in Hn. discriminate.
    + intros [Hk Hn]. split; [exact Hk|]. apply negb_true_iff. destruct (zmem k (u :: us)) eqn:Ez; [|reflexivity].
      apply zmem_In in Ez. contradiction.
Qed.

Theorem update_seen_recent msg_keys s recent k :
  In k (seq_of (update_seen msg_keys s recent) "Recent") <-> In k (seq_of s "Recent") \/ In k recent.
Proof.
  unfold update_seen. set (s1 := dict_set s "Seen" _).
  assert (H1 : seq_of s1 "Recent" = seq_of s "Recent") by (unfold s1; rewrite seq_of_set; reflexivity).
  destruct recent as [|r rs].
  - rewrite H1. split; [intros H; left; exact H|intros [H|[]]; exact H].
  - rewrite seq_of_set. cbn [String.eqb Ascii.eqb Bool.eqb]. rewrite H1, in_app_iff. reflexivity.
Qed.

Theorem update_seen_others msg_keys s recent name :
  name <> "Seen"%string -> name <> "Recent"%string ->
  seq_of (update_seen msg_keys s recent) name = seq_of s name.
Proof.
  intros N1 N2. unfold update_seen. set (s1 := dict_set s "Seen" _).
  assert (H1 : seq_of s1 name = seq_of s name).
  { unfold s1. rewrite seq_of_set. destruct (String.eqb_spec name "Seen"); [contradiction|reflexivity]. }
  destruct recent; [exact H1|]. rewrite seq_of_set. destruct (String.eqb_spec name "Recent"); [contradiction|exact H1].
Qed.

(* reading twice changes nothing more: a second look at an unchanged folder derives the same sets *)
Theorem update_seen_idempotent msg_keys s recent name k :
  In k (seq_of (update_seen msg_keys (update_seen msg_keys s recent) []) name) <->
  In k (seq_of (update_seen msg_keys s recent) name).
Proof.
  destruct (String.eqb_spec name "Seen") as [->|NS].
  - rewrite !update_seen_seen. rewrite (update_seen_others msg_keys s recent "unseen") by discriminate. reflexivity.
  - destruct (String.eqb_spec name "Recent") as [->|NR].
    + rewrite (update_seen_recent msg_keys (update_seen msg_keys s recent) []). cbn [In]. intuition.
    + rewrite (update_seen_others msg_keys (update_seen msg_keys s recent) [] name) by assumption. reflexivity.
Qed.
