(* Proofs/OutcomeStep.v — C06 on the world model: queues hold only untagged notifications in every
   reachable world, and every command step answers its issuer exactly once, last. *)
From Asimap Require Import Base.Res Spec.SetSem Model.Mbox Model.Outcome Proofs.MboxInv Proofs.MboxStep Proofs.MboxOut Proofs.OutcomeP.
From Coq Require Import ZifyBool.
Open Scope Z_scope.

Ltac use_resync b Hb b1 o1 Q1 N1 :=
  destruct (resync_Q b Hb) as [Q1 N1]; destruct (resync b) as [b1 o1]; cbn [fst snd] in Q1, N1.
Ltac use_flush b s Hb b1 o1 Q1 N1 :=
  destruct (flush_Q b s Hb) as [Q1 N1]; destruct (flush b s) as [b1 o1]; cbn [fst snd] in Q1, N1.

Ltac finish_once :=
  repeat rewrite app_assoc;
  match goal with |- answered_once ?s (?pre ++ [(?s, ?t)]) => apply once_intro; [|reflexivity] end.

Lemma quiet_one s s' r : is_tagged r = false -> quiet_for s [(s', r)].
Proof. intros H r0 [E|[]]. inversion E; subst. exact H. Qed.
Lemma quiet_tag s s' rs : (forall r, In r rs -> is_tagged r = false) -> quiet_for s (tag s' rs).
Proof. intros H r Hin. unfold tag in Hin. apply in_map_iff in Hin. destruct Hin as [r0 [E Hr]]. inversion E; subst. auto. Qed.

Lemma set_msgs_Q b ms : bQ b -> bQ (set_msgs b ms).
Proof. intros H. exact H. Qed.

Lemma admit_set_Q w m b u st b1 o1 sl : bQ b -> admit_set w m b u st = Ok (b1, o1, sl) -> bQ b1 /\ notes_only o1.
Proof.
  intros Hb. unfold admit_set. destruct (resolve b u st); [|discriminate]. rewrite admit_is_resync.
  use_resync b Hb b1' o1' Q1 Hn1. destruct (resolve b1' u st); [|discriminate]. intros H; inversion H; subst. auto.
Qed.

Lemma gate_Q b s u fo b0 o0 : bQ b -> gate b s u fo = Some (b0, o0) -> bQ b0 /\ notes_only o0.
Proof.
  intros Hb. unfold gate. destruct (get_client b s); [|discriminate].
  destruct (flush_Q b s Hb) as [Qf Nf].
  destruct (pending_expunges c); [destruct u; [|discriminate]|destruct fo]; intros H.
  - destruct (flush b s); cbn [fst snd] in *; inversion H; subst; auto.
  - destruct (flush b s); cbn [fst snd] in *; inversion H; subst; auto.
  - inversion H; subst. split; [exact Hb|apply notes_nil].
Qed.

Lemma flush_sel_Q w s :
  wQ w ->
  let r := (match sel w s with
            | Some n => match get_box w n with
                        | Some b => let '(b', o') := flush b s in (set_box w n b', o')
                        | None => (w, [])
                        end
            | None => (w, [])
            end) in wQ (fst r) /\ notes_only (snd r).
Proof.
  intros Hw. cbv zeta. destruct (sel w s) as [n|]; [|split; [exact Hw|apply notes_nil]].
  destruct (get_box w n) as [b|] eqn:E; [|split; [exact Hw|apply notes_nil]].
  use_flush b s (Hw _ _ E) b' o' Qf Nf. cbn [fst snd]. split; [apply wQ_set; trivial|exact Nf].
Qed.

Lemma copy_into_Q w srcb sl dn w2 o2 src dstu :
  wQ w -> copy_into w srcb sl dn = Some (w2, o2, src, dstu) -> wQ w2 /\ notes_only o2.
Proof.
  intros Hw. unfold copy_into. destruct (get_box w dn) as [db|] eqn:E; [|discriminate].
  destruct (b_msgs srcb); [intros H; inversion H; subst; split; [exact Hw|apply notes_nil]|].
  rewrite admit_is_resync. use_resync db (Hw _ _ E) db1 o1 Q1 Hn1.
  match goal with |- context [resync (with_disk db1 ?D)] =>
    assert (Qd : bQ (with_disk db1 D)) by (apply (same_clients_Q db1); [reflexivity|exact Q1]);
    use_resync (with_disk db1 D) Qd db3 o3 Q3 Hn3 end.
  intros H; inversion H; subst. split; [apply wQ_set; trivial|apply notes_app; trivial].
Qed.

Lemma poll_Q l : forall w o, wQ w ->
  wQ (fst (fold_left (fun acc (nb : string * mbox) =>
                   let '(w1, o1) := acc in
                   match get_box w1 (fst nb) with
                   | None => acc
                   | Some b => let '(b', o') := resync b in
                               let b'' := match o' with [] => maybe_pack w1 b' | _ => b' end in
                               (set_box w1 (fst nb) b'', o1 ++ o')
                   end) l (w, o))).
Proof.
  induction l as [|nb l IH]; intros w o Hw; cbn [fold_left]; [exact Hw|].
  destruct (get_box w (fst nb)) as [b|] eqn:E; [|apply IH; exact Hw].
  use_resync b (Hw _ _ E) b' o' Qr Nr. apply IH. apply wQ_set; [exact Hw|].
  destruct o'; [unfold maybe_pack; destruct (should_pack w b'); [apply (same_clients_Q b'); [reflexivity|]|]|]; exact Qr.
Qed.

Theorem step_QA w o :
  wQ w -> wQ (fst (step w o)) /\ (forall s, issuer o = Some s -> o_is_idle o = false -> answered_once s (snd (step w o))).
Proof.
  intros Hw. destruct o; unfold step; cbv beta iota; cbn [issuer o_is_idle].
  - (* OSelect *)
    assert (Hw1 : wQ (unselect w s)).
    { unfold unselect. destruct (sel w s) as [n|]; [|exact Hw]. destruct (get_box w n) as [b|] eqn:E; [|exact Hw].
      apply wQ_set; [exact Hw|]. intros s0 c0 Hin. unfold set_clients, zalist_del in Hin. cbn [b_clients] in Hin.
      apply filter_In in Hin. apply (Hw _ _ E s0 c0). tauto. }
    destruct (get_box (unselect w s) (lower_inbox m)) as [b|] eqn:E.
    2:{ split; [exact Hw1|]. intros s0 H _. inversion H; subst. apply once_single. reflexivity. }
    rewrite admit_is_resync. use_resync b (Hw1 _ _ E) b1 o1 Q1 Hn1. cbn [fst snd]. split.
    + apply wQ_set; [exact Hw1|]. intros s0 c0 Hin r Hr. cbn [set_clients b_clients] in Hin. apply in_app_or in Hin.
      destruct Hin as [Hin|[Hin|[]]]; [apply (Q1 s0 c0 Hin r Hr)|]. inversion Hin; subst. destruct Hr.
    + intros s0 H _. inversion H; subst s0. cbn [tag map].
      match goal with |- answered_once _ (_ ++ [?a; ?b; ?c; ?d]) => change [a; b; c; d] with ([a; b; c] ++ [d]) end.
      finish_once. apply quiet_app; [apply notes_quiet; exact Hn1|].
      intros r [H1|[H1|[H1|[]]]]; inversion H1; reflexivity.
  - (* OUnselect *)
    destruct (sel w s) eqn:Es.
    + split.
      * unfold unselect. rewrite Es. destruct (get_box w s0) as [b|] eqn:E; [|exact Hw].
        apply wQ_set; [exact Hw|]. intros s1 c0 Hin. unfold set_clients, zalist_del in Hin. cbn [b_clients] in Hin.
        apply filter_In in Hin. apply (Hw _ _ E s1 c0). tauto.
      * intros s1 H _. inversion H; subst. apply once_single. reflexivity.
    + split; [exact Hw|]. intros s1 H _. inversion H; subst. apply once_single. reflexivity.
  - (* OClose *)
    unfold in_mbox. destruct (sel w s) as [n|]; [|split; [exact Hw|intros s0 H _; inversion H; subst; apply once_single; reflexivity]].
    destruct (get_box w n) as [b|] eqn:E; [|split; [exact Hw|intros s0 H _; inversion H; subst; apply once_single; reflexivity]].
    destruct (get_client b s) as [c|]; [|split; [exact Hw|intros s0 H _; inversion H; subst; apply once_single; reflexivity]].
    assert (Q0 : bQ (set_clients b (zalist_del (b_clients b) s))).
    { intros s0 c0 Hin. unfold set_clients, zalist_del in Hin. cbn [b_clients] in Hin. apply filter_In in Hin. apply (Hw _ _ E s0 c0). tauto. }
    destruct (c_exam c); [split; [apply wQ_set; trivial|intros s0 H _; inversion H; subst; apply once_single; reflexivity]|].
    destruct (existsb (has_seq "Deleted") (b_msgs (set_clients b (zalist_del (b_clients b) s))));
      [|split; [apply wQ_set; trivial|intros s0 H _; inversion H; subst; apply once_single; reflexivity]].
    rewrite admit_is_resync. use_resync (set_clients b (zalist_del (b_clients b) s)) Q0 b1 o1 Q1 Hn1.
    unfold expunge. destruct (expunge_loop_Q (positions_desc (has_seq "Deleted") (b_msgs b1) 1 []) b1 None Q1) as [Q2 Hn2].
    destruct (expunge_loop b1 _ None) as [b2 o2]. cbn [fst snd] in *. split; [apply wQ_set; trivial|].
    intros s0 H _. inversion H; subst s0. finish_once. apply quiet_app; apply notes_quiet; trivial.
  - (* ONoop *)
    destruct (sel w s) as [n|]; [|split; [exact Hw|intros s0 H _; inversion H; subst; apply once_single; reflexivity]].
    destruct (get_box w n) as [b|] eqn:E; [|split; [exact Hw|intros s0 H _; inversion H; subst; apply once_single; reflexivity]].
    rewrite admit_is_resync. use_resync b (Hw _ _ E) b1 o1 Q1 Hn1. use_flush b1 s Q1 b2 o2 Q2 Hn2. cbn [fst snd].
    split; [apply wQ_set; trivial|]. intros s0 H _. inversion H; subst s0. finish_once. apply quiet_app; apply notes_quiet; trivial.
  - (* OCheck *)
    unfold in_mbox. destruct (sel w s) as [n|]; [|split; [exact Hw|intros s0 H _; inversion H; subst; apply once_single; reflexivity]].
    destruct (get_box w n) as [b|] eqn:E; [|split; [exact Hw|intros s0 H _; inversion H; subst; apply once_single; reflexivity]].
    use_flush b s (Hw _ _ E) b0 o0 Q0 Hn0. rewrite admit_is_resync. use_resync b0 Q0 b1 o1 Q1 Hn1. use_flush b1 s Q1 b2 o2 Q2 Hn2.
    cbn [fst snd]. split; [apply wQ_set; trivial|]. intros s0 H _. inversion H; subst s0. finish_once.
    repeat apply quiet_app; apply notes_quiet; trivial.
  - (* OIdle *)
    split; [|intros s0 _ H; discriminate].
    destruct (sel w s) as [n|]; [|exact Hw]. destruct (get_box w n) as [b|] eqn:E; [|exact Hw].
    use_flush b s (Hw _ _ E) b1 o1 Q1 Hn1. cbn [fst]. apply wQ_set; [exact Hw|]. apply upd_Q; [reflexivity|exact Q1].
  - (* ODone *)
    destruct (sel w s) as [n|]; [|split; [exact Hw|intros s0 H _; inversion H; subst; apply once_single; reflexivity]].
    destruct (get_box w n) as [b|] eqn:E; [|split; [exact Hw|intros s0 H _; inversion H; subst; apply once_single; reflexivity]].
    assert (Qb : bQ (upd_client b s (fun c => set_idle c false))) by (apply upd_Q; [reflexivity|apply (Hw _ _ E)]).
    use_flush (upd_client b s (fun c => set_idle c false)) s Qb b1 o1 Q1 Hn1. cbn [fst snd].
    split; [apply wQ_set; trivial|]. intros s0 H _. inversion H; subst s0. finish_once. apply notes_quiet; trivial.
  - (* OAppend *)
    destruct (flush_sel_Q w s Hw) as [Hw0 Hn0].
    destruct (match sel w s with
              | Some n => match get_box w n with
                          | Some b => let '(b', o') := flush b s in (set_box w n b', o')
                          | None => (w, [])
                          end
              | None => (w, [])
              end) as [w0 o0]. cbn [fst snd] in Hw0, Hn0.
    destruct (get_box w0 (lower_inbox m)) as [b|] eqn:E.
    2:{ cbn [fst snd]. split; [exact Hw0|]. intros s0 H _. inversion H; subst s0. finish_once. apply notes_quiet; trivial. }
    rewrite admit_is_resync. use_resync b (Hw0 _ _ E) b1 o1 Q1 Hn1.
    destruct (existsb reserved_kw flags).
    { cbn [fst snd]. split; [apply wQ_set; trivial|]. intros s0 H _. inversion H; subst s0. finish_once.
      apply quiet_app; apply notes_quiet; trivial. }
    match goal with |- context [resync (with_disk b1 ?D)] =>
      assert (Qd : bQ (with_disk b1 D)) by (apply (same_clients_Q b1); [reflexivity|exact Q1]);
      use_resync (with_disk b1 D) Qd b3 o2 Q3 Hn3 end.
    destruct (flush_sel_Q (set_box w0 (lower_inbox m) b3) s (wQ_set _ _ _ Hw0 Q3)) as [Hw2 Hn4].
    destruct (match sel (set_box w0 (lower_inbox m) b3) s with
              | Some n => match get_box (set_box w0 (lower_inbox m) b3) n with
                          | Some bb => let '(b', o') := flush bb s in (set_box (set_box w0 (lower_inbox m) b3) n b', o')
                          | None => (set_box w0 (lower_inbox m) b3, [])
                          end
              | None => (set_box w0 (lower_inbox m) b3, [])
              end) as [w2 o3]. cbn [fst snd] in *. split; [exact Hw2|].
    intros s0 H _. inversion H; subst s0. finish_once. repeat apply quiet_app; apply notes_quiet; trivial.
  - (* OStore *)
    unfold in_mbox. destruct (sel w s) as [n|]; [|split; [exact Hw|intros s0 H _; inversion H; subst; apply once_single; reflexivity]].
    destruct (get_box w n) as [b|] eqn:E; [|split; [exact Hw|intros s0 H _; inversion H; subst; apply once_single; reflexivity]].
    destruct (get_client b s) as [c|]; [|split; [exact Hw|intros s0 H _; inversion H; subst; apply once_single; reflexivity]].
    destruct (c_exam c); [split; [exact Hw|intros s0 H _; inversion H; subst; apply once_single; reflexivity]|].
    destruct (gate b s uidc true) as [[b0 o0]|] eqn:G; [|split; [exact Hw|intros s0 H _; inversion H; subst; apply once_single; reflexivity]].
    destruct (gate_Q _ _ _ _ _ _ (Hw _ _ E) G) as [Q0 Hn0].
    destruct (admit_set w n b0 uidc set) as [[[b1a o1a] sl]|] eqn:A.
    2:{ cbn [fst snd]. split; [apply wQ_set; trivial|]. intros s0 H _. inversion H; subst s0. finish_once. apply notes_quiet; trivial. }
    destruct (admit_set_Q _ _ _ _ _ _ _ _ Q0 A) as [Q1a Hn1a]. use_flush b1a s Q1a b1 o1b Q1 Hn1b.
    destruct (smem "\Recent" flags || existsb reserved_kw flags).
    { cbn [fst snd]. split; [apply wQ_set; trivial|]. intros s0 H _. inversion H; subst s0. finish_once.
      repeat apply quiet_app; apply notes_quiet; trivial. }
    match goal with |- context [dispatch ?B ?D ?R] =>
      destruct (dispatch_Q B D R) as [Q3 Hn3]; [intros r Hr; apply (notes_at_note _ _ _ _ _ Hr)|apply (same_clients_Q b1); [reflexivity|exact Q1]|];
      destruct (dispatch B D R) as [b3 o2] end.
    cbn [fst snd] in *. split; [apply wQ_set; [exact Hw|]; apply upd_Q; [intros c0; apply deliver_pend'|exact Q3]|].
    intros s0 H _. inversion H; subst s0. finish_once. repeat apply quiet_app; try (apply notes_quiet; assumption).
    apply quiet_tag. intros r Hr. destruct silent; [destruct Hr|apply note_untagged; apply (notes_at_note _ _ _ _ _ Hr)].
  - (* OFetch *)
    unfold in_mbox. destruct (sel w s) as [n|]; [|split; [exact Hw|intros s0 H _; inversion H; subst; apply once_single; reflexivity]].
    destruct (get_box w n) as [b|] eqn:E; [|split; [exact Hw|intros s0 H _; inversion H; subst; apply once_single; reflexivity]].
    destruct (get_client b s) as [c|]; [|split; [exact Hw|intros s0 H _; inversion H; subst; apply once_single; reflexivity]].
    destruct (gate b s uidc true) as [[b0 o0]|] eqn:G; [|split; [exact Hw|intros s0 H _; inversion H; subst; apply once_single; reflexivity]].
    destruct (gate_Q _ _ _ _ _ _ (Hw _ _ E) G) as [Q0 Hn0].
    destruct (admit_set w n b0 uidc set) as [[[b1a o1a] sl]|] eqn:A.
    2:{ cbn [fst snd]. split; [apply wQ_set; trivial|]. intros s0 H _. inversion H; subst s0. finish_once. apply notes_quiet; trivial. }
    destruct (admit_set_Q _ _ _ _ _ _ _ _ Q0 A) as [Q1a Hn1a]. use_flush b1a s Q1a b1 o1b Q1 Hn1b.
    match goal with |- context [dispatch ?B ?D ?R] =>
      destruct (dispatch_Q B D R) as [Q3 Hn3];
        [intros r Hr; apply (notes_at_note _ _ _ _ _ Hr)
        |apply set_msgs_Q; apply upd_Q; [intros c0; apply deliver_pend'|exact Q1]|];
      destruct (dispatch B D R) as [b3 o2] end.
    cbn [fst snd] in Q3, Hn3. use_flush b3 s Q3 b4 o3 Q4 Hn4. cbn [fst snd]. split; [apply wQ_set; trivial|].
    intros s0 H _. inversion H; subst s0. finish_once. repeat apply quiet_app; try (apply notes_quiet; assumption).
    apply quiet_tag. intros r Hr. apply in_flat_map in Hr. destruct Hr as [p [_ Hr]].
    destruct (znth (b_msgs b1) (p - 1)); [|destruct Hr]. destruct k; repeat (destruct Hr as [<-|Hr]; [reflexivity|]); destruct Hr.
  - (* OSearch *)
    unfold in_mbox. destruct (sel w s) as [n|]; [|split; [exact Hw|intros s0 H _; inversion H; subst; apply once_single; reflexivity]].
    destruct (get_box w n) as [b|] eqn:E; [|split; [exact Hw|intros s0 H _; inversion H; subst; apply once_single; reflexivity]].
    destruct (gate b s uidc true) as [[b0 o0]|] eqn:G; [|split; [exact Hw|intros s0 H _; inversion H; subst; apply once_single; reflexivity]].
    destruct (gate_Q _ _ _ _ _ _ (Hw _ _ E) G) as [Q0 Hn0]. rewrite admit_is_resync. use_resync b0 Q0 b1a o1a Q1a Hn1a.
    use_flush b1a s Q1a b1 o1b Q1 Hn1b.
    cbn [fst snd]. split; [apply wQ_set; trivial|]. intros s0 H _. inversion H; subst s0.
    match goal with |- answered_once _ (_ ++ _ ++ [?a; ?b]) => change [a; b] with ([a] ++ [b]) end.
    finish_once. repeat apply quiet_app; try (apply notes_quiet; assumption). apply quiet_one. reflexivity.
  - (* OExpunge *)
    unfold in_mbox. destruct (sel w s) as [n|]; [|split; [exact Hw|intros s0 H _; inversion H; subst; apply once_single; reflexivity]].
    destruct (get_box w n) as [b|] eqn:E; [|split; [exact Hw|intros s0 H _; inversion H; subst; apply once_single; reflexivity]].
    destruct (get_client b s) as [c|]; [|split; [exact Hw|intros s0 H _; inversion H; subst; apply once_single; reflexivity]].
    use_flush b s (Hw _ _ E) b0 o0 Q0 Hn0.
    destruct (c_exam c).
    { cbn [fst snd]. split; [apply wQ_set; trivial|]. intros s0 H _. inversion H; subst s0. finish_once. apply notes_quiet; trivial. }
    assert (Qh : bQ (upd_client b0 s (fun c0 => set_idle c0 true))) by (apply upd_Q; [reflexivity|exact Q0]).
    destruct uset as [st|].
    + destruct (admit_set w n (upd_client b0 s (fun c0 => set_idle c0 true)) true st) as [[[b1 o1] sl]|] eqn:A.
      * destruct (admit_set_Q _ _ _ _ _ _ _ _ Qh A) as [Q1 Hn1].
        match goal with |- context [expunge b1 ?D] => unfold expunge;
          destruct (expunge_loop_Q (positions_desc D (b_msgs b1) 1 []) b1 None Q1) as [Q2 Hn2];
          destruct (expunge_loop b1 (positions_desc D (b_msgs b1) 1 []) None) as [b2 o2] end.
        cbn [fst snd] in *. split; [apply wQ_set; [exact Hw|]; apply upd_Q; [reflexivity|exact Q2]|].
        intros s0 H _. inversion H; subst s0. finish_once. repeat apply quiet_app; apply notes_quiet; trivial.
      * cbn [fst snd]. split; [apply wQ_set; [exact Hw|]; apply upd_Q; [reflexivity|exact Qh]|].
        intros s0 H _. inversion H; subst s0. finish_once. apply notes_quiet; trivial.
    + rewrite admit_is_resync. use_resync (upd_client b0 s (fun c0 => set_idle c0 true)) Qh b1 o1 Q1 Hn1.
      match goal with |- context [expunge b1 ?D] => unfold expunge;
        destruct (expunge_loop_Q (positions_desc D (b_msgs b1) 1 []) b1 None Q1) as [Q2 Hn2];
        destruct (expunge_loop b1 (positions_desc D (b_msgs b1) 1 []) None) as [b2 o2] end.
      cbn [fst snd] in *. split; [apply wQ_set; [exact Hw|]; apply upd_Q; [reflexivity|exact Q2]|].
      intros s0 H _. inversion H; subst s0. finish_once. repeat apply quiet_app; apply notes_quiet; trivial.
  - (* OCopy *)
    unfold in_mbox. destruct (sel w s) as [n|]; [|split; [exact Hw|intros s0 H _; inversion H; subst; apply once_single; reflexivity]].
    destruct (get_box w n) as [b|] eqn:E; [|split; [exact Hw|intros s0 H _; inversion H; subst; apply once_single; reflexivity]].
    use_flush b s (Hw _ _ E) b0 o0 Q0 Hn0.
    destruct (admit_set w n b0 uidc set) as [[[b1 o1] sl]|] eqn:A.
    2:{ cbn [fst snd]. split; [apply wQ_set; trivial|]. intros s0 H _. inversion H; subst s0. finish_once. apply notes_quiet; trivial. }
    destruct (admit_set_Q _ _ _ _ _ _ _ _ Q0 A) as [Q1 Hn1].
    assert (Hw1 : wQ (set_box w n b1)) by (apply wQ_set; trivial).
    destruct (copy_into (set_box w n b1) b1 sl (lower_inbox dst)) as [[[[w2 o2] src] dstu]|] eqn:C.
    2:{ cbn [fst snd]. split; [exact Hw1|]. intros s0 H _. inversion H; subst s0. finish_once. apply quiet_app; apply notes_quiet; trivial. }
    destruct (copy_into_Q _ _ _ _ _ _ _ _ Hw1 C) as [Hw2 Hn2]. cbn [fst snd]. split; [exact Hw2|].
    intros s0 H _. inversion H; subst s0. finish_once. repeat apply quiet_app; apply notes_quiet; trivial.
  - (* OMove *)
    unfold in_mbox. destruct (sel w s) as [n|]; [|split; [exact Hw|intros s0 H _; inversion H; subst; apply once_single; reflexivity]].
    destruct (get_box w n) as [b|] eqn:E; [|split; [exact Hw|intros s0 H _; inversion H; subst; apply once_single; reflexivity]].
    destruct (get_client b s) as [c|]; [|split; [exact Hw|intros s0 H _; inversion H; subst; apply once_single; reflexivity]].
    destruct (c_exam c); [split; [exact Hw|intros s0 H _; inversion H; subst; apply once_single; reflexivity]|].
    use_flush b s (Hw _ _ E) b0 o0 Q0 Hn0.
    destruct (admit_set w n b0 uidc set) as [[[b1 o1] sl]|] eqn:A.
    2:{ cbn [fst snd]. split; [apply wQ_set; trivial|]. intros s0 H _. inversion H; subst s0. finish_once. apply notes_quiet; trivial. }
    destruct (admit_set_Q _ _ _ _ _ _ _ _ Q0 A) as [Q1 Hn1].
    assert (Hw1 : wQ (set_box w n b1)) by (apply wQ_set; trivial).
    destruct (copy_into (set_box w n b1) b1 sl (lower_inbox dst)) as [[[[w2 o2] src] dstu]|] eqn:C.
    2:{ cbn [fst snd]. split; [exact Hw1|]. intros s0 H _. inversion H; subst s0. finish_once. apply quiet_app; apply notes_quiet; trivial. }
    destruct (copy_into_Q _ _ _ _ _ _ _ _ Hw1 C) as [Hw2 Hn2].
    destruct src as [|u0 src'].
    { cbn [fst snd]. split; [exact Hw2|]. intros s0 H _. inversion H; subst s0. finish_once. repeat apply quiet_app; apply notes_quiet; trivial. }
    destruct (get_box w2 n) as [sb|] eqn:E2.
    2:{ cbn [fst snd]. split; [exact Hw2|]. intros s0 H _. inversion H; subst s0. finish_once. repeat apply quiet_app; apply notes_quiet; trivial. }
    use_flush sb s (Hw2 _ _ E2) sb0 o3 Q3 Hn3. rewrite admit_is_resync.
    assert (Qh : bQ (upd_client sb0 s (fun c0 => set_idle c0 true))) by (apply upd_Q; [reflexivity|exact Q3]).
    use_resync (upd_client sb0 s (fun c0 => set_idle c0 true)) Qh sb1 o4 Q4 Hn4.
    match goal with |- context [expunge sb1 ?D] => unfold expunge;
      destruct (expunge_loop_Q (positions_desc D (b_msgs sb1) 1 []) sb1 None Q4) as [Q5 Hn5];
      destruct (expunge_loop sb1 (positions_desc D (b_msgs sb1) 1 []) None) as [sb2 o5] end.
    cbn [fst snd] in *. split; [apply wQ_set; [exact Hw2|]; apply upd_Q; [reflexivity|exact Q5]|].
    intros s0 H _. inversion H; subst s0. finish_once. repeat apply quiet_app; try (apply notes_quiet; assumption).
    apply quiet_one. reflexivity.
  - (* ODeliver *)
    split; [|intros s0 H; discriminate]. destruct (get_box w m) as [b|] eqn:E; [|exact Hw]. cbn [fst].
    apply wQ_set; [exact Hw|]. apply (same_clients_Q b); [reflexivity|apply (Hw _ _ E)].
  - (* OPoll *) split; [apply poll_Q; exact Hw|intros s0 H; discriminate].
  - (* OMkbox *)
    split; [|intros s0 H; discriminate]. destruct (get_box w m) as [b|] eqn:E; [exact Hw|]. cbn [fst].
    intros n' b' H. unfold get_box in H. cbn [w_boxes] in H. rewrite get_box_append in H.
    destruct (get_box w n') as [x|] eqn:E'; [inversion H; subst; apply (Hw _ _ E')|].
    destruct (String.eqb n' m); [inversion H; subst; intros s0 c0 []|discriminate].
  - (* ORestart *)
    split; [|intros s0 H; discriminate]. cbn [fst]. intros n' b' H. unfold get_box in H. cbn [w_boxes] in H.
    rewrite get_box_map_clients in H. destruct (alist_get (w_boxes w) n') as [b0|]; [|discriminate].
    cbn [option_map] in H. inversion H; subst b'. intros s0 c0 [].
Qed.

Lemma init_wQ a b c : wQ (init_world a b c).
Proof.
  intros n bx H. unfold get_box, init_world in H. cbn [w_boxes alist_get] in H.
  destruct (String.eqb n "inbox"); [inversion H; subst; intros s0 c0 []|discriminate].
Qed.

Theorem reachable_wQ a b c ops : wQ (fst (run (init_world a b c) ops)).
Proof.
  unfold run. rewrite run_fst. generalize (init_wQ a b c). generalize (init_world a b c).
  induction ops as [|o ops IH]; intros w Hw; cbn [fold_left]; [exact Hw|]. apply IH. apply (proj1 (step_QA w o Hw)).
Qed.

Theorem step_answers_once w o s :
  wQ w -> issuer o = Some s -> o_is_idle o = false -> answered_once s (snd (step w o)).
Proof. intros Hw. apply (proj2 (step_QA w o Hw)). Qed.
