(* Proofs/MboxStep.v — every step of Model/Mbox.v preserves the world invariant
   (FIFO/view invariant of C01 + UID order invariant of C02). *)
From Asimap Require Import Base.Res Spec.SetSem Model.Mbox Proofs.MboxInv.
From Coq Require Import Sorting.Sorted ZifyBool.
Open Scope Z_scope.

Ltac split_pair t b o :=
  let E := fresh "E" in let H := fresh "Hfst" in
  destruct t as [b o] eqn:E; assert (H : b = fst t) by (rewrite E; reflexivity); clear E.

Lemma admit_is_resync w n b : admit_cmd w n b = resync b. Proof. reflexivity. Qed.

Lemma admit_set_ok w m b uidc st b1 o1 sl :
  admit_set w m b uidc st = Ok (b1, o1, sl) -> b1 = fst (resync b).
Proof.
  unfold admit_set. destruct (resolve b uidc st); [|discriminate]. rewrite admit_is_resync.
  destruct (resync b) as [b1' o1']. destruct (resolve b1' uidc st); [|discriminate].
  intros H; inversion H; subst. reflexivity.
Qed.

Lemma gate_true b s u b0 o0 : gate b s u true = Some (b0, o0) -> b0 = fst (flush b s).
Proof.
  unfold gate. destruct (get_client b s); [|discriminate].
  destruct (pending_expunges c); [destruct u; [|discriminate]|]; intros H; inversion H as [H1]; rewrite H1; reflexivity.
Qed.
Lemma gate_any b s u fo b0 o0 : gate b s u fo = Some (b0, o0) -> b0 = fst (flush b s) \/ b0 = b.
Proof.
  unfold gate. destruct (get_client b s); [|discriminate].
  destruct (pending_expunges c); [destruct u; [|discriminate]|destruct fo];
    intros H; inversion H as [H1]; try (left; rewrite H1; reflexivity). right; reflexivity.
Qed.

Lemma flush_all_clean b s : binv b -> all_s (fun c => c_pend c = []) (fst (flush b s)) s.
Proof. intros Hb c Hin. apply (flush_clean b s c Hb Hin). Qed.

Lemma all_s_clients b b' s P : b_clients b' = b_clients b -> all_s P b s -> all_s P b' s.
Proof. unfold all_s. intros ->. trivial. Qed.

Lemma dispatch_skip_same b s rs P : all_s P b s -> all_s P (fst (dispatch b (Some s) rs)) s.
Proof.
  intros H c Hin. apply dispatch_in in Hin. destruct Hin as [c0 [Hin [->|Hc]]]; [apply H; exact Hin|].
  unfold dispatch1 in Hc. rewrite Z.eqb_refl in Hc. apply (f_equal snd) in Hc. cbn [fst snd] in Hc. subst c.
  apply H; exact Hin.
Qed.

Lemma uids_of_dispatch b d rs : uids (fst (dispatch b d rs)) = uids b.
Proof. unfold uids. destruct (dispatch_msgs b d rs) as [H _]. rewrite H. reflexivity. Qed.

Lemma dispatch_valid_inv b d rs :
  boxinv b -> Forall (valid_on (uids b)) rs -> boxinv (fst (dispatch b d rs)).
Proof.
  intros [Hb [Hs [Hf Hn]]] Hv. split.
  - unfold binv. rewrite uids_of_dispatch. apply dispatch_clients with (uids b); [exact Hb| |right; reflexivity].
    apply valid_all. exact Hv.
  - unfold uinv. rewrite uids_of_dispatch. destruct (dispatch_msgs b d rs) as [_ [H2 _]]. rewrite H2. auto.
Qed.

Lemma notes_at_valid_ms sl ms show : Forall (valid_on (map m_uid ms)) (notes_at sl ms 1 show).
Proof. apply notes_at_valid. intros i m Hi. apply nth_uids. exact Hi. Qed.

Lemma deliver_to_issuer_inv b s rs :
  boxinv b -> all_s (fun c => forallb is_neutral (c_pend c) = true) b s -> Forall (valid_on (uids b)) rs ->
  boxinv (upd_client b s (fun c => deliver c rs)).
Proof.
  intros [Hb Hu] Hn Hv. split; [|exact Hu].
  apply upd_client_binv; [exact Hb|]. intros c Hin Hc. apply cinv_deliver_neutral; trivial. apply Hn; exact Hin.
Qed.

Lemma clean_neutral b s : all_s (fun c => c_pend c = []) b s -> all_s (fun c => forallb is_neutral (c_pend c) = true) b s.
Proof. intros H c Hin. rewrite (H c Hin). reflexivity. Qed.

Lemma upd_deliver_neutral b s rs :
  all_s (fun c => forallb is_neutral (c_pend c) = true) b s ->
  all_s (fun c => forallb is_neutral (c_pend c) = true) (upd_client b s (fun c => deliver c rs)) s.
Proof.
  intros H c Hin. apply upd_client_in in Hin. destruct Hin as [c0 [Hin Hc]]. rewrite Z.eqb_refl in Hc. subst c.
  destruct (deliver_pend c0 rs) as [Hp _]. rewrite Hp. apply H; exact Hin.
Qed.

(* ---- STORE on the selected box, after the gate *)
Lemma store_box_inv b s sl f mine_uid (silent : bool) :
  boxinv b -> (forall m, m_uid (f m) = m_uid m) ->
  let b0 := fst (flush b s) in
  let b1 := fst (flush (fst (resync b0)) s) in
  let ms := map_at f sl (b_msgs b1) 1 in
  let b2 := set_msgs b1 ms in
  let b3 := fst (dispatch b2 (Some s) (notes_at sl ms 1 false)) in
  let mine := if silent then [] else notes_at sl ms 1 mine_uid in
  boxinv (upd_client b3 s (fun c => deliver c mine)).
Proof.
  intros Hb Hf b0 b1 ms b2 b3 mine.
  assert (H0 : boxinv b0) by (apply flush_inv; exact Hb).
  assert (C0 : all_s (fun c => c_pend c = []) b0 s) by (apply flush_all_clean; apply Hb).
  assert (H1 : boxinv b1) by (apply flush_inv; apply resync_inv; exact H0).
  assert (N1 : all_s (fun c => forallb is_neutral (c_pend c) = true) b1 s).
  { intros c Hin. rewrite (flush_all_clean (fst (resync b0)) s (proj1 (resync_inv b0 H0)) c Hin). reflexivity. }
  assert (Hu : map m_uid ms = uids b1) by (apply map_at_uids; exact Hf).
  assert (H2 : boxinv b2) by (apply set_msgs_same_uids; trivial).
  assert (U2 : uids b2 = map m_uid ms) by reflexivity.
  assert (H3 : boxinv b3).
  { apply dispatch_valid_inv; [exact H2|]. rewrite U2. apply notes_at_valid_ms. }
  assert (N3 : all_s (fun c => forallb is_neutral (c_pend c) = true) b3 s).
  { apply dispatch_skip_same. exact N1. }
  apply deliver_to_issuer_inv; trivial.
  unfold b3. rewrite uids_of_dispatch, U2. unfold mine. destruct silent; [constructor|apply notes_at_valid_ms].
Qed.

(* ---- FETCH on the selected box, after the gate *)
Lemma items_valid ms sl (mk : Z -> msg -> resp) :
  (forall p m, znth ms (p - 1) = Some m -> valid_on (map m_uid ms) (mk p m)) ->
  Forall (valid_on (map m_uid ms))
         (flat_map (fun p => match znth ms (p - 1) with Some m => [mk p m] | None => [] end) sl).
Proof.
  intros H. induction sl as [|p sl IH]; cbn [flat_map]; [constructor|].
  apply Forall_app; split; [|exact IH]. destruct (znth ms (p - 1)) as [m|] eqn:E; [|constructor].
  constructor; [apply H; exact E|constructor].
Qed.

Lemma fetch_box_inv b s sl k uidc (touch : msg -> msg) chg :
  boxinv b -> (forall m, m_uid (touch m) = m_uid m) ->
  let b0 := fst (flush b s) in
  let b1 := fst (flush (fst (resync b0)) s) in
  let ms := b_msgs b1 in
  let items := flat_map (fun p => match znth ms (p - 1) with
                                  | Some m => match k with
                                              | FFlags => [fetch_note p m uidc]
                                              | FBoth => [fetch_note p m uidc;
                                                          RBody p (if uidc then Some (m_uid m) else None)
                                                                (m_cid m) (m_date m) (m_uid m)]
                                              | _ => [RBody p (if uidc then Some (m_uid m) else None)
                                                            (m_cid m) (m_date m) (m_uid m)]
                                              end
                                  | None => [] end) sl in
  let b1' := upd_client b1 s (fun c => deliver c items) in
  let ms' := map_at touch chg ms 1 in
  let b2 := set_msgs b1' ms' in
  let b3 := fst (dispatch b2 None (notes_at chg ms' 1 false)) in
  boxinv (fst (flush b3 s)).
Proof.
  intros Hb Hf b0 b1 ms items b1' ms' b2 b3.
  assert (H0 : boxinv b0) by (apply flush_inv; exact Hb).
  assert (C0 : all_s (fun c => c_pend c = []) b0 s) by (apply flush_all_clean; apply Hb).
  assert (H1 : boxinv b1) by (apply flush_inv; apply resync_inv; exact H0).
  assert (N1 : all_s (fun c => forallb is_neutral (c_pend c) = true) b1 s).
  { intros c Hin. rewrite (flush_all_clean (fst (resync b0)) s (proj1 (resync_inv b0 H0)) c Hin). reflexivity. }
  assert (H1' : boxinv b1').
  { apply deliver_to_issuer_inv; trivial. unfold items, uids. fold ms.
    induction sl as [|p sl IH]; cbn [flat_map]; [constructor|].
    apply Forall_app; split; [|exact IH]. destruct (znth ms (p - 1)) as [m|] eqn:E; [|constructor].
    assert (Hz : znth (map m_uid ms) (p - 1) = Some (m_uid m)) by (rewrite znth_map, E; reflexivity).
    destruct k; repeat (constructor; [|]); try constructor; try (apply fetch_note_valid; exact Hz);
      unfold valid_on; cbn [apply_resp]; rewrite Hz, Z.eqb_refl; reflexivity. }
  assert (Hu : map m_uid ms' = uids b1') by (unfold ms'; rewrite map_at_uids by exact Hf; reflexivity).
  assert (H2 : boxinv b2) by (apply set_msgs_same_uids; trivial).
  assert (H3 : boxinv b3).
  { apply dispatch_valid_inv; [exact H2|]. change (uids b2) with (map m_uid ms'). apply notes_at_valid_ms. }
  apply flush_inv. exact H3.
Qed.

(* ---- EXPUNGE / MOVE tail on the selected box: flush, idling hack, resync, expunge, restore *)
Lemma expunge_box_inv b s del was :
  boxinv b ->
  let b0 := fst (flush b s) in
  let bh := upd_client b0 s (fun c => set_idle c true) in
  let b1 := fst (resync bh) in
  let b2 := fst (expunge b1 del) in
  boxinv (upd_client b2 s (fun c => set_idle c was)).
Proof.
  intros Hb b0 bh b1 b2.
  assert (H0 : boxinv b0) by (apply flush_inv; exact Hb).
  assert (C0 : all_s (fun c => c_pend c = []) b0 s) by (apply flush_all_clean; apply Hb).
  assert (Hh : boxinv bh).
  { destruct H0 as [B0 U0]. split; [apply set_idle_all; [exact B0|right; exact C0]|exact U0]. }
  assert (Qh : all_s quiet bh s) by (apply set_idle_true_quiet; exact C0).
  assert (H1 : boxinv b1) by (apply resync_inv; exact Hh).
  assert (Q1 : all_s quiet b1 s) by (apply resync_quiet; exact Qh).
  assert (H2 : boxinv b2) by (apply expunge_inv; exact H1).
  assert (Q2 : all_s quiet b2 s) by (apply expunge_loop_quiet; exact Q1).
  destruct H2 as [B2 U2]. split; [|exact U2]. apply set_idle_all; [exact B2|right; apply quiet_pend; exact Q2].
Qed.

(* ------------------------------------------------------------------ world level *)
Lemma get_box_append w m b n :
  alist_get (w_boxes w ++ [(m, b)]) n =
  match get_box w n with Some x => Some x | None => if String.eqb n m then Some b else None end.
Proof.
  unfold get_box. induction (w_boxes w) as [|[k v] l IH]; cbn [app alist_get]; [reflexivity|].
  destruct (String.eqb n k); [reflexivity|exact IH].
Qed.

Lemma empty_box_inv vv : boxinv {| b_msgs := []; b_next := 1; b_vv := vv; b_clients := []; b_disk := [] |}.
Proof.
  split; [constructor|]. unfold uinv, uids. cbn [b_msgs map b_next].
  split; [constructor|]. split; [constructor|lia].
Qed.

Lemma flush_sel_inv w s :
  winv w ->
  winv (fst (match sel w s with
             | Some n => match get_box w n with
                         | Some b => let '(b', o') := flush b s in (set_box w n b', o')
                         | None => (w, [])
                         end
             | None => (w, [])
             end)).
Proof.
  intros Hw. destruct (sel w s) as [n|]; [|exact Hw]. destruct (get_box w n) as [b|] eqn:E; [|exact Hw].
  split_pair (flush b s) b' o'. cbn [fst]. apply winv_set_box; [exact Hw|]. subst b'. apply flush_inv. apply (Hw n b E).
Qed.

Lemma poll_inv l : forall w o, winv w ->
  winv (fst (fold_left (fun acc (nb : string * mbox) =>
                   let '(w1, o1) := acc in
                   match get_box w1 (fst nb) with
                   | None => acc
                   | Some b => let '(b', o') := resync b in
                               let b'' := match o' with [] => maybe_pack w1 b' | _ => b' end in
                               (set_box w1 (fst nb) b'', o1 ++ o')
                   end) l (w, o))).
Proof.
  induction l as [|nb l IH]; intros w o Hw; cbn [fold_left]; [exact Hw|].
  destruct (get_box w (fst nb)) as [b|] eqn:E; [|apply IH; exact Hw].
  split_pair (resync b) b' o'. apply IH. apply winv_set_box; [exact Hw|].
  assert (boxinv b') by (subst b'; apply resync_inv; apply (Hw _ _ E)).
  destruct o'; [apply maybe_pack_inv|]; trivial.
Qed.

Lemma copy_into_inv w srcb sl dn w2 o2 src dstu :
  winv w -> copy_into w srcb sl dn = Some (w2, o2, src, dstu) -> winv w2.
Proof.
  intros Hw. unfold copy_into. destruct (get_box w dn) as [db|] eqn:E; [|discriminate].
  destruct (b_msgs srcb); [intros H; inversion H; subst; exact Hw|].
  rewrite admit_is_resync. split_pair (resync db) db1 o1.
  split_pair (resync (with_disk db1 (add_files (b_disk db1) (b_msgs db1) (msgs_at (m :: l) sl)))) db3 o3.
  intros H; inversion H; subst w2. apply winv_set_box; [exact Hw|].
  subst db3. apply resync_inv. apply with_disk_inv. subst db1. apply resync_inv. apply (Hw _ _ E).
Qed.

Lemma get_box_map_clients l n :
  alist_get (map (fun nb : string * mbox => (fst nb, set_clients (snd nb) [])) l) n =
  option_map (fun b => set_clients b []) (alist_get l n).
Proof.
  induction l as [|[k v] l IH]; cbn [map alist_get fst snd option_map]; [reflexivity|].
  destruct (String.eqb n k); [reflexivity|exact IH].
Qed.

Theorem step_inv w o : winv w -> winv (fst (step w o)).
Proof.
  intros Hw. destruct o; unfold step; cbv beta iota.
  - (* OSelect *)
    pose proof (unselect_inv w s Hw) as Hw1.
    destruct (get_box (unselect w s) (lower_inbox m)) as [b|] eqn:E; [|exact Hw1].
    rewrite admit_is_resync. split_pair (resync b) b1 o1. cbn [fst].
    apply winv_set_box; [exact Hw1|]. apply add_client_inv. subst b1. apply resync_inv. apply (Hw1 _ _ E).
  - (* OUnselect *)
    destruct (sel w s); [apply unselect_inv|]; exact Hw.
  - (* OClose *)
    apply in_mbox_inv; [exact Hw|]. intros n b E. destruct (get_client b s) as [c|]; [|exact Hw].
    assert (H0 : boxinv (set_clients b (zalist_del (b_clients b) s))) by (apply remove_client_inv; apply (Hw _ _ E)).
    destruct (c_exam c); [apply winv_set_box; trivial|].
    destruct (existsb (has_seq "Deleted") (b_msgs (set_clients b (zalist_del (b_clients b) s)))); [|apply winv_set_box; trivial].
    rewrite admit_is_resync. split_pair (resync (set_clients b (zalist_del (b_clients b) s))) b1 o1.
    split_pair (expunge b1 (has_seq "Deleted")) b2 o2. cbn [fst].
    apply winv_set_box; [exact Hw|]. subst b2. apply expunge_inv. subst b1. apply resync_inv. exact H0.
  - (* ONoop *)
    destruct (sel w s) as [n|]; [|exact Hw]. destruct (get_box w n) as [b|] eqn:E; [|exact Hw].
    rewrite admit_is_resync. split_pair (resync b) b1 o1. split_pair (flush b1 s) b2 o2. cbn [fst].
    apply winv_set_box; [exact Hw|]. subst b2. apply flush_inv. subst b1. apply resync_inv. apply (Hw _ _ E).
  - (* OCheck *)
    apply in_mbox_inv; [exact Hw|]. intros n b E.
    split_pair (flush b s) b0 o0. rewrite admit_is_resync. split_pair (resync b0) b1 o1. split_pair (flush b1 s) b2 o2.
    cbn [fst]. apply winv_set_box; [exact Hw|]. subst b2. apply flush_inv. subst b1. apply resync_inv.
    subst b0. apply flush_inv. apply (Hw _ _ E).
  - (* OIdle *)
    destruct (sel w s) as [n|]; [|exact Hw]. destruct (get_box w n) as [b|] eqn:E; [|exact Hw].
    split_pair (flush b s) b1 o1. cbn [fst]. apply winv_set_box; [exact Hw|].
    assert (Hb : boxinv b) by apply (Hw _ _ E).
    assert (H1 : boxinv b1) by (subst b1; apply flush_inv; exact Hb).
    destruct H1 as [B1 U1]. split; [|exact U1]. apply set_idle_all; [exact B1|right].
    subst b1. apply flush_all_clean. apply Hb.
  - (* ODone *)
    destruct (sel w s) as [n|]; [|exact Hw]. destruct (get_box w n) as [b|] eqn:E; [|exact Hw].
    split_pair (flush (upd_client b s (fun c => set_idle c false)) s) b1 o1. cbn [fst].
    apply winv_set_box; [exact Hw|]. subst b1. apply flush_inv.
    destruct (Hw _ _ E) as [B U]. split; [|exact U]. apply set_idle_all; [exact B|left; reflexivity].
  - (* OAppend *)
    pose proof (flush_sel_inv w s Hw) as Hw0.
    destruct (match sel w s with
              | Some n => match get_box w n with
                          | Some b => let '(b', o') := flush b s in (set_box w n b', o')
                          | None => (w, [])
                          end
              | None => (w, [])
              end) as [w0 o0]. cbn [fst] in Hw0.
    destruct (get_box w0 (lower_inbox m)) as [b|] eqn:E; [|exact Hw0].
    rewrite admit_is_resync. split_pair (resync b) b1 o1.
    assert (H1 : boxinv b1) by (subst b1; apply resync_inv; apply (Hw0 _ _ E)).
    destruct (existsb reserved_kw flags); [cbn [fst]; apply winv_set_box; trivial|].
    match goal with |- context [resync (with_disk b1 ?D)] => split_pair (resync (with_disk b1 D)) b3 o2 end.
    assert (H3 : boxinv b3) by (subst b3; apply resync_inv; apply with_disk_inv; exact H1).
    pose proof (flush_sel_inv (set_box w0 (lower_inbox m) b3) s (winv_set_box _ _ _ Hw0 H3)) as Hw2.
    destruct (match sel (set_box w0 (lower_inbox m) b3) s with
              | Some n => match get_box (set_box w0 (lower_inbox m) b3) n with
                          | Some bb => let '(b', o') := flush bb s in (set_box (set_box w0 (lower_inbox m) b3) n b', o')
                          | None => (set_box w0 (lower_inbox m) b3, [])
                          end
              | None => (set_box w0 (lower_inbox m) b3, [])
              end) as [w2 o3]. cbn [fst] in *. exact Hw2.
  - (* OStore *)
    apply in_mbox_inv; [exact Hw|]. intros n b E. destruct (get_client b s) as [c|]; [|exact Hw].
    destruct (c_exam c); [exact Hw|].
    destruct (gate b s uidc true) as [[b0 o0]|] eqn:G; [|exact Hw].
    apply gate_true in G. assert (Hb : boxinv b) by apply (Hw _ _ E).
    assert (H0 : boxinv b0) by (subst b0; apply flush_inv; exact Hb).
    destruct (admit_set w n b0 uidc set) as [[[b1a o1a] sl]|] eqn:A; [|cbn [fst]; apply winv_set_box; trivial].
    apply admit_set_ok in A. split_pair (flush b1a s) b1 o1b.
    destruct (smem "\Recent" flags || existsb reserved_kw flags).
    { cbn [fst]. apply winv_set_box; [exact Hw|]. subst b1 b1a. apply flush_inv. apply resync_inv. exact H0. }
    match goal with |- context [dispatch ?B ?D ?R] => split_pair (dispatch B D R) b3 o2 end.
    cbn [fst]. apply winv_set_box; [exact Hw|].
    subst b3 b1 b1a b0. apply store_box_inv; [exact Hb|]. intros m0. destruct act; reflexivity.
  - (* OFetch *)
    apply in_mbox_inv; [exact Hw|]. intros n b E. destruct (get_client b s) as [c|]; [|exact Hw].
    destruct (gate b s uidc true) as [[b0 o0]|] eqn:G; [|exact Hw].
    apply gate_true in G. assert (Hb : boxinv b) by apply (Hw _ _ E).
    assert (H0 : boxinv b0) by (subst b0; apply flush_inv; exact Hb).
    destruct (admit_set w n b0 uidc set) as [[[b1a o1a] sl]|] eqn:A; [|cbn [fst]; apply winv_set_box; trivial].
    apply admit_set_ok in A. split_pair (flush b1a s) b1 o1b.
    match goal with |- context [dispatch ?B ?D ?R] => split_pair (dispatch B D R) b3 o2 end.
    split_pair (flush b3 s) b4 o3. cbn [fst]. apply winv_set_box; [exact Hw|].
    subst b4 b3 b1 b1a b0. apply fetch_box_inv; [exact Hb|]. intros m0. destruct k; reflexivity.
  - (* OSearch *)
    apply in_mbox_inv; [exact Hw|]. intros n b E.
    destruct (gate b s uidc true) as [[b0 o0]|] eqn:G; [|exact Hw].
    rewrite admit_is_resync. split_pair (resync b0) b1a o1a. split_pair (flush b1a s) b1 o1b. cbn [fst].
    apply winv_set_box; [exact Hw|]. subst b1 b1a. apply flush_inv. apply resync_inv.
    apply gate_any in G. destruct G as [->| ->]; [apply flush_inv|]; apply (Hw _ _ E).
  - (* OExpunge *)
    apply in_mbox_inv; [exact Hw|]. intros n b E. destruct (get_client b s) as [c|]; [|exact Hw].
    assert (Hb : boxinv b) by apply (Hw _ _ E).
    split_pair (flush b s) b0 o0.
    assert (H0 : boxinv b0) by (subst b0; apply flush_inv; exact Hb).
    assert (C0 : all_s (fun c => c_pend c = []) b0 s) by (subst b0; apply flush_all_clean; apply Hb).
    destruct (c_exam c); [cbn [fst]; apply winv_set_box; trivial|].
    destruct uset as [st|].
    + destruct (admit_set w n (upd_client b0 s (fun c0 => set_idle c0 true)) true st) as [[[b1 o1] sl]|] eqn:A.
      * apply admit_set_ok in A.
        match goal with |- context [expunge b1 ?D] => split_pair (expunge b1 D) b2 o2 end.
        cbn [fst]. apply winv_set_box; [exact Hw|]. subst b2 b1 b0. apply expunge_box_inv. exact Hb.
      * cbn [fst]. apply winv_set_box; [exact Hw|].
        assert (Hh : boxinv (upd_client b0 s (fun c0 => set_idle c0 true))).
        { destruct H0 as [B0 U0]. split; [apply set_idle_all; [exact B0|right; exact C0]|exact U0]. }
        destruct Hh as [Bh Uh]. split; [|exact Uh].
        apply set_idle_all; [exact Bh|right]. apply quiet_pend. apply set_idle_true_quiet. exact C0.
    + rewrite admit_is_resync.
      split_pair (resync (upd_client b0 s (fun c0 => set_idle c0 true))) b1 o1.
      match goal with |- context [expunge b1 ?D] => split_pair (expunge b1 D) b2 o2 end.
      cbn [fst]. apply winv_set_box; [exact Hw|]. subst b2 b1 b0. apply expunge_box_inv. exact Hb.
  - (* OCopy *)
    apply in_mbox_inv; [exact Hw|]. intros n b E.
    split_pair (flush b s) b0 o0.
    assert (H0 : boxinv b0) by (subst b0; apply flush_inv; apply (Hw _ _ E)).
    destruct (admit_set w n b0 uidc set) as [[[b1 o1] sl]|] eqn:A; [|cbn [fst]; apply winv_set_box; trivial].
    apply admit_set_ok in A.
    assert (Hw1 : winv (set_box w n b1)) by (apply winv_set_box; [exact Hw|subst b1; apply resync_inv; exact H0]).
    destruct (copy_into (set_box w n b1) b1 sl (lower_inbox dst)) as [[[[w2 o2] src] dstu]|] eqn:C; [|exact Hw1].
    cbn [fst]. apply (copy_into_inv _ _ _ _ _ _ _ _ Hw1 C).
  - (* OMove *)
    apply in_mbox_inv; [exact Hw|]. intros n b E. destruct (get_client b s) as [c|]; [|exact Hw].
    destruct (c_exam c); [exact Hw|].
    split_pair (flush b s) b0 o0.
    assert (H0 : boxinv b0) by (subst b0; apply flush_inv; apply (Hw _ _ E)).
    destruct (admit_set w n b0 uidc set) as [[[b1 o1] sl]|] eqn:A; [|cbn [fst]; apply winv_set_box; trivial].
    apply admit_set_ok in A.
    assert (Hw1 : winv (set_box w n b1)) by (apply winv_set_box; [exact Hw|subst b1; apply resync_inv; exact H0]).
    destruct (copy_into (set_box w n b1) b1 sl (lower_inbox dst)) as [[[[w2 o2] src] dstu]|] eqn:C; [|exact Hw1].
    pose proof (copy_into_inv _ _ _ _ _ _ _ _ Hw1 C) as Hw2.
    destruct src as [|u0 src']; [exact Hw2|].
    destruct (get_box w2 n) as [sb|] eqn:E2; [|exact Hw2].
    split_pair (flush sb s) sb0 o3. rewrite admit_is_resync.
    split_pair (resync (upd_client sb0 s (fun c0 => set_idle c0 true))) sb1 o4.
    match goal with |- context [expunge sb1 ?D] => split_pair (expunge sb1 D) sb2 o5 end.
    cbn [fst]. apply winv_set_box; [exact Hw2|]. subst sb2 sb1 sb0. apply expunge_box_inv. apply (Hw2 _ _ E2).
  - (* ODeliver *)
    destruct (get_box w m) as [b|] eqn:E; [|exact Hw]. cbn [fst].
    apply winv_set_box; [exact Hw|]. apply with_disk_inv. apply (Hw _ _ E).
  - (* OPoll *)
    apply poll_inv. exact Hw.
  - (* OMkbox *)
    destruct (get_box w m) as [b|] eqn:E; [exact Hw|]. cbn [fst].
    intros n' b' H. unfold get_box in H. cbn [w_boxes] in H. rewrite get_box_append in H.
    destruct (get_box w n') as [x|] eqn:E'; [inversion H; subst; apply (Hw _ _ E')|].
    destruct (String.eqb n' m); [inversion H; subst; apply empty_box_inv|discriminate].
  - (* ORestart *)
    cbn [fst]. intros n' b' H. unfold get_box in H. cbn [w_boxes] in H. rewrite get_box_map_clients in H.
    destruct (alist_get (w_boxes w) n') as [b0|] eqn:E; [|discriminate]. cbn [option_map] in H. inversion H; subst b'.
    destruct (Hw n' b0 E) as [_ Hu]. split; [constructor|exact Hu].
Qed.

Lemma init_inv a b c : winv (init_world a b c).
Proof.
  intros n bx H. unfold get_box, init_world in H. cbn [w_boxes alist_get] in H.
  destruct (String.eqb n "inbox"); [inversion H; subst; apply empty_box_inv|discriminate].
Qed.

Lemma run_fst w ops : forall acc, fst (fold_left (fun acc o => let '(w1, outs) := acc in let '(w2, o2) := step w1 o in (w2, outs ++ [o2])) ops (w, acc))
                           = fold_left (fun w o => fst (step w o)) ops w.
Proof.
  revert w; induction ops as [|o ops IH]; intros w acc; cbn [fold_left]; [reflexivity|].
  destruct (step w o) as [w2 o2] eqn:E. rewrite IH. cbn [fst]. reflexivity.
Qed.

Theorem run_inv ops : forall w, winv w -> winv (fst (run w ops)).
Proof.
  intros w Hw. unfold run. rewrite run_fst. revert w Hw.
  induction ops as [|o ops IH]; intros w Hw; cbn [fold_left]; [exact Hw|].
  apply IH. apply step_inv. exact Hw.
Qed.

Theorem reachable_inv a b c ops : winv (fst (run (init_world a b c) ops)).
Proof. apply run_inv. apply init_inv. Qed.

(* ------------------------------------------------------------------ consequences used by C01 *)
(* after the gate and the resync of a FETCH/STORE/SEARCH the issuer's replayed view IS the server's
   list: the sequence numbers the command is about to accept denote the same UIDs on both sides *)
Lemma synced_after_admit b s :
  boxinv b ->
  let b1 := fst (resync (fst (flush b s))) in
  all_s (fun c => c_view c = uids b1) b1 s.
Proof.
  intros Hb b1 c Hin.
  assert (H0 : boxinv (fst (flush b s))) by (apply flush_inv; exact Hb).
  assert (C0 : all_s (fun c => c_pend c = []) (fst (flush b s)) s) by (apply flush_all_clean; apply Hb).
  assert (H1 : boxinv b1) by (apply resync_inv; exact H0).
  pose proof (resync_neutral _ s C0 c Hin) as Hn.
  destruct (binv_in b1 s c (proj1 H1) Hin) as [_ [Ha _]].
  symmetry. apply neutral_view with (c_pend c); trivial.
Qed.

(* after NOOP / CHECK / DONE / IDLE (anything ending in a flush) view = server list, queue empty *)
Lemma synced_after_flush b s :
  boxinv b -> all_s (fun c => c_pend c = [] /\ c_view c = uids (fst (flush b s))) (fst (flush b s)) s.
Proof.
  intros Hb c Hin. destruct (flush_clean b s c (proj1 Hb) Hin) as [H1 H2]. split; [exact H1|].
  rewrite H2. unfold uids. destruct (flush_msgs b s) as [M _]. rewrite M. reflexivity.
Qed.

Lemma reachable_binv ps pn pd ops n b :
  get_box (fst (run (init_world ps pn pd) ops)) n = Some b ->
  Forall (fun p => c_ok (snd p) = true /\
                   apply_resps (c_view (snd p)) (c_pend (snd p)) = Some (uids b) /\
                   (c_idle (snd p) = true -> c_pend (snd p) = [])) (b_clients b).
Proof. intros H. exact (proj1 (reachable_inv ps pn pd ops n b H)). Qed.
