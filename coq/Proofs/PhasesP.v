(* Proofs/PhasesP.v — the two-step model of FETCH/STORE/SEARCH (Model/Phases.v): the structural invariant of
   Proofs/MboxInv.v (every session's replayed view is legal; what it has been sent plus what is queued for it is
   the server's list) survives every interleaving of arrivals, executions and whole commands, and a non-UID
   FETCH/STORE/SEARCH is never sent an EXPUNGE - whatever happened between its arrival and its execution. *)
From Asimap Require Import Base.Res Spec.SetSem Model.Mbox Model.Phases Proofs.MboxInv Proofs.MboxStep Proofs.MboxOut.
Open Scope Z_scope.

Ltac split_pair t a b := destruct t as [a b] eqn:?E; match goal with H : t = (a, b) |- _ => apply (f_equal fst) in H; cbn [fst] in H; symmetry in H end.

(* ---- box level: the body of STORE / FETCH after (resync; flush), from ANY mailbox satisfying the invariant *)
Lemma store_exec_box_inv b0 s sl f mine_uid (silent : bool) :
  boxinv b0 -> (forall m, m_uid (f m) = m_uid m) ->
  let b1 := fst (flush (fst (resync b0)) s) in
  let ms := map_at f sl (b_msgs b1) 1 in
  let b2 := set_msgs b1 ms in
  let b3 := fst (dispatch b2 (Some s) (notes_at sl ms 1 false)) in
  let mine := if silent then [] else notes_at sl ms 1 mine_uid in
  boxinv (upd_client b3 s (fun c => deliver c mine)).
Proof.
  intros H0 Hf b1 ms b2 b3 mine.
  assert (H1 : boxinv b1) by (apply flush_inv; apply resync_inv; exact H0).
  assert (N1 : all_s (fun c => forallb is_neutral (c_pend c) = true) b1 s).
  { intros c Hin. rewrite (flush_all_clean (fst (resync b0)) s (proj1 (resync_inv b0 H0)) c Hin). reflexivity. }
  assert (Hu : map m_uid ms = uids b1) by (apply map_at_uids; exact Hf).
  assert (H2 : boxinv b2) by (apply set_msgs_same_uids; trivial).
  assert (U2 : uids b2 = map m_uid ms) by reflexivity.
  assert (H3 : boxinv b3).
  { apply dispatch_valid_inv; [exact H2|]. rewrite U2. apply notes_at_valid_ms. }
  assert (N3 : all_s (fun c => forallb is_neutral (c_pend c) = true) b3 s).
  { apply dispatch_skip_same. exact N1. }
  apply deliver_to_issuer_inv; trivial.
  unfold b3. rewrite uids_of_dispatch, U2. unfold mine. destruct silent; [constructor|apply notes_at_valid_ms].
Qed.

Lemma fetch_exec_box_inv b0 s sl k uidc (exam : bool) :
  boxinv b0 ->
  let b1 := fst (flush (fst (resync b0)) s) in
  let ms := b_msgs b1 in
  let items := fetch_items ms sl k uidc in
  let b1' := upd_client b1 s (fun c => deliver c items) in
  let chg := if exam then [] else filter (fetch_changed ms k) sl in
  let ms' := map_at (fetch_touch k) chg ms 1 in
  let b2 := set_msgs b1' ms' in
  let b3 := fst (dispatch b2 None (notes_at chg ms' 1 false)) in
  boxinv (fst (flush b3 s)).
Proof.
  intros H0 b1 ms items b1' chg ms' b2 b3.
  assert (H1 : boxinv b1) by (apply flush_inv; apply resync_inv; exact H0).
  assert (N1 : all_s (fun c => forallb is_neutral (c_pend c) = true) b1 s).
  { intros c Hin. rewrite (flush_all_clean (fst (resync b0)) s (proj1 (resync_inv b0 H0)) c Hin). reflexivity. }
  assert (H1' : boxinv b1').
  { apply deliver_to_issuer_inv; trivial. unfold items, fetch_items, uids. fold ms.
    induction sl as [|p sl IH]; cbn [flat_map]; [constructor|].
    apply Forall_app; split; [|exact IH]. destruct (znth ms (p - 1)) as [m|] eqn:E; [|constructor].
    assert (Hz : znth (map m_uid ms) (p - 1) = Some (m_uid m)) by (rewrite znth_map, E; reflexivity).
    destruct k; repeat (constructor; [|]); try constructor; try (apply fetch_note_valid; exact Hz);
      unfold valid_on; cbn [apply_resp]; rewrite Hz, Z.eqb_refl; reflexivity. }
  assert (Hf : forall m, m_uid (fetch_touch k m) = m_uid m) by (intros m; destruct k; reflexivity).
  assert (Hu : map m_uid ms' = uids b1') by (unfold ms'; rewrite map_at_uids by exact Hf; reflexivity).
  assert (H2 : boxinv b2) by (apply set_msgs_same_uids; trivial).
  assert (H3 : boxinv b3).
  { apply dispatch_valid_inv; [exact H2|]. change (uids b2) with (map m_uid ms'). apply notes_at_valid_ms. }
  apply flush_inv. exact H3.
Qed.

Lemma gate_inv b s u b0 o0 : boxinv b -> gate b s u true = Some (b0, o0) -> boxinv b0.
Proof. intros Hb G. apply gate_true in G. subst b0. apply flush_inv. exact Hb. Qed.

(* ---- the invariant survives both halves *)
Theorem arrive_inv w s c : winv w -> winv (fst (fst (arrive w s c))).
Proof.
  intros Hw. unfold arrive. destruct (sel w s) as [n|]; [|exact Hw].
  destruct (get_box w n) as [b|] eqn:E; [|exact Hw]. destruct (get_client b s) as [cl|]; [|exact Hw].
  destruct (match c with PStore _ _ _ _ _ => c_exam cl | _ => false end); [exact Hw|].
  destruct (gate b s (p_uid c) true) as [[b0 o0]|] eqn:G; [|exact Hw]. cbn [fst].
  apply winv_set_box; [exact Hw|]. apply (gate_inv _ _ _ _ _ (Hw _ _ E) G).
Qed.

Theorem execute_inv w s c : winv w -> winv (fst (execute w s c)).
Proof.
  intros Hw. unfold execute, execute_gen. apply in_mbox_inv; [exact Hw|]. intros n b E.
  assert (Hb : boxinv b) by apply (Hw _ _ E).
  destruct (get_client b s) as [cl|]; [|exact Hw]. cbv zeta.
  destruct c as [u st act silent flags|u st k|u flag].
  - (* STORE *)
    destruct (admit_set w n b u st) as [[[b1a o1a] sl]|] eqn:A.
    + apply admit_set_ok in A. assert (H1a : boxinv b1a) by (subst b1a; apply resync_inv; exact Hb).
      cbn [p_uid]. destruct (gate b1a s u true) as [[b1 o1b]|] eqn:G; [|cbn [fst]; apply winv_set_box; trivial].
      apply gate_true in G. unfold store_body.
      destruct (smem "\Recent" flags || existsb reserved_kw flags).
      { cbn [fst]. apply winv_set_box; [exact Hw|]. subst b1. apply flush_inv. exact H1a. }
      match goal with |- context [dispatch ?B ?D ?R] => split_pair (dispatch B D R) b3 o2 end.
      cbn [fst]. apply winv_set_box; [exact Hw|].
      subst b3 b1 b1a. apply store_exec_box_inv; [exact Hb|]. intros m0. destruct act; reflexivity.
    + cbn [p_uid]. destruct (gate b s u true) as [[b0 o0]|] eqn:G; [|exact Hw]. cbn [fst].
      apply winv_set_box; [exact Hw|]. apply (gate_inv _ _ _ _ _ Hb G).
  - (* FETCH *)
    destruct (admit_set w n b u st) as [[[b1a o1a] sl]|] eqn:A.
    + apply admit_set_ok in A. assert (H1a : boxinv b1a) by (subst b1a; apply resync_inv; exact Hb).
      cbn [p_uid]. destruct (gate b1a s u true) as [[b1 o1b]|] eqn:G; [|cbn [fst]; apply winv_set_box; trivial].
      apply gate_true in G. unfold fetch_body.
      match goal with |- context [dispatch ?B ?D ?R] => split_pair (dispatch B D R) b3 o2 end.
      split_pair (flush b3 s) b4 o3. cbn [fst]. apply winv_set_box; [exact Hw|].
      subst b4 b3 b1 b1a. apply fetch_exec_box_inv. exact Hb.
    + cbn [p_uid]. destruct (gate b s u true) as [[b0 o0]|] eqn:G; [|exact Hw]. cbn [fst].
      apply winv_set_box; [exact Hw|]. apply (gate_inv _ _ _ _ _ Hb G).
  - (* SEARCH *)
    rewrite admit_is_resync. split_pair (resync b) b1a o1a.
    assert (H1a : boxinv b1a) by (subst b1a; apply resync_inv; exact Hb).
    cbn [p_uid]. destruct (gate b1a s u true) as [[b1 o1b]|] eqn:G; [|cbn [fst]; apply winv_set_box; trivial].
    unfold search_body. cbn [fst]. apply winv_set_box; [exact Hw|]. apply (gate_inv _ _ _ _ _ H1a G).
Qed.

Theorem ev_step_inv w e : winv w -> winv (fst (ev_step w e)).
Proof.
  intros Hw. destruct e as [o|s c|s c]; cbn [ev_step].
  - apply step_inv; exact Hw.
  - pose proof (arrive_inv w s c Hw) as H. destruct (arrive w s c) as [[w' o] go]. exact H.
  - apply execute_inv; exact Hw.
Qed.

Lemma ev_run_fst w es : forall acc,
  fst (fold_left (fun acc e => let '(w1, outs) := acc in let '(w2, o) := ev_step w1 e in (w2, outs ++ [o])) es (w, acc))
  = fold_left (fun w e => fst (ev_step w e)) es w.
Proof.
  revert w; induction es as [|e es IH]; intros w acc; cbn [fold_left]; [reflexivity|].
  destruct (ev_step w e) as [w2 o2] eqn:E. rewrite IH. cbn [fst]. reflexivity.
Qed.

(* every world reachable by ANY interleaving of whole commands, arrivals and executions satisfies the invariant *)
Theorem ev_run_inv es : forall w, winv w -> winv (fst (ev_run w es)).
Proof.
  intros w Hw. unfold ev_run. rewrite ev_run_fst. revert w Hw.
  induction es as [|e es IH]; intros w Hw; cbn [fold_left]; [exact Hw|].
  apply IH. apply ev_step_inv. exact Hw.
Qed.
Theorem ev_reachable_inv a b c es : winv (fst (ev_run (init_world a b c) es)).
Proof. apply ev_run_inv. apply init_inv. Qed.

(* ---- no EXPUNGE inside a non-UID FETCH/STORE/SEARCH, whatever happened since it arrived *)
Lemma gate_out_clean b s b0 o0 : gate b s false true = Some (b0, o0) -> clean_for s o0.
Proof. apply gate_seq_clean. Qed.

Lemma gate_clean_queue b s b0 o0 : binv b -> gate b s false true = Some (b0, o0) -> all_s (fun c => c_pend c = []) b0 s.
Proof. intros Hb G. apply gate_true in G. subst b0. apply flush_all_clean. exact Hb. Qed.

Theorem arrive_clean w s c : p_uid c = false -> clean_for s (snd (fst (arrive w s c))).
Proof.
  intros Hu. unfold arrive. destruct (sel w s) as [n|]; [|apply clean_one; reflexivity].
  destruct (get_box w n) as [b|]; [|apply clean_one; reflexivity].
  destruct (get_client b s) as [cl|]; [|apply clean_one; reflexivity].
  destruct (match c with PStore _ _ _ _ _ => c_exam cl | _ => false end); [apply clean_one; reflexivity|].
  rewrite Hu. destruct (gate b s false true) as [[b0 o0]|] eqn:G; [|apply clean_one; reflexivity].
  cbn [fst snd]. apply (gate_out_clean _ _ _ _ G).
Qed.

Theorem execute_clean w s c : winv w -> p_uid c = false -> clean_for s (snd (execute w s c)).
Proof.
  intros Hw Hu. unfold execute, execute_gen, in_mbox. destruct (sel w s) as [n|]; [|apply clean_one; reflexivity].
  destruct (get_box w n) as [b|] eqn:Eb; [|apply clean_one; reflexivity].
  assert (Hb : boxinv b) by apply (Hw _ _ Eb).
  destruct (get_client b s) as [cl|]; [|apply clean_one; reflexivity]. cbv zeta. rewrite Hu.
  destruct c as [u st act silent flags|u st k|u flag]; cbn [p_uid] in Hu; subst u.
  - (* STORE *)
    destruct (admit_set w n b false st) as [[[b1a o1a] sl]|] eqn:A.
    + pose proof (admit_set_out _ _ _ _ _ _ _ _ s A) as C1. apply admit_set_ok in A.
      assert (H1a : boxinv b1a) by (subst b1a; apply resync_inv; exact Hb).
      destruct (gate b1a s false true) as [[b1 o1b]|] eqn:G;
        [|cbn [snd]; apply clean_app; [exact C1|apply clean_one; reflexivity]].
      pose proof (gate_out_clean _ _ _ _ G) as C1b. unfold store_body.
      destruct (smem "\Recent" flags || existsb reserved_kw flags).
      { cbn [snd]. repeat apply clean_app; trivial. apply clean_one; reflexivity. }
      match goal with |- context [dispatch ?B ?D ?R] => destruct (dispatch B D R) as [b3 o2] eqn:Ed end.
      cbn [snd]. repeat apply clean_app; trivial.
      * intros r Hin. match type of Ed with dispatch ?B ?D ?R = _ =>
          replace o2 with (snd (dispatch B D R)) in Hin by (rewrite Ed; reflexivity) end.
        apply dispatch_out in Hin. apply neutral_not_expunge. apply notes_at_neutral_in in Hin. exact Hin.
      * apply clean_tag. intros r Hin. destruct silent; [destruct Hin|].
        apply neutral_not_expunge. apply notes_at_neutral_in in Hin. exact Hin.
      * apply clean_one; reflexivity.
    + destruct (gate b s false true) as [[b0 o0]|] eqn:G; [|apply clean_one; reflexivity].
      cbn [snd]. apply clean_app; [apply (gate_out_clean _ _ _ _ G)|apply clean_one; reflexivity].
  - (* FETCH *)
    destruct (admit_set w n b false st) as [[[b1a o1a] sl]|] eqn:A.
    + pose proof (admit_set_out _ _ _ _ _ _ _ _ s A) as C1. apply admit_set_ok in A.
      assert (H1a : boxinv b1a) by (subst b1a; apply resync_inv; exact Hb).
      destruct (gate b1a s false true) as [[b1 o1b]|] eqn:G;
        [|cbn [snd]; apply clean_app; [exact C1|apply clean_one; reflexivity]].
      pose proof (gate_out_clean _ _ _ _ G) as C1b.
      pose proof (gate_clean_queue _ _ _ _ (proj1 H1a) G) as Q1. unfold fetch_body.
      match goal with |- context [dispatch ?B ?D ?R] => destruct (dispatch B D R) as [b3 o2] eqn:Ed end.
      destruct (flush b3 s) as [b4 o3] eqn:Ef. cbn [snd].
      assert (N1 : all_s (fun c => forallb is_neutral (c_pend c) = true) b1 s) by (apply clean_neutral; exact Q1).
      repeat apply clean_app; trivial.
      * apply clean_tag. intros r Hin. unfold fetch_items in Hin. apply in_flat_map in Hin. destruct Hin as [p [_ Hin]].
        destruct (znth (b_msgs b1) (p - 1)); [|destruct Hin].
        destruct k; repeat (destruct Hin as [<-|Hin]; [reflexivity|]); destruct Hin.
      * intros r Hin. match type of Ed with dispatch ?B ?D ?R = _ =>
          replace o2 with (snd (dispatch B D R)) in Hin by (rewrite Ed; reflexivity) end.
        apply dispatch_out in Hin. apply neutral_not_expunge. apply notes_at_neutral_in in Hin. exact Hin.
      * intros r Hin. replace o3 with (snd (flush b3 s)) in Hin by (rewrite Ef; reflexivity).
        apply flush_out in Hin. destruct Hin as [c3 [G3 Hin]]. apply get_client_in in G3.
        apply neutral_not_expunge.
        assert (N3 : all_s (fun c => forallb is_neutral (c_pend c) = true) b3 s).
        { match type of Ed with dispatch ?B ?D ?R = _ => replace b3 with (fst (dispatch B D R)) by (rewrite Ed; reflexivity) end.
          apply dispatch_neutral; [|apply fetch_notes_neutral_at].
          eapply all_s_clients; [|apply upd_deliver_neutral; exact N1]. reflexivity. }
        specialize (N3 _ G3). cbv beta in N3. rewrite forallb_forall in N3. apply N3. exact Hin.
      * apply clean_one; reflexivity.
    + destruct (gate b s false true) as [[b0 o0]|] eqn:G; [|apply clean_one; reflexivity].
      cbn [snd]. apply clean_app; [apply (gate_out_clean _ _ _ _ G)|apply clean_one; reflexivity].
  - (* SEARCH *)
    rewrite admit_is_resync. destruct (resync b) as [b1a o1a] eqn:E.
    destruct (gate b1a s false true) as [[b1 o1b]|] eqn:G.
    + unfold search_body. cbn [snd]. repeat apply clean_app.
      * replace o1a with (snd (resync b)) by (rewrite E; reflexivity). apply resync_out.
      * apply (gate_out_clean _ _ _ _ G).
      * intros r [H|[H|[]]]; inversion H; subst; reflexivity.
    + cbn [snd]. apply clean_app; [|apply clean_one; reflexivity].
      replace o1a with (snd (resync b)) by (rewrite E; reflexivity). apply resync_out.
Qed.

(* in every world reachable by any interleaving, both halves of a non-UID FETCH/STORE/SEARCH are sent no EXPUNGE *)
Theorem no_expunge_in_any_interleaving a b c es s cmd :
  p_uid cmd = false ->
  let w := fst (ev_run (init_world a b c) es) in
  clean_for s (snd (ev_step w (EArrive s cmd))) /\ clean_for s (snd (ev_step w (EExecute s cmd))).
Proof.
  intros Hu w. split.
  - cbn [ev_step]. pose proof (arrive_clean w s cmd Hu) as H. destruct (arrive w s cmd) as [[w' o] go]. exact H.
  - cbn [ev_step]. apply execute_clean; [apply ev_reachable_inv|exact Hu].
Qed.

(* ---- the executing command's numbers are resolved against the list its client has been told about *)
Theorem execute_synced b s u b1 o1 :
  boxinv b -> gate (fst (resync b)) s u true = Some (b1, o1) -> all_s (fun c => c_view c = uids b1) b1 s.
Proof.
  intros Hb G. apply gate_true in G. subst b1. intros c Hin.
  exact (proj2 (synced_after_flush (fst (resync b)) s (resync_inv b Hb) c Hin)).
Qed.

(* ---- the history that made the second gate necessary, on the model.  A and B have INBOX (3 messages) selected; A's
   non-UID `FETCH 2 (FLAGS)` arrives; before it is let through B marks message 2 \Deleted and expunges it. *)
Definition ex_setup : list op :=
  [OAppend 1 "inbox" [] 0 1; OAppend 1 "inbox" [] 0 2; OAppend 1 "inbox" [] 0 3; OSelect 1 "inbox" false; OSelect 2 "inbox" false].
Definition ex_cmd : pcmd := PFetch false [ENum 2] FFlags.
Definition ex_world : world :=
  let w1 := fst (run (init_world 1000 4 5) ex_setup) in
  let w2 := fst (fst (arrive w1 1 ex_cmd)) in
  fst (run w2 [OStore 2 false [ENum 2] Add true ["\Deleted"%string]; OExpunge 2 None]).
Definition views (w : world) : list (Z * bool * list Z) :=
  match get_box w "inbox" with Some b => map (fun p => (fst p, c_ok (snd p), c_view (snd p))) (b_clients b) | None => [] end.

(* with the gate repeated after admission the command is refused and A's view stays legal *)
Example gated_refuses :
  snd (execute ex_world 1 ex_cmd) = [(1, RNo)] /\ views (fst (execute ex_world 1 ex_cmd)) = [(1, true, [1; 2; 3]); (2, true, [1; 3])].
Proof. vm_compute. split; reflexivity. Qed.

(* without it (the code before 1902352) A is sent "* 2 FETCH" for the message with UID 3 while position 2 of the list
   it knows is UID 2, and an EXPUNGE in the middle of its non-UID FETCH: its replayed view is no longer legal *)
Example ungated_desynchronises :
  exists r g, In (1, RFetch 2 r None g) (snd (execute_gen false ex_world 1 ex_cmd)) /\ g = 3 /\
              In (1, RExpunge 2) (snd (execute_gen false ex_world 1 ex_cmd)) /\
              existsb (fun v => negb (snd (fst v))) (views (fst (execute_gen false ex_world 1 ex_cmd))) = true.
Proof. exists ["unseen"%string; "\Recent"%string], 3. vm_compute. repeat split; auto. Qed.
