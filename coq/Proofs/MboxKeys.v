(* Proofs/MboxKeys.v — in every reachable world of Model/Mbox.v the MH message numbers (keys) of every
   mailbox are positive and strictly ascending: first the messages the server knows, in list order, then
   the files it has not taken in yet.  (The hypothesis of C13_mh_tool_reads_world_flags; what `pack`,
   deliveries, COPY/APPEND and EXPUNGE do to the numbers.)  Same skeleton as Proofs/MboxFlags.v. *)
From Asimap Require Import Base.Res Spec.SetSem Model.Mbox Proofs.MboxInv Proofs.MboxStep Proofs.MboxLe Proofs.MboxExact Proofs.MboxUid.
From Coq Require Import Sorting.Sorted Lia ZArith List Bool.
Local Open Scope string_scope.
Local Open Scope Z_scope.
Local Open Scope list_scope.

Definition keys (l : list msg) : list Z := map m_key l.
Definition SK (ks : list Z) : Prop := StronglySorted Z.lt ks /\ Forall (fun k => 0 < k) ks.
Definition kP (b : mbox) : Prop := SK (keys (b_msgs b ++ b_disk b)).
Definition wK (w : world) : Prop := forall n b, get_box w n = Some b -> kP b.

Lemma kP_same b b' : b_msgs b' = b_msgs b -> b_disk b' = b_disk b -> kP b -> kP b'.
Proof. unfold kP. intros -> ->. trivial. Qed.
Lemma kP_empty b : b_msgs b = [] -> b_disk b = [] -> kP b.
Proof. unfold kP. intros -> ->. split; constructor. Qed.

Lemma keys_app a b : keys (a ++ b) = keys a ++ keys b.
Proof. unfold keys. apply map_app. Qed.
Lemma keys_assign l : forall u, keys (assign_uids l u) = keys l.
Proof. induction l as [|m l IH]; intros u; cbn [assign_uids keys map]; [reflexivity|]. f_equal. apply IH. Qed.
Lemma sort_sorted l : StronglySorted Z.lt (keys l) -> sort_by_key l = l.
Proof.
  induction l as [|x l IH]; intros H; [reflexivity|]. cbn [keys map] in H. inversion H as [|? ? Hs Hx]; subst.
  unfold sort_by_key in *. cbn [fold_right]. rewrite (IH Hs). destruct l as [|y l']; [reflexivity|].
  cbn [insert_by_key]. cbn [map] in Hx. pose proof (Forall_inv Hx) as Hxy. cbn in Hxy.
  destruct (Z.ltb_spec (m_key x) (m_key y)); [reflexivity|lia].
Qed.
Lemma sorted_app_r (a b : list Z) : StronglySorted Z.lt (a ++ b) -> StronglySorted Z.lt b.
Proof. induction a as [|x a IH]; cbn [app]; intros H; [exact H|]. inversion H; subst. apply IH. assumption. Qed.
Lemma renumber_SK l : forall k, StronglySorted Z.lt (keys (renumber l k)) /\ Forall (fun x => k <= x) (keys (renumber l k)).
Proof.
  induction l as [|m l IH]; intros k; cbn [renumber keys map]; [split; constructor|].
  destruct (IH (k + 1)) as [Hs Hf]. fold (keys (renumber l (k + 1))). split.
  - constructor; [exact Hs|]. eapply Forall_impl; [|exact Hf]. intros a Ha. cbn [m_key]. cbv beta in Ha. lia.
  - constructor; [cbn [m_key]; lia|]. eapply Forall_impl; [|exact Hf]. intros a Ha. cbv beta in *. lia.
Qed.
Lemma filed_SK fs : forall k, StronglySorted Z.lt (keys (filed fs k)) /\ Forall (fun x => k <= x) (keys (filed fs k)).
Proof.
  induction fs as [|m l IH]; intros k; cbn [filed keys map]; [split; constructor|].
  destruct (IH (k + 1)) as [Hs Hf]. fold (keys (filed l (k + 1))). split.
  - constructor; [exact Hs|]. eapply Forall_impl; [|exact Hf]. intros a Ha. cbn [m_key]. cbv beta in Ha. lia.
  - constructor; [cbn [m_key]; lia|]. eapply Forall_impl; [|exact Hf]. intros a Ha. cbv beta in *. lia.
Qed.
Lemma SK_app a b : SK a -> SK b -> (forall x y, In x a -> In y b -> x < y) -> SK (a ++ b).
Proof.
  intros [Sa Pa] [Sb Pb] H. split; [apply sorted_app; assumption|apply Forall_app; split; assumption].
Qed.
Lemma SK_filter_prefix f a d : SK (keys (a ++ d)) -> SK (keys (filter f a ++ d)).
Proof.
  induction a as [|x a IH]; cbn [filter app]; intros H; [exact H|].
  destruct H as [Hs Hp]. cbn [keys map] in Hs, Hp. inversion Hs as [|? ? Hs' Hx]; subst. inversion Hp as [|? ? Hx0 Hp']; subst.
  assert (Hrec : SK (keys (filter f a ++ d))) by (apply IH; split; assumption).
  destruct (f x); [|exact Hrec]. cbn [app keys map]. destruct Hrec as [Hs2 Hp2]. split; constructor; trivial.
  apply Forall_forall. intros k Hk. rewrite Forall_forall in Hx. apply Hx.
  unfold keys in *. rewrite map_app in *. apply in_app_iff in Hk. apply in_app_iff. destruct Hk as [Hk|Hk]; [left|right; exact Hk].
  apply in_map_iff in Hk as [m [<- Hm]]. apply filter_In in Hm as [Hm _]. apply in_map. exact Hm.
Qed.
Lemma keys_map_at f sl l : forall pos, (forall m, m_key (f m) = m_key m) -> keys (map_at f sl l pos) = keys l.
Proof.
  induction l as [|m l IH]; intros pos Hf; cbn [map_at keys map]; [reflexivity|]. f_equal; [destruct (zmem pos sl); [apply Hf|reflexivity]|].
  apply IH. exact Hf.
Qed.

(* ------------------------------------------------------------------ box level *)
Lemma resync_disk_nil b : b_disk (fst (resync b)) = [].
Proof.
  destruct (b_disk b) as [|d0 dl] eqn:E; [rewrite resync_nodisk by exact E; exact E|].
  destruct (resync_shape b) as [_ [_ [_ S4]]]; [congruence|exact S4].
Qed.
Lemma resync_kP b : kP b -> kP (fst (resync b)).
Proof.
  intros H. destruct (b_disk b) as [|d0 dl] eqn:E.
  - rewrite resync_nodisk by exact E. exact H.
  - destruct (resync_shape b) as [S1 [_ [_ S4]]]; [congruence|]. unfold kP in *. rewrite S1, S4, app_nil_r.
    unfold fresh_of. rewrite keys_app, keys_assign. rewrite keys_app in H.
    rewrite sort_sorted; [exact H|]. destruct H as [Hs _]. exact (sorted_app_r _ _ Hs).
Qed.
Lemma flush_kP b s : kP b -> kP (fst (flush b s)).
Proof. destruct (flush_msgs b s) as [A [_ [_ D]]]. apply kP_same; trivial. Qed.
Lemma dispatch_kP b d rs : kP b -> kP (fst (dispatch b d rs)).
Proof. destruct (dispatch_msgs b d rs) as [A [_ [_ D]]]. apply kP_same; trivial. Qed.
Lemma upd_kP b s f : kP b -> kP (upd_client b s f). Proof. apply kP_same; reflexivity. Qed.
Lemma setc_kP b cs : kP b -> kP (set_clients b cs). Proof. apply kP_same; reflexivity. Qed.
Lemma expunge_kP b del : kP b -> kP (fst (expunge b del)).
Proof.
  intros H. unfold kP. rewrite expunge_exact. unfold expunge.
  destruct (expunge_loop_rest (positions_desc del (b_msgs b) 1 []) b None) as [_ [_ D]]. rewrite D.
  apply SK_filter_prefix. exact H.
Qed.
Lemma max_key_nonneg l : 0 <= max_key l.
Proof. unfold max_key. apply max_key_ge. Qed.
Lemma with_disk_kP b fs : kP b -> kP (with_disk b (add_files (b_disk b) (b_msgs b) fs)).
Proof.
  intros H. unfold kP in *. cbn [with_disk b_disk b_msgs]. rewrite add_files_spec, app_assoc, keys_app.
  set (K := Z.max (max_key (b_disk b)) (max_key (b_msgs b)) + 1).
  destruct (filed_SK fs K) as [Hs Hf].
  assert (HK : 0 < K) by (unfold K; pose proof (max_key_nonneg (b_disk b)); lia).
  apply SK_app; [exact H| |].
  - split; [exact Hs|]. eapply Forall_impl; [|exact Hf]. intros a Ha. cbv beta in Ha. lia.
  - intros x y Hx Hy. rewrite Forall_forall in Hf. specialize (Hf y Hy). cbv beta in Hf.
    unfold keys in Hx. apply in_map_iff in Hx as [m [<- Hm]]. apply in_app_iff in Hm.
    assert (m_key m <= Z.max (max_key (b_disk b)) (max_key (b_msgs b))).
    { destruct Hm as [Hm|Hm]; apply max_key_in in Hm; lia. }
    unfold K in Hf. lia.
Qed.
Lemma set_msgs_kP b ms : keys ms = keys (b_msgs b) -> kP b -> kP (set_msgs b ms).
Proof. unfold kP. cbn [set_msgs b_msgs b_disk]. rewrite !keys_app. intros ->. trivial. Qed.
Lemma maybe_pack_kP w b : b_disk b = [] -> kP b -> kP (maybe_pack w b).
Proof.
  intros Hd H. unfold maybe_pack. destruct (should_pack w b); [|exact H].
  unfold kP. cbn [set_msgs b_msgs b_disk]. rewrite Hd, app_nil_r.
  destruct (renumber_SK (b_msgs b) 1) as [Hs Hf]. split; [exact Hs|].
  eapply Forall_impl; [|exact Hf]. intros a Ha. cbv beta in Ha. lia.
Qed.

(* ------------------------------------------------------------------ world level *)
Lemma wK_set_box w n b : wK w -> kP b -> wK (set_box w n b).
Proof.
  intros Hw Hb n' b' H. rewrite get_set_box in H. destruct (String.eqb n' n); [inversion H; subst; exact Hb|apply (Hw _ _ H)].
Qed.
Lemma unselect_wK w s : wK w -> wK (unselect w s).
Proof.
  intros Hw. unfold unselect. destruct (sel w s) as [n|]; [|exact Hw]. destruct (get_box w n) as [b|] eqn:E; [|exact Hw].
  apply wK_set_box; [exact Hw|apply setc_kP; apply (Hw _ _ E)].
Qed.
Lemma in_mbox_wK w s k : wK w -> (forall n b, get_box w n = Some b -> wK (fst (k n b))) -> wK (fst (in_mbox w s k)).
Proof.
  intros Hw Hk. unfold in_mbox. destruct (sel w s) as [n|]; [|exact Hw]. destruct (get_box w n) as [b|] eqn:E; [|exact Hw]. apply Hk; exact E.
Qed.
Lemma flush_sel_wK w s :
  wK w ->
  wK (fst (match sel w s with
           | Some n => match get_box w n with
                       | Some b => let '(b', o') := flush b s in (set_box w n b', o')
                       | None => (w, [])
                       end
           | None => (w, [])
           end)).
Proof.
  intros Hw. destruct (sel w s) as [n|]; [|exact Hw]. destruct (get_box w n) as [b|] eqn:E; [|exact Hw].
  split_pair (flush b s) b' o'. cbn [fst]. apply wK_set_box; [exact Hw|]. subst b'. apply flush_kP. apply (Hw _ _ E).
Qed.
Lemma poll_wK l : forall w o, wK w ->
  wK (fst (fold_left (fun acc (nb : string * mbox) =>
                   let '(w1, o1) := acc in
                   match get_box w1 (fst nb) with
                   | None => acc
                   | Some b => let '(b', o') := resync b in
                               let b'' := match o' with [] => maybe_pack w1 b' | _ => b' end in
                               (set_box w1 (fst nb) b'', (o1 ++ o')%list)
                   end) l (w, o))).
Proof.
  induction l as [|nb l IH]; intros w o Hw; cbn [fold_left]; [exact Hw|].
  destruct (get_box w (fst nb)) as [b|] eqn:E; [|apply IH; exact Hw].
  split_pair (resync b) b' o'. apply IH. apply wK_set_box; [exact Hw|].
  assert (kP b') by (subst b'; apply resync_kP; apply (Hw _ _ E)).
  destruct o'; [apply maybe_pack_kP; [subst b'; apply resync_disk_nil|]|]; trivial.
Qed.
Lemma copy_into_wK w srcb sl dn w2 o2 src dstu :
  wK w -> copy_into w srcb sl dn = Some (w2, o2, src, dstu) -> wK w2.
Proof.
  intros Hw. unfold copy_into. destruct (get_box w dn) as [db|] eqn:E; [|discriminate].
  destruct (b_msgs srcb) eqn:Em; [intros H; inversion H; subst; exact Hw|].
  rewrite admit_is_resync. split_pair (resync db) db1 o1.
  split_pair (resync (with_disk db1 (add_files (b_disk db1) (b_msgs db1) (msgs_at (m :: l) sl)))) db3 o3.
  intros H; inversion H; subst w2. apply wK_set_box; [exact Hw|].
  subst db3. apply resync_kP. apply with_disk_kP. subst db1; apply resync_kP; apply (Hw _ _ E).
Qed.

Theorem step_wK w o : wK w -> wK (fst (step w o)).
Proof.
  intros Hw. destruct o; unfold step; cbv beta iota.
  - pose proof (unselect_wK w s Hw) as Hw1.
    destruct (get_box (unselect w s) (lower_inbox m)) as [b|] eqn:E; [|exact Hw1].
    rewrite admit_is_resync. split_pair (resync b) b1 o1. cbn [fst].
    apply wK_set_box; [exact Hw1|]. apply setc_kP. subst b1. apply resync_kP. apply (Hw1 _ _ E).
  - destruct (sel w s); [apply unselect_wK|]; exact Hw.
  - apply in_mbox_wK; [exact Hw|]. intros n b E. destruct (get_client b s) as [c|]; [|exact Hw].
    assert (H0 : kP (set_clients b (zalist_del (b_clients b) s))) by (apply setc_kP; apply (Hw _ _ E)).
    destruct (c_exam c); [apply wK_set_box; trivial|].
    destruct (existsb (has_seq "Deleted") (b_msgs (set_clients b (zalist_del (b_clients b) s)))); [|apply wK_set_box; trivial].
    rewrite admit_is_resync. split_pair (resync (set_clients b (zalist_del (b_clients b) s))) b1 o1.
    split_pair (expunge b1 (has_seq "Deleted")) b2 o2. cbn [fst].
    apply wK_set_box; [exact Hw|]. subst b2. apply expunge_kP. subst b1. apply resync_kP. exact H0.
  - destruct (sel w s) as [n|]; [|exact Hw]. destruct (get_box w n) as [b|] eqn:E; [|exact Hw].
    rewrite admit_is_resync. split_pair (resync b) b1 o1. split_pair (flush b1 s) b2 o2. cbn [fst].
    apply wK_set_box; [exact Hw|]. subst b2. apply flush_kP. subst b1. apply resync_kP. apply (Hw _ _ E).
  - apply in_mbox_wK; [exact Hw|]. intros n b E.
    split_pair (flush b s) b0 o0. rewrite admit_is_resync. split_pair (resync b0) b1 o1. split_pair (flush b1 s) b2 o2.
    cbn [fst]. apply wK_set_box; [exact Hw|]. subst b2. apply flush_kP. subst b1. apply resync_kP. subst b0. apply flush_kP. apply (Hw _ _ E).
  - destruct (sel w s) as [n|]; [|exact Hw]. destruct (get_box w n) as [b|] eqn:E; [|exact Hw].
    split_pair (flush b s) b1 o1. cbn [fst]. apply wK_set_box; [exact Hw|]. apply upd_kP. subst b1. apply flush_kP. apply (Hw _ _ E).
  - destruct (sel w s) as [n|]; [|exact Hw]. destruct (get_box w n) as [b|] eqn:E; [|exact Hw].
    split_pair (flush (upd_client b s (fun c => set_idle c false)) s) b1 o1. cbn [fst].
    apply wK_set_box; [exact Hw|]. subst b1. apply flush_kP. apply upd_kP. apply (Hw _ _ E).
  - (* OAppend *)
    pose proof (flush_sel_wK w s Hw) as Hw0.
    destruct (match sel w s with
              | Some n => match get_box w n with
                          | Some b => let '(b', o') := flush b s in (set_box w n b', o')
                          | None => (w, [])
                          end
              | None => (w, [])
              end) as [w0 o0]. cbn [fst] in Hw0.
    destruct (get_box w0 (lower_inbox m)) as [b|] eqn:E; [|exact Hw0].
    rewrite admit_is_resync. split_pair (resync b) b1 o1.
    assert (H1 : kP b1) by (subst b1; apply resync_kP; apply (Hw0 _ _ E)).
    destruct (existsb reserved_kw flags) eqn:Er; [cbn [fst]; apply wK_set_box; trivial|].
    match goal with |- context [resync (with_disk b1 ?D)] => split_pair (resync (with_disk b1 D)) b3 o2 end.
    assert (H3 : kP b3).
    { subst b3. apply resync_kP. apply with_disk_kP. exact H1. }
    pose proof (flush_sel_wK (set_box w0 (lower_inbox m) b3) s (wK_set_box _ _ _ Hw0 H3)) as Hw2.
    destruct (match sel (set_box w0 (lower_inbox m) b3) s with
              | Some n => match get_box (set_box w0 (lower_inbox m) b3) n with
                          | Some bb => let '(b', o') := flush bb s in (set_box (set_box w0 (lower_inbox m) b3) n b', o')
                          | None => (set_box w0 (lower_inbox m) b3, [])
                          end
              | None => (set_box w0 (lower_inbox m) b3, [])
              end) as [w2 o3]. cbn [fst] in *. exact Hw2.
  - (* OStore *)
    apply in_mbox_wK; [exact Hw|]. intros n b E. destruct (get_client b s) as [c|]; [|exact Hw].
    destruct (c_exam c); [exact Hw|].
    destruct (gate b s uidc true) as [[b0 o0]|] eqn:G; [|exact Hw].
    apply gate_true in G. assert (H0 : kP b0) by (subst b0; apply flush_kP; apply (Hw _ _ E)).
    destruct (admit_set w n b0 uidc set) as [[[b1a o1a] sl]|] eqn:A; [|cbn [fst]; apply wK_set_box; trivial].
    apply admit_set_ok in A. split_pair (flush b1a s) b1 o1b.
    assert (H1 : kP b1) by (subst b1 b1a; apply flush_kP; apply resync_kP; exact H0).
    destruct (smem "\Recent" flags || existsb reserved_kw flags) eqn:Er; [cbn [fst]; apply wK_set_box; trivial|].
    apply orb_false_elim in Er. destruct Er as [_ Er].
    match goal with |- context [dispatch ?B ?D ?R] => split_pair (dispatch B D R) b3 o2 end.
    cbn [fst]. apply wK_set_box; [exact Hw|]. apply upd_kP. subst b3. apply dispatch_kP.
    apply set_msgs_kP; [|exact H1]. apply keys_map_at. intros m0. reflexivity.
  - (* OFetch *)
    apply in_mbox_wK; [exact Hw|]. intros n b E. destruct (get_client b s) as [c|]; [|exact Hw].
    destruct (gate b s uidc true) as [[b0 o0]|] eqn:G; [|exact Hw].
    apply gate_true in G. assert (H0 : kP b0) by (subst b0; apply flush_kP; apply (Hw _ _ E)).
    destruct (admit_set w n b0 uidc set) as [[[b1a o1a] sl]|] eqn:A; [|cbn [fst]; apply wK_set_box; trivial].
    apply admit_set_ok in A. split_pair (flush b1a s) b1 o1b.
    assert (H1 : kP b1) by (subst b1 b1a; apply flush_kP; apply resync_kP; exact H0).
    match goal with |- context [dispatch ?B ?D ?R] => split_pair (dispatch B D R) b3 o2 end.
    split_pair (flush b3 s) b4 o3. cbn [fst]. apply wK_set_box; [exact Hw|].
    subst b4. apply flush_kP. subst b3. apply dispatch_kP.
    apply set_msgs_kP; [|apply upd_kP; exact H1]. cbn [upd_client set_clients b_msgs]. apply keys_map_at. intros m0. destruct k; reflexivity.
  - (* OSearch *)
    apply in_mbox_wK; [exact Hw|]. intros n b E.
    destruct (gate b s uidc true) as [[b0 o0]|] eqn:G; [|exact Hw].
    rewrite admit_is_resync. split_pair (resync b0) b1a o1a. split_pair (flush b1a s) b1 o1b. cbn [fst].
    apply wK_set_box; [exact Hw|]. subst b1 b1a. apply flush_kP. apply resync_kP.
    apply gate_any in G. destruct G as [->| ->]; [apply flush_kP|]; apply (Hw _ _ E).
  - (* OExpunge *)
    apply in_mbox_wK; [exact Hw|]. intros n b E. destruct (get_client b s) as [c|]; [|exact Hw].
    split_pair (flush b s) b0 o0. assert (H0 : kP b0) by (subst b0; apply flush_kP; apply (Hw _ _ E)).
    destruct (c_exam c); [cbn [fst]; apply wK_set_box; trivial|].
    destruct uset as [st|].
    + destruct (admit_set w n (upd_client b0 s (fun c0 => set_idle c0 true)) true st) as [[[b1 o1] sl]|] eqn:A.
      * apply admit_set_ok in A.
        match goal with |- context [expunge b1 ?D] => split_pair (expunge b1 D) b2 o2 end.
        cbn [fst]. apply wK_set_box; [exact Hw|]. apply upd_kP. subst b2. apply expunge_kP. subst b1. apply resync_kP. apply upd_kP. exact H0.
      * cbn [fst]. apply wK_set_box; [exact Hw|]. apply upd_kP. apply upd_kP. exact H0.
    + rewrite admit_is_resync.
      split_pair (resync (upd_client b0 s (fun c0 => set_idle c0 true))) b1 o1.
      match goal with |- context [expunge b1 ?D] => split_pair (expunge b1 D) b2 o2 end.
      cbn [fst]. apply wK_set_box; [exact Hw|]. apply upd_kP. subst b2. apply expunge_kP. subst b1. apply resync_kP. apply upd_kP. exact H0.
  - (* OCopy *)
    apply in_mbox_wK; [exact Hw|]. intros n b E.
    split_pair (flush b s) b0 o0. assert (H0 : kP b0) by (subst b0; apply flush_kP; apply (Hw _ _ E)).
    destruct (admit_set w n b0 uidc set) as [[[b1 o1] sl]|] eqn:A; [|cbn [fst]; apply wK_set_box; trivial].
    apply admit_set_ok in A. assert (H1 : kP b1) by (subst b1; apply resync_kP; exact H0).
    assert (Hw1 : wK (set_box w n b1)) by (apply wK_set_box; trivial).
    destruct (copy_into (set_box w n b1) b1 sl (lower_inbox dst)) as [[[[w2 o2] src] dstu]|] eqn:C; [|exact Hw1].
    cbn [fst]. apply (copy_into_wK _ _ _ _ _ _ _ _ Hw1 C).
  - (* OMove *)
    apply in_mbox_wK; [exact Hw|]. intros n b E. destruct (get_client b s) as [c|]; [|exact Hw].
    destruct (c_exam c); [exact Hw|].
    split_pair (flush b s) b0 o0. assert (H0 : kP b0) by (subst b0; apply flush_kP; apply (Hw _ _ E)).
    destruct (admit_set w n b0 uidc set) as [[[b1 o1] sl]|] eqn:A; [|cbn [fst]; apply wK_set_box; trivial].
    apply admit_set_ok in A. assert (H1 : kP b1) by (subst b1; apply resync_kP; exact H0).
    assert (Hw1 : wK (set_box w n b1)) by (apply wK_set_box; trivial).
    destruct (copy_into (set_box w n b1) b1 sl (lower_inbox dst)) as [[[[w2 o2] src] dstu]|] eqn:C; [|exact Hw1].
    pose proof (copy_into_wK _ _ _ _ _ _ _ _ Hw1 C) as Hw2.
    destruct src as [|u0 src']; [exact Hw2|].
    destruct (get_box w2 n) as [sb|] eqn:E2; [|exact Hw2].
    split_pair (flush sb s) sb0 o3. rewrite admit_is_resync.
    split_pair (resync (upd_client sb0 s (fun c0 => set_idle c0 true))) sb1 o4.
    match goal with |- context [expunge sb1 ?D] => split_pair (expunge sb1 D) sb2 o5 end.
    cbn [fst]. apply wK_set_box; [exact Hw2|]. apply upd_kP. subst sb2. apply expunge_kP. subst sb1. apply resync_kP.
    apply upd_kP. subst sb0. apply flush_kP. apply (Hw2 _ _ E2).
  - (* ODeliver *)
    destruct (get_box w m) as [b|] eqn:E; [|exact Hw]. cbn [fst].
    apply wK_set_box; [exact Hw|]. apply with_disk_kP. apply (Hw _ _ E).
  - apply poll_wK. exact Hw.
  - (* OMkbox *)
    destruct (get_box w m) as [b|] eqn:E; [exact Hw|]. cbn [fst].
    intros n' b' H. unfold get_box in H. cbn [w_boxes] in H. rewrite get_box_append in H.
    destruct (get_box w n') as [x|] eqn:E'; [inversion H; subst; apply (Hw _ _ E')|].
    destruct (String.eqb n' m); [inversion H; subst; apply kP_empty; reflexivity|discriminate].
  - (* ORestart *)
    cbn [fst]. intros n' b' H. unfold get_box in H. cbn [w_boxes] in H. rewrite get_box_map_clients in H.
    destruct (alist_get (w_boxes w) n') as [b0|] eqn:E; [|discriminate]. cbn [option_map] in H. inversion H; subst b'.
    apply setc_kP. apply (Hw n' b0 E).
Qed.

Lemma init_wK a b c : wK (init_world a b c).
Proof.
  intros n bx H. unfold get_box, init_world in H. cbn [w_boxes alist_get] in H.
  destruct (String.eqb n "inbox"); [inversion H; subst; apply kP_empty; reflexivity|discriminate].
Qed.

Theorem reachable_wK a b c ops : wK (fst (run (init_world a b c) ops)).
Proof.
  unfold run. rewrite run_fst. generalize (init_wK a b c). generalize (init_world a b c).
  induction ops as [|o ops IH]; intros w Hw; cbn [fold_left]; [exact Hw|]. apply IH. apply step_wK. exact Hw.
Qed.

(* the form the MH-sequences theorems want: the keys of the known messages alone *)
Theorem reachable_keys_ascending a b c ops n bx :
  get_box (fst (run (init_world a b c) ops)) n = Some bx ->
  StronglySorted Z.lt (map m_key (b_msgs bx)) /\ Forall (fun k => 0 <= k) (map m_key (b_msgs bx)).
Proof.
  intros H. pose proof (reachable_wK a b c ops n bx H) as [Hs Hp]. rewrite keys_app in Hs, Hp. split.
  - clear Hp. revert Hs. generalize (keys (b_disk bx)). unfold keys. induction (map m_key (b_msgs bx)) as [|x l IH]; intros d Hs; [constructor|].
    cbn [app] in Hs. inversion Hs as [|? ? Hs' Hx]; subst. constructor; [exact (IH d Hs')|].
    apply Forall_app in Hx. apply Hx.
  - apply Forall_app in Hp. destruct Hp as [Hp _]. eapply Forall_impl; [|exact Hp]. intros k Hk. cbv beta in Hk. lia.
Qed.
