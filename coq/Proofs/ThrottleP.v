(* Proofs/ThrottleP.v — the generated throttle (Gen/Throttle.v, from asimap/throttle.py)
   composed as do_login composes it refines the reference of Spec/RefThrottle.v. *)
From Asimap Require Import Base.Res Gen.Throttle Spec.RefThrottle Model.ThrottleM.
From Coq Require Import ZifyBool.
Open Scope Z_scope.

(* ---- bridge: the constants and the shape of the two generated functions ---- *)
Lemma purge_time_is_interval : PURGE_TIME = interval.  Proof. reflexivity. Qed.
Lemma user_limit : MAX_USER_ATTEMPTS = user_threshold. Proof. reflexivity. Qed.
Lemma addr_limit : MAX_ADDR_ATTEMPTS = addr_threshold. Proof. reflexivity. Qed.

Definition purge (d : tdict) (now : Z) (k : string) : tdict :=
  if dict_mem d k && (now - snd (dict_get (0, 0) d k) >? interval) then dict_del d k else d.
Definition record (d : tdict) (now : Z) (k : string) : tdict :=
  if dict_mem d k then dict_set d k (fst (dict_get (0, 0) d k) + 1, now) else dict_set d k (1, now).
Definition over (d : tdict) (k : string) (thr : Z) : bool :=
  dict_mem d k && (fst (dict_get (0, 0) d k) >? thr).

Lemma check_allow_shape now U A u a :
  check_allow now U A u a =
  let U' := purge U now u in let A' := purge A now a in
  Ok (U', A',
      if negb (dict_mem U' u) && negb (dict_mem A' a) then true
      else if over U' u user_threshold then false
      else if over A' a addr_threshold then false else true).
Proof.
  unfold check_allow, purge, over. rewrite purge_time_is_interval, user_limit, addr_limit.
  cbv zeta.
  destruct (negb (dict_mem _ u) && negb (dict_mem _ a)); [reflexivity|].
  destruct (dict_mem _ u && (_ >? user_threshold)); [reflexivity|].
  destruct (dict_mem _ a && (_ >? addr_threshold)); reflexivity.
Qed.

Lemma login_failed_shape now U A u a :
  login_failed now U A u a = Ok (record U now u, record A now a).
Proof. unfold login_failed, record. cbv zeta. destruct (dict_mem U u), (dict_mem A a); reflexivity. Qed.

(* ---- the invariant tying a table to the recorded-failure history of every key ---- *)
Definition lookup (d : tdict) (k : string) : option (Z * Z) :=
  if dict_mem d k then Some (dict_get (0, 0) d k) else None.

Definition key_ok (e : option (Z * Z)) (h : list Z) (last : Z) : Prop :=
  match e with
  | Some (c, t) => exists h', h = t :: h' /\ c = chain h /\ t <= last
  | None => match h with [] => True | t :: _ => interval < last - t end
  end.
Definition dict_ok (d : tdict) (h : hist) (last : Z) : Prop := forall k, key_ok (lookup d k) (h k) last.

Lemma key_ok_later e h last now : key_ok e h last -> last <= now -> key_ok e h now.
Proof.
  destruct e as [[c t]|]; cbn [key_ok].
  - intros [h' [E [Ec Ht]]] Hle; exists h'; repeat split; [exact E|exact Ec|lia].
  - destruct h as [|t h']; [trivial|lia].
Qed.

Lemma chain_cons t t' h : chain (t :: t' :: h) = if t - t' <=? interval then 1 + chain (t' :: h) else 1.
Proof. reflexivity. Qed.
Lemma chain_one t : chain [t] = 1.
Proof. reflexivity. Qed.

Lemma chain_pos h : h <> [] -> 1 <= chain h.
Proof.
  induction h as [|t h IH]; [congruence|intros _].
  cbn [chain]. destruct h as [|t' h']; [lia|].
  destruct (t - t' <=? interval); [|lia].
  assert (1 <= chain (t' :: h')) by (apply IH; congruence). lia.
Qed.

Lemma lookup_del d k k' : lookup (dict_del d k) k' = if String.eqb k' k then None else lookup d k'.
Proof.
  unfold lookup. rewrite dict_mem_del. destruct (String.eqb k' k) eqn:E; [reflexivity|].
  rewrite (dict_get_del _ _ _ _ E). reflexivity.
Qed.
Lemma lookup_set d k v k' : lookup (dict_set d k v) k' = if String.eqb k' k then Some v else lookup d k'.
Proof.
  unfold lookup. rewrite dict_mem_set, dict_get_set. destruct (String.eqb k' k); reflexivity.
Qed.

(* after the purge of key k at time now: the table still matches the histories,
   the entry of k (if any) is fresh, and "over the threshold" is the reference's test *)
Lemma purge_ok d h last now k thr :
  dict_ok d h last -> last <= now -> 0 <= thr ->
  dict_ok (purge d now k) h now /\
  (forall c t, lookup (purge d now k) k = Some (c, t) -> now - t <= interval) /\
  over (purge d now k) k thr = (eff (h k) now >? thr).
Proof.
  intros Hok Hle Hthr.
  assert (Hk := Hok k). unfold lookup in Hk.
  unfold purge, over.
  destruct (dict_mem d k) eqn:Hm; cbn [andb].
  - destruct (dict_get (0, 0) d k) as [c t] eqn:Hg. cbn [snd key_ok] in *.
    destruct Hk as [h' [Eh [Ec Ht]]].
    destruct (now - t >? interval) eqn:Hst.
    + (* stale: purged *)
      split; [|split].
      * intros k'. rewrite lookup_del. destruct (String.eqb k' k) eqn:E.
        -- apply String.eqb_eq in E; subst k'. rewrite Eh. cbn [key_ok]. lia.
        -- apply key_ok_later with last; [apply Hok|exact Hle].
      * intros c0 t0. rewrite lookup_del, String.eqb_refl. discriminate.
      * rewrite dict_mem_del, String.eqb_refl. cbn [andb].
        rewrite Eh. cbn [eff]. destruct (now - t <=? interval) eqn:E2; [lia|]. lia.
    + split; [|split].
      * intros k'. apply key_ok_later with last; [apply Hok|exact Hle].
      * intros c0 t0. unfold lookup. rewrite Hm, Hg. intros H; inversion H; subst. lia.
      * rewrite Hm, Hg. cbn [andb fst]. rewrite Eh. cbn [eff].
        destruct (now - t <=? interval) eqn:E2; [|lia]. rewrite <- Eh, <- Ec. reflexivity.
  - split; [|split].
    + intros k'. apply key_ok_later with last; [apply Hok|exact Hle].
    + intros c0 t0. unfold lookup. rewrite Hm. discriminate.
    + rewrite Hm. cbn [andb key_ok] in *.
      destruct (h k) as [|t h'] eqn:Eh; cbn [eff]; [lia|].
      destruct (now - t <=? interval) eqn:E2; [lia|lia].
Qed.

(* purging another key keeps freshness facts about k *)
Lemma record_ok d h now k :
  dict_ok d h now ->
  (forall c t, lookup d k = Some (c, t) -> now - t <= interval) ->
  dict_ok (record d now k) (hupd h k now) now.
Proof.
  intros Hok Hfresh k'. unfold record, hupd.
  assert (Hk := Hok k). unfold lookup in Hk, Hfresh.
  destruct (dict_mem d k) eqn:Hm; rewrite lookup_set; destruct (String.eqb k' k) eqn:E;
    try (apply Hok).
  - destruct (dict_get (0, 0) d k) as [c t] eqn:Hg. cbn [fst key_ok] in *.
    destruct Hk as [h' [Eh [Ec Ht]]].
    exists (h k). split; [reflexivity|]. split; [|lia].
    rewrite Eh, chain_cons. specialize (Hfresh c t eq_refl).
    destruct (now - t <=? interval) eqn:E2; [|lia]. rewrite <- Eh, <- Ec. lia.
  - cbn [key_ok] in *. exists (h k). split; [reflexivity|]. split; [|lia].
    destruct (h k) as [|t h'] eqn:Eh; [reflexivity|]. rewrite chain_cons.
    destruct (now - t <=? interval) eqn:E2; [lia|reflexivity].
Qed.

Definition st_ok (st : tstate) (hs : hist * hist) (last : Z) : Prop :=
  dict_ok (fst st) (fst hs) last /\ dict_ok (snd st) (snd hs) last.

Lemma decision_bool (mu ma ou oa : bool) :
  (ou = true -> mu = true) -> (oa = true -> ma = true) ->
  (if negb mu && negb ma then true else if ou then false else if oa then false else true) = negb (ou || oa).
Proof. destruct mu, ma, ou, oa; cbn; intros H1 H2; try reflexivity; try (specialize (H1 eq_refl); discriminate); try (specialize (H2 eq_refl); discriminate). Qed.

(* one step of do_login refines one step of the reference *)
Lemma step_refines st hs last a :
  st_ok st hs last -> last <= a_time a ->
  exists st', model_step st a = Ok (st', snd (ref_step hs a)) /\ st_ok st' (fst (ref_step hs a)) (a_time a).
Proof.
  destruct st as [U A], hs as [hu ha]. intros [HU HA] Hle. cbn [fst snd] in *.
  unfold model_step. rewrite check_allow_shape. cbv zeta.
  destruct (purge_ok U hu last (a_time a) (a_user a) user_threshold HU Hle ltac:(unfold user_threshold; lia))
    as [HU1 [FU OU]].
  destruct (purge_ok A ha last (a_time a) (a_addr a) addr_threshold HA Hle ltac:(unfold addr_threshold; lia))
    as [HA1 [FA OA]].
  rewrite decision_bool.
  2:{ unfold over. intros H; apply andb_prop in H; tauto. }
  2:{ unfold over. intros H; apply andb_prop in H; tauto. }
  rewrite OU, OA. unfold ref_step. fold (refused hu ha a).
  change ((eff (hu (a_user a)) (a_time a) >? user_threshold) || (eff (ha (a_addr a)) (a_time a) >? addr_threshold))
    with (refused hu ha a).
  destruct (refused hu ha a); cbn [negb].
  - eexists; split; [reflexivity|]. split; assumption.
  - destruct (a_pwok a).
    + eexists; split; [reflexivity|]. split; assumption.
    + rewrite login_failed_shape. eexists; split; [reflexivity|].
      split; cbn [fst snd]; apply record_ok; assumption.
Qed.

Theorem run_refines l : forall st hs last,
  st_ok st hs last -> monotone last l -> model_run st l = Ok (ref_run hs l).
Proof.
  induction l as [|a l IH]; intros st hs last Hok Hm; cbn [model_run ref_run]; [reflexivity|].
  destruct Hm as [Hle Hm].
  destruct (step_refines st hs last a Hok Hle) as [st' [Hs Hok']].
  rewrite Hs. destruct (ref_step hs a) as [hs' v] eqn:Er. cbn [fst snd] in *.
  rewrite (IH st' hs' (a_time a) Hok' Hm). reflexivity.
Qed.

Lemma init_ok last : st_ok model_init ref_init last.
Proof. split; intros k; cbn; trivial. Qed.

Theorem throttle_refines l last : monotone last l -> model_run model_init l = Ok (ref_run ref_init l).
Proof. intros Hm. apply run_refines with last; [apply init_ok|exact Hm]. Qed.

(* ---- what the reference says, in the words of the property ---- *)
Lemma ref_lockout hs a :
  (user_threshold < eff (fst hs (a_user a)) (a_time a) \/ addr_threshold < eff (snd hs (a_addr a)) (a_time a)) ->
  snd (ref_step hs a) = Throttled.
Proof.
  destruct hs as [hu ha]; cbn [fst snd]. intros H. unfold ref_step, refused.
  destruct ((eff (hu (a_user a)) (a_time a) >? user_threshold) || (eff (ha (a_addr a)) (a_time a) >? addr_threshold)) eqn:E;
    [reflexivity|lia].
Qed.

Lemma ref_no_false_lockout hs a :
  eff (fst hs (a_user a)) (a_time a) <= user_threshold -> eff (snd hs (a_addr a)) (a_time a) <= addr_threshold ->
  snd (ref_step hs a) = (if a_pwok a then Granted else Denied).
Proof.
  destruct hs as [hu ha]; cbn [fst snd]. intros H1 H2. unfold ref_step, refused.
  destruct ((eff (hu (a_user a)) (a_time a) >? user_threshold) || (eff (ha (a_addr a)) (a_time a) >? addr_threshold)) eqn:E;
    [lia|]. destruct (a_pwok a); reflexivity.
Qed.

(* a wrong password never authenticates, whatever the history *)
Lemma ref_wrong_password_never_granted hs a : a_pwok a = false -> snd (ref_step hs a) <> Granted.
Proof.
  destruct hs as [hu ha]. intros H. unfold ref_step. destruct (refused hu ha a); cbn [snd]; [discriminate|].
  rewrite H. cbn [snd]. discriminate.
Qed.

(* once the interval has passed since the last recorded failure the key no longer counts *)
Lemma eff_expires h now t h' : h = t :: h' -> interval < now - t -> eff h now = 0.
Proof. intros -> H. cbn [eff]. destruct (now - t <=? interval) eqn:E; [lia|reflexivity]. Qed.
