(* Proofs/CodecP.v — expand (compact l) = l for every strictly ascending list (C12, C02). *)
From Asimap Require Import Base.Res Model.Codec.
From Coq Require Import Sorting.Sorted.
Open Scope Z_scope.

Lemma py_range_snoc a b : a <= b -> py_range a (b + 1) = py_range a b ++ [b].
Proof.
  intros H. unfold py_range. replace (Z.to_nat (b + 1 - a)) with (S (Z.to_nat (b - a))) by lia.
  rewrite seq_S, map_app. cbn [map]. f_equal. f_equal. lia.
Qed.
Lemma py_range_one a : py_range a (a + 1) = [a].
Proof. unfold py_range. replace (Z.to_nat (a + 1 - a)) with 1%nat by lia. cbn. f_equal. lia. Qed.

Lemma flat_compact_aux l : forall start prev, start <= prev ->
  flat_map (fun r => py_range (fst r) (snd r + 1)) (compact_aux l start prev) = py_range start (prev + 1) ++ l.
Proof.
  induction l as [|x l IH]; intros start prev H; cbn [compact_aux].
  - cbn [flat_map fst snd]. rewrite !app_nil_r. reflexivity.
  - destruct (x =? prev + 1) eqn:E.
    + apply Z.eqb_eq in E. subst x. rewrite IH by lia. rewrite (py_range_snoc start (prev + 1)) by lia.
      rewrite <- app_assoc. reflexivity.
    + cbn [flat_map fst snd]. rewrite IH by lia. rewrite py_range_one. reflexivity.
Qed.

Lemma flat_compact l : flat_map (fun r => py_range (fst r) (snd r + 1)) (compact_runs l) = l.
Proof.
  destruct l as [|x l]; [reflexivity|]. unfold compact_runs. rewrite flat_compact_aux by lia. rewrite py_range_one. reflexivity.
Qed.

Lemma sorted_set_id l : StronglySorted Z.lt l -> sorted_set l = l.
Proof.
  intros H. apply sorted_ext; [apply sorted_set_sorted|exact H|]. intros n. apply in_sorted_set.
Qed.

Theorem expand_compact l : StronglySorted Z.lt l -> expand_runs (compact_runs l) = l.
Proof. intros H. unfold expand_runs. rewrite flat_compact. apply sorted_set_id. exact H. Qed.

(* the runs themselves are well formed: start <= end, and consecutive runs are separated *)
Lemma compact_aux_wf l : forall start prev, start <= prev -> Forall (fun r => fst r <= snd r) (compact_aux l start prev).
Proof.
  induction l as [|x l IH]; intros start prev H; cbn [compact_aux]; [constructor; [exact H|constructor]|].
  destruct (x =? prev + 1) eqn:E; [apply IH; lia|constructor; [exact H|apply IH; lia]].
Qed.
Theorem compact_wf l : Forall (fun r => fst r <= snd r) (compact_runs l).
Proof. destruct l as [|x l]; [constructor|]. apply compact_aux_wf. lia. Qed.
