(* Proofs/LexP.v — lemmas about the scanners of Model/Lex.v: one maximal-munch lemma per scanner
   (scanner (printed token ++ rest) = token, rest) and the facts about the modelled Python primitives. *)
From Asimap Require Import Base.Res Base.Bytes Model.Lex Spec.Grammar.
From Coq Require Import Lia ZArith List Bool.
Import ListNotations.
Open Scope Z_scope.

Ltac Zify.zify_post_hook ::= Z.div_mod_to_equations.

(* ------------------------------------------------------------------ what may follow a token *)
(* the characters that end a token inside a command: SP, ")" and CR (and the end of the input) *)
Definition stop_char (c : Z) : bool := (c =? 32) || (c =? 41) || (c =? 13).
Definition stops (rest : list Z) : bool := match rest with [] => true | c :: _ => stop_char c end.
(* rest does not continue a token of class p *)
Definition ends (p : Z -> bool) (rest : list Z) : Prop := match rest with [] => True | c :: _ => p c = false end.

Ltac zb := unfold stop_char, atom_char, tag_char, list_char, msgset_char, fetch_att_char, search_char,
                  is_alpha, is_upper, is_lower, is_digit, in_range in *.
Ltac zbool :=
  repeat match goal with
         | H : _ && _ = true |- _ => apply andb_true_iff in H; destruct H
         | H : _ || _ = false |- _ => apply orb_false_iff in H; destruct H
         | H : negb _ = true |- _ => apply negb_true_iff in H
         | H : negb _ = false |- _ => apply negb_false_iff in H
         | H : (_ =? _) = true |- _ => apply Z.eqb_eq in H
         | H : (_ =? _) = false |- _ => apply Z.eqb_neq in H
         | H : (_ <=? _) = true |- _ => apply Z.leb_le in H
         | H : (_ <=? _) = false |- _ => apply Z.leb_gt in H
         | H : (_ <? _) = true |- _ => apply Z.ltb_lt in H
         | H : (_ <? _) = false |- _ => apply Z.ltb_ge in H
         end.
(* decide a closed boolean statement about one character from linear facts *)
Ltac zchar :=
  zb;
  repeat match goal with
         | |- context [?a =? ?b] => destruct (Z.eqb_spec a b)
         | |- context [?a <=? ?b] => destruct (Z.leb_spec a b)
         | |- context [?a <? ?b] => destruct (Z.ltb_spec a b)
         end; cbn [andb orb negb]; try reflexivity; try discriminate; try lia.

Lemma stops_ends (p : Z -> bool) rest :
  (forall c, stop_char c = true -> p c = false) -> stops rest = true -> ends p rest.
Proof. intros H Hs; destruct rest as [|c r]; cbn in *; auto. Qed.

Lemma stop_not_atom c : stop_char c = true -> atom_char c = false.
Proof. unfold stop_char; intros H; apply orb_true_iff in H; destruct H as [H|H];
       [apply orb_true_iff in H; destruct H as [H|H]|]; apply Z.eqb_eq in H; subst; reflexivity. Qed.
Lemma stop_not_list c : stop_char c = true -> list_char c = false.
Proof. unfold stop_char; intros H; apply orb_true_iff in H; destruct H as [H|H];
       [apply orb_true_iff in H; destruct H as [H|H]|]; apply Z.eqb_eq in H; subst; reflexivity. Qed.
Lemma stop_not_digit c : stop_char c = true -> is_digit c = false.
Proof. unfold stop_char; intros H; apply orb_true_iff in H; destruct H as [H|H];
       [apply orb_true_iff in H; destruct H as [H|H]|]; apply Z.eqb_eq in H; subst; reflexivity. Qed.
Lemma stop_not_msgset c : stop_char c = true -> msgset_char c = false.
Proof. unfold stop_char; intros H; apply orb_true_iff in H; destruct H as [H|H];
       [apply orb_true_iff in H; destruct H as [H|H]|]; apply Z.eqb_eq in H; subst; reflexivity. Qed.
Lemma stop_not_fetch c : stop_char c = true -> fetch_att_char c = false.
Proof. unfold stop_char; intros H; apply orb_true_iff in H; destruct H as [H|H];
       [apply orb_true_iff in H; destruct H as [H|H]|]; apply Z.eqb_eq in H; subst; reflexivity. Qed.
Lemma stop_not_alpha c : stop_char c = true -> search_char c = false.
Proof. unfold stop_char; intros H; apply orb_true_iff in H; destruct H as [H|H];
       [apply orb_true_iff in H; destruct H as [H|H]|]; apply Z.eqb_eq in H; subst; reflexivity. Qed.

(* ------------------------------------------------------------------ span *)
Lemma span_app p a r : forallb p a = true -> ends p r -> span p (a ++ r) = (a, r).
Proof.
  induction a as [|c a IH]; intros Ha Hr; cbn [app span forallb] in *.
  - destruct r as [|c r]; [reflexivity|]. cbn [span]. cbn in Hr. rewrite Hr. reflexivity.
  - apply andb_true_iff in Ha; destruct Ha as [Hc Ha]. rewrite Hc, (IH Ha Hr). reflexivity.
Qed.

Lemma p_many1_app p a r : a <> [] -> forallb p a = true -> ends p r -> p_many1 p (a ++ r) = ROk a r.
Proof.
  intros Hne Ha Hr. unfold p_many1. rewrite (span_app _ _ _ Ha Hr).
  destruct a; [contradiction|reflexivity].
Qed.
Lemma try_many1_app p a r : a <> [] -> forallb p a = true -> ends p r -> try_many1 p (a ++ r) = Some (a, r).
Proof.
  intros Hne Ha Hr. unfold try_many1. rewrite (span_app _ _ _ Ha Hr).
  destruct a; [contradiction|reflexivity].
Qed.
Lemma try_many1_none p c r : p c = false -> try_many1 p (c :: r) = None.
Proof. intros H; unfold try_many1; cbn [span]; rewrite H; reflexivity. Qed.

Lemma span_length p s : (List.length (snd (span p s)) <= List.length s)%nat.
Proof.
  induction s as [|c s IH]; cbn [span]; [cbn; lia|].
  destruct (p c); [|cbn; lia]. destruct (span p s) as [a r]; cbn in *; lia.
Qed.
Lemma span_nonempty_shrinks p s a r : span p s = (a, r) -> a <> [] -> (List.length r < List.length s)%nat.
Proof.
  destruct s as [|c s]; cbn [span]; [intros H; inversion H; contradiction|].
  destruct (p c).
  - pose proof (span_length p s) as Hl. destruct (span p s) as [a' r']. intros H; inversion H; subst. cbn in *; lia.
  - intros H; inversion H; contradiction.
Qed.

(* ------------------------------------------------------------------ keywords in any letter case *)
Lemma py_lower_case b c : py_lower (if b && is_lower c then c - 32 else c) = py_lower c.
Proof.
  destruct b; cbn [andb]; [|reflexivity].
  destruct (is_lower c) eqn:E; [|reflexivity].
  unfold py_lower. zb. zbool.
  replace (65 <=? c - 32) with true by (symmetry; apply Z.leb_le; lia).
  replace (c - 32 <=? 90) with true by (symmetry; apply Z.leb_le; lia).
  replace (65 <=? c) with true by (symmetry; apply Z.leb_le; lia).
  replace (c <=? 90) with false by (symmetry; apply Z.leb_gt; lia).
  replace (192 <=? c) with false by (symmetry; apply Z.leb_gt; lia).
  cbn [andb]. lia.
Qed.

Lemma match_ci_case f i k r : match_ci k (kw_case_from f i k ++ r) = Some r.
Proof.
  revert i; induction k as [|c k IH]; intros i; cbn [kw_case_from app match_ci]; [reflexivity|].
  rewrite py_lower_case, Z.eqb_refl. apply IH.
Qed.

Lemma lower_case f i k : lower_s (kw_case_from f i k) = lower_s k.
Proof.
  revert i; induction k as [|c k IH]; intros i; cbn [kw_case_from lower_s map]; [reflexivity|].
  rewrite py_lower_case. f_equal. apply IH.
Qed.

Lemma case_class (p : Z -> bool) f i k :
  (forall c, is_lower c = true -> p c = true -> p (c - 32) = true) ->
  forallb p k = true -> forallb p (kw_case_from f i k) = true.
Proof.
  intros Hp; revert i; induction k as [|c k IH]; intros i Hk; cbn [kw_case_from forallb] in *; [reflexivity|].
  apply andb_true_iff in Hk; destruct Hk as [Hc Hk]. rewrite (IH _ Hk), andb_true_r.
  destruct (f i); cbn [andb]; [|exact Hc]. destruct (is_lower c) eqn:E; [apply Hp; assumption|exact Hc].
Qed.
Lemma case_nonempty f i k : k <> [] -> kw_case_from f i k <> [].
Proof. destruct k; [contradiction|cbn; discriminate]. Qed.

Lemma upper_atom c : is_lower c = true -> atom_char c = true -> atom_char (c - 32) = true.
Proof. intros H _. zb. zbool. zchar. Qed.
Lemma upper_alpha c : is_lower c = true -> search_char c = true -> search_char (c - 32) = true.
Proof. intros H _. zb. zbool. zchar. Qed.
Lemma upper_fetch c : is_lower c = true -> fetch_att_char c = true -> fetch_att_char (c - 32) = true.
Proof. intros H _. zb. zbool. zchar. Qed.

(* keywords are lower-case ASCII: lower_s leaves them alone *)
Definition lowered (k : list Z) : Prop := lower_s k = k.

(* the literal scanners on a printed keyword *)
Lemma p_lit_kw ch site k r : p_lit (bs k) (kw ch site k ++ r) = ROk tt r.
Proof. unfold p_lit, kw. rewrite match_ci_case. reflexivity. Qed.
Lemma try_lit_kw ch site k r : try_lit (bs k) (kw ch site k ++ r) = Some r.
Proof. unfold try_lit, kw. apply match_ci_case. Qed.
Lemma peek_lit_kw ch site k r : peek_lit (bs k) (kw ch site k ++ r) = true.
Proof. unfold peek_lit, kw. rewrite match_ci_case. reflexivity. Qed.

Lemma p_sp_cons r : p_sp (32 :: r) = ROk tt r.
Proof. reflexivity. Qed.
Lemma p_lit_char c r : py_lower c = c -> p_lit [c] (c :: r) = ROk tt r.
Proof. intros H. unfold p_lit; cbn [match_ci]. rewrite Z.eqb_refl. reflexivity. Qed.

(* a one character look-ahead that fails *)
Lemma match_ci_ne k c r : py_lower c <> py_lower k -> match_ci [k] (c :: r) = None.
Proof. intros H; cbn [match_ci]. destruct (Z.eqb_spec (py_lower c) (py_lower k)); [contradiction|reflexivity]. Qed.

(* ------------------------------------------------------------------ numbers *)
Definition dv (z : Z) (ds : list Z) : Z := fold_left (fun a d => a * 10 + digit_val d) ds z.
Lemma digits_val_dv ds : digits_val ds = dv 0 ds.
Proof. reflexivity. Qed.

Lemma digits_fuel_dv fuel : forall n acc, 0 <= n < 2 ^ Z.of_nat fuel -> dv 0 (digits_fuel fuel n acc) = dv n acc.
Proof.
  induction fuel as [|f IH]; intros n acc Hn.
  - cbn [digits_fuel]. replace n with 0 by (cbn in Hn; lia). reflexivity.
  - cbn [digits_fuel]. destruct (Z.ltb_spec n 10) as [Hlt|Hge].
    + unfold dv; cbn [fold_left]. unfold digit_val. f_equal. lia.
    + rewrite IH.
      * unfold dv; cbn [fold_left]. unfold digit_val. f_equal. lia.
      * rewrite Nat2Z.inj_succ, Z.pow_succ_r in Hn by lia. lia.
Qed.

Lemma digits_fuel_app fuel : forall n acc, exists pre, digits_fuel fuel n acc = pre ++ acc /\
  (0 <= n -> forallb is_digit pre = true) /\ (fuel <> O -> pre <> []).
Proof.
  induction fuel as [|f IH]; intros n acc.
  - exists []. cbn. repeat split; auto.
  - cbn [digits_fuel]. destruct (Z.ltb_spec n 10) as [Hlt|Hge].
    + exists [48 + n]. repeat split; [|discriminate]. intros Hn. cbn [forallb]. rewrite andb_true_r. zchar.
    + destruct (IH (n / 10) ((48 + n mod 10) :: acc)) as [pre [E [Hd Hne]]].
      exists (pre ++ [48 + n mod 10]). rewrite E, <- app_assoc. cbn [app]. repeat split.
      * intros Hn. rewrite forallb_app, Hd by lia. cbn [forallb andb]. rewrite andb_true_r. zchar.
      * intros _ H. apply app_eq_nil in H. destruct H; discriminate.
Qed.

Lemma r_number_digits n : 0 <= n -> forallb is_digit (r_number n) = true.
Proof.
  intros Hn. unfold r_number. destruct (digits_fuel_app (S (Z.to_nat (Z.log2 n))) n []) as [pre [E [Hd _]]].
  rewrite E, app_nil_r. auto.
Qed.
Lemma r_number_nonempty n : r_number n <> [].
Proof.
  unfold r_number. destruct (digits_fuel_app (S (Z.to_nat (Z.log2 n))) n []) as [pre [E [_ Hne]]].
  rewrite E, app_nil_r. apply Hne. discriminate.
Qed.
Lemma r_number_val n : 0 <= n -> digits_val (r_number n) = n.
Proof.
  intros Hn. rewrite digits_val_dv. unfold r_number. rewrite digits_fuel_dv; [reflexivity|].
  split; [lia|]. rewrite Nat2Z.inj_succ, Z2Nat.id by apply Z.log2_nonneg.
  destruct (Z.eq_dec n 0) as [->|Hz]; [cbn; lia|].
  apply Z.log2_spec. lia.
Qed.


Lemma p_int_number n r : num_ok n = true -> p_int (r_number n) r = ROk n r.
Proof.
  unfold num_ok, p_int. intros H. zbool. rewrite H0. rewrite r_number_val by lia. reflexivity.
Qed.

Lemma p_number_app n r : num_ok n = true -> ends is_digit r -> p_number (r_number n ++ r) = ROk n r.
Proof.
  intros Hn Hr. unfold p_number, pbind.
  rewrite p_many1_app; [apply p_int_number; exact Hn|apply r_number_nonempty| |exact Hr].
  apply r_number_digits. unfold num_ok in Hn. zbool. lia.
Qed.

Lemma digits_not_star x : x <> [] -> forallb is_digit x = true -> beq x [42] = false.
Proof.
  destruct x as [|c x]; [contradiction|]. intros _ H. cbn [forallb] in H. zbool. cbn [beq].
  destruct (Z.eqb_spec c 42); [subst; discriminate|reflexivity].
Qed.

(* two and four digit fields *)
Lemma two_r_two n : 0 <= n <= 99 -> two (48 + n / 10) (48 + n mod 10) = n.
Proof. intros H. unfold two, digit_val. lia. Qed.
Lemma four_r_four n : 0 <= n <= 9999 ->
  four (48 + n / 1000) (48 + (n / 100) mod 10) (48 + (n / 10) mod 10) (48 + n mod 10) = n.
Proof. intros H. unfold four, digit_val. lia. Qed.
Lemma digit_48 k : 0 <= k <= 9 -> is_digit (48 + k) = true.
Proof. intros H. zchar. Qed.

(* ------------------------------------------------------------------ strings *)
Lemma scan_quoted_body_app v r : quotable v = true -> scan_quoted_body (quote_body v ++ 34 :: r) = Some (v, r).
Proof.
  induction v as [|c v IH]; intros Hq; cbn [quote_body app scan_quoted_body quotable forallb] in *.
  - reflexivity.
  - apply andb_true_iff in Hq; destruct Hq as [Hc Hq]. specialize (IH Hq).
    destruct ((c =? 34) || (c =? 92)) eqn:E.
    + cbn [app scan_quoted_body]. rewrite E, IH. reflexivity.
    + cbn [app scan_quoted_body]. apply orb_false_iff in E; destruct E as [E1 E2].
      apply negb_true_iff in Hc. rewrite E1, E2, Hc, IH. reflexivity.
Qed.

Lemma scan_quoted_app v r : quotable v = true -> scan_quoted (r_quoted v ++ r) = Some (v, r).
Proof.
  intros Hq. unfold r_quoted, scan_quoted. cbn [app]. rewrite <- app_assoc. cbn [app].
  apply scan_quoted_body_app. exact Hq.
Qed.

Lemma scan_quoted_other c r : c <> 34 -> scan_quoted (c :: r) = None.
Proof. intros H. unfold scan_quoted. destruct (Z.eqb_spec c 34); [contradiction|reflexivity]. Qed.


Lemma scan_lit_ref_app plus v r :
  scan_lit_ref (r_literal plus v ++ r) = Some (r_number (Z.of_nat (List.length v)), v ++ r).
Proof.
  unfold r_literal, scan_lit_ref. cbn [app]. rewrite <- !app_assoc.
  set (ds := r_number (Z.of_nat (List.length v))).
  assert (Hd : forallb is_digit ds = true) by (apply r_number_digits; lia).
  assert (Hne : ds <> []) by apply r_number_nonempty.
  destruct plus; cbn [app].
  - rewrite span_app; [|exact Hd|reflexivity]. destruct ds; [contradiction|reflexivity].
  - rewrite span_app; [|exact Hd|reflexivity]. destruct ds; [contradiction|reflexivity].
Qed.

Lemma firstn_len_app {A} (v r : list A) : firstn (List.length v) (v ++ r) = v.
Proof. induction v; cbn; [destruct r; reflexivity|f_equal; assumption]. Qed.
Lemma skipn_len_app {A} (v r : list A) : skipn (List.length v) (v ++ r) = r.
Proof. induction v; cbn; [reflexivity|assumption]. Qed.

Lemma scan_quoted_literal plus v r : scan_quoted (r_literal plus v ++ r) = None.
Proof. reflexivity. Qed.

Lemma p_string_literal plus v r : str_ok v = true -> p_string (r_literal plus v ++ r) = ROk v r.
Proof.
  intros Hv. unfold p_string.
  rewrite scan_quoted_literal.
  rewrite scan_lit_ref_app. rewrite p_int_number by exact Hv.
  rewrite app_length, Nat2Z.inj_add.
  replace (Z.of_nat (List.length v) + Z.of_nat (List.length r) <? Z.of_nat (List.length v)) with false
    by (symmetry; apply Z.ltb_ge; lia).
  rewrite Nat2Z.id, firstn_len_app, skipn_len_app. reflexivity.
Qed.

Lemma p_string_quoted v r : quotable v = true -> p_string (r_quoted v ++ r) = ROk v r.
Proof. intros Hq. unfold p_string. rewrite scan_quoted_app by exact Hq. reflexivity. Qed.

Lemma p_string_app form v r : str_ok v = true -> p_string (r_string form v ++ r) = ROk v r.
Proof.
  intros Hv. unfold r_string.
  destruct form as [|[|[|[|n]]]]; try (apply p_string_literal; exact Hv);
    (destruct (quotable v) eqn:Q; [apply p_string_quoted; exact Q|apply p_string_literal; exact Hv]).
Qed.

(* the first character of a printed string is DQUOTE or "{" *)
Lemma r_string_head form v r : exists c t, r_string form v ++ r = c :: t /\ (c = 34 \/ c = 123).
Proof.
  unfold r_string.
  destruct form as [|[|[|[|n]]]]; try (destruct (quotable v));
    unfold r_quoted, r_literal; cbn [app]; eexists; eexists; split; try reflexivity; auto.
Qed.

Lemma p_astring_app form v r : str_ok v = true -> stops r = true -> p_astring (r_astring form v ++ r) = ROk v r.
Proof.
  intros Hv Hr. unfold p_astring.
  assert (Hstr : forall f, p_astring (r_string f v ++ r) = ROk v r).
  { intros f. unfold p_astring. destruct (r_string_head f v r) as [c [t [E Hc]]]. rewrite E.
    rewrite try_many1_none by (destruct Hc; subst; reflexivity). rewrite <- E. apply p_string_app. exact Hv. }
  unfold r_astring. destruct form as [|n].
  - destruct (is_atom v) eqn:A; [|apply Hstr].
    unfold is_atom in A. destruct v as [|c v]; [discriminate|].
    rewrite try_many1_app; [reflexivity|discriminate|exact A|].
    apply stops_ends; [apply stop_not_atom|exact Hr].
  - apply Hstr.
Qed.

Lemma p_atom_app v r : is_atom v = true -> stops r = true -> p_atom (v ++ r) = ROk v r.
Proof.
  intros A Hr. unfold p_atom, is_atom in *. destruct v as [|c v]; [discriminate|].
  apply p_many1_app; [discriminate|exact A|apply stops_ends; [apply stop_not_atom|exact Hr]].
Qed.

Lemma p_list_mailbox_app form v r : str_ok v = true -> stops r = true ->
  p_list_mailbox (r_list_mailbox form v ++ r) = ROk v r.
Proof.
  intros Hv Hr.
  assert (Hstr : forall f, p_list_mailbox (r_string f v ++ r) = ROk v r).
  { intros f. unfold p_list_mailbox. destruct (r_string_head f v r) as [c [t [E Hc]]]. rewrite E.
    rewrite try_many1_none by (destruct Hc; subst; reflexivity). rewrite <- E. apply p_string_app. exact Hv. }
  unfold r_list_mailbox. destruct form as [|n].
  - destruct (is_list_atom v) eqn:A; [|apply Hstr].
    unfold is_list_atom in A. destruct v as [|c v]; [discriminate|]. unfold p_list_mailbox.
    rewrite try_many1_app; [reflexivity|discriminate|exact A|].
    apply stops_ends; [apply stop_not_list|exact Hr].
  - apply Hstr.
Qed.

(* ------------------------------------------------------------------ mailbox names *)

Lemma beq_eq a b : beq a b = true -> a = b.
Proof.
  revert b; induction a as [|x a IH]; intros [|y b] H; cbn [beq] in H; try discriminate; [reflexivity|].
  apply andb_true_iff in H; destruct H as [H1 H2]. apply Z.eqb_eq in H1. subst. f_equal. apply IH. exact H2.
Qed.
Lemma beq_refl a : beq a a = true.
Proof. induction a as [|x a IH]; cbn [beq]; [reflexivity|]. rewrite Z.eqb_refl. exact IH. Qed.

(* every letter-case variant of "inbox" is the inbox *)
Lemma inbox_case_norm f : mailbox_norm (kw_case_from f 0 (bs "inbox")) = inbox.
Proof.
  cbn [bs kw_case_from]. destruct (f 0%nat), (f 1%nat), (f 2%nat), (f 3%nat), (f 4%nat); vm_compute; reflexivity.
Qed.
Lemma inbox_case_pattern f : pattern_norm (kw_case_from f 0 (bs "inbox")) = inbox.
Proof.
  cbn [bs kw_case_from]. destruct (f 0%nat), (f 1%nat), (f 2%nat), (f 3%nat), (f 4%nat); vm_compute; reflexivity.
Qed.
Lemma inbox_case_str_ok f : str_ok (kw_case_from f 0 (bs "inbox")) = true.
Proof.
  cbn [bs kw_case_from]. destruct (f 0%nat), (f 1%nat), (f 2%nat), (f 3%nat), (f 4%nat); vm_compute; reflexivity.
Qed.

Lemma p_mailbox_app ch site m r : mailbox_ok m = true -> stops r = true ->
  p_mailbox (r_mailbox ch site m ++ r) = ROk m r.
Proof.
  intros Hm Hr. unfold mailbox_ok in Hm. apply andb_true_iff in Hm; destruct Hm as [Hn Hs].
  unfold p_mailbox, pmap, pbind, r_mailbox. destruct (beq m inbox) eqn:E.
  - apply beq_eq in E; subst m. unfold kw.
    rewrite p_astring_app; [|apply inbox_case_str_ok|exact Hr]. unfold pret. rewrite inbox_case_norm. reflexivity.
  - rewrite p_astring_app by assumption. unfold pret. apply beq_eq in Hn. rewrite Hn. reflexivity.
Qed.

Lemma p_pattern_app ch site p r : pattern_ok p = true -> stops r = true ->
  p_list_mailbox_pattern (r_pattern ch site p ++ r) = ROk p r.
Proof.
  intros Hm Hr. unfold pattern_ok in Hm. apply andb_true_iff in Hm; destruct Hm as [Hn Hs].
  unfold p_list_mailbox_pattern, pmap, pbind, r_pattern. destruct (beq p inbox) eqn:E.
  - apply beq_eq in E; subst p. unfold kw.
    rewrite p_list_mailbox_app; [|apply inbox_case_str_ok|exact Hr]. unfold pret. rewrite inbox_case_pattern. reflexivity.
  - rewrite p_list_mailbox_app by assumption. unfold pret. apply beq_eq in Hn. rewrite Hn. reflexivity.
Qed.

(* only a name that IS inbox (after normpath, without regard to case) becomes the inbox *)
Lemma mailbox_norm_inbox_only x :
  mailbox_norm x = inbox -> lower_s (match x with [] => [] | _ => normpath x end) = inbox.
Proof.
  unfold mailbox_norm. set (y := match x with [] => [] | _ => normpath x end).
  destruct (beq (lower_s y) inbox) eqn:E; [intros _; apply beq_eq; exact E|].
  intros H. rewrite H in E. discriminate E.
Qed.

(* ------------------------------------------------------------------ flags *)

Lemma p_flag_app f r : flag_ok f = true -> stops r = true -> p_flag (f ++ r) = ROk f r.
Proof.
  intros Hf Hr. unfold flag_ok in Hf. destruct f as [|c a]; [discriminate|].
  unfold p_flag. destruct (Z.eqb_spec c 92) as [->|Hne].
  - cbn [app]. change (try_lit [92] (92 :: a ++ r)) with (Some (a ++ r)).
    unfold pmap, pbind. rewrite p_atom_app by assumption. reflexivity.
  - assert (A : atom_char c = true) by (cbn [is_atom forallb] in Hf; apply andb_true_iff in Hf; apply Hf).
    cbn [app]. unfold try_lit. rewrite match_ci_ne.
    + change (c :: a ++ r) with ((c :: a) ++ r). apply p_atom_app; assumption.
    + change (py_lower 92) with 92. intros E. unfold py_lower in E. zb.
      destruct (65 <=? c) eqn:E1, (c <=? 90) eqn:E2, (192 <=? c) eqn:E3, (c <=? 222) eqn:E4, (c =? 215) eqn:E5;
        cbn [andb negb] in E; zbool; lia.
Qed.

(* ------------------------------------------------------------------ message sets *)

Lemma split_on_none c a : forallb (fun x => negb (x =? c)) a = true -> split_on c a = [a].
Proof.
  induction a as [|x a IH]; cbn [split_on forallb]; [reflexivity|]. intros H.
  apply andb_true_iff in H; destruct H as [Hx Ha]. apply negb_true_iff in Hx. rewrite Hx, (IH Ha). reflexivity.
Qed.
Lemma split_on_app c a b : forallb (fun x => negb (x =? c)) a = true ->
  split_on c (a ++ c :: b) = a :: split_on c b.
Proof.
  induction a as [|x a IH]; cbn [split_on forallb app]; intros H.
  - rewrite Z.eqb_refl. reflexivity.
  - apply andb_true_iff in H; destruct H as [Hx Ha]. apply negb_true_iff in Hx. rewrite Hx, (IH Ha). reflexivity.
Qed.

Lemma forallb_impl {A} (p q : A -> bool) l : (forall x, p x = true -> q x = true) -> forallb p l = true -> forallb q l = true.
Proof. intros H; induction l as [|x l IH]; cbn [forallb]; [auto|]. intros E. apply andb_true_iff in E. destruct E.
       rewrite (H _ H0), (IH H1). reflexivity. Qed.

Lemma digit_props c : is_digit c = true -> msgset_char c = true /\ negb (c =? 44) = true /\ negb (c =? 58) = true.
Proof. intros H. zb. zbool. repeat split; zchar. Qed.

Lemma r_satom_chars a : satom_ok a = true ->
  forallb msgset_char (r_satom a) = true /\ forallb (fun x => negb (x =? 44)) (r_satom a) = true
  /\ forallb (fun x => negb (x =? 58)) (r_satom a) = true /\ r_satom a <> [].
Proof.
  destruct a as [|n]; cbn [r_satom satom_ok]; intros H.
  - repeat split; try reflexivity. discriminate.
  - assert (Hd : forallb is_digit (r_number n) = true) by (apply r_number_digits; unfold num_ok in H; zbool; lia).
    repeat split; try (eapply forallb_impl; [|exact Hd]; intros x Hx; apply digit_props in Hx; tauto).
    apply r_number_nonempty.
Qed.

Lemma seq_atom_ok_r a : satom_ok a = true -> seq_atom_ok (r_satom a) = true.
Proof.
  destruct a as [|n]; cbn [r_satom satom_ok]; intros H; [reflexivity|].
  unfold seq_atom_ok. pose proof (r_number_nonempty n) as Hne. destruct (r_number n) eqn:E; [contradiction|].
  rewrite <- E. rewrite r_number_digits by (unfold num_ok in H; zbool; lia). reflexivity.
Qed.
Lemma seq_atom_val_r a : satom_ok a = true -> seq_atom_val (r_satom a) = ROk a [].
Proof.
  destruct a as [|n]; cbn [r_satom satom_ok]; intros H; [reflexivity|].
  unfold seq_atom_val. unfold num_ok in H. zbool.
  rewrite digits_not_star by (try apply r_number_nonempty; apply r_number_digits; lia).
  rewrite H0, r_number_val by lia. reflexivity.
Qed.

Lemma seq_elt_r e : selt_ok e = true -> seq_elt (r_selt e) = ROk e [].
Proof.
  destruct e as [|n|a b]; cbn [r_selt selt_ok]; intros H.
  - reflexivity.
  - unfold seq_elt. pose proof (seq_atom_ok_r (ANum n) H) as P1. pose proof (seq_atom_val_r (ANum n) H) as P2.
    cbn [r_satom] in P1, P2. rewrite P1, P2. reflexivity.
  - apply andb_true_iff in H; destruct H as [Ha Hb].
    destruct (r_satom_chars a Ha) as [_ [_ [Ha58 Hane]]]. destruct (r_satom_chars b Hb) as [_ [_ [Hb58 _]]].
    unfold seq_elt.
    assert (Hno : seq_atom_ok (r_satom a ++ 58 :: r_satom b) = false).
    { unfold seq_atom_ok. destruct (r_satom a ++ 58 :: r_satom b) eqn:E.
      - apply app_eq_nil in E. destruct E; discriminate.
      - rewrite <- E. rewrite forallb_app. cbn [forallb]. change (is_digit 58) with false.
        rewrite andb_false_r. cbn [orb].
        destruct (r_satom a) as [|x xa] eqn:Ea; [contradiction|]. cbn [app beq].
        destruct xa; cbn [app beq]; rewrite ?andb_false_r; reflexivity. }
    rewrite Hno. rewrite split_on_app by exact Ha58. rewrite split_on_none by exact Hb58.
    rewrite (seq_atom_ok_r a Ha), (seq_atom_ok_r b Hb). cbn [andb].
    rewrite (seq_atom_val_r a Ha), (seq_atom_val_r b Hb). reflexivity.
Qed.

Lemma r_selt_chars e : selt_ok e = true ->
  forallb msgset_char (r_selt e) = true /\ forallb (fun x => negb (x =? 44)) (r_selt e) = true.
Proof.
  destruct e as [|n|a b]; cbn [r_selt selt_ok]; intros H.
  - split; reflexivity.
  - destruct (r_satom_chars (ANum n) H) as [H1 [H2 _]]. cbn [r_satom] in H1, H2. split; assumption.
  - apply andb_true_iff in H; destruct H as [Ha Hb].
    destruct (r_satom_chars a Ha) as [A1 [A2 _]]. destruct (r_satom_chars b Hb) as [B1 [B2 _]].
    rewrite !forallb_app. cbn [forallb]. rewrite A1, A2, B1, B2. split; reflexivity.
Qed.

Lemma r_set_props l : l <> [] -> forallb selt_ok l = true ->
  forallb msgset_char (r_set l) = true /\ split_on 44 (r_set l) = map r_selt l /\ r_set l <> [].
Proof.
  induction l as [|e l IH]; [contradiction|]. intros _ H. cbn [forallb] in H. apply andb_true_iff in H; destruct H as [He Hl].
  destruct (r_selt_chars e He) as [E1 E2].
  destruct l as [|e' l'].
  - cbn [r_set map]. repeat split; [exact E1|apply split_on_none; exact E2|].
    destruct e as [|n|a b]; cbn [r_selt]; try discriminate; [apply r_number_nonempty|].
    intros X. apply app_eq_nil in X. destruct X; discriminate.
  - destruct (IH ltac:(discriminate) Hl) as [I1 [I2 I3]].
    change (r_set (e :: e' :: l')) with (r_selt e ++ 44 :: r_set (e' :: l')).
    repeat split.
    + rewrite forallb_app. cbn [forallb]. rewrite E1, I1. reflexivity.
    + rewrite split_on_app by exact E2. rewrite I2. reflexivity.
    + intros X. apply app_eq_nil in X. destruct X; discriminate.
Qed.

Lemma seq_elts_r l : forallb selt_ok l = true -> seq_elts (map r_selt l) = ROk l [].
Proof.
  induction l as [|e l IH]; cbn [forallb map seq_elts]; [reflexivity|]. intros H.
  apply andb_true_iff in H; destruct H as [He Hl]. rewrite (seq_elt_r e He), (IH Hl). reflexivity.
Qed.

Lemma p_msg_set_app l r : set_ok l = true -> stops r = true -> p_msg_set (r_set l ++ r) = ROk l r.
Proof.
  intros Hl Hr. unfold set_ok in Hl. destruct l as [|e l]; [discriminate|].
  destruct (r_set_props (e :: l) ltac:(discriminate) Hl) as [H1 [H2 H3]].
  unfold p_msg_set. rewrite span_app; [|exact H1|apply stops_ends; [apply stop_not_msgset|exact Hr]].
  destruct (r_set (e :: l)) eqn:E; [contradiction|]. rewrite H2, seq_elts_r by exact Hl. reflexivity.
Qed.

(* ------------------------------------------------------------------ dates *)
Ltac bsc := repeat match goal with
                   | |- context [bs ?s] => let x := eval vm_compute in (bs s) in change (bs s) with x
                   end.


Lemma scan_month_kw ch site m r : 1 <= m <= 12 -> scan_month (kw ch site (month_name m) ++ r) = Some (m, r).
Proof.
  intros Hm. unfold kw. set (f := c_kw ch site).
  assert (C : m = 1 \/ m = 2 \/ m = 3 \/ m = 4 \/ m = 5 \/ m = 6 \/ m = 7 \/ m = 8 \/ m = 9 \/ m = 10 \/ m = 11 \/ m = 12) by lia.
  repeat (destruct C as [C|C]; [subst m; cbn [month_name]; bsc; cbn [kw_case_from];
                                destruct (f 0%nat), (f 1%nat), (f 2%nat); reflexivity|]).
  subst m; cbn [month_name]; bsc; cbn [kw_case_from]; destruct (f 0%nat), (f 1%nat), (f 2%nat); reflexivity.
Qed.

Lemma scan_mon_year_app ch site m y r : 1 <= m <= 12 -> 0 <= y <= 9999 ->
  scan_mon_year (45 :: kw ch site (month_name m) ++ 45 :: r_four y ++ r) = Some (m, y, r).
Proof.
  intros Hm Hy. unfold scan_mon_year. change (45 =? 45) with true. cbv iota.
  rewrite scan_month_kw by exact Hm. unfold r_four. cbn [app].
  change (45 =? 45) with true. rewrite !digit_48 by lia. cbn [andb]. rewrite four_r_four by exact Hy. reflexivity.
Qed.

Lemma date_ok_range y m d : date_ok y m d = true -> 1 <= y <= 9999 /\ 1 <= d <= 31.
Proof.
  unfold date_ok, days_in_month. intros H. zbool.
  destruct (m =? 2); [destruct (is_leap y)|destruct ((m =? 4) || (m =? 6) || (m =? 9) || (m =? 11))]; lia.
Qed.

Lemma scan_date_text_app ch site y m d r : date_wf (y, m, d) = true ->
  scan_date_text ((if c_opt ch (site + 1) && (d <? 10) then [48 + d] else r_two d)
                  ++ 45 :: kw ch site (month_name m) ++ 45 :: r_four y ++ r) = Some (d, m, y, r).
Proof.
  unfold date_wf. intros H. zbool. destruct (date_ok_range _ _ _ H0) as [Hy Hd].
  assert (Hm : 1 <= m <= 12) by lia.
  destruct (c_opt ch (site + 1) && (d <? 10)) eqn:E.
  - apply andb_true_iff in E; destruct E as [_ E]. zbool. cbn [app]. unfold scan_date_text.
    change (is_digit 45) with false. rewrite andb_false_r. rewrite digit_48 by lia.
    rewrite scan_mon_year_app by lia. unfold digit_val. f_equal. f_equal. f_equal. f_equal. lia.
  - unfold r_two. cbn [app]. unfold scan_date_text. rewrite !digit_48 by lia. cbn [andb].
    rewrite scan_mon_year_app by lia. rewrite two_r_two by lia. reflexivity.
Qed.

Ltac napp := repeat (rewrite <- app_assoc || rewrite <- app_comm_cons || rewrite app_nil_l).

Lemma p_date_app ch site d r : date_wf d = true -> p_date (r_date ch site d ++ r) = ROk d r.
Proof.
  destruct d as [[y m] dd]. intros H. pose proof H as H'. unfold date_wf in H'. zbool.
  destruct (date_ok_range _ _ _ H1) as [Hy Hd].
  unfold p_date, r_date. destruct (c_opt ch site).
  - napp. unfold scan_date. change (34 =? 34) with true. cbv iota.
    rewrite (scan_date_text_app ch site y m dd (34 :: r) H). change (34 =? 34) with true. cbv iota.
    rewrite H1. reflexivity.
  - napp. pose proof (scan_date_text_app ch site y m dd r H) as P. unfold scan_date.
    destruct (c_opt ch (site + 1) && (dd <? 10)); unfold r_two in *; cbn [app] in *;
      (match goal with |- context [?c =? 34] => replace (c =? 34) with false by (symmetry; apply Z.eqb_neq; lia) end);
      rewrite P, H1; reflexivity.
Qed.

Lemma p_date_time_app ch site t r : date_time_wf t = true -> p_date_time (r_date_time ch site t ++ r) = ROk t r.
Proof.
  destruct t as [[[[[[y m] d] h] mi] s] off]. unfold date_time_wf. intros H. zbool.
  destruct (date_ok_range _ _ _ H9) as [Hy Hd].
  set (a := Z.abs off).
  assert (Ha : 0 <= a < 86400) by (unfold a; lia).
  assert (Hzh : 0 <= a / 3600 <= 23) by lia.
  assert (Hzm : 0 <= (a / 60) mod 60 <= 59) by lia.
  assert (Hoff : a / 3600 * 3600 + (a / 60) mod 60 * 60 = a) by (unfold a in *; lia).
  unfold p_date_time, r_date_time. fold a.
  assert (E : scan_date_time
    ((34 :: (if c_opt ch site && (d <? 10) then [32; 48 + d] else r_two d) ++
      45 :: kw ch site (month_name m) ++ 45 :: r_four y ++ 32 :: r_two h ++ 58 :: r_two mi ++ 58 :: r_two s ++
      32 :: (if off <? 0 then 45 else 43) :: r_two (a / 3600) ++ r_two ((a / 60) mod 60) ++ [34]) ++ r)
    = Some (d, m, y, h, mi, s, (off <? 0), a / 3600, (a / 60) mod 60, r)).
  { napp.
    assert (Tail : forall d1 d2, ((d1 =? 32) || is_digit d1) = true -> is_digit d2 = true ->
       scan_date_time (34 :: d1 :: d2 :: 45 :: kw ch site (month_name m) ++ 45 :: r_four y ++ 32 :: r_two h ++
         58 :: r_two mi ++ 58 :: r_two s ++ 32 :: (if off <? 0 then 45 else 43) :: r_two (a / 3600) ++
         r_two ((a / 60) mod 60) ++ 34 :: r)
       = Some ((if d1 =? 32 then digit_val d2 else two d1 d2), m, y, h, mi, s, (off <? 0), a / 3600, (a / 60) mod 60, r)).
    { intros d1 d2 G1 G2. unfold scan_date_time. change (34 =? 34) with true. rewrite G1, G2. cbn [andb].
      rewrite scan_mon_year_app by lia. unfold r_two. cbn [app].
      change (32 =? 32) with true. change (58 =? 58) with true. change (34 =? 34) with true.
      rewrite !digit_48 by lia. cbn [andb].
      replace (((if off <? 0 then 45 else 43) =? 45) || ((if off <? 0 then 45 else 43) =? 43)) with true
        by (destruct (off <? 0); reflexivity).
      cbn [andb]. rewrite !two_r_two by lia.
      replace ((if off <? 0 then 45 else 43) =? 45) with (off <? 0) by (destruct (off <? 0); reflexivity).
      reflexivity. }
    destruct (c_opt ch site && (d <? 10)) eqn:C.
    - apply andb_true_iff in C; destruct C as [_ C]. zbool. cbn [app].
      rewrite Tail; [|reflexivity|apply digit_48; lia]. change (32 =? 32) with true. unfold digit_val.
      replace (48 + d - 48) with d by lia. reflexivity.
    - unfold r_two at 1. cbn [app]. rewrite Tail; [|rewrite digit_48 by lia; apply orb_true_r|apply digit_48; lia].
      replace (48 + d / 10 =? 32) with false by (symmetry; apply Z.eqb_neq; lia).
      rewrite two_r_two by lia. reflexivity. }
  rewrite E. unfold fix_year. replace (y <? 100) with false by (symmetry; apply Z.ltb_ge; lia).
  rewrite H9. rewrite Hoff.
  replace (h <=? 23) with true by (symmetry; apply Z.leb_le; lia).
  replace (mi <=? 59) with true by (symmetry; apply Z.leb_le; lia).
  replace (s <=? 59) with true by (symmetry; apply Z.leb_le; lia).
  replace (a <? 86400) with true by (symmetry; apply Z.ltb_lt; lia).
  cbn [andb]. destruct (Z.ltb_spec off 0); do 2 f_equal; unfold a; lia.
Qed.

(* ------------------------------------------------------------------ lists *)
Definition head_ok (s : list Z) : Prop := match s with c :: _ => c <> 41 | [] => False end.

Lemma try_lit_41_none s r : head_ok s -> try_lit [41] (s ++ r) = None.
Proof.
  destruct s as [|c s]; cbn [head_ok app]; [contradiction|]. intros H. unfold try_lit. apply match_ci_ne.
  change (py_lower 41) with 41. unfold py_lower. zb.
  destruct (65 <=? c) eqn:E1, (c <=? 90) eqn:E2, (192 <=? c) eqn:E3, (c <=? 222) eqn:E4, (c =? 215) eqn:E5;
    cbn [andb negb]; zbool; lia.
Qed.

Lemma sep_by_cons2 {A} (f : A -> list Z) x y l : sep_by f (x :: y :: l) = f x ++ 32 :: sep_by f (y :: l).
Proof. reflexivity. Qed.

Lemma paren_list_loop_ok {A} (elem : parser A) (f : A -> list Z) :
  forall l rest fuel, l <> [] ->
    Forall (fun x => forall r, stops r = true -> elem (f x ++ r) = ROk x r) l ->
    Nat.lt (List.length (sep_by f l ++ 41 :: rest)) fuel ->
    paren_list_loop elem fuel (sep_by f l ++ 41 :: rest) = ROk l rest.
Proof.
  induction l as [|x l IH]; intros rest fuel Hne Hall Hlen; [contradiction|].
  destruct fuel as [|fuel]; [lia|]. inversion Hall as [|? ? Hx Hl]; subst.
  destruct l as [|y l].
  - cbn [sep_by paren_list_loop]. rewrite Hx by reflexivity. reflexivity.
  - rewrite sep_by_cons2 in *. rewrite <- app_assoc in *. rewrite <- app_comm_cons in *.
    cbn [paren_list_loop]. rewrite Hx by reflexivity.
    change (try_lit [41] (32 :: sep_by f (y :: l) ++ 41 :: rest)) with (@None (list Z)).
    rewrite p_sp_cons. rewrite IH; [reflexivity|discriminate|exact Hl|].
    rewrite app_length in Hlen. cbn [List.length] in Hlen. lia.
Qed.

Lemma p_paren_list_of_app {A} (elem : parser A) (f : A -> list Z) l rest :
  (l <> [] -> head_ok (sep_by f l)) ->
  Forall (fun x => forall r, stops r = true -> elem (f x ++ r) = ROk x r) l ->
  p_paren_list_of elem (r_paren f l ++ rest) = ROk l rest.
Proof.
  intros Hh Hall. unfold p_paren_list_of, r_paren. rewrite <- app_comm_cons, <- app_assoc. cbn [app].
  change (p_lit [40] (40 :: sep_by f l ++ 41 :: rest)) with (ROk tt (sep_by f l ++ 41 :: rest)).
  destruct l as [|x l]; [reflexivity|].
  rewrite try_lit_41_none by (apply Hh; discriminate).
  apply paren_list_loop_ok; [discriminate|exact Hall|lia].
Qed.

Lemma list_loop_ok {A} (elem : parser A) (f : A -> list Z) :
  forall l rest fuel, l <> [] ->
    Forall (fun x => forall r, stops r = true -> elem (f x ++ r) = ROk x r) l ->
    stops rest = true -> try_lit sp rest = None ->
    Nat.lt (List.length (sep_by f l ++ rest)) fuel ->
    list_loop elem fuel (sep_by f l ++ rest) = ROk l rest.
Proof.
  induction l as [|x l IH]; intros rest fuel Hne Hall Hs Hn Hlen; [contradiction|].
  destruct fuel as [|fuel]; [lia|]. inversion Hall as [|? ? Hx Hl]; subst.
  destruct l as [|y l].
  - cbn [sep_by list_loop]. rewrite Hx by exact Hs. rewrite Hn. reflexivity.
  - rewrite sep_by_cons2 in *. rewrite <- app_assoc in *. rewrite <- app_comm_cons in *.
    cbn [list_loop]. rewrite Hx by reflexivity.
    change (try_lit sp (32 :: sep_by f (y :: l) ++ rest)) with (Some (sep_by f (y :: l) ++ rest)). cbv iota.
    rewrite IH; [reflexivity|discriminate|exact Hl|exact Hs|exact Hn|].
    rewrite app_length in Hlen. cbn [List.length] in Hlen. lia.
Qed.

Lemma p_list_of_app {A} (elem : parser A) (f : A -> list Z) l rest :
  l <> [] -> Forall (fun x => forall r, stops r = true -> elem (f x ++ r) = ROk x r) l ->
  stops rest = true -> try_lit sp rest = None ->
  p_list_of elem (sep_by f l ++ rest) = ROk l rest.
Proof. intros. unfold p_list_of. apply list_loop_ok; auto. Qed.

(* the two possible ends of a command *)
Lemma stops_nil : stops [] = true. Proof. reflexivity. Qed.
Lemma stops_crlf : stops [13; 10] = true. Proof. reflexivity. Qed.
Lemma stops_sp r : stops (32 :: r) = true. Proof. reflexivity. Qed.
Lemma stops_rp r : stops (41 :: r) = true. Proof. reflexivity. Qed.
