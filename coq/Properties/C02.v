(* C02 — UIDs strictly ascending and never reused; UIDNEXT and UIDVALIDITY honest.
   Statements only; proofs in Proofs/MboxInv.v, MboxStep.v, MboxLe.v, MboxUid.v (model: Model/Mbox.v). *)
From Asimap Require Import Base.Res Spec.SetSem Model.Mbox Proofs.MboxInv Proofs.MboxStep Proofs.MboxLe Proofs.MboxUid Proofs.MboxKeys Proofs.CopyUid.
From Coq Require Import Sorting.Sorted.
Open Scope Z_scope.

(* in every reachable world, in every mailbox: UIDs strictly ascending with sequence number,
   all positive and below UIDNEXT *)
Theorem C02_ascending_below_next : forall ps pn pd ops n b,
  get_box (fst (run (init_world ps pn pd) ops)) n = Some b ->
  StronglySorted Z.lt (uids b) /\ Forall (fun u => 0 < u < b_next b) (uids b) /\ 0 < b_next b.
Proof. exact reachable_uinv. Qed.
Print Assumptions C02_ascending_below_next.

(* whatever happens next (any further history: expunges, copies, moves, deliveries, packing ...):
   the mailbox is still there, UIDNEXT has not decreased, UIDVALIDITY is unchanged, and every
   message is either one that was there (same UID, content, internal date) or has a UID >= the
   old UIDNEXT *)
Theorem C02_next_monotone_vv_stable : forall ops w n b,
  get_box w n = Some b -> exists b', get_box (fst (run w ops)) n = Some b' /\ box_le b b'.
Proof. exact run_le_box. Qed.
Print Assumptions C02_next_monotone_vv_stable.

(* a UID below UIDNEXT is never given to a new message *)
Theorem C02_no_reuse : forall b b' m',
  box_le b b' -> In m' (b_msgs b') -> m_uid m' < b_next b -> exists m, In m (b_msgs b) /\ same_msg m m'.
Proof. exact no_uid_reuse. Qed.
Print Assumptions C02_no_reuse.

(* APPENDUID: the appended message becomes the last one, its UID is the UIDNEXT told before, and
   that is the UID the response code reports *)
Theorem C02_appenduid_exact : forall b file,
  b_disk b = [] ->
  let k := max_key (b_msgs b) + 1 in
  let b3 := fst (resync (with_disk b (add_files (b_disk b) (b_msgs b) [file]))) in
  b_msgs b3 = b_msgs b ++ [{| m_key := k; m_uid := b_next b; m_cid := m_cid file; m_date := m_date file;
                              m_seqs := sadd "Recent" (m_seqs file) |}] /\
  b_next b3 = b_next b + 1 /\
  (match filter (fun x => m_key x =? k) (b_msgs b3) with x :: _ => m_uid x | [] => 0 end) = b_next b.
Proof. exact append_one. Qed.
Print Assumptions C02_appenduid_exact.

(* a newly created mailbox gets a UIDVALIDITY above the global counter (hence above every value
   handed out before); an existing mailbox keeps its value (C02_next_monotone_vv_stable) *)
Theorem C02_new_mailbox_vv : forall w m, get_box w m = None ->
  exists b, get_box (fst (step w (OMkbox m))) m = Some b /\ b_vv b = w_vv w + 1 /\ b_msgs b = [] /\ b_next b = 1.
Proof. exact mkbox_vv. Qed.
Print Assumptions C02_new_mailbox_vv.

(* COPYUID / APPENDUID under deliveries by another process: copy()/append() remember the message numbers
   MH gave their files and, after the resync, report the UID found under each number.  In every reachable
   world, for ANY batch of files written into the mailbox before that resync (the copies and anybody else's
   deliveries, in any order), each file is found under its own number with its own content and date and a
   UID that was not in use before.  (Reporting the last n UIDs of the destination instead is refuted by
   report_tail_refuted in Proofs/CopyUid.v: the change a sub-agent seeded.) *)
Theorem C02_copyuid_found_by_number : forall ps pn pd ops n b fs f,
  get_box (fst (run (init_world ps pn pd) ops)) n = Some b ->
  let b2 := with_disk b (add_files (b_disk b) (b_msgs b) fs) in
  In f (b_disk b2) ->
  exists m, msg_of_key (b_msgs (fst (resync b2))) (m_key f) = Some m /\
            m_cid m = m_cid f /\ m_date m = m_date f /\ b_next b <= m_uid m.
Proof. exact reachable_copyuid_by_number. Qed.
Print Assumptions C02_copyuid_found_by_number.

(* message numbers are positive and strictly ascending in every reachable world (known messages in list
   order, then the files not taken in yet): what makes the look-up by number unambiguous *)
Theorem C02_message_numbers_ascending : forall ps pn pd ops n b,
  get_box (fst (run (init_world ps pn pd) ops)) n = Some b ->
  StronglySorted Z.lt (map m_key (b_msgs b)) /\ Forall (fun k => 0 <= k) (map m_key (b_msgs b)).
Proof. exact reachable_keys_ascending. Qed.
Print Assumptions C02_message_numbers_ascending.

(* the hypotheses of C02_copyuid_found_by_number are met: a reachable INBOX holding one message (number 1),
   into which two copies (contents 7, 8) and, between them, another process's delivery (content 99) are written:
   the files get numbers 2, 3, 4, and after the resync each is found under its number with its own content *)
Example C02_copyuid_example :
  let w := fst (run (init_world 100 4 5) [OAppend 1 "inbox" [] 10 1]) in
  match get_box w "inbox" with
  | Some b =>
      let mk c := {| m_key := 0; m_uid := 0; m_cid := c; m_date := 0; m_seqs := [] |} in
      let b2 := with_disk b (add_files (b_disk b) (b_msgs b) [mk 7; mk 99; mk 8]) in
      map m_key (b_msgs b) = [1] /\ map m_key (b_disk b2) = [2; 3; 4] /\
      map (fun k => option_map (fun m => (m_cid m, m_uid m)) (msg_of_key (b_msgs (fst (resync b2))) k)) [2; 3; 4]
      = [Some (7, 2); Some (99, 3); Some (8, 4)]
  | None => False
  end.
Proof. vm_compute. repeat split; reflexivity. Qed.

Example C02_example :
  let ops := [OAppend 1 "inbox" [] 0 1; OAppend 1 "inbox" [] 0 2; OSelect 1 "inbox" false;
              OStore 1 false [ENum 1] Add true ["\Deleted"%string]; OExpunge 1 None; OAppend 1 "inbox" [] 0 3] in
  match get_box (fst (run (init_world 100 4 5) ops)) "inbox" with
  | Some b => (uids b, b_next b) | None => ([], 0) end = ([2; 3], 4).
Proof. vm_compute. reflexivity. Qed.
