(* C16 — message data items are mutually consistent and faithful to what was stored.
   Only statements closed by `exact`; proofs live in Proofs/BodyAlgP.v.

   Every theorem is about ALL messages: `msg` is any type, `hdr`/`body` are any functions
   (the email generator as an oracle: header block incl. the blank line, and the rest).  The
   one hypothesis about the oracle — the header block ends in CRLF — and the decomposition
   itself are measured on every generated and fixture message by harness/props/c16.py. *)
From Asimap Require Import Base.Res Model.BodyAlg Spec.RespTok Proofs.BodyAlgP.
Open Scope Z_scope.

(* RFC822.SIZE is the octet count of BODY[] *)
Theorem C16_size : forall (msg : Type) (hdr body : msg -> list Z) (m : msg),
  msg_size msg hdr body m = blen (body_data msg hdr body SFull None m) /\
  fetch_item msg hdr body IRfc822Size m = dec (blen (body_data msg hdr body SFull None m)).
Proof. exact size_both. Qed.
Print Assumptions C16_size.

(* RFC822, RFC822.HEADER, RFC822.TEXT are their BODY[...] counterparts, octet for octet *)
Theorem C16_rfc822_equals_body : forall (msg : Type) (hdr body : msg -> list Z) (m : msg),
  fetch_item msg hdr body IRfc822 m = fetch_item msg hdr body (IBody SFull None) m /\
  fetch_item msg hdr body IRfc822Header m = fetch_item msg hdr body (IBody SHeader None) m /\
  fetch_item msg hdr body IRfc822Text m = fetch_item msg hdr body (IBody SText None) m.
Proof. exact rfc822_items. Qed.
Print Assumptions C16_rfc822_equals_body.

(* <o.n> is exactly that slice: octet i of the partial is octet o+i of the whole item for
   i < n, and there is nothing else; for every section, offset and count *)
Theorem C16_partial_is_slice : forall (msg : Type) (hdr body : msg -> list Z) (m : msg) s o n i,
  0 <= o -> 0 <= n ->
  nth_error (body_data msg hdr body s (Some (o, n)) m) i =
  if Z.of_nat i <? n then nth_error (body_data msg hdr body s None m) (Z.to_nat o + i) else None.
Proof. exact partial_is_slice. Qed.
Print Assumptions C16_partial_is_slice.

Theorem C16_partial_firstn_skipn : forall (msg : Type) (hdr body : msg -> list Z) (m : msg) s o n,
  0 <= o -> 0 <= n ->
  body_data msg hdr body s (Some (o, n)) m =
  firstn (Z.to_nat n) (skipn (Z.to_nat o) (body_data msg hdr body s None m)).
Proof. exact partial_is_firstn_skipn. Qed.
Print Assumptions C16_partial_firstn_skipn.

(* BODY[HEADER] followed by BODY[TEXT] is BODY[] — exactly when the message has a body
   (known finding C16-D12: for an empty body both items get a CRLF) *)
Theorem C16_header_text_concat : forall (msg : Type) (hdr body : msg -> list Z),
  (forall m, ends_crlf (hdr m) = true) ->
  forall m,
    body_data msg hdr body SHeader None m ++ body_data msg hdr body SText None m
      = body_data msg hdr body SFull None m
    <-> body m <> [].
Proof. exact header_text_iff. Qed.
Print Assumptions C16_header_text_concat.

(* ... and what is sent instead for an empty body: two octets too many *)
Theorem C16_header_text_empty_body : forall (msg : Type) (hdr body : msg -> list Z),
  (forall m, ends_crlf (hdr m) = true) ->
  forall m, body m = [] ->
    body_data msg hdr body SHeader None m ++ body_data msg hdr body SText None m
      = body_data msg hdr body SFull None m ++ CRLF.
Proof. exact header_text_empty. Qed.
Print Assumptions C16_header_text_empty_body.

Theorem C16_refuted_empty_body :
  exists m : list Z * list Z,
    ends_crlf (ex_hdr m) = true /\ ex_body m = [] /\
    body_data _ ex_hdr ex_body SHeader None m ++ body_data _ ex_hdr ex_body SText None m
      <> body_data _ ex_hdr ex_body SFull None m.
Proof. exact refuted_empty_body. Qed.
Print Assumptions C16_refuted_empty_body.

(* the announced octet count of a literal is the length of its data, for every byte list:
   an independent reader gets back exactly the data and exactly the rest of the stream *)
Theorem C16_literal_count : forall (l rest : list Z),
  read_literal (literal l ++ rest) = Some (l, rest).
Proof. exact read_literal_literal. Qed.
Print Assumptions C16_literal_count.

Theorem C16_fetch_body_reads : forall (msg : Type) (hdr body : msg -> list Z) (m : msg) s p rest,
  read_literal (fetch_body msg hdr body s p m ++ rest) = Some (body_data msg hdr body s p m, rest).
Proof. exact fetch_body_reads. Qed.
Print Assumptions C16_fetch_body_reads.

(* every unsliced item ends in CRLF *)
Theorem C16_items_end_crlf : forall (msg : Type) (hdr body : msg -> list Z) (m : msg) s,
  ends_crlf (body_data msg hdr body s None m) = true.
Proof. exact every_item_ends_crlf. Qed.
Print Assumptions C16_items_end_crlf.

(* non-vacuity: a concrete message with a body meets the hypothesis and the equations *)
Example C16_example :
  let m := ([83; 58; 32; 120; 13; 10; 13; 10], [104; 105]) in   (* "S: x" CRLF CRLF "hi" *)
  ends_crlf (ex_hdr m) = true /\ ex_body m <> [] /\
  body_data _ ex_hdr ex_body SHeader None m ++ body_data _ ex_hdr ex_body SText None m
    = body_data _ ex_hdr ex_body SFull None m /\
  fetch_body _ ex_hdr ex_body SText (Some (1, 5)) m = [123; 51; 125; 13; 10; 105; 13; 10] /\
  msg_size _ ex_hdr ex_body m = 12%N.
Proof. repeat split; try (vm_compute; reflexivity). discriminate. Qed.
