(* C03 — a UID always names the same message.  Statements only (model: Model/Mbox.v). *)
From Asimap Require Import Base.Res Spec.SetSem Model.Mbox Proofs.MboxInv Proofs.MboxStep Proofs.MboxLe Proofs.MboxUid.
From Coq Require Import Sorting.Sorted.
Open Scope Z_scope.

(* after ANY further history (expunges of other messages, packing, deliveries, copies, moves ...)
   a message that still exists under a UID has the content and internal date it had *)
Theorem C03_binding_stable : forall ops w n b m,
  winv w -> get_box w n = Some b -> In m (b_msgs b) ->
  exists b', get_box (fst (run w ops)) n = Some b' /\
             forall m', In m' (b_msgs b') -> m_uid m' = m_uid m -> m_cid m' = m_cid m /\ m_date m' = m_date m.
Proof. exact binding_stable_run. Qed.
Print Assumptions C03_binding_stable.

(* one message per UID: with UIDs strictly ascending (C02) a UID occurs at one position *)
Theorem C03_one_message_per_uid : forall (l : list msg) m1 m2,
  StronglySorted Z.lt (map m_uid l) -> In m1 l -> In m2 l -> m_uid m1 = m_uid m2 -> m1 = m2.
Proof. exact sorted_uid_inj. Qed.
Print Assumptions C03_one_message_per_uid.

(* the UID form of a command addresses exactly the positions whose UID is in the set's denotation
   (UIDs that do not exist are skipped); the sequence form addresses the denotation itself *)
Theorem C03_uid_form_addresses : forall b st l,
  resolve b true st = Ok l ->
  forall p, In p l <-> exists m, 1 <= p /\ znth (b_msgs b) (p - 1) = Some m /\
                                 In (m_uid m) (denote (last_uid (b_msgs b)) st).
Proof. exact resolve_uid_spec. Qed.
Print Assumptions C03_uid_form_addresses.
Theorem C03_seq_form_addresses : forall b st l, resolve b false st = Ok l -> l = denote (zlen (b_msgs b)) st.
Proof. exact resolve_seq_spec. Qed.
Print Assumptions C03_seq_form_addresses.

(* packing renumbers the MH files only *)
Theorem C03_pack_keeps_binding : forall w b, box_le b (maybe_pack w b).
Proof. exact le_maybe_pack. Qed.
Print Assumptions C03_pack_keeps_binding.

Example C03_example :
  let ops := [OAppend 1 "inbox" [] 10 1; OAppend 1 "inbox" [] 20 2; OAppend 1 "inbox" [] 30 3; OSelect 1 "inbox" false;
              OStore 1 false [ENum 1] Add true ["\Deleted"%string]; OExpunge 1 None; OPoll] in
  match get_box (fst (run (init_world 2 4 5) ops)) "inbox" with
  | Some b => map (fun m => (m_key m, m_uid m, m_cid m, m_date m)) (b_msgs b) | None => [] end
  = [(1, 2, 2, 20); (2, 3, 3, 30)].
Proof. vm_compute. reflexivity. Qed.
