(* C01 — message sequence numbers never desynchronise between server and session.
   Statements only; proofs in Proofs/MboxInv.v, MboxStep.v, MboxOut.v.

   Model: Model/Mbox.v (command-atomic histories of any number of sessions and mailboxes).
   A session's replayed view is the ghost field c_view, updated by [apply_resp] (Model/Mbox.v):
   EXISTS n extends the view to n entries, EXPUNGE n removes position n, FETCH n must name an
   existing position holding the UID the server meant; anything illegal clears c_ok for good. *)
From Asimap Require Import Base.Res Spec.SetSem Model.Mbox Proofs.MboxInv Proofs.MboxStep Proofs.MboxOut.
Open Scope Z_scope.

(* In every world reachable by any history of commands, deliveries and polls, for every mailbox
   and every session that has it selected:
     - every response delivered so far was legal against the session's view (c_ok),
     - replaying the still queued notifications on that view yields exactly the server's list,
     - an idling session has nothing queued;
   and UIDs are strictly ascending and below UIDNEXT. *)
Theorem C01_reachable_invariant : forall ps pn pd ops n b,
  get_box (fst (run (init_world ps pn pd) ops)) n = Some b ->
  Forall (fun p => c_ok (snd p) = true /\
                   apply_resps (c_view (snd p)) (c_pend (snd p)) = Some (uids b) /\
                   (c_idle (snd p) = true -> c_pend (snd p) = [])) (b_clients b).
Proof. exact reachable_binv. Qed.
Print Assumptions C01_reachable_invariant.

Theorem C01_step_preserves : forall w o, winv w -> winv (fst (step w o)).
Proof. exact step_inv. Qed.
Print Assumptions C01_step_preserves.

(* legality of what is replayed: the count only grows by EXISTS (the old view is a prefix of the
   new one), EXPUNGE n and FETCH n name existing positions, FETCH n names the UID the server meant *)
Theorem C01_legal_means : forall view r view',
  apply_resp view r = Some view' ->
  match r with
  | RExists n g => zlen view <= n /\ zprefix view view' = true /\ zlen view' = n
  | RExpunge n => 1 <= n <= zlen view /\ view' = remove_at (Z.to_nat (n - 1)) view
  | RFetch n _ _ g => znth view (n - 1) = Some g /\ view' = view
  | RBody n _ _ _ g => znth view (n - 1) = Some g /\ view' = view
  | _ => view' = view
  end.
Proof. exact apply_resp_legal. Qed.
Print Assumptions C01_legal_means.

(* once NOOP / CHECK / DONE / IDLE has flushed, the view equals the server's list exactly *)
Theorem C01_flush_synchronises : forall b s, boxinv b ->
  all_s (fun c => c_pend c = [] /\ c_view c = uids (fst (flush b s))) (fst (flush b s)) s.
Proof. exact synced_after_flush. Qed.
Print Assumptions C01_flush_synchronises.

(* the sequence numbers a FETCH/STORE/SEARCH accepts are resolved against a list that equals the
   issuer's replayed view (same positions, same UIDs) *)
Theorem C01_numbers_accepted_on_synced_view : forall b s, boxinv b ->
  let b1 := fst (resync (fst (flush b s))) in all_s (fun c => c_view c = uids b1) b1 s.
Proof. exact synced_after_admit. Qed.
Print Assumptions C01_numbers_accepted_on_synced_view.

(* no EXPUNGE is sent to a session during its own non-UID STORE, SEARCH or FETCH, in any world that satisfies the
   invariant (every reachable one: C01_reachable_invariant) - the queue is sent a second time once the command has
   been let through, and what is in it then is what the resync put there *)
Theorem C01_no_expunge_during_store : forall w s st act silent flags,
  winv w -> clean_for s (snd (step w (OStore s false st act silent flags))).
Proof. exact store_seq_no_expunge. Qed.
Print Assumptions C01_no_expunge_during_store.
Theorem C01_no_expunge_during_search : forall w s flag, winv w -> clean_for s (snd (step w (OSearch s false flag))).
Proof. exact search_seq_no_expunge. Qed.
Print Assumptions C01_no_expunge_during_search.
Theorem C01_no_expunge_during_fetch : forall w s st k, winv w -> clean_for s (snd (step w (OFetch s false st k))).
Proof. exact fetch_seq_no_expunge. Qed.
Print Assumptions C01_no_expunge_during_fetch.

(* non-vacuity: two sessions; B expunges while A is selected and not idling, then new mail arrives:
   A's queue holds EXPUNGE, EXISTS in that order, and a NOOP brings A's view to the server's list *)
Example C01_example :
  let ops := [OAppend 1 "inbox" [] 0 1; OAppend 1 "inbox" [] 0 2; OAppend 1 "inbox" [] 0 3;
              OSelect 1 "inbox" false; OSelect 2 "inbox" false;
              OStore 2 false [ENum 2] Add true ["\Deleted"%string]; OExpunge 2 None;
              OAppend 2 "inbox" [] 0 4] in
  let w := fst (run (init_world 100 4 5) ops) in
  match get_box w "inbox" with
  | Some b => map (fun p => (fst p, c_view (snd p), map (fun r => match r with RExpunge n => n | RExists n _ => 100 + n | _ => 0 end) (c_pend (snd p)))) (b_clients b)
  | None => []
  end = [(1, [1; 2; 3], [0; 2; 103; 0; 0]); (2, [1; 3; 4], [])].
Proof. vm_compute. reflexivity. Qed.
