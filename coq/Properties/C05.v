(* C05 — only the addressed messages are removed, copied or moved.  Statements only (Model/Mbox.v). *)
From Asimap Require Import Base.Res Spec.SetSem Model.Mbox Proofs.MboxInv Proofs.MboxStep Proofs.MboxLe Proofs.MboxUid Proofs.MboxExact.
Open Scope Z_scope.

(* EXPUNGE / CLOSE (del = \Deleted), UID EXPUNGE (del = \Deleted and UID in the set), MOVE
   (del = UID among the copied): exactly the messages satisfying del are removed; the others stay,
   in order, with content, flags, internal date and UID untouched; UIDNEXT, UIDVALIDITY kept *)
Theorem C05_expunge_exact : forall b del, b_msgs (fst (expunge b del)) = filter (fun m => negb (del m)) (b_msgs b).
Proof. exact expunge_exact. Qed.
Print Assumptions C05_expunge_exact.
Theorem C05_expunge_rest_untouched : forall b del,
  b_next (fst (expunge b del)) = b_next b /\ b_vv (fst (expunge b del)) = b_vv b /\ b_disk (fst (expunge b del)) = b_disk b.
Proof. exact expunge_rest. Qed.
Print Assumptions C05_expunge_rest_untouched.

(* APPEND / COPY / MOVE / delivery add exactly one message per source message, in order, at the
   end, with the same content, internal date and flags (plus \Recent) and the UIDs UIDNEXT.. *)
Theorem C05_add_exact : forall b files,
  b_disk b = [] -> files <> [] ->
  let b3 := fst (resync (with_disk b (add_files (b_disk b) (b_msgs b) files))) in
  b_msgs b3 = b_msgs b ++ number files (max_key (b_msgs b) + 1) (b_next b) /\
  b_next b3 = b_next b + zlen files /\ b_vv b3 = b_vv b.
Proof. exact add_exact. Qed.
Print Assumptions C05_add_exact.

(* no message ever disappears otherwise / nothing else about it changes: see C02/C03 (box_le) *)
Theorem C05_messages_only_added_or_kept : forall w o n b,
  get_box w n = Some b -> exists b', get_box (fst (step w o)) n = Some b' /\ box_le b b'.
Proof. exact step_le_box. Qed.
Print Assumptions C05_messages_only_added_or_kept.

(* a session that opened the mailbox with EXAMINE never changes its messages or flags *)
Theorem C05_examine_store_refused : forall w s u st a si fl n b c,
  sel w s = Some n -> get_box w n = Some b -> get_client b s = Some c -> c_exam c = true ->
  step w (OStore s u st a si fl) = (w, [(s, RNo)]).
Proof. exact examine_store. Qed.
Print Assumptions C05_examine_store_refused.
Theorem C05_examine_move_refused : forall w s u st d n b c,
  sel w s = Some n -> get_box w n = Some b -> get_client b s = Some c -> c_exam c = true ->
  step w (OMove s u st d) = (w, [(s, RNo)]).
Proof. exact examine_move. Qed.
Print Assumptions C05_examine_move_refused.
Theorem C05_examine_expunge_noop : forall w s us n b c,
  sel w s = Some n -> get_box w n = Some b -> get_client b s = Some c -> c_exam c = true ->
  exists b', get_box (fst (step w (OExpunge s us))) n = Some b' /\ b_msgs b' = b_msgs b /\
             forall n', n' <> n -> get_box (fst (step w (OExpunge s us))) n' = get_box w n'.
Proof. exact examine_expunge. Qed.
Print Assumptions C05_examine_expunge_noop.
Theorem C05_examine_close_noop : forall w s n b c,
  sel w s = Some n -> get_box w n = Some b -> get_client b s = Some c -> c_exam c = true ->
  exists b', get_box (fst (step w (OClose s))) n = Some b' /\ b_msgs b' = b_msgs b.
Proof. exact examine_close. Qed.
Print Assumptions C05_examine_close_noop.
Theorem C05_examine_fetch_changes_no_flag : forall w s u st k n b c,
  sel w s = Some n -> get_box w n = Some b -> get_client b s = Some c -> c_exam c = true ->
  forall b', get_box (fst (step w (OFetch s u st k))) n = Some b' ->
  b_msgs b' = b_msgs b \/ b_msgs b' = b_msgs (fst (resync (fst (flush b s)))).
Proof. exact examine_fetch. Qed.
Print Assumptions C05_examine_fetch_changes_no_flag.

Example C05_example :
  let ops := [OMkbox "work"; OAppend 1 "inbox" ["\Seen"%string] 10 1; OAppend 1 "inbox" [] 20 2; OAppend 1 "inbox" [] 30 3;
              OSelect 1 "inbox" false; OStore 1 false [ENum 1; ENum 3] Add true ["\Deleted"%string];
              OExpunge 1 (Some [ENum 3; ENum 9]); OCopy 1 false [ERange (ANum 1) AStar] "work"] in
  let w := fst (run (init_world 100 4 5) ops) in
  (match get_box w "inbox" with Some b => map (fun m => (m_uid m, m_cid m)) (b_msgs b) | None => [] end,
   match get_box w "work" with Some b => map (fun m => (m_uid m, m_cid m, m_date m)) (b_msgs b) | None => [] end)
  = ([(1, 1); (2, 2)], [(1, 1, 10); (2, 2, 20)]).
Proof. vm_compute. reflexivity. Qed.
