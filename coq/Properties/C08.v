(* C08 — command parsing is total and means what RFC 3501 says.
   Only statements closed by `exact`; the proofs are in Proofs/LexP.v, ParseP.v, ParseT.v, ParseS.v.

   parse        : Model/ParseM.v — IMAPClientCommand(text).parse() of asimap/parse.py with the C08 fixes
                  (exact INBOX, decoded quoted strings, ValueError -> BadSyntax, search-key nesting limit,
                  several unparenthesised STORE flags, UNDRAFT), as a function  list Z -> POk ast | PBad | PCrash.
   render       : Spec/Grammar.v — RFC 3501 + UIDPLUS, MOVE, IDLE, ID, NAMESPACE, UNSELECT, LITERAL+,
                  LIST-EXTENDED / SPECIAL-USE / LIST-STATUS as a printer with free choices.
   wf           : Spec/Grammar.v — the ASTs that are parses (normalised mailbox names, lower-cased search
                  strings, atoms where atoms are required, existing dates, numbers within int()'s 4300 digits).
   covered a    : true for every AST: the completeness theorem covers the whole command set
                  CAPABILITY NOOP NAMESPACE IDLE LOGOUT CHECK CLOSE UNSELECT EXPUNGE AUTHENTICATE LOGIN SELECT
                  EXAMINE CREATE DELETE SUBSCRIBE UNSUBSCRIBE RENAME LIST LSUB (incl. LIST-EXTENDED) STATUS ID
                  APPEND SEARCH FETCH STORE COPY MOVE and UID COPY/FETCH/MOVE/SEARCH/STORE/EXPUNGE. *)
From Asimap Require Import Base.Res Base.Bytes Model.Lex Spec.Grammar Model.ParseM
                           Proofs.LexP Proofs.ParseP Proofs.ParseT Proofs.ParseS.
Open Scope Z_scope.

(* ---- completeness: every sentence of the grammar, whatever the choices, is parsed to exactly its AST *)
Theorem C08_complete : forall a ch, wf a = true -> parse (render a ch) = POk a.
Proof. exact parse_render. Qed.
Print Assumptions C08_complete.

(* ... and nothing of a sentence is left unread (only the CRLF, when the sentence carries one) *)
Theorem C08_complete_nothing_left : forall a ch, wf a = true -> at_end (parse_rest (render a ch)) = true.
Proof. exact parse_rest_render. Qed.
Print Assumptions C08_complete_nothing_left.

Theorem C08_covered_all : forall a, covered a = true.
Proof. exact covered_all. Qed.
Print Assumptions C08_covered_all.

(* ---- totality: for every byte string the parser answers Bad or a command; it never fails otherwise
   (no exception other than BadCommand, no exhausted fuel = no unbounded recursion) *)
Theorem C08_total : forall s, parse s <> PCrash.
Proof. exact parse_never_crashes. Qed.
Print Assumptions C08_total.

Theorem C08_rest_is_bounded : forall s, (List.length (parse_rest s) <= List.length s)%nat.
Proof. exact parse_rest_bounded. Qed.
Print Assumptions C08_rest_is_bounded.

(* ---- soundness.
   Full statement (what the property says):
     forall s a, parse s = POk a ->
       at_end (parse_rest s) = true /\ wf a = true /\ parse (render a canon) = POk a.
   Its first conjunct is FALSE for the code as it is — known finding C08-trailing-text: the parser does not
   look at what follows a complete command.  C08_refuted_trailing_text is the witness; the proved statement
   carries the decidable guard  at_end (parse_rest s) = true  (exactly the negation of the finding's trigger)
   and the size guard  |s| < 10^4300  (the server refuses more than MAX_INPUT_SIZE = 10 MiB anyway; beyond
   10^4300 octets a literal's length could not be written in a literal prefix Python's int() accepts). *)
Theorem C08_refuted_trailing_text :
  exists s a, parse s = POk a /\ at_end (parse_rest s) = false.
Proof. exact trailing_text_witness. Qed.
Print Assumptions C08_refuted_trailing_text.

(*SOUND-BLOCK*)
(* known finding C08-datetime-2digit-year: an APPEND date-time year below 0100 is not taken literally
   (wf excludes such years; this is the witness on the model) *)
Theorem C08_refuted_year_below_100 :
  exists s m f msg, parse s = POk (mkAst (bs "a") (CAppend m f (Some (2050, 1, 1, 0, 0, 0, 0)) msg))
                    /\ s = bs "a APPEND x ""01-Jan-0050 00:00:00 +0000"" {1}" ++ [13; 10; 97].
Proof. exact year_witness. Qed.
Print Assumptions C08_refuted_year_below_100.

(* ---- the clauses the property names *)
(* only the exact name INBOX, in any letter case and any string form, is the inbox *)
Theorem C08_inbox_any_case_any_form : forall ch site r,
  stops r = true -> p_mailbox (r_mailbox ch site inbox ++ r) = ROk inbox r.
Proof. exact p_mailbox_inbox. Qed.
Print Assumptions C08_inbox_any_case_any_form.

Theorem C08_inbox_only_exact : forall x,
  mailbox_norm x = inbox -> lower_s (match x with [] => [] | _ => normpath x end) = inbox.
Proof. exact mailbox_norm_inbox_only. Qed.
Print Assumptions C08_inbox_only_exact.

(* quoted-string escapes are decoded *)
Theorem C08_quoted_decoded : forall v r, quotable v = true -> p_string (r_quoted v ++ r) = ROk v r.
Proof. exact p_string_quoted. Qed.
Print Assumptions C08_quoted_decoded.

(* literals (synchronising or not) are taken by octet count, whatever the octets are *)
Theorem C08_literal_by_count : forall plus v r, str_ok v = true -> p_string (r_literal plus v ++ r) = ROk v r.
Proof. exact p_string_literal. Qed.
Print Assumptions C08_literal_by_count.

(* sequence sets, dates, sections are decoded faithfully (the scanner lemmas behind C08_complete) *)
Theorem C08_set_decoded : forall l r, set_ok l = true -> stops r = true -> p_msg_set (r_set l ++ r) = ROk l r.
Proof. exact p_msg_set_app. Qed.
Print Assumptions C08_set_decoded.
Theorem C08_date_decoded : forall ch site d r, date_wf d = true -> p_date (r_date ch site d ++ r) = ROk d r.
Proof. exact p_date_app. Qed.
Print Assumptions C08_date_decoded.
Theorem C08_date_time_decoded : forall ch site t r,
  date_time_wf t = true -> p_date_time (r_date_time ch site t ++ r) = ROk t r.
Proof. exact p_date_time_app. Qed.
Print Assumptions C08_date_time_decoded.
Theorem C08_section_decoded : forall ch s r, section_ok s = true -> p_section (r_section ch s ++ r) = ROk s r.
Proof. exact p_section_app. Qed.
Print Assumptions C08_section_decoded.

(* non-vacuity: a well-formed AST with a nested search, and a sentence of it with non-canonical choices *)
Example C08_example :
  let a := mkAst (bs "A1") (CSearch true (bs "utf-8")
             [KOr (KAnd [KKeyword (bs "\Seen"); KMsgSet [ERange (ANum 1) AStar]])
                  (KNot (KHeader (bs "from") (bs "sm""ith")));
              KDate DBefore (2020, 2, 29)]) in
  let ch := mkChoices (fun _ i => Nat.even i) (fun _ _ => 1%nat) (fun _ => true) in
  wf a = true /\ parse (render a ch) = POk a
  /\ render a ch = bs "A1 UiD SeArCh ChArSeT ""utf-8"" Or (SeEn 1:*) NoT HeAdEr ""from"" ""sm\""ith"" BeFoRe ""29-FeB-2020"""
                   ++ [13; 10].
Proof. vm_compute. repeat split; reflexivity. Qed.
