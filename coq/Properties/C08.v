(* C08 — placeholder while the proofs are being built *)
From Asimap Require Import Base.Res Model.Lex Spec.Grammar Model.ParseM.
Theorem C08_placeholder : True. Proof. exact I. Qed.
Print Assumptions C08_placeholder.
