(* C08 — command parsing is total and means what RFC 3501 says.
   Only statements closed by `exact`; the proofs are in Proofs/LexP.v, ParseP.v (completeness),
   ParseT.v (totality), ParseW.v (what is accepted is well-formed), ParseS.v (soundness, witnesses).

   parse        : Model/ParseM.v — IMAPClientCommand(text).parse() of asimap/parse.py with the C08 fixes
                  (exact INBOX, decoded quoted strings, ValueError -> BadSyntax, search-key nesting limit,
                  several unparenthesised STORE flags, UNDRAFT), as a function  list Z -> POk ast | PBad | PCrash.
   render       : Spec/Grammar.v — RFC 3501 + UIDPLUS, MOVE, IDLE, ID, NAMESPACE, UNSELECT, LITERAL+,
                  LIST-EXTENDED / SPECIAL-USE / LIST-STATUS as a printer with free choices.
   wf           : Spec/Grammar.v — the ASTs that are parses (normalised mailbox names, lower-cased search
                  strings, atoms where atoms are required, existing dates, numbers within int()'s 4300 digits).
   covered a    : true for every AST: the completeness theorem covers the whole command set
                  CAPABILITY NOOP NAMESPACE IDLE LOGOUT CHECK CLOSE UNSELECT EXPUNGE AUTHENTICATE LOGIN SELECT
                  EXAMINE CREATE DELETE SUBSCRIBE UNSUBSCRIBE RENAME LIST LSUB (incl. LIST-EXTENDED) STATUS ID
                  APPEND SEARCH FETCH STORE COPY MOVE and UID COPY/FETCH/MOVE/SEARCH/STORE/EXPUNGE.
   Not in the AST (hence not in the theorems; compared by harness/props/c08.py only):
     - IMAPClientCommand.list_reference, the LIST reference with its trailing "/" kept, derived from the
       raw text of the reference (added to asimap/parse.py by the C17 fix while this was being finished);
     - the derived attribute fetch_peek (checked against the FETCH attributes by the harness);
     - spellings of a LIST reference that os.path.normpath changes ("foo/", "a//b"): `render` prints the
       normalised name only, the correspondence run also uses the others. *)
From Asimap Require Import Base.Res Base.Bytes Model.Lex Spec.Grammar Model.ParseM
                           Proofs.LexP Proofs.ParseP Proofs.ParseT Proofs.ParseS.
Open Scope Z_scope.

(* ---- completeness: every sentence of the grammar, whatever the choices, is parsed to exactly its AST *)
Theorem C08_complete : forall a ch, wf a = true -> parse (render a ch) = POk a.
Proof. exact parse_render. Qed.
Print Assumptions C08_complete.

(* ... and nothing of a sentence is left unread (only the CRLF, when the sentence carries one) *)
Theorem C08_complete_nothing_left : forall a ch, wf a = true -> at_end (parse_rest (render a ch)) = true.
Proof. exact parse_rest_render. Qed.
Print Assumptions C08_complete_nothing_left.

Theorem C08_covered_all : forall a, covered a = true.
Proof. exact covered_all. Qed.
Print Assumptions C08_covered_all.

(* ---- totality: for every byte string the parser answers Bad or a command; it never fails otherwise
   (no exception other than BadCommand, no exhausted fuel = no unbounded recursion) *)
Theorem C08_total : forall s, parse s <> PCrash.
Proof. exact parse_never_crashes. Qed.
Print Assumptions C08_total.

Theorem C08_rest_is_bounded : forall s, (List.length (parse_rest s) <= List.length s)%nat.
Proof. exact parse_rest_bounded. Qed.
Print Assumptions C08_rest_is_bounded.

(* ---- soundness.
   Full statement (what the property says):
     forall s a, parse s = POk a ->
       at_end (parse_rest s) = true /\ wf_canon a = true /\ parse (render a canon) = POk a.
   Its first conjunct ("nothing is left unparsed") is FALSE for the code as it is — known finding
   C08-trailing-text: the parser does not look at what follows a complete command (the end-of-input check
   cannot be added without editing the repository's own tests, which feed it `A001 CHECK foo`).
   C08_refuted_trailing_text is the witness on the model.  The other two conjuncts are proved for every
   accepted input (C08_sound_partial); the first one is exactly the decidable guard
   at_end (parse_rest s) = true, i.e. the negation of the finding's trigger, and with the end-of-input check
   (spec helper parse_strict) it is proved too (C08_sound_strict).
   Size guard |s| < 10^4300: the server refuses more than MAX_INPUT_SIZE = 10 MiB anyway; beyond 10^4300
   octets a literal's length could not be written in a literal prefix that Python's int() accepts. *)
Theorem C08_refuted_trailing_text :
  exists s a, parse s = POk a /\ at_end (parse_rest s) = false.
Proof. exact trailing_text_witness. Qed.
Print Assumptions C08_refuted_trailing_text.

Theorem C08_sound_partial : forall s a,
  parse s = POk a -> Z.of_nat (List.length s) < 10 ^ 4300 ->
  wf_canon a = true /\ parse (render a canon) = POk a.
Proof. exact parse_sound. Qed.
Print Assumptions C08_sound_partial.

(* with the end-of-input check the maintainers' own test-suite forbids (spec helper parse_strict),
   the guard disappears: accepted means read to the end *)
Theorem C08_sound_strict : forall s a,
  parse_strict s = POk a -> Z.of_nat (List.length s) < 10 ^ 4300 ->
  at_end (parse_rest s) = true /\ wf_canon a = true /\ parse_strict (render a canon) = POk a.
Proof. exact parse_strict_sound. Qed.
Print Assumptions C08_sound_strict.

(* wf_canon is wf for the canonical spelling of the search keys (UNSEEN, OLD, NEW, UNKEYWORD x are one token and
   need no nesting level; NOT SEEN, (RECENT UNSEEN) need one): every wf AST is wf_canon, and the canonical
   sentence of a wf_canon AST is parsed to it *)
Theorem C08_wf_is_wf_canon : forall a, wf a = true -> wf_canon a = true.
Proof. exact wf_wf_canon. Qed.
Print Assumptions C08_wf_is_wf_canon.
Theorem C08_complete_canon : forall a, wf_canon a = true -> parse (render a canon) = POk a.
Proof. exact parse_render_canon. Qed.
Print Assumptions C08_complete_canon.

(* known finding C08-datetime-2digit-year: an APPEND date-time year below 0100 is not taken literally
   (wf excludes such years; this is the witness on the model) *)
Theorem C08_refuted_year_below_100 :
  exists s m f msg, parse s = POk (mkAst (bs "a") (CAppend m f (Some (2050, 1, 1, 0, 0, 0, 0)) msg))
                    /\ s = bs "a APPEND x ""01-Jan-0050 00:00:00 +0000"" {1}" ++ [13; 10; 97].
Proof. exact year_witness. Qed.
Print Assumptions C08_refuted_year_below_100.

(* ---- the clauses the property names *)
(* only the exact name INBOX, in any letter case and any string form, is the inbox *)
Theorem C08_inbox_any_case_any_form : forall ch site r,
  stops r = true -> p_mailbox (r_mailbox ch site inbox ++ r) = ROk inbox r.
Proof. exact p_mailbox_inbox. Qed.
Print Assumptions C08_inbox_any_case_any_form.

Theorem C08_inbox_only_exact : forall x,
  mailbox_norm x = inbox -> lower_s (match x with [] => [] | _ => normpath x end) = inbox.
Proof. exact mailbox_norm_inbox_only. Qed.
Print Assumptions C08_inbox_only_exact.

(* quoted-string escapes are decoded *)
Theorem C08_quoted_decoded : forall v r, quotable v = true -> p_string (r_quoted v ++ r) = ROk v r.
Proof. exact p_string_quoted. Qed.
Print Assumptions C08_quoted_decoded.

(* literals (synchronising or not) are taken by octet count, whatever the octets are *)
Theorem C08_literal_by_count : forall plus v r, str_ok v = true -> p_string (r_literal plus v ++ r) = ROk v r.
Proof. exact p_string_literal. Qed.
Print Assumptions C08_literal_by_count.

(* sequence sets, dates, sections are decoded faithfully (the scanner lemmas behind C08_complete) *)
Theorem C08_set_decoded : forall l r, set_ok l = true -> stops r = true -> p_msg_set (r_set l ++ r) = ROk l r.
Proof. exact p_msg_set_app. Qed.
Print Assumptions C08_set_decoded.
Theorem C08_date_decoded : forall ch site d r, date_wf d = true -> p_date (r_date ch site d ++ r) = ROk d r.
Proof. exact p_date_app. Qed.
Print Assumptions C08_date_decoded.
Theorem C08_date_time_decoded : forall ch site t r,
  date_time_wf t = true -> p_date_time (r_date_time ch site t ++ r) = ROk t r.
Proof. exact p_date_time_app. Qed.
Print Assumptions C08_date_time_decoded.
Theorem C08_section_decoded : forall ch s r, section_ok s = true -> p_section (r_section ch s ++ r) = ROk s r.
Proof. exact p_section_app. Qed.
Print Assumptions C08_section_decoded.

(* non-vacuity: a well-formed AST with a nested search, and a sentence of it with non-canonical choices *)
Example C08_example :
  let a := mkAst (bs "A1") (CSearch true (bs "utf-8")
             [KOr (KAnd [KKeyword (bs "\Seen"); KMsgSet [ERange (ANum 1) AStar]])
                  (KNot (KHeader (bs "from") (bs "sm""ith")));
              KNot (KKeyword (bs "\Seen"));
              KDate DBefore (2020, 2, 29)]) in
  let ch := mkChoices (fun _ i => Nat.even i) (fun _ _ => 1%nat) (fun _ => true) in
  wf a = true /\ parse (render a ch) = POk a
  /\ render a ch = bs "A1 UiD SeArCh ChArSeT ""utf-8"" Or (SeEn 1:*) NoT FrOm ""sm\""ith"" UnSeEn BeFoRe ""29-FeB-2020"""
                   ++ [13; 10]
  /\ render a canon = bs "A1 uid search charset utf-8 or (seen 1:*) not from ""sm\""ith"" unseen before 29-feb-2020".
Proof. vm_compute. repeat split; reflexivity. Qed.
