(* C19 — the front-end relays exactly the commands the byte stream denotes.
   Statements only; proofs in Proofs/FrameP.v.  Model: Model/Frame.v (IMAPClient.start,
   IMAPSubprocessInterface.message, IMAPClientProxy.run, msgs_to_client); reference: Spec/FrameSpec.v.
   [c : cfg] carries MAX_INPUT_SIZE, the reader's line limit and int()'s digit limit - the theorems
   hold for every value of them - and which of the fixes/C19-*.patch are applied; the theorems
   about the front-end need fix_resync (C19-overlimit-literal-resync.patch), C19_long_line needs
   fix_longline (C19-long-line-bad.patch), the relay theorems are about the code with
   C19-relay-long-line.patch.  The *_pinned theorems show what the tree without the patches does.
   Segmentation into reads is not a parameter of the model: the loops only see the stream through
   readuntil/readexactly (trusted base: asyncio.StreamReader; measured under all segmentations by
   harness/props/c19.py). *)
From Asimap Require Import Base.Res Base.Bytes Spec.FrameSpec Model.Frame Proofs.FrameP.
Open Scope Z_scope.

(* Every stream that is a concatenation of commands - each with any number of synchronising and
   non-synchronising literals, arbitrary literal octets (CRLFs, command and announcement
   look-alikes), any digits for the counts, within the limits - is handed on as exactly the
   denoted commands, in order; the only octets written back are one continuation request per
   synchronising literal; the loop then waits for more input.  No bound on counts or sizes.
   (Holds with and without the patches: no refusal is involved.) *)
Theorem C19_relay_exact : forall c,
  0 <= rlimit c -> forall cmds,
  Forall (wf_cmd (maxin c) (rlimit c) (maxdigits c)) cmds ->
  let o := frame_loop c (List.concat (map render cmds)) in
  msgs_of o = map denote cmds /\
  writes_of o = flat_map (fun cm => repeat CONT (sync_lits (c_lits cm))) cmds /\
  snd o = Eof.
Proof. exact relay_exact. Qed.
Print Assumptions C19_relay_exact.

(* The same with everything the property lists mixed in - blank lines, over-limit literals of both
   kinds (a LITERAL+ client sends the octets anyway), commands over the limit by accumulation or
   by their last line: the full trace, in order, is the expected one (continuation requests,
   commands handed on, one BAD per refusal) and the loop restarts cleanly after every refusal. *)
Theorem C19_stream_exact : forall c,
  fix_resync c = true -> 0 <= rlimit c -> forall items,
  Forall (wf_item (maxin c) (rlimit c) (maxdigits c)) items ->
  frame_loop c (List.concat (map render_item items)) = (flat_map item_events items, Eof).
Proof. exact stream_run. Qed.
Print Assumptions C19_stream_exact.

(* Staying in sync: exactly the commands of the stream are handed on - none dropped after a
   refusal, none made out of literal octets. *)
Theorem C19_resync : forall c,
  fix_resync c = true -> 0 <= rlimit c -> forall items,
  Forall (wf_item (maxin c) (rlimit c) (maxdigits c)) items ->
  let o := frame_loop c (List.concat (map render_item items)) in
  msgs_of o = commands_of items /\ writes_of o = flat_map item_writes items /\ snd o = Eof.
Proof. exact resync. Qed.
Print Assumptions C19_resync.

(* A line longer than the reader accepts (64 KiB): refused with a BAD and the connection is closed;
   what came before it is unaffected, nothing behind it is interpreted. *)
Theorem C19_long_line : forall c,
  fix_resync c = true -> forall items l rest, fix_longline c = true ->
  Forall (wf_item (maxin c) (rlimit c) (maxdigits c)) items -> nocrlf l = true -> rlimit c < blen l ->
  frame_loop c (List.concat (map render_item items) ++ l ++ CRLF ++ rest) =
    (flat_map item_events items ++ [Wr BAD_LINE], Closed).
Proof. exact long_line_closes. Qed.
Print Assumptions C19_long_line.

(* For EVERY byte stream: the loop ends (the fuel never runs out) and whatever is handed on is
   non-empty and within MAX_INPUT_SIZE. *)
Theorem C19_handed_on_within_limit : forall c s,
  snd (frame_loop c s) <> NoFuel /\
  Forall (fun m => m <> [] /\ blen m <= maxin c) (msgs_of (frame_loop c s)).
Proof. exact (fun c s => conj (proj1 (frame_loop_good c s)) (msgs_of_good c _ (frame_loop_good c s))). Qed.
Print Assumptions C19_handed_on_within_limit.

(* IPC: the de-framer of the user process inverts the "{len}\n" framing, for any number of messages
   (the first one not being the in-band POP3 marker) *)
Theorem C19_deframe_inverse : forall mx ms,
  Forall (fun m => blen m <= mx) ms ->
  match ms with m :: _ => bytes_eqb m POP3_MARK = false | [] => True end ->
  deframe mx (List.concat (map frame ms)) = (ms, DEof).
Proof. exact deframe_inverse. Qed.
Print Assumptions C19_deframe_inverse.

(* ... hence for EVERY client byte stream the user process de-frames exactly what the front-end
   handed on (both sides use the same MAX_INPUT_SIZE: pinned) *)
Theorem C19_ipc_roundtrip : forall c s,
  match msgs_of (frame_loop c s) with m :: _ => bytes_eqb m POP3_MARK = false | [] => True end ->
  deframe (maxin c) (List.concat (map frame (msgs_of (frame_loop c s)))) = (msgs_of (frame_loop c s), DEof).
Proof. exact ipc_roundtrip. Qed.
Print Assumptions C19_ipc_roundtrip.

(* Responses: every stream of CRLF-terminated chunks, a chunk's text being a CRLF-free run of any
   length (also beyond the reader's limit), reaches the client unchanged and in order *)
Theorem C19_response_identity : forall lim,
  0 <= lim -> forall ls, Forall (fun l => nocrlf l = true) ls ->
  List.concat (fst (relay lim true (render_lines ls))) = render_lines ls /\
  snd (relay lim true (render_lines ls)) = Eof.
Proof. exact relay_identity. Qed.
Print Assumptions C19_response_identity.

(* ... and for ANY response stream what is passed on is a prefix of it *)
Theorem C19_response_prefix : forall lim f s, exists tail, s = List.concat (fst (relay_loop lim true f s)) ++ tail.
Proof. exact relay_prefix. Qed.
Print Assumptions C19_response_prefix.

(* the literal regex of the source is the announcement of the reference, both ways *)
Theorem C19_regex_complete : forall pre ds plus, digits_ok ds -> re_search (pre ++ announce ds plus) = Some (ds, plus).
Proof. exact re_search_announce. Qed.
Print Assumptions C19_regex_complete.
Theorem C19_regex_sound : forall t ds plus,
  lit_match t = Some (ds, plus) -> exists pre, t = pre ++ announce ds plus /\ digits_ok ds.
Proof.
  exact (fun t ds plus H => match lit_match_rev_sound (rev t) ds plus H with
                            | ex_intro _ pre (conj E D) => ex_intro _ pre (conj (eq_trans (eq_sym (rev_involutive t)) E) D)
                            end).
Qed.
Print Assumptions C19_regex_sound.

(* ---- the tree without the patches (D15 and relatives): the statements above fail ---- *)
(* after an over-limit synchronising literal the next command is swallowed *)
Theorem C19_resync_refuted_pinned :
  exists items, Forall (wf_item 20 65536 4300) items /\
    msgs_of (frame_loop (pinned_cfg 20) (List.concat (map render_item items))) <> commands_of items.
Proof. exact resync_refuted_pinned. Qed.
Print Assumptions C19_resync_refuted_pinned.
(* octets of a refused LITERAL+ are handed on as a command *)
Theorem C19_literal_injection_pinned :
  exists items, Forall (wf_item 20 65536 4300) items /\ commands_of items = [] /\
    In (B "z9 LOGOUT") (msgs_of (frame_loop (pinned_cfg 20) (List.concat (map render_item items)))).
Proof. exact literal_injection_pinned. Qed.
Print Assumptions C19_literal_injection_pinned.
(* a response chunk longer than the reader's limit ends the relay *)
Theorem C19_response_refuted_pinned :
  exists lim ls, 0 <= lim /\ Forall (fun l => nocrlf l = true) ls /\
    List.concat (fst (relay lim false (render_lines ls))) <> render_lines ls.
Proof. exact relay_refuted_pinned. Qed.
Print Assumptions C19_response_refuted_pinned.

(* non-vacuity: a LOGIN with a synchronising and a non-synchronising literal (whose octets are
   CRLF + "z LOGOUT"), a blank line, an APPEND refused for a 50-octet LITERAL+ full of command
   look-alikes, a NOOP - limit 40: well-formed, and handled as the theorems say *)
Example C19_example :
  Forall (wf_item 40 65536 4300) ex_items /\
  frame_loop (fixed_cfg 40 65536) (List.concat (map render_item ex_items)) =
    ([Wr CONT; Msg (denote ex_login); Wr BAD_EMPTY; Wr BAD_LIT; Msg (B "a3 NOOP")], Eof).
Proof. exact (conj ex_items_wf ex_items_run). Qed.
