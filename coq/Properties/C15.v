(* C15 — a message set denotes the same messages in every command.
   Only statements closed by `exact`; proofs live in Proofs/. *)
From Asimap Require Import Base.Res Spec.SetSem Gen.SeqSet Proofs.SeqSetP.
From Coq Require Import Sorting.Sorted.
Open Scope Z_scope.

(* non-UID: all numbers in 1..N  ==> exactly the denotation (sorted, duplicate free) *)
Theorem C15_nonuid_denotes : forall s N,
  forallb (elt_ok N) s = true -> sequence_set_to_list s N false = Ok (denote N s).
Proof. exact seqset_nonuid_denotes. Qed.
Print Assumptions C15_nonuid_denotes.

(* non-UID: some number outside 1..N ==> Bad, never another message *)
Theorem C15_nonuid_rejects : forall s N,
  0 <= N -> forallb (elt_ok N) s = false -> sequence_set_to_list s N false = Err EBad.
Proof. exact seqset_nonuid_rejects. Qed.
Print Assumptions C15_nonuid_rejects.

(* UID form: "*" is the highest UID, numbers beyond it are allowed (and later skipped) *)
Theorem C15_uid_denotes : forall s mx,
  forallb elt_pos s = true -> sequence_set_to_list s mx true = Ok (denote mx s).
Proof. exact seqset_uid_denotes. Qed.
Print Assumptions C15_uid_denotes.

Theorem C15_denote_char : forall mx s n, In n (denote mx s) <-> in_set mx s n.
Proof. exact in_denote. Qed.
Print Assumptions C15_denote_char.

Theorem C15_denote_sorted : forall mx s, StronglySorted Z.lt (denote mx s).
Proof. exact denote_sorted. Qed.
Print Assumptions C15_denote_sorted.

Theorem C15_range_symmetric : forall mx a b pre post,
  denote mx (pre ++ ERange a b :: post) = denote mx (pre ++ ERange b a :: post).
Proof. exact denote_range_symmetric. Qed.
Print Assumptions C15_range_symmetric.

Theorem C15_star_is_last : forall mx pre post, In mx (denote mx (pre ++ EStar :: post)).
Proof. exact star_is_last. Qed.
Print Assumptions C15_star_is_last.

Theorem C15_n_star_includes_last : forall mx k pre post,
  In mx (denote mx (pre ++ ERange (ANum k) AStar :: post)).
Proof. exact n_star_includes_last. Qed.
Print Assumptions C15_n_star_includes_last.

Theorem C15_within : forall mx s n, forallb (elt_ok mx) s = true -> In n (denote mx s) -> 1 <= n <= mx.
Proof. exact denote_within. Qed.
Print Assumptions C15_within.

(* non-vacuity: a concrete set meets the hypotheses and denotes what we expect *)
Example C15_example :
  forallb (elt_ok 5) [ERange (ANum 4) (ANum 2); EStar; ENum 2] = true /\
  sequence_set_to_list [ERange (ANum 4) (ANum 2); EStar; ENum 2] 5 false = Ok [2; 3; 4; 5].
Proof. split; vm_compute; reflexivity. Qed.
