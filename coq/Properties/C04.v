(* C04 — message flags follow IMAP STORE/FETCH semantics exactly.  Statements only.
   Model: Model/Mbox.v keeps, per message, the MH sequence names it is in (as mbox.py does);
   the reported flags are their images under seq_to_flag.  `unseen` is the MH marker, the exact
   complement of `Seen`; everything else is a flag of the reference model. *)
From Asimap Require Import Base.Res Spec.SetSem Model.Mbox Proofs.FlagsP Proofs.MboxFlags.
From Asimap Require Import Proofs.KeywordsBridge.
From Asimap Require Gen.Flags Gen.Keywords.
Open Scope string_scope.

(* STORE +FLAGS / -FLAGS / FLAGS on a message is set union / difference / replacement (keeping
   \Recent) of the reference model, for every flag list without the marker and every message *)
Theorem C04_store_refines_reference : forall act fl m x,
  x <> "unseen" -> smem "unseen" fl = false ->
  smem x (m_seqs (apply_store act fl m)) = ref_store act fl (m_seqs m) x.
Proof. exact store_refines. Qed.
Print Assumptions C04_store_refines_reference.

(* \Recent can be neither set nor cleared by STORE *)
Theorem C04_recent_out_of_reach : forall act fl m,
  smem "Recent" fl = false -> smem "unseen" fl = false ->
  smem "Recent" (m_seqs (apply_store act fl m)) = smem "Recent" (m_seqs m).
Proof. exact store_keeps_recent. Qed.
Print Assumptions C04_recent_out_of_reach.

(* \Seen and `unseen` are exact complements on every message (known or still undelivered) of
   every mailbox in every reachable world *)
Theorem C04_seen_unseen_complement : forall ps pn pd ops n b,
  get_box (fst (run (init_world ps pn pd) ops)) n = Some b ->
  Forall (fun m => smem "Seen" (m_seqs m) = negb (smem "unseen" (m_seqs m))) (b_msgs b) /\
  Forall (fun m => smem "Seen" (m_seqs m) = negb (smem "unseen" (m_seqs m))) (b_disk b).
Proof. exact reachable_wP. Qed.
Print Assumptions C04_seen_unseen_complement.

(* a flag list accepted by STORE/APPEND never contains the marker or a reserved spelling, so the
   hypotheses above are met by every accepted command *)
Theorem C04_accepted_flags_have_no_marker : forall flags,
  existsb reserved_kw flags = false -> smem "unseen" (map flag_to_seq flags) = false.
Proof. exact no_unseen_seq. Qed.
Print Assumptions C04_accepted_flags_have_no_marker.

(* flags <-> sequence names is a bijection outside the reserved spellings *)
Theorem C04_flag_seq_roundtrip : forall f, reserved_kw f = false -> seq_to_flag (flag_to_seq f) = f.
Proof. exact seq_of_flag_roundtrip. Qed.
Print Assumptions C04_flag_seq_roundtrip.
Theorem C04_flag_to_seq_injective : forall f1 f2,
  reserved_kw f1 = false -> reserved_kw f2 = false -> flag_to_seq f1 = flag_to_seq f2 -> f1 = f2.
Proof. exact flag_to_seq_injective. Qed.
Print Assumptions C04_flag_to_seq_injective.

(* the two maps of the model are the ones of constants.py (regenerated on every run) *)
Theorem C04_maps_are_the_generated_ones :
  (forall f, Gen.Flags.flag_to_seq f = flag_to_seq f) /\ (forall s, Gen.Flags.seq_to_flag s = seq_to_flag s) /\
  (forall k, In k (map fst Gen.Flags.SYSTEM_FLAG_MAP) -> reserved_kw k = true).
Proof. exact (conj gen_flag_to_seq (conj gen_seq_to_flag gen_reserved)). Qed.
Print Assumptions C04_maps_are_the_generated_ones.

(* the keywords the model refuses are exactly the ones mbox.unstorable_keywords (regenerated from the
   source on every run, Gen/Keywords.v) returns: spelled like a reserved sequence, or with a ':' or a
   character outside ASCII *)
Theorem C04_reserved_keywords_are_the_generated_ones : forall flags,
  Gen.Keywords.unstorable_keywords flags = Ok (filter reserved_kw flags).
Proof. exact unstorable_keywords_is_reserved. Qed.
Print Assumptions C04_reserved_keywords_are_the_generated_ones.

(* hence a keyword the generated function lets through never turns into another flag on its way through
   the sequence names and back *)
Theorem C04_storable_keywords_roundtrip : forall f,
  Gen.Keywords.unstorable_keywords [f] = Ok [] -> seq_to_flag (flag_to_seq f) = f.
Proof. exact storable_keywords_roundtrip. Qed.
Print Assumptions C04_storable_keywords_roundtrip.

Example C04_example :
  let m := {| m_key := 1; m_uid := 1; m_cid := 1; m_date := 0; m_seqs := ["unseen"; "Recent"; "kw1"] |} in
  m_seqs (apply_store Replace (map flag_to_seq ["\Seen"; "\Flagged"]) m) = ["Seen"; "flagged"; "Recent"] /\
  m_seqs (apply_store Remove (map flag_to_seq ["\Seen"]) (apply_store Add (map flag_to_seq ["\Seen"; "kw2"]) m))
  = ["Recent"; "kw1"; "kw2"; "unseen"].
Proof. split; vm_compute; reflexivity. Qed.
