(* C06 — every command is answered exactly once, promptly, whatever its arguments.  Statements only. *)
From Asimap Require Import Base.Res Spec.SetSem Model.Mbox Model.Outcome Proofs.OutcomeP Proofs.OutcomeStep.
Open Scope Z_scope.

(* whatever the handler does, command() pushes exactly one tagged line — except when the handler
   defers it (IDLE), and then nothing — and the connection loop goes on *)
Theorem C06_exactly_one_tagged : forall o, o <> HFalse -> List.length (pushed o) = 1%nat.
Proof. exact one_tagged. Qed.
Print Assumptions C06_exactly_one_tagged.
Theorem C06_deferred_sends_nothing : pushed HFalse = [].
Proof. exact deferred_nothing. Qed.
Print Assumptions C06_deferred_sends_nothing.
Theorem C06_connection_survives : forall o, keeps_connection o = true.
Proof. exact survives. Qed.
Print Assumptions C06_connection_survives.

(* in the world model: queued notifications are untagged in every reachable world (wQ), and in
   such a world every command step sends its issuer exactly one tagged response (OK/NO/BAD), as
   the last thing it sends to the issuer — for all arguments (IDLE answers with a continuation; its
   tagged reply comes with DONE) *)
Theorem C06_queues_hold_only_notifications : forall a b c ops, wQ (fst (run (init_world a b c) ops)).
Proof. exact reachable_wQ. Qed.
Print Assumptions C06_queues_hold_only_notifications.
Theorem C06_model_answers_once : forall w o s,
  wQ w -> issuer o = Some s -> o_is_idle o = false -> answered_once s (snd (step w o)).
Proof. exact step_answers_once. Qed.
Print Assumptions C06_model_answers_once.

Example C06_example :
  let w := fst (run (init_world 100 4 5) [OAppend 1 "inbox" [] 0 1; OSelect 1 "inbox" false]) in
  map snd (snd (step w (OFetch 1 false [ENum 99] FFlags))) = [RBad] /\
  map snd (snd (step w (OStore 1 false [EStar] Add false ["\Recent"%string]))) = [RNo].
Proof. split; vm_compute; reflexivity. Qed.
