(* C20 — a POP3 session is a stable snapshot and deletes only on QUIT.
   Statements only; proofs in Proofs/Pop3P.v.  dot_stuff is Gen/DotStuff.v, regenerated from
   asimap/pop3_client.py on every run; the session machine is Model/Pop3M.v (the code after
   fixes/C20-retr-octets.patch and fixes/C20-snapshot-by-uid.patch), tied to the real
   POP3CommandHandler by the correspondence check of harness/props/c20.py.
   `step true` / `run true`: message numbers are resolved through the snapshot UID. *)
From Asimap Require Import Base.Res Base.Bytes Gen.DotStuff Spec.Pop3Spec Model.Pop3M Proofs.Pop3P Proofs.Pop3Bridge.
Open Scope Z_scope.
Open Scope list_scope.

(* For EVERY byte string: the generated dot_stuff never fails; no line of the stuffed payload
   is a lone "."; un-stuffing gives the data back; and the payload closed by end_multiline is
   read by a client (lines up to the first ".", nothing after it) as exactly the data, with
   the CRLF of its last line supplied if it was missing. *)
Theorem C20_stuffing : forall d,
  exists p, dot_stuff d = Ok p /\
    Forall (fun l => is_dot l = false) (lines p) /\
    unstuff p = d /\
    receive (end_multiline p) = Some (if negb (is_nil d) && negb (ends_crlf d) then d ++ crlf else d).
Proof. exact stuffing. Qed.
Print Assumptions C20_stuffing.

(* the terminator of the model IS pop3_client.end_multiline as regenerated from the source on every
   run (Gen/DotStuff.v, second definition): it never raises and equals the model's *)
Theorem C20_terminator_is_the_generated_one : forall d,
  Asimap.Gen.DotStuff.end_multiline d = Ok (Pop3M.end_multiline d).
Proof. exact end_multiline_is_generated. Qed.
Print Assumptions C20_terminator_is_the_generated_one.

(* hence, entirely on generated code: what RETR/TOP put on the wire for data d is read back as d *)
Theorem C20_generated_wire_roundtrip : forall d,
  exists p w, dot_stuff d = Ok p /\ Asimap.Gen.DotStuff.end_multiline p = Ok w /\
    receive w = Some (if negb (is_nil d) && negb (ends_crlf d) then d ++ crlf else d).
Proof. exact generated_wire_roundtrip. Qed.
Print Assumptions C20_generated_wire_roundtrip.

(* From any well-formed INBOX, after a session is opened, under ANY sequence of POP3 commands
   and IMAP-side events (appends, expunges of arbitrary UIDs, packs, a QUIT or a drop in the
   middle): every UIDL value announced for number n is the IMAP UID of the n-th message INBOX
   had when the session began, and any two sizes announced for the same number (LIST, LIST n,
   RETR n) are equal. *)
Theorem C20_snapshot : forall w l, wf w -> forallb not_open l = true ->
  let w0 := fst (step true w EOpen) in
  let rs := snd (run true w0 l) in
  uidl_fixed (map m_uid (inbox w)) rs /\ sizes_stable rs.
Proof. exact snapshot_stable. Qed.
Print Assumptions C20_snapshot.

(* ... and a full listing shows exactly the numbers of the snapshot that the client has not marked *)
Theorem C20_listing_numbers : forall w l, wf w -> forallb in_session l = true ->
  let w0 := fst (step true w EOpen) in
  let w1 := fst (run true w0 l) in
  let rs := snd (run true w0 l) in
  let shown := listed_numbers (List.length (inbox w)) (marks_of (combine l rs)) in
  (forall rows, snd (step true w1 (EPop (PUidl None))) = RUidlAll rows -> map fst rows = shown) /\
  (forall c t rows, snd (step true w1 (EPop (PList None))) = RListAll c t rows -> map fst rows = shown).
Proof. exact listing_numbers. Qed.
Print Assumptions C20_listing_numbers.

(* QUIT after any session history: INBOX loses exactly the messages that still carry the UID
   of a number the client holds a mark for (DELE accepted since the last RSET), keeps every
   other message (also those appended meanwhile) in order, and the session is over. *)
Theorem C20_quit_exact : forall w l, wf w -> forallb in_session l = true ->
  let w0 := fst (step true w EOpen) in
  let w1 := fst (run true w0 l) in
  let rs := snd (run true w0 l) in
  let marked := uids_at (map m_uid (inbox w)) (marks_of (combine l rs)) in
  let w2 := fst (step true w1 (EPop PQuit)) in
  inbox w2 = filter (fun m => negb (memz (m_uid m) marked)) (inbox w1) /\ psess w2 = None.
Proof. exact quit_exact. Qed.
Print Assumptions C20_quit_exact.

(* No POP3 command other than QUIT changes INBOX (DELE only marks); a dropped connection
   changes nothing and ends the session; QUIT straight after RSET removes nothing. *)
Theorem C20_rset_drop_keep : forall b w,
  (forall c, c <> PQuit -> inbox (fst (step b w (EPop c))) = inbox w) /\
  (inbox (fst (step b w EDrop)) = inbox w /\ psess (fst (step b w EDrop)) = None) /\
  inbox (fst (step b (fst (step b w (EPop PRset))) (EPop PQuit))) = inbox w.
Proof. exact (fun b w => conj (only_quit_removes b w) (conj (drop_keeps b w) (rset_then_quit_keeps b w))). Qed.
Print Assumptions C20_rset_drop_keep.

(* Whenever RETR n answers +OK N octets: the bytes after the status line are read by the
   client as exactly the rendering of the message whose UID the snapshot holds for n, and N
   is their number.  (With C20_snapshot: LIST's size for n is that N too.) *)
Theorem C20_size_matches : forall w e w' n N wire,
  step true w e = (w', RRetr n N wire) ->
  exists s u m, psess w = Some s /\ nth_error (s_uids s) (Z.to_nat (n - 1)) = Some u /\
    find_uid u (inbox w) = Some m /\
    delivers wire (full (m_c m)) /\ N = octets (full (m_c m)).
Proof. exact retr_delivers. Qed.
Print Assumptions C20_size_matches.

(* STAT's count and total are those of the listing in the same state *)
Theorem C20_stat_is_list : forall w w1 c t,
  step true w (EPop PStat) = (w1, RStat c t) ->
  exists rows, snd (step true w (EPop (PList None))) = RListAll c t rows /\
    c = Z.of_nat (List.length rows) /\ t = fold_right (fun r a => snd r + a) 0 rows.
Proof. exact stat_is_list. Qed.
Print Assumptions C20_stat_is_list.

(* every TOP reply is correctly stuffed and terminated *)
Theorem C20_top_terminated : forall w e w' n wire,
  step true w e = (w', RTop n wire) -> exists data, delivers wire data.
Proof. exact top_delivers. Qed.
Print Assumptions C20_top_terminated.

(* the hypothesis `wf` holds in every reachable world *)
Theorem C20_wf_reachable : forall b l, wf (fst (run b init_world l)).
Proof. exact wf_reachable. Qed.
Print Assumptions C20_wf_reachable.

(* The same machine resolving numbers through the MH key of the snapshot (the pinned tree)
   violates the property: after an IMAP expunge of the last message and an append, number 2
   is listed with 11 octets and RETR 2 delivers the 13 octets of another message. *)
Theorem C20_by_key_refuted : ~ sizes_stable (snd (run false init_world ex_trace)).
Proof. exact by_key_refuted. Qed.
Print Assumptions C20_by_key_refuted.

(* non-vacuity: a reachable world, a session with DELE / RSET / repeated DELE / an interleaved
   append / RETR / QUIT: exactly UID 1 is removed, RETR 2 delivers its 12 octets *)
Example C20_example :
  let l := [EAppend (ex_c 65 1); EAppend (ex_c 66 2); EOpen; EPop (PDele (Some 2)); EPop PRset;
            EPop (PDele (Some 1)); EPop (PDele (Some 1)); EAppend (ex_c 67 0);
            EPop (PRetr (Some 2)); EPop PQuit; EObserve] in
  nth 10 (snd (run true init_world l)) RNone = RInbox [(2, 2); (3, 3)] /\
  nth 6 (snd (run true init_world l)) RNone = RNoSuch /\
  exists wire, nth 8 (snd (run true init_world l)) RNone = RRetr 2 12 wire /\
    receive wire = Some (full (ex_c 66 2)).
Proof. exact quit_example. Qed.

Example C20_stuffing_example :
  dot_stuff [46; 13; 10; 46; 46; 97; 13; 10; 98] = Ok [46; 46; 13; 10; 46; 46; 46; 97; 13; 10; 98] /\
  receive (end_multiline [46; 46; 13; 10; 46; 46; 46; 97; 13; 10; 98]) =
    Some [46; 13; 10; 46; 46; 97; 13; 10; 98; 13; 10].
Proof. exact stuffing_example. Qed.
