(* C11 — a crash at any instant loses nothing acknowledged and never rebinds a UID.
   Statements only; proofs in Proofs/CrashP.v; model Model/Crash.v.
   PARTIAL: the model covers the durable state of one mailbox (message files + committed row), the
   commit protocol "files first, one commit last" of APPEND / EXPUNGE / CLOSE / MOVE's removal
   (that order is re-observed on the implementation by the check on every run), and the restart
   reconciliation.  Start-up, migrations, packing, namespace commands and flags are decided by the
   crash sweep of the check on the real server (every effect of representative histories). *)
From Asimap Require Import Base.Res Model.Crash Proofs.CrashP.
Open Scope Z_scope.

(* The process dies before the commit of a command, after ANY subset of the known message files has
   been removed and ANY files have been added under numbers the mailbox row does not know: after
   the restart every UID either names the content it named before (and that content is still
   there) or is a UID >= the old UIDNEXT; UIDNEXT has not gone down. *)
Theorem C11_recovery_never_rebinds : forall files db P added,
  map fst files = r_keys db -> NoDup (r_keys db) ->
  (forall a, In a added -> ~ In (fst a) (r_keys db)) ->
  let d' := {| d_files := filter P files ++ added; d_db := db |} in
  (forall u x, In (u, x) (bindings (d_files d') (recover d')) ->
               (In (u, x) (bindings files db) /\ x <> None) \/ r_next db <= u) /\
  r_next db <= r_next (recover d').
Proof. exact recover_never_rebinds. Qed.
Print Assumptions C11_recovery_never_rebinds.

(* EXPUNGE / CLOSE / MOVE killed after any number of their file removals *)
Theorem C11_expunge_killed_midway : forall d removed,
  consistent d -> NoDup (r_keys (d_db d)) ->
  let d' := apply_effects d (map FileDel removed) in
  (forall u x, In (u, x) (bindings (d_files d') (recover d')) ->
     (In (u, x) (bindings (d_files d) (d_db d)) /\ x <> None) \/ r_next (d_db d) <= u) /\
  r_next (d_db d) <= r_next (recover d').
Proof. exact expunge_killed_midway. Qed.
Print Assumptions C11_expunge_killed_midway.

(* APPEND killed between the file and the commit *)
Theorem C11_append_file_only : forall d c,
  consistent d -> NoDup (r_keys (d_db d)) ->
  let k := max_key (map fst (d_files d)) + 1 in
  let d' := apply_effects d [FileAdd k c] in
  (forall u x, In (u, x) (bindings (d_files d') (recover d')) ->
     (In (u, x) (bindings (d_files d) (d_db d)) /\ x <> None) \/ r_next (d_db d) <= u) /\
  r_next (d_db d) <= r_next (recover d').
Proof. exact append_file_only. Qed.
Print Assumptions C11_append_file_only.

(* an acknowledged APPEND: consistent again, the message is there under the UID that was UIDNEXT,
   every older message as before, and a restart changes nothing *)
Theorem C11_append_acknowledged : forall d c,
  consistent d ->
  let d' := apply_effects d (append_trace d c) in
  consistent d' /\ recover d' = d_db d' /\
  In (r_next (d_db d), Some c) (bindings (d_files d') (d_db d')) /\
  (forall u x, In (u, x) (bindings (d_files d) (d_db d)) -> In (u, x) (bindings (d_files d') (d_db d'))).
Proof. exact append_complete. Qed.
Print Assumptions C11_append_acknowledged.

Theorem C11_consistent_state_survives_restart : forall d, consistent d -> recover d = d_db d.
Proof. exact recover_consistent. Qed.
Print Assumptions C11_consistent_state_survives_restart.

(* sharpness (the recorded finding): a delivery made while the server is down, under the number of
   the last message whose file an interrupted EXPUNGE had already removed, takes over its UID *)
Example C11_refuted_with_delivery_while_down :
  let d := {| d_files := [(1, 101); (2, 102); (3, 103)]; d_db := {| r_keys := [1; 2; 3]; r_uids := [1; 2; 3]; r_next := 4 |} |} in
  let crashed := apply_effects d [FileDel 3] in
  let delivered := apply_effect crashed (FileAdd 3 777) in
  In (3, Some 103) (bindings (d_files d) (d_db d)) /\ In (3, Some 777) (bindings (d_files delivered) (recover delivered)).
Proof. exact delivery_while_down_rebinds. Qed.
