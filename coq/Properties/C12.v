(* C12 — an orderly restart changes nothing a client can see.  Statements only.
   Two ingredients are proved: (1) the persisted form of UID lists / message keys / sequences is
   lossless (utils.compact_sequence / expand_sequence on run lists, Model/Codec.v); (2) in the
   world model a restart only drops the sessions: every mailbox keeps UIDVALIDITY, UIDNEXT, the
   messages with their UIDs, order, content, dates and flags, and the invariants of C01/C02 still
   hold afterwards.  That the implementation's restart IS that step (every mutation is committed
   before the command completes) is decided by the correspondence/oracle runs of the check. *)
From Asimap Require Import Base.Res Spec.SetSem Model.Mbox Model.Codec Proofs.CodecP Proofs.MboxInv Proofs.MboxStep Proofs.MboxLe.
From Coq Require Import Sorting.Sorted.
Open Scope Z_scope.

Theorem C12_persisted_lists_roundtrip : forall l, StronglySorted Z.lt l -> expand_runs (compact_runs l) = l.
Proof. exact expand_compact. Qed.
Print Assumptions C12_persisted_lists_roundtrip.

Theorem C12_runs_well_formed : forall l, Forall (fun r => fst r <= snd r) (compact_runs l).
Proof. exact compact_wf. Qed.
Print Assumptions C12_runs_well_formed.

(* UID lists are strictly ascending in every reachable world (C02), so the round trip applies *)
Theorem C12_restart_keeps_mailboxes : forall w n b,
  get_box w n = Some b ->
  get_box (fst (step w ORestart)) n = Some (set_clients b []).
Proof. exact restart_box. Qed.
Print Assumptions C12_restart_keeps_mailboxes.

Theorem C12_restart_keeps_invariants : forall w, winv w -> winv (fst (step w ORestart)).
Proof. exact restart_inv. Qed.
Print Assumptions C12_restart_keeps_invariants.

Example C12_example :
  expand_runs (compact_runs [1; 3; 4; 5; 6; 9; 10]) = [1; 3; 4; 5; 6; 9; 10] /\
  compact_runs [1; 3; 4; 5; 6; 9; 10] = [(1, 1); (3, 6); (9, 10)].
Proof. split; vm_compute; reflexivity. Qed.
