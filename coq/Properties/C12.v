(* C12 — an orderly restart changes nothing a client can see.  Statements only.
   Two ingredients are proved: (1) the persisted form of UID lists / message keys / sequences is
   lossless (utils.compact_sequence / expand_sequence on run lists, Model/Codec.v); (2) in the
   world model a restart only drops the sessions: every mailbox keeps UIDVALIDITY, UIDNEXT, the
   messages with their UIDs, order, content, dates and flags, and the invariants of C01/C02 still
   hold afterwards.  That the implementation's restart IS that step (every mutation is committed
   before the command completes) is decided by the correspondence/oracle runs of the check. *)
From Asimap Require Import Base.Res Spec.SetSem Model.Mbox Model.Codec Model.CodecText Proofs.CodecP Proofs.CodecTextP Proofs.MboxInv Proofs.MboxStep Proofs.MboxLe Proofs.CodecWorld.
From Coq Require Import Sorting.Sorted Lia.
Open Scope Z_scope.

Theorem C12_persisted_lists_roundtrip : forall l, StronglySorted Z.lt l -> expand_runs (compact_runs l) = l.
Proof. exact expand_compact. Qed.
Print Assumptions C12_persisted_lists_roundtrip.

Theorem C12_runs_well_formed : forall l, Forall (fun r => fst r <= snd r) (compact_runs l).
Proof. exact compact_wf. Qed.
Print Assumptions C12_runs_well_formed.

(* the same at the level of the TEXT that is written to the database (decimal numbers, "a-b" ranges,
   commas; str.split, str.isdigit, int, sorted as Python does them, Model/CodecText.v): every strictly
   ascending list of non-negative integers comes back exactly, two lists never share a text, what comes
   back is always strictly ascending, and the text holds only digits, commas and dashes *)
Theorem C12_persisted_text_roundtrip : forall l,
  StronglySorted Z.lt l -> Forall (fun x => 0 <= x) l -> expand_text (compact_text l) = Some l.
Proof. exact expand_compact_text. Qed.
Print Assumptions C12_persisted_text_roundtrip.

(* compact_sequence sorts: in whatever order, and however often, the keys are handed over, what comes back
   is their set in ascending order *)
Theorem C12_persisted_text_any_order : forall l, Forall (fun x => 0 <= x) l ->
  expand_text (compact_text l) = Some (sorted_set l).
Proof. exact expand_compact_text_any. Qed.
Print Assumptions C12_persisted_text_any_order.

Theorem C12_persisted_text_injective : forall l1 l2,
  StronglySorted Z.lt l1 -> Forall (fun x => 0 <= x) l1 ->
  StronglySorted Z.lt l2 -> Forall (fun x => 0 <= x) l2 ->
  compact_text l1 = compact_text l2 -> l1 = l2.
Proof. exact compact_text_injective. Qed.
Print Assumptions C12_persisted_text_injective.

Theorem C12_expanded_text_ascending : forall s l, expand_text s = Some l -> StronglySorted Z.lt l.
Proof. exact expand_text_sorted. Qed.
Print Assumptions C12_expanded_text_ascending.

Theorem C12_persisted_text_alphabet : forall l, Forall (fun x => 0 <= x) l -> StronglySorted Z.lt l ->
  forallb seq_char (compact_text l) = true.
Proof. exact compact_text_alphabet. Qed.
Print Assumptions C12_persisted_text_alphabet.

(* ... and it applies to the UID list of every mailbox of every reachable world (after any history of
   commands, deliveries, packs and restarts): what is written to the database for it reads back as it *)
Theorem C12_reachable_uid_lists_persist : forall ps pn pd ops n b,
  get_box (fst (run (init_world ps pn pd) ops)) n = Some b ->
  expand_text (compact_text (uids b)) = Some (uids b).
Proof. exact reachable_uid_lists_persist. Qed.
Print Assumptions C12_reachable_uid_lists_persist.

Theorem C12_reachable_key_lists_persist : forall ps pn pd ops n b,
  get_box (fst (run (init_world ps pn pd) ops)) n = Some b ->
  expand_text (compact_text (map m_key (b_msgs b))) = Some (map m_key (b_msgs b)).
Proof. exact reachable_key_lists_persist. Qed.
Print Assumptions C12_reachable_key_lists_persist.

(* UID lists are strictly ascending in every reachable world (C02), so the round trip applies *)
Theorem C12_restart_keeps_mailboxes : forall w n b,
  get_box w n = Some b ->
  get_box (fst (step w ORestart)) n = Some (set_clients b []).
Proof. exact restart_box. Qed.
Print Assumptions C12_restart_keeps_mailboxes.

Theorem C12_restart_keeps_invariants : forall w, winv w -> winv (fst (step w ORestart)).
Proof. exact restart_inv. Qed.
Print Assumptions C12_restart_keeps_invariants.

Example C12_example :
  expand_runs (compact_runs [1; 3; 4; 5; 6; 9; 10]) = [1; 3; 4; 5; 6; 9; 10] /\
  compact_runs [1; 3; 4; 5; 6; 9; 10] = [(1, 1); (3, 6); (9, 10)].
Proof. split; vm_compute; reflexivity. Qed.

(* "1,3-6,9-10,120" and back; a malformed text raises *)
Example C12_text_example :
  compact_text [1; 3; 4; 5; 6; 9; 10; 120] = [49; 44; 51; 45; 54; 44; 57; 45; 49; 48; 44; 49; 50; 48] /\
  expand_text [49; 44; 51; 45; 54; 44; 57; 45; 49; 48; 44; 49; 50; 48] = Some [1; 3; 4; 5; 6; 9; 10; 120] /\
  expand_text [49; 45; 45; 50] = None /\ expand_text [32; 32] = Some [].
Proof. repeat split; vm_compute; reflexivity. Qed.
