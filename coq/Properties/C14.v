(* C14 — SEARCH returns exactly the messages that satisfy the criteria.
   Only statements closed by `exact`; proofs live in Proofs/SearchP.v.
     search_all   (Model/SearchM.v)  the code: parser tree, _match_* evaluators, Mailbox.search loop
     sem_search   (Spec/SearchSem.v) RFC 3501: positions 1..N whose message satisfies the program
     view         (Model/SearchM.v)  what FETCH shows of the state the search reads *)
From Asimap Require Import Base.Res Gen.Flags Spec.SetSem Spec.SearchSem Model.SearchM Proofs.SearchP.
From Coq Require Import Sorting.Sorted.
Open Scope Z_scope.

(* every program (any nesting of NOT / OR / lists, every key), every mailbox:
   the answer is exactly the ascending list of sequence numbers of the messages
   that satisfy the denotation of the program *)
Theorem C14_exact : forall (p : prog) (mb : mailbox),
  search_all p mb false = sem_search p (map view mb).
Proof. exact search_exact. Qed.
Print Assumptions C14_exact.

Theorem C14_in : forall p mb n,
  In n (search_all p mb false) <-> holds p (map view mb) n = true.
Proof. exact search_in. Qed.
Print Assumptions C14_in.

Theorem C14_ascending : forall p mb, StronglySorted Z.lt (search_all p mb false).
Proof. exact search_sorted. Qed.
Print Assumptions C14_ascending.

(* UID SEARCH is SEARCH mapped through the UID table *)
Theorem C14_uid_map : forall p mb,
  search_all p mb true = map (uid_at (map view mb)) (search_all p mb false).
Proof. exact search_uid_map. Qed.
Print Assumptions C14_uid_map.

Theorem C14_uid_exact : forall p mb, search_all p mb true = sem_uid_search p (map view mb).
Proof. exact search_uid_exact. Qed.
Print Assumptions C14_uid_exact.

(* the evaluator on one message, any nesting depth (structural induction on the key) *)
Theorem C14_key : forall mb n m k,
  match_op (mkctx mb n m) (p_search_key k) = sat (map view mb) n (view m) k.
Proof. exact match_sat. Qed.
Print Assumptions C14_key.

(* Boolean algebra, as equality of answers (both SEARCH and UID SEARCH) *)
Theorem C14_not_not : forall k mb u, search_all [SNot (SNot k)] mb u = search_all [k] mb u.
Proof. exact search_not_not. Qed.
Print Assumptions C14_not_not.

Theorem C14_or_comm : forall a b mb u, search_all [SOr a b] mb u = search_all [SOr b a] mb u.
Proof. exact search_or_comm. Qed.
Print Assumptions C14_or_comm.

Theorem C14_de_morgan_or : forall a b mb u,
  search_all [SNot (SOr a b)] mb u = search_all [SNot a; SNot b] mb u.
Proof. exact search_de_morgan_or. Qed.
Print Assumptions C14_de_morgan_or.

Theorem C14_de_morgan_and : forall a b mb u,
  search_all [SNot (SParen [a; b])] mb u = search_all [SOr (SNot a) (SNot b)] mb u.
Proof. exact search_de_morgan_and. Qed.
Print Assumptions C14_de_morgan_and.

Theorem C14_paren : forall l mb u, search_all [SParen l] mb u = search_all l mb u.
Proof. exact search_paren. Qed.
Print Assumptions C14_paren.

(* NOT is the complement, OR the union, juxtaposition the intersection *)
Theorem C14_not_complement : forall k mb n,
  In n (search_all [SNot k] mb false) <->
  1 <= n <= Z.of_nat (List.length mb) /\ ~ In n (search_all [k] mb false).
Proof. exact search_not_complement. Qed.
Print Assumptions C14_not_complement.

Theorem C14_or_union : forall a b mb n,
  In n (search_all [SOr a b] mb false) <->
  In n (search_all [a] mb false) \/ In n (search_all [b] mb false).
Proof. exact search_or_union. Qed.
Print Assumptions C14_or_union.

Theorem C14_and_inter : forall p q mb n,
  In n (search_all (p ++ q) mb false) <->
  In n (search_all p mb false) /\ In n (search_all q mb false).
Proof. exact search_and_inter. Qed.
Print Assumptions C14_and_inter.

(* NEW / OLD / UN* are their defined combinations *)
Theorem C14_new : forall mb u, search_all [SNew] mb u = search_all [SRecent; SUnseen] mb u.
Proof. exact search_new. Qed.
Print Assumptions C14_new.

Theorem C14_old : forall mb u, search_all [SOld] mb u = search_all [SNot SRecent] mb u.
Proof. exact search_old. Qed.
Print Assumptions C14_old.

Theorem C14_un : forall k k', un_of k = Some k' ->
  forall mb u, search_all [k] mb u = search_all [SNot k'] mb u.
Proof. exact search_un. Qed.
Print Assumptions C14_un.

(* the set keys address exactly the denotation of Spec/SetSem.v (the one C15 is about) *)
Theorem C14_set_in : forall s mb n,
  In n (search_all [SMsgSet s] mb false) <->
  1 <= n <= Z.of_nat (List.length mb) /\ in_set (Z.of_nat (List.length mb)) s n.
Proof. exact search_set_in. Qed.
Print Assumptions C14_set_in.

Theorem C14_set_denote : forall s mb,
  search_all [SMsgSet s] mb false
  = filter (fun n => (1 <=? n) && (n <=? Z.of_nat (List.length mb)))
           (denote (Z.of_nat (List.length mb)) s).
Proof. exact search_set_denote. Qed.
Print Assumptions C14_set_denote.

Theorem C14_set_denote_ok : forall s mb,
  forallb (elt_ok (Z.of_nat (List.length mb))) s = true ->
  search_all [SMsgSet s] mb false = denote (Z.of_nat (List.length mb)) s.
Proof. exact search_set_denote_ok. Qed.
Print Assumptions C14_set_denote_ok.

Theorem C14_uid_set_in : forall s mb u,
  In u (search_all [SUid s] mb true) <->
  In u (map m_uid mb) /\ in_set (last (map m_uid mb) 0) s u.
Proof. exact search_uid_set_in. Qed.
Print Assumptions C14_uid_set_in.

(* the string primitive decides "is a substring of" *)
Theorem C14_contains_char : forall p l, contains p l = true <-> substring p l.
Proof. exact contains_spec. Qed.
Print Assumptions C14_contains_char.

(* ---- non-vacuity: a concrete mailbox and nested programs ---- *)
(* example data: Proofs/SearchP.v (ex_mb: three messages, UIDs 3 5 9) *)
Example C14_example_nested :
  search_all [SOr (SNot (SParen [SSeen; SKeyword "kw"])) (SSubject (ex_b "HELLO")); SNot (SMsgSet [ERange AStar (ANum 3)])]
             ex_mb false = [1; 2]
  /\ search_all [SNew] ex_mb true = [5]
  /\ search_all [SOld; SUid [ERange (ANum 4) AStar]] ex_mb true = []
  /\ search_all [SUid [ERange (ANum 4) AStar]; SUnkeyword "kw"; SLarger 50] ex_mb true = [5]
  /\ search_all [SText (ex_b "hello"); SSentSince 100] ex_mb false = [2]
  /\ search_all [SKeyword "Seen"] ex_mb false = []
  /\ search_all [SSeen; SAnswered] ex_mb false = [3].
Proof. vm_compute. repeat split. Qed.

Example C14_example_set_hyp :
  forallb (elt_ok (Z.of_nat (List.length ex_mb))) [ERange AStar (ANum 2); ENum 1] = true
  /\ search_all [SMsgSet [ERange AStar (ANum 2); ENum 1]] ex_mb false = [1; 2; 3].
Proof. vm_compute. split; reflexivity. Qed.

Example C14_example_un : un_of SUndraft = Some SDraft /\ un_of (SUnkeyword "kw") = Some (SKeyword "kw").
Proof. split; reflexivity. Qed.
