(* C17 — the mailbox list follows the CREATE/DELETE/RENAME/SUBSCRIBE history.
   Statements only; proofs in Proofs/NamespaceP.v.

   Model/Namespace.v is the model of asimap's namespace code (the rows of the mailboxes table;
   CREATE / DELETE / RENAME / SUBSCRIBE / UNSUBSCRIBE / APPEND / SELECT / restart as total functions
   returning the new state and OK or NO; LIST / LSUB with the LIST-EXTENDED options).
   Spec/NsSpec.v is the reference tree of the property text: a partial map from names to
   (placeholder?, subscribed?, payload), commands as a relation, RFC 3501 wildcards as an inductive
   relation.  [run init os] is the table after the history os, [abs] the tree it stands for. *)
From Coq Require Import List Ascii String Bool ZArith.
From Asimap Require Import Spec.NsSpec Model.Glob Model.Namespace Proofs.NamespaceP.
Import ListNotations.
Open Scope Z_scope.

(* The matcher the code builds (literal / .* / [^/]*, anchored) is RFC 3501's `*` / `%` relation,
   for ALL patterns and names. *)
Theorem C17_glob_correct : forall p n, glob p n = true <-> matches p n.
Proof. exact glob_correct. Qed.
Print Assumptions C17_glob_correct.

(* INBOX is matched ignoring case: the test made for the row "inbox" succeeds exactly when the
   pattern matches some spelling of INBOX. *)
Theorem C17_inbox_any_case : forall ip,
  glob (lower ip) (la "inbox") = true <-> exists s, lower s = la "inbox" /\ matches ip s.
Proof. exact glob_inbox_correct. Qed.
Print Assumptions C17_inbox_any_case.

(* Every history of namespace commands (with APPEND, SELECT and restarts interleaved): the tagged
   results are those of the reference model and the table stands for the reference tree. *)
Theorem C17_refines_reference : forall os,
  initial (abs init) /\ spec_run (abs init) os (snd (run init os)) (abs (fst (run init os))).
Proof. exact run_refines. Qed.
Print Assumptions C17_refines_reference.

(* In every reachable table no name occurs twice, every superior name of a name is there, and
   INBOX is there under exactly one spelling. *)
Theorem C17_table_invariant : forall os, inv (fst (run init os)).
Proof. exact reachable_inv. Qed.
Print Assumptions C17_table_invariant.

(* LIST reference pattern (lsub = false) and LSUB (lsub = true), after any history, answer exactly
   the existing (subscribed) mailboxes that match reference ++ pattern, each once. *)
Theorem C17_list_exact : forall os lsub ref pat, ~ (ref = [] /\ pat = []) ->
  let st := fst (run init os) in
  let out := list_cmd st (plain lsub ref pat) in
  NoDup (map e_name out) /\
  (forall d, In d (map e_name out) <-> spec_listed (abs st) lsub [ref ++ pat] d).
Proof. exact list_exact_reachable. Qed.
Print Assumptions C17_list_exact.

(* Every entry of every LIST / LSUB answer (any selection and return options, any number of
   patterns), after any history, is an existing mailbox and carries \HasChildren exactly when an
   existing mailbox lies below it, \HasNoChildren otherwise, \Noselect exactly when it is a
   deleted-but-kept placeholder, \Subscribed only when it is subscribed. *)
Theorem C17_children_attr : forall os q e, ~ is_probe q ->
  let st := fst (run init os) in
  In e (list_cmd st q) ->
  exists n i, abs st n = Some i /\ e_name e = shown n /\
    (In HasChildren (e_attrs e) <-> has_inferiors (abs st) n) /\
    (In HasNoChildren (e_attrs e) <-> ~ has_inferiors (abs st) n) /\
    (In Noselect (e_attrs e) <-> i_placeholder i = true) /\
    (In Subscribed (e_attrs e) -> i_subscribed i = true).
Proof. exact list_attrs_reachable. Qed.
Print Assumptions C17_children_attr.

(* RENAME o n that is answered OK (o not INBOX), after any history: everything that was at or
   below o is at or below n with its whole record (placeholder, subscription, UIDVALIDITY, UIDNEXT,
   every message with UID and flags), and nothing is left at or below o. *)
Theorem C17_rename_subtree : forall os o n st',
  let st := fst (run init os) in
  is_inbox o = false -> rename st o n = (st', OK) ->
  (forall s, abs st' (n ++ s) = abs st (o ++ s)) /\ (forall s, abs st' (o ++ s) = None).
Proof. exact rename_subtree_reachable. Qed.
Print Assumptions C17_rename_subtree.

(* DELETE of INBOX in any spelling is refused in every state, and after every history the inbox
   exists and is selectable. *)
Theorem C17_inbox_undeletable :
  (forall st n, is_inbox n = true -> delete st n = (st, NO)) /\
  (forall os, exists r, find_row (fst (run init os)) inbox = Some r /\ r_nosel r = false).
Proof. exact inbox_undeletable. Qed.
Print Assumptions C17_inbox_undeletable.

(* A command that is refused leaves the state equal, in every state. *)
Theorem C17_refused_noop : forall st o, snd (step st o) = NO -> fst (step st o) = st.
Proof. exact refused_noop. Qed.
Print Assumptions C17_refused_noop.

(* A deleted leaf (no inferiors, not subscribed) is gone: not in the tree, not selectable, in no
   LIST / LSUB answer of any form. *)
Theorem C17_deleted_leaf_gone : forall os n0 st',
  let st := fst (run init os) in
  delete st n0 = (st', OK) -> has_kids st (canon n0) = false ->
  (forall r, find_row st (canon n0) = Some r -> r_sub r = false) ->
  abs st' (canon n0) = None /\ select st' n0 = (st', NO) /\
  (forall q e, ~ is_probe q -> In e (list_cmd st' q) -> e_name e <> shown (canon n0)).
Proof. exact deleted_leaf_gone_reachable. Qed.
Print Assumptions C17_deleted_leaf_gone.

(* ---- non-vacuity: concrete histories exercising the hypotheses above *)
Definition ex_history : list op :=
  [Create (nm "a/b/c"); Append (nm "a/b") 1 4; Append (nm "a/b") 2 1; Subscribe (nm "a/b/c");
   Delete (nm "a"); Rename (nm "a/b") (nm "x/y"); Restart; Delete (nm "x/y/c"); Delete (nm "INBOX");
   Rename (nm "x") (nm "x/y/z")].

(* results: the placeholder, the subtree rename with superior creation, the kept subscribed leaf,
   INBOX and the rename into the own subtree refused *)
Example C17_example_results :
  snd (run init ex_history) = [OK; OK; OK; OK; OK; OK; OK; OK; NO; NO].
Proof. vm_compute. reflexivity. Qed.

(* the payload of a/b (two messages, UIDs 1 2, UIDNEXT 3) is at x/y, its child moved too and is a
   subscribed placeholder now; a is a placeholder without children; nothing is left at a/b *)
Example C17_example_tree :
  let T := abs (fst (run init ex_history)) in
  option_map (fun i => (i_uidnext i, i_msgs i)) (T (nm "x/y")) =
    Some (3, [{| m_uid := 1; m_cid := 1; m_flags := 4 |}; {| m_uid := 2; m_cid := 2; m_flags := 1 |}]) /\
  option_map (fun i => (i_placeholder i, i_subscribed i)) (T (nm "x/y/c")) = Some (true, true) /\
  option_map i_placeholder (T (nm "a")) = Some true /\ T (nm "a/b") = None /\ T (nm "a/b/c") = None.
Proof. vm_compute. repeat split. Qed.

(* LIST "" "%" : the parent says \HasChildren although its children are not part of the answer;
   LIST "" "InB*" finds INBOX; LSUB "x/" "*" lists the placeholder *)
Example C17_example_list :
  let st := fst (run init ex_history) in
  map (fun e => (string_of_list_ascii (e_name e), e_attrs e)) (list_cmd st (plain false [] (la "%"))) =
    [("INBOX", [HasNoChildren]); ("Junk", [Special "\Junk"; HasNoChildren]);
     ("Archive", [Special "\Archive"; HasNoChildren]); ("Sent Messages", [Special "\Sent"; HasNoChildren]);
     ("Drafts", [Special "\Drafts"; HasNoChildren]); ("Deleted Messages", [Special "\Trash"; HasNoChildren]);
     ("a", [Noselect; HasNoChildren]); ("x", [HasChildren])]%string /\
  map (fun e => string_of_list_ascii (e_name e)) (list_cmd st (plain false [] (la "InB*"))) = ["INBOX"%string] /\
  map (fun e => (string_of_list_ascii (e_name e), e_attrs e)) (list_cmd st (plain true (la "x/") (la "*"))) =
    [("x/y/c", [Noselect; HasNoChildren])]%string.
Proof. vm_compute. repeat split. Qed.

Example C17_example_glob :
  glob (la "a%c*") (la "abc/d") = true /\ glob (la "a%c") (la "a/c") = false /\
  glob (la "a.b") (la "axb") = false /\ glob (la "%/%") (la "a[b/c d") = true /\
  matches (la "*b") (la "a/b").
Proof.
  repeat split; try (vm_compute; reflexivity). apply (M_star (la "b") (la "a/") (la "b")).
  apply M_lit; [discriminate|discriminate|constructor].
Qed.
