(* C18 — no access without the right password; brute-force throttling holds.
   Statements only; proofs in Proofs/ThrottleP.v.  check_allow / login_failed and the
   three constants are Gen/Throttle.v, regenerated from asimap/throttle.py on every run. *)
From Asimap Require Import Base.Res Gen.Throttle Spec.RefThrottle Model.ThrottleM Proofs.ThrottleP.
Open Scope Z_scope.

(* Every timed sequence of attempts (any users, addresses, outcomes, any length) under a clock
   that does not run backwards gets from the code's tables exactly the verdicts of the reference. *)
Theorem C18_throttle_refines_reference : forall l last,
  monotone last l -> model_run model_init l = Ok (ref_run ref_init l).
Proof. exact throttle_refines. Qed.
Print Assumptions C18_throttle_refines_reference.

(* the same from any reachable state *)
Theorem C18_refines_from_any_state : forall l st hs last,
  st_ok st hs last -> monotone last l -> model_run st l = Ok (ref_run hs l).
Proof. exact run_refines. Qed.
Print Assumptions C18_refines_from_any_state.

(* lockout: more than the permitted chained failures for the user OR the address => refused,
   whatever the password *)
Theorem C18_lockout : forall hs a,
  (user_threshold < eff (fst hs (a_user a)) (a_time a) \/ addr_threshold < eff (snd hs (a_addr a)) (a_time a)) ->
  snd (ref_step hs a) = Throttled.
Proof. exact ref_lockout. Qed.
Print Assumptions C18_lockout.

(* no false lockout: both at or below their thresholds => the throttle does not refuse *)
Theorem C18_no_false_lockout : forall hs a,
  eff (fst hs (a_user a)) (a_time a) <= user_threshold -> eff (snd hs (a_addr a)) (a_time a) <= addr_threshold ->
  snd (ref_step hs a) = (if a_pwok a then Granted else Denied).
Proof. exact ref_no_false_lockout. Qed.
Print Assumptions C18_no_false_lockout.

(* ... until the interval has passed since the last recorded failure *)
Theorem C18_expires : forall h now t h', h = t :: h' -> interval < now - t -> eff h now = 0.
Proof. exact eff_expires. Qed.
Print Assumptions C18_expires.

Theorem C18_wrong_password_never_granted : forall hs a, a_pwok a = false -> snd (ref_step hs a) <> Granted.
Proof. exact ref_wrong_password_never_granted. Qed.
Print Assumptions C18_wrong_password_never_granted.

(* the thresholds and the interval of the property are those of the source *)
Theorem C18_constants : PURGE_TIME = 60 /\ MAX_USER_ATTEMPTS = 4 /\ MAX_ADDR_ATTEMPTS = 5.
Proof. exact (conj purge_time_is_interval (conj user_limit addr_limit)). Qed.
Print Assumptions C18_constants.

(* non-vacuity: five chained failures lock the user out even with the right password,
   and 61 s after the last recorded failure the right password is accepted again *)
Example C18_example :
  let f t := {| a_time := t; a_user := "u"; a_addr := "a"; a_pwok := false |} in
  let g t := {| a_time := t; a_user := "u"; a_addr := "a"; a_pwok := true |} in
  model_run model_init [f 0; f 10; f 20; f 30; f 40; g 50; g 100; g 101] =
  Ok [Denied; Denied; Denied; Denied; Denied; Throttled; Throttled; Granted].
Proof. vm_compute. reflexivity. Qed.
