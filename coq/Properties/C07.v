(* C07 — everything the server sends is well-formed IMAP.
   Only statements closed by `exact`; proofs live in Proofs/FmtP.v (and Proofs/BodyAlgP.v).

   Model/Fmt.v is the formatting code after the C07 fixes (one string encoder used for header
   values, parameters, mailbox names; CR/LF/NUL-free error texts; CRLF on every tagged line).
   Spec/RespTok.v is an independent reader written from RFC 3501.  Header values, mailbox
   names and error texts are arbitrary byte lists. *)
From Asimap Require Import Base.Res Model.BodyAlg Model.Fmt Spec.RespTok Proofs.BodyAlgP Proofs.FmtP Proofs.QuoteBridge.
From Asimap Require Gen.Quote.
Open Scope Z_scope.

(* decoding an encoded string gives back the value, for EVERY byte list (quoted or literal),
   and consumes nothing of what follows *)
Theorem C07_string_roundtrip : forall b rest, read_string (enc_string b ++ rest) = Some (b, rest).
Proof. exact read_string_enc. Qed.
Print Assumptions C07_string_roundtrip.

(* the encoder of the model IS utils.imap_string as regenerated from the source on every run
   (Gen/Quote.v), so the round trip holds of the generated function itself: it never raises, and a
   reader written from the RFC grammar gets back exactly the value and exactly the rest *)
Theorem C07_string_encoder_is_the_generated_one : forall b, Gen.Quote.imap_string b = Ok (enc_string b).
Proof. exact imap_string_is_enc_string. Qed.
Print Assumptions C07_string_encoder_is_the_generated_one.

Theorem C07_generated_string_roundtrip : forall b rest,
  exists w, Gen.Quote.imap_string b = Ok w /\ read_string (w ++ rest) = Some (b, rest).
Proof. exact generated_string_roundtrip. Qed.
Print Assumptions C07_generated_string_roundtrip.

(* unquote (quote b) = b for every byte list without CR/LF/NUL ... *)
Theorem C07_quote_roundtrip : forall b rest, needs_literal b = false ->
  read_quoted (quoted b ++ rest) = Some (b, rest).
Proof. exact read_quoted_quoted. Qed.
Print Assumptions C07_quote_roundtrip.

(* ... and otherwise the encoder chooses a literal whose count is exact *)
Theorem C07_literal_choice : forall b rest, needs_literal b = true ->
  enc_string b = literal b /\ read_literal (literal b ++ rest) = Some (b, rest).
Proof. exact literal_choice. Qed.
Print Assumptions C07_literal_choice.

(* the quoted form has no raw CR/LF/NUL and no unescaped DQUOTE or backslash *)
Theorem C07_no_raw_specials : forall b, needs_literal b = false ->
  exists q, enc_string b = 34 :: q ++ [34] /\ quoted_inner_ok q = true.
Proof. exact no_raw_specials. Qed.
Print Assumptions C07_no_raw_specials.

(* every encoded string, NIL, number, envelope, address list and parameter list is a balanced
   fragment: fed to the response automaton at any parenthesis depth it returns to that depth *)
Theorem C07_balanced_string : forall b, balanced (enc_string b).
Proof. exact balanced_enc_string. Qed.
Print Assumptions C07_balanced_string.

Theorem C07_balanced_envelope : forall e, balanced (envelope e).
Proof. exact balanced_envelope. Qed.
Print Assumptions C07_balanced_envelope.

Theorem C07_balanced_param_list : forall ps, balanced (param_list ps).
Proof. exact balanced_param_list. Qed.
Print Assumptions C07_balanced_param_list.

Theorem C07_balanced_literal : forall b, balanced (literal b).
Proof. exact balanced_literal. Qed.
Print Assumptions C07_balanced_literal.

(* structures assembled from balanced / atomic parts are balanced *)
Theorem C07_balanced_assembly : forall sep ps p,
  balanced sep -> Forall balanced ps -> balanced p ->
  balanced (join sep ps) /\ balanced (paren p).
Proof. exact balanced_assembly. Qed.
Print Assumptions C07_balanced_assembly.

(* the assembled lines are complete responses: the automaton consumes exactly the line (strings,
   literals by count, parentheses back at depth 0, terminating CRLF) and leaves the rest *)
Theorem C07_lines_complete_list : forall attrs name childinfo rest,
  Forall atomic attrs -> Forall no_lit childinfo ->
  run (StN 0) (list_line attrs name childinfo ++ rest) = Some rest.
Proof. exact list_line_complete. Qed.
Print Assumptions C07_lines_complete_list.

Theorem C07_lines_complete_lsub : forall attrs name rest,
  Forall atomic attrs -> run (StN 0) (lsub_line attrs name ++ rest) = Some rest.
Proof. exact lsub_line_complete. Qed.
Print Assumptions C07_lines_complete_lsub.

Theorem C07_lines_complete_status : forall name atts rest,
  Forall (fun a => atomic (fst a)) atts ->
  run (StN 0) (status_line name atts ++ rest) = Some rest.
Proof. exact status_line_complete. Qed.
Print Assumptions C07_lines_complete_status.

Theorem C07_lines_complete_search : forall nums rest,
  run (StN 0) (search_line nums ++ rest) = Some rest.
Proof. exact search_line_complete. Qed.
Print Assumptions C07_lines_complete_search.

Theorem C07_lines_complete_fetch : forall idx parts rest,
  Forall balanced parts -> run (StN 0) (fetch_line idx parts ++ rest) = Some rest.
Proof. exact fetch_line_complete. Qed.
Print Assumptions C07_lines_complete_fetch.

(* tagged lines: whatever the error text is, the line is the tag, the status, the text with
   CR/LF/NUL replaced, and CRLF — one complete line, nothing spills into the next response *)
Theorem C07_lines_complete_tagged : forall tag st text rest,
  no_forbidden tag -> no_forbidden st ->
  read_text_line (tagged_line tag st text ++ rest) =
  Some (tag ++ [SP] ++ st ++ [SP] ++ clean_text text, rest).
Proof. exact tagged_line_complete. Qed.
Print Assumptions C07_lines_complete_tagged.

(* the exception arm (text = " ".join(str(e).split())): complete for every exception text
   that has no NUL; a NUL would be passed through — no reachable instance is known, see the
   MANIFEST note *)
Theorem C07_lines_complete_exception : forall tag text rest,
  no_forbidden tag -> no_nul text ->
  read_text_line (exc_line tag text ++ rest) =
  Some (tag ++ [SP] ++ EXC_PREFIX ++ ws_collapse text, rest).
Proof. exact exc_line_complete. Qed.
Print Assumptions C07_lines_complete_exception.

Theorem C07_clean_text_identity : forall t, no_forbidden t -> clean_text t = t.
Proof. exact clean_id. Qed.
Print Assumptions C07_clean_text_identity.

(* the formatters before the fixes do not have these properties *)
Theorem C07_refuted_old_quote :
  exists b, needs_literal b = false /\ read_string (enc_string_old b) <> Some (b, []).
Proof. exact refuted_old_quote. Qed.
Print Assumptions C07_refuted_old_quote.

Theorem C07_refuted_old_list_line :
  exists name, needs_literal name = false /\ run (StN 0) (list_line_old [] name) = None.
Proof. exact refuted_old_list_line. Qed.
Print Assumptions C07_refuted_old_list_line.

Theorem C07_refuted_old_nocrlf :
  exists tag st text, no_forbidden tag /\ no_forbidden st /\ no_forbidden text /\
    read_text_line (tagged_line_old_nocrlf tag st text) = None.
Proof. exact refuted_old_nocrlf. Qed.
Print Assumptions C07_refuted_old_nocrlf.

(* non-vacuity: a hostile mailbox name in a LIST line, a hostile subject in a FETCH line *)
Example C07_example :
  let name := [97; 34; 98; 92; 99] in                      (* a DQUOTE b BACKSLASH c *)
  let subj := [120; 13; 10; 121] in                        (* x CR LF y -> literal *)
  Forall atomic [[92; 78; 111; 115; 101; 108; 101; 99; 116]] /\
  run (StN 0) (list_line [[92; 78; 111; 115; 101; 108; 101; 99; 116]] name [] ++ [42]) = Some [42] /\
  read_string (enc_string name) = Some (name, []) /\
  enc_string subj = [123; 52; 125; 13; 10; 120; 13; 10; 121] /\
  run (StN 0) (fetch_line 7 [fetch_part [85; 73; 68] (dec 3); enc_string subj]) = Some [].
Proof. repeat split; try (vm_compute; reflexivity). repeat constructor. Qed.
