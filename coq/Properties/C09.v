(* C09 — mailbox names cannot reach outside the user's mail directory.
   Only statements closed by `exact`; proofs live in Proofs/PathP.v.
   Model/Path.v mirrors posixpath.normpath/join, asimap.mbox.canonical_mbox_name (the validator
   added by fixes/C09-confine-mailbox-names.patch) and the paths each command derives;
   Spec/Inside.v says what "inside the mail directory" means (lexically, no symlinks). *)
From Asimap Require Import Base.Res Model.Path Spec.Inside Proofs.PathP.
Open Scope Z_scope.

(* Every path any command derives from its mailbox-name arguments is inside the mail directory:
   for EVERY command, EVERY name/reference/pattern (arbitrary strings) and every root. *)
Theorem C09_confined : forall root c ps,
  root_ok root = true -> cmd_paths root c = Ok ps -> Forall (inside root) ps.
Proof. exact cmd_paths_confined. Qed.
Print Assumptions C09_confined.

(* The same at the level of one name: whatever the validator accepts denotes a folder inside the
   root, and so does every prefix Mailbox.create makes a directory for. *)
Theorem C09_name_confined : forall root name c,
  root_ok root = true -> canonical_mbox_name name = Ok c ->
  inside root (folder_path root c) /\
  Forall (inside root) (map (folder_path root) (create_chain c)).
Proof. exact name_confined. Qed.
Print Assumptions C09_name_confined.

(* A name that — after the server's strip of one leading "/" — is absolute, or lexically leaves the
   directory it is relative to at any point (even if it comes back: "../Mail/x"), is refused ... *)
Theorem C09_refused_otherwise : forall name,
  leaves_root (strip1 name) = true -> canonical_mbox_name name = Err ENo.
Proof. exact canonical_refuses. Qed.
Print Assumptions C09_refused_otherwise.

(* ... in the words of the fix: a normal form that is absolute, is "..", or starts with "../" ... *)
Theorem C09_refused_normal_form : forall name,
  strip1 name <> [] -> escapes (normpath (strip1 name)) = true -> canonical_mbox_name name = Err ENo.
Proof. exact canonical_refuses_normal_form. Qed.
Print Assumptions C09_refused_normal_form.

(* ... and a command with such a name in any name position (RENAME: both; LIST/LSUB: reference,
   normalised pattern, and their concatenation) derives no path at all: it is refused. *)
Theorem C09_command_refused : forall root c n,
  In n (cmd_names c) -> leaves_root (strip1 n) = true -> cmd_paths root c = Err ENo.
Proof. exact cmd_paths_refused. Qed.
Print Assumptions C09_command_refused.

(* The validator refuses nothing else: it accepts exactly the names that stay inside. *)
Theorem C09_accept_iff : forall name,
  (exists c, canonical_mbox_name name = Ok c) <-> leaves_root (strip1 name) = false.
Proof. exact canonical_accept_iff. Qed.
Print Assumptions C09_accept_iff.

(* Canonical names are fixpoints of the validator (get_mailbox re-validates names that Mailbox.create,
   delete and rename already canonicalised; database rows are canonical names). *)
Theorem C09_canonical_idempotent : forall name c,
  canonical_mbox_name name = Ok c -> canonical_mbox_name c = Ok c.
Proof. exact canonical_idempotent. Qed.
Print Assumptions C09_canonical_idempotent.

(* After ANY history of commands, every row of the mailbox table (all that LIST/LSUB can show and
   LIST-STATUS can open) is a name whose folder is inside the mail directory. *)
Theorem C09_db_rows_inside : forall root ops r,
  root_ok root = true -> In r (db_run ops) -> inside root (folder_path root r).
Proof. exact db_rows_inside. Qed.
Print Assumptions C09_db_rows_inside.

(* normpath facts the validator relies on *)
Theorem C09_normpath_idempotent : forall s, normpath (normpath s) = normpath s.
Proof. exact normpath_idempotent. Qed.
Print Assumptions C09_normpath_idempotent.

(* all ".." components of a normal form are at its start ... *)
Theorem C09_normpath_dotdot_leading : forall s,
  exists k rest, split_slash (normpath s) = repeat s_dotdot k ++ rest /\ ~ In s_dotdot rest.
Proof. exact normpath_dotdot_leading. Qed.
Print Assumptions C09_normpath_dotdot_leading.

(* ... so a ".." never follows a component of another kind *)
Theorem C09_normpath_no_inner_dotdot : forall s pre c post,
  split_slash (normpath s) = pre ++ c :: s_dotdot :: post -> c = s_dotdot.
Proof. exact normpath_no_inner_dotdot. Qed.
Print Assumptions C09_normpath_no_inner_dotdot.

(* non-vacuity.  root = "/m"; "/a//b/./c/../d" is accepted as "a/b/d" and CREATE derives paths, all
   inside; "a/../../x" (normal form "../x"), "//abs" and ".." are refused; a path that is not inside. *)
Example C09_example :
  let root := [47; 109] in
  root_ok root = true /\
  canonical_mbox_name [47; 97; 47; 47; 98; 47; 46; 47; 99; 47; 46; 46; 47; 100] = Ok [97; 47; 98; 47; 100] /\
  (exists ps, cmd_paths root (CCreate [97; 47; 98]) = Ok ps /\ In [47; 109; 47; 97; 47; 98] ps /\ Forall (inside root) ps) /\
  leaves_root (strip1 [97; 47; 46; 46; 47; 46; 46; 47; 120]) = true /\
  normpath [97; 47; 46; 46; 47; 46; 46; 47; 120] = [46; 46; 47; 120] /\
  canonical_mbox_name [97; 47; 46; 46; 47; 46; 46; 47; 120] = Err ENo /\
  canonical_mbox_name [47; 47; 97; 98; 115] = Err ENo /\
  cmd_paths root (CRename [105; 110; 98; 111; 120] [46; 46]) = Err ENo /\
  cmd_paths root (CList [46; 46] [42]) = Err ENo /\
  insideb root [47; 109; 47; 46; 46; 47; 100; 101; 99; 111; 121] = false.
Proof.
  cbv zeta. repeat split; try (vm_compute; reflexivity).
  eexists; split; [vm_compute; reflexivity|]. split; [vm_compute; tauto|].
  apply cmd_paths_confined with (c := CCreate [97; 47; 98]); vm_compute; reflexivity.
Qed.

(* non-vacuity of the table invariant: CREATE a/b, then RENAME a c rewrites both rows; an escaping
   CREATE adds nothing. *)
Example C09_db_example :
  db_run [OpCreate [97; 47; 98]; OpCreate [46; 46; 47; 120]; OpRename [97] [99] (fun r => startswith r [97])]
  = [[99]; [99; 47; 98]].
Proof. vm_compute. reflexivity. Qed.
