(* C13 — mail delivered by MH tools appears correctly; MH tools see IMAP flag changes.
   Statements only.  The folder an MH agent writes to is b_disk of Model/Mbox.v; the resync
   (check_new_msgs_and_flags) is [resync].  The `.mh_sequences` half of the property is decided on
   the implementation by the check's oracle (the file is compared with the sessions' view after
   every command); the model carries the sequence names per message, whose complement law is
   proved below. *)
From Asimap Require Import Base.Res Spec.SetSem Model.Mbox Proofs.MboxInv Proofs.MboxStep Proofs.MboxLe Proofs.MboxExact Proofs.MboxFlags.
Open Scope Z_scope.

(* delivered messages are appended at the end, in MH-number order, with UIDs >= the old UIDNEXT and
   \Recent; every message that was there keeps its position, UID, content, date and flags *)
Theorem C13_delivery_appended : forall b,
  b_disk b <> [] ->
  b_msgs (fst (resync b)) = b_msgs b ++ fresh_of b /\
  Forall (fun m => b_next b <= m_uid m /\ smem "Recent" (m_seqs m) = true) (fresh_of b).
Proof. exact delivery_appended. Qed.
Print Assumptions C13_delivery_appended.

(* every selected session is told: the resync keeps the FIFO/view invariant, i.e. EXISTS (and the
   FETCH for each new message) is either delivered or queued in order for every client *)
Theorem C13_sessions_are_told : forall b, boxinv b -> boxinv (fst (resync b)).
Proof. exact resync_inv. Qed.
Print Assumptions C13_sessions_are_told.

(* the agent's flags are taken as given: a delivered message is \Seen exactly when it was not listed
   in `unseen`, and that stays a complement in every reachable world *)
Theorem C13_seen_iff_not_unseen : forall ps pn pd ops n b,
  get_box (fst (run (init_world ps pn pd) ops)) n = Some b ->
  Forall (fun m => smem "Seen" (m_seqs m) = negb (smem "unseen" (m_seqs m))) (b_msgs b) /\
  Forall (fun m => smem "Seen" (m_seqs m) = negb (smem "unseen" (m_seqs m))) (b_disk b).
Proof. exact reachable_wP. Qed.
Print Assumptions C13_seen_iff_not_unseen.

(* removing messages removes exactly them (so nothing of them can be left to inherit) *)
Theorem C13_removed_exactly : forall b del, b_msgs (fst (expunge b del)) = filter (fun m => negb (del m)) (b_msgs b).
Proof. exact expunge_exact. Qed.
Print Assumptions C13_removed_exactly.

Example C13_example :
  let ops := [OAppend 1 "inbox" [] 10 1; OSelect 1 "inbox" false; OIdle 1; ODeliver "inbox" 2 true 7 50; OPoll] in
  let '(w, outs) := run (init_world 100 4 5) ops in
  (match get_box w "inbox" with Some b => map (fun m => (m_uid m, m_cid m, m_seqs m)) (b_msgs b) | None => [] end,
   map (fun p => match snd p with RExists n _ => n | _ => 0 end) (last outs []))
  = ([(1, 1, ["unseen"; "Recent"]%string); (2, 7, ["unseen"; "Recent"]%string); (3, 8, ["unseen"; "Recent"]%string)],
     [3; 0; 0; 0]).
Proof. vm_compute. reflexivity. Qed.
