(* C13 — mail delivered by MH tools appears correctly; MH tools see IMAP flag changes.
   Statements only.  The folder an MH agent writes to is b_disk of Model/Mbox.v; the resync
   (check_new_msgs_and_flags) is [resync].  The `.mh_sequences` half of the property is decided on
   the implementation by the check's oracle (the file is compared with the sessions' view after
   every command); the model carries the sequence names per message, whose complement law is
   proved below. *)
From Asimap Require Import Base.Res Spec.SetSem Model.Mbox Model.MhSeq Proofs.MboxInv Proofs.MboxStep Proofs.MboxLe Proofs.MboxExact Proofs.MboxFlags Proofs.MhSeqP Proofs.MhSeqWorld Proofs.MboxKeys.
From Coq Require Import Sorting.Sorted.
Open Scope Z_scope.

(* delivered messages are appended at the end, in MH-number order, with UIDs >= the old UIDNEXT and
   \Recent; every message that was there keeps its position, UID, content, date and flags *)
Theorem C13_delivery_appended : forall b,
  b_disk b <> [] ->
  b_msgs (fst (resync b)) = b_msgs b ++ fresh_of b /\
  Forall (fun m => b_next b <= m_uid m /\ smem "Recent" (m_seqs m) = true) (fresh_of b).
Proof. exact delivery_appended. Qed.
Print Assumptions C13_delivery_appended.

(* every selected session is told: the resync keeps the FIFO/view invariant, i.e. EXISTS (and the
   FETCH for each new message) is either delivered or queued in order for every client *)
Theorem C13_sessions_are_told : forall b, boxinv b -> boxinv (fst (resync b)).
Proof. exact resync_inv. Qed.
Print Assumptions C13_sessions_are_told.

(* the agent's flags are taken as given: a delivered message is \Seen exactly when it was not listed
   in `unseen`, and that stays a complement in every reachable world *)
Theorem C13_seen_iff_not_unseen : forall ps pn pd ops n b,
  get_box (fst (run (init_world ps pn pd) ops)) n = Some b ->
  Forall (fun m => smem "Seen" (m_seqs m) = negb (smem "unseen" (m_seqs m))) (b_msgs b) /\
  Forall (fun m => smem "Seen" (m_seqs m) = negb (smem "unseen" (m_seqs m))) (b_disk b).
Proof. exact reachable_wP. Qed.
Print Assumptions C13_seen_iff_not_unseen.

(* removing messages removes exactly them (so nothing of them can be left to inherit) *)
Theorem C13_removed_exactly : forall b del, b_msgs (fst (expunge b del)) = filter (fun m => negb (del m)) (b_msgs b).
Proof. exact expunge_exact. Qed.
Print Assumptions C13_removed_exactly.

(* ---- the content of `.mh_sequences` (Model/MhSeq.v: Mailbox.set_sequences_in_folder and
   _get_sequences_update_seen as set computations) ----
   What the server hands to MH.set_sequences lists, for every sequence name and every message key,
   exactly: the keys of the server's own sequences, plus what the folder's file says about keys above
   every key the server knows that the server has not just removed itself.  Nothing else. *)
Theorem C13_written_sequences_exact : forall msg_keys s forget folder name k,
  In k (seq_of (written msg_keys s forget folder) name) <->
  In k (seq_of s name) \/
  (exists keys, In (name, keys) folder /\ In k keys /\ highest_key msg_keys < k /\ ~ In k forget).
Proof. exact written_spec. Qed.
Print Assumptions C13_written_sequences_exact.

(* MH tools see IMAP flag changes: for every message the server knows (its keys are strictly
   ascending, so all are <= the last), the file says exactly what the server's sequences say *)
Theorem C13_mh_tools_see_flags : forall msg_keys s forget folder name k,
  StronglySorted Z.lt msg_keys -> Forall (fun x => 0 <= x) msg_keys -> In k msg_keys ->
  (In k (seq_of (written msg_keys s forget folder) name) <-> In k (seq_of s name)).
Proof. exact written_known_sorted. Qed.
Print Assumptions C13_mh_tools_see_flags.

(* a delivery the server has not taken in yet keeps what the MH tool said about it (`unseen`) *)
Theorem C13_untaken_delivery_keeps_its_sequences : forall msg_keys s forget folder name keys k,
  In (name, keys) folder -> In k keys -> highest_key msg_keys < k -> ~ In k forget ->
  In k (seq_of (written msg_keys s forget folder) name).
Proof. exact written_keeps_newer. Qed.
Print Assumptions C13_untaken_delivery_keeps_its_sequences.

(* a message the server has just removed leaves nothing behind for a later message to inherit *)
Theorem C13_removed_keys_forgotten : forall msg_keys s forget folder name k,
  In k forget -> (In k (seq_of (written msg_keys s forget folder) name) <-> In k (seq_of s name)).
Proof. exact written_forgets. Qed.
Print Assumptions C13_removed_keys_forgotten.

(* reading the file: Seen becomes the complement of unseen among the folder's messages, Recent gains
   the new keys, every other sequence is taken as the MH tool left it *)
Theorem C13_seen_is_complement_of_unseen : forall msg_keys s recent k,
  In k (seq_of (update_seen msg_keys s recent) "Seen") <-> In k msg_keys /\ ~ In k (seq_of s "unseen").
Proof. exact update_seen_seen. Qed.
Print Assumptions C13_seen_is_complement_of_unseen.

Theorem C13_recent_gains_new_keys : forall msg_keys s recent k,
  In k (seq_of (update_seen msg_keys s recent) "Recent") <-> In k (seq_of s "Recent") \/ In k recent.
Proof. exact update_seen_recent. Qed.
Print Assumptions C13_recent_gains_new_keys.

Theorem C13_other_sequences_untouched : forall msg_keys s recent name,
  name <> "Seen"%string -> name <> "Recent"%string ->
  seq_of (update_seen msg_keys s recent) name = seq_of s name.
Proof. exact update_seen_others. Qed.
Print Assumptions C13_other_sequences_untouched.

(* a second look at an unchanged folder derives the same sets (no flapping between polls) *)
Theorem C13_second_look_changes_nothing : forall msg_keys s recent name k,
  In k (seq_of (update_seen msg_keys (update_seen msg_keys s recent) []) name) <->
  In k (seq_of (update_seen msg_keys s recent) name).
Proof. exact update_seen_idempotent. Qed.
Print Assumptions C13_second_look_changes_nothing.

(* the two models meet: the server's sequences are the transpose of the world model's per-message
   sequence names; whatever the folder's file said before and whatever the server has just removed,
   after the write an MH tool finds a message the server knows under a name exactly when the world
   model's message carries that name *)
Theorem C13_mh_tool_reads_world_flags : forall names msgs forget folder name m,
  StronglySorted Z.lt (map m_key msgs) -> Forall (fun k => 0 <= k) (map m_key msgs) ->
  In m msgs -> In name names ->
  (In (m_key m) (seq_of (written (map m_key msgs) (seqs_of_msgs names msgs) forget folder) name)
   <-> has_seq name m = true).
Proof. exact mh_tool_reads_world_flags. Qed.
Print Assumptions C13_mh_tool_reads_world_flags.

(* the hypotheses hold in every reachable world: message numbers are positive and strictly ascending
   (known messages in list order, then the files not taken in yet) after any history of commands,
   deliveries, packs and restarts ... *)
Theorem C13_message_numbers_ascending : forall ps pn pd ops n b,
  get_box (fst (run (init_world ps pn pd) ops)) n = Some b ->
  StronglySorted Z.lt (map m_key (b_msgs b)) /\ Forall (fun k => 0 <= k) (map m_key (b_msgs b)).
Proof. exact reachable_keys_ascending. Qed.
Print Assumptions C13_message_numbers_ascending.

(* ... so for every mailbox of every reachable world: after the server has written `.mh_sequences`, an MH
   tool finds each message the server knows under a sequence name exactly when the message carries it *)
Theorem C13_reachable_mh_tool_reads_world_flags : forall ps pn pd ops n b names forget folder name m,
  get_box (fst (run (init_world ps pn pd) ops)) n = Some b ->
  In m (b_msgs b) -> In name names ->
  (In (m_key m) (seq_of (written (map m_key (b_msgs b)) (seqs_of_msgs names (b_msgs b)) forget folder) name)
   <-> has_seq name m = true).
Proof. exact reachable_mh_tool_reads_world_flags. Qed.
Print Assumptions C13_reachable_mh_tool_reads_world_flags.

Theorem C13_no_sequence_invented : forall names msgs name k,
  In k (seq_of (seqs_of_msgs names msgs) name) -> exists m, In m msgs /\ m_key m = k /\ has_seq name m = true.
Proof. exact transpose_only_names. Qed.
Print Assumptions C13_no_sequence_invented.

Example C13_world_file_example :
  let msgs := [ {| m_key := 2; m_uid := 5; m_cid := 1; m_date := 0; m_seqs := ["Seen"; "flagged"] |};
                {| m_key := 7; m_uid := 6; m_cid := 2; m_date := 0; m_seqs := ["unseen"; "Recent"] |} ]%string in
  let w := written (map m_key msgs) (seqs_of_msgs ["Seen"; "unseen"; "flagged"; "Recent"]%string msgs) []
                   [("unseen", [2; 9]); ("flagged", [7])]%string in
  (seq_of w "Seen", seq_of w "unseen", seq_of w "flagged", seq_of w "Recent") = ([2], [7; 9], [2], [7]).
Proof. vm_compute. reflexivity. Qed.

(* the server knows 1-3 (3 flagged, 2 unseen); an MH tool has delivered 4 and 5 (unseen) and the server
   has just removed 5: the file keeps 4 in unseen, drops 5, lists the known messages as the server has them *)
Example C13_mhseq_example :
  let w := written [1; 2; 3] [("flagged", [3]); ("unseen", [2]); ("Seen", [1; 3])]%string [5]
                   [("unseen", [2; 4; 5]); ("flagged", [1])]%string in
  (seq_of w "unseen", seq_of w "flagged", seq_of w "Seen") = ([2; 4], [3], [1; 3]) /\
  seq_of (update_seen [1; 2; 3; 4] [("unseen", [2; 4]); ("Seen", [1])]%string [4]) "Seen" = [1; 3].
Proof. split; vm_compute; reflexivity. Qed.

Example C13_example :
  let ops := [OAppend 1 "inbox" [] 10 1; OSelect 1 "inbox" false; OIdle 1; ODeliver "inbox" 2 true 7 50; OPoll] in
  let '(w, outs) := run (init_world 100 4 5) ops in
  (match get_box w "inbox" with Some b => map (fun m => (m_uid m, m_cid m, m_seqs m)) (b_msgs b) | None => [] end,
   map (fun p => match snd p with RExists n _ => n | _ => 0 end) (last outs []))
  = ([(1, 1, ["unseen"; "Recent"]%string); (2, 7, ["unseen"; "Recent"]%string); (3, 8, ["unseen"; "Recent"]%string)],
     [3; 0; 0; 0]).
Proof. vm_compute. reflexivity. Qed.
