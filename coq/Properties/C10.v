(* C10 — concurrent sessions behave like some sequential order and never deadlock.
   Statements only; proofs in Proofs/SchedP.v.  PARTIAL by nature (see DESIGN.md 6/C10): what is
   proved is (1) the admission relation of mbox.py is sound for the declared footprints of the
   commands, (2) steps with commuting effects make EVERY interleaving equal to a serial execution,
   for any number of commands and steps, (3) the hold-one-mailbox-at-a-time discipline of
   COPY/MOVE excludes deadlock in every reachable state.  That the real command bodies have the
   declared footprints and that asyncio eventually runs every enabled step are assumptions,
   exercised by the schedule exploration of the check (with the linearizability oracle
   Model/Linear.v over the sequential model of C01-C05). *)
From Asimap Require Import Base.Res Spec.SetSem Model.Mbox Model.Sched Model.Phases Proofs.MboxInv Proofs.MboxOut Proofs.SchedP Proofs.PhasesP Proofs.PhasesTie Proofs.PhasesTie2.
Open Scope Z_scope.

Theorem C10_conflict_sound : forall running deleted c r delr,
  would_conflict running deleted c = false -> asym running c = false ->
  In r running -> fp_clash (fp deleted c) (fp delr r) = false.
Proof. exact conflict_sound. Qed.
Print Assumptions C10_conflict_sound.

(* two commands *)
Theorem C10_interleaving_is_serial : forall (S : Type) (a b l : list (@astep S)),
  interleave a b l -> (forall f g, In f a -> In g b -> commute f g) -> forall s, runs l s = runs (a ++ b) s.
Proof. exact @interleave_serial. Qed.
Print Assumptions C10_interleaving_is_serial.
(* any number of commands *)
Theorem C10_interleaving_all_is_serial : forall (S : Type) (cs : list (list (@astep S))) (l : list (@astep S)),
  interleave_all cs l ->
  (forall c1 c2 f g, In c1 cs -> In c2 cs -> c1 <> c2 -> In f c1 -> In g c2 -> commute f g) ->
  NoDup cs -> forall s, runs l s = runs (List.concat cs) s.
Proof. exact @interleave_all_serial. Qed.
Print Assumptions C10_interleaving_all_is_serial.

(* no deadlock: commands that never ask for a mailbox while holding one (single-mailbox commands,
   COPY and MOVE as copy() and do_move() queue them) always leave some command able to move *)
Theorem C10_progress : forall ts,
  forallb task_ok ts = true -> existsb unfinished ts = true -> exists t, In t ts /\ enabled ts t = true.
Proof. exact progress. Qed.
Print Assumptions C10_progress.
Theorem C10_discipline_preserved : forall ts ts', sys_step ts ts' -> forallb task_ok ts = true -> forallb task_ok ts' = true.
Proof. exact all_ok_step. Qed.
Print Assumptions C10_discipline_preserved.
Theorem C10_mutual_exclusion : forall ts ts',
  sys_step ts ts' -> forallb task_ok ts = true -> NoDup (all_holds ts) -> NoDup (all_holds ts').
Proof. exact mutex_step. Qed.
Print Assumptions C10_mutual_exclusion.
Theorem C10_command_scripts_obey : forall m src dst,
  script_ok false (script_single m) = true /\ script_ok false (script_copy src dst) = true /\
  script_ok false (script_move src dst) = true.
Proof. exact scripts_ok. Qed.
Print Assumptions C10_command_scripts_obey.

(* FETCH, STORE and SEARCH as the two steps they are (Model/Phases.v): arrival - the gate on the notification queue - and,
   after the management task has let the command through, execution with the gate repeated.  Between the two steps of
   one session ANY events of other sessions may take place (whole commands, arrivals, executions, deliveries, polls). *)
(* every world reachable by any interleaving satisfies the structural invariant: each session's replayed view is legal
   and what it was sent plus what is queued for it is the server's list (C01's invariant, now under concurrency) *)
Theorem C10_any_interleaving_keeps_invariant : forall a b c (es : list event), winv (fst (ev_run (init_world a b c) es)).
Proof. exact ev_reachable_inv. Qed.
Print Assumptions C10_any_interleaving_keeps_invariant.
(* ... and in every such world neither half of a non-UID FETCH/STORE/SEARCH sends its session an EXPUNGE *)
Theorem C10_no_expunge_in_any_interleaving : forall a b c es s cmd,
  p_uid cmd = false ->
  let w := fst (ev_run (init_world a b c) es) in
  clean_for s (snd (ev_step w (EArrive s cmd))) /\ clean_for s (snd (ev_step w (EExecute s cmd))).
Proof. exact no_expunge_in_any_interleaving. Qed.
Print Assumptions C10_no_expunge_in_any_interleaving.
(* the numbers an executing command is about to resolve are numbers of the list its client has been told about *)
Theorem C10_executes_on_the_known_list : forall b s u b1 o1,
  boxinv b -> gate (fst (resync b)) s u true = Some (b1, o1) -> all_s (fun c => c_view c = uids b1) b1 s.
Proof. exact execute_synced. Qed.
Print Assumptions C10_executes_on_the_known_list.
(* the atomic commands of the sequential model (C01-C05) are the two-step commands with nothing in between *)
Theorem C10_atomic_is_arrive_then_execute : forall w s c,
  winv w ->
  snd (step w (to_op s c)) = (let '(w1, o1, go) := arrive w s c in if go then o1 ++ snd (execute w1 s c) else o1).
Proof. exact step_is_arrive_then_execute. Qed.
Print Assumptions C10_atomic_is_arrive_then_execute.
(* ... and leave the same world: equal when the command is carried out or refused; when the message set is out of
   range (BAD) equal up to a second flush of an already empty queue, which changes no message, counter or session entry *)
Theorem C10_atomic_world_is_arrive_then_execute : forall w s c,
  winv w ->
  world_same (let '(w1, _, go) := arrive w s c in if go then fst (execute w1 s c) else w1) (fst (step w (to_op s c))).
Proof. exact step_world_is_arrive_then_execute. Qed.
Print Assumptions C10_atomic_world_is_arrive_then_execute.
(* sharpness: the history that made the second gate necessary.  Gated: refused, view legal.  Ungated (the code before
   commit 1902352): "* 2 FETCH" for UID 3 at a position the client knows as UID 2, an EXPUNGE inside a non-UID FETCH *)
Example C10_example_gate_after_waiting :
  snd (execute ex_world 1 ex_cmd) = [(1, RNo)] /\ views (fst (execute ex_world 1 ex_cmd)) = [(1, true, [1; 2; 3]); (2, true, [1; 3])].
Proof. exact gated_refuses. Qed.
Example C10_refuted_without_second_gate :
  exists r g, In (1, RFetch 2 r None g) (snd (execute_gen false ex_world 1 ex_cmd)) /\ g = 3 /\
              In (1, RExpunge 2) (snd (execute_gen false ex_world 1 ex_cmd)) /\
              existsb (fun v => negb (snd (fst v))) (views (fst (execute_gen false ex_world 1 ex_cmd))) = true.
Proof. exact ungated_desynchronises. Qed.

(* non-vacuity / sharpness: the asymmetric case of the admission relation, and the deadlock that the
   discipline excludes *)
Example C10_example_asymmetry :
  let nonpeek := {| c_kind := KFetch false; c_set := [1] |} in
  let peek := {| c_kind := KFetch true; c_set := [1] |} in
  would_conflict [nonpeek] false peek = false /\ would_conflict [peek] false nonpeek = true /\
  fp_clash (fp false peek) (fp false nonpeek) = true.
Proof. exact conflict_asymmetry. Qed.
Example C10_example_expunge_waits_for_store :
  let store := {| c_kind := KStore; c_set := [2] |} in
  let fetch := {| c_kind := KFetch true; c_set := [2] |} in
  let exp := {| c_kind := KExpunge; c_set := [] |} in
  fp_clash (fp false exp) (fp false store) = true /\ would_conflict [store] false exp = true /\
  would_conflict [fetch] false exp = false.
Proof. exact expunge_waits_for_store. Qed.
Example C10_example_deadlock_without_discipline :
  let ts := [ {| t_script := [Acq 2; Work; Rel; Rel]; t_holds := [1] |};
              {| t_script := [Acq 1; Work; Rel; Rel]; t_holds := [2] |} ] in
  existsb unfinished ts = true /\ forallb (fun t => negb (enabled ts t)) ts = true.
Proof. exact holding_while_asking_deadlocks. Qed.
