(* C10 — concurrent sessions behave like some sequential order and never deadlock.
   Statements only; proofs in Proofs/SchedP.v.  PARTIAL by nature (see DESIGN.md 6/C10): what is
   proved is (1) the admission relation of mbox.py is sound for the declared footprints of the
   commands, (2) steps with commuting effects make EVERY interleaving equal to a serial execution,
   for any number of commands and steps, (3) the hold-one-mailbox-at-a-time discipline of
   COPY/MOVE excludes deadlock in every reachable state.  That the real command bodies have the
   declared footprints and that asyncio eventually runs every enabled step are assumptions,
   exercised by the schedule exploration of the check (with the linearizability oracle
   Model/Linear.v over the sequential model of C01-C05). *)
From Asimap Require Import Base.Res Model.Sched Proofs.SchedP.
Open Scope Z_scope.

Theorem C10_conflict_sound : forall running deleted c r delr,
  would_conflict running deleted c = false -> asym running c = false ->
  In r running -> fp_clash (fp deleted c) (fp delr r) = false.
Proof. exact conflict_sound. Qed.
Print Assumptions C10_conflict_sound.

(* two commands *)
Theorem C10_interleaving_is_serial : forall (S : Type) (a b l : list (@astep S)),
  interleave a b l -> (forall f g, In f a -> In g b -> commute f g) -> forall s, runs l s = runs (a ++ b) s.
Proof. exact @interleave_serial. Qed.
Print Assumptions C10_interleaving_is_serial.
(* any number of commands *)
Theorem C10_interleaving_all_is_serial : forall (S : Type) (cs : list (list (@astep S))) (l : list (@astep S)),
  interleave_all cs l ->
  (forall c1 c2 f g, In c1 cs -> In c2 cs -> c1 <> c2 -> In f c1 -> In g c2 -> commute f g) ->
  NoDup cs -> forall s, runs l s = runs (List.concat cs) s.
Proof. exact @interleave_all_serial. Qed.
Print Assumptions C10_interleaving_all_is_serial.

(* no deadlock: commands that never ask for a mailbox while holding one (single-mailbox commands,
   COPY and MOVE as copy() and do_move() queue them) always leave some command able to move *)
Theorem C10_progress : forall ts,
  forallb task_ok ts = true -> existsb unfinished ts = true -> exists t, In t ts /\ enabled ts t = true.
Proof. exact progress. Qed.
Print Assumptions C10_progress.
Theorem C10_discipline_preserved : forall ts ts', sys_step ts ts' -> forallb task_ok ts = true -> forallb task_ok ts' = true.
Proof. exact all_ok_step. Qed.
Print Assumptions C10_discipline_preserved.
Theorem C10_mutual_exclusion : forall ts ts',
  sys_step ts ts' -> forallb task_ok ts = true -> NoDup (all_holds ts) -> NoDup (all_holds ts').
Proof. exact mutex_step. Qed.
Print Assumptions C10_mutual_exclusion.
Theorem C10_command_scripts_obey : forall m src dst,
  script_ok false (script_single m) = true /\ script_ok false (script_copy src dst) = true /\
  script_ok false (script_move src dst) = true.
Proof. exact scripts_ok. Qed.
Print Assumptions C10_command_scripts_obey.

(* non-vacuity / sharpness: the asymmetric case of the admission relation, and the deadlock that the
   discipline excludes *)
Example C10_example_asymmetry :
  let nonpeek := {| c_kind := KFetch false; c_set := [1] |} in
  let peek := {| c_kind := KFetch true; c_set := [1] |} in
  would_conflict [nonpeek] false peek = false /\ would_conflict [peek] false nonpeek = true /\
  fp_clash (fp false peek) (fp false nonpeek) = true.
Proof. exact conflict_asymmetry. Qed.
Example C10_example_expunge_waits_for_store :
  let store := {| c_kind := KStore; c_set := [2] |} in
  let fetch := {| c_kind := KFetch true; c_set := [2] |} in
  let exp := {| c_kind := KExpunge; c_set := [] |} in
  fp_clash (fp false exp) (fp false store) = true /\ would_conflict [store] false exp = true /\
  would_conflict [fetch] false exp = false.
Proof. exact expunge_waits_for_store. Qed.
Example C10_example_deadlock_without_discipline :
  let ts := [ {| t_script := [Acq 2; Work; Rel; Rel]; t_holds := [1] |};
              {| t_script := [Acq 1; Work; Rel; Rel]; t_holds := [2] |} ] in
  existsb unfinished ts = true /\ forallb (fun t => negb (enabled ts t)) ts = true.
Proof. exact holding_while_asking_deadlocks. Qed.
