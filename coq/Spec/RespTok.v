(* Spec/RespTok.v — an independent reader of the pieces of an IMAP response (RFC 3501 §4.3,
   §9 `string`, `literal`, `quoted`), written from the RFC, not from the code.  Definitions only.

   * read_literal : "{" number "}" CRLF then exactly that many octets
   * read_quoted  : DQUOTE *QUOTED-CHAR DQUOTE with "\" escaping only DQUOTE and "\";
                    raw CR, LF, NUL, a lone "\" or a missing closing quote are errors
   * read_string  : quoted / literal
   * quoted_inner_ok : the text between the quotes obeys the quoted-string rules
   * run          : a byte-at-a-time automaton that consumes exactly one response:
                    quoted strings, literals by count, parenthesis depth; the response ends
                    at the first CRLF outside strings/literals and the depth must be 0 there
   * read_text_line : a status response's human-readable line: no NUL/CR/LF before the CRLF

   Octets >= 128 are accepted inside quoted strings: the property text forbids raw CR, LF,
   unescaped DQUOTE and backslash only (RFC 3501 itself is 7-bit there; see MANIFEST note). *)
From Asimap Require Import Base.Res.
From Coq Require Import Decimal DecimalN NArith.
Open Scope Z_scope.

(* ------------------------------------------------------------------ numbers *)
Definition digit_val (b : Z) : option N :=
  if (48 <=? b) && (b <=? 57) then Some (Z.to_N (b - 48)) else None.

(* 1*DIGIT, most significant first; returns the value and the rest *)
Fixpoint read_digits (acc : N) (seen : bool) (l : list Z) : option (N * list Z) :=
  match l with
  | [] => if seen then Some (acc, []) else None
  | b :: t =>
      match digit_val b with
      | Some d => read_digits (10 * acc + d)%N true t
      | None => if seen then Some (acc, l) else None
      end
  end.

Definition read_number (l : list Z) : option (N * list Z) := read_digits 0%N false l.

Definition expect (b : Z) (l : list Z) : option (list Z) :=
  match l with
  | x :: t => if x =? b then Some t else None
  | [] => None
  end.

(* exactly n octets *)
Fixpoint take_n (n : Z) (l : list Z) : option (list Z * list Z) :=
  match l with
  | [] => if n <=? 0 then Some ([], []) else None
  | x :: t =>
      if n <=? 0 then Some ([], l)
      else match take_n (n - 1) t with
           | Some (a, r) => Some (x :: a, r)
           | None => None
           end
  end.

Definition read_literal (l : list Z) : option (list Z * list Z) :=
  match expect 123 l with
  | None => None
  | Some l1 =>
      match read_number l1 with
      | None => None
      | Some (n, l2) =>
          match expect 125 l2 with
          | None => None
          | Some l3 =>
              match expect 13 l3 with
              | None => None
              | Some l4 =>
                  match expect 10 l4 with
                  | None => None
                  | Some l5 => take_n (Z.of_N n) l5
                  end
              end
          end
      end
  end.

(* ------------------------------------------------------------------ quoted strings *)
Definition is_qspecial (b : Z) : bool := (b =? 34) || (b =? 92).
Definition is_forbidden (b : Z) : bool := (b =? 13) || (b =? 10) || (b =? 0).

(* after the opening DQUOTE: decoded value and the rest after the closing DQUOTE *)
Fixpoint read_qtail (l : list Z) : option (list Z * list Z) :=
  match l with
  | [] => None
  | b :: t =>
      if b =? 34 then Some ([], t)
      else if b =? 92 then
        match t with
        | c :: t' =>
            if is_qspecial c then
              match read_qtail t' with
              | Some (v, r) => Some (c :: v, r)
              | None => None
              end
            else None
        | [] => None
        end
      else if is_forbidden b then None
      else match read_qtail t with
           | Some (v, r) => Some (b :: v, r)
           | None => None
           end
  end.

Definition read_quoted (l : list Z) : option (list Z * list Z) :=
  match expect 34 l with
  | Some t => read_qtail t
  | None => None
  end.

Definition read_string (l : list Z) : option (list Z * list Z) :=
  match l with
  | b :: _ => if b =? 34 then read_quoted l else if b =? 123 then read_literal l else None
  | [] => None
  end.

(* the text between the quotes: no raw CR/LF/NUL, no DQUOTE or "\" that is not escaped,
   every "\" escapes a DQUOTE or a "\" *)
Fixpoint quoted_inner_ok (l : list Z) : bool :=
  match l with
  | [] => true
  | b :: t =>
      if b =? 92 then
        match t with
        | c :: t' => is_qspecial c && quoted_inner_ok t'
        | [] => false
        end
      else if (b =? 34) || is_forbidden b then false
      else quoted_inner_ok t
  end.

(* ------------------------------------------------------------------ one whole response *)
Inductive st :=
| StN (d : nat)                 (* between tokens, parenthesis depth d *)
| StQ (d : nat)                 (* inside a quoted string *)
| StQE (d : nat)                (* after "\" inside a quoted string *)
| StLB (d : nat) (n : N) (seen : bool)   (* after "{", reading the count *)
| StLC (d : nat) (n : N)        (* after "}", CR expected *)
| StLL (d : nat) (n : N)        (* after "}" CR, LF expected *)
| StSK (d : nat) (n : N)        (* n > 0 literal octets still to skip *)
| StCR (d : nat).               (* CR seen between tokens, LF expected *)

Inductive step_res := Bad | Done | Next (s : st).

Definition after_count (d : nat) (n : N) : st :=
  if (n =? 0)%N then StN d else StSK d n.

Definition step (s : st) (b : Z) : step_res :=
  match s with
  | StN d =>
      if b =? 34 then Next (StQ d)
      else if b =? 40 then Next (StN (S d))
      else if b =? 41 then match d with O => Bad | S d' => Next (StN d') end
      else if b =? 123 then Next (StLB d 0%N false)
      else if b =? 13 then Next (StCR d)
      else if (b =? 10) || (b =? 0) || (b =? 125) then Bad
      else Next (StN d)
  | StCR d => if b =? 10 then match d with O => Done | S _ => Bad end else Bad
  | StQ d =>
      if b =? 34 then Next (StN d)
      else if b =? 92 then Next (StQE d)
      else if is_forbidden b then Bad
      else Next (StQ d)
  | StQE d => if is_qspecial b then Next (StQ d) else Bad
  | StLB d n seen =>
      match digit_val b with
      | Some k => Next (StLB d (10 * n + k)%N true)
      | None => if (b =? 125) && seen then Next (StLC d n) else Bad
      end
  | StLC d n => if b =? 13 then Next (StLL d n) else Bad
  | StLL d n => if b =? 10 then Next (after_count d n) else Bad
  | StSK d n => Next (after_count d (N.pred n))
  end.

(* consume one response; the rest of the stream, or None when the bytes are not a complete
   well-formed response *)
Fixpoint run (s : st) (l : list Z) : option (list Z) :=
  match l with
  | [] => None
  | b :: t =>
      match step s b with
      | Bad => None
      | Done => Some t
      | Next s' => run s' t
      end
  end.

(* feed a fragment that must not finish the response: the state afterwards *)
Fixpoint feed (s : st) (l : list Z) : option st :=
  match l with
  | [] => Some s
  | b :: t =>
      match step s b with
      | Next s' => feed s' t
      | _ => None
      end
  end.

(* a stream of responses; fuel = an upper bound on the number of responses (the length of
   the stream is always enough: every response has at least two octets) *)
Fixpoint run_all (fuel : nat) (l : list Z) : option nat :=
  match l with
  | [] => Some O
  | _ =>
      match fuel with
      | O => None
      | S f =>
          match run (StN O) l with
          | Some r => match run_all f r with Some k => Some (S k) | None => None end
          | None => None
          end
      end
  end.

(* ------------------------------------------------------------------ status (free text) lines *)
(* text up to the first CR, which must be followed by LF; NUL and LF may not occur in it *)
Fixpoint read_text_line (l : list Z) : option (list Z * list Z) :=
  match l with
  | [] => None
  | b :: t =>
      if b =? 13 then
        match t with
        | c :: r => if c =? 10 then Some ([], r) else None
        | [] => None
        end
      else if (b =? 10) || (b =? 0) then None
      else match read_text_line t with
           | Some (v, r) => Some (b :: v, r)
           | None => None
           end
  end.
