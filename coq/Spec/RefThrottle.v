(* Spec/RefThrottle.v — the reference throttle of property C18, written from the
   property text.  Definitions only.

   An attempt is (time, user, address, password-correct?).  For every user name
   and every address the reference keeps the times of its *recorded failures*
   (most recent first).  The chain length of a key at time [now] is the number of
   trailing recorded failures each within the purge interval of the previous
   one, provided the last of them is within the interval of [now]; otherwise 0. *)
From Asimap Require Import Base.Res.
Open Scope Z_scope.

Definition interval : Z := 60.
Definition user_threshold : Z := 4.
Definition addr_threshold : Z := 5.

Fixpoint chain (h : list Z) : Z :=
  match h with
  | [] => 0
  | t :: h' => match h' with
               | [] => 1
               | t' :: _ => if t - t' <=? interval then 1 + chain h' else 1
               end
  end.

Definition eff (h : list Z) (now : Z) : Z :=
  match h with [] => 0 | t :: _ => if now - t <=? interval then chain h else 0 end.

Inductive verdict := Throttled | Denied | Granted.

Record attempt := { a_time : Z; a_user : string; a_addr : string; a_pwok : bool }.

Definition hist := string -> list Z.
Definition hupd (h : hist) (k : string) (t : Z) : hist :=
  fun k' => if String.eqb k' k then t :: h k else h k'.

Definition refused (hu ha : hist) (a : attempt) : bool :=
  (eff (hu (a_user a)) (a_time a) >? user_threshold) || (eff (ha (a_addr a)) (a_time a) >? addr_threshold).

(* one step of the reference: refused attempts are not recorded; a failed
   (not refused) attempt is recorded for the user name and for the address *)
Definition ref_step (st : hist * hist) (a : attempt) : (hist * hist) * verdict :=
  let '(hu, ha) := st in
  if refused hu ha a then (st, Throttled)
  else if a_pwok a then (st, Granted)
  else ((hupd hu (a_user a) (a_time a), hupd ha (a_addr a) (a_time a)), Denied).

Fixpoint ref_run (st : hist * hist) (l : list attempt) : list verdict :=
  match l with
  | [] => []
  | a :: l' => let '(st', v) := ref_step st a in v :: ref_run st' l'
  end.

Definition ref_init : hist * hist := (fun _ => [], fun _ => []).

(* the clock never goes backwards *)
Fixpoint monotone (last : Z) (l : list attempt) : Prop :=
  match l with [] => True | a :: l' => last <= a_time a /\ monotone (a_time a) l' end.
