(* Spec/NsSpec.v — the reference model of property C17, written from the property text and
   RFC 3501 6.3.3-6.3.9 / RFC 5258 only.  Definitions only.

   Vocabulary.  A mailbox name is the list of its hierarchy levels (the components between '/');
   [flat] is the string a client sees.  The reference tree is a partial map from names to what
   is known of the mailbox: placeholder or not, subscribed or not, and a payload (UIDVALIDITY,
   UIDNEXT and the messages with UID and flags) which the namespace commands move around but
   never look into.  The tree is a function, so "each name at most once" holds by construction;
   commands are a relation between the tree before and the tree after.

   Interpretation decisions (each can be challenged):
   * the pattern matched is  reference ++ pattern  (plain concatenation, as in all examples of
     RFC 3501 6.3.8);
   * "existing mailbox" = a name LIST "" "*" returns, placeholders included;
   * a subscription belongs to the mailbox and moves with it under RENAME;
   * DELETE of a mailbox that has inferiors or is subscribed keeps the name as a \Noselect
     placeholder without messages; DELETE of such a placeholder is refused while it still has
     inferiors or is subscribed; CREATE of a placeholder name makes it selectable again;
   * RENAME creates missing superior names of the destination (RFC 3501 6.3.5 SHOULD);
   * RENAME INBOX moves the messages (flags intact, UIDs assigned by the new mailbox) and leaves
     INBOX empty, inferiors of INBOX stay;
   * names that MH cannot hold (only digits, a level of only white space) are refused by
     CREATE/RENAME;
   * guard [name_ok]: names with an empty level, and names of more than one level whose first
     level is a spelling of INBOX other than "inbox" or which have a level of digits only, are
     outside the reference model (refused, nothing changes). *)
From Coq Require Import List Ascii String Bool ZArith.
Import ListNotations.
Open Scope Z_scope.

Definition la : string -> list ascii := list_ascii_of_string.

(* ------------------------------------------------------------------ RFC 3501 wildcards *)
(* matches p n : the list-mailbox p (with * and %) matches the name n *)
Inductive matches : list ascii -> list ascii -> Prop :=
| M_nil : matches [] []
| M_lit : forall c p n, c <> "*"%char -> c <> "%"%char -> matches p n -> matches (c :: p) (c :: n)
| M_star : forall p n1 n2, matches p n2 -> matches ("*"%char :: p) (n1 ++ n2)
| M_pct : forall p n1 n2, ~ In "/"%char n1 -> matches p n2 -> matches ("%"%char :: p) (n1 ++ n2).

(* ASCII lower case: two strings are the same "ignoring case" iff their lower are equal *)
Definition lower_ascii (c : ascii) : ascii :=
  let n := nat_of_ascii c in
  if Nat.leb 65 n && Nat.leb n 90 then ascii_of_nat (n + 32) else c.
Definition lower (s : list ascii) : list ascii := map lower_ascii s.

(* ------------------------------------------------------------------ names *)
Definition comp := list ascii.
Definition name := list comp.

Fixpoint ceqb (a b : list ascii) : bool :=
  match a, b with
  | [], [] => true
  | x :: a', y :: b' => Ascii.eqb x y && ceqb a' b'
  | _, _ => false
  end.
Fixpoint neqb (a b : name) : bool :=
  match a, b with
  | [], [] => true
  | x :: a', y :: b' => ceqb x y && neqb a' b'
  | _, _ => false
  end.

Fixpoint flat (n : name) : list ascii :=
  match n with
  | [] => []
  | c :: r => match r with [] => c | _ :: _ => c ++ "/"%char :: flat r end
  end.

Definition INBOX : list ascii := la "INBOX".
Definition inbox : name := [la "inbox"].
(* the one name that is case-insensitive *)
Definition is_inbox (n : name) : bool := match n with [c] => ceqb (lower c) (la "inbox") | _ => false end.
(* INBOX in any spelling is the inbox *)
Definition canon (n : name) : name := if is_inbox n then inbox else n.

(* m lies (strictly) below a: a is a proper prefix of m, level by level *)
Definition below (a m : name) : Prop := exists s, s <> [] /\ m = a ++ s.
(* m is n or one of its superior names *)
Definition on_path (m n : name) : Prop := m <> [] /\ exists s, n = m ++ s.

Definition is_digit (c : ascii) : bool := let k := nat_of_ascii c in Nat.leb 48 k && Nat.leb k 57.
Definition is_space (c : ascii) : bool :=
  let k := nat_of_ascii c in Nat.eqb k 32 || (Nat.leb 9 k && Nat.leb k 13).

Definition all_digits (c : comp) : bool := match c with [] => false | _ :: _ => forallb is_digit c end.
(* inside the reference model at all: no empty level, no '/' inside a level; for names of more
   than one level: the first level is not a spelling of INBOX other than "inbox", and no level
   consists of digits only (MH keeps the messages of a folder under such names) *)
Definition name_ok (n : name) : bool :=
  match n with [] => false | _ :: _ => true end &&
  forallb (fun c => match c with [] => false | _ :: _ => true end &&
                    negb (existsb (Ascii.eqb "/"%char) c)) n &&
  match n with
  | c :: _ :: _ => implb (ceqb (lower c) (la "inbox")) (ceqb c (la "inbox")) && negb (existsb all_digits n)
  | _ => true
  end.
(* acceptable as the name of a new mailbox: not INBOX, not only digits, no level that is only
   white space *)
Definition new_name_ok (n : name) : bool :=
  negb (is_inbox n) && negb (existsb all_digits n) && negb (existsb (forallb is_space) n).

(* ------------------------------------------------------------------ the reference tree *)
Record msg := { m_uid : Z; m_cid : Z; m_flags : Z }.

Record info := {
  i_placeholder : bool;          (* deleted but kept: \Noselect *)
  i_subscribed : bool;
  i_special : list string;       (* RFC 6154 attributes the mailbox was given *)
  i_uidvalidity : Z;
  i_uidnext : Z;
  i_msgs : list msg }.
Definition tree := name -> option info.

Definition has_inferiors (T : tree) (n : name) : Prop := exists m, below n m /\ T m <> None.

Definition SPECIAL_USE : list (string * string) :=
  [("Junk", "\Junk"); ("Archive", "\Archive"); ("Sent Messages", "\Sent"); ("Drafts", "\Drafts");
   ("Deleted Messages", "\Trash")]%string.
Definition special_names : list name := map (fun kv => [la (fst kv)]) SPECIAL_USE.
Definition special_for (n : name) : list string :=
  map snd (filter (fun kv => neqb n [la (fst kv)]) SPECIAL_USE).

Definition fresh (n : name) (i : info) : Prop :=
  i_placeholder i = false /\ i_subscribed i = false /\ i_special i = special_for n /\
  i_uidnext i = 1 /\ i_msgs i = [].

Inductive result := OK | NO.

Inductive op :=
| Create (n : name) | Delete (n : name) | Rename (o n : name)
| Subscribe (n : name) | Unsubscribe (n : name)
| Append (n : name) (cid flags : Z) | Select (n : name) | Restart.

Definition set_placeholder (b : bool) (i : info) : info :=
  {| i_placeholder := b; i_subscribed := i_subscribed i; i_special := i_special i;
     i_uidvalidity := i_uidvalidity i; i_uidnext := i_uidnext i; i_msgs := i_msgs i |}.
Definition set_subscribed (b : bool) (i : info) : info :=
  {| i_placeholder := i_placeholder i; i_subscribed := b; i_special := i_special i;
     i_uidvalidity := i_uidvalidity i; i_uidnext := i_uidnext i; i_msgs := i_msgs i |}.
Definition set_msgs (u : Z) (l : list msg) (i : info) : info :=
  {| i_placeholder := i_placeholder i; i_subscribed := i_subscribed i; i_special := i_special i;
     i_uidvalidity := i_uidvalidity i; i_uidnext := u; i_msgs := l |}.

(* T' is T with every name of the list P that T does not have added as a fresh mailbox;
   nothing else changes *)
Definition adds (T T' : tree) (P : name -> Prop) : Prop :=
  forall m, (P m /\ T m = None /\ exists i, T' m = Some i /\ fresh m i) \/
            (~ (P m /\ T m = None) /\ T' m = T m).

(* the messages of l with UIDs u, u+1, ... and everything else kept *)
Fixpoint renumber (u : Z) (l : list msg) : list msg :=
  match l with
  | [] => []
  | m :: l' => {| m_uid := u; m_cid := m_cid m; m_flags := m_flags m |} :: renumber (u + 1) l'
  end.

(* T' is T except at n *)
Definition only_at (T T' : tree) (n : name) : Prop := forall m, m <> n -> T' m = T m.

(* one command: tree before, command, tagged result, tree after *)
Inductive spec_step (T : tree) : op -> result -> tree -> Prop :=
(* CREATE: the name and every missing superior name appear *)
| S_create_new : forall n T', name_ok n = true -> new_name_ok n = true -> T n = None ->
    adds T T' (fun m => on_path m n) ->
    spec_step T (Create n) OK T'
| S_create_revive : forall n i T', name_ok n = true -> new_name_ok n = true -> T n = Some i ->
    i_placeholder i = true -> T' n = Some (set_placeholder false i) -> only_at T T' n ->
    spec_step T (Create n) OK T'
| S_create_no : forall n,
    (name_ok n = false \/ new_name_ok n = false \/ exists i, T n = Some i /\ i_placeholder i = false) ->
    spec_step T (Create n) NO T
(* DELETE *)
| S_delete_gone : forall n0 i T',
    name_ok n0 = true -> is_inbox n0 = false -> T (canon n0) = Some i ->
    ~ has_inferiors T (canon n0) -> i_subscribed i = false ->
    T' (canon n0) = None -> only_at T T' (canon n0) ->
    spec_step T (Delete n0) OK T'
| S_delete_kept : forall n0 i i' T',
    name_ok n0 = true -> is_inbox n0 = false -> T (canon n0) = Some i ->
    i_placeholder i = false -> (has_inferiors T (canon n0) \/ i_subscribed i = true) ->
    T' (canon n0) = Some i' -> i_placeholder i' = true -> i_subscribed i' = i_subscribed i -> i_msgs i' = [] ->
    i_special i' = i_special i -> only_at T T' (canon n0) ->
    spec_step T (Delete n0) OK T'
| S_delete_no : forall n0,
    (name_ok n0 = false \/ is_inbox n0 = true \/ T (canon n0) = None \/
     exists i, T (canon n0) = Some i /\ i_placeholder i = true /\ (has_inferiors T (canon n0) \/ i_subscribed i = true)) ->
    spec_step T (Delete n0) NO T
(* RENAME of anything but INBOX: the whole subtree moves, every payload intact; missing superior
   names of the destination are created; nothing is left under the old name *)
| S_rename : forall o n T1 T', name_ok o = true -> name_ok n = true -> is_inbox o = false ->
    T o <> None -> T n = None -> new_name_ok n = true -> ~ below o n ->
    (removelast n = [] \/ T (removelast n) <> None \/ new_name_ok (removelast n) = true) ->
    adds T T1 (fun m => on_path m (removelast n)) ->
    (forall s, T' (n ++ s) = T (o ++ s)) ->
    (forall s, (forall s', o ++ s <> n ++ s') -> T' (o ++ s) = None) ->
    (forall m, (forall s, m <> n ++ s) -> (forall s, m <> o ++ s) -> T' m = T1 m) ->
    spec_step T (Rename o n) OK T'
| S_rename_inbox : forall o n T1 T' ib i, name_ok o = true -> name_ok n = true -> is_inbox o = true ->
    T inbox = Some ib -> T n = None -> new_name_ok n = true ->
    adds T T1 (fun m => on_path m n) -> T1 n = Some i ->
    T' n = Some (set_msgs (1 + Z.of_nat (List.length (i_msgs ib))) (renumber 1 (i_msgs ib)) i) ->
    T' inbox = Some (set_msgs (i_uidnext ib) [] ib) ->
    (forall m, m <> n -> m <> inbox -> T' m = T1 m) ->
    spec_step T (Rename o n) OK T'
| S_rename_no : forall o0 n,
    (name_ok o0 = false \/ name_ok n = false \/ T (canon o0) = None \/ T n <> None \/ new_name_ok n = false \/
     (is_inbox o0 = false /\
      (below (canon o0) n \/ (removelast n <> [] /\ T (removelast n) = None /\ new_name_ok (removelast n) = false)))) ->
    spec_step T (Rename o0 n) NO T
(* SUBSCRIBE / UNSUBSCRIBE *)
| S_subscribe : forall n0 i T', name_ok n0 = true -> T (canon n0) = Some i ->
    T' (canon n0) = Some (set_subscribed true i) -> only_at T T' (canon n0) ->
    spec_step T (Subscribe n0) OK T'
| S_unsubscribe : forall n0 i T', name_ok n0 = true -> T (canon n0) = Some i ->
    T' (canon n0) = Some (set_subscribed false i) -> only_at T T' (canon n0) ->
    spec_step T (Unsubscribe n0) OK T'
| S_subscribe_no : forall n0, (name_ok n0 = false \/ T (canon n0) = None) ->
    spec_step T (Subscribe n0) NO T
| S_unsubscribe_no : forall n0, (name_ok n0 = false \/ T (canon n0) = None) ->
    spec_step T (Unsubscribe n0) NO T
(* SELECT (EXAMINE): selectable iff it exists and is no placeholder *)
| S_select : forall n0 i, name_ok n0 = true -> T (canon n0) = Some i -> i_placeholder i = false ->
    spec_step T (Select n0) OK T
| S_select_no : forall n0,
    (name_ok n0 = false \/ T (canon n0) = None \/ exists i, T (canon n0) = Some i /\ i_placeholder i = true) ->
    spec_step T (Select n0) NO T
(* APPEND: the new message gets UIDNEXT *)
| S_append : forall n0 i cid fl T',
    name_ok n0 = true -> T (canon n0) = Some i -> i_placeholder i = false ->
    T' (canon n0) = Some (set_msgs (i_uidnext i + 1)
                          (i_msgs i ++ [{| m_uid := i_uidnext i; m_cid := cid; m_flags := fl |}]) i) ->
    only_at T T' (canon n0) ->
    spec_step T (Append n0 cid fl) OK T'
| S_append_no : forall n0 cid fl,
    (name_ok n0 = false \/ T (canon n0) = None \/ exists i, T (canon n0) = Some i /\ i_placeholder i = true) ->
    spec_step T (Append n0 cid fl) NO T
(* an orderly restart: the RFC 6154 mailboxes that are missing are created, nothing else changes *)
| S_restart : forall T', adds T T' (fun m => In m special_names) -> spec_step T Restart OK T'.

Inductive spec_run : tree -> list op -> list result -> tree -> Prop :=
| SR_nil : forall T, spec_run T [] [] T
| SR_cons : forall T o r T1 os rs T2, spec_step T o r T1 -> spec_run T1 os rs T2 ->
    spec_run T (o :: os) (r :: rs) T2.

(* the tree a new mail directory starts with: INBOX and the RFC 6154 mailboxes, all empty *)
Definition initial (T : tree) : Prop :=
  adds (fun _ => None) T (fun m => m = inbox \/ In m special_names).

(* ------------------------------------------------------------------ LIST / LSUB *)
(* the name as listed *)
Definition shown (n : name) : list ascii := if is_inbox n then INBOX else flat n.
(* the interpreted pattern ip matches the mailbox n; INBOX in any spelling *)
Definition name_matches (ip : list ascii) (n : name) : Prop :=
  if is_inbox n then exists s, lower s = la "inbox" /\ matches ip s else matches ip (flat n).

(* LIST (subscribed_only = false) / LSUB (true) with the interpreted patterns ips lists the name d *)
Definition spec_listed (T : tree) (subscribed_only : bool) (ips : list (list ascii)) (d : list ascii) : Prop :=
  exists n i, T n = Some i /\ shown n = d /\ (subscribed_only = true -> i_subscribed i = true) /\
              exists ip, In ip ips /\ name_matches ip n.

Inductive attr := Noselect | HasChildren | HasNoChildren | Subscribed | NonExistent | Special (s : string).
