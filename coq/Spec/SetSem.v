(* Spec/SetSem.v — what an RFC 3501 sequence set denotes.  Written from the
   property text (C15), independent of the code.  Definitions only. *)
From Asimap Require Import Base.Res.
Open Scope Z_scope.

(* the value of an atom when the largest number/UID is [mx] *)
Definition aval (mx : Z) (a : sset_atom) : Z := match a with AStar => mx | ANum n => n end.

(* membership of a number in one element; a range is unordered: a:b = b:a *)
Definition in_elt (mx : Z) (e : sset_elt) (n : Z) : Prop :=
  match e with
  | EStar => n = mx
  | ENum k => n = k
  | ERange a b => Z.min (aval mx a) (aval mx b) <= n <= Z.max (aval mx a) (aval mx b)
  end.
Definition in_set (mx : Z) (s : list sset_elt) (n : Z) : Prop := Exists (fun e => in_elt mx e n) s.

(* the numbers of one element, ascending *)
Definition elt_list (mx : Z) (e : sset_elt) : list Z :=
  match e with
  | EStar => [mx]
  | ENum k => [k]
  | ERange a b => py_range (Z.min (aval mx a) (aval mx b)) (Z.max (aval mx a) (aval mx b) + 1)
  end.
(* the denotation: ascending, duplicate-free *)
Definition denote (mx : Z) (s : list sset_elt) : list Z := sorted_set (flat_map (elt_list mx) s).

(* every number mentioned lies in 1..mx  ("*" needs a non-empty mailbox) *)
Definition atom_ok (mx : Z) (a : sset_atom) : bool :=
  match a with AStar => 1 <=? mx | ANum n => (1 <=? n) && (n <=? mx) end.
Definition elt_ok (mx : Z) (e : sset_elt) : bool :=
  match e with
  | EStar => 1 <=? mx
  | ENum k => (1 <=? k) && (k <=? mx)
  | ERange a b => atom_ok mx a && atom_ok mx b
  end.
(* UID commands: numbers only have to be positive *)
Definition atom_pos (a : sset_atom) : bool := match a with AStar => true | ANum n => 1 <=? n end.
Definition elt_pos (e : sset_elt) : bool :=
  match e with EStar => true | ENum k => 1 <=? k | ERange a b => atom_pos a && atom_pos b end.
