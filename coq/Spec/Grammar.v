(* Spec/Grammar.v — the command language of RFC 3501 plus the advertised extensions (UIDPLUS, MOVE,
   IDLE, ID, NAMESPACE, UNSELECT, LITERAL+, LIST-EXTENDED / SPECIAL-USE / LIST-STATUS) written as a
   PRINTER with free choices:   render : ast -> choices -> list Z.
   The sentences of the grammar are the values of `render`.  The AST carries exactly the attributes
   the parsed IMAPClientCommand object ends up with.  Definitions only.

   Choices (all universally quantified in the theorems):
     c_kw   site i      : is the i-th letter of the keyword printed at `site` upper case?
     c_str  site value  : how is this astring/string printed: 0 atom (if the value is one), else
                          1 quoted (if the value has no CR/LF), else 2 literal {n}, 3 literal+ {n+}
     c_opt  site        : optional syntax (quotes around a date, parentheses around a single item,
                          a FETCH macro where one applies, a final CRLF)                        *)
From Asimap Require Import Base.Res Base.Bytes Model.Lex.
Open Scope Z_scope.

(* ------------------------------------------------------------------ the AST *)
Inductive noarg := NCapability | NNoop | NNamespace | NIdle | NLogout | NCheck | NClose | NUnselect.
Inductive mboxcmd := MSelect | MExamine | MCreate | MDelete | MSubscribe | MUnsubscribe.
Inductive store_action := SReplace | SAdd | SRemove.
Inductive status_att := StMessages | StRecent | StUidnext | StUidvalidity | StUnseen.
(* LIST-EXTENDED selection / return options are Python sets: one bool per member *)
Record sel_opts := mkSel { so_subscribed : bool; so_remote : bool; so_recursive : bool; so_special : bool }.
Record ret_opts := mkRet { ro_subscribed : bool; ro_children : bool; ro_status : bool; ro_special : bool }.

(* BODY[...] section: the leading part numbers, then the optional text part *)
Inductive sect_text := TxHeader | TxText | TxMime | TxFields (neg : bool) (hdrs : list (list Z)).
Definition section := (list Z * option sect_text)%type.

Inductive fop := FoEnvelope | FoFlags | FoInternaldate | FoRfc822Size | FoUid | FoBodystructure.
Inductive fetch_att :=
| FSimple (op : fop)
| FBodyShort                        (* BODY without section: BODYSTRUCTURE, no extension data *)
| FRfc822                           (* BODY[] reported as RFC822 *)
| FRfc822Header                     (* BODY.PEEK[HEADER] reported as RFC822.HEADER *)
| FRfc822Text                       (* BODY[TEXT] reported as RFC822.TEXT *)
| FBody (peek : bool) (sec : section) (partial : option (Z * Z)).

Inductive sdate := DBefore | DOn | DSince | DSentBefore | DSentOn | DSentSince.
Definition date := (Z * Z * Z)%type.                       (* year, month, day *)
Definition date_time := (Z * Z * Z * Z * Z * Z * Z)%type.   (* y, m, d, h, mi, s, utc offset in seconds *)

(* the IMAPSearch tree the parser builds *)
Inductive skey :=
| KAll
| KKeyword (k : list Z)
| KHeader (h s : list Z)
| KDate (w : sdate) (d : date)
| KBody (s : list Z)
| KText (s : list Z)
| KLarger (n : Z)
| KSmaller (n : Z)
| KNot (k : skey)
| KOr (a b : skey)
| KAnd (l : list skey)
| KMsgSet (l : list sset_elt)
| KUid (l : list sset_elt).

Inductive cmd :=
| CNoArg (c : noarg)
| CExpunge                                              (* EXPUNGE *)
| CUidExpunge (set : list sset_elt)                     (* UID EXPUNGE set *)
| CAuthenticate (mech : list Z)
| CLogin (user pass : list Z)
| CMbox (c : mboxcmd) (mbox : list Z)
| CRename (src dst : list Z)
| CList (lsub : bool) (sel : sel_opts) (ref : list Z) (pat : list Z) (pats : list (list Z))
        (ret : ret_opts) (status : list status_att)
| CStatus (mbox : list Z) (atts : list status_att)
| CId (params : list (list Z * option (list Z)))
| CAppend (mbox : list Z) (flags : list (list Z)) (dt : option date_time) (msg : list Z)
| CSearch (uid : bool) (charset : list Z) (keys : list skey)
| CFetch (uid : bool) (set : list sset_elt) (atts : list fetch_att)
| CStore (uid : bool) (set : list sset_elt) (act : store_action) (silent : bool) (flags : list (list Z))
| CCopy (uid : bool) (set : list sset_elt) (mbox : list Z)
| CMove (uid : bool) (set : list sset_elt) (mbox : list Z).

Record ast := mkAst { a_tag : list Z; a_cmd : cmd }.

(* ------------------------------------------------------------------ choices *)
Record choices := mkChoices {
  c_kw : nat -> nat -> bool;
  c_str : nat -> list Z -> nat;
  c_opt : nat -> bool
}.

(* ------------------------------------------------------------------ tokens *)
(* a keyword in any letter case *)
Fixpoint kw_case_from (f : nat -> bool) (i : nat) (kw : list Z) : list Z :=
  match kw with
  | [] => []
  | c :: kw' => (if f i && is_lower c then c - 32 else c) :: kw_case_from f (S i) kw'
  end.
Definition kw (ch : choices) (site : nat) (k : string) : list Z := kw_case_from (c_kw ch site) 0 (bs k).

(* decimal number *)
Fixpoint digits_fuel (fuel : nat) (n : Z) (acc : list Z) : list Z :=
  match fuel with
  | O => acc
  | S f => if n <? 10 then (48 + n) :: acc else digits_fuel f (n / 10) ((48 + n mod 10) :: acc)
  end.
Definition r_number (n : Z) : list Z := digits_fuel (S (Z.to_nat (Z.log2 n))) n [].
Definition r_two (n : Z) : list Z := [48 + n / 10; 48 + n mod 10].
Definition r_four (n : Z) : list Z := [48 + n / 1000; 48 + (n / 100) mod 10; 48 + (n / 10) mod 10; 48 + n mod 10].

(* strings *)
Fixpoint quote_body (v : list Z) : list Z :=
  match v with
  | [] => []
  | c :: v' => if (c =? 34) || (c =? 92) then 92 :: c :: quote_body v' else c :: quote_body v'
  end.
Definition r_quoted (v : list Z) : list Z := 34 :: quote_body v ++ [34].
Definition r_literal (plus : bool) (v : list Z) : list Z :=
  123 :: r_number (Z.of_nat (List.length v)) ++ (if plus then [43] else []) ++ [125; 13; 10] ++ v.

Definition quotable (v : list Z) : bool := forallb (fun c => negb ((c =? 13) || (c =? 10))) v.
Definition is_atom (v : list Z) : bool := match v with [] => false | _ => forallb atom_char v end.
Definition is_list_atom (v : list Z) : bool := match v with [] => false | _ => forallb list_char v end.

(* string = quoted / literal *)
Definition r_string (form : nat) (v : list Z) : list Z :=
  match form with
  | 3%nat => r_literal true v
  | 2%nat => r_literal false v
  | _ => if quotable v then r_quoted v else r_literal false v
  end.
(* astring = atom / string *)
Definition r_astring (form : nat) (v : list Z) : list Z :=
  match form with
  | O => if is_atom v then v else r_string 1 v
  | _ => r_string form v
  end.
(* list-mailbox = 1*list-char / string *)
Definition r_list_mailbox (form : nat) (v : list Z) : list Z :=
  match form with
  | O => if is_list_atom v then v else r_string 1 v
  | _ => r_string form v
  end.

(* mailbox = "INBOX" / astring : the inbox is printed in any letter case, in any string form *)
Definition r_mailbox (ch : choices) (site : nat) (m : list Z) : list Z :=
  if beq m inbox then r_astring (c_str ch site m) (kw ch site "inbox")
  else r_astring (c_str ch site m) m.
Definition r_pattern (ch : choices) (site : nat) (p : list Z) : list Z :=
  if beq p inbox then r_list_mailbox (c_str ch site p) (kw ch site "inbox")
  else r_list_mailbox (c_str ch site p) p.

(* lists *)
Fixpoint sep_by {A} (f : A -> list Z) (l : list A) : list Z :=
  match l with
  | [] => []
  | [x] => f x
  | x :: rest => f x ++ 32 :: sep_by f rest
  end.
Definition r_paren {A} (f : A -> list Z) (l : list A) : list Z := 40 :: sep_by f l ++ [41].

(* sequence sets *)
Definition r_satom (a : sset_atom) : list Z := match a with AStar => [42] | ANum n => r_number n end.
Definition r_selt (e : sset_elt) : list Z :=
  match e with
  | EStar => [42]
  | ENum n => r_number n
  | ERange a b => r_satom a ++ 58 :: r_satom b
  end.
Fixpoint r_set (l : list sset_elt) : list Z :=
  match l with
  | [] => []
  | [e] => r_selt e
  | e :: rest => r_selt e ++ 44 :: r_set rest
  end.

(* dates *)
Definition month_name (m : Z) : string :=
  match m with
  | 1 => "jan" | 2 => "feb" | 3 => "mar" | 4 => "apr" | 5 => "may" | 6 => "jun"
  | 7 => "jul" | 8 => "aug" | 9 => "sep" | 10 => "oct" | 11 => "nov" | _ => "dec"
  end%string.
(* date = date-text / DQUOTE date-text DQUOTE ; the day with one or two digits *)
Definition r_date (ch : choices) (site : nat) (d : date) : list Z :=
  let '(y, m, dd) := d in
  let txt := (if c_opt ch (site + 1) && (dd <? 10) then [48 + dd] else r_two dd)
             ++ 45 :: kw ch site (month_name m) ++ 45 :: r_four y in
  if c_opt ch site then 34 :: txt ++ [34] else txt.
(* date-time = DQUOTE date-day-fixed - month - year SP time SP zone DQUOTE *)
Definition r_date_time (ch : choices) (site : nat) (t : date_time) : list Z :=
  let '(y, m, d, h, mi, s, off) := t in
  let a := Z.abs off in
  34 :: (if c_opt ch site && (d <? 10) then [32; 48 + d] else r_two d)
     ++ 45 :: kw ch site (month_name m) ++ 45 :: r_four y
     ++ 32 :: r_two h ++ 58 :: r_two mi ++ 58 :: r_two s
     ++ 32 :: (if off <? 0 then 45 else 43) :: r_two (a / 3600) ++ r_two ((a / 60) mod 60) ++ [34].

(* status attributes *)
Definition status_name (a : status_att) : string :=
  match a with
  | StMessages => "messages" | StRecent => "recent" | StUidnext => "uidnext"
  | StUidvalidity => "uidvalidity" | StUnseen => "unseen"
  end%string.
Definition r_status_att (ch : choices) (site : nat) (a : status_att) : list Z := kw ch site (status_name a).

(* ------------------------------------------------------------------ FETCH *)
Definition fop_name (o : fop) : string :=
  match o with
  | FoEnvelope => "envelope" | FoFlags => "flags" | FoInternaldate => "internaldate"
  | FoRfc822Size => "rfc822.size" | FoUid => "uid" | FoBodystructure => "bodystructure"
  end%string.

Fixpoint r_nums (l : list Z) : list Z :=
  match l with
  | [] => []
  | [n] => r_number n
  | n :: rest => r_number n ++ 46 :: r_nums rest
  end.
Definition r_sect_text (ch : choices) (t : sect_text) : list Z :=
  match t with
  | TxHeader => kw ch 40 "header"
  | TxText => kw ch 40 "text"
  | TxMime => kw ch 40 "mime"
  | TxFields neg hdrs =>
      kw ch 40 (if neg then "header.fields.not" else "header.fields")
      ++ 32 :: r_paren (fun h => r_astring (c_str ch 41 h) h) hdrs
  end.
Definition r_section (ch : choices) (s : section) : list Z :=
  let '(nums, t) := s in
  91 :: r_nums nums
     ++ match t with
        | None => []
        | Some t' => (match nums with [] => [] | _ => [46] end) ++ r_sect_text ch t'
        end
     ++ [93].
Definition r_fetch_att (ch : choices) (a : fetch_att) : list Z :=
  match a with
  | FSimple o => kw ch 42 (fop_name o)
  | FBodyShort => kw ch 42 "body"
  | FRfc822 => kw ch 42 "rfc822"
  | FRfc822Header => kw ch 42 "rfc822.header"
  | FRfc822Text => kw ch 42 "rfc822.text"
  | FBody peek sec part =>
      kw ch 42 (if peek then "body.peek" else "body") ++ r_section ch sec
      ++ match part with
         | None => []
         | Some (a, b) => 60 :: r_number a ++ 46 :: r_number b ++ [62]
         end
  end.

Definition macro_all : list fetch_att := [FSimple FoFlags; FSimple FoInternaldate; FSimple FoRfc822Size; FSimple FoEnvelope].
Definition macro_fast : list fetch_att := [FSimple FoFlags; FSimple FoInternaldate; FSimple FoRfc822Size].
Definition macro_full : list fetch_att := macro_all ++ [FBodyShort].

Definition fop_eqb (a b : fop) : bool :=
  match a, b with
  | FoEnvelope, FoEnvelope | FoFlags, FoFlags | FoInternaldate, FoInternaldate
  | FoRfc822Size, FoRfc822Size | FoUid, FoUid | FoBodystructure, FoBodystructure => true
  | _, _ => false
  end.
(* equality with the macro expansions only needs the constructors without arguments *)
Definition fatt_simple_eqb (a b : fetch_att) : bool :=
  match a, b with
  | FSimple x, FSimple y => fop_eqb x y
  | FBodyShort, FBodyShort => true
  | _, _ => false
  end.
Fixpoint fatts_eqb (a b : list fetch_att) : bool :=
  match a, b with
  | [], [] => true
  | x :: a', y :: b' => fatt_simple_eqb x y && fatts_eqb a' b'
  | _, _ => false
  end.

(* fetch-att list: a macro where the list is one and the choice says so; a single attribute
   without parentheses if the choice says so; else the parenthesised list *)
Definition r_fetch_atts (ch : choices) (l : list fetch_att) : list Z :=
  if c_opt ch 43 && fatts_eqb l macro_all then kw ch 44 "all"
  else if c_opt ch 43 && fatts_eqb l macro_fast then kw ch 44 "fast"
  else if c_opt ch 43 && fatts_eqb l macro_full then kw ch 44 "full"
  else match l with
       | [a] => if c_opt ch 45 then r_fetch_att ch a else r_paren (r_fetch_att ch) l
       | _ => r_paren (r_fetch_att ch) l
       end.

(* ------------------------------------------------------------------ SEARCH *)
Definition sdate_name (w : sdate) : string :=
  match w with
  | DBefore => "before" | DOn => "on" | DSince => "since"
  | DSentBefore => "sentbefore" | DSentOn => "senton" | DSentSince => "sentsince"
  end%string.

(* the six system flags have their own search keys *)
Definition sysflag_key (k : list Z) : option string :=
  if beq k (bs "\Answered") then Some "answered"%string
  else if beq k (bs "\Deleted") then Some "deleted"%string
  else if beq k (bs "\Draft") then Some "draft"%string
  else if beq k (bs "\Flagged") then Some "flagged"%string
  else if beq k (bs "\Recent") then Some "recent"%string
  else if beq k (bs "\Seen") then Some "seen"%string
  else None.

(* alternative spellings (choice c_opt 59): BCC/CC/FROM/SUBJECT/TO x for HEADER name x; UNANSWERED ... UNSEEN,
   OLD, UNKEYWORD f for NOT of a flag key; NEW for (RECENT UNSEEN) *)
Definition hdr_key (h : list Z) : option string :=
  if beq h (bs "bcc") then Some "bcc"%string
  else if beq h (bs "cc") then Some "cc"%string
  else if beq h (bs "from") then Some "from"%string
  else if beq h (bs "subject") then Some "subject"%string
  else if beq h (bs "to") then Some "to"%string
  else None.
Definition unflag_key (f : list Z) : option string :=
  if beq f (bs "\Answered") then Some "unanswered"%string
  else if beq f (bs "\Deleted") then Some "undeleted"%string
  else if beq f (bs "\Draft") then Some "undraft"%string
  else if beq f (bs "\Flagged") then Some "unflagged"%string
  else if beq f (bs "\Recent") then Some "old"%string
  else if beq f (bs "\Seen") then Some "unseen"%string
  else None.
(* the one-token spelling of NOT k, when there is one *)
Definition not_alt (ch : choices) (k : skey) : option (list Z) :=
  match k with
  | KKeyword f => match unflag_key f with
                  | Some name => Some (kw ch 50 name)
                  | None => if is_atom f then Some (kw ch 50 "unkeyword" ++ 32 :: f) else None
                  end
  | _ => None
  end.
Definition is_new (l : list skey) : bool :=
  match l with
  | [KKeyword a; KNot (KKeyword b)] => beq a (bs "\Recent") && beq b (bs "\Seen")
  | _ => false
  end.

Fixpoint r_skey (ch : choices) (k : skey) : list Z :=
  match k with
  | KAll => kw ch 50 "all"
  | KKeyword f => match sysflag_key f with
                  | Some name => kw ch 50 name
                  | None => kw ch 50 "keyword" ++ 32 :: f
                  end
  | KHeader h s =>
      match (if c_opt ch 59 then hdr_key h else None) with
      | Some name => kw ch 50 name ++ 32 :: r_astring (c_str ch 52 s) s
      | None => kw ch 50 "header" ++ 32 :: r_astring (c_str ch 51 h) h ++ 32 :: r_astring (c_str ch 52 s) s
      end
  | KDate w d => kw ch 50 (sdate_name w) ++ 32 :: r_date ch 53 d
  | KBody s => kw ch 50 "body" ++ 32 :: r_astring (c_str ch 52 s) s
  | KText s => kw ch 50 "text" ++ 32 :: r_astring (c_str ch 52 s) s
  | KLarger n => kw ch 50 "larger" ++ 32 :: r_number n
  | KSmaller n => kw ch 50 "smaller" ++ 32 :: r_number n
  | KNot k' =>
      match (if c_opt ch 59 then not_alt ch k' else None) with
      | Some txt => txt
      | None => kw ch 50 "not" ++ 32 :: r_skey ch k'
      end
  | KOr a b => kw ch 50 "or" ++ 32 :: r_skey ch a ++ 32 :: r_skey ch b
  | KAnd l =>
      if c_opt ch 59 && is_new l then kw ch 50 "new"
      else 40 :: (fix go (l : list skey) : list Z :=
                    match l with
                    | [] => []
                    | [x] => r_skey ch x
                    | x :: rest => r_skey ch x ++ 32 :: go rest
                    end) l ++ [41]
  | KMsgSet l => r_set l
  | KUid l => kw ch 50 "uid" ++ 32 :: r_set l
  end.

(* ------------------------------------------------------------------ commands *)
Definition noarg_name (c : noarg) : string :=
  match c with
  | NCapability => "capability" | NNoop => "noop" | NNamespace => "namespace" | NIdle => "idle"
  | NLogout => "logout" | NCheck => "check" | NClose => "close" | NUnselect => "unselect"
  end%string.
Definition mboxcmd_name (c : mboxcmd) : string :=
  match c with
  | MSelect => "select" | MExamine => "examine" | MCreate => "create" | MDelete => "delete"
  | MSubscribe => "subscribe" | MUnsubscribe => "unsubscribe"
  end%string.

Definition r_flag_list (l : list (list Z)) : list Z := r_paren (fun f => f) l.

Definition r_uid (ch : choices) (uid : bool) : list Z := if uid then kw ch 1 "uid" ++ [32] else [].

Definition r_sel_opts (ch : choices) (o : sel_opts) : list Z :=
  let items := (if so_subscribed o then [kw ch 20 "subscribed"] else [])
               ++ (if so_remote o then [kw ch 20 "remote"] else [])
               ++ (if so_recursive o then [kw ch 20 "recursivematch"] else [])
               ++ (if so_special o then [kw ch 20 "special-use"] else []) in
  match items with
  | [] => []
  | _ => r_paren (fun x => x) items ++ [32]
  end.

Definition r_ret_opts (ch : choices) (o : ret_opts) (st : list status_att) : list Z :=
  let items := (if ro_subscribed o then [kw ch 21 "subscribed"] else [])
               ++ (if ro_children o then [kw ch 21 "children"] else [])
               ++ (if ro_status o then [kw ch 21 "status" ++ 32 :: r_paren (r_status_att ch 22) st] else [])
               ++ (if ro_special o then [kw ch 21 "special-use"] else []) in
  match items with
  | [] => []
  | _ => 32 :: kw ch 23 "return" ++ 32 :: r_paren (fun x => x) items
  end.

Definition r_id_pair (ch : choices) (p : list Z * option (list Z)) : list Z :=
  let '(k, v) := p in
  r_string (c_str ch 30 k) k ++ 32 ::
  match v with
  | None => kw ch 31 "nil"
  | Some v' => r_string (c_str ch 32 v') v'
  end.

Definition r_cmd (ch : choices) (c : cmd) : list Z :=
  match c with
  | CNoArg n => kw ch 0 (noarg_name n)
  | CExpunge => kw ch 0 "expunge"
  | CUidExpunge set => r_uid ch true ++ kw ch 0 "expunge" ++ 32 :: r_set set
  | CAuthenticate mech => kw ch 0 "authenticate" ++ 32 :: mech
  | CLogin u p => kw ch 0 "login" ++ 32 :: r_astring (c_str ch 2 u) u ++ 32 :: r_astring (c_str ch 3 p) p
  | CMbox m mbox => kw ch 0 (mboxcmd_name m) ++ 32 :: r_mailbox ch 4 mbox
  | CRename a b => kw ch 0 "rename" ++ 32 :: r_mailbox ch 4 a ++ 32 :: r_mailbox ch 5 b
  | CList lsub sel ref pat pats ret st =>
      kw ch 0 (if lsub then "lsub" else "list") ++ 32 :: r_sel_opts ch sel
      ++ r_mailbox ch 4 ref ++ 32 ::
      (match pats with
       | [] => r_list_mailbox (c_str ch 6 pat) pat
       | _ => r_paren (r_pattern ch 7) pats
       end) ++ r_ret_opts ch ret st
  | CStatus mbox atts => kw ch 0 "status" ++ 32 :: r_mailbox ch 4 mbox ++ 32 :: r_paren (r_status_att ch 22) atts
  | CId params =>
      kw ch 0 "id" ++ 32 ::
      (match params with
       | [] => if c_opt ch 33 then kw ch 31 "nil" else [40; 41]
       | _ => r_paren (r_id_pair ch) params
       end)
  | CAppend mbox flags dt msg =>
      kw ch 0 "append" ++ 32 :: r_mailbox ch 4 mbox ++ 32 ::
      (match flags with
       | [] => if c_opt ch 10 then [40; 41; 32] else []
       | _ => r_flag_list flags ++ [32]
       end)
      ++ (match dt with None => [] | Some t => r_date_time ch 11 t ++ [32] end)
      ++ r_literal (c_opt ch 12) msg
  | CSearch uid charset keys =>
      r_uid ch uid ++ kw ch 0 "search" ++ 32 ::
      (if beq charset (bs "us-ascii") && negb (c_opt ch 13) then []
       else kw ch 14 "charset" ++ 32 :: r_astring (c_str ch 15 charset) charset ++ [32])
      ++ sep_by (r_skey ch) keys
  | CFetch uid set atts => r_uid ch uid ++ kw ch 0 "fetch" ++ 32 :: r_set set ++ 32 :: r_fetch_atts ch atts
  | CStore uid set act silent flags =>
      r_uid ch uid ++ kw ch 0 "store" ++ 32 :: r_set set ++ 32 ::
      (match act with SReplace => [] | SAdd => [43] | SRemove => [45] end)
      ++ kw ch 16 "flags" ++ (if silent then kw ch 17 ".silent" else []) ++ 32 ::
      (match flags with
       | [] => r_flag_list flags
       | _ => if c_opt ch 18 then sep_by (fun f => f) flags else r_flag_list flags
       end)
  | CCopy uid set mbox => r_uid ch uid ++ kw ch 0 "copy" ++ 32 :: r_set set ++ 32 :: r_mailbox ch 4 mbox
  | CMove uid set mbox => r_uid ch uid ++ kw ch 0 "move" ++ 32 :: r_set set ++ 32 :: r_mailbox ch 4 mbox
  end.

(* command = tag SP command-body ; the CRLF is removed by the framing layer but tolerated *)
Definition render (a : ast) (ch : choices) : list Z :=
  a_tag a ++ 32 :: r_cmd ch (a_cmd a) ++ (if c_opt ch 99 then [13; 10] else []).

(* the canonical choices: lower-case keywords, atoms where possible, no optional syntax
   (and the one-token spellings UNSEEN, OLD, NEW, BCC ... where they exist, which need no extra nesting) *)
Definition canon : choices := mkChoices (fun _ _ => false) (fun _ _ => O) (fun site => Nat.eqb site 59).

(* ------------------------------------------------------------------ well-formed ASTs *)
(* The values an AST may carry so that it is the parse of its own sentences: what the parser
   normalises (mailbox names through os.path.normpath and INBOX, search strings lower-cased) must
   already be normal, atoms must be atoms, numbers must fit Python's int() limit of 4300 digits,
   dates must exist.  All decidable. *)

(* a number the parser can read back: not negative, at most 4300 digits *)
Definition num_ok (n : Z) : bool := (0 <=? n) && int_ok (r_number n).
(* a string whose length can be written in a literal prefix *)
Definition str_ok (v : list Z) : bool := num_ok (Z.of_nat (List.length v)).
(* a name the parser hands on unchanged *)
Definition mailbox_ok (m : list Z) : bool := beq (mailbox_norm m) m && str_ok m.
Definition pattern_ok (p : list Z) : bool := beq (pattern_norm p) p && str_ok p.
(* flag = atom or backslash atom *)
Definition flag_ok (f : list Z) : bool :=
  match f with
  | c :: a => if c =? 92 then is_atom a else is_atom f
  | [] => false
  end.
Definition satom_ok (a : sset_atom) : bool := match a with AStar => true | ANum n => num_ok n end.
Definition selt_ok (e : sset_elt) : bool :=
  match e with EStar => true | ENum n => num_ok n | ERange a b => satom_ok a && satom_ok b end.
Definition set_ok (l : list sset_elt) : bool := match l with [] => false | _ => forallb selt_ok l end.
Definition date_wf (d : date) : bool := let '(y, m, dd) := d in (1 <=? m) && (m <=? 12) && date_ok y m dd.
(* known finding C08-datetime-2digit-year: a date-time year below 0100 is not read back *)
Definition date_time_wf (t : date_time) : bool :=
  let '(y, m, d, h, mi, s, off) := t in
  (1 <=? m) && (m <=? 12) && date_ok y m d && (100 <=? y)
  && (0 <=? h) && (h <=? 23) && (0 <=? mi) && (mi <=? 59) && (0 <=? s) && (s <=? 59)
  && (off mod 60 =? 0) && (Z.abs off <? 86400).

Definition tag_ok (t : list Z) : bool := match t with [] => false | _ => forallb tag_char t end.
(* search strings, header names and the charset are lower-cased by the parser *)
Definition lowered_ok (s : list Z) : bool := beq (lower_s s) s && str_ok s.

Definition sect_text_ok (nums : list Z) (t : sect_text) : bool :=
  match t with
  | TxMime => match nums with [] => false | _ => true end
  | TxFields _ hdrs => match hdrs with [] => false | _ => forallb str_ok hdrs end
  | _ => true
  end.
Definition section_ok (s : section) : bool :=
  let '(nums, t) := s in
  forallb num_ok nums && match t with None => true | Some t' => sect_text_ok nums t' end.
Definition fatt_ok (a : fetch_att) : bool :=
  match a with
  | FBody _ sec part => section_ok sec && match part with None => true | Some (x, y) => num_ok x && num_ok y end
  | _ => true
  end.

(* d = levels of nesting the parser still accepts below this key (MAX_SEARCH_KEY_DEPTH = 32 at the top);
   a parenthesised list of exactly one key is that key, so KAnd never has one element.
   alt = the one-token spellings are used (they need no nesting): with alt = false the predicate is valid for
   every choice of spelling, with alt = true it is what the parser produces. *)
Definition not_alt_ok (k : skey) : bool :=
  match k with
  | KKeyword f => match unflag_key f with Some _ => true | None => is_atom f end
  | _ => false
  end.
Fixpoint skey_ok (alt : bool) (d : nat) (k : skey) {struct k} : bool :=
  match k with
  | KAll => true
  | KKeyword f => match sysflag_key f with Some _ => true | None => is_atom f end
  | KHeader h s => lowered_ok h && lowered_ok s
  | KDate _ dt => date_wf dt
  | KBody s => lowered_ok s
  | KText s => lowered_ok s
  | KLarger n => num_ok n
  | KSmaller n => num_ok n
  | KNot k' => if alt && not_alt_ok k' then true
               else match d with O => false | S d' => skey_ok alt d' k' end
  | KOr a b => match d with O => false | S d' => skey_ok alt d' a && skey_ok alt d' b end
  | KAnd l => if alt && is_new l then true
              else match l with
                   | [_] => false
                   | [] => true
                   | _ => match d with O => false | S d' => forallb (skey_ok alt d') l end
                   end
  | KMsgSet l => set_ok l
  | KUid l => set_ok l
  end.

Definition sel_ok (o : sel_opts) : bool := negb (so_recursive o) || so_subscribed o || so_special o.

Fixpoint keys_distinct {V} (l : list (list Z * V)) : bool :=
  match l with
  | [] => true
  | (k, _) :: l' => negb (existsb (fun e => beq k (fst e)) l') && keys_distinct l'
  end.
Definition id_pair_ok (p : list Z * option (list Z)) : bool :=
  str_ok (fst p) && match snd p with None => true | Some v => str_ok v end.

(* alt: see skey_ok — false for every spelling of the search keys, true for the one-token spellings *)
Definition cmd_okb (alt : bool) (c : cmd) : bool :=
  match c with
  | CNoArg _ => true
  | CExpunge => true
  | CUidExpunge set => set_ok set
  | CAuthenticate mech => is_atom mech
  | CLogin u p => str_ok u && str_ok p
  | CMbox _ m => mailbox_ok m
  | CRename a b => mailbox_ok a && mailbox_ok b
  | CList _ sel ref pat pats ret st =>
      sel_ok sel && mailbox_ok ref
      && match pats with [] => str_ok pat | _ => beq pat [] && forallb pattern_ok pats end
      && (if ro_status ret then match st with [] => false | _ => true end else match st with [] => true | _ => false end)
  | CStatus m _ => mailbox_ok m
  | CId params => forallb id_pair_ok params && keys_distinct params
  | CAppend m flags dt msg =>
      mailbox_ok m && forallb flag_ok flags && match dt with None => true | Some t => date_time_wf t end && str_ok msg
  | CSearch _ charset keys =>
      lowered_ok charset && match keys with [] => false | _ => forallb (skey_ok alt 32) keys end
  | CFetch _ set atts => set_ok set && forallb fatt_ok atts
  | CStore _ set _ _ flags => set_ok set && forallb flag_ok flags
  | CCopy _ set m => set_ok set && mailbox_ok m
  | CMove _ set m => set_ok set && mailbox_ok m
  end.

Definition cmd_ok : cmd -> bool := cmd_okb false.
Definition wfb (alt : bool) (a : ast) : bool := tag_ok (a_tag a) && cmd_okb alt (a_cmd a).
(* well-formed for every choice of spelling *)
Definition wf (a : ast) : bool := wfb false a.
(* well-formed for the canonical sentence (one-token spellings): what the parser produces *)
Definition wf_canon (a : ast) : bool := wfb true a.

(* the part of the grammar covered by the completeness theorem: all of it *)
Definition covered (a : ast) : bool := true.
