(* Spec/Inside.v — C09: what "inside the mail directory" means for a path string.

   Written from the property text only: a path is inside `root` when it is `root` followed by
   further components, and walking those components one by one from `root` (an empty component
   and `.` stay, `..` goes up, anything else goes down) never rises above `root` — not even
   temporarily (`../Mail/x` is outside).  Purely lexical: symbolic links are not followed.
   Definitions only. *)
From Asimap Require Import Base.Res Model.Path.
Open Scope Z_scope.

(* depth = number of directories we are below root *)
Fixpoint stays (depth : nat) (cs : list str) : bool :=
  match cs with
  | [] => true
  | c :: r =>
      if c_empty c || c_dot c then stays depth r
      else if c_dotdot c then match depth with O => false | S d => stays d r end
      else stays (S depth) r
  end.

Fixpoint strip_prefix (pre l : list str) : option (list str) :=
  match pre, l with
  | [], _ => Some l
  | x :: pre', y :: l' => if str_eqb x y then strip_prefix pre' l' else None
  | _ :: _, [] => None
  end.

Definition insideb (root p : str) : bool :=
  match strip_prefix (split_slash root) (split_slash p) with
  | Some rest => stays 0 rest
  | None => false
  end.

Definition inside (root p : str) : Prop := insideb root p = true.

(* the mail directory as the server holds it: str(Path) — not empty, no trailing "/" *)
Definition root_ok (root : str) : bool := negb (c_empty root) && negb (endswith_slash root).

(* a name, relative to root, that lexically leaves root at some point, or is absolute *)
Definition leaves_root (s : str) : bool := startswith s [SLASH] || negb (stays 0 (split_slash s)).
