(* Spec/Pop3Spec.v — what property C20 demands, written from its text only.
   Definitions only (no proofs).

   Vocabulary: the events of one INBOX world (POP3 commands of one session, interleaved
   IMAP-side events), the replies a POP3 client sees, the client's side of a multi-line
   reply (RFC 1939 section 3: read lines up to the line ".", strip one leading "." of every
   other line), and the predicates "the listing is stable", "UIDL is the IMAP UID",
   "QUIT removes exactly the marked messages", "the announced size is what is delivered". *)
From Asimap Require Import Base.Res Base.Bytes.
Open Scope Z_scope.
Open Scope list_scope.

Definition crlf : list Z := [13; 10].

(* ------------------------------------------------------------ the client's side *)
(* the lines of a byte string: the pieces between CRLF pairs (leftmost, non overlapping) *)
Definition lines (b : list Z) : list (list Z) := split2 13 10 b.

Definition is_dot (l : list Z) : bool := match l with [x] => x =? 46 | _ => false end.

(* byte-stuffing undone on one line: a leading "." is dropped *)
Definition unstuff_line (l : list Z) : list Z :=
  match l with x :: l' => if x =? 46 then l' else l | [] => [] end.

(* un-stuffing of a payload (no terminator): line by line *)
Definition unstuff (b : list Z) : list Z := bytes_join crlf (map unstuff_line (lines b)).

(* What the client receives from the bytes that follow the status line of a multi-line
   reply: every line before the first line that is exactly "." is un-stuffed and counted
   with its CRLF; the terminator line must be complete (followed by CRLF) and nothing may
   follow it.  None = the reply is not correctly terminated. *)
Fixpoint collect (ls : list (list Z)) : option (list Z) :=
  match ls with
  | [] => None
  | l :: rest =>
      if is_dot l then (match rest with [[]] => Some [] | _ => None end)
      else match collect rest with Some d => Some (unstuff_line l ++ crlf ++ d) | None => None end
  end.
Definition receive (wire : list Z) : option (list Z) := collect (lines wire).

Definition octets (d : list Z) : Z := Z.of_nat (List.length d).

(* ------------------------------------------------------------ events *)
(* A message as the e-mail library renders it (these three byte strings are oracles:
   the generator's output for the whole message, for the headers, for the body). *)
Record content := { c_raw : list Z; c_hdr : list Z; c_body : list Z }.

(* An argument that Python's int() has already been applied to: None = not a number. *)
Inductive pcmd :=
| PStat
| PList (a : option (option Z))      (* None: no argument *)
| PUidl (a : option (option Z))
| PRetr (a : option Z)
| PDele (a : option Z)
| PTop (toks : list (option Z))      (* the whitespace separated tokens of the argument *)
| PNoop
| PRset
| PQuit
| PCapa
| POther.                            (* a command the session does not implement *)

Inductive ev :=
| EOpen                              (* a POP3 session starts: snapshot *)
| EPop (c : pcmd)
| EDrop                              (* the connection goes away without QUIT *)
| EAppend (c : content)              (* IMAP APPEND / a delivery that the server has noticed *)
| EExpunge (uids : list Z)           (* IMAP sessions remove the messages with these UIDs *)
| EPack                              (* the folder is packed: MH keys renumbered 1..n *)
| EObserve.                          (* look at INBOX through IMAP *)

Inductive reply :=
| RStat (count total : Z)
| RListAll (count total : Z) (rows : list (Z * Z))
| RListOne (n size : Z)
| RUidlAll (rows : list (Z * Z))
| RUidlOne (n uid : Z)
| RRetr (n size : Z) (wire : list Z)  (* wire: every byte after the status line *)
| RTop (n : Z) (wire : list Z)
| RDeleted (n : Z)
| ROk
| RBye
| RCapa
| RNoSuch                             (* -ERR no such message *)
| RNotAvail                           (* -ERR message not available *)
| RTopUsage
| RTopLines
| RUnknown
| RAppended (uid : Z)
| RInbox (msgs : list (Z * Z))        (* (MH key, UID) of every message, in order *)
| RNone.

(* what a reply says about sizes and unique ids of numbered messages *)
Definition size_rows (r : reply) : list (Z * Z) :=
  match r with
  | RListAll _ _ rows => rows
  | RListOne n s => [(n, s)]
  | RRetr n s _ => [(n, s)]
  | _ => []
  end.
Definition uid_rows (r : reply) : list (Z * Z) :=
  match r with
  | RUidlAll rows => rows
  | RUidlOne n u => [(n, u)]
  | _ => []
  end.

(* ------------------------------------------------------------ the demands *)
(* "sizes of the messages it lists do not change during the session": any two replies of
   one session that give a size for the same number give the same size *)
Definition sizes_stable (rs : list reply) : Prop :=
  forall r1 r2 n a b, In r1 rs -> In r2 rs -> In (n, a) (size_rows r1) -> In (n, b) (size_rows r2) -> a = b.

(* "message numbers and UIDL values do not change and UIDL values equal the IMAP UIDs":
   number n always goes with the UID of the n-th message INBOX had when the session began *)
Definition uidl_fixed (uids0 : list Z) (rs : list reply) : Prop :=
  forall r n u, In r rs -> In (n, u) (uid_rows r) ->
    1 <= n /\ nth_error uids0 (Z.to_nat (n - 1)) = Some u.

(* the deletion marks a client holds after a trace: the numbers DELE accepted since the last RSET *)
Definition mark_step (marks : list Z) (x : ev * reply) : list Z :=
  match x with
  | (EPop (PDele _), RDeleted n) => n :: marks
  | (EPop PRset, ROk) => []
  | _ => marks
  end.
Definition marks_of (tr : list (ev * reply)) : list Z := fold_left mark_step tr [].

Fixpoint memz (x : Z) (l : list Z) : bool :=
  match l with [] => false | y :: l' => (x =? y) || memz x l' end.

(* the UIDs behind a list of message numbers of the snapshot *)
Definition uids_at (uids0 : list Z) (nums : list Z) : list Z :=
  flat_map (fun n => match nth_error uids0 (Z.to_nat (n - 1)) with Some u => [u] | None => [] end) nums.

(* a full listing shows exactly the numbers of the snapshot that are not marked *)
Definition listed_numbers (count : nat) (marks : list Z) : list Z :=
  filter (fun n => negb (memz n marks)) (map (fun i => 1 + Z.of_nat i) (seq 0 count)).

(* events that belong to a running session (do not start or end one) *)
Definition in_session (e : ev) : bool :=
  match e with EOpen | EDrop | EPop PQuit => false | _ => true end.
Definition not_open (e : ev) : bool := match e with EOpen => false | _ => true end.

(* a multi-line payload is well formed when the client can read it back *)
Definition delivers (wire data : list Z) : Prop := receive wire = Some data.
