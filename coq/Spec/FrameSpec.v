(* Spec/FrameSpec.v — C19: what a byte stream from an IMAP client denotes.
   Written from the property text and RFC 3501 section 4.3 / RFC 7888 (LITERAL+); definitions
   only.  A command is a line of text in which every `{n}` / `{n+}` that ends a line is
   followed by CRLF and exactly n octets that are NOT scanned for line ends; the command ends at
   the first CRLF that does not follow such an announcement.  A stream "made of commands" is the
   concatenation of rendered items; its reference tokenization is the list of the denoted
   commands.  Nothing here looks at how the server scans. *)
From Asimap Require Import Base.Res Base.Bytes.
From Coq Require Import Ascii.
Open Scope Z_scope.

Definition blen (l : bytes) : Z := Z.of_nat (List.length l).
Definition CRLF : bytes := [13; 10].

(* ASCII vocabulary *)
Definition is_digit (x : Z) : bool := (48 <=? x) && (x <=? 57).
(* bytes.rstrip() / isspace: space, \t \n \v \f \r *)
Definition is_ws (x : Z) : bool := (x =? 32) || ((9 <=? x) && (x <=? 13)).
(* value of a string of decimal digits, most significant first *)
Definition dec_val (ds : bytes) : Z := fold_left (fun acc d => acc * 10 + (d - 48)) ds 0.

(* the two octets CR LF do not occur next to one another in l *)
Fixpoint nocrlf (l : bytes) : bool :=
  match l with
  | x :: l' =>
      match l' with
      | y :: _ => negb ((x =? 13) && (y =? 10)) && nocrlf l'
      | [] => true
      end
  | [] => true
  end.

(* ---------------------------------------------------------------- commands *)
(* one literal of a command: the digits of its announcement as the client wrote them, whether it
   is non-synchronising ({n+}), its octets, and the line text that follows the octets *)
Record lit := { l_digits : bytes; l_plus : bool; l_data : bytes; l_text : bytes }.
Record cmd := { c_first : bytes; c_lits : list lit }.

Definition announce (ds : bytes) (plus : bool) : bytes :=
  [123] ++ ds ++ (if plus then [43] else []) ++ [125].

(* text, then for each literal: announcement CRLF octets text *)
Fixpoint ctext (t : bytes) (ls : list lit) : bytes :=
  match ls with
  | [] => t
  | l :: r => t ++ announce (l_digits l) (l_plus l) ++ CRLF ++ l_data l ++ ctext (l_text l) r
  end.

(* the command as the user process must receive it, and as the client sends it *)
Definition denote (c : cmd) : bytes := ctext (c_first c) (c_lits c).
Definition render (c : cmd) : bytes := denote c ++ CRLF.

(* the part of the command before its last line text, and that last line text *)
Fixpoint ctext_pre (t : bytes) (ls : list lit) : bytes :=
  match ls with
  | [] => []
  | l :: r => t ++ announce (l_digits l) (l_plus l) ++ CRLF ++ l_data l ++ ctext_pre (l_text l) r
  end.
Fixpoint last_text (t : bytes) (ls : list lit) : bytes :=
  match ls with [] => t | l :: r => last_text (l_text l) r end.

Definition digits_ok (ds : bytes) : Prop := ds <> [] /\ Forall (fun d => is_digit d = true) ds.
(* the announced count is the number of octets that follow *)
Definition lit_ok (l : lit) : Prop := digits_ok (l_digits l) /\ dec_val (l_digits l) = blen (l_data l).

Definition ends_in_announce (t : bytes) : Prop :=
  exists pre ds plus, t = pre ++ announce ds plus /\ digits_ok ds.
Definition no_trailing_ws (t : bytes) : Prop := forall pre x, t = pre ++ [x] -> is_ws x = false.

Section Limits.
  (* maxin: MAX_INPUT_SIZE; linelim: longest line the reader accepts; maxdig: longest digit string *)
  Variables (maxin linelim maxdig : Z).

  (* every line that announces a literal: no CRLF inside, within the line limit, honest count *)
  Fixpoint lines_ok (t : bytes) (ls : list lit) : Prop :=
    match ls with
    | [] => True
    | l :: r => nocrlf t = true /\ blen (t ++ announce (l_digits l) (l_plus l)) <= linelim /\
                lit_ok l /\ blen (l_digits l) <= maxdig /\ lines_ok (l_text l) r
    end.

  (* a complete command within the limits.  Literal octets (l_data) are arbitrary. *)
  Definition wf_cmd (c : cmd) : Prop :=
    lines_ok (c_first c) (c_lits c) /\
    let t := last_text (c_first c) (c_lits c) in
    nocrlf t = true /\ blen t <= linelim /\ no_trailing_ws t /\ ~ ends_in_announce t /\
    denote c <> [] /\ blen (denote c) <= maxin.

  (* ---------------------------------------------------------------- streams with refusals *)
  Inductive item :=
  | ICmd (c : cmd)                 (* a complete command within the limits *)
  | IBlank (w : bytes)             (* a line of white space only *)
  | IBigLit (c : cmd) (ds : bytes) (plus : bool) (data : bytes)
        (* command text c, then an announcement of more than maxin octets; a synchronising client
           sends nothing more (data = []), a LITERAL+ client sends the announced octets *)
  | IBigAcc (c : cmd) (l : lit)    (* command text c, then a literal within the limit that makes the
                                      accumulated command larger than maxin *)
  | IBigLine (c : cmd).            (* a complete command whose last line makes it larger than maxin *)

  Definition render_item (i : item) : bytes :=
    match i with
    | ICmd c => render c
    | IBlank w => w ++ CRLF
    | IBigLit c ds plus data => denote c ++ announce ds plus ++ CRLF ++ data
    | IBigAcc c l => denote c ++ announce (l_digits l) (l_plus l) ++ CRLF ++ l_data l
    | IBigLine c => render c
    end.

  (* the text before a refusal: well-formed lines, accumulated size within the limit *)
  Definition wf_prefix (c : cmd) : Prop :=
    lines_ok (c_first c) (c_lits c) /\ blen (ctext_pre (c_first c) (c_lits c)) <= maxin.

  Definition wf_item (i : item) : Prop :=
    match i with
    | ICmd c => wf_cmd c
    | IBlank w => Forall (fun x => is_ws x = true) w /\ nocrlf w = true /\ blen w <= linelim
    | IBigLit c ds plus data =>
        wf_prefix c /\
        let t := last_text (c_first c) (c_lits c) in
        nocrlf t = true /\ blen (t ++ announce ds plus) <= linelim /\
        digits_ok ds /\ blen ds <= maxdig /\ maxin < dec_val ds /\
        (if plus then blen data = dec_val ds else data = [])
    | IBigAcc c l =>
        wf_prefix c /\
        let t := last_text (c_first c) (c_lits c) in
        nocrlf t = true /\ blen (t ++ announce (l_digits l) (l_plus l)) <= linelim /\
        lit_ok l /\ blen (l_digits l) <= maxdig /\ dec_val (l_digits l) <= maxin /\
        maxin < blen (denote c ++ announce (l_digits l) (l_plus l) ++ CRLF ++ l_data l)
    | IBigLine c =>
        wf_prefix c /\
        let t := last_text (c_first c) (c_lits c) in
        nocrlf t = true /\ blen t <= linelim /\ no_trailing_ws t /\ ~ ends_in_announce t /\
        denote c <> [] /\ maxin < blen (denote c)
    end.

  (* reference tokenization: the commands the stream denotes, in order *)
  Definition commands_of (is : list item) : list bytes :=
    flat_map (fun i => match i with ICmd c => [denote c] | _ => [] end) is.

  (* number of synchronising literals the server has to ask for *)
  Definition sync_lits (ls : list lit) : nat := List.length (filter (fun l => negb (l_plus l)) ls).
End Limits.

(* ---------------------------------------------------------------- what must be observed *)
(* observations at the front-end, in order: octets written back to the client, and complete
   commands handed to the user process *)
Inductive ev := Wr (b : bytes) | Msg (b : bytes).

Fixpoint bytes_of_string (s : string) : bytes :=
  match s with
  | EmptyString => []
  | String a s' => Z.of_N (N_of_ascii a) :: bytes_of_string s'
  end.

(* the replies of the front-end (the property asks for "a `+` continuation" and "a BAD"; the
   exact texts are the implementation's and are compared octet by octet on every run) *)
Definition BAD_EMPTY : bytes := bytes_of_string "* BAD We do not accept empty messages." ++ CRLF.
Definition BAD_LIT : bytes := bytes_of_string "* BAD literal size exceeds maximum allowed size" ++ CRLF.
Definition BAD_CMD : bytes := bytes_of_string "* BAD command exceeds maximum allowed size" ++ CRLF.
Definition BAD_LINE : bytes := bytes_of_string "* BAD line exceeds maximum allowed length" ++ CRLF.
Definition CONT : bytes := bytes_of_string "+ Ready for more input" ++ CRLF.


Definition conts (ls : list lit) : list ev := flat_map (fun l => if l_plus l then [] else [Wr CONT]) ls.

(* a continuation request for each synchronising literal that is accepted, then the command
   handed on, or the refusal *)
Definition item_events (i : item) : list ev :=
  match i with
  | ICmd c => conts (c_lits c) ++ [Msg (denote c)]
  | IBlank _ => [Wr BAD_EMPTY]
  | IBigLit c _ _ _ => conts (c_lits c) ++ [Wr BAD_LIT]
  | IBigAcc c l => conts (c_lits c) ++ conts [l] ++ [Wr BAD_CMD]
  | IBigLine c => conts (c_lits c) ++ [Wr BAD_CMD]
  end.

(* ---------------------------------------------------------------- responses *)
(* a response stream: chunks ending in CRLF; a chunk's text may be any CRLF-free run *)
Definition render_lines (ls : list bytes) : bytes := List.concat (map (fun l => l ++ CRLF) ls).
