(* Spec/SearchSem.v — what an RFC 3501 search program denotes.  Written from
   RFC 3501 section 6.4.4 and the text of property C14, independent of the code.
   A message is described by what FETCH shows of it; a mailbox is the list of
   its messages in sequence-number order.  Definitions only. *)
From Asimap Require Import Base.Res Spec.SetSem.
Open Scope Z_scope.

Definition bstr := list Z.          (* octets *)

(* what FETCH (UID FLAGS RFC822.SIZE INTERNALDATE BODY[] BODY[TEXT]) shows of one message *)
Record fmsg := {
  f_uid   : Z;
  f_flags : list string;            (* FLAGS, spelled as FETCH spells them *)
  f_size  : Z;                      (* RFC822.SIZE *)
  f_iday  : Z;                      (* INTERNALDATE as a day number, time and zone disregarded *)
  f_sent  : option Z;               (* the Date: header as a day number, time and zone disregarded;
                                       None when the message has no Date: header that is a date *)
  f_hdrs  : list (bstr * bstr);     (* the header fields of BODY[] in order: field name, text after the colon *)
  f_text  : bstr;                   (* BODY[]      (header and body) *)
  f_body  : bstr                    (* BODY[TEXT]  (body only) *)
}.
Definition fmailbox := list fmsg.

(* search-key of RFC 3501 (formal syntax, section 9); a program is 1#search-key *)
Inductive key :=
| SAll | SAnswered | SBcc (s : bstr) | SBefore (d : Z) | SBody (s : bstr) | SCc (s : bstr)
| SDeleted | SFlagged | SFrom (s : bstr) | SKeyword (k : string) | SNew | SOld | SOn (d : Z)
| SRecent | SSeen | SSince (d : Z) | SSubject (s : bstr) | SText (s : bstr) | STo (s : bstr)
| SUnanswered | SUndeleted | SUnflagged | SUnkeyword (k : string) | SUnseen
| SDraft | SHeader (f s : bstr) | SLarger (n : Z) | SNot (k : key) | SOr (a b : key)
| SSentBefore (d : Z) | SSentOn (d : Z) | SSentSince (d : Z) | SSmaller (n : Z)
| SUid (s : list sset_elt) | SUndraft | SMsgSet (s : list sset_elt) | SParen (l : list key).
Definition prog := list key.

(* ---- strings: "In all search keys that use strings, a message matches the key
   if the string is a substring of the field.  The matching is case-insensitive." *)
Definition fold_byte (z : Z) : Z := if (65 <=? z) && (z <=? 90) then z + 32 else z.
Definition lower (s : bstr) : bstr := map fold_byte s.
Fixpoint prefix (p l : bstr) : bool :=
  match p, l with
  | [], _ => true
  | x :: p', y :: l' => (x =? y) && prefix p' l'
  | _ :: _, [] => false
  end.
Fixpoint contains (p l : bstr) : bool :=
  prefix p l || match l with [] => false | _ :: l' => contains p l' end.
(* the Prop it decides (Proofs/SearchP.v: contains_spec) *)
Definition substring (p l : bstr) : Prop := exists pre post, l = pre ++ p ++ post.
Definition ci_contains (s field : bstr) : bool := contains (lower s) (lower field).

Fixpoint bstr_eqb (a b : bstr) : bool :=
  match a, b with
  | [], [] => true
  | x :: a', y :: b' => (x =? y) && bstr_eqb a' b'
  | _, _ => false
  end.
Definition byte_of_ascii (c : Ascii.ascii) : Z := Z.of_N (Ascii.N_of_ascii c).
Fixpoint bytes_of_string (s : string) : bstr :=
  match s with EmptyString => [] | String c s' => byte_of_ascii c :: bytes_of_string s' end.

(* ---- the atoms of the program ---- *)
Definition has_flag (fl : string) (m : fmsg) : bool := existsb (String.eqb fl) (f_flags m).
(* "have a header with the specified field-name and that contains the specified string in the
   text of the header (what comes after the colon)"; field names are case-insensitive *)
Definition has_header (f s : bstr) (m : fmsg) : bool :=
  existsb (fun h => bstr_eqb (lower (fst h)) (lower f) && ci_contains s (snd h)) (f_hdrs m).
Definition sent_rel (r : Z -> Z -> bool) (m : fmsg) (d : Z) : bool :=
  match f_sent m with Some s => r s d | None => false end.
Definition zmem (x : Z) (l : list Z) : bool := existsb (Z.eqb x) l.

Definition seq_max (mb : fmailbox) : Z := Z.of_nat (List.length mb).
(* "*" in a UID set: the unique identifier of the last message in the mailbox *)
Definition uid_max (mb : fmailbox) : Z := last (map f_uid mb) 0.

(* does message [m], at sequence number [n] of mailbox [mb], satisfy key [k] *)
Fixpoint sat (mb : fmailbox) (n : Z) (m : fmsg) (k : key) {struct k} : bool :=
  match k with
  | SAll => true
  | SAnswered => has_flag "\Answered"%string m
  | SDeleted => has_flag "\Deleted"%string m
  | SDraft => has_flag "\Draft"%string m
  | SFlagged => has_flag "\Flagged"%string m
  | SRecent => has_flag "\Recent"%string m
  | SSeen => has_flag "\Seen"%string m
  | SKeyword kw => has_flag kw m
  | SUnanswered => negb (has_flag "\Answered"%string m)
  | SUndeleted => negb (has_flag "\Deleted"%string m)
  | SUndraft => negb (has_flag "\Draft"%string m)
  | SUnflagged => negb (has_flag "\Flagged"%string m)
  | SUnseen => negb (has_flag "\Seen"%string m)
  | SUnkeyword kw => negb (has_flag kw m)
  | SNew => has_flag "\Recent"%string m && negb (has_flag "\Seen"%string m)   (* "(RECENT UNSEEN)" *)
  | SOld => negb (has_flag "\Recent"%string m)                          (* "NOT RECENT" *)
  | SBcc s => has_header (bytes_of_string "bcc"%string) s m
  | SCc s => has_header (bytes_of_string "cc"%string) s m
  | SFrom s => has_header (bytes_of_string "from"%string) s m
  | SSubject s => has_header (bytes_of_string "subject"%string) s m
  | STo s => has_header (bytes_of_string "to"%string) s m
  | SHeader f s => has_header f s m
  | SBody s => ci_contains s (f_body m)
  | SText s => ci_contains s (f_text m)
  | SBefore d => f_iday m <? d
  | SOn d => f_iday m =? d
  | SSince d => d <=? f_iday m
  | SSentBefore d => sent_rel Z.ltb m d
  | SSentOn d => sent_rel Z.eqb m d
  | SSentSince d => sent_rel Z.geb m d
  | SLarger n' => n' <? f_size m
  | SSmaller n' => f_size m <? n'
  | SMsgSet s => zmem n (denote (seq_max mb) s)
  | SUid s => zmem (f_uid m) (denote (uid_max mb) s)
  | SNot k' => negb (sat mb n m k')                 (* complement *)
  | SOr a b => sat mb n m a || sat mb n m b         (* union *)
  | SParen l => forallb (sat mb n m) l              (* intersection *)
  end.

(* the message with sequence number n *)
Definition msg_at (mb : fmailbox) (n : Z) : option fmsg :=
  if n <? 1 then None else nth_error mb (Z.to_nat (n - 1)).
(* a program is the intersection of its keys *)
Definition holds (p : prog) (mb : fmailbox) (n : Z) : bool :=
  match msg_at mb n with Some m => forallb (sat mb n m) p | None => false end.

(* SEARCH: the sequence numbers 1..N whose message satisfies the program, ascending *)
Definition sem_search (p : prog) (mb : fmailbox) : list Z :=
  filter (holds p mb) (py_range 1 (seq_max mb + 1)).
(* the UID table *)
Definition uid_at (mb : fmailbox) (n : Z) : Z :=
  match msg_at mb n with Some m => f_uid m | None => 0 end.
(* UID SEARCH = SEARCH mapped through the UID table *)
Definition sem_uid_search (p : prog) (mb : fmailbox) : list Z := map (uid_at mb) (sem_search p mb).
