(* Base/Res.v — result type, loop combinators and the Python primitives the
   generated code (tools/py2v.py) refers to.  Library file: proofs allowed. *)
From Coq Require Export List ZArith Bool Lia String.
From Coq Require Import Sorting.Sorted.
Export ListNotations.
Open Scope Z_scope.

Inductive err := EBad | ENo | EOther.
Inductive res (A : Type) := Ok (a : A) | Err (e : err).
Arguments Ok {A} a.
Arguments Err {A} e.

Definition bind {A B} (r : res A) (f : A -> res B) : res B :=
  match r with Ok a => f a | Err e => Err e end.

(* for x in l: body  — body may raise; s is the tuple of loop-carried variables *)
Fixpoint for_each {S X} (body : S -> X -> res S) (s : S) (l : list X) : res S :=
  match l with
  | [] => Ok s
  | x :: l' => match body s x with Ok s' => for_each body s' l' | Err e => Err e end
  end.

Lemma for_each_app {S X} (body : S -> X -> res S) l1 l2 s :
  for_each body s (l1 ++ l2) = bind (for_each body s l1) (fun s' => for_each body s' l2).
Proof.
  revert s; induction l1 as [|x l1 IH]; intros s; cbn [for_each app bind]; [reflexivity|].
  destruct (body s x) as [s'|e]; [apply IH|reflexivity].
Qed.

(* ---- sequence-set element type produced by parse.py's _p_msg_set ---- *)
Inductive sset_atom := AStar | ANum (n : Z).
Inductive sset_elt := EStar | ENum (n : Z) | ERange (a b : sset_atom).

Definition is_star (a : sset_atom) : bool := match a with AStar => true | ANum _ => false end.
Definition atom_or (a : sset_atom) (d : Z) : Z := match a with AStar => d | ANum n => n end.

(* ---- Python primitives ---- *)
(* list(range(a, b)) *)
Definition py_range (a b : Z) : list Z := map (fun i => a + Z.of_nat i) (seq 0 (Z.to_nat (b - a))).

(* sorted(set(l)) : insertion into a strictly sorted list *)
Fixpoint zinsert (x : Z) (l : list Z) : list Z :=
  match l with
  | [] => [x]
  | y :: l' => if x <? y then x :: l else if x =? y then l else y :: zinsert x l'
  end.
Definition sorted_set (l : list Z) : list Z := fold_right zinsert [] l.

Lemma in_py_range a b n : In n (py_range a b) <-> a <= n < b.
Proof.
  unfold py_range; rewrite in_map_iff; split.
  - intros [i [Hi Hin]]; apply in_seq in Hin; lia.
  - intros H; exists (Z.to_nat (n - a)); split; [lia|apply in_seq; lia].
Qed.

Lemma in_zinsert x l n : In n (zinsert x l) <-> n = x \/ In n l.
Proof.
  induction l as [|y l IH]; cbn [zinsert In]; [intuition|].
  destruct (x <? y) eqn:H1; cbn [In]; [intuition|].
  destruct (x =? y) eqn:H2; cbn [In]; [apply Z.eqb_eq in H2; subst; intuition|].
  rewrite IH; intuition.
Qed.

Lemma in_sorted_set l n : In n (sorted_set l) <-> In n l.
Proof.
  induction l as [|x l IH]; cbn [sorted_set fold_right In]; [reflexivity|].
  fold (sorted_set l); rewrite in_zinsert, IH; intuition.
Qed.

Lemma zinsert_sorted x l : StronglySorted Z.lt l -> StronglySorted Z.lt (zinsert x l).
Proof.
  induction l as [|y l IH]; intros Hs; cbn [zinsert].
  - constructor; constructor.
  - inversion Hs as [|? ? Hs' Hall]; subst.
    destruct (x <? y) eqn:H1.
    + constructor; [exact Hs|]. constructor; [lia|].
      rewrite Forall_forall in *; intros z Hz; specialize (Hall z Hz); lia.
    + destruct (x =? y) eqn:H2; [exact Hs|].
      constructor; [apply IH; exact Hs'|].
      rewrite Forall_forall in *; intros z Hz; apply in_zinsert in Hz.
      destruct Hz as [->|Hz]; [lia|apply Hall; exact Hz].
Qed.

Lemma sorted_set_sorted l : StronglySorted Z.lt (sorted_set l).
Proof.
  induction l as [|x l IH]; cbn [sorted_set fold_right]; [constructor|].
  apply zinsert_sorted; exact IH.
Qed.

(* Two strictly sorted lists with the same elements are equal. *)
Lemma sorted_ext (l1 l2 : list Z) :
  StronglySorted Z.lt l1 -> StronglySorted Z.lt l2 ->
  (forall n, In n l1 <-> In n l2) -> l1 = l2.
Proof.
  revert l2; induction l1 as [|x l1 IH]; intros l2 H1 H2 Hext.
  - destruct l2 as [|y l2]; [reflexivity|]. exfalso; apply (Hext y); left; reflexivity.
  - destruct l2 as [|y l2]; [exfalso; apply (Hext x); left; reflexivity|].
    inversion H1 as [|? ? H1' A1]; inversion H2 as [|? ? H2' A2]; subst.
    rewrite Forall_forall in A1, A2.
    assert (x = y) as ->.
    { destruct (proj1 (Hext x) (or_introl eq_refl)) as [E|Hin]; [symmetry; exact E|].
      destruct (proj2 (Hext y) (or_introl eq_refl)) as [E|Hin']; [exact E|].
      specialize (A1 _ Hin'); specialize (A2 _ Hin); lia. }
    f_equal; apply IH; [exact H1'|exact H2'|].
    intros n; split; intros Hn.
    + destruct (proj1 (Hext n) (or_intror Hn)) as [E|Hin]; [|exact Hin].
      subst; specialize (A1 _ Hn); lia.
    + destruct (proj2 (Hext n) (or_intror Hn)) as [E|Hin]; [|exact Hin].
      subst; specialize (A2 _ Hn); lia.
Qed.

(* ---- str methods the generated code uses (strings are lists of code points < 256) ---- *)
(* "c" in s *)
Fixpoint str_contains1 (c : Ascii.ascii) (s : string) : bool :=
  match s with EmptyString => false | String d s' => Ascii.eqb d c || str_contains1 c s' end.
(* s.isascii() *)
Fixpoint str_isascii (s : string) : bool :=
  match s with EmptyString => true | String d s' => Nat.leb (Ascii.nat_of_ascii d) 127 && str_isascii s' end.

(* ---- string-keyed association lists standing for Python dicts ---- *)
Section Dict.
  Context {V : Type}.
  Fixpoint dict_mem (d : list (string * V)) (k : string) : bool :=
    match d with [] => false | (k', _) :: d' => if String.eqb k k' then true else dict_mem d' k end.
  Fixpoint dict_get (dflt : V) (d : list (string * V)) (k : string) : V :=
    match d with [] => dflt | (k', v) :: d' => if String.eqb k k' then v else dict_get dflt d' k end.
  Fixpoint dict_del (d : list (string * V)) (k : string) : list (string * V) :=
    match d with [] => [] | (k', v) :: d' => if String.eqb k k' then dict_del d' k else (k', v) :: dict_del d' k end.
  Definition dict_set (d : list (string * V)) (k : string) (v : V) : list (string * V) :=
    (k, v) :: dict_del d k.

  Lemma dict_mem_del d k k' : dict_mem (dict_del d k) k' = if String.eqb k' k then false else dict_mem d k'.
  Proof.
    induction d as [|[k0 v0] d IH]; cbn [dict_del dict_mem].
    - destruct (String.eqb k' k); reflexivity.
    - destruct (String.eqb k k0) eqn:E0.
      + apply String.eqb_eq in E0; subst k0. rewrite IH.
        destruct (String.eqb k' k); reflexivity.
      + cbn [dict_mem]. rewrite IH.
        destruct (String.eqb k' k0) eqn:E1; [|reflexivity].
        apply String.eqb_eq in E1; subst k0.
        rewrite String.eqb_sym, E0; reflexivity.
  Qed.
  Lemma dict_get_del dflt d k k' : String.eqb k' k = false -> dict_get dflt (dict_del d k) k' = dict_get dflt d k'.
  Proof.
    intros Hne; induction d as [|[k0 v0] d IH]; cbn [dict_del dict_get]; [reflexivity|].
    destruct (String.eqb k k0) eqn:E0.
    - apply String.eqb_eq in E0; subst k0. rewrite Hne; exact IH.
    - cbn [dict_get]. rewrite IH; reflexivity.
  Qed.
  Lemma dict_mem_set d k v k' : dict_mem (dict_set d k v) k' = if String.eqb k' k then true else dict_mem d k'.
  Proof.
    unfold dict_set; cbn [dict_mem]. rewrite dict_mem_del.
    destruct (String.eqb k' k); reflexivity.
  Qed.
  Lemma dict_get_set dflt d k v k' : dict_get dflt (dict_set d k v) k' = if String.eqb k' k then v else dict_get dflt d k'.
  Proof.
    unfold dict_set; cbn [dict_get].
    destruct (String.eqb k' k) eqn:E; [reflexivity|apply dict_get_del; exact E].
  Qed.
End Dict.
