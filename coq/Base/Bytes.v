(* Base/Bytes.v — byte strings as lists of Z (0..255) and the bytes methods the
   generated code uses. *)
From Asimap Require Import Base.Res.
Open Scope Z_scope.

Definition bytes := list Z.

Fixpoint bytes_startswith (l p : list Z) : bool :=
  match p, l with
  | [], _ => true
  | x :: p', y :: l' => (x =? y) && bytes_startswith l' p'
  | _ :: _, [] => false
  end.

(* data.split(sep) for a two-byte separator: leftmost, non-overlapping *)
Fixpoint split2 (a b : Z) (l : list Z) : list (list Z) :=
  match l with
  | [] => [[]]
  | x :: l' =>
      match l' with
      | y :: l'' =>
          if (x =? a) && (y =? b) then [] :: split2 a b l''
          else match split2 a b l' with h :: t => (x :: h) :: t | [] => [[x]] end
      | [] => [[x]]
      end
  end.

Definition bytes_split (l sep : list Z) : list (list Z) :=
  match sep with
  | [a; b] => split2 a b l
  | _ => [l]   (* not used by any generated target; the bridge lemmas fix sep *)
  end.

Fixpoint bytes_join (sep : list Z) (ls : list (list Z)) : list Z :=
  match ls with
  | [] => []
  | [x] => x
  | x :: rest => x ++ sep ++ bytes_join sep rest
  end.

(* l.endswith(p) *)
Definition bytes_endswith (l p : list Z) : bool := bytes_startswith (rev l) (rev p).
Definition bytes_is_empty (l : list Z) : bool := match l with [] => true | _ => false end.

(* b"x" in l *)
Definition bytes_contains1 (c : Z) (l : list Z) : bool := existsb (Z.eqb c) l.
(* l.replace(b"x", new) for a one-byte pattern *)
Definition bytes_replace1 (c : Z) (new l : list Z) : list Z := flat_map (fun x => if x =? c then new else [x]) l.

(* str(n).encode() / b"%d" % n for n >= 0 *)
Fixpoint uint_bytes (d : Decimal.uint) : list Z :=
  match d with
  | Decimal.Nil => []
  | Decimal.D0 d => 48 :: uint_bytes d
  | Decimal.D1 d => 49 :: uint_bytes d
  | Decimal.D2 d => 50 :: uint_bytes d
  | Decimal.D3 d => 51 :: uint_bytes d
  | Decimal.D4 d => 52 :: uint_bytes d
  | Decimal.D5 d => 53 :: uint_bytes d
  | Decimal.D6 d => 54 :: uint_bytes d
  | Decimal.D7 d => 55 :: uint_bytes d
  | Decimal.D8 d => 56 :: uint_bytes d
  | Decimal.D9 d => 57 :: uint_bytes d
  end.
Definition bytes_dec (n : Z) : list Z := uint_bytes (N.to_uint (Z.to_N n)).

Lemma split2_cons2 a b x y l :
  split2 a b (x :: y :: l) =
  if (x =? a) && (y =? b) then [] :: split2 a b l
  else match split2 a b (y :: l) with h :: t => (x :: h) :: t | [] => [[x]] end.
Proof. reflexivity. Qed.

Lemma split2_nonempty a b l : split2 a b l <> [].
Proof.
  destruct l as [|x [|y l]]; [intro H; discriminate H|intro H; discriminate H|].
  rewrite split2_cons2.
  destruct ((x =? a) && (y =? b)); [intro H; discriminate H|].
  destruct (split2 a b (y :: l)); intro H; discriminate H.
Qed.
