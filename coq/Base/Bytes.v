(* Base/Bytes.v — byte strings as lists of Z (0..255) and the bytes methods the
   generated code uses. *)
From Asimap Require Import Base.Res.
Open Scope Z_scope.

Definition bytes := list Z.

Fixpoint bytes_startswith (l p : list Z) : bool :=
  match p, l with
  | [], _ => true
  | x :: p', y :: l' => (x =? y) && bytes_startswith l' p'
  | _ :: _, [] => false
  end.

(* data.split(sep) for a two-byte separator: leftmost, non-overlapping *)
Fixpoint split2 (a b : Z) (l : list Z) : list (list Z) :=
  match l with
  | [] => [[]]
  | x :: l' =>
      match l' with
      | y :: l'' =>
          if (x =? a) && (y =? b) then [] :: split2 a b l''
          else match split2 a b l' with h :: t => (x :: h) :: t | [] => [[x]] end
      | [] => [[x]]
      end
  end.

Definition bytes_split (l sep : list Z) : list (list Z) :=
  match sep with
  | [a; b] => split2 a b l
  | _ => [l]   (* not used by any generated target; the bridge lemmas fix sep *)
  end.

Fixpoint bytes_join (sep : list Z) (ls : list (list Z)) : list Z :=
  match ls with
  | [] => []
  | [x] => x
  | x :: rest => x ++ sep ++ bytes_join sep rest
  end.

Lemma split2_cons2 a b x y l :
  split2 a b (x :: y :: l) =
  if (x =? a) && (y =? b) then [] :: split2 a b l
  else match split2 a b (y :: l) with h :: t => (x :: h) :: t | [] => [[x]] end.
Proof. reflexivity. Qed.

Lemma split2_nonempty a b l : split2 a b l <> [].
Proof.
  destruct l as [|x [|y l]]; [intro H; discriminate H|intro H; discriminate H|].
  rewrite split2_cons2.
  destruct ((x =? a) && (y =? b)); [intro H; discriminate H|].
  destruct (split2 a b (y :: l)); intro H; discriminate H.
Qed.
