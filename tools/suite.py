#!/venv/bin/python
"""Run the pinned baseline suite on a scratch worktree of /repo at a given commit and
compare with BASELINE.stable_pass.  usage: suite.py <commit-ish> [label]"""
import json, subprocess, sys, shutil, os, xml.etree.ElementTree as ET
rev = sys.argv[1] if len(sys.argv) > 1 else "HEAD"
sha = subprocess.check_output(["git", "-C", "/repo", "rev-parse", "--short", rev], text=True).strip()
wt = f"/tmp/suite-{sha}-{os.getpid()}"
subprocess.run(["git", "-C", "/repo", "worktree", "add", "--detach", wt, rev], check=True, capture_output=True)
try:
    junit = f"{wt}/junit.xml"
    p = subprocess.run(["/venv/bin/python", "-m", "pytest", "-ra", "-q", "-p", "no:cacheprovider", "--timeout=900",
                        "--continue-on-collection-errors", f"--junitxml={junit}"], cwd=wt, capture_output=True, text=True,
                       env={**os.environ, "PYTHONPATH": wt})
    base = json.load(open("/root/.vp/BASELINE.json"))
    stable = set(base["stable_pass"])
    passed = set()
    for tc in ET.parse(junit).getroot().iter("testcase"):
        ok = not any(c.tag in ("failure", "error", "skipped") for c in tc)
        name = f"{tc.get('classname')}::{tc.get('name')}"
        if ok:
            passed.add(name)
    missing = sorted(stable - passed)
    print(f"suite@{sha}: stable_pass {len(stable & passed)}/{len(stable)}; regressions: {len(missing)}")
    for m in missing[:40]:
        print("  REGRESSION", m)
    print(p.stdout[-600:])
finally:
    subprocess.run(["git", "-C", "/repo", "worktree", "remove", "--force", wt], capture_output=True)
