#!/usr/bin/env python3
"""py2v — fail-closed translator from a small, closed subset of Python (the
pure functions and constant tables of scanner/asimap listed in TARGETS) to
Gallina.  Run on every check; writes coq/Gen/*.v only when the text changed.

The translator is idiom based: it accepts exactly the statement and expression
forms listed below and raises Unsupported for anything else, so that a change
of the source into something it cannot render is reported (by the check) as a
broken tie, never silently dropped.

Emission rules (see DESIGN.md 3.4):
  * statements are translated in continuation-passing style: `if c: A` followed
    by the rest R becomes `if c then [A;R] else [R]`;
  * every function returns `res T` (Ok / Err EBad for `raise Bad`, Err ENo for
    `raise No`, Err EOther for any other exception class);
  * every `for` loop body becomes its own Definition `<fn>_body<k>` taking the
    function parameters, the tuple of loop-carried variables and the element,
    and the loop is `for_each` from Base/Res.v;
  * module-level dicts that a function mutates are threaded as explicit state
    (parameters and part of the result);  `time.time()` is the parameter `now`.
"""
from __future__ import annotations

import ast
import hashlib
import os
import sys
from pathlib import Path


class Unsupported(Exception):
    def __init__(self, node, why):
        self.node = node
        self.why = why
        line = getattr(node, "lineno", "?")
        try:
            src = ast.unparse(node)
        except Exception:
            src = repr(node)
        super().__init__(f"line {line}: {why}: {src[:120]}")


def coq_string(s: str) -> str:
    for ch in s:
        if ord(ch) < 32 or ord(ch) > 126:
            raise ValueError(f"non printable character in string constant {s!r}")
    return '"' + s.replace('"', '""') + '"%string'


def coq_bytes(b: bytes) -> str:
    return "[" + "; ".join(str(x) for x in b) + "]%Z"


EXC = {"Bad": "EBad", "No": "ENo"}

# types: 'Z', 'bool', 'str', 'bytes', 'lZ' (list Z), 'lbytes', 'elt', 'atom',
#        'lelt', ('pair', a, b), ('dict', v)


def tname(t) -> str:
    if isinstance(t, tuple):
        if t[0] == "pair":
            return f"({tname(t[1])} * {tname(t[2])})"
        if t[0] == "dict":
            return f"(list (string * {tname(t[1])}))"
    return {
        "Z": "Z",
        "bool": "bool",
        "str": "string",
        "bytes": "(list Z)",
        "lZ": "(list Z)",
        "lbytes": "(list (list Z))",
        "elt": "sset_elt",
        "atom": "sset_atom",
        "lelt": "(list sset_elt)",
        "lstr": "(list string)",
    }[t]


def tdefault(t) -> str:
    if isinstance(t, tuple) and t[0] == "pair":
        return f"({tdefault(t[1])}, {tdefault(t[2])})"
    return {"Z": "0", "bool": "false", "str": '""%string'}[t]


class FnTranslator:
    def __init__(self, fn: ast.FunctionDef, profile: dict, consts: dict):
        self.fn = fn
        self.name = profile.get("coq_name", fn.name)
        self.params = list(profile["params"])  # [(name, type)]
        self.state = list(profile.get("state", []))  # [(name, type)] threaded globals
        self.ret = profile["ret"]  # type of the python return value or None
        self.consts = consts  # module constants name -> (coq, type)
        self.bodies: list[str] = []
        self.nbody = 0
        self.now = profile.get("now", False)

    # ---------- expressions ----------
    def expr(self, e, env) -> tuple[str, object]:
        if isinstance(e, ast.Constant):
            v = e.value
            if isinstance(v, bool):
                return ("true" if v else "false"), "bool"
            if isinstance(v, int):
                return (str(v) if v >= 0 else f"({v})"), "Z"
            if isinstance(v, str):
                return coq_string(v), "str"
            if isinstance(v, bytes):
                return coq_bytes(v), "bytes"
            raise Unsupported(e, "constant")
        if isinstance(e, ast.Name):
            if e.id in env:
                return env[e.id]
            if e.id in self.consts:
                return self.consts[e.id]
            raise Unsupported(e, "unknown name")
        if isinstance(e, ast.Tuple) and len(e.elts) == 2:
            a, ta = self.expr(e.elts[0], env)
            b, tb = self.expr(e.elts[1], env)
            return f"({a}, {b})", ("pair", ta, tb)
        if isinstance(e, ast.UnaryOp) and isinstance(e.op, ast.Not):
            a, ta = self.expr(e.operand, env)
            self.want(e, ta, "bool")
            return f"(negb {a})", "bool"
        if isinstance(e, ast.BoolOp):
            parts = []
            for v in e.values:
                a, ta = self.expr(v, env)
                if ta == "bytes":      # truth value of a byte string: non-empty
                    a, ta = f"(negb (bytes_is_empty {a}))", "bool"
                self.want(v, ta, "bool")
                parts.append(a)
            op = " && " if isinstance(e.op, ast.And) else " || "
            return "(" + op.join(parts) + ")", "bool"
        if isinstance(e, ast.BinOp) and isinstance(e.op, ast.Mod) and isinstance(e.left, ast.Constant) \
                and isinstance(e.left.value, bytes):
            # b"...%d...%b..." % (args): only %d (int) and %b (bytes) conversions, one argument each
            fmt = e.left.value
            args = list(e.right.elts) if isinstance(e.right, ast.Tuple) else [e.right]
            pieces, i, lit = [], 0, b""
            while i < len(fmt):
                if fmt[i:i + 1] == b"%":
                    conv = fmt[i + 1:i + 2]
                    if conv not in (b"d", b"b") or not args:
                        raise Unsupported(e, "format conversion")
                    if lit:
                        pieces.append(coq_bytes(lit))
                        lit = b""
                    a, ta = self.expr(args.pop(0), env)
                    self.want(e, ta, "Z" if conv == b"d" else "bytes")
                    pieces.append(f"(bytes_dec {a})" if conv == b"d" else a)
                    i += 2
                else:
                    lit += fmt[i:i + 1]
                    i += 1
            if lit:
                pieces.append(coq_bytes(lit))
            if args:
                raise Unsupported(e, "too many format arguments")
            return "(" + " ++ ".join(pieces or ["[]"]) + ")", "bytes"
        if isinstance(e, ast.BinOp):
            a, ta = self.expr(e.left, env)
            b, tb = self.expr(e.right, env)
            if ta == "Z" and tb == "Z":
                if isinstance(e.op, ast.Add):
                    return f"({a} + {b})", "Z"
                if isinstance(e.op, ast.Sub):
                    return f"({a} - {b})", "Z"
            if ta == "bytes" and tb == "bytes" and isinstance(e.op, ast.Add):
                return f"({a} ++ {b})", "bytes"
            raise Unsupported(e, "binary operator")
        if isinstance(e, ast.Compare) and len(e.ops) == 1:
            op = e.ops[0]
            l, r = e.left, e.comparators[0]
            # atom == "*"
            if isinstance(op, ast.Eq) and isinstance(r, ast.Constant) and r.value == "*":
                a, ta = self.expr(l, env)
                if ta == "atom":
                    return f"(is_star {a})", "bool"
                raise Unsupported(e, 'comparison with "*" on a non-atom')
            if isinstance(op, (ast.In, ast.NotIn)):
                k, tk = self.expr(l, env)
                d, td = self.expr(r, env)
                if isinstance(td, tuple) and td[0] == "dict" and tk == "str":
                    s = f"(dict_mem {d} {k})"
                    return (s if isinstance(op, ast.In) else f"(negb {s})"), "bool"
                # ":" in x: a one-character needle in a str
                if td == "str" and isinstance(l, ast.Constant) and isinstance(l.value, str) and len(l.value) == 1 \
                        and 32 <= ord(l.value) < 127:
                    s = f"(str_contains1 (Ascii.ascii_of_nat {ord(l.value)}) {d})"
                    return (s if isinstance(op, ast.In) else f"(negb {s})"), "bool"
                # b"x" in value: a one-byte needle in a byte string
                if td == "bytes" and isinstance(l, ast.Constant) and isinstance(l.value, bytes) and len(l.value) == 1:
                    s = f"(bytes_contains1 {l.value[0]} {d})"
                    return (s if isinstance(op, ast.In) else f"(negb {s})"), "bool"
                raise Unsupported(e, "membership")
            a, ta = self.expr(l, env)
            b, tb = self.expr(r, env)
            if ta == "Z" and tb == "Z":
                sym = {ast.Eq: "=?", ast.Lt: "<?", ast.Gt: ">?", ast.LtE: "<=?", ast.GtE: ">=?"}
                for k, v in sym.items():
                    if isinstance(op, k):
                        return f"({a} {v} {b})", "bool"
                if isinstance(op, ast.NotEq):
                    return f"(negb ({a} =? {b}))", "bool"
            if ta == "str" and tb == "str" and isinstance(op, ast.Eq):
                return f"(String.eqb {a} {b})", "bool"
            raise Unsupported(e, "comparison")
        if isinstance(e, ast.Subscript):
            v, tv = self.expr(e.value, env)
            if isinstance(tv, tuple) and tv[0] == "dict":
                k, tk = self.expr(e.slice, env)
                self.want(e, tk, "str")
                return f"(dict_get {tdefault(tv[1])} {v} {k})", tv[1]
            if isinstance(tv, tuple) and tv[0] == "pair" and isinstance(e.slice, ast.Constant):
                if e.slice.value == 0:
                    return f"(fst {v})", tv[1]
                if e.slice.value == 1:
                    return f"(snd {v})", tv[2]
            raise Unsupported(e, "subscript")
        if isinstance(e, ast.ListComp) and len(e.generators) == 1 and isinstance(e.generators[0].target, ast.Name) \
                and isinstance(e.elt, ast.Name) and e.elt.id == e.generators[0].target.id \
                and not e.generators[0].is_async:
            # [x for x in xs if c1 if c2]: a filter
            g = e.generators[0]
            xs, txs = self.expr(g.iter, env)
            self.want(e, txs, "lstr")
            v = self.safe(g.target.id)
            env2 = dict(env)
            env2[g.target.id] = (v, "str")
            conds = []
            for c in g.ifs:
                a, ta = self.expr(c, env2)
                self.want(c, ta, "bool")
                conds.append(a)
            return f"(filter (fun {v} : string => {' && '.join(conds) or 'true'}) {xs})", "lstr"
        if isinstance(e, ast.Call):
            src = ast.unparse(e.func)
            if src == "time.time" and self.now and not e.args:
                return "now", "Z"
            if src == "list" and len(e.args) == 1:
                return self.expr(e.args[0], env)
            if src == "len" and len(e.args) == 1:
                a, ta = self.expr(e.args[0], env)
                self.want(e, ta, "bytes")
                return f"(Z.of_nat (List.length {a}))", "Z"
            if src == "range" and len(e.args) == 2:
                a, ta = self.expr(e.args[0], env)
                b, tb = self.expr(e.args[1], env)
                self.want(e, ta, "Z")
                self.want(e, tb, "Z")
                return f"(py_range {a} {b})", "lZ"
            if src == "sorted" and len(e.args) == 1 and isinstance(e.args[0], ast.Call) \
                    and ast.unparse(e.args[0].func) == "set" and len(e.args[0].args) == 1:
                a, ta = self.expr(e.args[0].args[0], env)
                self.want(e, ta, "lZ")
                return f"(sorted_set {a})", "lZ"
            if isinstance(e.func, ast.Attribute) and e.func.attr == "isascii" and not e.args:
                a, ta = self.expr(e.func.value, env)
                self.want(e, ta, "str")
                return f"(str_isascii {a})", "bool"
            if isinstance(e.func, ast.Attribute):
                meth = e.func.attr
                if meth == "endswith" and len(e.args) == 1:
                    a, ta = self.expr(e.func.value, env)
                    b, tb = self.expr(e.args[0], env)
                    if ta == "bytes" and tb == "bytes":
                        return f"(bytes_endswith {a} {b})", "bool"
                if meth == "startswith" and len(e.args) == 1:
                    a, ta = self.expr(e.func.value, env)
                    b, tb = self.expr(e.args[0], env)
                    if ta == "bytes" and tb == "bytes":
                        return f"(bytes_startswith {a} {b})", "bool"
                if meth == "replace" and len(e.args) == 2 and isinstance(e.args[0], ast.Constant) \
                        and isinstance(e.args[0].value, bytes) and len(e.args[0].value) == 1:
                    # value.replace(b"x", new): a one-byte pattern (occurrences cannot overlap)
                    a, ta = self.expr(e.func.value, env)
                    b, tb = self.expr(e.args[1], env)
                    if ta == "bytes" and tb == "bytes":
                        return f"(bytes_replace1 {e.args[0].value[0]} {b} {a})", "bytes"
                if meth == "split" and len(e.args) == 1:
                    a, ta = self.expr(e.func.value, env)
                    b, tb = self.expr(e.args[0], env)
                    if ta == "bytes" and tb == "bytes":
                        return f"(bytes_split {a} {b})", "lbytes"
                if meth == "join" and len(e.args) == 1:
                    a, ta = self.expr(e.func.value, env)
                    b, tb = self.expr(e.args[0], env)
                    if ta == "bytes" and tb == "lbytes":
                        return f"(bytes_join {a} {b})", "bytes"
            raise Unsupported(e, "call")
        raise Unsupported(e, "expression")

    def want(self, node, t, expected):
        if t != expected:
            raise Unsupported(node, f"type {t} where {expected} expected")

    # ---------- statements (CPS) ----------
    def assigned(self, stmts) -> list[str]:
        """names (re)bound or mutated by stmts, in first-occurrence order"""
        out: list[str] = []

        def add(n):
            if n not in out:
                out.append(n)

        for s in stmts:
            for n in ast.walk(s):
                if isinstance(n, ast.AugAssign) and isinstance(n.target, ast.Name):
                    add(n.target.id)
                if isinstance(n, ast.Assign):
                    for t in n.targets:
                        if isinstance(t, ast.Name):
                            add(t.id)
                        elif isinstance(t, ast.Subscript) and isinstance(t.value, ast.Name):
                            add(t.value.id)
                        elif isinstance(t, ast.Tuple):
                            for x in t.elts:
                                if isinstance(x, ast.Name):
                                    add(x.id)
                elif isinstance(n, ast.Delete):
                    for t in n.targets:
                        if isinstance(t, ast.Subscript) and isinstance(t.value, ast.Name):
                            add(t.value.id)
                elif isinstance(n, ast.Call) and isinstance(n.func, ast.Attribute) \
                        and n.func.attr in ("append", "extend") and isinstance(n.func.value, ast.Name):
                    add(n.func.value.id)
        return out

    def block(self, stmts, env, k) -> str:
        """translate stmts then continue with k(env) -> coq text of type res _"""
        if not stmts:
            return k(env)
        s, rest = stmts[0], stmts[1:]
        cont = lambda env2: self.block(rest, env2, k)  # noqa: E731

        # x += e  is  x = x + e
        if isinstance(s, ast.AugAssign) and isinstance(s.target, ast.Name):
            s2 = ast.Assign(targets=[ast.Name(id=s.target.id, ctx=ast.Store())],
                            value=ast.BinOp(left=ast.Name(id=s.target.id, ctx=ast.Load()), op=s.op, right=s.value))
            ast.copy_location(s2, s)
            ast.fix_missing_locations(s2)
            return self.block([s2] + rest, env, k)
        # docstrings, logging, asserts-for-mypy
        if isinstance(s, ast.Expr) and isinstance(s.value, ast.Constant) and isinstance(s.value.value, str):
            return cont(env)
        if isinstance(s, ast.Expr) and isinstance(s.value, ast.Call) and \
                ast.unparse(s.value.func).startswith("logger."):
            return cont(env)
        if isinstance(s, ast.Assert):
            t = s.test
            if isinstance(t, ast.Call) and ast.unparse(t.func) == "isinstance" and \
                    isinstance(t.args[0], ast.Name) and ast.unparse(t.args[1]) == "int" and \
                    env.get(t.args[0].id, (None, None))[1] == "Z":
                return cont(env)
            raise Unsupported(s, "assert")
        if isinstance(s, ast.Raise):
            return self.raise_(s)
        if isinstance(s, ast.Return):
            return self.ret_(s, env)
        # x.append(e) / x.extend(e)
        if isinstance(s, ast.Expr) and isinstance(s.value, ast.Call) and isinstance(s.value.func, ast.Attribute) \
                and s.value.func.attr in ("append", "extend") and isinstance(s.value.func.value, ast.Name):
            x = s.value.func.value.id
            xc, xt = env[x]
            a, ta = self.expr(s.value.args[0], env)
            if s.value.func.attr == "append":
                elem = {"lZ": "Z", "lbytes": "bytes"}.get(xt)
                self.want(s, ta, elem)
                rhs = f"({xc} ++ [{a}])"
            else:
                self.want(s, ta, xt)
                rhs = f"({xc} ++ {a})"
            env2 = dict(env)
            env2[x] = (x, xt)
            return f"let {x} := {rhs} in\n{cont(env2)}"
        if isinstance(s, ast.Assign) and len(s.targets) == 1:
            t = s.targets[0]
            if isinstance(t, ast.Name):
                if isinstance(s.value, ast.List) and not s.value.elts:
                    ty = self.local_types().get(t.id)
                    if ty is None:
                        raise Unsupported(s, "empty list of unknown type (add to profile locals)")
                    a, ta = "[]", ty
                else:
                    a, ta = self.expr(s.value, env)
                env2 = dict(env)
                nm = self.safe(t.id)
                env2[t.id] = (nm, ta)
                return f"let {nm} := {a} in\n{cont(env2)}"
            if isinstance(t, ast.Subscript) and isinstance(t.value, ast.Name):
                d = t.value.id
                dc, dt = env[d]
                if not (isinstance(dt, tuple) and dt[0] == "dict"):
                    raise Unsupported(s, "subscript assignment on non-dict")
                kx, tk = self.expr(t.slice, env)
                self.want(s, tk, "str")
                v, tv = self.expr(s.value, env)
                self.want(s, tv, dt[1])
                env2 = dict(env)
                env2[d] = (d, dt)
                return f"let {d} := dict_set {dc} {kx} {v} in\n{cont(env2)}"
            if isinstance(t, ast.Tuple) and len(t.elts) == 2 and all(isinstance(x, ast.Name) for x in t.elts):
                raise Unsupported(s, "tuple destructuring outside the range idiom")
        if isinstance(s, ast.Delete) and len(s.targets) == 1 and isinstance(s.targets[0], ast.Subscript) \
                and isinstance(s.targets[0].value, ast.Name):
            d = s.targets[0].value.id
            dc, dt = env[d]
            kx, tk = self.expr(s.targets[0].slice, env)
            self.want(s, tk, "str")
            env2 = dict(env)
            env2[d] = (d, dt)
            return f"let {d} := dict_del {dc} {kx} in\n{cont(env2)}"
        if isinstance(s, ast.If):
            return self.if_(s, env, cont)
        if isinstance(s, ast.For):
            return self.for_(s, env, cont)
        raise Unsupported(s, "statement")

    def safe(self, n: str) -> str:
        return n + "_" if n in ("end", "at", "in", "as", "with", "return", "fix", "match", "then", "else") else n

    def local_types(self):
        return self.profile_locals

    def raise_(self, s) -> str:
        if s.exc is None or not isinstance(s.exc, ast.Call):
            raise Unsupported(s, "raise")
        cls = ast.unparse(s.exc.func)
        return f"Err {EXC.get(cls, 'EOther')}"

    def ret_(self, s, env) -> str:
        if self.in_loop:
            raise Unsupported(s, "return inside a loop")
        if s.value is None:
            v = None
        else:
            v, tv = self.expr(s.value, env)
            self.want(s, tv, self.ret)
        return self.final(env, v)

    def final(self, env, v) -> str:
        parts = [env[n][0] for n, _ in self.state]
        if self.ret is not None:
            if v is None:
                raise Unsupported(self.fn, "missing return value")
            parts.append(v)
        if not parts:
            return "Ok tt"
        return "Ok (" + ", ".join(parts) + ")" if len(parts) > 1 else f"Ok {parts[0]}"

    def if_(self, s: ast.If, env, cont) -> str:
        # idiom 1: `if X == "*": X = E` on an atom variable -> retype X as Z
        t = s.test
        if (not s.orelse and len(s.body) == 1 and isinstance(s.body[0], ast.Assign)
                and isinstance(t, ast.Compare) and isinstance(t.left, ast.Name)
                and len(t.ops) == 1 and isinstance(t.ops[0], ast.Eq)
                and isinstance(t.comparators[0], ast.Constant) and t.comparators[0].value == "*"
                and isinstance(s.body[0].targets[0], ast.Name) and s.body[0].targets[0].id == t.left.id
                and env.get(t.left.id, (None, None))[1] == "atom"):
            x = t.left.id
            e, te = self.expr(s.body[0].value, env)
            self.want(s, te, "Z")
            env2 = dict(env)
            nm = self.safe(x)
            env2[x] = (nm, "Z")
            return f"let {nm} := atom_or {env[x][0]} {e} in\n{cont(env2)}"
        # idiom 2: dispatch on a sequence-set element
        if isinstance(t, ast.Compare) and isinstance(t.left, ast.Name) and env.get(t.left.id, (None, None))[1] == "elt" \
                and isinstance(t.comparators[0], ast.Constant) and t.comparators[0].value == "*":
            return self.elt_match(s, env, cont)
        c, tc = self.expr(t, env)
        self.want(s, tc, "bool")
        # join form: neither branch leaves the function, every name they bind already exists
        leaves = any(isinstance(n, (ast.Return, ast.Raise)) for b in (s.body + s.orelse) for n in ast.walk(b))
        names = self.assigned(s.body + s.orelse)
        if not leaves and names and all(n in env for n in names):
            def tup(e2):
                for n in names:
                    if e2[n][1] != env[n][1]:
                        raise Unsupported(s, f"branch changes the type of {n}")
                return "(" + ", ".join(e2[n][0] for n in names) + ")" if len(names) > 1 else e2[names[0]][0]
            a = self.block(s.body, env, tup)
            b = self.block(s.orelse, env, tup)
            env2 = dict(env)
            for n in names:
                env2[n] = (n, env[n][1])
            pat = "'(" + ", ".join(names) + ")" if len(names) > 1 else names[0]
            return f"let {pat} := (if {c}\nthen ({a})\nelse ({b})) in\n{cont(env2)}"
        a = self.block(s.body, env, cont)
        b = self.block(s.orelse, env, cont)
        return f"if {c}\nthen ({a})\nelse ({b})"

    def elt_match(self, s: ast.If, env, cont) -> str:
        x = s.test.left.id
        arms = {}
        node = s
        # arm 1: == "*"
        arms["star"] = node.body
        if len(node.orelse) != 1 or not isinstance(node.orelse[0], ast.If):
            raise Unsupported(s, "element dispatch: expected elif isinstance(..., int)")
        node = node.orelse[0]
        if ast.unparse(node.test) != f"isinstance({x}, int)":
            raise Unsupported(node, "element dispatch: expected isinstance(elt, int)")
        arms["num"] = node.body
        if len(node.orelse) != 1 or not isinstance(node.orelse[0], ast.If):
            raise Unsupported(node, "element dispatch: expected elif isinstance(..., tuple)")
        node = node.orelse[0]
        if ast.unparse(node.test) != f"isinstance({x}, tuple)":
            raise Unsupported(node, "element dispatch: expected isinstance(elt, tuple)")
        if node.orelse:
            raise Unsupported(node, "element dispatch: unexpected else")
        body = node.body
        d = body[0]
        if not (isinstance(d, ast.Assign) and isinstance(d.targets[0], ast.Tuple) and len(d.targets[0].elts) == 2
                and isinstance(d.value, ast.Name) and d.value.id == x):
            raise Unsupported(d, "element dispatch: expected `a, b = elt`")
        n1, n2 = (e.id for e in d.targets[0].elts)
        env_star = dict(env)
        env_star[x] = ("EStar", "elt")
        env_num = dict(env)
        env_num[x] = (self.safe(x) + "_n", "Z")
        env_rng = dict(env)
        env_rng[n1] = (self.safe(n1) + "_a", "atom")
        env_rng[n2] = (self.safe(n2) + "_a", "atom")
        # in the "*" arm the code uses seq_max for elt, never elt itself
        a_star = self.block(arms["star"], {k: v for k, v in env.items() if k != x}, cont)
        a_num = self.block(arms["num"], env_num, cont)
        a_rng = self.block(body[1:], env_rng, cont)
        return (f"match {env[x][0]} with\n| EStar => ({a_star})\n| ENum {env_num[x][0]} => ({a_num})\n"
                f"| ERange {env_rng[n1][0]} {env_rng[n2][0]} => ({a_rng})\nend")

    def for_(self, s: ast.For, env, cont) -> str:
        if s.orelse or not isinstance(s.target, ast.Name):
            raise Unsupported(s, "for")
        it, tit = self.expr(s.iter, env)
        elem = {"lelt": "elt", "lZ": "Z", "lbytes": "bytes"}.get(tit)
        if elem is None:
            raise Unsupported(s, "iteration over " + str(tit))
        carried = [n for n in self.assigned(s.body) if n in env]
        for n in self.assigned(s.body):
            if n not in env and n != s.target.id:
                # body-local variable: fine as long as it is not used after the loop
                pass
        self.nbody += 1
        bname = f"{self.name}_body{self.nbody}"
        # parameters of the body: every function parameter/state var that is not carried
        fixed = [(n, env[n]) for n in env if n not in carried]
        benv = {n: (n if n in carried else c, t) for n, (c, t) in env.items()}
        for n, (c, t) in fixed:
            benv[n] = (self.safe(n), t)
        benv[s.target.id] = (self.safe(s.target.id), elem)
        was = self.in_loop
        self.in_loop = True
        ctuple = "(" + ", ".join(carried) + ")" if len(carried) != 1 else carried[0]
        ctype = " * ".join(tname(env[n][1]) for n in carried) if carried else "unit"
        if not carried:
            ctuple = "tt"
        body = self.block(s.body, benv, lambda e2: "Ok " + (
            "(" + ", ".join(e2[n][0] for n in carried) + ")" if len(carried) != 1 else e2[carried[0]][0]) if carried else "Ok tt")
        self.in_loop = was
        params = " ".join(f"({self.safe(n)} : {tname(t)})" for n, (c, t) in fixed)
        pat = ctuple if len(carried) <= 1 else "'" + ctuple
        self.bodies.append(
            f"Definition {bname} {params} (st : {ctype}) ({self.safe(s.target.id)} : {tname(elem)}) : res ({ctype}) :=\n"
            f"let {pat} := st in\n{body}.\n")
        args = " ".join(c for n, (c, t) in fixed)
        env2 = dict(env)
        for n in carried:
            env2[n] = (n, env[n][1])
        init = "(" + ", ".join(env[n][0] for n in carried) + ")" if len(carried) != 1 else env[carried[0]][0]
        if not carried:
            init = "tt"
        return (f"match for_each ({bname} {args}) {init} {it} with\n| Err e => Err e\n| Ok {pat} =>\n"
                f"{cont(env2)}\nend")

    def translate(self, locals_: dict) -> str:
        self.profile_locals = locals_
        self.in_loop = False
        env = {}
        for n, t in self.params:
            env[n] = (self.safe(n), t)
        for n, t in self.state:
            env[n] = (n, t)
        rett = [tname(t) for _, t in self.state] + ([tname(self.ret)] if self.ret is not None else [])
        rettype = " * ".join(rett) if rett else "unit"

        def fallthrough(e):
            if self.ret is not None:
                raise Unsupported(self.fn, "function may fall off its end")
            return self.final(e, None)

        body = self.block(self.fn.body, env, fallthrough)
        sig = " ".join(f"({self.safe(n)} : {tname(t)})" for n, t in self.state + self.params)
        if self.now:
            sig = "(now : Z) " + sig
        out = "".join(self.bodies)
        out += f"Definition {self.name} {sig} : res ({rettype}) :=\n{body}.\n"
        return out


def module_consts(tree: ast.Module, names: list[str]) -> dict:
    """int / str / tuple-of-str / dict str->str module constants"""
    found = {}
    for node in tree.body:
        tgt = None
        if isinstance(node, ast.Assign) and len(node.targets) == 1 and isinstance(node.targets[0], ast.Name):
            tgt, val = node.targets[0].id, node.value
        elif isinstance(node, ast.AnnAssign) and isinstance(node.target, ast.Name) and node.value is not None:
            tgt, val = node.target.id, node.value
        if tgt in names:
            try:
                found[tgt] = ast.literal_eval(val)
            except Exception:
                raise Unsupported(node, "constant is not a literal")
    missing = [n for n in names if n not in found]
    if missing:
        raise Unsupported(tree, f"constants not found: {missing}")
    return found


def emit_const(name: str, v) -> str:
    if isinstance(v, bool):
        raise ValueError(name)
    if isinstance(v, int):
        return f"Definition {name} : Z := {v}.\n"
    if isinstance(v, str):
        return f"Definition {name} : string := {coq_string(v)}.\n"
    if isinstance(v, (tuple, list)) and all(isinstance(x, str) for x in v):
        return f"Definition {name} : list string := [{'; '.join(coq_string(x) for x in v)}].\n"
    if isinstance(v, dict) and all(isinstance(a, str) and isinstance(b, str) for a, b in v.items()):
        return (f"Definition {name} : list (string * string) := ["
                + "; ".join(f"({coq_string(a)}, {coq_string(b)})" for a, b in v.items()) + "].\n")
    if isinstance(v, dict) and all(isinstance(a, str) and isinstance(b, (tuple, list)) for a, b in v.items()):
        return (f"Definition {name} : list (string * list string) := ["
                + "; ".join(f"({coq_string(a)}, [{'; '.join(coq_string(x) for x in b)}])" for a, b in v.items()) + "].\n")
    raise ValueError(f"constant {name}: unsupported value {v!r}")


def find_fn(tree, name):
    for node in ast.walk(tree):
        if isinstance(node, (ast.FunctionDef, ast.AsyncFunctionDef)) and node.name == name:
            return node
    raise Unsupported(tree, f"function {name} not found")


HEADER = "(* GENERATED by tools/py2v.py from {src} — do not edit *)\nFrom Asimap Require Import Base.Res{extra}.\nOpen Scope Z_scope.\n\n"


def gen_seqset(repo: Path) -> str:
    src = repo / "asimap/utils.py"
    tree = ast.parse(src.read_text())
    fn = find_fn(tree, "sequence_set_to_list")
    tr = FnTranslator(fn, {"params": [("seq_set", "lelt"), ("seq_max", "Z"), ("uid_cmd", "bool")], "ret": "lZ"}, {})
    return HEADER.format(src="asimap/utils.py", extra="") + tr.translate({"result": "lZ"})


def gen_throttle(repo: Path) -> str:
    src = repo / "asimap/throttle.py"
    tree = ast.parse(src.read_text())
    cs = module_consts(tree, ["PURGE_TIME", "MAX_USER_ATTEMPTS", "MAX_ADDR_ATTEMPTS", "BAD_USER_AUTHS", "BAD_IP_AUTHS"])
    if cs["BAD_USER_AUTHS"] != {} or cs["BAD_IP_AUTHS"] != {}:
        raise Unsupported(tree, "throttle tables do not start empty")
    out = HEADER.format(src="asimap/throttle.py", extra="")
    consts = {}
    for n in ["PURGE_TIME", "MAX_USER_ATTEMPTS", "MAX_ADDR_ATTEMPTS"]:
        out += emit_const(n, cs[n])
        consts[n] = (n, "Z")
    dt = ("dict", ("pair", "Z", "Z"))
    st = [("BAD_USER_AUTHS", dt), ("BAD_IP_AUTHS", dt)]
    for name, ret in (("login_failed", None), ("check_allow", "bool")):
        tr = FnTranslator(find_fn(tree, name),
                          {"params": [("user", "str"), ("addr", "str")], "state": st, "ret": ret, "now": True}, consts)
        out += "\n" + tr.translate({})
    return out


def gen_dotstuff(repo: Path) -> str:
    src = repo / "asimap/pop3_client.py"
    tree = ast.parse(src.read_text())
    tr = FnTranslator(find_fn(tree, "dot_stuff"), {"params": [("data", "bytes")], "ret": "bytes"}, {})
    out = HEADER.format(src="asimap/pop3_client.py", extra=" Base.Bytes") + tr.translate({"result": "lbytes"})
    tr2 = FnTranslator(find_fn(tree, "end_multiline"), {"params": [("data", "bytes")], "ret": "bytes"}, {})
    return out + "\n" + tr2.translate({})


def gen_quote(repo: Path) -> str:
    src = repo / "asimap/utils.py"
    tree = ast.parse(src.read_text())
    tr = FnTranslator(find_fn(tree, "imap_string"), {"params": [("value", "bytes")], "ret": "bytes"}, {})
    return HEADER.format(src="asimap/utils.py", extra=" Base.Bytes") + tr.translate({})


def gen_keywords(repo: Path) -> str:
    src = repo / "asimap/mbox.py"
    tree = ast.parse(src.read_text())
    # the SYSTEM_FLAG_MAP the function consults must be the one of constants.py (Gen/Flags.v)
    ok = any(isinstance(n, ast.ImportFrom) and n.module == "constants" and n.level == 1
             and any(a.name == "SYSTEM_FLAG_MAP" and a.asname is None for a in n.names) for n in tree.body)
    if not ok:
        raise Unsupported(tree, "mbox.py does not import SYSTEM_FLAG_MAP from .constants")
    tr = FnTranslator(find_fn(tree, "unstorable_keywords"), {"params": [("flags", "lstr")], "ret": "lstr"},
                      {"SYSTEM_FLAG_MAP": ("SYSTEM_FLAG_MAP", ("dict", "str"))})
    return HEADER.format(src="asimap/mbox.py", extra=" Gen.Flags") + tr.translate({})


def gen_flags(repo: Path) -> str:
    src = repo / "asimap/constants.py"
    tree = ast.parse(src.read_text())
    cs = module_consts(tree, ["SYSTEM_FLAGS", "NON_SETTABLE_FLAGS", "PERMANENT_FLAGS", "SYSTEM_FLAG_MAP"])
    out = HEADER.format(src="asimap/constants.py", extra="")
    for n, v in cs.items():
        out += emit_const(n, v)
    # REV_SYSTEM_FLAG_MAP must be the literal inversion
    ok = False
    for node in tree.body:
        if isinstance(node, ast.Assign) and ast.unparse(node.targets[0]) == "REV_SYSTEM_FLAG_MAP":
            ok = ast.unparse(node.value) == "{v: k for k, v in SYSTEM_FLAG_MAP.items()}"
    if not ok:
        raise Unsupported(tree, "REV_SYSTEM_FLAG_MAP is not the inversion of SYSTEM_FLAG_MAP")
    out += "Definition REV_SYSTEM_FLAG_MAP : list (string * string) := map (fun p => (snd p, fst p)) SYSTEM_FLAG_MAP.\n"
    # flag_to_seq / seq_to_flag: one-line conditional expressions over the maps
    for name, mp, arg in (("flag_to_seq", "REV_SYSTEM_FLAG_MAP", "flag"), ("seq_to_flag", "SYSTEM_FLAG_MAP", "seq")):
        fn = find_fn(tree, name)
        body = [s for s in fn.body if not (isinstance(s, ast.Expr) and isinstance(s.value, ast.Constant))]
        want = f"return {mp}[{arg}] if {arg} in {mp} else {arg}"
        if len(body) != 1 or ast.unparse(body[0]) != want:
            raise Unsupported(fn, f"{name} is not `{want}`")
        out += (f"Definition {name} ({arg} : string) : string :=\n"
                f"  if dict_mem {mp} {arg} then dict_get \"\"%string {mp} {arg} else {arg}.\n")
    return out


TARGETS = {
    "SeqSet": gen_seqset,
    "Throttle": gen_throttle,
    "DotStuff": gen_dotstuff,
    "Flags": gen_flags,
    "Quote": gen_quote,
    "Keywords": gen_keywords,
}


def generate(repo: Path, outdir: Path, only=None) -> dict:
    """returns {target: {"status": "ok"|"unchanged"|"error", "sha": ..., "error": ...}}"""
    outdir.mkdir(parents=True, exist_ok=True)
    report = {}
    for name, fn in TARGETS.items():
        if only and name not in only:
            continue
        path = outdir / f"{name}.v"
        try:
            text = fn(repo)
        except (Unsupported, SyntaxError, ValueError, KeyError, OSError) as e:
            # fail closed: leave a file that does not compile, so no stale .vo is used
            text = f"(* GENERATION FAILED: {str(e).replace('*)', '* )')} *)\nDefinition generation_failed : False := I.\n"
            report[name] = {"status": "error", "error": str(e)}
        else:
            report[name] = {"status": "ok"}
        report[name]["sha"] = hashlib.sha256(text.encode()).hexdigest()[:16]
        if not path.exists() or path.read_text() != text:
            path.write_text(text)
            report[name]["written"] = True
    return report


if __name__ == "__main__":
    repo = Path(os.environ.get("VERIF_REPO", "/repo"))
    out = Path(sys.argv[1]) if len(sys.argv) > 1 else Path(__file__).resolve().parent.parent / "coq/Gen"
    rep = generate(repo, out)
    for k, v in rep.items():
        print(k, v)
    sys.exit(1 if any(v["status"] == "error" for v in rep.values()) else 0)
