#!/venv/bin/python
"""Seeded changes (made by fresh sub-agents that saw only the property text).

  seedtest.py confirm <dir>           dir holds patch.diff + demo.py: in a scratch worktree of /repo HEAD check that
                                      the patch applies, the demo exits 0 on the clean tree and 1 on the patched tree,
                                      and the baseline suite's stable_pass set still passes with the patch.
  seedtest.py run <id> [PROP ...]     apply seeded/<id>/patch.diff to a scratch worktree (VERIF_REPO, never /repo itself,
                                      so that concurrent runs cannot collide) and run the given checks (default: the
                                      property of meta.json) quick, then thorough if quick misses; prints DETECTED/MISSED.
  seedtest.py all                     run every seeded/<id> and rewrite seeded/RESULTS.md

Worktrees live under /tmp and are removed afterwards; evidence files are saved and restored."""
import json, os, subprocess, sys, shutil, tempfile, xml.etree.ElementTree as ET

PY = "/venv/bin/python"
SEEDED = "/verif/seeded"


def worktree():
    wt = tempfile.mkdtemp(prefix="seed-wt-", dir="/tmp")
    os.rmdir(wt)
    subprocess.run(["git", "-C", "/repo", "worktree", "add", "-q", "--detach", wt, "HEAD"], check=True)
    return wt


def drop(wt):
    subprocess.run(["git", "-C", "/repo", "worktree", "remove", "--force", wt], capture_output=True)
    shutil.rmtree(wt, ignore_errors=True)


def demo(wt, script):
    r = subprocess.run([PY, script], cwd=wt, capture_output=True, text=True, timeout=600,
                       env={**os.environ, "PYTHONPATH": wt, "PYTHONHASHSEED": "0"})
    return r.returncode, (r.stdout + r.stderr).strip().splitlines()[-3:]


def suite(wt, only=()):
    junit = f"{wt}/junit.xml"
    subprocess.run([PY, "-m", "pytest", "-ra", "-q", "-p", "no:cacheprovider", "--timeout=900",
                    "--continue-on-collection-errors", f"--junitxml={junit}", *only], cwd=wt, capture_output=True, text=True,
                   env={**os.environ, "PYTHONPATH": wt})
    stable = set(json.load(open("/root/.vp/BASELINE.json"))["stable_pass"])
    if only:
        stable = {t for t in stable if any(o.replace("/", ".").removesuffix(".py") in t for o in only)}
    passed = set()
    for tc in ET.parse(junit).getroot().iter("testcase"):
        if not any(c.tag in ("failure", "error", "skipped") for c in tc):
            passed.add(f"{tc.get('classname')}::{tc.get('name')}")
    os.unlink(junit)
    return sorted(stable - passed)


def confirm(d):
    d = os.path.abspath(d)
    wt = worktree()
    res = {}
    try:
        rc0, out0 = demo(wt, f"{d}/demo.py")
        res["demo_clean"] = [rc0, out0]
        a = subprocess.run(["git", "-C", wt, "apply", f"{d}/patch.diff"], capture_output=True, text=True)
        if a.returncode:
            # the tree has moved on since the seed was made (fix commits): try a three-way merge and keep the result
            a = subprocess.run(["git", "-C", wt, "apply", "--3way", f"{d}/patch.diff"], capture_output=True, text=True)
            if a.returncode == 0 and not subprocess.run(["git", "-C", wt, "diff", "--name-only", "--diff-filter=U"],
                                                        capture_output=True, text=True).stdout.strip():
                subprocess.run(["git", "-C", wt, "reset", "-q"], check=True)
                shutil.copy(f"{d}/patch.diff", f"{d}/patch.orig.diff")
                open(f"{d}/patch.diff", "w").write(subprocess.check_output(["git", "-C", wt, "diff"], text=True))
                res["rebased"] = True
            else:
                a.returncode = 1
        res["applies"] = a.returncode == 0
        if a.returncode:
            res["apply_error"] = a.stderr[-300:]
            return res
        ch = subprocess.check_output(["git", "-C", wt, "diff", "--name-only"], text=True).split()
        res["files"] = ch
        res["touches_tests"] = any("/test/" in f or f.startswith("test") for f in ch)
        rc1, out1 = demo(wt, f"{d}/demo.py")
        res["demo_patched"] = [rc1, out1]
        missing = suite(wt)
        if missing and all(".test_server::" in m for m in missing):
            # the end-to-end tests start a real server on a port chosen from a fixed seed: they collide with any other
            # suite running on the machine.  Re-run that module alone, one at a time (machine-wide lock).
            import fcntl
            with open("/tmp/seedtest-server.lock", "w") as lk:
                fcntl.flock(lk, fcntl.LOCK_EX)
                for _ in range(3):
                    missing = [m for m in suite(wt, ["asimap/test/test_server.py"]) if ".test_server::" in m]
                    if not missing:
                        break
        elif missing:
            missing = suite(wt)
        res["suite_regressions"] = missing
        res["confirmed"] = (rc0 == 0 and rc1 != 0 and not missing and not res["touches_tests"])
        return res
    finally:
        drop(wt)


def run(sid, props=None, tiers=("quick", "thorough")):
    d = f"{SEEDED}/{sid}"
    meta = json.load(open(f"{d}/meta.json"))
    props = props or [meta["property"]]
    wt = worktree()
    out = {}
    try:
        subprocess.run(["git", "-C", wt, "apply", f"{d}/patch.diff"], check=True)
        for prop in props:
            ev = f"/verif/evidence/{prop}.json"
            saved = open(ev).read() if os.path.exists(ev) else None
            try:
                for tier in tiers:
                    r = subprocess.run(["/verif/check", prop, tier], cwd="/verif", env={**os.environ, "VERIF_REPO": wt},
                                       capture_output=True, text=True)
                    o = r.stdout + r.stderr
                    viol = [l for l in o.splitlines() if l.startswith("VIOLATION")]
                    what = [l for l in o.splitlines() if l.startswith("# ")]
                    det = r.returncode != 0 and bool(viol)
                    out[prop] = {"tier": tier, "detected": det, "what": (what + viol)[:4],
                                 "no_failing_input": any(v.rstrip().endswith("no-failing-input-found") for v in viol)}
                    if det:
                        break
            finally:
                if saved is not None:
                    open(ev, "w").write(saved)
    finally:
        drop(wt)
        subprocess.run([PY, "/verif/tools/py2v.py"], capture_output=True)
    return out


if __name__ == "__main__":
    cmd = sys.argv[1]
    if cmd == "confirm":
        r = confirm(sys.argv[2])
        json.dump(r, open(os.path.join(sys.argv[2], "confirm.json"), "w"), indent=1)
        print(sys.argv[2], "confirmed" if r.get("confirmed") else "NOT-CONFIRMED",
              {k: r.get(k) for k in ("applies", "rebased", "demo_clean", "demo_patched", "suite_regressions", "apply_error")})
    elif cmd == "run":
        print(json.dumps(run(sys.argv[2], sys.argv[3:] or None), indent=1))
    elif cmd in ("update", "table"):
        for sid in (sys.argv[2:] if cmd == "update" else []):
            meta = json.load(open(f"{SEEDED}/{sid}/meta.json"))
            meta["result"] = run(sid, meta.get("checks") or None)
            json.dump(meta, open(f"{SEEDED}/{sid}/meta.json", "w"), indent=1)
            print(sid, {p: ("DETECTED" if v["detected"] else "MISSED", v["tier"]) for p, v in meta["result"].items()}, flush=True)
        with open(f"{SEEDED}/RESULTS.md", "w") as f:
            f.write("| seeded change | what it changes | check | result | tier | first line reported |\n|---|---|---|---|---|---|\n")
            for sid in sorted(os.listdir(SEEDED)):
                if not os.path.exists(f"{SEEDED}/{sid}/meta.json"):
                    continue
                meta = json.load(open(f"{SEEDED}/{sid}/meta.json"))
                for p, v in (meta.get("result") or {}).items():
                    f.write(f"| {sid} | {meta.get('summary', '')[:110].replace('|', '/')} | {p} | "
                            f"{'DETECTED' if v['detected'] else 'MISSED'} | {v['tier']} | "
                            f"{(v['what'][0] if v['what'] else '')[:110].replace('|', '/')} |\n")
                if meta.get("note"):
                    f.write(f"| {sid} | note | | | | {meta['note'][:300].replace('|', '/')} |\n")
    elif cmd == "all":
        rows = []
        for sid in sorted(os.listdir(SEEDED)):
            if not os.path.exists(f"{SEEDED}/{sid}/meta.json"):
                continue
            meta = json.load(open(f"{SEEDED}/{sid}/meta.json"))
            r = run(sid, meta.get("checks") or None)
            meta["result"] = r
            json.dump(meta, open(f"{SEEDED}/{sid}/meta.json", "w"), indent=1)
            for p, v in r.items():
                rows.append((sid, p, "DETECTED" if v["detected"] else "MISSED", v["tier"],
                             (v["what"][0] if v["what"] else "")[:110]))
                print(rows[-1], flush=True)
        with open(f"{SEEDED}/RESULTS.md", "w") as f:
            f.write("| seeded change | check | result | tier | first line reported |\n|---|---|---|---|---|\n")
            for r in rows:
                f.write("| " + " | ".join(r) + " |\n")
