#!/venv/bin/python
"""Self-test: apply one textual mutation to a scratch worktree of /repo and run a check against it.
usage: mutest.py <PROP> <file> <old> <new> [tier]   (old/new are python string literals, \\n allowed)
       mutest.py --batch tools/mutants.json [name ...]
Worktrees live under /tmp and are removed afterwards."""
import json, os, subprocess, sys, tempfile, shutil

def run_one(prop, edits, tier="quick", patch=None):
    wt = tempfile.mkdtemp(prefix="mut-", dir="/tmp")
    os.rmdir(wt)
    subprocess.run(["git", "-C", "/repo", "worktree", "add", "-q", "--detach", wt, "HEAD"], check=True)
    try:
        if patch:
            subprocess.run(["git", "-C", wt, "apply", patch], check=True)
        for f, old, new in edits:
            p = os.path.join(wt, f)
            s = open(p).read()
            if s.count(old) < 1:
                return "EDIT-NOT-APPLICABLE", f"{f}: pattern not found: {old[:60]!r}"
            s = s.replace(old, new, 1)
            open(p, "w").write(s)
        env = dict(os.environ, VERIF_REPO=wt)
        ev = f"/verif/evidence/{prop}.json"
        saved = open(ev).read() if os.path.exists(ev) else None
        r = subprocess.run(["/verif/check", prop, tier], cwd="/verif", env=env, capture_output=True, text=True)
        out = r.stdout + r.stderr
        if saved is not None:
            open(ev, "w").write(saved)
        viol = [l for l in out.splitlines() if l.startswith("VIOLATION")]
        what = [l for l in out.splitlines() if l.startswith("# ")]
        return ("DETECTED" if r.returncode != 0 and viol else "MISSED"), "\n".join((what + viol)[:6]) + "\n" + out.splitlines()[-1]
    finally:
        subprocess.run(["git", "-C", "/repo", "worktree", "remove", "--force", wt], capture_output=True)
        shutil.rmtree(wt, ignore_errors=True)
        subprocess.run(["/venv/bin/python", "/verif/tools/py2v.py"], capture_output=True)

if __name__ == "__main__":
    if sys.argv[1] == "--batch":
        muts = json.load(open(sys.argv[2]))
        want = set(sys.argv[3:])
        for m in muts:
            if want and m["name"] not in want:
                continue
            for prop in m["props"]:
                st, info = run_one(prop, [tuple(e) for e in m["edits"]], m.get("tier", "quick"))
                print(f"== {m['name']} vs {prop}: {st}\n{info}\n", flush=True)
    else:
        prop, f, old, new = sys.argv[1:5]
        tier = sys.argv[5] if len(sys.argv) > 5 else "quick"
        st, info = run_one(prop, [(f, old.encode().decode("unicode_escape"), new.encode().decode("unicode_escape"))], tier)
        print(st); print(info)
